import BSModel.Model.Entities
import BSModel.Model.Reader
/-! Helper lemmas for C09 (core Lean only). -/
namespace BS.Entities
open BS.Reader

/-! ## lists -/

theorem takeWhile_append_stop (p : Nat → Bool) (a : PStr) (b : Nat) (r : PStr)
    (ha : ∀ x ∈ a, p x = true) (hb : p b = false) : (a ++ b :: r).takeWhile p = a := by
  induction a with
  | nil => simp [hb]
  | cons x xs ih =>
    have hx : p x = true := ha x (by simp)
    simp only [List.cons_append, List.takeWhile, hx]
    rw [ih (fun y hy => ha y (by simp [hy]))]

theorem spanLen_append_stop (p : Nat → Bool) (a : PStr) (b : Nat) (r : PStr)
    (ha : ∀ x ∈ a, p x = true) (hb : p b = false) : spanLen p (a ++ b :: r) = a.length := by
  unfold spanLen; rw [takeWhile_append_stop p a b r ha hb]

theorem spanLen_all (p : Nat → Bool) (a : PStr) (ha : ∀ x ∈ a, p x = true) : spanLen p a = a.length := by
  unfold spanLen
  induction a with
  | nil => rfl
  | cons x xs ih =>
    have hx : p x = true := ha x (by simp)
    simp only [List.takeWhile, hx, List.length_cons]
    rw [ih (fun y hy => ha y (by simp [hy]))]

/-! ## reSub -/

theorem reSub_skip (ps : List Particle) (rep : PStr → PStr) (k : Nat) (l : PStr) :
    reSub ps rep k l = reSub ps rep 0 (l.drop k) := by
  induction l generalizing k with
  | nil => cases k <;> simp [reSub]
  | cons c cs ih =>
    cases k with
    | zero => simp
    | succ k => simp only [reSub, List.drop_succ_cons]; exact ih k

theorem matchesAt_split {p : Particle} {l : PStr} (h : p.matchesAt l = true) :
    p.key ≠ [] ∧ l = p.key ++ l.drop p.key.length := by
  unfold Particle.matchesAt at h
  simp only [Bool.and_eq_true, Bool.not_eq_true', List.isEmpty_eq_false_iff] at h
  obtain ⟨⟨h1, h2⟩, _⟩ := h
  refine ⟨h1, ?_⟩
  have := List.isPrefixOf_iff_prefix.mp h2
  obtain ⟨t, ht⟩ := this
  subst ht
  simp

theorem firstMatch_some {ps : List Particle} {l : PStr} {p : Particle} (h : firstMatch ps l = some p) :
    p ∈ ps ∧ p.matchesAt l = true := by
  unfold firstMatch at h
  exact ⟨List.mem_of_find?_eq_some h, by simpa using List.find?_some h⟩

theorem firstMatch_none {ps : List Particle} {l : PStr} (h : firstMatch ps l = none) :
    ∀ p ∈ ps, p.matchesAt l = false := by
  unfold firstMatch at h
  intro p hp
  have := List.find?_eq_none.mp h p hp
  simpa using this

theorem reSub_hit (ps : List Particle) (rep : PStr → PStr) (p : Particle) (rest : PStr)
    (hk : p.key ≠ []) (h : firstMatch ps (p.key ++ rest) = some p) :
    reSub ps rep 0 (p.key ++ rest) = rep p.key ++ reSub ps rep 0 rest := by
  cases hkey : p.key with
  | nil => exact absurd hkey hk
  | cons c cs =>
    rw [hkey] at h
    simp only [List.cons_append] at h
    simp only [List.cons_append, reSub, h]
    rw [reSub_skip]
    simp [hkey]

theorem reSub_miss (ps : List Particle) (rep : PStr → PStr) (c : Nat) (cs : PStr)
    (h : firstMatch ps (c :: cs) = none) :
    reSub ps rep 0 (c :: cs) = c :: reSub ps rep 0 cs := by
  simp only [reSub, h]

/-- induction along the scan of `reSub` -/
theorem reSub_induction (ps : List Particle) {motive : PStr → Prop}
    (nil : motive [])
    (hit : ∀ p rest, p ∈ ps → p.key ≠ [] → p.matchesAt (p.key ++ rest) = true →
      firstMatch ps (p.key ++ rest) = some p → motive rest → motive (p.key ++ rest))
    (miss : ∀ c cs, firstMatch ps (c :: cs) = none → motive cs → motive (c :: cs)) :
    ∀ l, motive l := by
  intro l
  generalize hn : l.length = n
  induction n using Nat.strongRecOn generalizing l with
  | _ n ih =>
    cases l with
    | nil => exact nil
    | cons c cs =>
      cases hm : firstMatch ps (c :: cs) with
      | none => exact miss c cs hm (ih cs.length (by simp at hn; omega) cs rfl)
      | some p =>
        obtain ⟨hp, hmat⟩ := firstMatch_some hm
        obtain ⟨hk, hsplit⟩ := matchesAt_split hmat
        have hlen : ((c :: cs).drop p.key.length).length < n := by
          have : p.key.length ≠ 0 := by simpa using hk
          simp only [List.length_drop]; simp at hn; simp; omega
        have := hit p ((c :: cs).drop p.key.length) hp hk (by rw [← hsplit]; exact hmat)
          (by rw [← hsplit]; exact hm) (ih _ hlen _ rfl)
        rw [← hsplit] at this
        exact this


/-! ## names -/

/-- `[A-Za-z][A-Za-z0-9]*` -/
def isName (n : PStr) : Bool :=
  match n with
  | [] => false
  | a :: t => isAlpha a && t.all isAlnum

theorem isName_alnum {n : PStr} (h : isName n = true) : ∀ x ∈ n, isAlnum x = true := by
  cases n with
  | nil => simp [isName] at h
  | cons a t =>
    simp only [isName, Bool.and_eq_true, List.all_eq_true] at h
    intro x hx
    simp only [List.mem_cons] at hx
    rcases hx with rfl | hx
    · simp [isAlnum, h.1]
    · exact h.2 x hx

theorem isAlnum_bounds {x : Nat} (h : isAlnum x = true) : 48 ≤ x ∧ x ≤ 122 ∧ x ≠ 59 ∧ x ≠ 60 ∧ x ≠ 62 := by
  simp only [isAlnum, isAlpha, isDigit, Bool.or_eq_true, Bool.and_eq_true, decide_eq_true_eq] at h
  omega

theorem isAlnum_nameChar {x : Nat} (h : isAlnum x = true) : isNameChar x = true := by
  simp [isNameChar, h]

theorem isAlnum_refChar {x : Nat} (h : isAlnum x = true) : isRefChar x = true := by
  have := isAlnum_bounds h
  simp only [isRefChar, Bool.not_eq_true', Bool.or_eq_false_iff, decide_eq_false_iff_not]
  omega

/-! ## readText -/

theorem readText_skip (T : Tbl) (late : Bool) (k : Nat) (l : PStr) : readText T late k l = readText T late 0 (l.drop k) := by
  induction l generalizing k with
  | nil => cases k <;> simp [readText]
  | cons c cs ih =>
    cases k with
    | zero => simp
    | succ k => simp only [readText, List.drop_succ_cons]; exact ih k

theorem readText_plain (T : Tbl) (late : Bool) (c : Nat) (cs : PStr) (h : c ≠ 38) :
    readText T late 0 (c :: cs) = c :: readText T late 0 cs := by
  simp [readText, h]

/-- reading `&name;` followed by anything -/
theorem readText_ref (T : Tbl) (late : Bool) (name rest : PStr) (h : isName name = true) :
    readText T late 0 (ref name ++ rest) = entityRef T name ++ readText T late 0 rest := by
  have hal := isName_alnum h
  cases name with
  | nil => simp [isName] at h
  | cons a t =>
    have ha : isAlpha a = true := by simp only [isName, Bool.and_eq_true] at h; exact h.1
    have ha35 : a ≠ 35 := by
      simp only [isAlpha, Bool.or_eq_true, Bool.and_eq_true, decide_eq_true_eq] at ha; omega
    have hspan : spanLen isNameChar (a :: t ++ 59 :: rest) = (a :: t).length :=
      spanLen_append_stop isNameChar (a :: t) 59 rest (fun x hx => isAlnum_nameChar (hal x hx)) (by decide)
    have hcs : ref (a :: t) ++ rest = 38 :: (a :: t ++ 59 :: rest) := by simp [ref]
    rw [hcs]
    simp only [List.cons_append] at hspan ⊢
    simp only [readText, ne_eq, not_true_eq_false, ↓reduceIte, ha35, ha, hspan]
    rw [readText_skip]
    have h1 : List.drop (a :: t).length (a :: (t ++ 59 :: rest)) = 59 :: rest := by
      rw [← List.cons_append, List.drop_left]
    have h2 : List.take (a :: t).length (a :: (t ++ 59 :: rest)) = a :: t := by
      rw [← List.cons_append, List.take_left]
    rw [h1, h2]
    simp only
    have h3 : List.drop ((a :: t).length + 1) (a :: (t ++ 59 :: rest)) = rest := by
      rw [← List.cons_append, ← List.drop_drop, List.drop_left]; rfl
    rw [h3]


/-! ## well-formedness of the tables (decidable; checked on the generated tables by the kernel) -/

/-- the regex key `p.key` has a name, the name is `[A-Za-z][A-Za-z0-9]*` of at most 31 code points, bs4's reader table
    maps the name back to exactly the key, and so does `html.entities.html5` for `name;`. -/
def entryOK (T : Tbl) (p : Particle) : Bool :=
  match T.toName.get p.key with
  | none => false
  | some n => isName n && decide (n.length ≤ 31) && T.toChar.get n == some p.key && T.html5.get (n ++ [59]) == some p.key

theorem entryOK_spec {T : Tbl} {p : Particle} (h : entryOK T p = true) :
    ∃ n, T.toName.get p.key = some n ∧ isName n = true ∧ n.length ≤ 31 ∧ T.toChar.get n = some p.key ∧
      T.html5.get (n ++ [59]) = some p.key := by
  unfold entryOK at h
  cases hn : T.toName.get p.key with
  | none => simp [hn] at h
  | some n =>
    simp only [hn, Bool.and_eq_true, decide_eq_true_eq, beq_iff_eq] at h
    exact ⟨n, rfl, h.1.1.1, h.1.1.2, h.1.2, h.2⟩

theorem htmlRep_of_entry {T : Tbl} {p : Particle} {n : PStr} (h : T.toName.get p.key = some n) :
    htmlRep T p.key = ref n := by
  simp [htmlRep, h]

/-- some alternative always matches at a `c`: either `c` alone without look-ahead, or `c(?![N])` together with a
    two-code-point alternative `c d` for every `d ∈ N`. -/
def coversChar (ps : List Particle) (c : Nat) : Bool :=
  ps.any fun p => p.key == [c] &&
    p.notNext.all fun d => ps.any fun q => q.key == [c, d] && q.notNext == []

theorem matchesAt_single (c : Nat) (N : List Nat) (cs : PStr) :
    (⟨[c], N⟩ : Particle).matchesAt (c :: cs) = (match cs with | [] => true | d :: _ => !N.contains d) := by
  cases cs <;> simp [Particle.matchesAt, List.isPrefixOf]

theorem matchesAt_pair (c d : Nat) (cs : PStr) :
    (⟨[c, d], []⟩ : Particle).matchesAt (c :: d :: cs) = true := by
  simp [Particle.matchesAt, List.isPrefixOf]
  cases cs <;> simp

theorem coversChar_spec {ps : List Particle} {c : Nat} (h : coversChar ps c = true) (cs : PStr) :
    firstMatch ps (c :: cs) ≠ none := by
  unfold coversChar at h
  simp only [List.any_eq_true, Bool.and_eq_true, beq_iff_eq, List.all_eq_true] at h
  obtain ⟨p, hp, hkey, hN⟩ := h
  intro hnone
  have hno := firstMatch_none hnone
  obtain ⟨k, N⟩ := p
  simp only at hkey hN
  subst hkey
  have hpm := hno _ hp
  rw [matchesAt_single] at hpm
  cases cs with
  | nil => simp at hpm
  | cons d ds =>
    simp only [Bool.not_eq_false', List.contains_iff_mem] at hpm
    obtain ⟨q, hq, hqk, hqn⟩ := hN d hpm
    obtain ⟨qk, qn⟩ := q
    simp only at hqk hqn
    subst hqk; subst hqn
    have := hno _ hq
    rw [matchesAt_pair] at this
    exact absurd this (by simp)


/-- the callback `rep` answers every alternative of `ps` with `&name;` for a well-formed name that both readers map
    back to exactly the matched text -/
def RepOK (T : Tbl) (rep : PStr → PStr) (ps : List Particle) : Prop :=
  ∀ p ∈ ps, ∃ n, rep p.key = ref n ∧ isName n = true ∧ n.length ≤ 31 ∧ T.toChar.get n = some p.key ∧
    T.html5.get (n ++ [59]) = some p.key

theorem repOK_html {T : Tbl} {ps : List Particle} (hE : ∀ p ∈ ps, entryOK T p = true) : RepOK T (htmlRep T) ps := by
  intro p hp
  obtain ⟨n, hn, h1, h2, h3, h4⟩ := entryOK_spec (hE p hp)
  exact ⟨n, htmlRep_of_entry hn, h1, h2, h3, h4⟩

theorem entityRef_of_entry {T : Tbl} {n k : PStr} (h : T.toChar.get n = some k) : entityRef T n = k := by
  simp [entityRef, h]

/-- text round trip of a table-driven substitution, for any alternation whose entries are well-formed and which
    always catches `&` -/
theorem html_text_roundtrip_gen (T : Tbl) (late : Bool) (ps : List Particle) (rep : PStr → PStr)
    (hR : RepOK T rep ps) (h38 : coversChar ps 38 = true) :
    ∀ l, readText T late 0 (reSub ps rep 0 l) = l := by
  refine reSub_induction ps (motive := fun l => readText T late 0 (reSub ps rep 0 l) = l) ?_ ?_ ?_
  · simp [reSub, readText]
  · intro p rest hp hk _ hfm ih
    obtain ⟨n, hn, hname, _, hback, _⟩ := hR p hp
    rw [reSub_hit ps _ p rest hk hfm, hn, readText_ref T late n _ hname, entityRef_of_entry hback, ih]
  · intro c cs hfm ih
    have hc : c ≠ 38 := by
      intro h; subst h; exact coversChar_spec h38 cs hfm
    rw [reSub_miss ps _ c cs hfm, readText_plain T late c _ hc, ih]

theorem not_mem_ref {n : PStr} (h : isName n = true) (x : Nat) (hx : x = 60 ∨ x = 62) : x ∉ ref n := by
  intro hm
  have : x = 38 ∨ x ∈ n ∨ x = 59 := by simpa [ref] using hm
  rcases this with h1 | h1 | h1
  · omega
  · have := isAlnum_bounds (isName_alnum h x h1); omega
  · omega

/-- no raw `<` / `>` survives, for any alternation with well-formed entries that always catches `<` and `>` -/
theorem html_no_raw_gen (T : Tbl) (ps : List Particle) (rep : PStr → PStr)
    (hR : RepOK T rep ps) (h60 : coversChar ps 60 = true) (h62 : coversChar ps 62 = true) :
    ∀ l, 60 ∉ reSub ps rep 0 l ∧ 62 ∉ reSub ps rep 0 l := by
  refine reSub_induction ps
    (motive := fun l => 60 ∉ reSub ps rep 0 l ∧ 62 ∉ reSub ps rep 0 l) ?_ ?_ ?_
  · simp [reSub]
  · intro p rest hp hk _ hfm ih
    obtain ⟨n, hn, hname, _, _, _⟩ := hR p hp
    rw [reSub_hit ps _ p rest hk hfm, hn]
    simp only [List.mem_append, not_or]
    exact ⟨⟨not_mem_ref hname 60 (Or.inl rfl), ih.1⟩, ⟨not_mem_ref hname 62 (Or.inr rfl), ih.2⟩⟩
  · intro c cs hfm ih
    rw [reSub_miss ps _ c cs hfm]
    simp only [List.mem_cons, not_or]
    refine ⟨⟨?_, ih.1⟩, ⟨?_, ih.2⟩⟩
    · intro h; subst h; exact coversChar_spec h60 cs hfm
    · intro h; subst h; exact coversChar_spec h62 cs hfm


/-! ## html.unescape and attribute values -/

theorem unescape_skip (T : Tbl) (k : Nat) (l : PStr) : unescape T k l = unescape T 0 (l.drop k) := by
  induction l generalizing k with
  | nil => cases k <;> simp [unescape]
  | cons c cs ih =>
    cases k with
    | zero => simp
    | succ k => simp only [unescape, List.drop_succ_cons]; exact ih k

theorem unescape_plain (T : Tbl) (c : Nat) (cs : PStr) (h : c ≠ 38) :
    unescape T 0 (c :: cs) = c :: unescape T 0 cs := by
  simp [unescape, h]

theorem namedRef_of_entry {T : Tbl} {s v : PStr} (h : T.html5.get s = some v) : namedRef T s = v := by
  simp [namedRef, h]

/-- `html.unescape` on `&name;` followed by anything -/
theorem unescape_ref (T : Tbl) (name rest v : PStr) (h : isName name = true) (hlen : name.length ≤ 32)
    (hv : T.html5.get (name ++ [59]) = some v) :
    unescape T 0 (ref name ++ rest) = v ++ unescape T 0 rest := by
  have hal := isName_alnum h
  cases name with
  | nil => simp [isName] at h
  | cons a t =>
    have ha : isAlpha a = true := by simp only [isName, Bool.and_eq_true] at h; exact h.1
    have ha35 : a ≠ 35 := by
      simp only [isAlpha, Bool.or_eq_true, Bool.and_eq_true, decide_eq_true_eq] at ha; omega
    have hspan : spanLen isRefChar (a :: t ++ 59 :: rest) = (a :: t).length :=
      spanLen_append_stop isRefChar (a :: t) 59 rest (fun x hx => isAlnum_refChar (hal x hx)) (by decide)
    have hcs : ref (a :: t) ++ rest = 38 :: (a :: t ++ 59 :: rest) := by simp [ref]
    rw [hcs]
    simp only [List.cons_append] at hspan ⊢
    have hmin : min (a :: t).length 32 = (a :: t).length := Nat.min_eq_left hlen
    have hne : (a :: t).length ≠ 0 := by simp
    simp only [unescape, ne_eq, not_true_eq_false, ↓reduceIte, ha35, hspan, hmin, hne]
    have h1 : List.drop (a :: t).length (a :: (t ++ 59 :: rest)) = 59 :: rest := by
      rw [← List.cons_append, List.drop_left]
    rw [h1]
    simp only
    have h2 : List.take ((a :: t).length + 1) (a :: (t ++ 59 :: rest)) = a :: t ++ [59] := by
      have : a :: (t ++ 59 :: rest) = (a :: t ++ [59]) ++ rest := by simp
      rw [this]
      have hl : (a :: t).length + 1 = (a :: t ++ [59]).length := by simp
      rw [hl, List.take_left]
    rw [h2, namedRef_of_entry hv, unescape_skip]
    have h3 : List.drop ((a :: t).length + 1) (a :: (t ++ 59 :: rest)) = rest := by
      rw [← List.cons_append, ← List.drop_drop, List.drop_left]; rfl
    rw [h3]

theorem replaceDq_ref (n rest : PStr) (h : isName n = true) :
    replaceDq (ref n ++ rest) = ref n ++ replaceDq rest := by
  have hal := isName_alnum h
  have key : ∀ (t : PStr), (∀ x ∈ t, isAlnum x = true) → ∀ r, replaceDq (t ++ 59 :: r) = t ++ 59 :: replaceDq r := by
    intro t
    induction t with
    | nil => intro _ r; simp [replaceDq]
    | cons x xs ih =>
      intro hx r
      have hx34 : x ≠ 34 := by have := isAlnum_bounds (hx x (by simp)); omega
      simp only [List.cons_append, replaceDq, hx34, ↓reduceIte]
      rw [ih (fun y hy => hx y (by simp [hy]))]
  have : ref n ++ rest = 38 :: (n ++ 59 :: rest) := by simp [ref]
  rw [this]
  simp only [replaceDq]
  rw [key n hal rest]
  simp [ref]

theorem not_mem_replaceDq (v : PStr) : 34 ∉ replaceDq v := by
  induction v with
  | nil => simp [replaceDq]
  | cons c cs ih =>
    simp only [replaceDq]
    split
    · simp [quotEnt, ih]
    · simp only [List.mem_cons, not_or]; exact ⟨by omega, ih⟩

/-- what an attribute reader sees in a substituted value, also after `"` ↦ `&quot;` -/
theorem html_attr_roundtrip_gen (T : Tbl) (ps : List Particle) (rep : PStr → PStr)
    (hR : RepOK T rep ps) (h38 : coversChar ps 38 = true)
    (hq : T.html5.get [113, 117, 111, 116, 59] = some [34]) :
    ∀ l, unescape T 0 (reSub ps rep 0 l) = l ∧ unescape T 0 (replaceDq (reSub ps rep 0 l)) = l := by
  refine reSub_induction ps
    (motive := fun l => unescape T 0 (reSub ps rep 0 l) = l ∧
      unescape T 0 (replaceDq (reSub ps rep 0 l)) = l) ?_ ?_ ?_
  · simp [reSub, unescape, replaceDq]
  · intro p rest hp hk _ hfm ih
    obtain ⟨n, hn, hname, hlen, _, hback⟩ := hR p hp
    rw [reSub_hit ps _ p rest hk hfm, hn, replaceDq_ref n _ hname,
      unescape_ref T n _ _ hname (by omega) hback, unescape_ref T n _ _ hname (by omega) hback, ih.1, ih.2]
    exact ⟨rfl, rfl⟩
  · intro c cs hfm ih
    have hc : c ≠ 38 := by
      intro h; subst h; exact coversChar_spec h38 cs hfm
    rw [reSub_miss ps _ c cs hfm, unescape_plain T c _ hc, ih.1]
    refine ⟨rfl, ?_⟩
    simp only [replaceDq]
    split
    · rename_i h34
      have : quotEnt = ref [113, 117, 111, 116] := rfl
      rw [this, unescape_ref T _ _ [34] (by decide) (by decide) hq, ih.2, h34]; rfl
    · rw [unescape_plain T c _ hc, ih.2]


/-! ## quoted_attribute_value -/

/-- the quote character `quoted_attribute_value` chooses -/
def quoteChar (v : PStr) : Nat := if v.contains 34 && !v.contains 39 then 39 else 34

/-- what it puts between the quotes -/
def quoteBody (v : PStr) : PStr := if v.contains 34 && v.contains 39 then replaceDq v else v

theorem quoteAttr_eq (v : PStr) : quoteAttr v = quoteChar v :: quoteBody v ++ [quoteChar v] := by
  unfold quoteAttr quoteChar quoteBody
  cases h1 : v.contains 34 <;> cases h2 : v.contains 39 <;> simp

theorem quoteChar_cases (v : PStr) : quoteChar v = 34 ∨ quoteChar v = 39 := by
  unfold quoteChar; split <;> simp

theorem quoteChar_not_mem_body (v : PStr) : quoteChar v ∉ quoteBody v := by
  unfold quoteChar quoteBody
  cases h1 : v.contains 34 <;> cases h2 : v.contains 39 <;> simp_all [not_mem_replaceDq]

theorem readAttr_quoted (T : Tbl) (c : Nat) (body : PStr) (hc : c = 34 ∨ c = 39) (hb : c ∉ body) :
    readAttr T (c :: body ++ [c]) = some (unescape T 0 body) := by
  have hspan : spanLen (· != c) (body ++ c :: []) = body.length :=
    spanLen_append_stop (· != c) body c [] (fun x hx => by
      have : x ≠ c := fun h => hb (h ▸ hx)
      simp [this]) (by simp)
  have hcb : (c = 34 || c = 39) = true := by rcases hc with h | h <;> simp [h]
  simp only [readAttr, List.cons_append, hcb, ↓reduceIte, hspan, List.drop_left, List.take_left]

theorem readAttr_quoteAttr (T : Tbl) (v : PStr) :
    readAttr T (quoteAttr v) = some (unescape T 0 (quoteBody v)) := by
  rw [quoteAttr_eq]
  exact readAttr_quoted T _ _ (quoteChar_cases v) (quoteChar_not_mem_body v)


/-! ## mutual exclusion of the alternatives, order irrelevance -/

/-- at most one alternative matches at any position -/
def Excl (ps : List Particle) : Prop :=
  ∀ p ∈ ps, ∀ q ∈ ps, ∀ l, p.matchesAt l = true → q.matchesAt l = true → p = q

def fstCp (p : Particle) : Nat := p.key.headD 0

/-- first code points are non-decreasing along the list (the translator emits the canonical, sorted order) -/
def sortedFst : Nat → List Particle → Bool
  | _, [] => true
  | lo, p :: rest => decide (lo ≤ fstCp p) && sortedFst (fstCp p) rest

/-- `q.key` extends `p.key` and the next code point is in `p`'s look-ahead class: `p` cannot match where `q` does -/
def blocks (p q : Particle) : Bool :=
  p.key.isPrefixOf q.key &&
    (match q.key.drop p.key.length with
     | d :: _ => p.notNext.contains d
     | [] => false)

def okPair (p q : Particle) : Bool :=
  blocks p q || blocks q p || (!p.key.isPrefixOf q.key && !q.key.isPrefixOf p.key)

/-- every alternative is compatible with the later ones that start with the same code point -/
def groupOk : List Particle → Bool
  | [] => true
  | p :: rest => (rest.takeWhile fun q => fstCp q == fstCp p).all (okPair p) && groupOk rest

theorem matchesAt_prefix {p : Particle} {l : PStr} (h : p.matchesAt l = true) : p.key <+: l := by
  unfold Particle.matchesAt at h
  simp only [Bool.and_eq_true] at h
  exact List.isPrefixOf_iff_prefix.mp h.1.2

theorem blocks_sound {p q : Particle} {l : PStr} (hb : blocks p q = true) (hq : q.matchesAt l = true) :
    p.matchesAt l = false := by
  unfold blocks at hb
  simp only [Bool.and_eq_true] at hb
  obtain ⟨hpre, hd⟩ := hb
  obtain ⟨t, ht⟩ := List.isPrefixOf_iff_prefix.mp hpre
  obtain ⟨r, hr⟩ := matchesAt_prefix hq
  rw [← ht, List.drop_left] at hd
  cases t with
  | nil => simp at hd
  | cons d t' =>
    simp only at hd
    have hl : l = p.key ++ d :: (t' ++ r) := by rw [← hr, ← ht]; simp
    unfold Particle.matchesAt
    rw [hl, List.drop_left]
    have hd' : d ∈ p.notNext := by simpa using hd
    simp [hd']

theorem okPair_sound {p q : Particle} {l : PStr} (h : okPair p q = true)
    (hp : p.matchesAt l = true) (hq : q.matchesAt l = true) : False := by
  unfold okPair at h
  simp only [Bool.or_eq_true, Bool.and_eq_true, Bool.not_eq_true'] at h
  rcases h with (h | h) | h
  · have := blocks_sound h hq; simp [hp] at this
  · have := blocks_sound h hp; simp [hq] at this
  · have h1 := matchesAt_prefix hp
    have h2 := matchesAt_prefix hq
    rcases Nat.le_total p.key.length q.key.length with hle | hle
    · have := List.isPrefixOf_iff_prefix.mpr (List.prefix_of_prefix_length_le h1 h2 hle)
      simp [h.1] at this
    · have := List.isPrefixOf_iff_prefix.mpr (List.prefix_of_prefix_length_le h2 h1 hle)
      simp [h.2] at this

theorem fstCp_of_matches {p : Particle} {l : PStr} (h : p.matchesAt l = true) : fstCp p = l.headD 0 := by
  obtain ⟨hk, hl⟩ := matchesAt_split h
  unfold fstCp
  cases hkey : p.key with
  | nil => exact absurd hkey hk
  | cons c cs => rw [hl, hkey]; simp

theorem sortedFst_ge {lo : Nat} {l : List Particle} (h : sortedFst lo l = true) : ∀ q ∈ l, lo ≤ fstCp q := by
  induction l generalizing lo with
  | nil => simp
  | cons p rest ih =>
    simp only [sortedFst, Bool.and_eq_true, decide_eq_true_eq] at h
    intro q hq
    simp only [List.mem_cons] at hq
    rcases hq with rfl | hq
    · exact h.1
    · exact Nat.le_trans h.1 (ih h.2 q hq)

theorem mem_takeWhile_of_sorted {a : Nat} {rest : List Particle} (hs : sortedFst a rest = true)
    {q : Particle} (hq : q ∈ rest) (hf : fstCp q = a) :
    q ∈ rest.takeWhile fun x => fstCp x == a := by
  induction rest with
  | nil => simp at hq
  | cons r rs ih =>
    simp only [sortedFst, Bool.and_eq_true, decide_eq_true_eq] at hs
    simp only [List.mem_cons] at hq
    rcases hq with rfl | hq
    · simp [List.takeWhile, hf]
    · have h1 := sortedFst_ge hs.2 q hq
      have hr : fstCp r = a := by omega
      simp only [List.takeWhile, hr, beq_self_eq_true, List.mem_cons]
      right
      exact ih (hr ▸ hs.2) hq

theorem excl_of_checks {lo : Nat} {ps : List Particle} (hs : sortedFst lo ps = true) (hg : groupOk ps = true) :
    Excl ps := by
  induction ps generalizing lo with
  | nil => intro p hp; simp at hp
  | cons p0 rest ih =>
    simp only [sortedFst, Bool.and_eq_true, decide_eq_true_eq] at hs
    simp only [groupOk, Bool.and_eq_true, List.all_eq_true] at hg
    have hrest : Excl rest := ih hs.2 hg.2
    have cross : ∀ q ∈ rest, ∀ l, p0.matchesAt l = true → q.matchesAt l = true → False := by
      intro q hq l h0 h1
      have hf : fstCp q = fstCp p0 := by rw [fstCp_of_matches h0, fstCp_of_matches h1]
      exact okPair_sound (hg.1 q (mem_takeWhile_of_sorted hs.2 hq hf)) h0 h1
    intro p hp q hq l hpm hqm
    simp only [List.mem_cons] at hp hq
    rcases hp with rfl | hp <;> rcases hq with rfl | hq
    · rfl
    · exact (cross q hq l hpm hqm).elim
    · exact (cross p hp l hqm hpm).elim
    · exact hrest p hp q hq l hpm hqm

theorem firstMatch_of_same_members {ps ps' : List Particle} (hx : Excl ps) (hm : ∀ p, p ∈ ps' ↔ p ∈ ps) (l : PStr) :
    firstMatch ps' l = firstMatch ps l := by
  cases h' : firstMatch ps' l with
  | none =>
    cases h : firstMatch ps l with
    | none => rfl
    | some q =>
      obtain ⟨hq, hqm⟩ := firstMatch_some h
      have := firstMatch_none h' q ((hm q).mpr hq)
      simp [hqm] at this
  | some p =>
    obtain ⟨hp, hpm⟩ := firstMatch_some h'
    cases h : firstMatch ps l with
    | none =>
      have := firstMatch_none h p ((hm p).mp hp)
      simp [hpm] at this
    | some q =>
      obtain ⟨hq, hqm⟩ := firstMatch_some h
      rw [hx p ((hm p).mp hp) q hq l hpm hqm]

theorem reSub_congr {ps ps' : List Particle} (h : ∀ l, firstMatch ps' l = firstMatch ps l) (rep : PStr → PStr)
    (k : Nat) (l : PStr) : reSub ps' rep k l = reSub ps rep k l := by
  induction l generalizing k with
  | nil => cases k <;> simp [reSub]
  | cons c cs ih =>
    cases k with
    | succ k => simp only [reSub]; exact ih k
    | zero =>
      simp only [reSub, h]
      split
      · rw [ih]
      · rw [ih]


/-! ## the table obligation -/

/-- checks on one alternation: entries well-formed, canonical order, alternatives mutually exclusive, `<` and `>`
    always caught -/
def partsOK (T : Tbl) (ps : List Particle) : Bool :=
  ps.all (entryOK T) && sortedFst 0 ps && groupOk ps && coversChar ps 60 && coversChar ps 62

/-- Well-formedness of the entity tables: everything the round-trip theorems need, decidable. -/
def TblOK (T : Tbl) : Bool :=
  partsOK T T.particlesAmp && coversChar T.particlesAmp 38 && partsOK T T.particles &&
    T.html5.get [113, 117, 111, 116, 59] == some [34]

/-- `CHARACTER_TO_XML_ENTITY` names `&`, `<`, `>` and both readers map the names back. -/
def XmlOK (X : List (Nat × PStr)) (T : Tbl) : Bool :=
  [38, 60, 62].all fun c =>
    match X.lookup c with
    | none => false
    | some n => isName n && decide (n.length ≤ 31) && T.toChar.get n == some [c] && T.html5.get (n ++ [59]) == some [c]


/-! ## every ampersand of the output starts a known reference -/

/-- the output is a sequence of plain code points other than `&` and of references `&name;` whose name is well-formed
    and known to the reader's table -/
inductive Toks (T : Tbl) : PStr → Prop
  | nil : Toks T []
  | plain (c : Nat) (rest : PStr) : c ≠ 38 → Toks T rest → Toks T (c :: rest)
  | ref (n rest : PStr) : isName n = true → (T.toChar.get n).isSome = true → Toks T rest → Toks T (ref n ++ rest)

theorem toks_gen (T : Tbl) (ps : List Particle) (rep : PStr → PStr)
    (hR : RepOK T rep ps) (h38 : coversChar ps 38 = true) : ∀ l, Toks T (reSub ps rep 0 l) := by
  refine reSub_induction ps (motive := fun l => Toks T (reSub ps rep 0 l)) ?_ ?_ ?_
  · simp only [reSub]; exact .nil
  · intro p rest hp hk _ hfm ih
    obtain ⟨n, hn, hname, _, hback, _⟩ := hR p hp
    rw [reSub_hit ps _ p rest hk hfm, hn]
    exact .ref n _ hname (by simp [hback]) ih
  · intro c cs hfm ih
    have hc : c ≠ 38 := by
      intro h; subst h; exact coversChar_spec h38 cs hfm
    rw [reSub_miss ps _ c cs hfm]
    exact .plain c _ hc ih

/-- in such a sequence whatever follows an `&` is `name;…` -/
theorem toks_amp {T : Tbl} {out : PStr} (h : Toks T out) :
    ∀ pre post, out = pre ++ 38 :: post →
      ∃ n rest, post = n ++ 59 :: rest ∧ isName n = true ∧ (T.toChar.get n).isSome = true := by
  induction h with
  | nil => intro pre post h; simp at h
  | plain c rest hc _ ih =>
    intro pre post h
    cases pre with
    | nil => simp at h; omega
    | cons x pre' =>
      simp only [List.cons_append, List.cons.injEq] at h
      exact ih pre' post h.2
  | ref n rest hn hk _ ih =>
    intro pre post h
    cases pre with
    | nil =>
      simp only [Entities.ref, List.nil_append, List.cons_append, List.cons.injEq, true_and] at h
      exact ⟨n, rest, by rw [← h]; simp, hn, hk⟩
    | cons x pre' =>
      have h' : n ++ 59 :: rest = pre' ++ 38 :: post := by
        simp only [Entities.ref, List.cons_append, List.cons.injEq, List.append_assoc, List.nil_append] at h
        exact h.2
      rcases List.append_eq_append_iff.mp h' with ⟨a, ha1, ha2⟩ | ⟨c', hc1, hc2⟩
      · cases a with
        | nil => simp at ha2
        | cons y a' =>
          simp only [List.cons_append, List.cons.injEq] at ha2
          exact ih a' post ha2.2
      · cases c' with
        | nil => simp at hc2
        | cons y c'' =>
          simp only [List.cons_append, List.cons.injEq] at hc2
          have hmem : (38 : Nat) ∈ n := by rw [hc1, ← hc2.1]; simp
          have := isAlnum_bounds (isName_alnum hn 38 hmem)
          omega

/-! ## unpacking `TblOK` / `XmlOK` -/

theorem partsOK_spec {T : Tbl} {ps : List Particle} (h : partsOK T ps = true) :
    RepOK T (htmlRep T) ps ∧ Excl ps ∧ coversChar ps 60 = true ∧ coversChar ps 62 = true := by
  unfold partsOK at h
  simp only [Bool.and_eq_true, List.all_eq_true] at h
  obtain ⟨⟨⟨⟨h1, h2⟩, h3⟩, h4⟩, h5⟩ := h
  exact ⟨repOK_html h1, excl_of_checks h2 h3, h4, h5⟩

theorem tblOK_amp {T : Tbl} (h : TblOK T = true) :
    RepOK T (htmlRep T) T.particlesAmp ∧ Excl T.particlesAmp ∧ coversChar T.particlesAmp 60 = true ∧
      coversChar T.particlesAmp 62 = true ∧ coversChar T.particlesAmp 38 = true := by
  unfold TblOK at h
  simp only [Bool.and_eq_true] at h
  obtain ⟨h1, h2, h3, h4⟩ := partsOK_spec h.1.1.1
  exact ⟨h1, h2, h3, h4, h.1.1.2⟩

theorem tblOK_plain {T : Tbl} (h : TblOK T = true) :
    RepOK T (htmlRep T) T.particles ∧ Excl T.particles ∧ coversChar T.particles 60 = true ∧
      coversChar T.particles 62 = true := by
  unfold TblOK at h
  simp only [Bool.and_eq_true] at h
  exact partsOK_spec h.1.2

theorem tblOK_quot {T : Tbl} (h : TblOK T = true) : T.html5.get [113, 117, 111, 116, 59] = some [34] := by
  unfold TblOK at h
  simp only [Bool.and_eq_true, beq_iff_eq] at h
  exact h.2

theorem repOK_xml {X : List (Nat × PStr)} {T : Tbl} (h : XmlOK X T = true) : RepOK T (xmlRep X) xmlParticles := by
  unfold XmlOK at h
  simp only [List.all_eq_true] at h
  have key : ∀ c ∈ [38, 60, 62], ∃ n, xmlRep X [c] = ref n ∧ isName n = true ∧ n.length ≤ 31 ∧
      T.toChar.get n = some [c] ∧ T.html5.get (n ++ [59]) = some [c] := by
    intro c hc
    have := h c hc
    cases hl : X.lookup c with
    | none => simp [hl] at this
    | some n =>
      simp only [hl, Bool.and_eq_true, decide_eq_true_eq, beq_iff_eq] at this
      exact ⟨n, by simp [xmlRep, hl], this.1.1.1, this.1.1.2, this.1.2, this.2⟩
  intro p hp
  simp only [xmlParticles, List.mem_cons, List.mem_nil_iff, or_false] at hp
  rcases hp with rfl | rfl | rfl
  · exact key 60 (by simp)
  · exact key 62 (by simp)
  · exact key 38 (by simp)

theorem xml_covers : coversChar xmlParticles 38 = true ∧ coversChar xmlParticles 60 = true ∧
    coversChar xmlParticles 62 = true := by decide

theorem xmlKeyError_none {X : List (Nat × PStr)} {T : Tbl} (h : XmlOK X T = true) (s : PStr) :
    xmlKeyError X s = none := by
  unfold XmlOK at h
  simp only [List.all_eq_true] at h
  unfold xmlKeyError
  rw [List.find?_eq_none]
  intro c _
  simp only [Bool.and_eq_true, Bool.or_eq_true, decide_eq_true_eq, Option.isNone_iff_eq_none, not_and]
  intro hc hn
  have := h c (by simp; omega)
  simp [hn] at this


/-! ## substitute_html5 -/

theorem escapeEntities_noamp (T : Tbl) (k : Nat) (l : PStr) (h : 38 ∉ l) : escapeEntities T k l = l := by
  induction l generalizing k with
  | nil => cases k <;> simp [escapeEntities]
  | cons c cs ih =>
    simp only [List.mem_cons, not_or] at h
    have hc : c ≠ 38 := fun e => h.1 e.symm
    cases k with
    | zero => simp [escapeEntities, hc, ih 0 h.2]
    | succ k => simp [escapeEntities, ih k h.2]

/-- text round trip without the "`&` is always caught" premise, for strings that hold no `&` -/
theorem html_text_roundtrip_noamp (T : Tbl) (late : Bool) (ps : List Particle) (rep : PStr → PStr)
    (hR : RepOK T rep ps) : ∀ l, 38 ∉ l → readText T late 0 (reSub ps rep 0 l) = l := by
  refine reSub_induction ps (motive := fun l => 38 ∉ l → readText T late 0 (reSub ps rep 0 l) = l) ?_ ?_ ?_
  · intro _; simp [reSub, readText]
  · intro p rest hp hk _ hfm ih hno
    obtain ⟨n, hn, hname, _, hback, _⟩ := hR p hp
    have hrest : 38 ∉ rest := fun hm => hno (List.mem_append_right _ hm)
    rw [reSub_hit ps _ p rest hk hfm, hn, readText_ref T late n _ hname, entityRef_of_entry hback, ih hrest]
  · intro c cs hfm ih hno
    simp only [List.mem_cons, not_or] at hno
    have hc : c ≠ 38 := fun e => hno.1 e.symm
    rw [reSub_miss ps _ c cs hfm, readText_plain T late c _ hc, ih hno.2]

theorem html_attr_roundtrip_noamp (T : Tbl) (ps : List Particle) (rep : PStr → PStr)
    (hR : RepOK T rep ps) (hq : T.html5.get [113, 117, 111, 116, 59] = some [34]) :
    ∀ l, 38 ∉ l → unescape T 0 (reSub ps rep 0 l) = l ∧ unescape T 0 (replaceDq (reSub ps rep 0 l)) = l := by
  refine reSub_induction ps
    (motive := fun l => 38 ∉ l → unescape T 0 (reSub ps rep 0 l) = l ∧
      unescape T 0 (replaceDq (reSub ps rep 0 l)) = l) ?_ ?_ ?_
  · intro _; simp [reSub, unescape, replaceDq]
  · intro p rest hp hk _ hfm ih hno
    obtain ⟨n, hn, hname, hlen, _, hback⟩ := hR p hp
    have hrest : 38 ∉ rest := fun hm => hno (List.mem_append_right _ hm)
    rw [reSub_hit ps _ p rest hk hfm, hn, replaceDq_ref n _ hname,
      unescape_ref T n _ _ hname (by omega) hback, unescape_ref T n _ _ hname (by omega) hback,
      (ih hrest).1, (ih hrest).2]
    exact ⟨rfl, rfl⟩
  · intro c cs hfm ih hno
    simp only [List.mem_cons, not_or] at hno
    have hc : c ≠ 38 := fun e => hno.1 e.symm
    rw [reSub_miss ps _ c cs hfm, unescape_plain T c _ hc, (ih hno.2).1]
    refine ⟨rfl, ?_⟩
    simp only [replaceDq]
    split
    · rename_i h34
      have : quotEnt = ref [113, 117, 111, 116] := rfl
      rw [this, unescape_ref T _ _ [34] (by decide) (by decide) hq, (ih hno.2).2, h34]; rfl
    · rw [unescape_plain T c _ hc, (ih hno.2).2]

end BS.Entities
