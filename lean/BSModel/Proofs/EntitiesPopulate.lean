import BSModel.Model.EntitiesPopulate
import BSModel.Proofs.Entities
/-! What `_populate_class_variables` guarantees by construction, for ANY html5 table. Core Lean only. -/
namespace BS.Entities

theorem mem_dedup [BEq α] [LawfulBEq α] (l : List α) (x : α) : x ∈ dedup l ↔ x ∈ l := by
  induction l with
  | nil => simp [dedup]
  | cons a t ih =>
    simp only [dedup]
    split
    · rename_i h
      have ha : a ∈ t := by simpa using h
      rw [ih]
      constructor
      · intro hx; exact List.mem_cons_of_mem _ hx
      · intro hx
        simp only [List.mem_cons] at hx
        rcases hx with rfl | hx
        · exact ha
        · exact hx
    · simp only [List.mem_cons, ih]

theorem mem_shortEntities {items : Items} {c : Nat} :
    c ∈ shortEntities items ↔ ∃ it ∈ items, it.2 = [c] ∧ inRegex [c] = true ∧ c ≠ 38 := by
  unfold shortEntities
  rw [mem_dedup, List.mem_filterMap]
  constructor
  · rintro ⟨it, hit, h⟩
    split at h
    · rename_i c' heq
      split at h
      · rename_i hc
        simp only [Option.some.injEq] at h
        subst h
        simp only [Bool.and_eq_true, bne_iff_ne, ne_eq] at hc
        exact ⟨it, hit, heq, hc.1, hc.2⟩
      · simp at h
    · simp at h
  · rintro ⟨it, hit, h1, h2, h3⟩
    refine ⟨it, hit, ?_⟩
    rw [h1]
    simp [h2, h3]

theorem mem_longEntities {items : Items} {l : PStr} :
    l ∈ longEntities items ↔ ∃ it ∈ items, it.2 = l ∧ inRegex l = true ∧ l.length ≠ 1 := by
  unfold longEntities
  rw [mem_dedup, List.mem_filterMap]
  constructor
  · rintro ⟨it, hit, h⟩
    split at h
    · simp at h
    · rename_i hne
      split at h
      · rename_i hr
        simp only [Option.some.injEq] at h
        subst h
        refine ⟨it, hit, rfl, hr, ?_⟩
        intro hlen
        match hch : it.2, hlen with
        | [c], _ => exact hne c hch
      · simp at h
  · rintro ⟨it, hit, h1, h2, h3⟩
    refine ⟨it, hit, ?_⟩
    subst h1
    split
    · rename_i c heq; rw [heq] at h3; simp at h3
    · simp [h2]

theorem long_length_two {items : Items} (hok : itemsOK items = true) {l : PStr} (hl : l ∈ longEntities items) :
    ∃ a b, l = [a, b] := by
  obtain ⟨it, hit, h1, h2, h3⟩ := mem_longEntities.mp hl
  have := (List.all_eq_true.mp hok) it hit
  simp only [Bool.and_eq_true, Bool.not_eq_true', List.isEmpty_eq_false_iff, Bool.or_eq_true, decide_eq_true_eq] at this
  rw [h1] at this
  obtain ⟨hne, hlen⟩ := this
  have hlen2 : l.length ≤ 2 := by
    rcases hlen with h | h
    · rw [h2] at h; simp at h
    · exact h
  match l, hne, h3, hlen2 with
  | [a, b], _, _, _ => exact ⟨a, b, rfl⟩

theorem mem_lookaheadFor {longs : List PStr} {c d : Nat} :
    d ∈ lookaheadFor longs c ↔ ∃ tl, c :: d :: tl ∈ longs := by
  unfold lookaheadFor
  rw [List.mem_filterMap]
  constructor
  · rintro ⟨l, hl, h⟩
    split at h
    · rename_i a b tl
      split at h
      · rename_i hac
        simp only [Option.some.injEq] at h
        subst h; subst hac
        exact ⟨tl, hl⟩
      · simp at h
    · simp at h
  · rintro ⟨tl, hl⟩
    exact ⟨_, hl, by simp⟩

theorem mem_populateParticles {items : Items} {p : Particle} :
    p ∈ populateParticles items ↔
      (∃ c ∈ shortEntities items, p = mkShort (longEntities items) c) ∨
        (∃ l ∈ longEntities items, p = ⟨l, []⟩) := by
  unfold populateParticles
  simp only [List.mem_append, List.mem_map]
  constructor
  · rintro (⟨c, hc, rfl⟩ | ⟨l, hl, rfl⟩)
    · exact Or.inl ⟨c, hc, rfl⟩
    · exact Or.inr ⟨l, hl, rfl⟩
  · rintro (⟨c, hc, rfl⟩ | ⟨l, hl, rfl⟩)
    · exact Or.inl ⟨c, hc, rfl⟩
    · exact Or.inr ⟨l, hl, rfl⟩

theorem matchesAt_lookahead {p : Particle} {l : PStr} (h : p.matchesAt l = true) {d : Nat} {tl : PStr}
    (hd : l.drop p.key.length = d :: tl) : d ∉ p.notNext := by
  unfold Particle.matchesAt at h
  simp only [Bool.and_eq_true] at h
  rw [hd] at h
  simpa using h.2

/-- **By construction** at most one alternative matches at any position: a short alternative carries in its look-ahead
    class the second code point of every long one that starts like it. -/
theorem populate_exclusive {items : Items} (hok : itemsOK items = true) : Excl (populateParticles items) := by
  intro p hp q hq l hpm hqm
  rcases mem_populateParticles.mp hp with ⟨c, _, rfl⟩ | ⟨lp, hlp, rfl⟩ <;>
    rcases mem_populateParticles.mp hq with ⟨c', _, rfl⟩ | ⟨lq, hlq, rfl⟩
  · -- two short ones: same first code point of `l`
    have h1 := fstCp_of_matches hpm
    have h2 := fstCp_of_matches hqm
    simp only [fstCp, mkShort, List.headD_cons] at h1 h2
    rw [h1, h2]
  · exfalso
    obtain ⟨a, b, rfl⟩ := long_length_two hok hlq
    obtain ⟨r, hr⟩ := matchesAt_prefix hqm
    have h1 := fstCp_of_matches hpm
    simp only [fstCp, mkShort, List.headD_cons] at h1
    rw [← hr] at h1 hpm
    simp only [List.cons_append, List.headD_cons] at h1
    subst h1
    have := matchesAt_lookahead hpm (d := b) (tl := r) (by simp [mkShort])
    exact this (mem_lookaheadFor.mpr ⟨[], hlq⟩)
  · exfalso
    obtain ⟨a, b, rfl⟩ := long_length_two hok hlp
    obtain ⟨r, hr⟩ := matchesAt_prefix hpm
    have h1 := fstCp_of_matches hqm
    simp only [fstCp, mkShort, List.headD_cons] at h1
    rw [← hr] at h1 hqm
    simp only [List.cons_append, List.headD_cons] at h1
    subst h1
    have := matchesAt_lookahead hqm (d := b) (tl := r) (by simp [mkShort])
    exact this (mem_lookaheadFor.mpr ⟨[], hlp⟩)
  · obtain ⟨a, b, rfl⟩ := long_length_two hok hlp
    obtain ⟨a', b', rfl⟩ := long_length_two hok hlq
    obtain ⟨r, hr⟩ := matchesAt_prefix hpm
    obtain ⟨r', hr'⟩ := matchesAt_prefix hqm
    rw [← hr'] at hr
    simp only [List.cons_append, List.nil_append, List.cons.injEq] at hr
    rw [hr.1, hr.2.1]

/-- … and with the extra alternative `&` (no html5 character sequence that enters the regex starts with `&`) -/
theorem populateAmp_exclusive {items : Items} (hok : itemsOK items = true)
    (hamp : ∀ it ∈ items, inRegex it.2 = true → it.2.headD 0 ≠ 38) : Excl (populateParticlesAmp items) := by
  have hhead : ∀ p ∈ populateParticles items, p.key.headD 0 ≠ 38 := by
    intro p hp
    rcases mem_populateParticles.mp hp with ⟨c, hc, rfl⟩ | ⟨l, hl, rfl⟩
    · obtain ⟨it, hit, h1, h2, _⟩ := mem_shortEntities.mp hc
      have := hamp it hit (by rw [h1]; exact h2)
      rw [h1] at this
      simpa [mkShort] using this
    · obtain ⟨it, hit, h1, h2, _⟩ := mem_longEntities.mp hl
      have := hamp it hit (by rw [h1]; exact h2)
      rw [h1] at this
      exact this
  intro p hp q hq l hpm hqm
  unfold populateParticlesAmp at hp hq
  simp only [List.mem_append, List.mem_cons, List.mem_nil_iff, or_false] at hp hq
  rcases hp with hp | rfl <;> rcases hq with hq | rfl
  · exact populate_exclusive hok p hp q hq l hpm hqm
  · exfalso
    have h1 := fstCp_of_matches hpm
    have h2 := fstCp_of_matches hqm
    simp only [fstCp, List.headD_cons] at h1 h2
    exact hhead p hp (by rw [h1, ← h2])
  · exfalso
    have h1 := fstCp_of_matches hpm
    have h2 := fstCp_of_matches hqm
    simp only [fstCp, List.headD_cons] at h1 h2
    exact hhead q hq (by rw [h2, ← h1])
  · rfl

/-- **By construction** a character that html5 names and that enters the regex alone (`<`, `>`, any non-ASCII one) is
    always caught: by its own alternative, or by a long one when the look-ahead forbids. -/
theorem populate_covers {items : Items} (hok : itemsOK items = true) {c : Nat}
    (hc : ∃ it ∈ items, it.2 = [c] ∧ inRegex [c] = true ∧ c ≠ 38) : coversChar (populateParticles items) c = true := by
  have hcs : c ∈ shortEntities items := mem_shortEntities.mpr hc
  unfold coversChar
  rw [List.any_eq_true]
  refine ⟨mkShort (longEntities items) c, mem_populateParticles.mpr (Or.inl ⟨c, hcs, rfl⟩), ?_⟩
  simp only [mkShort, beq_self_eq_true, Bool.true_and, List.all_eq_true, List.any_eq_true, Bool.and_eq_true, beq_iff_eq]
  intro d hd
  obtain ⟨tl, hl⟩ := mem_lookaheadFor.mp hd
  obtain ⟨a, b, hab⟩ := long_length_two hok hl
  simp only [List.cons.injEq] at hab
  obtain ⟨rfl, rfl, rfl⟩ := hab
  exact ⟨⟨[c, d], []⟩, mem_populateParticles.mpr (Or.inr ⟨_, hl, rfl⟩), rfl, rfl⟩

/-- **By construction** every alternative has a name in `unicode_to_name`. -/
theorem populate_keys_named {items : Items} (cp2name : List (Nat × PStr)) {p : Particle}
    (hp : p ∈ populateParticles items) : (unicodeToName items cp2name p.key).isSome = true := by
  have key : ∀ ch, (∃ it ∈ items, it.2 = ch) → (unicodeToName items cp2name ch).isSome = true := by
    intro ch ⟨it, hit, hch⟩
    have hfind : (items.reverse.find? fun it => it.2 == ch).isSome = true := by
      rw [List.find?_isSome]
      exact ⟨it, by simpa using hit, by simp [hch]⟩
    unfold unicodeToName
    split
    · split
      · rfl
      · simpa using hfind
    · simpa using hfind
  rcases mem_populateParticles.mp hp with ⟨c, hc, rfl⟩ | ⟨l, hl, rfl⟩
  · obtain ⟨it, hit, h1, _⟩ := mem_shortEntities.mp hc
    exact key [c] ⟨it, hit, h1⟩
  · obtain ⟨it, hit, h1, _⟩ := mem_longEntities.mp hl
    exact key l ⟨it, hit, h1⟩


/-- in-order contents of a dictionary -/
def Dict.toListAux : Dict → List (PStr × PStr) → List (PStr × PStr)
  | .leaf, acc => acc
  | .node l k v r, acc => Dict.toListAux l ((k, v) :: Dict.toListAux r acc)

def Dict.toList (d : Dict) : List (PStr × PStr) := Dict.toListAux d []

/-- the two alternations differ by `&` only; permuting the alternation built from ANY well-formed html5 table does not change
    a substitution -/
theorem populate_order_irrelevant {items : Items} (hok : itemsOK items = true)
    (hamp : ∀ it ∈ items, inRegex it.2 = true → it.2.headD 0 ≠ 38) (ps' : List Particle)
    (hp : ps'.Perm (populateParticlesAmp items)) (rep : PStr → PStr) (s : PStr) :
    reSub ps' rep 0 s = reSub (populateParticlesAmp items) rep 0 s :=
  reSub_congr (firstMatch_of_same_members (populateAmp_exclusive hok hamp) (fun _ => hp.mem_iff)) rep 0 s

/-- decidable form of "no character sequence that enters the regex starts with `&`" -/
def itemsNoAmpHead (items : Items) : Bool := items.all fun it => !inRegex it.2 || it.2.headD 0 != 38

theorem itemsNoAmpHead_spec {items : Items} (h : itemsNoAmpHead items = true) :
    ∀ it ∈ items, inRegex it.2 = true → it.2.headD 0 ≠ 38 := by
  intro it hit hr
  have := (List.all_eq_true.mp h) it hit
  simpa [hr] using this

end BS.Entities
