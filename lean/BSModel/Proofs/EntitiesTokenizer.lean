import BSModel.Model.Tokenizer
import BSModel.Model.Adapter
import BSModel.Proofs.TokenizerRound
import BSModel.Proofs.Html5Fix
/-! The C09 readers (`BS.Reader.readText`, `readAttr`) against the code-mirror of CPython's tokenizer
    (`BS.Tokenizer`) composed with bs4's handlers (`BS.Adapter.handleEntityref` / `handleCharref`), on the texts the
    substitutions write. Core Lean only. -/
namespace BS.C09Tok
open BS BS.Tokenizer

/-- what bs4 makes of the callbacks that carry text: `handle_data` appends, `handle_entityref` / `handle_charref`
    convert and append (bs4/builder/_htmlparser.py:222-283); tags and the other callbacks contribute no text -/
def handled (cfg : Adapter.ACfg) : List Adapter.SEv → PStr
  | [] => []
  | .data s :: r => s ++ handled cfg r
  | .charref n :: r => Adapter.handleCharref cfg n ++ handled cfg r
  | .entityref n :: r => Adapter.handleEntityref cfg n ++ handled cfg r
  | _ :: r => handled cfg r

theorem handled_append (cfg : Adapter.ACfg) (a b : List Adapter.SEv) :
    handled cfg (a ++ b) = handled cfg a ++ handled cfg b := by
  induction a with
  | nil => rfl
  | cons x xs ih => cases x <;> simp [handled, ih]

/-- the text bs4 accumulates from a list of tokenizer events -/
def textOf (cfg : Adapter.ACfg) (evs : List Ev) : PStr := handled cfg (evs.filterMap toSEv)

theorem textOf_append (cfg : Adapter.ACfg) (a b : List Ev) : textOf cfg (a ++ b) = textOf cfg a ++ textOf cfg b := by
  simp [textOf, List.filterMap_append, handled_append]

/-- the shapes the three substitutions write: code points other than `&` and `<`; references `&name;`; an `&` before
    something that is neither an ASCII letter nor `#`; an `&` before an unknown name that is not followed by `;` -/
inductive Img (T : Entities.Tbl) : PStr → Prop
  | nil : Img T []
  | plain (c : Nat) (rest : PStr) : c ≠ 38 → c ≠ 60 → Img T rest → Img T (c :: rest)
  | ref (n rest : PStr) : Entities.isName n = true → Img T rest → Img T (Entities.ref n ++ rest)
  | bare (rest : PStr) : (∀ d r, rest = d :: r → Entities.isAlpha d = false ∧ d ≠ 35) → Img T rest →
      Img T (38 :: rest)
  | unk (a : Nat) (t rest : PStr) : Entities.isAlpha a = true → (∀ x ∈ a :: t, Entities.isNameChar x = true) →
      T.toChar.get (a :: t) = none → (∀ y r, rest = y :: r → Entities.isNameChar y = false ∧ y ≠ 59) → Img T rest →
      Img T (38 :: (a :: t) ++ rest)

theorem img_no_lt {T : Entities.Tbl} {o : PStr} (h : Img T o) : 60 ∉ o := by
  induction h with
  | nil => simp
  | plain c rest _ h60 _ ih => simp only [List.mem_cons, not_or]; exact ⟨fun e => h60 e.symm, ih⟩
  | ref n rest hn _ ih =>
    simp only [List.mem_append, not_or]
    exact ⟨Entities.not_mem_ref hn 60 (Or.inl rfl), ih⟩
  | bare rest _ _ ih => simp only [List.mem_cons, not_or]; exact ⟨by decide, ih⟩
  | unk a t rest _ hall _ _ _ ih =>
    simp only [List.cons_append, List.mem_cons, List.mem_append, not_or]
    refine ⟨by decide, ?_, ?_, ih⟩
    · intro e; have := hall 60 (by simp [← e]); revert this; decide
    · intro hm; have := hall 60 (by simp [hm]); revert this; decide

/-! ### bridges between the two sets of character classes -/
theorem isAlpha_eq (c : Nat) : Tokenizer.isAlpha c = Entities.isAlpha c := rfl
theorem isEntCh_eq (c : Nat) : Tokenizer.isEntCh c = Entities.isNameChar c := rfl

theorem updatepos_nil (p : Nat × Nat) : SourcePos.updatepos p [] = p := by
  simp [SourcePos.updatepos]

/-- `applyAct` with a pending data callback = the data callback, then `applyAct` without -/
theorem applyAct_pre (pre : List Ev) (s1 : PStr) (pos1 : Nat × Nat) (cd : Option PStr) (a : Act) :
    applyAct pre s1 pos1 cd a =
      (pre ++ (applyAct [] s1 pos1 cd a).1, (applyAct [] s1 pos1 cd a).2.1, (applyAct [] s1 pos1 cd a).2.2) := by
  cases a <;> simp [applyAct]


/-! ### one turn of the loop at an ampersand -/

theorem step_amp (P : Params) (e : Bool) (a s1 : PStr) (pos : Nat × Nat) (tok : Tok) (len : Nat)
    (ha : ∀ x ∈ a, isPlain x = true) (h38 : s1.head? = some 38) (hsw : sw [38, 35] s1 = false)
    (hact : actEntityRef e none s1 = .adv tok len none true) :
    step P e ⟨a ++ s1, pos, none⟩ =
      ((if 0 < a.length then [⟨.data a, a, pos⟩] else []) ++ [⟨tok, s1.take len, SourcePos.updatepos pos a⟩],
        ⟨s1.drop len, SourcePos.updatepos (SourcePos.updatepos pos a) (s1.take len), none⟩, none) := by
  have hspan : spanLen isPlain (a ++ s1) = a.length :=
    spanLen_append_stop isPlain a s1 ha (fun c hc => by rw [h38] at hc; cases hc; decide)
  have hne : s1.isEmpty = false := by cases s1 <;> simp_all
  have h60 : (s1.head? == some 60) = false := by rw [h38]; decide
  have h38' : (s1.head? == some 38) = true := by rw [h38]; decide
  simp only [step, hspan, List.take_left, List.drop_left, hne, Bool.false_eq_true, ↓reduceIte, chooseAct, h60, hsw, h38',
    hact, applyAct]

theorem drop_len_append (n : PStr) (X : PStr) : (n ++ X).drop n.length = X := List.drop_left

/-- `&name;` -/
theorem act_ref (e : Bool) (n X : PStr) (hn : Entities.isName n = true) :
    actEntityRef e none (38 :: (n ++ 59 :: X)) = .adv (.er n) (n.length + 2) none true ∧
      sw [38, 35] (38 :: (n ++ 59 :: X)) = false := by
  have hal := Entities.isName_alnum hn
  cases n with
  | nil => simp [Entities.isName] at hn
  | cons c t =>
    have hc : Tokenizer.isAlpha c = true := by
      simp only [Entities.isName, Bool.and_eq_true] at hn; exact hn.1
    have hc35 : c ≠ 35 := by
      have := Entities.isAlnum_bounds (hal c (by simp)); omega
    have hspan : spanLen isEntCh (t ++ 59 :: X) = t.length :=
      spanLen_append_stop isEntCh t (59 :: X)
        (fun x hx => by rw [isEntCh_eq]; exact Entities.isAlnum_nameChar (hal x (by simp [hx])))
        (fun c' hc' => by simp at hc'; subst hc'; decide)
    refine ⟨?_, ?_⟩
    · simp only [actEntityRef, entityRef, List.cons_append, List.drop_succ_cons, List.drop_zero, hc, ↓reduceIte, hspan,
        List.drop_left, List.head?_cons, List.take_left]
      have : (1 + 1 + t.length + 1 - 1) = (t.length + 1) + 1 := by omega
      simp only [this, List.drop_succ_cons]
      have hd : List.drop (t.length) (t ++ 59 :: X) = 59 :: X := List.drop_left
      simp only [hd, List.head?_cons, BEq.rfl, ↓reduceIte, List.length_cons]
      congr 1; omega
    · simp [sw, hc35]

/-- `&name` for a name run that is followed by something other than `;` -/
theorem act_unk (e : Bool) (a : Nat) (t : PStr) (y : Nat) (X : PStr) (ha : Entities.isAlpha a = true)
    (hall : ∀ x ∈ a :: t, Entities.isNameChar x = true) (hy : Entities.isNameChar y = false) (hy59 : y ≠ 59) :
    actEntityRef e none (38 :: ((a :: t) ++ y :: X)) = .adv (.er (a :: t)) ((a :: t).length + 1) none true ∧
      sw [38, 35] (38 :: ((a :: t) ++ y :: X)) = false := by
  have ha' : Tokenizer.isAlpha a = true := ha
  have ha35 : a ≠ 35 := by
    simp only [Entities.isAlpha, Bool.or_eq_true, Bool.and_eq_true, decide_eq_true_eq] at ha; omega
  have hspan : spanLen isEntCh (t ++ y :: X) = t.length :=
    spanLen_append_stop isEntCh t (y :: X)
      (fun x hx => by rw [isEntCh_eq]; exact hall x (by simp [hx]))
      (fun c' hc' => by simp at hc'; subst hc'; rw [isEntCh_eq]; exact hy)
  refine ⟨?_, ?_⟩
  · simp only [actEntityRef, entityRef, List.cons_append, List.drop_succ_cons, List.drop_zero, ha', ↓reduceIte, hspan,
      List.drop_left, List.head?_cons, List.take_left]
    have : (1 + 1 + t.length + 1 - 1) = (t.length + 1) + 1 := by omega
    simp only [this, List.drop_succ_cons]
    have hd : List.drop (t.length) (t ++ y :: X) = y :: X := List.drop_left
    have hy' : (some y == some 59) = false := by simp [hy59]
    simp only [hd, List.head?_cons, hy', Bool.false_eq_true, ↓reduceIte, List.length_cons]
  · simp [sw, ha35]

/-- `&` before something that is neither a letter nor `#` -/
theorem act_bare (e : Bool) (y : Nat) (X : PStr) (hy : Entities.isAlpha y = false) (hy35 : y ≠ 35) :
    actEntityRef e none (38 :: y :: X) = .adv (.data [38]) 1 none true ∧ sw [38, 35] (38 :: y :: X) = false := by
  have hy' : Tokenizer.isAlpha y = false := hy
  refine ⟨?_, ?_⟩
  · simp [actEntityRef, entityRef, hy', hy35]
  · simp [sw, hy35]


/-! ### the loop over a written text -/

theorem loop_cont (P : Params) (e : Bool) (f : Nat) (st st' : St) (evs : List Ev) (hs : st.s ≠ [])
    (hstep : step P e st = (evs, st', none)) :
    loop P e (f + 1) st = ⟨evs ++ (loop P e f st').evs, (loop P e f st').st, (loop P e f st').flag⟩ := by
  cases hst : st.s with
  | nil => exact absurd hst hs
  | cons c t => simp only [loop, hst, hstep]

/-- a run of plain code points in front of the next `<`: one data callback, then what the loop does at the `<` -/
theorem loop_plain_merge (P : Params) (e : Bool) (f : Nat) (a tl : PStr) (pos : Nat × Nat)
    (ha : ∀ x ∈ a, isPlain x = true) (hne : a ≠ []) (htl : tl.head? = some 60) :
    (loop P e (f + 1) ⟨a ++ tl, pos, none⟩).evs =
        ⟨.data a, a, pos⟩ :: (loop P e (f + 1) ⟨tl, SourcePos.updatepos pos a, none⟩).evs ∧
      (loop P e (f + 1) ⟨a ++ tl, pos, none⟩).st = (loop P e (f + 1) ⟨tl, SourcePos.updatepos pos a, none⟩).st ∧
      (loop P e (f + 1) ⟨a ++ tl, pos, none⟩).flag = (loop P e (f + 1) ⟨tl, SourcePos.updatepos pos a, none⟩).flag := by
  obtain ⟨c0, tl', rfl⟩ : ∃ c0 tl', tl = c0 :: tl' := by cases tl <;> simp_all
  have hc0 : c0 = 60 := by simpa using htl
  subst hc0
  have hspan : spanLen isPlain (a ++ 60 :: tl') = a.length :=
    spanLen_append_stop isPlain a (60 :: tl') ha (fun c hc => by simp at hc; subst hc; decide)
  have hspan0 : spanLen isPlain (60 :: tl') = 0 := by simp [spanLen, isPlain]
  have hlen : 0 < a.length := by cases a <;> simp_all
  obtain ⟨a0, a', rfl⟩ : ∃ a0 a', a = a0 :: a' := by cases a <;> simp_all
  -- both sides take one turn; the turns differ by the data callback only
  have hL : step P e ⟨(a0 :: a') ++ 60 :: tl', pos, none⟩ =
      (⟨.data (a0 :: a'), a0 :: a', pos⟩ ::
          (applyAct [] (60 :: tl') (SourcePos.updatepos pos (a0 :: a')) none (chooseAct P e none (60 :: tl'))).1,
        (applyAct [] (60 :: tl') (SourcePos.updatepos pos (a0 :: a')) none (chooseAct P e none (60 :: tl'))).2.1,
        (applyAct [] (60 :: tl') (SourcePos.updatepos pos (a0 :: a')) none (chooseAct P e none (60 :: tl'))).2.2) := by
    simp only [step, hspan, List.take_left, List.drop_left, hlen, ↓reduceIte, List.isEmpty_cons, Bool.false_eq_true]
    rw [applyAct_pre]
    rfl
  have hR : step P e ⟨60 :: tl', SourcePos.updatepos pos (a0 :: a'), none⟩ =
      applyAct [] (60 :: tl') (SourcePos.updatepos pos (a0 :: a')) none (chooseAct P e none (60 :: tl')) := by
    simp only [step, hspan0, List.take_zero, List.drop_zero, Nat.lt_irrefl, ↓reduceIte, updatepos_nil,
      List.isEmpty_cons, Bool.false_eq_true]
  generalize applyAct [] (60 :: tl') (SourcePos.updatepos pos (a0 :: a')) none (chooseAct P e none (60 :: tl')) = X
    at hL hR
  obtain ⟨xe, xs, xf⟩ := X
  simp only [List.cons_append] at hL
  cases xf with
  | some fl => simp [loop, hL, hR]
  | none => simp [loop, hL, hR]

theorem readText_noamp_prefix (T : Entities.Tbl) (late : Bool) (a r : PStr) (h : 38 ∉ a) :
    Reader.readText T late 0 (a ++ r) = a ++ Reader.readText T late 0 r := by
  induction a with
  | nil => rfl
  | cons x xs ih =>
    simp only [List.mem_cons, not_or] at h
    simp only [List.cons_append]
    rw [Entities.readText_plain T late x _ (fun e => h.1 e.symm), ih h.2]

theorem img_dropPlain {T : Entities.Tbl} : ∀ {o : PStr}, Img T o → Img T (o.dropWhile isPlain) := by
  intro o h
  induction h with
  | nil => exact .nil
  | plain c rest h38 h60 _ ih =>
    have : isPlain c = true := by simp [isPlain, h38, h60]
    simpa [List.dropWhile, this] using ih
  | ref n rest hn hr _ =>
    have : Entities.ref n ++ rest = 38 :: (n ++ 59 :: rest) := by simp [Entities.ref]
    rw [this]; simp only [List.dropWhile, isPlain]; simp only [← this]; exact .ref n rest hn hr
  | bare rest hb hr _ => simp only [List.dropWhile, isPlain]; exact .bare rest hb hr
  | unk a t rest h1 h2 h3 h4 hr _ =>
    simp only [List.cons_append, List.dropWhile, isPlain]
    exact .unk a t rest h1 h2 h3 h4 hr


/-- "after the events `E` the loop is where it would be on the closing suffix alone" -/
def Reaches (P : Params) (e : Bool) (cfg : Adapter.ACfg) (tl : PStr) (f : Nat) (st : St) (n : Nat) (txt : PStr) : Prop :=
  ∃ f' pos' E, f ≤ f' + n ∧ 0 < f' ∧
    (loop P e f st).evs = E ++ (loop P e f' ⟨tl, pos', none⟩).evs ∧
    (loop P e f st).st = (loop P e f' ⟨tl, pos', none⟩).st ∧
    (loop P e f st).flag = (loop P e f' ⟨tl, pos', none⟩).flag ∧
    textOf cfg E = txt ∧ ∀ ev ∈ E, ∃ d, ev.tok = .data d ∨ ev.tok = .er d

/-- one ampersand token, then the induction hypothesis -/
theorem reaches_amp (P : Params) (e : Bool) (cfg : Adapter.ACfg) (T : Entities.Tbl) (late : Bool) (tl a o1 rest : PStr)
    (pos : Nat × Nat) (f0 : Nat) (tok : Tok) (len : Nat) (piece : PStr)
    (ha : ∀ x ∈ a, isPlain x = true) (h38 : (o1 ++ tl).head? = some 38) (hsw : sw [38, 35] (o1 ++ tl) = false)
    (hact : actEntityRef e none (o1 ++ tl) = .adv tok len none true)
    (hdrop : (o1 ++ tl).drop len = rest ++ tl) (hlen : rest.length + 1 ≤ o1.length)
    (htok : ∃ d, tok = .data d ∨ tok = .er d)
    (hpiece : ∀ src p, textOf cfg [⟨tok, src, p⟩] = piece)
    (hread : Reader.readText T late 0 o1 = piece ++ Reader.readText T late 0 rest)
    (ih : ∀ pos, Reaches P e cfg tl f0 ⟨rest ++ tl, pos, none⟩ rest.length (Reader.readText T late 0 rest)) :
    Reaches P e cfg tl (f0 + 1) ⟨(a ++ o1) ++ tl, pos, none⟩ (a ++ o1).length
      (Reader.readText T late 0 (a ++ o1)) := by
  have h38a : 38 ∉ a := fun hm => by have := ha 38 hm; revert this; decide
  have hstep := step_amp P e a (o1 ++ tl) pos tok len ha h38 hsw hact
  rw [hdrop] at hstep
  have hs : (⟨(a ++ o1) ++ tl, pos, none⟩ : St).s ≠ [] := by
    simp only [List.append_assoc]
    intro h
    have : o1 ++ tl = [] := (List.append_eq_nil_iff.mp h).2
    rw [this] at h38; simp at h38
  have hassoc : (⟨(a ++ o1) ++ tl, pos, none⟩ : St) = ⟨a ++ (o1 ++ tl), pos, none⟩ := by rw [List.append_assoc]
  rw [hassoc] at hs ⊢
  unfold Reaches
  rw [loop_cont P e f0 _ _ _ hs hstep]
  obtain ⟨f', pos', E, hf, hf0, hev, hst, hfl, htx, hE⟩ := ih (SourcePos.updatepos (SourcePos.updatepos pos a) ((o1 ++ tl).take len))
  refine ⟨f', pos', ((if 0 < a.length then [⟨.data a, a, pos⟩] else []) ++
      [⟨tok, (o1 ++ tl).take len, SourcePos.updatepos pos a⟩]) ++ E, ?_, hf0, ?_, hst, hfl, ?_, ?_⟩
  · simp only [List.length_append]; omega
  · simp only [hev, List.append_assoc]
  · rw [textOf_append, textOf_append, hpiece, htx, readText_noamp_prefix T late a o1 h38a, hread]
    have : textOf cfg (if 0 < a.length then [⟨.data a, a, pos⟩] else []) = a := by
      cases a with
      | nil => simp [textOf, handled]
      | cons x xs => simp [textOf, handled, toSEv]
    rw [this]; simp
  · intro ev hev'
    simp only [List.mem_append, List.mem_singleton] at hev'
    rcases hev' with (hev' | rfl) | hev'
    · split at hev'
      · simp only [List.mem_singleton] at hev'; subst hev'; exact ⟨a, Or.inl rfl⟩
      · simp at hev'
    · exact htok
    · exact hE ev hev'


theorem handleEntityref_eq (cfg : Adapter.ACfg) (T : Entities.Tbl) (hcfg : cfg.entity = T.toChar.get) (n : PStr) :
    Adapter.handleEntityref cfg n = Reader.entityRef T n := by
  unfold Adapter.handleEntityref Reader.entityRef
  rw [hcfg]
  cases T.toChar.get n <;> rfl

theorem head_append_tl (rest tl : PStr) (htl : tl.head? = some 60) :
    ∃ y X, rest ++ tl = y :: X ∧ (rest = [] → y = 60) ∧ (∀ d r, rest = d :: r → y = d) := by
  cases rest with
  | nil =>
    cases tl with
    | nil => simp at htl
    | cons c t => simp at htl; exact ⟨c, t, rfl, fun _ => htl, fun d r h => by simp at h⟩
  | cons d r => exact ⟨d, r ++ tl, rfl, fun h => by simp at h, fun d' r' h => by simp at h; exact h.1⟩

/-- The tokenizer on a written text followed by markup: the text callbacks, handled by bs4, give what the reader
    model gives, and the loop arrives at the markup. -/
theorem loop_text (P : Params) (e : Bool) (cfg : Adapter.ACfg) (T : Entities.Tbl) (hcfg : cfg.entity = T.toChar.get)
    (late : Bool) (tl : PStr) (htl : tl.head? = some 60) :
    ∀ (n : Nat) (o : PStr), o.length = n → Img T o → ∀ (f : Nat) (pos : Nat × Nat), o.length < f →
      Reaches P e cfg tl f ⟨o ++ tl, pos, none⟩ o.length (Reader.readText T late 0 o) := by
  intro n
  induction n using Nat.strongRecOn with
  | _ n ih =>
    intro o hn himg f pos hf
    obtain ⟨f0, rfl⟩ : ∃ f0, f = f0 + 1 := ⟨f - 1, by omega⟩
    have hsplit := List.takeWhile_append_dropWhile (p := isPlain) (l := o)
    have ha : ∀ x ∈ o.takeWhile isPlain, isPlain x = true := Entities.mem_takeWhile_sat isPlain o
    have h1 := img_dropPlain himg
    generalize hA : o.takeWhile isPlain = a at hsplit ha
    generalize hO : o.dropWhile isPlain = o1 at hsplit h1
    have h38a : 38 ∉ a := fun hm => by have := ha 38 hm; revert this; decide
    have hlen : o.length = a.length + o1.length := by rw [← hsplit]; simp
    have ihr : ∀ rest, rest.length + 1 ≤ o1.length → Img T rest → ∀ pos,
        Reaches P e cfg tl f0 ⟨rest ++ tl, pos, none⟩ rest.length (Reader.readText T late 0 rest) :=
      fun rest hl hr pos => ih rest.length (by omega) rest rfl hr f0 pos (by omega)
    rw [← hsplit]
    cases h1 with
    | nil =>
      by_cases hane : a = []
      · subst hane
        exact ⟨f0 + 1, pos, [], by simp, by omega, by simp, rfl, rfl, by simp [textOf, handled, Reader.readText],
          by simp⟩
      · obtain ⟨h1, h2, h3⟩ := loop_plain_merge P e f0 a tl pos ha hane htl
        refine ⟨f0 + 1, SourcePos.updatepos pos a, [⟨.data a, a, pos⟩], by simp, by omega, ?_, ?_, ?_, ?_, ?_⟩
        · simpa using h1
        · simpa using h2
        · simpa using h3
        · rw [readText_noamp_prefix T late a [] h38a]; simp [textOf, handled, toSEv, Reader.readText]
        · intro ev hev; simp only [List.mem_singleton] at hev; subst hev; exact ⟨a, Or.inl rfl⟩
    | plain c rest h38 h60 _ =>
      exfalso
      have := Entities.dropWhile_head_not isPlain o c rest hO
      simp [isPlain, h38, h60] at this
    | ref nm rest hnm hr =>
      obtain ⟨hact, hsw⟩ := act_ref e nm (rest ++ tl) hnm
      have hs1 : Entities.ref nm ++ rest ++ tl = 38 :: (nm ++ 59 :: (rest ++ tl)) := by simp [Entities.ref]
      refine reaches_amp P e cfg T late tl a _ rest pos f0 (.er nm) (nm.length + 2) (Reader.entityRef T nm) ha
        (by rw [hs1]; rfl) (by rw [hs1]; exact hsw) (by rw [hs1]; exact hact) ?_ (by simp [Entities.ref]; omega)
        ⟨nm, Or.inr rfl⟩ (fun src p => by simp [textOf, handled, toSEv, handleEntityref_eq cfg T hcfg])
        (Entities.readText_ref T late nm rest hnm) (ihr rest (by simp [Entities.ref]; omega) hr)
      rw [hs1]
      have : nm.length + 2 = (nm.length + 1) + 1 := rfl
      rw [this, List.drop_succ_cons]
      have : nm ++ 59 :: (rest ++ tl) = (nm ++ [59]) ++ (rest ++ tl) := by simp
      rw [this]
      have hl : nm.length + 1 = (nm ++ [59]).length := by simp
      rw [hl, List.drop_left]
    | bare rest hb hr =>
      obtain ⟨y, X, hyX, hy0, hyd⟩ := head_append_tl rest tl htl
      have hy : Entities.isAlpha y = false ∧ y ≠ 35 := by
        cases rest with
        | nil => rw [hy0 rfl]; exact ⟨by decide, by decide⟩
        | cons d r => rw [hyd d r rfl]; exact hb d r rfl
      obtain ⟨hact, hsw⟩ := act_bare e y X hy.1 hy.2
      have hs1 : (38 :: rest) ++ tl = 38 :: y :: X := by rw [List.cons_append, hyX]
      refine reaches_amp P e cfg T late tl a _ rest pos f0 (.data [38]) 1 [38] ha
        (by rw [hs1]; rfl) (by rw [hs1]; exact hsw) (by rw [hs1]; exact hact) (by simp) (by simp)
        ⟨[38], Or.inl rfl⟩ (fun src p => by simp [textOf, handled, toSEv]) ?_ (ihr rest (by simp) hr)
      cases rest with
      | nil => simp [Reader.readText]
      | cons d r =>
        have := hb d r rfl
        rw [Entities.readText_bare_amp T late d r this.1 this.2]; rfl
    | unk a0 t rest hal hall hunk hrest hr =>
      obtain ⟨y, X, hyX, hy0, hyd⟩ := head_append_tl rest tl htl
      have hy : Entities.isNameChar y = false ∧ y ≠ 59 := by
        cases rest with
        | nil => rw [hy0 rfl]; exact ⟨by decide, by decide⟩
        | cons d r => rw [hyd d r rfl]; exact hrest d r rfl
      obtain ⟨hact, hsw⟩ := act_unk e a0 t y X hal hall hy.1 hy.2
      have hs1 : (38 :: (a0 :: t) ++ rest) ++ tl = 38 :: ((a0 :: t) ++ y :: X) := by
        simp only [List.cons_append, List.append_assoc, hyX]
      refine reaches_amp P e cfg T late tl a _ rest pos f0 (.er (a0 :: t)) ((a0 :: t).length + 1) (38 :: (a0 :: t)) ha
        (by rw [hs1]; rfl) (by rw [hs1]; exact hsw) (by rw [hs1]; exact hact) ?_ (by simp; omega)
        ⟨a0 :: t, Or.inr rfl⟩
        (fun src p => by simp [textOf, handled, toSEv, Adapter.handleEntityref, hcfg, hunk]) ?_
        (ihr rest (by simp; omega) hr)
      · rw [hs1, List.drop_succ_cons, ← hyX, List.drop_left]
      · have := Entities.readText_unknown_ref T late a0 t rest hal hall hrest hunk
        simpa using this


/-! ### a whole document `<name>TEXT</name>` -/

theorem step_lt (P : Params) (e : Bool) (s : PStr) (pos : Nat × Nat) (tok : Tok) (len : Nat) (cd' : Option PStr)
    (h60 : s.head? = some 60) (hp : parseLt P none s = some (.ok tok len cd')) :
    step P e ⟨s, pos, none⟩ =
      ([⟨tok, s.take len, pos⟩], ⟨s.drop len, SourcePos.updatepos pos (s.take len), cd'⟩, none) := by
  have hspan : spanLen isPlain s = 0 := spanLen_zero isPlain s (fun c hc => by rw [h60] at hc; cases hc; decide)
  have hne : s.isEmpty = false := by cases s <;> simp_all
  have h60' : (s.head? == some 60) = true := by rw [h60]; decide
  simp only [step, hspan, List.take_zero, List.drop_zero, Nat.lt_irrefl, ↓reduceIte, updatepos_nil, hne,
    Bool.false_eq_true, chooseAct, h60', actLt, hp, applyAct, List.nil_append]

theorem parseLt_open (P : Params) (name rest : PStr) (hn : NameOK name) (hl : P.lower name = name)
    (hcd : cdataContentElements.contains name = false) :
    parseLt P none (writeStartTag0 name ++ rest) = some (.ok (.st name []) (writeStartTag0 name).length none) := by
  have hw := parseStartTag_write_partial P none name rest hn hl
  rw [hcd] at hw
  obtain ⟨c, t, rfl, hc, _⟩ := hn
  have hcf := isLower_facts c hc
  simp only [parseLt, writeStartTag0, List.cons_append, List.nil_append, List.drop_succ_cons, List.drop_zero,
    List.head?_cons, Option.map_some, Option.getD_some, hcf.1, ↓reduceIte]
  simp only [writeStartTag0, List.cons_append, List.nil_append] at hw
  rw [hw]; rfl

theorem parseLt_close (P : Params) (name : PStr) (hn : NameOK name) (hl : P.lower name = name) :
    parseLt P none (writeEndTag name) = some (.ok (.et name) (writeEndTag name).length none) := by
  have hw := parseEndTag_write P none name [] hn hl (Or.inl rfl)
  rw [List.append_nil] at hw
  simp only [parseLt, writeEndTag, List.cons_append, List.nil_append, List.drop_succ_cons, List.drop_zero,
    List.head?_cons, Option.map_some, Option.getD_some]
  have h47 : Tokenizer.isAlpha 47 = false := by decide
  have hsw : sw [60, 47] (60 :: 47 :: (name ++ [62])) = true := by simp [sw]
  simp only [h47, Bool.false_eq_true, ↓reduceIte, hsw]
  simp only [writeEndTag, List.cons_append, List.nil_append] at hw
  rw [hw]

/-- The tokenizer on `<name>TEXT</name>` for a written `TEXT`: a start tag, text callbacks whose handling by bs4 gives
    what the reader model gives, the end tag; nothing is left over and no error is flagged. -/
theorem run_written (P : Params) (cfg : Adapter.ACfg) (T : Entities.Tbl) (hcfg : cfg.entity = T.toChar.get)
    (late : Bool) (name : PStr) (hn : NameOK name) (hl : P.lower name = name)
    (hcd : cdataContentElements.contains name = false) (o : PStr) (himg : Img T o) :
    ∃ E ev1 ev2, (run P (writeStartTag0 name ++ o ++ writeEndTag name)).evs = ev1 :: (E ++ [ev2]) ∧
      ev1.tok = .st name [] ∧ ev2.tok = .et name ∧ (∀ ev ∈ E, ∃ d, ev.tok = .data d ∨ ev.tok = .er d) ∧
      textOf cfg E = Reader.readText T late 0 o ∧
      (run P (writeStartTag0 name ++ o ++ writeEndTag name)).flag = .ok ∧
      (run P (writeStartTag0 name ++ o ++ writeEndTag name)).st.s = [] := by
  have hopen_len : 2 ≤ (writeStartTag0 name).length := by simp [writeStartTag0]
  have hclose60 : (writeEndTag name).head? = some 60 := by simp [writeEndTag]
  have hdoc : writeStartTag0 name ++ o ++ writeEndTag name = writeStartTag0 name ++ (o ++ writeEndTag name) := by
    rw [List.append_assoc]
  have hdoc60 : (writeStartTag0 name ++ (o ++ writeEndTag name)).head? = some 60 := by simp [writeStartTag0]
  -- first turn: the start tag
  have hstep1 := step_lt P false _ (1, 0) _ _ _ hdoc60 (parseLt_open P name (o ++ writeEndTag name) hn hl hcd)
  rw [List.drop_left, List.take_left] at hstep1
  -- the text
  obtain ⟨f', pos', E, hf, _, hev, hst, hfl, htx, hE⟩ :=
    loop_text P false cfg T hcfg late (writeEndTag name) hclose60 o.length o rfl himg
      ((writeStartTag0 name ++ (o ++ writeEndTag name)).length)
      (SourcePos.updatepos (1, 0) (writeStartTag0 name)) (by simp; omega)
  -- last turn: the end tag
  have hf2 : ∃ f'', f' = f'' + 2 := by
    refine ⟨f' - 2, ?_⟩
    have : 2 ≤ (writeEndTag name).length := by simp [writeEndTag]
    simp only [List.length_append] at hf
    omega
  obtain ⟨f'', rfl⟩ := hf2
  have hstep3 := step_lt P false _ pos' _ _ _ hclose60 (parseLt_close P name hn hl)
  rw [List.drop_length, List.take_length] at hstep3
  have hne3 : (⟨writeEndTag name, pos', none⟩ : St).s ≠ [] := by simp [writeEndTag]
  have hloop3 := loop_cont P false (f'' + 1) _ _ _ hne3 hstep3
  have hend : ∀ p, loop P false (f'' + 1) ⟨[], p, none⟩ = ⟨[], ⟨[], p, none⟩, .ok⟩ := fun p => by simp [loop]
  rw [hend] at hloop3
  rw [hloop3] at hev hst hfl
  -- assemble `feed`
  have hne1 : (init (writeStartTag0 name ++ (o ++ writeEndTag name))).s ≠ [] := by simp [init, writeStartTag0]
  have hloop1 := loop_cont P false ((writeStartTag0 name ++ (o ++ writeEndTag name)).length) (init _) _ _ hne1
    (by simpa [init] using hstep1)
  have hg1 : goahead P false (init (writeStartTag0 name ++ (o ++ writeEndTag name))) =
      ⟨⟨.st name [], writeStartTag0 name, (1, 0)⟩ :: (E ++ [⟨.et name, writeEndTag name, pos'⟩]),
        ⟨[], SourcePos.updatepos pos' (writeEndTag name), none⟩, .ok⟩ := by
    simp only [goahead, init] at hloop1 ⊢
    rw [hloop1]
    simp only [hev, hst, hfl, flush, Bool.false_and, Bool.false_eq_true, ↓reduceIte, List.append_nil,
      List.cons_append, List.nil_append]
  refine ⟨E, ⟨.st name [], writeStartTag0 name, (1, 0)⟩, ⟨.et name, writeEndTag name, pos'⟩, ?_, rfl, rfl, hE, htx,
    ?_, ?_⟩
  all_goals
    rw [hdoc]
    unfold run
    rw [hg1]
    simp [goahead, loop, flush]


/-! ### what the substitutions write has these shapes -/

open Entities in
theorem img_reSub (T : Tbl) (ps : List Particle) (rep : PStr → PStr) (hR : RepOK T rep ps)
    (h38 : coversChar ps 38 = true) (h60 : coversChar ps 60 = true) : ∀ l, Img T (reSub ps rep 0 l) := by
  refine reSub_induction ps (motive := fun l => Img T (reSub ps rep 0 l)) ?_ ?_ ?_
  · simp only [reSub]; exact .nil
  · intro p rest hp hk _ hfm ih
    obtain ⟨n, hn, hname, _⟩ := hR p hp
    rw [reSub_hit ps _ p rest hk hfm, hn]
    exact .ref n _ hname ih
  · intro c cs hfm ih
    rw [reSub_miss ps _ c cs hfm]
    exact .plain c _ (fun h => by subst h; exact coversChar_spec h38 cs hfm)
      (fun h => by subst h; exact coversChar_spec h60 cs hfm) ih

open Entities in
/-- the repaired `substitute_html5`: escaped ampersands and table characters become references; an ampersand is left
    bare only before something that is neither a letter nor `#`, or before an unknown name not followed by `;` -/
theorem img_html5 (T : Tbl) (ps : List Particle) (rep : PStr → PStr) (hR : RepOK T rep ps) (hk : KeysOK ps)
    (h60 : coversChar ps 60 = true) : ∀ s, Img T (reSub ps rep 0 (escapeAmpersands T s)) := by
  have h38 : ∀ cs, firstMatch ps (38 :: cs) = none :=
    fun cs => firstMatch_none_of_head (fun p hp => (hk p hp).2.1) cs
  intro s
  generalize hn : s.length = n
  induction n using Nat.strongRecOn generalizing s with
  | _ n ih =>
    cases s with
    | nil => simp only [escapeAmpersands, reSub]; exact .nil
    | cons c cs =>
      simp only [List.length_cons] at hn
      by_cases h : c = 38
      · subst h
        cases hne : ampNeedsEscape T cs with
        | true =>
          simp only [escapeAmpersands, hne, decide_true, Bool.and_self, ↓reduceIte]
          rw [reSub_copy rep amp _ (keysOK_amp hk)]
          have : amp = ref [97, 109, 112] := rfl
          rw [this]
          exact .ref _ _ (by decide) (ih cs.length (by omega) cs rfl)
        | false =>
          simp only [escapeAmpersands, hne, Bool.and_false, Bool.false_eq_true, ↓reduceIte]
          rw [reSub_miss _ _ _ _ (h38 _)]
          cases cs with
          | nil =>
            simp only [escapeAmpersands, reSub]
            exact .bare [] (fun d r h => by simp at h) .nil
          | cons d ds =>
            obtain ⟨hd35, _, hcase⟩ := ampNeedsEscape_false hne
            have hbare : Entities.isAlpha d = false →
                Img T (38 :: reSub ps rep 0 (escapeAmpersands T (d :: ds))) := by
              intro halpha
              obtain ⟨y, Y, hY, hy⟩ := fix_head hR hk d ds
              refine .bare _ ?_ (ih (d :: ds).length (by omega) (d :: ds) rfl)
              intro d' r' heq
              rw [hY] at heq
              simp only [List.cons.injEq] at heq
              rw [← heq.1]
              rcases hy with rfl | rfl
              · exact ⟨halpha, hd35⟩
              · exact ⟨by decide, by decide⟩
            rcases hcase with halpha | ⟨hsemi, hunk, _⟩
            · exact hbare halpha
            · by_cases halpha : Entities.isAlpha d = true
              · have hsplit := List.takeWhile_append_dropWhile (p := isNameChar) (l := d :: ds)
                have htake : (d :: ds).take (Entities.spanLen isNameChar (d :: ds)) = (d :: ds).takeWhile isNameChar :=
                  take_spanLen _ _
                have hdrop : (d :: ds).drop (Entities.spanLen isNameChar (d :: ds)) = (d :: ds).dropWhile isNameChar :=
                  drop_spanLen _ _
                have hdname : isNameChar d = true := by simp [isNameChar, Entities.isAlnum, halpha]
                obtain ⟨t, ht⟩ : ∃ t, (d :: ds).takeWhile isNameChar = d :: t := by
                  simp [List.takeWhile, hdname]
                have hNall : ∀ x ∈ d :: t, isNameChar x = true := by
                  intro x hx; rw [← ht] at hx; exact mem_takeWhile_sat _ _ x hx
                have hN38 : 38 ∉ d :: t := by
                  intro hm; have := hNall 38 hm; revert this; decide
                generalize hR' : (d :: ds).dropWhile isNameChar = R at hsplit hdrop
                rw [ht] at hsplit
                rw [htake, ht] at hunk
                rw [hdrop] at hsemi
                have hRlen : R.length < n := by
                  have := congrArg List.length hsplit
                  have hn' := hn
                  simp only [List.length_append, List.length_cons] at this hn'
                  omega
                rw [← hsplit, esc_append_noamp T _ _ hN38,
                  reSub_copy rep (d :: t) _ (fun x hx p hp e => by
                    have := (hk p hp).2.2.2; rw [e, hNall x hx] at this; exact absurd this (by simp))]
                refine .unk d t _ halpha hNall hunk ?_ (ih R.length hRlen R rfl)
                intro y Y' hy
                cases R with
                | nil => simp [escapeAmpersands, reSub] at hy
                | cons r rs =>
                  obtain ⟨y0, Y0, hY0, hy0⟩ := fix_head hR hk r rs
                  rw [hY0] at hy
                  simp only [List.cons.injEq] at hy
                  have hr1 : isNameChar r = false := dropWhile_head_not _ _ r rs hR'
                  have hr2 : r ≠ 59 := fun e => hsemi rs (by rw [e])
                  rcases hy0 with rfl | rfl
                  · rw [← hy.1]; exact ⟨hr1, hr2⟩
                  · rw [← hy.1]; exact ⟨by decide, by decide⟩
              · exact hbare (by simpa using halpha)
      · simp only [escapeAmpersands, h, decide_false, Bool.false_and, Bool.false_eq_true, ↓reduceIte]
        cases hm : firstMatch ps (c :: escapeAmpersands T cs) with
        | none =>
          rw [reSub_miss _ _ _ _ hm]
          refine .plain c _ h ?_ (ih cs.length (by omega) cs rfl)
          intro hc; subst hc; exact coversChar_spec h60 _ hm
        | some p =>
          obtain ⟨hp, hmat⟩ := firstMatch_some hm
          obtain ⟨nm, hnm, hname, _⟩ := hR p hp
          have hpre : p.key <+: escapeAmpersands T (c :: cs) := by
            have := matchesAt_prefix hmat
            simpa only [escapeAmpersands, h, decide_false, Bool.false_and, Bool.false_eq_true, ↓reduceIte] using this
          obtain ⟨rest, hl, hesc⟩ := esc_prefix T p.key (c :: cs) (hk p hp).1 hpre
          have hkne : p.key ≠ [] := (matchesAt_split hmat).1
          have hesc' : c :: escapeAmpersands T cs = p.key ++ escapeAmpersands T rest := by
            simpa only [escapeAmpersands, h, decide_false, Bool.false_and, Bool.false_eq_true, ↓reduceIte] using hesc
          rw [hesc'] at hm ⊢
          have hlen : rest.length < n := by
            have h1 := congrArg List.length hl
            have h2 : p.key.length ≠ 0 := by simpa using hkne
            simp only [List.length_cons, List.length_append] at h1
            omega
          rw [reSub_hit _ _ p _ hkne hm, hnm]
          exact .ref nm _ hname (ih rest.length hlen rest rfl)

/-! ### attribute values -/

/-- `attrValue` (parser.py:320-326) on what `quoted_attribute_value` writes, with `html.unescape` as the reader models it -/
theorem attrValue_quoteAttr (P : Params) (T : Entities.Tbl) (hP : ∀ x, P.unescape x = Reader.unescape T 0 x) (v : PStr) :
    attrValue P (some (Entities.quoteAttr v)) = Reader.readAttr T (Entities.quoteAttr v) := by
  rw [Entities.readAttr_quoteAttr, Entities.quoteAttr_eq]
  generalize Entities.quoteBody v = body
  have hq := Entities.quoteChar_cases v
  generalize Entities.quoteChar v = q at hq
  have key : ∀ q, (q = 34 ∨ q = 39) →
      attrValue P (some (q :: (body ++ [q]))) = some (if body.isEmpty then body else P.unescape body) := by
    intro q hq
    have h1 : (q :: (body ++ [q])).getLast? = some q := by
      show ((q :: body) ++ [q]).getLast? = some q
      exact List.getLast?_concat
    rcases hq with rfl | rfl <;>
      simp only [attrValue, List.head?_cons, h1, List.drop_succ_cons, List.drop_zero, List.dropLast_concat] <;> simp
  have hform : q :: body ++ [q] = q :: (body ++ [q]) := rfl
  rw [hform, key q hq]
  cases body with
  | nil => simp [Reader.unescape]
  | cons b bs => simp [hP]

/-- where the value sits in the tag source: after `=`, from the opening quote to the first matching quote -/
theorem valueGroup_quoteAttr (v rest : PStr) :
    valueGroup (61 :: (Entities.quoteAttr v ++ 62 :: rest)) = some (1, (Entities.quoteAttr v).length) := by
  rw [Entities.quoteAttr_eq]
  have hq := Entities.quoteChar_cases v
  have hnot := Entities.quoteChar_not_mem_body v
  generalize Entities.quoteBody v = body at hnot
  generalize Entities.quoteChar v = q at hq hnot
  have hfind : findCh q (body ++ q :: (62 :: rest)) = some body.length :=
    findCh_append_first q body (62 :: rest) (fun x hx e => hnot (e ▸ hx))
  have hws61 : isWs 61 = false := by decide
  have hwsq : isWs q = false := by rcases hq with rfl | rfl <;> decide
  have hq61 : (q == 61) = false := by rcases hq with rfl | rfl <;> decide
  have hqq : (q == 39 || q == 34) = true := by rcases hq with rfl | rfl <;> decide
  have hsrc : q :: body ++ [q] ++ 62 :: rest = q :: (body ++ q :: (62 :: rest)) := by simp
  rw [hsrc]
  simp [valueGroup, spanLen, hws61, hwsq, hq61, hqq, hfind]

end BS.C09Tok
