import BSModel.Model.Envelope
import BSModel.Proofs.Construct
/-! helper lemmas for the error-conversion envelope of C06 (core Lean only) -/
namespace BS.Construct

theorem isPRM_iff (c : Err) : isPRM c = true ↔ c = .parserRejectedMarkup := by
  simp [isPRM]

theorem pep479_prm : pep479 .parserRejectedMarkup = .parserRejectedMarkup := by decide

theorem pep479_idem (c : Err) : pep479 (pep479 c) = pep479 c := by
  unfold pep479
  by_cases h : c.isSub .stopIteration = true
  · simp [h]
  · simp [h]

theorem okInGenerator_pep (c : Err) (h : okInGenerator c = true) : okInGenerator (pep479 c) = true := by
  unfold okInGenerator at *
  rw [pep479_idem]; exact h

/-- the components of `Covers` -/
structure CoversP (code : Code) (r : Recorded) : Prop where
  warn : ∀ c ∈ r.warn, c = .parserRejectedMarkup
  cands : ∀ c ∈ r.cands, okInGenerator c = true
  lookup : ∀ c ∈ r.lookup, catches code.codecLookup c = true ∨ okInGenerator c = true
  decode : ∀ c ∈ r.decode, catches code.convertFrom c = true ∨ okInGenerator c = true
  logWarning : ∀ c ∈ r.logWarning, okInGenerator c = true
  declaredProp : ∀ c ∈ r.declaredProp, okInGenerator c = true
  resetAll : ∀ c ∈ r.resetAll, c = .parserRejectedMarkup
  newParser : ∀ c ∈ r.newParser, okAtCtor code c = true
  tokenizer : ∀ c ∈ r.tokenizer, okAtFeed code c = true
  intOf : ∀ c ∈ r.intOf, catches code.charrefInt c = true ∨ okAtFeed code c = true
  dec1 : ∀ c ∈ r.dec1, catches code.charrefDecode c = true ∨ okAtFeed code c = true
  chrOf : ∀ c ∈ r.chrOf, catches code.charrefChr c = true ∨ okAtFeed code c = true
  callbacks : ∀ c ∈ r.callbacks, okAtCtor code c = true
  closeGuarded : code.closeGuarded = true
  encodeReplace : code.encodeReplace = true

theorem coversP_of_covers (code : Code) (r : Recorded) (h : Covers code r = true) : CoversP code r := by
  simp only [Covers, Bool.and_eq_true, List.all_eq_true, Bool.or_eq_true] at h
  obtain ⟨⟨⟨⟨⟨⟨⟨⟨⟨⟨⟨⟨⟨⟨h1, h2⟩, h3⟩, h4⟩, h5⟩, h6⟩, h7⟩, h8⟩, h9⟩, h10⟩, h11⟩, h12⟩, h13⟩, h14⟩, h15⟩ := h
  exact ⟨fun c hc => (isPRM_iff c).mp (h1 c hc), h2, h3, h4, h5, h6, fun c hc => (isPRM_iff c).mp (h7 c hc),
    h8, h9, h10, h11, h12, h13, h14, h15⟩

/-- inside the generator: whatever leaves is `ParserRejectedMarkup` after PEP 479 -/
def FineG {α : Type} (x : Except Err α) : Prop := ∀ c, x = .error c → okInGenerator c = true

/-- outside every handler: whatever leaves is `ParserRejectedMarkup` -/
def Fine {α : Type} (x : Except Err α) : Prop := ∀ c, x = .error c → c = .parserRejectedMarkup

theorem absorb_err {α : Type} (clause : List Err) (d : α) (x : Except Err α) (c : Err)
    (h : absorb clause d x = .error c) : x = .error c ∧ catches clause c = false := by
  unfold absorb at h
  split at h
  · cases h
  · rename_i c'
    split at h
    · cases h
    · rename_i hn
      injection h with h; subst h
      exact ⟨rfl, by simpa using hn⟩

theorem okAtFeed_of_ctor (code : Code) (c : Err) (h : okAtCtor code c = true) : okAtFeed code c = true := by
  unfold okAtFeed; simp [h]

theorem wrapFeed_ok {V : Type} (code : Code) (x : Obj V × Option Err) (hx : ∀ c, x.2 = some c → okAtFeed code c = true) (c : Err)
    (h : (wrapFeed code x).2 = some c) : okAtCtor code c = true := by
  obtain ⟨o, e⟩ := x
  cases e with
  | none => simp [wrapFeed] at h
  | some e =>
    simp only [wrapFeed] at h
    split at h
    · simp only at h
      injection h with h; subst h
      unfold okAtCtor; simp [isPRM]
    · rename_i hn
      simp only at h
      injection h with h; subst h
      have := hx e rfl
      unfold okAtFeed at this
      simpa [hn] using this

section
variable {V : Type} (code : Code) (r : Recorded) (P : Prims V) (hc : CoversP code r) (hP : P.Within r)
include hc hP

theorem tryLookup_fine (s : Nat) : FineG (tryLookup code P s) := by
  intro c h
  unfold tryLookup at h
  split at h
  · cases h
  · rename_i c' hl
    split at h
    · cases h
    · rename_i hn
      injection h with h; subst h
      rcases hc.lookup c' (hP.lookup s c' hl) with h1 | h1
      · exact absurd h1 hn
      · exact h1

theorem findCodecGo_fine (fb : Option Nat) (ss : List Nat) : FineG (findCodecGo code P fb ss) := by
  induction ss with
  | nil => intro c h; cases h
  | cons s ss ih =>
    intro c h
    unfold findCodecGo at h
    split at h
    · rename_i c' hl
      injection h with h; subst h
      exact tryLookup_fine code r P hc hP s c' hl
    · cases h
    · exact ih c h

theorem convertFromE_fine (st : DammitState) (e : Nat) (b : Bool) : FineG (convertFromE code P st e b) := by
  intro c h
  unfold convertFromE at h
  split at h
  · rename_i c' hf
    injection h with h; subst h
    exact findCodecGo_fine code r P hc hP _ _ c' hf
  · cases h
  · split at h
    · cases h
    · simp only at h
      split at h
      · cases h
      · rename_i x hx
        split at h
        · cases h
        · rename_i hn
          injection h with h; subst h
          rcases hc.decode x (hP.decode _ _ x hx) with h1 | h1
          · exact absurd h1 hn
          · exact h1

theorem pass1E_fine (cs : List (Except Err Nat)) (hcs : ∀ x ∈ cs, raisesOnly r.cands x) (st : DammitState) :
    FineG (pass1E code P cs st) := by
  induction cs generalizing st with
  | nil => intro c h; cases h
  | cons x xs ih =>
    intro c h
    cases x with
    | error c' =>
      simp only [pass1E] at h
      injection h with h; subst h
      exact okInGenerator_pep _ (hc.cands c' (hcs _ (by simp) c' rfl))
    | ok e =>
      simp only [pass1E] at h
      split at h
      · rename_i c' hcf
        injection h with h; subst h
        exact convertFromE_fine code r P hc hP st e false c' hcf
      · cases h
      · exact ih (fun y hy => hcs y (by simp [hy])) _ c h

theorem pass2E_fine (cs : List (Except Err Nat)) (hcs : ∀ x ∈ cs, raisesOnly r.cands x) (u : Option PStr)
    (st : DammitState) : FineG (pass2E code P cs u st) := by
  induction cs generalizing u st with
  | nil => intro c h; cases h
  | cons x xs ih =>
    intro c h
    cases x with
    | error c' =>
      simp only [pass2E] at h
      injection h with h; subst h
      exact okInGenerator_pep _ (hc.cands c' (hcs _ (by simp) c' rfl))
    | ok e =>
      simp only [pass2E] at h
      split at h
      · rename_i c' hcf
        injection h with h; subst h
        split at hcf
        · cases hcf
        · exact convertFromE_fine code r P hc hP st e true c' hcf
      · rename_i rr _
        split at h
        · split at h
          · rename_i c' hl
            injection h with h; subst h
            exact hc.logWarning c' (hP.logWarning c' hl)
          · cases h
        · exact ih (fun y hy => hcs y (by simp [hy])) _ _ c h

theorem dammitE_fine : FineG (dammitE code P) := by
  intro c h
  unfold dammitE at h
  split at h
  · rename_i c' h1
    injection h with h; subst h
    exact pass1E_fine code r P hc hP P.cands hP.cands {} c' h1
  · rename_i p1 _
    split at h
    · rename_i c' h2
      injection h with h; subst h
      split at h2
      · cases h2
      · exact pass2E_fine code r P hc hP P.cands hP.cands _ _ c' h2
    · split at h <;> cases h

theorem prepareMarkupE_fine (mk : Markup) : Fine (prepareMarkupE code P mk) := by
  intro c h
  cases mk with
  | str s => cases h
  | bytes b =>
    simp only [prepareMarkupE] at h
    split at h
    · rename_i c' hd
      injection h with h; subst h
      split at hd
      · cases hd
      · have := dammitE_fine code r P hc hP c' hd
        exact (isPRM_iff _).mp this
    · split at h
      · injection h with h; exact h.symm
      · split at h
        · rename_i c' hdp
          injection h with h; subst h
          have := hc.declaredProp c' (hP.declaredProp c' hdp)
          exact (isPRM_iff _).mp this
        · cases h

theorem heuristicsE_fine (mk : Markup) : Fine (heuristicsE code P mk) := by
  intro c h
  unfold heuristicsE at h
  rw [hc.encodeReplace] at h
  simp only [if_true] at h
  split at h
  · rename_i e he
    -- the repaired heuristics never raise
    exfalso
    unfold heuristics at he
    split at he
    · cases he
    · split at he <;> cases he
  · cases h
  · split at h
    · cases h
    · rename_i w _ _ c' hw
      injection h with h; subst h
      exact hc.warn c' (hP.warn _ c' hw)

theorem charrefNumberE_only (name : PStr) : raisesOnly r.intOf (charrefNumberE P name) := by
  unfold charrefNumberE
  split
  · exact hP.intHex _
  · exact hP.intHex _
  · exact hP.intDec _

theorem tryDecodeE_ok (d : Option (Except Err PStr)) (hd : ∀ x, d = some x → raisesOnly r.dec1 x) (data : Option PStr)
    (c : Err) (h : tryDecodeE code.charrefDecode d data = .error c) : okAtFeed code c = true := by
  unfold tryDecodeE at h
  split at h
  · cases h
  · rename_i x
    obtain ⟨h1, h2⟩ := absorb_err _ _ _ _ h
    have hx : x = .error c := by
      unfold someOf at h1
      split at h1
      · cases h1
      · injection h1 with h1; subst h1; rfl
    rcases hc.dec1 c (hd x rfl c hx) with h3 | h3
    · rw [h2] at h3; cases h3
    · exact h3

theorem handleCharrefE_ok (orig : Option Nat) (name : PStr) (c : Err)
    (h : handleCharrefE code P orig name = .error c) : okAtFeed code c = true := by
  unfold handleCharrefE at h
  split at h
  · rename_i c' hi
    injection h with h; subst h
    obtain ⟨h1, h2⟩ := absorb_err _ _ _ _ hi
    rcases hc.intOf c' (charrefNumberE_only code r P hc hP name c' h1) with h3 | h3
    · rw [h2] at h3; cases h3
    · exact h3
  · rename_i n _
    unfold charrefTailE at h
    split at h
    · rename_i c' hd
      injection h with h; subst h
      unfold charrefDecodeE at hd
      split at hd
      · split at hd
        · rename_i c'' h1
          injection hd with hd; subst hd
          refine tryDecodeE_ok code r P hc hP _ ?_ none c'' h1
          intro x hx
          cases orig with
          | none => simp at hx
          | some e => simp at hx; subst hx; exact hP.dec1 e n
        · refine tryDecodeE_ok code r P hc hP _ ?_ _ c' hd
          intro x hx
          injection hx with hx; subst hx; exact hP.dec1252 n
      · cases hd
    · split at h
      · rename_i c' hch
        injection h with h; subst h
        unfold charrefChrE at hch
        split at hch
        · cases hch
        · obtain ⟨h1, h2⟩ := absorb_err _ _ _ _ hch
          have hx : P.chrOf n = .error c' := by
            unfold someOf at h1
            split at h1
            · cases h1
            · injection h1 with h1; subst h1; assumption
          rcases hc.chrOf c' (hP.chrOf n c' hx) with h3 | h3
          · rw [h2] at h3; cases h3
          · exact h3
      · cases h

theorem handleEventsE_ok (orig : Option Nat) (evs : List Event) (o : Obj V) (c : Err)
    (h : (handleEventsE code P orig evs o).2 = some c) : okAtFeed code c = true := by
  induction evs generalizing o with
  | nil => simp [handleEventsE] at h
  | cons ev evs ih =>
    cases ev with
    | charref n =>
      unfold handleEventsE at h
      split at h
      · rename_i e he
        simp only at h
        injection h with h; subst h
        exact handleCharrefE_ok code r P hc hP orig n e he
      · rename_i d _
        have hd := hP.applyData d o
        generalize P.applyData d o = x at h hd
        obtain ⟨o', e⟩ := x
        cases e with
        | none => exact ih o' h
        | some e =>
          simp only at h
          injection h with h; subst h
          exact okAtFeed_of_ctor code _ (hc.callbacks e (hd e rfl))
    | other k =>
      unfold handleEventsE at h
      have hd := hP.applyOther k o
      generalize P.applyOther k o = x at h hd
      obtain ⟨o', e⟩ := x
      cases e with
      | none => exact ih o' h
      | some e =>
        simp only at h
        injection h with h; subst h
        exact okAtFeed_of_ctor code _ (hc.callbacks e (hd e rfl))

theorem runPhase_ok (t : Phase) (ht : raisesOnlyO r.tokenizer t.2) (o : Obj V) (c : Err)
    (h : (runPhase code P t o).2 = some c) : okAtFeed code c = true := by
  unfold runPhase at h
  have he := handleEventsE_ok code r P hc hP (P.origOf o) t.1 o
  generalize handleEventsE code P (P.origOf o) t.1 o = x at h he
  obtain ⟨o', e⟩ := x
  cases e with
  | some e =>
    simp only at h
    injection h with h; subst h
    exact he e rfl
  | none =>
    simp only at h
    exact hc.tokenizer c (ht c h)

theorem builderFeedE_ok (o : Obj V) (c : Err) (h : (builderFeedE code P o).2 = some c) : okAtCtor code c = true := by
  unfold builderFeedE at h
  split at h
  · rename_i c' hn
    simp only at h
    injection h with h; subst h
    exact hc.newParser c' (hP.newParser c' hn)
  · have h1 := wrapFeed_ok code (runPhase code P (P.tokFeed (P.markupOf o)) o)
      (runPhase_ok code r P hc hP _ (hP.tokFeed _) o)
    generalize wrapFeed code (runPhase code P (P.tokFeed (P.markupOf o)) o) = x at h h1
    obtain ⟨o1, e⟩ := x
    cases e with
    | some e =>
      simp only at h
      injection h with h; subst h
      exact h1 e rfl
    | none =>
      simp only [hc.closeGuarded, if_true] at h
      exact wrapFeed_ok code _ (runPhase_ok code r P hc hP _ (hP.tokClose _) o1) c h

/-- an attempt ends accepted, rejected, or by letting `ParserRejectedMarkup` itself through -/
theorem soupFeedE_outcome (o : Obj V) :
    (soupFeedE code P o).2 = .accept ∨ (soupFeedE code P o).2 = .reject ∨
      (soupFeedE code P o).2 = .raise .parserRejectedMarkup := by
  unfold soupFeedE
  split
  · rename_i c hr
    right; right
    simp only
    rw [hc.resetAll c (hP.resetAll c hr)]
  · have hb := builderFeedE_ok code r P hc hP o
    have key : ∀ (x : Obj V × Option Err), (∀ c, x.2 = some c → okAtCtor code c = true) →
        (match x with
          | (o', none) => ((o', Outcome.accept) : Obj V × Outcome)
          | (o', some e) => if catches code.ctor e = true then (o', .reject) else (o', .raise e)).2 = .accept ∨
        (match x with
          | (o', none) => ((o', Outcome.accept) : Obj V × Outcome)
          | (o', some e) => if catches code.ctor e = true then (o', .reject) else (o', .raise e)).2 = .reject ∨
        (match x with
          | (o', none) => ((o', Outcome.accept) : Obj V × Outcome)
          | (o', some e) => if catches code.ctor e = true then (o', .reject) else (o', .raise e)).2
            = .raise .parserRejectedMarkup := by
      intro x hx
      obtain ⟨o', e⟩ := x
      cases e with
      | none => left; rfl
      | some e =>
        simp only
        by_cases hcat : catches code.ctor e = true
        · right; left; simp [hcat]
        · right; right
          have := hx e rfl
          unfold okAtCtor at this
          have hcf : catches code.ctor e = false := by simpa using hcat
          simp only [hcf, Bool.false_or] at this
          have he := (isPRM_iff e).mp this
          subst he
          simp [hcf]
    apply key
    generalize builderFeedE code P o = x at hb
    obtain ⟨o', e⟩ := x
    cases e with
    | some e => exact hb
    | none =>
      simp only
      intro c h
      exact hc.callbacks c (hP.endOfInput o' c h)

end

/-! ### frames: an attempt of the envelope model writes only what the callbacks write -/

theorem handleEventsE_frame {V : Type} (code : Code) (P : Prims V) (X : List Field) (hf : P.Frames X)
    (orig : Option Nat) (evs : List Event) (o : Obj V) : AgreeOff X (handleEventsE code P orig evs o).1 o := by
  induction evs generalizing o with
  | nil => exact AgreeOff.refl _ _
  | cons ev evs ih =>
    cases ev with
    | charref n =>
      unfold handleEventsE
      split
      · exact AgreeOff.refl _ _
      · rename_i d _
        have hd := hf.applyData d o
        generalize P.applyData d o = x at hd
        obtain ⟨o', e⟩ := x
        cases e with
        | none => exact (ih o').trans hd
        | some e => exact hd
    | other k =>
      unfold handleEventsE
      have hd := hf.applyOther k o
      generalize P.applyOther k o = x at hd
      obtain ⟨o', e⟩ := x
      cases e with
      | none => exact (ih o').trans hd
      | some e => exact hd

theorem runPhase_frame {V : Type} (code : Code) (P : Prims V) (X : List Field) (hf : P.Frames X)
    (t : Phase) (o : Obj V) : AgreeOff X (runPhase code P t o).1 o := by
  unfold runPhase
  have := handleEventsE_frame code P X hf (P.origOf o) t.1 o
  generalize handleEventsE code P (P.origOf o) t.1 o = x at this
  obtain ⟨o', e⟩ := x
  cases e <;> exact this

theorem wrapFeed_fst {V : Type} (code : Code) (x : Obj V × Option Err) : (wrapFeed code x).1 = x.1 := by
  obtain ⟨o, e⟩ := x
  cases e with
  | none => rfl
  | some e => simp only [wrapFeed]; split <;> rfl

theorem builderFeedE_frame {V : Type} (code : Code) (P : Prims V) (X : List Field) (hf : P.Frames X) (o : Obj V) :
    AgreeOff X (builderFeedE code P o).1 o := by
  unfold builderFeedE
  split
  · exact AgreeOff.refl _ _
  · have h1 : AgreeOff X (wrapFeed code (runPhase code P (P.tokFeed (P.markupOf o)) o)).1 o := by
      rw [wrapFeed_fst]; exact runPhase_frame code P X hf _ o
    generalize wrapFeed code (runPhase code P (P.tokFeed (P.markupOf o)) o) = x at h1
    obtain ⟨o1, e⟩ := x
    cases e with
    | some e => exact h1
    | none =>
      simp only
      split
      · rw [wrapFeed_fst]; exact (runPhase_frame code P X hf _ o1).trans h1
      · exact (runPhase_frame code P X hf _ o1).trans h1

theorem soupFeedE_frame {V : Type} (code : Code) (P : Prims V) (X : List Field) (hf : P.Frames X) (o : Obj V) :
    AgreeOff X (soupFeedE code P o).1 o := by
  unfold soupFeedE
  split
  · exact AgreeOff.refl _ _
  · have hb := builderFeedE_frame code P X hf o
    generalize builderFeedE code P o = x at hb
    obtain ⟨o', e⟩ := x
    cases e with
    | some e =>
      simp only
      split <;> exact hb
    | none =>
      simp only
      have he := hf.endOfInput o'
      generalize P.endOfInput o' = y at he
      obtain ⟨o2, e2⟩ := y
      cases e2 with
      | none => exact he.trans hb
      | some e2 =>
        simp only
        split <;> exact he.trans hb

theorem AgreeOff.mono {V : Type} {X Y : List Field} {a b : Obj V} (h : AgreeOff X a b) (hxy : ∀ f, f ∈ X → f ∈ Y) :
    AgreeOff Y a b := fun f hf => h f (fun hx => hf (hxy f hx))

/-- the envelope model's machine satisfies the frame conditions of the retry theorems as soon as its callbacks do -/
theorem machineE_wf {V : Type} (code : Code) (P : Prims V) (F : Frame V) (R H : List Field) (hF : F.WF R H)
    (hf : P.Frames (R ++ H)) : (machineE code P F).WF R H :=
  ⟨hF.headerKeys, hF.freshKeys, hF.freshFrame, fun o => soupFeedE_frame code P (R ++ H) hf o⟩

/-! ### the concrete charref conversion is an instance of the envelope model -/

theorem charrefNumber_error (name : PStr) (e : Err) (h : charrefNumber name = .error e) : e = .valueError := by
  unfold charrefNumber at h
  have hd : ∀ s, pyIntDec s = .error e → e = .valueError := by
    intro s hs; unfold pyIntDec at hs; split at hs
    · injection hs with hs; exact hs.symm
    · split at hs
      · injection hs with hs; exact hs.symm
      · cases hs
  have hx : ∀ s, pyIntHex s = .error e → e = .valueError := by
    intro s hs; unfold pyIntHex at hs; simp only at hs; split at hs
    · split at hs
      · injection hs with hs; exact hs.symm
      · cases hs
    · injection hs with hs; exact hs.symm
  split at h
  · exact hx _ h
  · exact hx _ h
  · exact hd _ h

theorem charrefNumberE_concrete {V : Type} (P : Prims V) (f : Nat → Nat → Dec1) (hP : P.CharrefConcrete f) (name : PStr) :
    charrefNumberE P name = charrefNumber name := by
  unfold charrefNumberE charrefNumber
  rw [hP.intDec, hP.intHex]
  split
  · rfl
  · rfl
  · rename_i h1 h2
    split
    · rename_i t; exact absurd rfl (h1 t)
    · rename_i t; exact absurd rfl (h2 t)
    · rfl

/-- one round of the decode loop, new vs old, for both variants of the clause -/
theorem tryDecodeE_eq (catchAll : Bool) (x : Option Dec1) (n : Nat) (data : Option PStr) :
    tryDecodeE (if catchAll then [Err.unicodeError] else [Err.unicodeDecodeError]) (x.map Dec1.toExcept) data
      = tryDecode catchAll (x.map fun d => fun _ => d) n data := by
  cases x with
  | none => rfl
  | some d => cases d <;> cases catchAll <;> rfl

theorem charrefFinish_eq {V : Type} (P : Prims V) (f : Nat → Nat → Dec1) (hP : P.CharrefConcrete f) (code : Code)
    (hc : code.charrefChr = [.valueError, .overflowError]) (n : Nat) (data : Option PStr) :
    (match charrefChrE code P n data with
      | .error c => (.error c : Except Err PStr)
      | .ok data => .ok (if truthy data then data.getD [] else [0xFFFD])) = .ok (charrefFinish n data) := by
  unfold charrefChrE charrefFinish
  by_cases ht : truthy data = true
  · simp [ht]
  · simp only [ht, Bool.false_eq_true, if_false]
    rw [hP.chrOf, hc]
    by_cases hn : n ≤ Gen.C06.maxUnicode
    · simp [hn, someOf, absorb]
    · simp [hn, someOf, absorb, catches, Err.isSub, Err.sup, ht]

theorem charrefDecodeE_eq {V : Type} (P : Prims V) (f : Nat → Nat → Dec1) (hP : P.CharrefConcrete f) (code : Code)
    (catchAll : Bool) (hc : code.charrefDecode = if catchAll then [Err.unicodeError] else [Err.unicodeDecodeError])
    (orig : Option Nat) (n : Nat) (hn : n < 256) :
    charrefDecodeE code P orig n =
      (match tryDecode catchAll (orig.map f) n none with
       | .error e => .error e
       | .ok d1 => tryDecode catchAll (some cp1252) n d1) := by
  unfold charrefDecodeE
  simp only [hn, if_true, hc]
  have h1 : (orig.map fun e => P.dec1 e n) = ((orig.map fun e => f e n).map Dec1.toExcept) := by
    cases orig <;> simp [hP.dec1]
  have h2 : tryDecode catchAll (orig.map f) n none = tryDecode catchAll ((orig.map fun e => f e n).map fun d => fun _ => d) n none := by
    cases orig <;> rfl
  rw [h1, tryDecodeE_eq catchAll _ n, h2]
  cases tryDecode catchAll ((orig.map fun e => f e n).map fun d => fun _ => d) n none with
  | error e => rfl
  | ok d1 =>
    simp only
    have h3 := tryDecodeE_eq catchAll (some (cp1252 n)) n d1
    simp only [Option.map] at h3
    rw [hP.dec1252, h3]
    rfl

theorem handleCharrefE_core {V : Type} (P : Prims V) (f : Nat → Nat → Dec1) (hP : P.CharrefConcrete f) (code : Code)
    (catchAll : Bool) (hd : code.charrefDecode = if catchAll then [Err.unicodeError] else [Err.unicodeDecodeError])
    (hc : code.charrefChr = [.valueError, .overflowError]) (orig : Option Nat) (n : Nat) :
    charrefTailE code P orig n
      = charrefFrom catchAll (orig.map f) n := by
  unfold charrefFrom charrefTailE
  by_cases hn : n < 256
  · rw [charrefDecodeE_eq P f hP code catchAll hd orig n hn]
    simp only [hn, if_true]
    cases tryDecode catchAll (orig.map f) n none with
    | error e => rfl
    | ok d1 =>
      simp only
      cases tryDecode catchAll (some cp1252) n d1 with
      | error e => rfl
      | ok d2 => exact charrefFinish_eq P f hP code hc n d2
  · simp only [hn, if_false]
    have : charrefDecodeE code P orig n = .ok none := by unfold charrefDecodeE; simp [hn]
    rw [this]
    exact charrefFinish_eq P f hP code hc n none

/-! ### UnicodeDammit without escaping exceptions is the model of `Construct.lean` -/

theorem convertFromE_eq {V : Type} (code : Code) (P : Prims V) (encs : List Nat) (hq : Prims.DammitQuiet code P encs)
    (st : DammitState) (e : Nat) (b : Bool) :
    convertFromE code P st e b = .ok (convertFrom (Prims.env code P) st e b) := by
  unfold convertFromE convertFrom Prims.env
  obtain ⟨c, hc⟩ := hq.find e
  simp only [hc]
  cases c with
  | none => rfl
  | some c =>
    simp only
    split
    · rfl
    · cases hd : P.decode c b with
      | ok u => rfl
      | error x => simp [hq.decode c b x hd]

theorem pass1E_eq {V : Type} (code : Code) (P : Prims V) (encs0 : List Nat) (hq : Prims.DammitQuiet code P encs0)
    (encs : List Nat) (st : DammitState) :
    pass1E code P (encs.map .ok) st = .ok (pass1 (Prims.env code P) encs st) := by
  induction encs generalizing st with
  | nil => rfl
  | cons e es ih =>
    simp only [List.map_cons, pass1E, pass1]
    rw [convertFromE_eq code P encs0 hq]
    generalize convertFrom (Prims.env code P) st e false = x
    obtain ⟨u, st'⟩ := x
    cases u with
    | some u => rfl
    | none => exact ih st'

theorem pass2E_eq {V : Type} (code : Code) (P : Prims V) (encs0 : List Nat) (hq : Prims.DammitQuiet code P encs0)
    (encs : List Nat) (u : Option PStr) (st : DammitState) :
    pass2E code P (encs.map .ok) u st = .ok (pass2 (Prims.env code P) encs u st) := by
  induction encs generalizing u st with
  | nil => rfl
  | cons e es ih =>
    simp only [List.map_cons, pass2E, pass2]
    have hr : (if P.isAscii e = true then (Except.ok (u, st) : Except Err (Option PStr × DammitState))
        else convertFromE code P st e true)
        = .ok (if (Prims.env code P).isAscii e = true then (u, st) else convertFrom (Prims.env code P) st e true) := by
      show _ = Except.ok (if P.isAscii e = true then (u, st) else convertFrom (Prims.env code P) st e true)
      split
      · rfl
      · exact convertFromE_eq code P encs0 hq st e true
    rw [hr]
    generalize (if (Prims.env code P).isAscii e = true then (u, st) else convertFrom (Prims.env code P) st e true) = r
    by_cases hs : r.1.isSome = true
    · simp only [hs, if_true, hq.log]
    · simp only [hs, Bool.false_eq_true, if_false]
      exact ih _ _

theorem dammitE_eq {V : Type} (code : Code) (P : Prims V) (encs : List Nat) (hq : Prims.DammitQuiet code P encs) :
    dammitE code P = .ok (dammit (Prims.env code P) encs) := by
  unfold dammitE dammit
  rw [hq.cands, pass1E_eq code P encs hq]
  simp only
  by_cases hf : firstPassEnough (pass1 (Prims.env code P) encs {}).1 = true
  · simp only [hf, if_true]
    split <;> (rename_i h; simp [h])
  · simp only [hf, Bool.false_eq_true, if_false]
    rw [pass2E_eq code P encs hq]
    simp only
    split <;> (rename_i h; simp [h])

theorem silent_within (r : Recorded) : Prims.silent.Within r := by
  refine ⟨?_, ?_, ?_, ?_, ?_, ?_, ?_, ?_, ?_, ?_, ?_, ?_, ?_, ?_, ?_, ?_, ?_, ?_⟩ <;>
    simp [Prims.silent, Prims.quiet, raisesOnly, raisesOnlyO]

/-! ### `original_encoding` names a codec -/

/-- every codec recorded as `original_encoding` passes `"".encode(codec)` -/
def EncInv (enc : Nat → Except Err Unit) (st : DammitState) : Prop := ∀ c, st.originalEncoding = some c → enc c = .ok ()

theorem guardedDecode_ok (enc : Nat → Except Err Unit) (decode : Nat → Bool → Except Err PStr) (empty : Bool)
    (hlook : empty = false → ∀ c b u, decode c b = .ok u → enc c = .ok ()) (c : Nat) (b : Bool) (u : PStr)
    (h : guardedDecode enc decode empty c b = .ok u) : enc c = .ok () := by
  unfold guardedDecode at h
  cases empty with
  | true =>
    simp only [if_true] at h
    cases he : enc c with
    | ok x => rfl
    | error x => rw [he] at h; cases h
  | false =>
    simp only [Bool.false_eq_true, if_false] at h
    exact hlook rfl c b u h

theorem convertFromE_encInv {V : Type} (code : Code) (P : Prims V) (enc : Nat → Except Err Unit) (empty : Bool)
    (hlook : empty = false → ∀ c b u, P.decode c b = .ok u → enc c = .ok ()) (st : DammitState) (e : Nat) (b : Bool)
    (r : Option PStr × DammitState) (hi : EncInv enc st)
    (h : convertFromE code (P.withEmptyGuard enc empty) st e b = .ok r) : EncInv enc r.2 := by
  unfold convertFromE at h
  split at h
  · cases h
  · injection h with h; subst h; exact hi
  · rename_i c _
    split at h
    · injection h with h; subst h; exact hi
    · simp only at h
      split at h
      · rename_i u hd
        injection h with h; subst h
        intro c' hc'
        simp only at hc'
        injection hc' with hc'; subst hc'
        exact guardedDecode_ok enc P.decode empty hlook c b u hd
      · split at h
        · injection h with h; subst h; exact hi
        · cases h

theorem pass1E_encInv {V : Type} (code : Code) (P : Prims V) (enc : Nat → Except Err Unit) (empty : Bool)
    (hlook : empty = false → ∀ c b u, P.decode c b = .ok u → enc c = .ok ()) (cs : List (Except Err Nat))
    (st : DammitState) (r : Option PStr × DammitState) (hi : EncInv enc st)
    (h : pass1E code (P.withEmptyGuard enc empty) cs st = .ok r) : EncInv enc r.2 := by
  induction cs generalizing st with
  | nil => simp only [pass1E] at h; injection h with h; subst h; exact hi
  | cons x xs ih =>
    cases x with
    | error c => simp only [pass1E] at h; cases h
    | ok e =>
      simp only [pass1E] at h
      split at h
      · cases h
      · rename_i u st' hc
        injection h with h; subst h
        exact convertFromE_encInv code P enc empty hlook st e false _ hi hc
      · rename_i st' hc
        exact ih st' (convertFromE_encInv code P enc empty hlook st e false _ hi hc) h

theorem pass2E_encInv {V : Type} (code : Code) (P : Prims V) (enc : Nat → Except Err Unit) (empty : Bool)
    (hlook : empty = false → ∀ c b u, P.decode c b = .ok u → enc c = .ok ()) (cs : List (Except Err Nat))
    (u : Option PStr) (st : DammitState) (r : Option PStr × Bool × DammitState) (hi : EncInv enc st)
    (h : pass2E code (P.withEmptyGuard enc empty) cs u st = .ok r) : EncInv enc r.2.2 := by
  induction cs generalizing u st with
  | nil => simp only [pass2E] at h; injection h with h; subst h; exact hi
  | cons x xs ih =>
    cases x with
    | error c => simp only [pass2E] at h; cases h
    | ok e =>
      simp only [pass2E] at h
      split at h
      · cases h
      · rename_i rr hr
        have hrr : EncInv enc rr.2 := by
          split at hr
          · injection hr with hr; subst hr; exact hi
          · exact convertFromE_encInv code P enc empty hlook st e true _ hi hr
        split at h
        · split at h
          · cases h
          · injection h with h; subst h; exact hrr
        · exact ih _ _ hrr h

/-- the loop with attempts that end accepted, rejected or in `ParserRejectedMarkup` -/
theorem retry_outcome_prm {V : Type} (m : Machine V)
    (hf : ∀ o, (m.feed o).2 = .accept ∨ (m.feed o).2 = .reject ∨ (m.feed o).2 = .raise .parserRejectedMarkup)
    (o : Obj V) (ss : List Strategy) :
    (retry m o ss).2 = .ok () ∨ (retry m o ss).2 = .error .parserRejectedMarkup := by
  induction ss generalizing o with
  | nil => exact Or.inr rfl
  | cons s rest ih =>
    rw [retry]
    have h := hf (assignAll (m.fresh (assignAll (m.header s) o)) (assignAll (m.header s) o))
    have ha : attempt m o s = m.feed (assignAll (m.fresh (assignAll (m.header s) o)) (assignAll (m.header s) o)) := rfl
    rw [← ha] at h
    generalize attempt m o s = x at h ⊢
    obtain ⟨o', r⟩ := x
    simp only at h
    rcases h with rfl | rfl | rfl
    · exact Or.inl rfl
    · exact ih o'
    · exact Or.inr rfl

end BS.Construct
