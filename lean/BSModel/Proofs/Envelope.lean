import BSModel.Model.Envelope
import BSModel.Proofs.Construct
/-! helper lemmas for the error-conversion envelope of C06 (core Lean only) -/
namespace BS.Construct

theorem isPRM_iff (c : Err) : isPRM c = true ↔ c = .parserRejectedMarkup := by
  simp [isPRM]

theorem pep479_prm : pep479 .parserRejectedMarkup = .parserRejectedMarkup := by decide

theorem pep479_idem (c : Err) : pep479 (pep479 c) = pep479 c := by
  unfold pep479
  by_cases h : c.isSub .stopIteration = true
  · simp [h]
  · simp [h]

theorem okInGenerator_pep (c : Err) (h : okInGenerator c = true) : okInGenerator (pep479 c) = true := by
  unfold okInGenerator at *
  rw [pep479_idem]; exact h

/-- the components of `Covers` -/
structure CoversP (code : Code) (r : Recorded) : Prop where
  warn : ∀ c ∈ r.warn, c = .parserRejectedMarkup
  cands : ∀ c ∈ r.cands, okInGenerator c = true
  lookup : ∀ c ∈ r.lookup, catches code.codecLookup c = true ∨ okInGenerator c = true
  decode : ∀ c ∈ r.decode, catches code.convertFrom c = true ∨ okInGenerator c = true
  logWarning : ∀ c ∈ r.logWarning, okInGenerator c = true
  declaredProp : ∀ c ∈ r.declaredProp, okInGenerator c = true
  resetAll : ∀ c ∈ r.resetAll, c = .parserRejectedMarkup
  newParser : ∀ c ∈ r.newParser, okAtCtor code c = true
  tokenizer : ∀ c ∈ r.tokenizer, okAtFeed code c = true
  intOf : ∀ c ∈ r.intOf, catches code.charrefInt c = true ∨ okAtFeed code c = true
  dec1 : ∀ c ∈ r.dec1, catches code.charrefDecode c = true ∨ okAtFeed code c = true
  chrOf : ∀ c ∈ r.chrOf, catches code.charrefChr c = true ∨ okAtFeed code c = true
  callbacks : ∀ c ∈ r.callbacks, okAtCtor code c = true
  closeGuarded : code.closeGuarded = true
  encodeReplace : code.encodeReplace = true

theorem coversP_of_covers (code : Code) (r : Recorded) (h : Covers code r = true) : CoversP code r := by
  simp only [Covers, Bool.and_eq_true, List.all_eq_true, Bool.or_eq_true] at h
  obtain ⟨⟨⟨⟨⟨⟨⟨⟨⟨⟨⟨⟨⟨⟨h1, h2⟩, h3⟩, h4⟩, h5⟩, h6⟩, h7⟩, h8⟩, h9⟩, h10⟩, h11⟩, h12⟩, h13⟩, h14⟩, h15⟩ := h
  exact ⟨fun c hc => (isPRM_iff c).mp (h1 c hc), h2, h3, h4, h5, h6, fun c hc => (isPRM_iff c).mp (h7 c hc),
    h8, h9, h10, h11, h12, h13, h14, h15⟩

/-- inside the generator: whatever leaves is `ParserRejectedMarkup` after PEP 479 -/
def FineG {α : Type} (x : Except Err α) : Prop := ∀ c, x = .error c → okInGenerator c = true

/-- outside every handler: whatever leaves is `ParserRejectedMarkup` -/
def Fine {α : Type} (x : Except Err α) : Prop := ∀ c, x = .error c → c = .parserRejectedMarkup

theorem absorb_err {α : Type} (clause : List Err) (d : α) (x : Except Err α) (c : Err)
    (h : absorb clause d x = .error c) : x = .error c ∧ catches clause c = false := by
  unfold absorb at h
  split at h
  · cases h
  · rename_i c'
    split at h
    · cases h
    · rename_i hn
      injection h with h; subst h
      exact ⟨rfl, by simpa using hn⟩

theorem okAtFeed_of_ctor (code : Code) (c : Err) (h : okAtCtor code c = true) : okAtFeed code c = true := by
  unfold okAtFeed; simp [h]

theorem wrapFeed_ok {V : Type} (code : Code) (x : Obj V × Option Err) (hx : ∀ c, x.2 = some c → okAtFeed code c = true) (c : Err)
    (h : (wrapFeed code x).2 = some c) : okAtCtor code c = true := by
  obtain ⟨o, e⟩ := x
  cases e with
  | none => simp [wrapFeed] at h
  | some e =>
    simp only [wrapFeed] at h
    split at h
    · simp only at h
      injection h with h; subst h
      unfold okAtCtor; simp [isPRM]
    · rename_i hn
      simp only at h
      injection h with h; subst h
      have := hx e rfl
      unfold okAtFeed at this
      simpa [hn] using this

section
variable {V : Type} (code : Code) (r : Recorded) (P : Prims V) (hc : CoversP code r) (hP : P.Within r)
include hc hP

theorem tryLookup_fine (s : Nat) : FineG (tryLookup code P s) := by
  intro c h
  unfold tryLookup at h
  split at h
  · cases h
  · rename_i c' hl
    split at h
    · cases h
    · rename_i hn
      injection h with h; subst h
      rcases hc.lookup c' (hP.lookup s c' hl) with h1 | h1
      · exact absurd h1 hn
      · exact h1

theorem findCodecGo_fine (fb : Option Nat) (ss : List Nat) : FineG (findCodecGo code P fb ss) := by
  induction ss with
  | nil => intro c h; cases h
  | cons s ss ih =>
    intro c h
    unfold findCodecGo at h
    split at h
    · rename_i c' hl
      injection h with h; subst h
      exact tryLookup_fine code r P hc hP s c' hl
    · cases h
    · exact ih c h

theorem convertFromE_fine (st : DammitState) (e : Nat) (b : Bool) : FineG (convertFromE code P st e b) := by
  intro c h
  unfold convertFromE at h
  split at h
  · rename_i c' hf
    injection h with h; subst h
    exact findCodecGo_fine code r P hc hP _ _ c' hf
  · cases h
  · split at h
    · cases h
    · simp only at h
      split at h
      · cases h
      · rename_i x hx
        split at h
        · cases h
        · rename_i hn
          injection h with h; subst h
          rcases hc.decode x (hP.decode _ _ x hx) with h1 | h1
          · exact absurd h1 hn
          · exact h1

theorem pass1E_fine (cs : List (Except Err Nat)) (hcs : ∀ x ∈ cs, raisesOnly r.cands x) (st : DammitState) :
    FineG (pass1E code P cs st) := by
  induction cs generalizing st with
  | nil => intro c h; cases h
  | cons x xs ih =>
    intro c h
    cases x with
    | error c' =>
      simp only [pass1E] at h
      injection h with h; subst h
      exact okInGenerator_pep _ (hc.cands c' (hcs _ (by simp) c' rfl))
    | ok e =>
      simp only [pass1E] at h
      split at h
      · rename_i c' hcf
        injection h with h; subst h
        exact convertFromE_fine code r P hc hP st e false c' hcf
      · cases h
      · exact ih (fun y hy => hcs y (by simp [hy])) _ c h

theorem pass2E_fine (cs : List (Except Err Nat)) (hcs : ∀ x ∈ cs, raisesOnly r.cands x) (u : Option PStr)
    (st : DammitState) : FineG (pass2E code P cs u st) := by
  induction cs generalizing u st with
  | nil => intro c h; cases h
  | cons x xs ih =>
    intro c h
    cases x with
    | error c' =>
      simp only [pass2E] at h
      injection h with h; subst h
      exact okInGenerator_pep _ (hc.cands c' (hcs _ (by simp) c' rfl))
    | ok e =>
      simp only [pass2E] at h
      split at h
      · rename_i c' hcf
        injection h with h; subst h
        split at hcf
        · cases hcf
        · exact convertFromE_fine code r P hc hP st e true c' hcf
      · rename_i rr _
        split at h
        · split at h
          · rename_i c' hl
            injection h with h; subst h
            exact hc.logWarning c' (hP.logWarning c' hl)
          · cases h
        · exact ih (fun y hy => hcs y (by simp [hy])) _ _ c h

theorem dammitE_fine : FineG (dammitE code P) := by
  intro c h
  unfold dammitE at h
  split at h
  · rename_i c' h1
    injection h with h; subst h
    exact pass1E_fine code r P hc hP P.cands hP.cands {} c' h1
  · rename_i p1 _
    split at h
    · rename_i c' h2
      injection h with h; subst h
      split at h2
      · cases h2
      · exact pass2E_fine code r P hc hP P.cands hP.cands _ _ c' h2
    · split at h <;> cases h

theorem prepareMarkupE_fine (mk : Markup) : Fine (prepareMarkupE code P mk) := by
  intro c h
  cases mk with
  | str s => cases h
  | bytes b =>
    simp only [prepareMarkupE] at h
    split at h
    · rename_i c' hd
      injection h with h; subst h
      split at hd
      · cases hd
      · have := dammitE_fine code r P hc hP c' hd
        exact (isPRM_iff _).mp this
    · split at h
      · injection h with h; exact h.symm
      · split at h
        · rename_i c' hdp
          injection h with h; subst h
          have := hc.declaredProp c' (hP.declaredProp c' hdp)
          exact (isPRM_iff _).mp this
        · cases h

theorem heuristicsE_fine (mk : Markup) : Fine (heuristicsE code P mk) := by
  intro c h
  unfold heuristicsE at h
  rw [hc.encodeReplace] at h
  simp only [if_true] at h
  split at h
  · rename_i e he
    -- the repaired heuristics never raise
    exfalso
    unfold heuristics at he
    split at he
    · cases he
    · split at he <;> cases he
  · cases h
  · split at h
    · cases h
    · rename_i w _ _ c' hw
      injection h with h; subst h
      exact hc.warn c' (hP.warn _ c' hw)

theorem charrefNumberE_only (name : PStr) : raisesOnly r.intOf (charrefNumberE P name) := by
  unfold charrefNumberE
  split
  · exact hP.intHex _
  · exact hP.intHex _
  · exact hP.intDec _

theorem tryDecodeE_ok (d : Option (Except Err PStr)) (hd : ∀ x, d = some x → raisesOnly r.dec1 x) (data : Option PStr)
    (c : Err) (h : tryDecodeE code.charrefDecode d data = .error c) : okAtFeed code c = true := by
  unfold tryDecodeE at h
  split at h
  · cases h
  · rename_i x
    obtain ⟨h1, h2⟩ := absorb_err _ _ _ _ h
    have hx : x = .error c := by
      unfold someOf at h1
      split at h1
      · cases h1
      · injection h1 with h1; subst h1; rfl
    rcases hc.dec1 c (hd x rfl c hx) with h3 | h3
    · rw [h2] at h3; cases h3
    · exact h3

theorem handleCharrefE_ok (orig : Option Nat) (name : PStr) (c : Err)
    (h : handleCharrefE code P orig name = .error c) : okAtFeed code c = true := by
  unfold handleCharrefE at h
  split at h
  · rename_i c' hi
    injection h with h; subst h
    obtain ⟨h1, h2⟩ := absorb_err _ _ _ _ hi
    rcases hc.intOf c' (charrefNumberE_only code r P hc hP name c' h1) with h3 | h3
    · rw [h2] at h3; cases h3
    · exact h3
  · rename_i n _
    split at h
    · rename_i c' hd
      injection h with h; subst h
      unfold charrefDecodeE at hd
      split at hd
      · split at hd
        · rename_i c'' h1
          injection hd with hd; subst hd
          refine tryDecodeE_ok code r P hc hP _ ?_ none c'' h1
          intro x hx
          cases orig with
          | none => simp at hx
          | some e => simp at hx; subst hx; exact hP.dec1 e n
        · refine tryDecodeE_ok code r P hc hP _ ?_ _ c' hd
          intro x hx
          injection hx with hx; subst hx; exact hP.dec1252 n
      · cases hd
    · split at h
      · rename_i c' hch
        injection h with h; subst h
        unfold charrefChrE at hch
        split at hch
        · cases hch
        · obtain ⟨h1, h2⟩ := absorb_err _ _ _ _ hch
          have hx : P.chrOf n = .error c' := by
            unfold someOf at h1
            split at h1
            · cases h1
            · injection h1 with h1; subst h1; assumption
          rcases hc.chrOf c' (hP.chrOf n c' hx) with h3 | h3
          · rw [h2] at h3; cases h3
          · exact h3
      · cases h

theorem handleEventsE_ok (orig : Option Nat) (evs : List Event) (o : Obj V) (c : Err)
    (h : (handleEventsE code P orig evs o).2 = some c) : okAtFeed code c = true := by
  induction evs generalizing o with
  | nil => simp [handleEventsE] at h
  | cons ev evs ih =>
    cases ev with
    | charref n =>
      unfold handleEventsE at h
      split at h
      · rename_i e he
        simp only at h
        injection h with h; subst h
        exact handleCharrefE_ok code r P hc hP orig n e he
      · rename_i d _
        have hd := hP.applyData d o
        generalize P.applyData d o = x at h hd
        obtain ⟨o', e⟩ := x
        cases e with
        | none => exact ih o' h
        | some e =>
          simp only at h
          injection h with h; subst h
          exact okAtFeed_of_ctor code _ (hc.callbacks e (hd e rfl))
    | other k =>
      unfold handleEventsE at h
      have hd := hP.applyOther k o
      generalize P.applyOther k o = x at h hd
      obtain ⟨o', e⟩ := x
      cases e with
      | none => exact ih o' h
      | some e =>
        simp only at h
        injection h with h; subst h
        exact okAtFeed_of_ctor code _ (hc.callbacks e (hd e rfl))

theorem runPhase_ok (t : Phase) (ht : raisesOnlyO r.tokenizer t.2) (o : Obj V) (c : Err)
    (h : (runPhase code P t o).2 = some c) : okAtFeed code c = true := by
  unfold runPhase at h
  have he := handleEventsE_ok code r P hc hP (P.origOf o) t.1 o
  generalize handleEventsE code P (P.origOf o) t.1 o = x at h he
  obtain ⟨o', e⟩ := x
  cases e with
  | some e =>
    simp only at h
    injection h with h; subst h
    exact he e rfl
  | none =>
    simp only at h
    exact hc.tokenizer c (ht c h)

theorem builderFeedE_ok (o : Obj V) (c : Err) (h : (builderFeedE code P o).2 = some c) : okAtCtor code c = true := by
  unfold builderFeedE at h
  split at h
  · rename_i c' hn
    simp only at h
    injection h with h; subst h
    exact hc.newParser c' (hP.newParser c' hn)
  · have h1 := wrapFeed_ok code (runPhase code P (P.tokFeed (P.markupOf o)) o)
      (runPhase_ok code r P hc hP _ (hP.tokFeed _) o)
    generalize wrapFeed code (runPhase code P (P.tokFeed (P.markupOf o)) o) = x at h h1
    obtain ⟨o1, e⟩ := x
    cases e with
    | some e =>
      simp only at h
      injection h with h; subst h
      exact h1 e rfl
    | none =>
      simp only [hc.closeGuarded, if_true] at h
      exact wrapFeed_ok code _ (runPhase_ok code r P hc hP _ (hP.tokClose _) o1) c h

/-- an attempt ends accepted, rejected, or by letting `ParserRejectedMarkup` itself through -/
theorem soupFeedE_outcome (o : Obj V) :
    (soupFeedE code P o).2 = .accept ∨ (soupFeedE code P o).2 = .reject ∨
      (soupFeedE code P o).2 = .raise .parserRejectedMarkup := by
  unfold soupFeedE
  split
  · rename_i c hr
    right; right
    simp only
    rw [hc.resetAll c (hP.resetAll c hr)]
  · have hb := builderFeedE_ok code r P hc hP o
    have key : ∀ (x : Obj V × Option Err), (∀ c, x.2 = some c → okAtCtor code c = true) →
        (match x with
          | (o', none) => ((o', Outcome.accept) : Obj V × Outcome)
          | (o', some e) => if catches code.ctor e = true then (o', .reject) else (o', .raise e)).2 = .accept ∨
        (match x with
          | (o', none) => ((o', Outcome.accept) : Obj V × Outcome)
          | (o', some e) => if catches code.ctor e = true then (o', .reject) else (o', .raise e)).2 = .reject ∨
        (match x with
          | (o', none) => ((o', Outcome.accept) : Obj V × Outcome)
          | (o', some e) => if catches code.ctor e = true then (o', .reject) else (o', .raise e)).2
            = .raise .parserRejectedMarkup := by
      intro x hx
      obtain ⟨o', e⟩ := x
      cases e with
      | none => left; rfl
      | some e =>
        simp only
        by_cases hcat : catches code.ctor e = true
        · right; left; simp [hcat]
        · right; right
          have := hx e rfl
          unfold okAtCtor at this
          have hcf : catches code.ctor e = false := by simpa using hcat
          simp only [hcf, Bool.false_or] at this
          have he := (isPRM_iff e).mp this
          subst he
          simp [hcf]
    apply key
    generalize builderFeedE code P o = x at hb
    obtain ⟨o', e⟩ := x
    cases e with
    | some e => exact hb
    | none =>
      simp only
      intro c h
      exact hc.callbacks c (hP.endOfInput o' c h)

end

/-- the loop with attempts that end accepted, rejected or in `ParserRejectedMarkup` -/
theorem retry_outcome_prm {V : Type} (m : Machine V)
    (hf : ∀ o, (m.feed o).2 = .accept ∨ (m.feed o).2 = .reject ∨ (m.feed o).2 = .raise .parserRejectedMarkup)
    (o : Obj V) (ss : List Strategy) :
    (retry m o ss).2 = .ok () ∨ (retry m o ss).2 = .error .parserRejectedMarkup := by
  induction ss generalizing o with
  | nil => exact Or.inr rfl
  | cons s rest ih =>
    rw [retry]
    have h := hf (assignAll (m.fresh (assignAll (m.header s) o)) (assignAll (m.header s) o))
    have ha : attempt m o s = m.feed (assignAll (m.fresh (assignAll (m.header s) o)) (assignAll (m.header s) o)) := rfl
    rw [← ha] at h
    generalize attempt m o s = x at h ⊢
    obtain ⟨o', r⟩ := x
    simp only at h
    rcases h with rfl | rfl | rfl
    · exact Or.inl rfl
    · exact ih o'
    · exact Or.inr rfl

end BS.Construct
