import BSModel.Model.EnvelopeTokenizer
import BSModel.Proofs.TokenizerErr
import BSModel.Proofs.TokenizerRound
import BSModel.Proofs.Envelope
/-! C06 over the tokenizer model: helper lemmas (`Props/C06.lean` states the theorems).

* `parseMarkedSection_err_iff` / `raisesAt_iff`: `parse_marked_section` raises exactly on the suffixes `RaisesAt` describes;
* `step_err_iff`: a turn of `goahead`'s loop raises exactly when it is in normal mode and the next interesting
  character starts such a suffix;
* `run_err_raisesAt`: a rejected text contains such a suffix; `run_err_of_plain_prefix`: the converse for plain text before it;
* `withTokenizer_within`: the tokenizer model stays within `AssertionError`. -/
namespace BS.EnvelopeTokenizer
open BS.Tokenizer

/-! ### `_scan_name` -/

theorem isWs_not_declName : ∀ x ∈ BS.Gen.pyWhitespace, isDeclNameCh x = false := by decide

theorem isWs_declName (x : Nat) (h : isWs x = true) : isDeclNameCh x = false := by
  apply isWs_not_declName
  simpa [isWs] using h

theorem scanName_err_iff (t : PStr) : scanName t = .err ↔ ∃ c, t.head? = some c ∧ isAlpha c = false := by
  cases t with
  | nil => simp [scanName]
  | cons c t' =>
    by_cases hc : isAlpha c = true
    · simp only [scanName, hc, if_true, List.head?_cons, Option.some.injEq, exists_eq_left']
      constructor
      · intro h; split at h <;> cases h
      · intro h; cases h
    · simp only [scanName, hc, List.head?_cons, Option.some.injEq, exists_eq_left']
      simp

theorem take_length_of_le {α : Type} (l : List α) (n : Nat) (h : n ≤ l.length) : (l.take n).length = n := by
  simp; omega

/-- `_scan_name` returns a name exactly on `name ws c rest` with the name and the whitespace taken greedily -/
theorem scanName_ok_iff (t : PStr) (name : PStr) :
    (∃ len, scanName t = .ok name len) ↔
      ∃ a tl ws c rest, t = (a :: tl) ++ ws ++ c :: rest ∧ isAlpha a = true ∧ (∀ x ∈ tl, isDeclNameCh x = true) ∧
        (∀ x ∈ ws, isWs x = true) ∧ isWs c = false ∧ (ws = [] → isDeclNameCh c = false) ∧ name = asciiLower (a :: tl) := by
  constructor
  · rintro ⟨len, h⟩
    cases t with
    | nil => simp [scanName] at h
    | cons a t' =>
      simp only [scanName] at h
      split at h
      · rename_i ha
        split at h
        · cases h
        · rename_i hne
          injection h with h1 h2
          let nl := spanLen isDeclNameCh t'
          let w := spanLen isWs (t'.drop nl)
          cases hr : t'.drop (nl + w) with
          | nil => simp [nl, w, hr] at hne
          | cons c rest =>
            have hnl : nl ≤ t'.length := spanLen_le _ _
            have hw : w ≤ (t'.drop nl).length := spanLen_le _ _
            have hsplit : t' = t'.take nl ++ ((t'.drop nl).take w ++ c :: rest) := by
              rw [← hr, ← List.drop_drop, List.take_append_drop, List.take_append_drop]
            have hc : isWs c = false := by
              apply spanLen_stop isWs (t'.drop nl) c
              show ((t'.drop nl).drop w).head? = some c
              rw [List.drop_drop, hr]; rfl
            refine ⟨a, t'.take nl, (t'.drop nl).take w, c, rest, ?_, ha, spanLen_all _ _, spanLen_all _ _, hc, ?_, h1.symm⟩
            · simp only [List.cons_append, List.append_assoc]
              rw [← hsplit]
            · intro hws
              have hw0 : w = 0 := by
                have := take_length_of_le _ _ hw
                rw [hws] at this; simpa using this.symm
              apply spanLen_stop isDeclNameCh t' c
              show (t'.drop nl).head? = some c
              have : t'.drop (nl + w) = t'.drop nl := by rw [hw0]; rfl
              rw [← this, hr]; rfl
      · cases h
  · rintro ⟨a, tl, ws, c, rest, rfl, ha, htl, hws, hc, hcd, rfl⟩
    have hstop : ∀ x, (ws ++ c :: rest).head? = some x → isDeclNameCh x = false := by
      intro x hx
      cases ws with
      | nil => simp at hx; subst hx; exact hcd rfl
      | cons w0 ws' => simp at hx; subst hx; exact isWs_declName _ (hws _ (by simp))
    have h1 : spanLen isDeclNameCh (tl ++ (ws ++ c :: rest)) = tl.length := spanLen_append_stop _ _ _ htl hstop
    have h2 : spanLen isWs (ws ++ c :: rest) = ws.length :=
      spanLen_append_stop _ _ _ hws (by intro x hx; simp at hx; subst hx; exact hc)
    refine ⟨1 + tl.length + ws.length, ?_⟩
    simp only [List.cons_append, List.append_assoc, scanName, ha, if_true, h1, List.drop_left, h2, List.take_left]
    rw [← List.append_assoc, show tl.length + ws.length = (tl ++ ws).length by simp, List.drop_left]
    simp

/-! ### `parse_marked_section` -/

theorem parseMarkedSection_err_iff (cd : Option PStr) (s : PStr) :
    parseMarkedSection cd s = .err ↔
      scanName (s.drop 3) = .err ∨ ∃ name len, scanName (s.drop 3) = .ok name len ∧ name ∉ knownKeywords := by
  simp only [parseMarkedSection, knownKeywords, List.mem_append, not_or]
  cases hsn : scanName (s.drop 3) with
  | incomplete =>
    constructor
    · intro h; cases h
    · rintro (h | ⟨_, _, h, _⟩) <;> cases h
  | err => simp
  | ok name len =>
    have hR : (ScanName.ok name len = ScanName.err ∨
        ∃ n l, ScanName.ok name len = ScanName.ok n l ∧ n ∉ sectStd ∧ n ∉ sectMs) ↔ (name ∉ sectStd ∧ name ∉ sectMs) := by
      constructor
      · rintro (h | ⟨n, l, h, hk⟩)
        · cases h
        · cases h; exact hk
      · intro hk; exact Or.inr ⟨name, len, rfl, hk⟩
    rw [hR]
    simp only
    by_cases h1 : sectStd.contains name = true
    · have : name ∈ sectStd := by simpa using h1
      simp only [h1, if_true]
      constructor
      · intro h; split at h <;> cases h
      · rintro ⟨h, _⟩; exact absurd this h
    · have h1' : name ∉ sectStd := by simpa using h1
      by_cases h2 : sectMs.contains name = true
      · have : name ∈ sectMs := by simpa using h2
        simp only [h1, h2, if_true]
        constructor
        · intro h; simp only [Bool.false_eq_true, if_false] at h; split at h <;> cases h
        · rintro ⟨_, h⟩; exact absurd this h
      · have h2' : name ∉ sectMs := by simpa using h2
        simp only [h1, h2]
        constructor
        · intro _; exact ⟨h1', h2'⟩
        · intro _; simp

theorem sw_iff_take (p s : PStr) : sw p s = true ↔ s.take p.length = p := by simp [sw]

/-- `parse_marked_section` raises on `s` (which its caller has checked to begin with `<![`) exactly when `RaisesAt s` -/
theorem raisesAt_iff (cd : Option PStr) (s : PStr) :
    (sw [60, 33, 91] s = true ∧ parseMarkedSection cd s = .err) ↔ RaisesAt s := by
  unfold RaisesAt
  rw [sw_iff_take, parseMarkedSection_err_iff]
  apply and_congr_right
  intro _
  apply or_congr
  · exact scanName_err_iff (s.drop 3)
  · constructor
    · rintro ⟨name, len, h, hk⟩
      obtain ⟨a, tl, ws, c, rest, h1, h2, h3, h4, h5, h6, h7⟩ := (scanName_ok_iff (s.drop 3) name).1 ⟨len, h⟩
      exact ⟨a, tl, ws, c, rest, h1, h2, h3, h4, h5, h6, h7 ▸ hk⟩
    · rintro ⟨a, tl, ws, c, rest, h1, h2, h3, h4, h5, h6, hk⟩
      obtain ⟨len, h⟩ := (scanName_ok_iff (s.drop 3) _).2 ⟨a, tl, ws, c, rest, h1, h2, h3, h4, h5, h6, rfl⟩
      exact ⟨_, len, h, hk⟩

/-! ### one turn of the loop -/

theorem chooseAct_marked (P : Params) (end_ : Bool) (cd : Option PStr) (s : PStr) (hs : sw [60, 33, 91] s = true) :
    chooseAct P end_ cd s = .err ↔ parseMarkedSection cd s = .err := by
  have hsplit : ∃ t, s = 60 :: 33 :: 91 :: t := by
    match s, hs with
    | [], hs => simp [sw] at hs
    | [_], hs => simp [sw] at hs
    | [_, _], hs => simp [sw] at hs
    | a :: b :: c :: t, hs =>
      simp only [sw, List.length_cons, List.length_nil, List.take_succ_cons, List.take_zero, beq_iff_eq, List.cons.injEq,
        and_true] at hs
      obtain ⟨rfl, rfl, rfl⟩ := hs
      exact ⟨t, rfl⟩
  obtain ⟨t, rfl⟩ := hsplit
  have hl : parseLt P cd (60 :: 33 :: 91 :: t) = some (parseMarkedSection cd (60 :: 33 :: 91 :: t)) := by
    simp [parseLt, parseHtmlDeclaration, sw, isAlpha]
  simp only [chooseAct, List.head?_cons, if_true, actLt, hl]
  cases parseMarkedSection cd (60 :: 33 :: 91 :: t) <;> simp
  split <;> simp

/-- **one turn raises exactly when** the parser is in normal mode (not inside `<script>`/`<style>`) and the next
    interesting character (the first `<` or `&` of the buffer) starts a suffix on which `parse_marked_section` raises -/
theorem step_err_iff (P : Params) (end_ : Bool) (st : St) :
    (step P end_ st).2.2 = some .err ↔ st.cd = none ∧ RaisesAt (st.s.drop (spanLen isPlain st.s)) := by
  constructor
  · intro h
    obtain ⟨j, hj1, hj2⟩ := step_err P end_ st h
    cases hcd : st.cd with
    | some e =>
      -- in CDATA mode the only interesting thing is `</elem>`: `parse_endtag` never raises
      exfalso
      simp only [step, hcd] at h
      split at h
      · simp at h
      · rename_i j' hj'
        simp only [Option.map_eq_some_iff] at hj'
        obtain ⟨⟨j0, l⟩, hsr, hj0⟩ := hj'
        simp only at hj0; subst hj0
        have hm := search_some _ _ _ _ hsr
        have hsw : sw [60, 47] (st.s.drop j0) = true := by
          simp only [mCdataClose] at hm
          split at hm
          · assumption
          · cases hm
        obtain ⟨t, ht⟩ := sw_lt_slash _ hsw
        rw [ht] at h
        simp only [List.isEmpty_cons, Bool.false_eq_true, if_false] at h
        cases hact : chooseAct P end_ (some e) (60 :: 47 :: t) with
        | adv tok len cd' cont => rw [hact] at h; simp only [applyAct] at h; split at h <;> simp at h
        | brk => rw [hact] at h; simp [applyAct] at h
        | stuck => rw [hact] at h; simp [applyAct] at h
        | err =>
          have := chooseAct_err P end_ (some e) _ (Or.inl rfl) hact
          simp [sw] at this
    | none =>
      refine ⟨rfl, ?_⟩
      simp only [step, hcd] at h
      split at h
      · simp at h
      · cases hact : chooseAct P end_ none (st.s.drop (spanLen isPlain st.s)) with
        | adv tok len cd' cont => rw [hact] at h; simp only [applyAct] at h; split at h <;> simp at h
        | brk => rw [hact] at h; simp [applyAct] at h
        | stuck => rw [hact] at h; simp [applyAct] at h
        | err =>
          have hhead : (st.s.drop (spanLen isPlain st.s)).head? = some 60 ∨ (st.s.drop (spanLen isPlain st.s)).head? = some 38 := by
            cases hd : (st.s.drop (spanLen isPlain st.s)).head? with
            | none =>
              have : st.s.drop (spanLen isPlain st.s) = [] := by simpa using hd
              rename_i hne
              simp [this] at hne
            | some c =>
              have := spanLen_stop isPlain st.s c hd
              simp only [isPlain, Bool.not_eq_eq_eq_not, Bool.not_false, Bool.or_eq_true, beq_iff_eq] at this
              rcases this with rfl | rfl
              · right; rfl
              · left; rfl
          exact (raisesAt_iff none _).1 (chooseAct_err P end_ none _ hhead hact)
  · rintro ⟨hcd, hr⟩
    obtain ⟨hsw, hpm⟩ := (raisesAt_iff none _).2 hr
    have hne : (st.s.drop (spanLen isPlain st.s)).isEmpty = false := by
      cases hd : st.s.drop (spanLen isPlain st.s) with
      | nil => rw [hd] at hsw; simp [sw] at hsw
      | cons a b => rfl
    simp only [step, hcd, hne, Bool.false_eq_true, if_false]
    rw [(chooseAct_marked P end_ none _ hsw).2 hpm]
    rfl

/-! ### the run -/

theorem loop_err_raisesAt (P : Params) (end_ : Bool) : ∀ (f : Nat) (st : St), (loop P end_ f st).flag = .err →
    ∃ j, RaisesAt (st.s.drop j) := by
  intro f
  induction f with
  | zero => intro st h; simp [loop] at h
  | succ f ih =>
    intro st h
    unfold loop at h
    split at h
    · simp at h
    · have hs := step_err_iff P end_ st
      obtain ⟨n, hn⟩ := step_suffix P end_ st
      split at h
      · rename_i evs st' fl heq
        rw [heq] at hs
        simp only at h hs
        subst h
        exact ⟨_, (hs.1 rfl).2⟩
      · rename_i evs st' heq
        rw [heq] at hn
        simp only at h hn
        obtain ⟨j, hj⟩ := ih st' h
        rw [hn, List.drop_drop] at hj
        exact ⟨n + j, hj⟩

theorem goahead_err_raisesAt (P : Params) (end_ : Bool) (st : St) (h : (goahead P end_ st).flag = .err) :
    ∃ j, RaisesAt (st.s.drop j) := by
  unfold goahead at h
  simp only at h
  split at h
  · simp at h
  · exact loop_err_raisesAt P end_ _ st h

/-- a rejected text contains, at some index, a suffix on which `parse_marked_section` raises -/
theorem run_err_raisesAt (P : Params) (text : PStr) (h : (run P text).flag = .err) : ∃ i, RaisesAt (text.drop i) := by
  unfold run at h
  cases hf : (goahead P false (init text)).flag with
  | ok =>
    simp only [hf] at h
    obtain ⟨n, hn⟩ := goahead_suffix P false (init text)
    obtain ⟨j, hj⟩ := goahead_err_raisesAt P true _ h
    rw [hn] at hj
    simp only [init, List.drop_drop] at hj
    exact ⟨n + j, hj⟩
  | err => exact goahead_err_raisesAt P false (init text) hf
  | stuck => simp only [hf] at h; cases h

theorem raisesAt_head (s : PStr) (h : RaisesAt s) : s.head? = some 60 ∧ s ≠ [] := by
  obtain ⟨h3, _⟩ := h
  cases s with
  | nil => simp at h3
  | cons a t => simp at h3; simp [h3.1]

/-- the converse where nothing but plain text (no `<`, no `&`) stands before the offending section -/
theorem run_err_of_plain_prefix (P : Params) (pre s : PStr) (hpre : ∀ x ∈ pre, isPlain x = true) (hs : RaisesAt s) :
    (run P (pre ++ s)).flag = .err := by
  obtain ⟨hh, hne⟩ := raisesAt_head s hs
  have hsp : spanLen isPlain (pre ++ s) = pre.length := by
    apply spanLen_append_stop _ _ _ hpre
    intro c hc; rw [hh] at hc; simp at hc; subst hc; decide
  have hstep : (step P false (init (pre ++ s))).2.2 = some .err := by
    rw [step_err_iff]
    refine ⟨rfl, ?_⟩
    show RaisesAt ((pre ++ s).drop (spanLen isPlain (pre ++ s)))
    rw [hsp, List.drop_left]; exact hs
  have hloop : (loop P false ((pre ++ s).length + 1) (init (pre ++ s))).flag = .err := by
    unfold loop
    have : (init (pre ++ s)).s = pre ++ s := rfl
    rw [this]
    cases hps : pre ++ s with
    | nil => simp at hps; exact absurd hps.2 hne
    | cons a b =>
      simp only
      rw [← hps]
      generalize hx : step P false (init (pre ++ s)) = x at hstep
      obtain ⟨e1, st1, fl⟩ := x
      simp only at hstep
      subst hstep
      rfl
  have hg : (goahead P false (init (pre ++ s))).flag = .err := by
    unfold goahead
    simp only [init] at hloop ⊢
    simp only [hloop]
  unfold run
  simp only [hg]

/-! ### the pipeline -/

theorem feedClose_rejected_iff (c : PCfg) (text : PStr) : feedClose c text = .rejected ↔ (run c.tp text).flag = .err := by
  simp only [feedClose]
  cases (run c.tp text).flag <;> simp

theorem feedClose_tree_iff (c : PCfg) (text : PStr) (docs : List Builder.Doc) (infos : List Adapter.StartInfo) :
    feedClose c text = .tree docs infos ↔
      (run c.tp text).flag = .ok ∧ docs = Builder.build c.bcfg (eventsOf c text) ∧
        infos = (Adapter.toEvents c.acfg (callbacks (run c.tp text))).2 := by
  simp only [feedClose, eventsOf, Adapter.adapterBuild]
  cases (run c.tp text).flag <;> simp [eq_comm]

theorem feedClose_not_outOfFuel (c : PCfg) (text : PStr) : feedClose c text ≠ .outOfFuel := by
  have := run_not_stuck c.tp text
  simp only [feedClose]
  cases hf : (run c.tp text).flag <;> simp_all

/-! ### the tokenizer model as the tokenizer primitives of the envelope model -/
open BS.Construct

theorem phaseOf_raises (o : Out) (hns : o.flag ≠ .stuck) (c : Err) (h : (phaseOf o).2 = some c) :
    c = .assertionError ∧ o.flag = .err := by
  simp only [phaseOf] at h
  cases hf : o.flag with
  | ok => simp [hf] at h
  | err => simp only [hf, Option.some.injEq] at h; exact ⟨h.symm, rfl⟩
  | stuck => exact absurd hf hns

/-- both phases of the tokenizer model raise nothing but `AssertionError` -/
theorem tokModel_raises (tp : Params) (text : PStr) (c : Err) :
    ((tokFeedModel tp text).2 = some c → c = .assertionError) ∧ ((tokCloseModel tp text).2 = some c → c = .assertionError) :=
  ⟨fun h => (phaseOf_raises _ (goahead_not_stuck tp false _) c h).1,
   fun h => (phaseOf_raises _ (goahead_not_stuck tp true _) c h).1⟩

/-- replacing the two tokenizer primitives by the tokenizer model keeps the primitives within any recorded kinds that
    list `AssertionError` for the tokenizer -/
theorem withTokenizer_within {V : Type} (P : Prims V) (r : Recorded) (hP : P.Within r) (tp : Params)
    (ha : Err.assertionError ∈ r.tokenizer) : (withTokenizer P tp).Within r where
  warn := hP.warn
  cands := hP.cands
  lookup := hP.lookup
  decode := hP.decode
  logWarning := hP.logWarning
  declaredProp := hP.declaredProp
  resetAll := hP.resetAll
  newParser := hP.newParser
  tokFeed s c h := by rw [(tokModel_raises tp s c).1 h]; exact ha
  tokClose s c h := by rw [(tokModel_raises tp s c).2 h]; exact ha
  intDec := hP.intDec
  intHex := hP.intHex
  dec1 := hP.dec1
  dec1252 := hP.dec1252
  chrOf := hP.chrOf
  applyData := hP.applyData
  applyOther := hP.applyOther
  endOfInput := hP.endOfInput

/-- the two phases are the run: `feed` then (if it returned) `close` deliver the run's callbacks in order, and the run
    is rejected exactly when one of the phases raises -/
theorem phases_are_run (tp : Params) (text : PStr) :
    ((tokFeedModel tp text).2 = none →
        (tokFeedModel tp text).1 ++ (tokCloseModel tp text).1 = (run tp text).evs.filterMap toEvent ∧
        ((tokCloseModel tp text).2 = some .assertionError ↔ (run tp text).flag = .err)) ∧
    ((tokFeedModel tp text).2 ≠ none →
        (tokFeedModel tp text).1 = (run tp text).evs.filterMap toEvent ∧ (run tp text).flag = .err) := by
  have hns := goahead_not_stuck tp false (init text)
  have hns2 := goahead_not_stuck tp true (goahead tp false (init text)).st
  simp only [tokFeedModel, tokCloseModel, phaseOf, run]
  cases hf : (goahead tp false (init text)).flag with
  | stuck => exact absurd hf hns
  | err => simp [hf]
  | ok =>
    simp only [List.filterMap_append, true_and, ne_eq, not_true_eq_false, false_implies, and_true, forall_const]
    cases hf2 : (goahead tp true (goahead tp false (init text)).st).flag with
    | stuck => exact absurd hf2 hns2
    | err => simp
    | ok => simp

end BS.EnvelopeTokenizer
