import BSModel.Model.Formatter
/-! helper lemmas for C15 (formatters): the order on attribute keys, the formatter-independent token skeleton of a
    rendering, the effect of each option on it, the scope of a custom substitution, order-irrelevance of regex
    alternatives. Core Lean only. -/
namespace BS.Formatter
open List

/-! ### ordering of attribute keys -/

theorem keyLe_refl : ∀ a : PStr, keyLe a a = true
  | [] => by simp [keyLe]
  | a :: as => by simp [keyLe, keyLe_refl as]

theorem keyLe_total : ∀ a b : PStr, (keyLe a b || keyLe b a) = true
  | [], _ => by simp [keyLe]
  | _ :: _, [] => by simp [keyLe]
  | a :: as, b :: bs => by
    have := keyLe_total as bs
    simp only [keyLe, Bool.or_eq_true, decide_eq_true_eq, Bool.and_eq_true, beq_iff_eq] at this ⊢
    rcases Nat.lt_trichotomy a b with h | h | h
    · simp [h]
    · subst h; rcases this with h | h <;> simp [h]
    · simp [h]

theorem keyLe_trans : ∀ a b c : PStr, keyLe a b = true → keyLe b c = true → keyLe a c = true
  | [], _, _ => by simp [keyLe]
  | _ :: _, [], _ => by simp [keyLe]
  | _ :: _, _ :: _, [] => by simp [keyLe]
  | a :: as, b :: bs, c :: cs => by
    have ih := keyLe_trans as bs cs
    simp only [keyLe, Bool.or_eq_true, decide_eq_true_eq, Bool.and_eq_true, beq_iff_eq] at ih ⊢
    rintro (h1 | ⟨rfl, h1⟩) (h2 | ⟨rfl, h2⟩)
    · left; omega
    · left; exact h1
    · left; exact h2
    · right; exact ⟨rfl, ih h1 h2⟩

theorem keyLe_antisymm : ∀ a b : PStr, keyLe a b = true → keyLe b a = true → a = b
  | [], [] => by simp
  | [], _ :: _ => by simp [keyLe]
  | _ :: _, [] => by simp [keyLe]
  | a :: as, b :: bs => by
    have ih := keyLe_antisymm as bs
    simp only [keyLe, Bool.or_eq_true, decide_eq_true_eq, Bool.and_eq_true, beq_iff_eq] at ih ⊢
    rintro (h1 | ⟨rfl, h1⟩) (h2 | ⟨h2, h2'⟩)
    · omega
    · omega
    · omega
    · rw [ih h1 h2']

theorem inj_of_nodup_map {α β} (f : α → β) : ∀ (l : List α), (l.map f).Nodup → ∀ a b, a ∈ l → b ∈ l → f a = f b → a = b
  | [], _, _, _, h, _, _ => by simp at h
  | x :: xs, hd, a, b, ha, hb, hf => by
    simp only [List.map_cons, List.nodup_cons, List.mem_map, not_exists, not_and] at hd
    simp only [List.mem_cons] at ha hb
    rcases ha with rfl | ha <;> rcases hb with rfl | hb
    · rfl
    · exact absurd hf.symm (hd.1 b hb)
    · exact absurd hf (hd.1 a ha)
    · exact inj_of_nodup_map f xs hd.2 a b ha hb hf

theorem insertAttr_perm (x : PStr × AttrVal) : ∀ l, (insertAttr x l).Perm (x :: l)
  | [] => by simp [insertAttr]
  | y :: ys => by
    simp only [insertAttr]
    split
    · exact List.Perm.refl _
    · exact ((insertAttr_perm x ys).cons y).trans (List.Perm.swap x y ys)

theorem sortAttrs_perm : ∀ l, (sortAttrs l).Perm l
  | [] => by simp [sortAttrs]
  | x :: xs => by
    simp only [sortAttrs]
    exact (insertAttr_perm x _).trans ((sortAttrs_perm xs).cons x)

theorem attrLe_trans (a b c : PStr × AttrVal) : attrLe a b = true → attrLe b c = true → attrLe a c = true :=
  keyLe_trans a.1 b.1 c.1

theorem attrLe_of_not (a b : PStr × AttrVal) (h : ¬ attrLe a b = true) : attrLe b a = true := by
  have := keyLe_total a.1 b.1
  simp only [attrLe, Bool.or_eq_true] at *
  rcases this with h1 | h1
  · exact absurd h1 h
  · exact h1

theorem insertAttr_pairwise (x : PStr × AttrVal) : ∀ l, l.Pairwise (fun a b => attrLe a b = true) →
    (insertAttr x l).Pairwise (fun a b => attrLe a b = true)
  | [], _ => by simp [insertAttr]
  | y :: ys, h => by
    simp only [insertAttr]
    have hy := List.pairwise_cons.1 h
    split
    · rename_i hxy
      refine List.Pairwise.cons ?_ h
      intro z hz
      rcases List.mem_cons.1 hz with rfl | hz
      · exact hxy
      · exact attrLe_trans x y z hxy (hy.1 z hz)
    · rename_i hxy
      refine List.Pairwise.cons ?_ (insertAttr_pairwise x ys hy.2)
      intro z hz
      rcases List.mem_cons.1 ((insertAttr_perm x ys).subset hz) with rfl | hz
      · exact attrLe_of_not _ _ hxy
      · exact hy.1 z hz

theorem sortAttrs_pairwise : ∀ l, (sortAttrs l).Pairwise (fun a b => attrLe a b = true)
  | [] => by simp [sortAttrs]
  | x :: xs => by simp only [sortAttrs]; exact insertAttr_pairwise x _ (sortAttrs_pairwise xs)

theorem map_insertAttr (f : PStr × AttrVal → PStr × AttrVal) (hk : ∀ kv, (f kv).1 = kv.1) (x : PStr × AttrVal) :
    ∀ l, (insertAttr x l).map f = insertAttr (f x) (l.map f)
  | [] => by simp [insertAttr]
  | y :: ys => by
    have hle : attrLe (f x) (f y) = attrLe x y := by simp [attrLe, hk]
    simp only [insertAttr, List.map_cons, hle]
    split
    · simp
    · simp [map_insertAttr f hk x ys]

/-- sorting commutes with any map that keeps the keys -/
theorem map_sortAttrs (f : PStr × AttrVal → PStr × AttrVal) (hk : ∀ kv, (f kv).1 = kv.1) :
    ∀ l, (sortAttrs l).map f = sortAttrs (l.map f)
  | [] => by simp [sortAttrs]
  | x :: xs => by simp only [sortAttrs, List.map_cons, map_insertAttr f hk, map_sortAttrs f hk xs]

theorem sortAttrs_of_pairwise : ∀ l, l.Pairwise (fun a b => attrLe a b = true) → sortAttrs l = l
  | [], _ => by simp [sortAttrs]
  | x :: xs, h => by
    have hx := List.pairwise_cons.1 h
    simp only [sortAttrs, sortAttrs_of_pairwise xs hx.2]
    cases xs with
    | nil => simp [insertAttr]
    | cons y ys => simp [insertAttr, hx.1 y (by simp)]

/-- sorting by key is insensitive to the insertion order when keys are distinct -/
theorem sort_perm (l₁ l₂ : List (PStr × AttrVal)) (hp : l₁.Perm l₂) (hd : (l₁.map (·.1)).Nodup) :
    sortAttrs l₁ = sortAttrs l₂ := by
  apply List.Perm.eq_of_pairwise (le := fun a b => attrLe a b = true)
  · intro a b ha hb h1 h2
    have hk : a.1 = b.1 := keyLe_antisymm _ _ h1 h2
    have ha' : a ∈ l₁ := (sortAttrs_perm l₁).subset ha
    have hb' : b ∈ l₁ := hp.symm.subset ((sortAttrs_perm l₂).subset hb)
    exact inj_of_nodup_map _ l₁ hd a b ha' hb' hk
  · exact sortAttrs_pairwise l₁
  · exact sortAttrs_pairwise l₂
  · exact (sortAttrs_perm l₁).trans (hp.trans (sortAttrs_perm l₂).symm)

/-! ### the token skeleton -/

/-- the `""` → `None` step of `Formatter.attributes` -/
def boolify (eab : Bool) (kv : PStr × AttrVal) : PStr × AttrVal :=
  (kv.1, if eab && kv.2 == .str [] then AttrVal.none else kv.2)

theorem attributes_eq (c : Cfg) (attrs : List (PStr × AttrVal)) :
    attributes c attrs = (sortAttrs attrs).map (boolify c.empty_attributes_are_booleans) := by
  unfold attributes
  rw [map_sortAttrs (boolify c.empty_attributes_are_booleans) (fun _ => rfl)]
  rfl

/-- the positions of a rendering at which an option can have an effect -/
inductive Tok where
  | lit (s : PStr)
  | text (parent : Option PStr) (s : PStr)
  | attrVal (s : PStr)
  | emptyAttr (key : PStr)
  | voidEnd
deriving DecidableEq, Repr

def attrToks (kv : PStr × AttrVal) : List Tok :=
  match kv.2 with
  | .none => [.lit kv.1]
  | .str s => if s = [] then [.emptyAttr kv.1] else [.lit (kv.1 ++ [61]), .attrVal s]
  | .list l => [.lit (kv.1 ++ [61]), .attrVal ([32].intercalate l)]
  | .other s => [.lit (kv.1 ++ [61]), .attrVal s]

/-- pieces of `" " + " ".join(attrs)` -/
def attrsToks : List (PStr × AttrVal) → List Tok
  | [] => []
  | kv :: rest => .lit [32] :: attrToks kv ++ attrsToks rest

def tagToks (name pfx : PStr) (attrs : List (PStr × AttrVal)) (isEmptyElement opening : Bool) : List Tok :=
  [.lit ([60] ++ (if opening then [] else [47]) ++ (if pfx.isEmpty then [] else pfx ++ [58]) ++ name)]
    ++ (if opening then attrsToks (sortAttrs attrs) else [])
    ++ (if isEmptyElement then [.voidEnd] else []) ++ [.lit [62]]

mutual
def toks (parent : Option PStr) : Node → List Tok
  | .str k v => if k.verbatim then [.lit (k.prefix ++ v ++ k.suffix)] else [.lit k.prefix, .text parent v, .lit k.suffix]
  | .tag n p as cbe _ ks =>
    if ks.isEmpty && cbe then tagToks n p as true true
    else tagToks n p as false true ++ toksL (some n) ks ++ tagToks n p as false false
def toksL (parent : Option PStr) : List Node → List Tok
  | [] => []
  | k :: ks => toks parent k ++ toksL parent ks
end

def interpTok (c : Cfg) (interp : Subst → PStr → PStr) : Tok → PStr
  | .lit s => s
  | .text parent s => substitute c interp parent true s
  | .attrVal s => quoteAttr (substitute c interp none false s)
  | .emptyAttr k => if c.empty_attributes_are_booleans then k else k ++ [61] ++ quoteAttr (substitute c interp none false [])
  | .voidEnd => voidClose c

theorem attrPiece_toks (c : Cfg) (i : Subst → PStr → PStr) (kv : PStr × AttrVal) :
    attrPiece c i (boolify c.empty_attributes_are_booleans kv) = (attrToks kv).flatMap (interpTok c i) := by
  obtain ⟨k, v⟩ := kv
  cases v with
  | none => simp [attrPiece, boolify, attrToks, interpTok]
  | str s =>
    by_cases hs : s = []
    · subst hs
      cases he : c.empty_attributes_are_booleans <;> simp [attrPiece, boolify, attrToks, interpTok, he]
    · cases c.empty_attributes_are_booleans <;> simp [attrPiece, boolify, attrToks, interpTok, hs]
  | list l => simp [attrPiece, boolify, attrToks, interpTok]
  | other s => simp [attrPiece, boolify, attrToks, interpTok]

theorem intercalate_cons_sp (x : PStr) (xs : List PStr) :
    [32] ++ [32].intercalate (x :: xs) = [32] ++ x ++ (if xs.isEmpty then [] else [32] ++ [32].intercalate xs) := by
  cases xs with
  | nil => simp [List.intercalate]
  | cons y ys => simp [List.intercalate, List.intersperse]

theorem attrString_toks (c : Cfg) (i : Subst → PStr → PStr) (attrs : List (PStr × AttrVal)) :
    attrString c i attrs = (attrsToks (sortAttrs attrs)).flatMap (interpTok c i) := by
  unfold attrString
  rw [attributes_eq]
  generalize sortAttrs attrs = l
  induction l with
  | nil => simp [attrsToks]
  | cons kv rest ih =>
    simp only [List.map_cons, List.isEmpty_cons, Bool.false_eq_true, ↓reduceIte, attrsToks, List.flatMap_cons,
      List.flatMap_append, interpTok]
    rw [intercalate_cons_sp, attrPiece_toks, ← ih]

theorem formatTag_toks (c : Cfg) (i : Subst → PStr → PStr) (n p : PStr) (as : List (PStr × AttrVal)) (e o : Bool) :
    formatTag c i n p as e o = (tagToks n p as e o).flatMap (interpTok c i) := by
  unfold formatTag tagToks
  simp only [List.flatMap_append, List.flatMap_cons, List.flatMap_nil, interpTok, List.append_nil]
  cases o <;> cases e <;> simp [attrString_toks, interpTok]

mutual
/-- rendering is a homomorphic image of a token list that does not depend on the formatter -/
theorem render_eq_toks (c : Cfg) (i : Subst → PStr → PStr) (par : Option PStr) (n : Node) :
    render c i par n = (toks par n).flatMap (interpTok c i) := by
  cases n with
  | str k v =>
    simp only [render, toks, outputReady]
    cases k.verbatim <;> simp [interpTok]
  | tag nm p as cbe pre ks =>
    simp only [render, toks]
    split
    · exact formatTag_toks ..
    · simp only [List.flatMap_append, formatTag_toks, renderL_eq_toks c i (some nm) ks]
theorem renderL_eq_toks (c : Cfg) (i : Subst → PStr → PStr) (par : Option PStr) (l : List Node) :
    renderL c i par l = (toksL par l).flatMap (interpTok c i) := by
  cases l with
  | nil => simp [renderL, toksL]
  | cons k ks => simp only [renderL, toksL, List.flatMap_append, render_eq_toks c i par k, renderL_eq_toks c i par ks]
end


/-! ### effect of each option -/

/-- `entity_substitution(s)` if there is a function, else `s` -/
def applySubst (s : Subst) (i : Subst → PStr → PStr) (x : PStr) : PStr := if s = .none then x else i s x

def inCdata (cd : List PStr) : Option PStr → Bool
  | some p => cd.contains p
  | none => false

theorem substitute_eq (c : Cfg) (i : Subst → PStr → PStr) (par : Option PStr) (ns : Bool) (x : PStr) :
    substitute c i par ns x
      = if ns && inCdata c.cdata_containing_tags par then x else applySubst c.entity_substitution i x := by
  unfold substitute applySubst inCdata
  cases par <;> by_cases h : c.entity_substitution = .none <;> simp [h]

def withVoid (p : PStr) (base : Tok → PStr) : Tok → PStr
  | .voidEnd => p
  | t => base t

def withSubst (s : Subst) (i : Subst → PStr → PStr) (cd : List PStr) (eab : Bool) (base : Tok → PStr) : Tok → PStr
  | .text par x => if inCdata cd par then x else applySubst s i x
  | .attrVal x => quoteAttr (applySubst s i x)
  | .emptyAttr k => if eab then k else k ++ [61] ++ quoteAttr (applySubst s i [])
  | t => base t

def withCdata (cd : List PStr) (s : Subst) (i : Subst → PStr → PStr) (base : Tok → PStr) : Tok → PStr
  | .text par x => if inCdata cd par then x else applySubst s i x
  | t => base t

def withEab (b : Bool) (s : Subst) (i : Subst → PStr → PStr) (base : Tok → PStr) : Tok → PStr
  | .emptyAttr k => if b then k else k ++ [61] ++ quoteAttr (applySubst s i [])
  | t => base t

theorem effect_void (hd : List PStr) (l : Option Lang) (a : Args) (p : Option PStr) (i : Subst → PStr → PStr) (par : Option PStr) (n : Node) :
    render (mkFormatterCls hd l { a with void_element_close_prefix := p }) i par n
      = (toks par n).flatMap (withVoid (p.getD []) (interpTok (mkFormatterCls hd l a) i)) := by
  rw [render_eq_toks]; congr 1; funext t
  cases t <;> simp [interpTok, withVoid, mkFormatterCls, substitute, voidClose]

theorem effect_subst (hd : List PStr) (l : Option Lang) (a : Args) (s : Subst) (i : Subst → PStr → PStr) (par : Option PStr) (n : Node) :
    render (mkFormatterCls hd l { a with entity_substitution := s }) i par n
      = (toks par n).flatMap (withSubst s i (mkFormatterCls hd l a).cdata_containing_tags a.empty_attributes_are_booleans
          (interpTok (mkFormatterCls hd l a) i)) := by
  rw [render_eq_toks]; congr 1; funext t
  cases t <;> simp [interpTok, withSubst, substitute_eq, mkFormatterCls, voidClose] <;> rfl

theorem effect_cdata (hd : List PStr) (l : Option Lang) (a : Args) (cd : Option (List PStr)) (i : Subst → PStr → PStr) (par : Option PStr) (n : Node) :
    render (mkFormatterCls hd l { a with cdata_containing_tags := cd }) i par n
      = (toks par n).flatMap (withCdata (defaultCls hd (l.getD .html) cd) a.entity_substitution i (interpTok (mkFormatterCls hd l a) i)) := by
  rw [render_eq_toks]; congr 1; funext t
  cases t <;> simp [interpTok, withCdata, substitute_eq, mkFormatterCls, voidClose, inCdata]

theorem effect_eab (hd : List PStr) (l : Option Lang) (a : Args) (b : Bool) (i : Subst → PStr → PStr) (par : Option PStr) (n : Node) :
    render (mkFormatterCls hd l { a with empty_attributes_are_booleans := b }) i par n
      = (toks par n).flatMap (withEab b a.entity_substitution i (interpTok (mkFormatterCls hd l a) i)) := by
  rw [render_eq_toks]; congr 1; funext t
  cases t <;> simp [interpTok, withEab, substitute_eq, mkFormatterCls, voidClose, inCdata]

/-! `indent` -/

theorem outputReady_indent (c : Cfg) (u : PStr) (i : Subst → PStr → PStr) (par : Option PStr) (k : StrKind) (v : PStr) :
    outputReady { c with indent := u } i par k v = outputReady c i par k v := rfl

theorem formatTag_indent (c : Cfg) (u : PStr) (i : Subst → PStr → PStr) (n p : PStr) (as : List (PStr × AttrVal)) (e o : Bool) :
    formatTag { c with indent := u } i n p as e o = formatTag c i n p as e o := rfl

mutual
theorem render_indent (c : Cfg) (u : PStr) (i : Subst → PStr → PStr) (par : Option PStr) (n : Node) :
    render { c with indent := u } i par n = render c i par n := by
  cases n with
  | str k v => simp only [render, outputReady_indent]
  | tag nm p as cbe pre ks => simp only [render, formatTag_indent, renderL_indent c u i (some nm) ks]
theorem renderL_indent (c : Cfg) (u : PStr) (i : Subst → PStr → PStr) (par : Option PStr) (l : List Node) :
    renderL { c with indent := u } i par l = renderL c i par l := by
  cases l with
  | nil => simp [renderL]
  | cons k ks => simp only [renderL, render_indent c u i par k, renderL_indent c u i par ks]
end

mutual
theorem prettyItems_indent (c : Cfg) (u : PStr) (i : Subst → PStr → PStr) (lv : Nat) (lit : Bool) (par : Option PStr) (n : Node) :
    prettyItems { c with indent := u } i lv lit par n = prettyItems c i lv lit par n := by
  cases n with
  | str k v => simp only [prettyItems, outputReady_indent]; rfl
  | tag nm p as cbe pre ks =>
    simp only [prettyItems, formatTag_indent, prettyItemsL_indent c u i (lv + 1) _ (some nm) ks]
theorem prettyItemsL_indent (c : Cfg) (u : PStr) (i : Subst → PStr → PStr) (lv : Nat) (lit : Bool) (par : Option PStr) (l : List Node) :
    prettyItemsL { c with indent := u } i lv lit par l = prettyItemsL c i lv lit par l := by
  cases l with
  | nil => simp [prettyItemsL]
  | cons k ks => simp only [prettyItemsL, prettyItems_indent c u i lv lit par k, prettyItemsL_indent c u i lv lit par ks]
end

theorem effect_indent (hd : List PStr) (l : Option Lang) (a : Args) (x : IndentArg) (i : Subst → PStr → PStr) (lv : Nat) (par : Option PStr) (n : Node) :
    pretty (mkFormatterCls hd l { a with indent := x }) i lv par n
        = fillInd (normIndent x) (prettyItems (mkFormatterCls hd l a) i lv false par n)
      ∧ render (mkFormatterCls hd l { a with indent := x }) i par n = render (mkFormatterCls hd l a) i par n := by
  constructor
  · unfold pretty
    exact congrArg _ (prettyItems_indent (mkFormatterCls hd l a) (normIndent x) i lv false par n)
  · exact render_indent (mkFormatterCls hd l a) (normIndent x) i par n


/-! ### scope of a custom substitution function -/

/-- what `Formatter.attributes` + `attribute_value` do to one attribute, as a tree edit: `""` becomes `None` under
    `empty_attributes_are_booleans`, every other non-`None` value (a list joined with spaces) goes through `g` -/
def mapAttr (eab : Bool) (g : PStr → PStr) (kv : PStr × AttrVal) : PStr × AttrVal :=
  match kv.2 with
  | .none => (kv.1, .none)
  | .str s => if eab && s == [] then (kv.1, .none) else (kv.1, .str (g s))
  | .list l => (kv.1, .str (g ([32].intercalate l)))
  | .other s => (kv.1, .str (g s))

mutual
/-- apply `g` to exactly: the ordinary strings whose parent is not a cdata-containing tag, and the attribute values -/
def mapScope (cd : List PStr) (eab : Bool) (g : PStr → PStr) (parent : Option PStr) : Node → Node
  | .str k v => if k.verbatim || inCdata cd parent then .str k v else .str k (g v)
  | .tag n p as cbe pre ks => .tag n p (as.map (mapAttr eab g)) cbe pre (mapScopeL cd eab g (some n) ks)
def mapScopeL (cd : List PStr) (eab : Bool) (g : PStr → PStr) (parent : Option PStr) : List Node → List Node
  | [] => []
  | k :: ks => mapScope cd eab g parent k :: mapScopeL cd eab g parent ks
end

theorem mapScopeL_isEmpty (cd : List PStr) (eab : Bool) (g : PStr → PStr) (par : Option PStr) (l : List Node) :
    (mapScopeL cd eab g par l).isEmpty = l.isEmpty := by
  cases l <;> simp [mapScopeL]

/-- the formatter that substitutes nothing and has no boolean attributes, otherwise `c` -/
def plain (c : Cfg) : Cfg := { c with entity_substitution := .none, empty_attributes_are_booleans := false }

theorem attrPiece_mapAttr (c : Cfg) (i : Subst → PStr → PStr) (h : c.entity_substitution ≠ .none) (kv : PStr × AttrVal) :
    attrPiece c i (boolify c.empty_attributes_are_booleans kv)
      = attrPiece (plain c) i (boolify false (mapAttr c.empty_attributes_are_booleans (i c.entity_substitution) kv)) := by
  obtain ⟨k, v⟩ := kv
  cases v with
  | none => simp [attrPiece, boolify, mapAttr]
  | str s =>
    by_cases hs : s = []
    · subst hs
      cases he : c.empty_attributes_are_booleans <;> simp [attrPiece, boolify, mapAttr, plain, substitute, h]
    · cases he : c.empty_attributes_are_booleans <;> simp [attrPiece, boolify, mapAttr, plain, substitute, h, hs]
  | list l => simp [attrPiece, boolify, mapAttr, plain, substitute, h]
  | other s => simp [attrPiece, boolify, mapAttr, plain, substitute, h]

theorem attrString_mapAttr (c : Cfg) (i : Subst → PStr → PStr) (h : c.entity_substitution ≠ .none) (as : List (PStr × AttrVal)) :
    attrString c i as
      = attrString (plain c) i (as.map (mapAttr c.empty_attributes_are_booleans (i c.entity_substitution))) := by
  unfold attrString
  rw [attributes_eq, attributes_eq]
  have hk : ∀ kv : PStr × AttrVal, (mapAttr c.empty_attributes_are_booleans (i c.entity_substitution) kv).1 = kv.1 := by
    intro kv; obtain ⟨k, v⟩ := kv; cases v <;> simp [mapAttr]; split <;> rfl
  rw [← map_sortAttrs _ hk]
  simp only [List.map_map]
  have : (attrPiece c i ∘ boolify c.empty_attributes_are_booleans)
      = (attrPiece (plain c) i ∘ boolify (plain c).empty_attributes_are_booleans
          ∘ mapAttr c.empty_attributes_are_booleans (i c.entity_substitution)) := by
    funext kv; exact attrPiece_mapAttr c i h kv
  rw [this]

theorem formatTag_mapAttr (c : Cfg) (i : Subst → PStr → PStr) (h : c.entity_substitution ≠ .none) (n p : PStr)
    (as : List (PStr × AttrVal)) (e o : Bool) :
    formatTag c i n p as e o
      = formatTag (plain c) i n p (as.map (mapAttr c.empty_attributes_are_booleans (i c.entity_substitution))) e o := by
  unfold formatTag
  rw [attrString_mapAttr c i h]; rfl

mutual
theorem render_mapScope (c : Cfg) (i : Subst → PStr → PStr) (h : c.entity_substitution ≠ .none) (par : Option PStr) (n : Node) :
    render c i par n
      = render (plain c) i par (mapScope c.cdata_containing_tags c.empty_attributes_are_booleans (i c.entity_substitution) par n) := by
  cases n with
  | str k v =>
    simp only [mapScope]
    cases hv : k.verbatim
    · cases hc : inCdata c.cdata_containing_tags par <;>
        simp [render, outputReady, hv, substitute_eq, hc, applySubst, h, plain]
    · simp [render, outputReady, hv]
  | tag nm p as cbe pre ks =>
    simp only [render, mapScope, mapScopeL_isEmpty, ← formatTag_mapAttr c i h,
      ← renderL_mapScope c i h (some nm) ks]
theorem renderL_mapScope (c : Cfg) (i : Subst → PStr → PStr) (h : c.entity_substitution ≠ .none) (par : Option PStr) (l : List Node) :
    renderL c i par l
      = renderL (plain c) i par (mapScopeL c.cdata_containing_tags c.empty_attributes_are_booleans (i c.entity_substitution) par l) := by
  cases l with
  | nil => simp [renderL, mapScopeL]
  | cons k ks => simp only [renderL, mapScopeL, ← render_mapScope c i h par k, ← renderL_mapScope c i h par ks]
end


/-! ### attribute insertion order -/

theorem attributes_perm (c : Cfg) (as₁ as₂ : List (PStr × AttrVal)) (hp : as₁.Perm as₂) (hd : (as₁.map (·.1)).Nodup) :
    attributes c as₁ = attributes c as₂ := by
  rw [attributes_eq, attributes_eq, sort_perm as₁ as₂ hp hd]

theorem formatTag_perm (c : Cfg) (i : Subst → PStr → PStr) (n p : PStr) (as₁ as₂ : List (PStr × AttrVal)) (e o : Bool)
    (hp : as₁.Perm as₂) (hd : (as₁.map (·.1)).Nodup) :
    formatTag c i n p as₁ e o = formatTag c i n p as₂ e o := by
  unfold formatTag attrString
  rw [attributes_perm c as₁ as₂ hp hd]

theorem sort_idem (as : List (PStr × AttrVal)) : sortAttrs (sortAttrs as) = sortAttrs as :=
  sortAttrs_of_pairwise _ (sortAttrs_pairwise as)

mutual
/-- the tree with every tag's attributes put in key order -/
def canon : Node → Node
  | .str k v => .str k v
  | .tag n p as cbe pre ks => .tag n p (sortAttrs as) cbe pre (canonL ks)
def canonL : List Node → List Node
  | [] => []
  | k :: ks => canon k :: canonL ks
end

theorem canonL_isEmpty (l : List Node) : (canonL l).isEmpty = l.isEmpty := by cases l <;> simp [canonL]

theorem formatTag_sorted (c : Cfg) (i : Subst → PStr → PStr) (n p : PStr) (as : List (PStr × AttrVal)) (e o : Bool) :
    formatTag c i n p (sortAttrs as) e o = formatTag c i n p as e o := by
  unfold formatTag attrString
  rw [attributes_eq, attributes_eq, sort_idem]

mutual
theorem render_canon (c : Cfg) (i : Subst → PStr → PStr) (par : Option PStr) (n : Node) :
    render c i par (canon n) = render c i par n := by
  cases n with
  | str k v => simp [canon]
  | tag nm p as cbe pre ks =>
    simp only [canon, render, canonL_isEmpty, formatTag_sorted, renderL_canon c i (some nm) ks]
theorem renderL_canon (c : Cfg) (i : Subst → PStr → PStr) (par : Option PStr) (l : List Node) :
    renderL c i par (canonL l) = renderL c i par l := by
  cases l with
  | nil => simp [canonL]
  | cons k ks => simp only [canonL, renderL, render_canon c i par k, renderL_canon c i par ks]
end

mutual
theorem prettyItems_canon (c : Cfg) (i : Subst → PStr → PStr) (lv : Nat) (lit : Bool) (par : Option PStr) (n : Node) :
    prettyItems c i lv lit par (canon n) = prettyItems c i lv lit par n := by
  cases n with
  | str k v => simp [canon]
  | tag nm p as cbe pre ks =>
    simp only [canon, prettyItems, canonL_isEmpty, formatTag_sorted, prettyItemsL_canon c i (lv + 1) _ (some nm) ks]
theorem prettyItemsL_canon (c : Cfg) (i : Subst → PStr → PStr) (lv : Nat) (lit : Bool) (par : Option PStr) (l : List Node) :
    prettyItemsL c i lv lit par (canonL l) = prettyItemsL c i lv lit par l := by
  cases l with
  | nil => simp [canonL]
  | cons k ks => simp only [canonL, prettyItemsL, prettyItems_canon c i lv lit par k, prettyItemsL_canon c i lv lit par ks]
end

/-! ### `cdata_containing_tags` is a set: only membership matters -/

theorem inCdata_perm (cd₁ cd₂ : List PStr) (h : ∀ x, x ∈ cd₁ ↔ x ∈ cd₂) (par : Option PStr) : inCdata cd₁ par = inCdata cd₂ par := by
  cases par with
  | none => rfl
  | some p =>
    simp only [inCdata]
    by_cases h1 : p ∈ cd₁
    · have h2 := (h p).1 h1
      simp [h1, h2]
    · have h2 : p ∉ cd₂ := fun x => h1 ((h p).2 x)
      simp [h1, h2]

theorem interpTok_cdata (c : Cfg) (cd' : List PStr) (h : ∀ x, x ∈ cd' ↔ x ∈ c.cdata_containing_tags) (i : Subst → PStr → PStr) (t : Tok) :
    interpTok { c with cdata_containing_tags := cd' } i t = interpTok c i t := by
  cases t <;> simp [interpTok, substitute_eq, voidClose, inCdata_perm cd' c.cdata_containing_tags h]

theorem render_cdata_set (c : Cfg) (cd' : List PStr) (h : ∀ x, x ∈ cd' ↔ x ∈ c.cdata_containing_tags) (i : Subst → PStr → PStr)
    (par : Option PStr) (n : Node) :
    render { c with cdata_containing_tags := cd' } i par n = render c i par n := by
  rw [render_eq_toks, render_eq_toks]; congr 1; funext t; exact interpTok_cdata c cd' h i t

/-- rendering depends on the interpretation of the function identities only at the one the formatter holds -/
theorem render_interp_congr (c : Cfg) (i j : Subst → PStr → PStr) (h : ∀ x, i c.entity_substitution x = j c.entity_substitution x)
    (par : Option PStr) (n : Node) : render c i par n = render c j par n := by
  rw [render_eq_toks, render_eq_toks]; congr 1; funext t
  cases t <;> simp [interpTok, substitute_eq, applySubst, h]

/-! ### `re.sub` over alternatives in any order -/

/-- at most one alternative matches at any position -/
def Exclusive (alts : List Alt) : Prop := ∀ s, ∀ a ∈ alts, ∀ b ∈ alts, a.matchAt s = true → b.matchAt s = true → a = b

theorem find?_perm_unique {α} (p : α → Bool) (l₁ l₂ : List α) (hp : l₁.Perm l₂)
    (hu : ∀ a ∈ l₂, ∀ b ∈ l₂, p a = true → p b = true → a = b) : l₁.find? p = l₂.find? p := by
  cases h1 : l₁.find? p with
  | none =>
    symm; rw [List.find?_eq_none] at h1 ⊢
    intro x hx; exact h1 x (hp.symm.subset hx)
  | some a =>
    have ha := List.find?_some h1
    have ham := List.mem_of_find?_eq_some h1
    cases h2 : l₂.find? p with
    | none =>
      rw [List.find?_eq_none] at h2
      exact absurd ha (h2 a (hp.subset ham))
    | some b =>
      have hb := List.find?_some h2
      have hbm := List.mem_of_find?_eq_some h2
      rw [hu a (hp.subset ham) b hbm ha hb]

theorem reSubF_perm (alts alts' : List Alt) (hex : Exclusive alts) (hp : alts'.Perm alts) :
    ∀ fuel s, reSubF alts' fuel s = reSubF alts fuel s := by
  intro fuel
  induction fuel with
  | zero => intro s; simp [reSubF]
  | succ f ih =>
    intro s
    cases s with
    | nil => simp [reSubF]
    | cons c s =>
      simp only [reSubF]
      rw [find?_perm_unique _ alts' alts hp (fun a ha b hb => hex (c :: s) a ha b hb)]
      cases alts.find? (·.matchAt (c :: s)) with
      | none => simp only [ih]
      | some a => simp only [ih]

theorem reSub_perm (alts alts' : List Alt) (hex : Exclusive alts) (hp : alts'.Perm alts) (s : PStr) :
    reSub alts' s = reSub alts s := reSubF_perm alts alts' hex hp _ s

/-! ### a linear-time checker for `Exclusive` on a table sorted by key -/

def keyLt (a b : PStr) : Bool := keyLe a b && a != b

theorem keyLt_trans (a b c : PStr) (h1 : keyLt a b = true) (h2 : keyLt b c = true) : keyLt a c = true := by
  simp only [keyLt, Bool.and_eq_true, bne_iff_ne, ne_eq] at *
  refine ⟨keyLe_trans a b c h1.1 h2.1, ?_⟩
  rintro rfl
  exact h1.2 (keyLe_antisymm a b h1.1 h2.1)

/-- strictly increasing keys, checked on neighbours only -/
def chainLt : List PStr → Bool
  | [] => true
  | [_] => true
  | a :: b :: r => keyLt a b && chainLt (b :: r)

theorem chainLt_pairwise : ∀ l : List PStr, chainLt l = true → l.Pairwise (fun a b => keyLt a b = true)
  | [], _ => List.Pairwise.nil
  | [_], _ => by simp
  | a :: b :: r, h => by
    simp only [chainLt, Bool.and_eq_true] at h
    have ih := chainLt_pairwise (b :: r) h.2
    refine List.Pairwise.cons ?_ ih
    intro x hx
    rcases List.mem_cons.1 hx with rfl | hx
    · exact h.1
    · exact keyLt_trans a b x h.1 ((List.pairwise_cons.1 ih).1 x hx)

theorem chainLt_nodup (l : List PStr) (h : chainLt l = true) : l.Nodup := by
  refine (chainLt_pairwise l h).imp ?_
  intro a b hab
  simp only [keyLt, Bool.and_eq_true, bne_iff_ne, ne_eq] at hab
  exact hab.2

/-- bit `c` is set iff some key in `longs` starts with `c` -/
def firstMask (longs : List Alt) : Nat := longs.foldl (fun m b => m ||| (1 <<< b.key.headD 0)) 0

theorem foldl_mask_mono (l : List Alt) (m : Nat) (c : Nat) (h : m.testBit c = true) :
    (l.foldl (fun m b => m ||| (1 <<< b.key.headD 0)) m).testBit c = true := by
  induction l generalizing m with
  | nil => exact h
  | cons x xs ih => exact ih _ (by simp [Nat.testBit_or, h])

theorem foldl_mask_mem (l : List Alt) (m : Nat) (b : Alt) (hb : b ∈ l) :
    (l.foldl (fun m b => m ||| (1 <<< b.key.headD 0)) m).testBit (b.key.headD 0) = true := by
  induction l generalizing m with
  | nil => simp at hb
  | cons x xs ih =>
    rcases List.mem_cons.1 hb with rfl | hb
    · exact foldl_mask_mono xs _ _ (by simp [Nat.testBit_or, Nat.one_shiftLeft, Nat.testBit_two_pow_self])
    · exact ih _ hb

theorem firstMask_mem (longs : List Alt) (b : Alt) (hb : b ∈ longs) : (firstMask longs).testBit (b.key.headD 0) = true :=
  foldl_mask_mem longs 0 b hb

def isLong (b : Alt) : Bool := match b.key with | [_, _] => true | _ => false

/-- one alternative against the longer ones: a one-code-point key without look-ahead must not start any longer key (bit
    mask); one with a look-ahead set must list the second code point of every longer key it starts -/
def guardOk (mask : Nat) (longs : List Alt) (a : Alt) : Bool :=
  match a.key with
  | [x] =>
    if a.notNext.isEmpty then !mask.testBit x
    else longs.all fun b => match b.key with
      | [y, z] => !Nat.beq x y || a.notNext.contains z
      | _ => true
  | _ => true

/-- linear-time check over a table sorted by key: every key has one or two code points; keys strictly increase; whenever
    a key is a proper prefix of another, the longer one's next code point is in the shorter one's negative look-ahead -/
def exclusiveChk (alts : List Alt) : Bool :=
  alts.all (fun a => match a.key with | [_] => true | [_, _] => true | _ => false) && chainLt (alts.map (·.key)) &&
  alts.all (guardOk (firstMask (alts.filter isLong)) (alts.filter isLong))

theorem exclusiveChk_sound (alts : List Alt) (h : exclusiveChk alts = true) : Exclusive alts := by
  simp only [exclusiveChk, Bool.and_eq_true, List.all_eq_true] at h
  obtain ⟨⟨hlen, hch⟩, hg⟩ := h
  have hnd := chainLt_nodup _ hch
  intro s a ha b hb hma hmb
  have key_eq : a.key = b.key → a = b := fun hk => inj_of_nodup_map (·.key) alts hnd a b ha hb hk
  have shadow : ∀ a ∈ alts, ∀ b ∈ alts, a.key.length < b.key.length → a.matchAt s = true → b.matchAt s = true → False := by
    intro a ha b hb hlt hma hmb
    have h1 := hlen a ha
    have h2 := hlen b hb
    have hga := hg a ha
    cases hka : a.key with
    | nil => simp [hka] at h1
    | cons x xs =>
      cases xs with
      | cons _ _ => rw [hka] at hlt; (split at h2 <;> simp_all) <;> omega
      | nil =>
        cases hkb : b.key with
        | nil => simp [hkb] at h2
        | cons y ys =>
          cases ys with
          | nil => rw [hka, hkb] at hlt; simp at hlt
          | cons z zs =>
            cases zs with
            | cons _ _ => simp [hkb] at h2
            | nil =>
              have hbl : b ∈ alts.filter isLong := by simp [List.mem_filter, hb, isLong, hkb]
              simp only [Alt.matchAt, Bool.and_eq_true, List.isPrefixOf_iff_prefix, hka, hkb] at hma hmb
              obtain ⟨t, ht⟩ := hmb.1
              obtain ⟨t', ht'⟩ := hma.1
              subst ht
              simp only [List.cons_append, List.nil_append, List.cons.injEq] at ht'
              obtain ⟨rfl, rfl⟩ := ht'
              have hz : a.notNext.contains z = false := by simpa using hma.2
              simp only [guardOk, hka] at hga
              split at hga
              · have := firstMask_mem _ b hbl
                simp [hkb] at this
                simp [this] at hga
              · have := (List.all_eq_true.1 hga) b hbl
                simp [hkb] at this
                simp [this] at hz
  rcases Nat.lt_trichotomy a.key.length b.key.length with hl | hl | hl
  · exact (shadow a ha b hb hl hma hmb).elim
  · apply key_eq
    simp only [Alt.matchAt, Bool.and_eq_true, List.isPrefixOf_iff_prefix] at hma hmb
    exact (List.prefix_of_prefix_length_le hma.1 hmb.1 (Nat.le_of_eq hl)).eq_of_length hl
  · exact (shadow b hb a ha hl hmb hma).elim

/-! ### scope of a custom substitution function, pretty-printing -/

theorem outputReady_mapScope (c : Cfg) (i : Subst → PStr → PStr) (h : c.entity_substitution ≠ .none) (par : Option PStr)
    (k : StrKind) (v : PStr) :
    outputReady c i par k v = render (plain c) i par
      (mapScope c.cdata_containing_tags c.empty_attributes_are_booleans (i c.entity_substitution) par (.str k v)) := by
  have := render_mapScope c i h par (.str k v)
  simpa [render] using this

mutual
theorem prettyItems_mapScope (c : Cfg) (i : Subst → PStr → PStr) (h : c.entity_substitution ≠ .none) (lv : Nat) (lit : Bool)
    (par : Option PStr) (n : Node) :
    prettyItems c i lv lit par n
      = prettyItems (plain c) i lv lit par
          (mapScope c.cdata_containing_tags c.empty_attributes_are_booleans (i c.entity_substitution) par n) := by
  cases n with
  | str k v =>
    have h1 := outputReady_mapScope c i h par k v
    simp only [mapScope] at h1 ⊢
    by_cases hc : (k.verbatim || inCdata c.cdata_containing_tags par) = true
    · simp only [hc, if_true, render] at h1 ⊢
      simp only [prettyItems, h1]
    · simp only [hc] at h1 ⊢
      simp only [Bool.false_eq_true, if_false, prettyItems, h1, render]
  | tag nm p as cbe pre ks =>
    simp only [prettyItems, mapScope, mapScopeL_isEmpty, ← formatTag_mapAttr c i h,
      ← prettyItemsL_mapScope c i h (lv + 1) _ (some nm) ks]
theorem prettyItemsL_mapScope (c : Cfg) (i : Subst → PStr → PStr) (h : c.entity_substitution ≠ .none) (lv : Nat) (lit : Bool)
    (par : Option PStr) (l : List Node) :
    prettyItemsL c i lv lit par l
      = prettyItemsL (plain c) i lv lit par
          (mapScopeL c.cdata_containing_tags c.empty_attributes_are_booleans (i c.entity_substitution) par l) := by
  cases l with
  | nil => simp [prettyItemsL, mapScopeL]
  | cons k ks =>
    simp only [prettyItemsL, mapScopeL, ← prettyItems_mapScope c i h lv lit par k, ← prettyItemsL_mapScope c i h lv lit par ks]
end

/-! ### flavour walk and sessions -/

theorem isXmlOf_eq (chain : List (Option Bool)) (r : Bool) : isXmlOf chain r = ((chain.filterMap id).head?).getD r := by
  induction chain with
  | nil => simp [isXmlOf]
  | cons x xs ih => cases x <;> simp [isXmlOf, ih]

theorem runSession_docs (R X : List (Option PStr × Cfg)) (i : Subst → PStr → PStr) (ops : List HOp) :
    ∀ docs, (runSession R X i docs ops).1 = (runSession R X i docs (ops.filter HOp.isEdit)).1 := by
  induction ops with
  | nil => intro docs; rfl
  | cons op ops ih =>
    intro docs
    cases op with
    | edit f => simp only [runSession, HOp.isEdit, List.filter_cons_of_pos]; exact ih (f docs)
    | render d p a m =>
      simp only [runSession, HOp.isEdit, Bool.false_eq_true, not_false_eq_true, List.filter_cons_of_neg]; exact ih docs

theorem runSession_last (R X : List (Option PStr × Cfg)) (i : Subst → PStr → PStr) (ops : List HOp) (d : Nat) (p : List Nat)
    (a : FmtArg) (m : Mode) :
    ∀ docs, (runSession R X i docs (ops ++ [.render d p a m])).2.getLast?
      = some (match ((runSession R X i docs ops).1)[d]? with
              | some doc => doc.renderAt R X p a i m
              | none => .badReceiver) := by
  induction ops with
  | nil => intro docs; simp [runSession]; rfl
  | cons op ops ih =>
    intro docs
    cases op with
    | edit f => simp only [List.cons_append, runSession]; exact ih (f docs)
    | render d' p' a' m' =>
      simp only [List.cons_append, runSession]
      have := ih docs
      cases h : (runSession R X i docs (ops ++ [.render d p a m])).2 with
      | nil => rw [h] at this; simp at this
      | cons y ys => rw [h] at this; simp only [List.getLast?_cons_cons]; exact this

/-! ### copies keep the flavour -/

theorem isXmlOf_cons (k : Option Bool) (acc : List (Option Bool)) (r : Bool) :
    isXmlOf (k :: acc) r = k.getD (isXmlOf acc r) := by cases k <;> simp [isXmlOf]

/-- the chain `descend` collects resolves to `flavAt` -/
theorem descend_flavour (r : Bool) : ∀ (q : List Nat) (n : XNode) (acc : List (Option Bool)) (par : Option PStr)
    (e : XNode) (par' : Option PStr) (chain : List (Option Bool)),
    descend n q acc par = some (e, par', chain) → isXmlOf chain r = flavAt (isXmlOf acc r) n q
  | [], n, acc, par, e, par', chain, h => by
    simp only [descend, Option.some.injEq, Prod.mk.injEq] at h
    rw [← h.2.2, isXmlOf_cons]; rfl
  | i :: rest, n, acc, par, e, par', chain, h => by
    simp only [descend] at h
    simp only [flavAt]
    cases hk : n.kids[i]? with
    | none => rw [hk] at h; simp at h
    | some k =>
      rw [hk] at h
      simp only
      rw [descend_flavour r rest k (n.known :: acc) n.name? e par' chain h, isXmlOf_cons]

mutual
theorem erase_copyWith (inh : Bool) (n : XNode) : (n.copyWith inh).erase = n.erase := by
  cases n with
  | str kn k v => simp [XNode.copyWith, XNode.erase]
  | tag kn nm p as cbe pre ks => simp only [XNode.copyWith, XNode.erase, eraseL_copyWithL (kn.getD inh) ks]
theorem eraseL_copyWithL (inh : Bool) (l : List XNode) : eraseL (copyWithL inh l) = eraseL l := by
  cases l with
  | nil => simp [copyWithL, eraseL]
  | cons k ks => simp only [copyWithL, eraseL, erase_copyWith inh k, eraseL_copyWithL inh ks]
end

theorem copyWithL_getElem? (inh : Bool) : ∀ (l : List XNode) (i : Nat), (copyWithL inh l)[i]? = (l[i]?).map (·.copyWith inh)
  | [], i => by simp [copyWithL]
  | k :: ks, 0 => by simp [copyWithL]
  | k :: ks, i + 1 => by simp [copyWithL, copyWithL_getElem? inh ks i]

theorem stringsPlainL_getElem? : ∀ (l : List XNode) (i : Nat) (k : XNode), stringsPlainL l = true → l[i]? = some k →
    k.stringsPlain = true
  | [], i, k, _, h => by simp at h
  | x :: xs, 0, k, hp, h => by
    simp only [List.getElem?_cons_zero, Option.some.injEq] at h
    simp only [stringsPlainL, Bool.and_eq_true] at hp
    exact h ▸ hp.1
  | x :: xs, i + 1, k, hp, h => by
    simp only [List.getElem?_cons_succ] at h
    simp only [stringsPlainL, Bool.and_eq_true] at hp
    exact stringsPlainL_getElem? xs i k hp.2 h

/-- every element of a copy has the flavour its original had, whatever the copy is later put under (`inh'`) — for a copied
    tag; a copied bare string has no flavour of its own and takes that of its surroundings -/
theorem flavAt_copy : ∀ (q : List Nat) (n : XNode) (inh inh' : Bool), n.stringsPlain = true →
    (n.name?.isSome = true ∨ inh' = inh) → flavAt inh' (n.copyWith inh) q = flavAt inh n q
  | [], .str kn k v, inh, inh', hp, h => by
    simp only [XNode.stringsPlain, Option.isNone_iff_eq_none] at hp
    subst hp
    simp [XNode.name?] at h
    simp [XNode.copyWith, flavAt, XNode.known, h]
  | [], .tag kn nm p as cbe pre ks, inh, inh', _, _ => by simp [XNode.copyWith, flavAt, XNode.known]
  | i :: rest, .str kn k v, inh, inh', hp, h => by
    simp only [XNode.stringsPlain, Option.isNone_iff_eq_none] at hp
    subst hp
    simp [XNode.name?] at h
    simp [XNode.copyWith, flavAt, XNode.kids, XNode.known, h]
  | i :: rest, .tag kn nm p as cbe pre ks, inh, inh', hp, _ => by
    simp only [XNode.copyWith, flavAt, XNode.kids, XNode.known, Option.getD_some, copyWithL_getElem?]
    cases hk : ks[i]? with
    | none => simp
    | some k =>
      simp only [Option.map_some]
      exact flavAt_copy rest k (kn.getD inh) (kn.getD inh) (stringsPlainL_getElem? ks i k hp hk) (Or.inr rfl)

theorem descend_head : ∀ (q : List Nat) (n : XNode) (acc : List (Option Bool)) (par : Option PStr)
    (e : XNode) (par' : Option PStr) (chain : List (Option Bool)),
    descend n q acc par = some (e, par', chain) → ∃ t, chain = e.known :: t
  | [], n, acc, par, e, par', chain, h => by
    simp only [descend, Option.some.injEq, Prod.mk.injEq] at h
    exact ⟨acc, by rw [← h.2.2, h.1]⟩
  | i :: rest, n, acc, par, e, par', chain, h => by
    simp only [descend] at h
    cases hk : n.kids[i]? with
    | none => rw [hk] at h; simp at h
    | some k => rw [hk] at h; exact descend_head rest k _ _ e par' chain h

theorem renderMode_tag_parent (c : Cfg) (i : Subst → PStr → PStr) (m : Mode) (par par' : Option PStr) (n : Node)
    (h : (kidsOf n).isSome = true) : renderMode c i m par n = renderMode c i m par' n := by
  cases n with
  | str k v => simp [kidsOf] at h
  | tag nm p as cbe pre ks => cases m <;> simp [renderMode, render, pretty, prettyItems, kidsOf]

theorem kidsOf_erase (n : XNode) : (kidsOf n.erase).isSome = n.name?.isSome := by
  cases n <;> simp [XNode.erase, kidsOf, XNode.name?]

/-- a copy of the element at `p`, detached, rendered from its root: the same output as the original element gives where
    it stands, for every `formatter=` argument and output method -/
theorem copy_renderAt (R X : List (Option PStr × Cfg)) (i : Subst → PStr → PStr) (d : Doc) (p : List Nat) (n : XNode)
    (par : Option PStr) (chain : List (Option Bool)) (hd : descend d.root p [] none = some (n, par, chain))
    (ht : n.name?.isSome = true) (arg : FmtArg) (m : Mode) :
    Doc.renderAt R X ⟨n.copyWith (isXmlOf chain.tail d.rootAttr), false⟩ [] arg i m = Doc.renderAt R X d p arg i m := by
  obtain ⟨t, hc⟩ := descend_head p d.root [] none n par chain hd
  subst hc
  unfold Doc.renderAt
  rw [hd]
  simp only [descend, List.tail_cons]
  have hk : (n.copyWith (isXmlOf t d.rootAttr)).known = some (isXmlOf (n.known :: t) d.rootAttr) := by
    cases n with
    | str kn k v => simp [XNode.name?] at ht
    | tag kn nm pf as cbe pre ks => simp [XNode.copyWith, XNode.known, isXmlOf_cons]
  rw [hk]
  simp only [isXmlOf, erase_copyWith]
  unfold entry
  cases formatterForName R X (isXmlOf (n.known :: t) d.rootAttr) arg with
  | keyError => rfl
  | ok c => exact renderMode_tag_parent c i m none par n.erase (by rw [kidsOf_erase]; exact ht)

end BS.Formatter
