import BSModel.Model.FormatterBuild
import BSModel.Proofs.Formatter
/-! helper lemmas for C15, builder side: set/dict-typed configuration is only consulted through membership and key lookup;
    the attribute dict of a start tag without duplicate keys is the source list; attribute order in the source does not
    survive canonicalisation. Core Lean only. -/
namespace BS.Formatter
open List

/-- the two lists denote the same set -/
def SetEq (a b : List PStr) : Prop := ∀ x, x ∈ a ↔ x ∈ b

theorem SetEq.contains {a b : List PStr} (h : SetEq a b) (x : PStr) : a.contains x = b.contains x := by
  by_cases hx : x ∈ a
  · have := (h x).1 hx; simp [hx, this]
  · have : x ∉ b := fun hb => hx ((h x).2 hb); simp [hx, this]

theorem SetEq.isEmpty {a b : List PStr} (h : SetEq a b) : a.isEmpty = b.isEmpty := by
  cases a with
  | nil =>
    cases b with
    | nil => rfl
    | cons y ys => exact absurd ((h y).2 (by simp)) (by simp)
  | cons x xs =>
    cases b with
    | nil => exact absurd ((h x).1 (by simp)) (by simp)
    | cons y ys => rfl

theorem SetEq.of_perm {a b : List PStr} (h : a.Perm b) : SetEq a b := fun _ => h.mem_iff

/-- two optional sets that are both absent or denote the same set -/
def OptSetEq : Option (List PStr) → Option (List PStr) → Prop
  | none, none => True
  | some s, some s' => SetEq s s'
  | _, _ => False

/-- the same configuration, whatever the listing order of its sets and dicts -/
structure BuilderEquiv (b b' : BuilderCfg) : Prop where
  dup : b.onDuplicate = b'.onDuplicate
  empty : OptSetEq b.emptyElementTags b'.emptyElementTags
  pres : SetEq b.preserveWhitespaceTags b'.preserveWhitespaceTags
  claEmpty : b.cdataListAttributes.isEmpty = b'.cdataListAttributes.isEmpty
  cla : ∀ k, OptSetEq (dictGet b.cdataListAttributes k) (dictGet b'.cdataListAttributes k)

theorem isListAttr_equiv (cla cla' : List (PStr × List PStr)) (h : ∀ k, OptSetEq (dictGet cla k) (dictGet cla' k))
    (t a : PStr) : isListAttr cla t a = isListAttr cla' t a := by
  unfold isListAttr
  have hu := h [42]
  have ht := h t
  congr 1
  · cases h1 : dictGet cla [42] <;> cases h2 : dictGet cla' [42] <;> simp only [h1, h2, OptSetEq] at hu
    · rfl
    · simp only [Option.getD_some]; exact hu.contains a
  · cases h1 : dictGet cla t <;> cases h2 : dictGet cla' t <;> simp only [h1, h2, OptSetEq] at ht
    · rfl
    · simp only [ht.isEmpty, ht.contains a]

theorem replaceCdataList_equiv (cla cla' : List (PStr × List PStr)) (he : cla.isEmpty = cla'.isEmpty)
    (h : ∀ k, OptSetEq (dictGet cla k) (dictGet cla' k)) (t : PStr) (d : List (PStr × PStr)) :
    replaceCdataList cla t d = replaceCdataList cla' t d := by
  unfold replaceCdataList
  rw [he]
  split
  · rfl
  · apply List.map_congr_left
    intro e _
    rw [isListAttr_equiv cla cla' h]

theorem canBeEmpty_equiv (b b' : BuilderCfg) (h : BuilderEquiv b b') (n : PStr) : canBeEmpty b n = canBeEmpty b' n := by
  unfold canBeEmpty
  have := h.empty
  cases h1 : b.emptyElementTags <;> cases h2 : b'.emptyElementTags <;> simp only [h1, h2, OptSetEq] at this
  · rfl
  · exact this.contains n

theorem preserves_equiv (b b' : BuilderCfg) (h : BuilderEquiv b b') (n : PStr) : preserves b n = preserves b' n := by
  unfold preserves
  rw [h.pres.isEmpty, h.pres.contains n]

mutual
/-- the built tree is literally the same -/
theorem build_equiv (b b' : BuilderCfg) (h : BuilderEquiv b b') (t : RawNode) : build b t = build b' t := by
  cases t with
  | str k v => simp [build]
  | tag n as ks =>
    simp only [build, h.dup, replaceCdataList_equiv _ _ h.claEmpty h.cla, canBeEmpty_equiv b b' h, preserves_equiv b b' h,
      buildL_equiv b b' h ks]
theorem buildL_equiv (b b' : BuilderCfg) (h : BuilderEquiv b b') (l : List RawNode) : buildL b l = buildL b' l := by
  cases l with
  | nil => simp [buildL]
  | cons k ks => simp only [buildL, build_equiv b b' h k, buildL_equiv b b' h ks]
end

/-! ### listing order of a dict with distinct keys -/

theorem dictGet_perm (d d' : List (PStr × List PStr)) (hp : d'.Perm d) (hn : (d.map (·.1)).Nodup) (k : PStr) :
    dictGet d' k = dictGet d k := by
  unfold dictGet
  rw [find?_perm_unique _ d' d hp]
  intro a ha b hb h1 h2
  have h1' : a.1 = k := by simpa using h1
  have h2' : b.1 = k := by simpa using h2
  exact inj_of_nodup_map (·.1) d hn a b ha hb (h1'.trans h2'.symm)

theorem optSetEq_refl (o : Option (List PStr)) : OptSetEq o o := by
  cases o <;> simp [OptSetEq, SetEq]

/-- permuting the sets and the entries of the `cdata_list_attributes` dict (distinct keys) gives an equivalent configuration -/
theorem builderEquiv_of_perm (b : BuilderCfg) (e' : Option (List PStr)) (p' : List PStr) (c' : List (PStr × List PStr))
    (he : match b.emptyElementTags, e' with | none, none => True | some s, some s' => s'.Perm s | _, _ => False)
    (hp : p'.Perm b.preserveWhitespaceTags) (hc : c'.Perm b.cdataListAttributes)
    (hn : (b.cdataListAttributes.map (·.1)).Nodup) :
    BuilderEquiv { b with emptyElementTags := e', preserveWhitespaceTags := p', cdataListAttributes := c' } b where
  dup := rfl
  empty := by
    cases h1 : b.emptyElementTags <;> cases e' <;> simp only [h1, OptSetEq] at he ⊢
    · exact SetEq.of_perm he
  pres := SetEq.of_perm hp
  claEmpty := by
    have := hc.length_eq
    cases c' <;> cases h : b.cdataListAttributes <;> simp_all
  cla := fun k => by
    simp only
    rw [dictGet_perm _ _ hc hn k]
    exact optSetEq_refl _

/-! ### a start tag without duplicate keys -/

theorem attrDictLoop_nodup (od : OnDup) : ∀ (rest : List (PStr × Option PStr)) (acc : List (PStr × PStr)),
    (acc.map (·.1) ++ rest.map (·.1)).Nodup →
    attrDictLoop od acc rest = acc ++ rest.map (fun e => (e.1, e.2.getD []))
  | [], acc, _ => by simp [attrDictLoop]
  | (k, v) :: rest, acc, h => by
    have hk : ¬ acc.any (fun e => e.1 = k) = true := by
      simp only [List.any_eq_true, decide_eq_true_eq, not_exists, not_and]
      intro e he hek
      have h1 := List.nodup_append.1 h
      exact h1.2.2 e.1 (List.mem_map.2 ⟨e, he, rfl⟩) k (by simp) hek
    simp only [attrDictLoop, hk, Bool.false_eq_true, if_false]
    rw [attrDictLoop_nodup od rest (acc ++ [(k, v.getD [])])]
    · simp
    · simpa [List.append_assoc] using h

theorem attrDict_nodup (od : OnDup) (as : List (PStr × Option PStr)) (h : (as.map (·.1)).Nodup) :
    attrDict od as = as.map (fun e => (e.1, e.2.getD [])) := by
  unfold attrDict
  rw [attrDictLoop_nodup od as [] (by simpa using h)]
  simp

theorem replaceCdataList_keys (cla : List (PStr × List PStr)) (t : PStr) (d : List (PStr × PStr)) :
    (replaceCdataList cla t d).map (·.1) = d.map (·.1) := by
  unfold replaceCdataList
  split <;> simp [List.map_map, Function.comp_def]

theorem replaceCdataList_perm (cla : List (PStr × List PStr)) (t : PStr) (d d' : List (PStr × PStr)) (h : d.Perm d') :
    (replaceCdataList cla t d).Perm (replaceCdataList cla t d') := by
  unfold replaceCdataList
  have he : d.isEmpty = d'.isEmpty := by
    have := h.length_eq
    cases d <;> cases d' <;> simp_all
  rw [he]
  split
  · exact h.map _
  · exact h.map _

/-- the attributes of the built element, for a start tag whose keys are distinct -/
def builtAttrs (b : BuilderCfg) (n : PStr) (as : List (PStr × Option PStr)) : List (PStr × AttrVal) :=
  replaceCdataList b.cdataListAttributes n (attrDict b.onDuplicate as)

theorem builtAttrs_perm (b : BuilderCfg) (n : PStr) (as₁ as₂ : List (PStr × Option PStr)) (hp : as₁.Perm as₂)
    (hd : (as₁.map (·.1)).Nodup) :
    (builtAttrs b n as₁).Perm (builtAttrs b n as₂) ∧ ((builtAttrs b n as₁).map (·.1)).Nodup := by
  have hd2 : (as₂.map (·.1)).Nodup := (hp.map _).nodup_iff.1 hd
  unfold builtAttrs
  rw [attrDict_nodup _ as₁ hd, attrDict_nodup _ as₂ hd2]
  refine ⟨replaceCdataList_perm _ _ _ _ (hp.map _), ?_⟩
  rw [replaceCdataList_keys]
  simpa [List.map_map, Function.comp_def] using hd

mutual
/-- two parses that differ only in the order in which start tags list their (distinct) attributes -/
inductive SameUpToAttrOrder : RawNode → RawNode → Prop
  | str (k : StrKind) (v : PStr) : SameUpToAttrOrder (.str k v) (.str k v)
  | tag (n : PStr) (as₁ as₂ : List (PStr × Option PStr)) (ks₁ ks₂ : List RawNode) :
      as₁.Perm as₂ → (as₁.map (·.1)).Nodup → SameUpToAttrOrderL ks₁ ks₂ → SameUpToAttrOrder (.tag n as₁ ks₁) (.tag n as₂ ks₂)
inductive SameUpToAttrOrderL : List RawNode → List RawNode → Prop
  | nil : SameUpToAttrOrderL [] []
  | cons (a b : RawNode) (as bs : List RawNode) : SameUpToAttrOrder a b → SameUpToAttrOrderL as bs →
      SameUpToAttrOrderL (a :: as) (b :: bs)
end

mutual
theorem canon_build_same (b : BuilderCfg) : ∀ t t', SameUpToAttrOrder t t' → canon (build b t) = canon (build b t')
  | _, _, .str k v => rfl
  | _, _, .tag n as₁ as₂ ks₁ ks₂ hp hd hk => by
    have h := builtAttrs_perm b n as₁ as₂ hp hd
    unfold builtAttrs at h
    simp only [build, canon]
    rw [sort_perm _ _ h.1 h.2, canonL_buildL_same b ks₁ ks₂ hk]
theorem canonL_buildL_same (b : BuilderCfg) : ∀ l l', SameUpToAttrOrderL l l' → canonL (buildL b l) = canonL (buildL b l')
  | _, _, .nil => rfl
  | _, _, .cons a c as bs h1 h2 => by
    simp only [buildL, canonL]
    rw [canon_build_same b a c h1, canonL_buildL_same b as bs h2]
end

/-! ### two formatter/interpretation pairs that write every piece alike -/

/-- same options, `cdata_containing_tags` the same *set*, and interpretations that agree on the function the formatter holds -/
structure FmtEquiv (c : Cfg) (i : Subst → PStr → PStr) (c' : Cfg) (i' : Subst → PStr → PStr) : Prop where
  es : c.entity_substitution = c'.entity_substitution
  vecp : c.void_element_close_prefix = c'.void_element_close_prefix
  eab : c.empty_attributes_are_booleans = c'.empty_attributes_are_booleans
  indent : c.indent = c'.indent
  cdata : SetEq c.cdata_containing_tags c'.cdata_containing_tags
  interp : ∀ x, i c.entity_substitution x = i' c'.entity_substitution x

theorem substitute_fmtEquiv {c i c' i'} (h : FmtEquiv c i c' i') (par : Option PStr) (ns : Bool) (x : PStr) :
    substitute c i par ns x = substitute c' i' par ns x := by
  rw [substitute_eq, substitute_eq, inCdata_perm _ _ h.cdata par]
  unfold applySubst
  rw [h.interp x, h.es]

theorem outputReady_fmtEquiv {c i c' i'} (h : FmtEquiv c i c' i') (par : Option PStr) (k : StrKind) (v : PStr) :
    outputReady c i par k v = outputReady c' i' par k v := by
  unfold outputReady
  rw [substitute_fmtEquiv h]

theorem formatTag_fmtEquiv {c i c' i'} (h : FmtEquiv c i c' i') (n p : PStr) (as : List (PStr × AttrVal)) (e o : Bool) :
    formatTag c i n p as e o = formatTag c' i' n p as e o := by
  have hp : attrPiece c i = attrPiece c' i' := by
    funext kv
    unfold attrPiece
    cases kv.2 <;> simp only [substitute_fmtEquiv h]
  unfold formatTag attrString voidClose attributes
  rw [hp, h.eab, h.vecp]

mutual
theorem render_fmtEquiv {c i c' i'} (h : FmtEquiv c i c' i') (par : Option PStr) (n : Node) :
    render c i par n = render c' i' par n := by
  cases n with
  | str k v => simp only [render, outputReady_fmtEquiv h]
  | tag nm p as cbe pre ks => simp only [render, formatTag_fmtEquiv h, renderL_fmtEquiv h (some nm) ks]
theorem renderL_fmtEquiv {c i c' i'} (h : FmtEquiv c i c' i') (par : Option PStr) (l : List Node) :
    renderL c i par l = renderL c' i' par l := by
  cases l with
  | nil => simp [renderL]
  | cons k ks => simp only [renderL, render_fmtEquiv h par k, renderL_fmtEquiv h par ks]
end

mutual
theorem prettyItems_fmtEquiv {c i c' i'} (h : FmtEquiv c i c' i') (lv : Nat) (lit : Bool) (par : Option PStr) (n : Node) :
    prettyItems c i lv lit par n = prettyItems c' i' lv lit par n := by
  cases n with
  | str k v => simp only [prettyItems, outputReady_fmtEquiv h]
  | tag nm p as cbe pre ks =>
    simp only [prettyItems, formatTag_fmtEquiv h, prettyItemsL_fmtEquiv h (lv + 1) _ (some nm) ks]
theorem prettyItemsL_fmtEquiv {c i c' i'} (h : FmtEquiv c i c' i') (lv : Nat) (lit : Bool) (par : Option PStr) (l : List Node) :
    prettyItemsL c i lv lit par l = prettyItemsL c' i' lv lit par l := by
  cases l with
  | nil => simp [prettyItemsL]
  | cons k ks => simp only [prettyItemsL, prettyItems_fmtEquiv h lv lit par k, prettyItemsL_fmtEquiv h lv lit par ks]
end

theorem renderMode_fmtEquiv {c i c' i'} (h : FmtEquiv c i c' i') (m : Mode) (par : Option PStr) (n : Node) :
    renderMode c i m par n = renderMode c' i' m par n := by
  unfold renderMode pretty prettyL
  cases m with
  | decode => simp only [render_fmtEquiv h]
  | pretty lv => simp only [prettyItems_fmtEquiv h, h.indent]
  | contents => cases kidsOf n <;> simp only [renderL_fmtEquiv h]
  | prettyContents lv => cases kidsOf n <;> simp only [prettyItemsL_fmtEquiv h, h.indent]

/-- every output method sees a tree only through its canonical form -/
theorem renderMode_canon (c : Cfg) (i : Subst → PStr → PStr) (m : Mode) (par : Option PStr) (n : Node) :
    renderMode c i m par (canon n) = renderMode c i m par n := by
  unfold renderMode pretty prettyL
  cases m with
  | decode => simp only [render_canon]
  | pretty lv => simp only [prettyItems_canon]
  | contents => cases n <;> simp only [canon, kidsOf, renderL_canon]
  | prettyContents lv => cases n <;> simp only [canon, kidsOf, prettyItemsL_canon]

/-! ### the `attributes()` hook -/

theorem formatTagHook_default (c : Cfg) (i : Subst → PStr → PStr) (n p : PStr) (as : List (PStr × AttrVal)) (e o : Bool) :
    formatTagHook (attributes c) c i n p as e o = formatTag c i n p as e o := rfl

mutual
theorem renderHook_default (c : Cfg) (i : Subst → PStr → PStr) (par : Option PStr) (n : Node) :
    renderHook (attributes c) c i par n = render c i par n := by
  cases n with
  | str k v => simp [renderHook, render]
  | tag nm p as cbe pre ks => simp only [renderHook, render, formatTagHook_default, renderHookL_default c i (some nm) ks]
theorem renderHookL_default (c : Cfg) (i : Subst → PStr → PStr) (par : Option PStr) (l : List Node) :
    renderHookL (attributes c) c i par l = renderL c i par l := by
  cases l with
  | nil => simp [renderHookL, renderL]
  | cons k ks => simp only [renderHookL, renderL, renderHook_default c i par k, renderHookL_default c i par ks]
end

mutual
/-- two trees that differ at most in attribute lists on which the hook gives the same answer -/
inductive SameUpToHook (h : AttrHook) : Node → Node → Prop
  | str (k : StrKind) (v : PStr) : SameUpToHook h (.str k v) (.str k v)
  | tag (n p : PStr) (as₁ as₂ : List (PStr × AttrVal)) (cbe pre : Bool) (ks₁ ks₂ : List Node) :
      h as₁ = h as₂ → SameUpToHookL h ks₁ ks₂ → SameUpToHook h (.tag n p as₁ cbe pre ks₁) (.tag n p as₂ cbe pre ks₂)
inductive SameUpToHookL (h : AttrHook) : List Node → List Node → Prop
  | nil : SameUpToHookL h [] []
  | cons (a b : Node) (as bs : List Node) : SameUpToHook h a b → SameUpToHookL h as bs → SameUpToHookL h (a :: as) (b :: bs)
end

theorem sameUpToHookL_length {h : AttrHook} : ∀ l l', SameUpToHookL h l l' → l.length = l'.length
  | _, _, .nil => rfl
  | _, _, .cons _ _ as bs _ h2 => by simp [sameUpToHookL_length as bs h2]

mutual
/-- if the hook gives the same answer for the attribute lists of two trees (tag by tag), the outputs agree -/
theorem renderHook_congr (h : AttrHook) (c : Cfg) (i : Subst → PStr → PStr) (par : Option PStr) :
    ∀ t t', SameUpToHook h t t' → renderHook h c i par t = renderHook h c i par t'
  | _, _, .str k v => rfl
  | _, _, .tag n p as₁ as₂ cbe pre ks₁ ks₂ ha hk => by
    have hl := sameUpToHookL_length ks₁ ks₂ hk
    have he : ks₁.isEmpty = ks₂.isEmpty := by cases ks₁ <;> cases ks₂ <;> simp_all
    simp only [renderHook, formatTagHook, attrStringHook, ha, he, renderHookL_congr h c i (some n) ks₁ ks₂ hk]
theorem renderHookL_congr (h : AttrHook) (c : Cfg) (i : Subst → PStr → PStr) (par : Option PStr) :
    ∀ l l', SameUpToHookL h l l' → renderHookL h c i par l = renderHookL h c i par l'
  | _, _, .nil => rfl
  | _, _, .cons a b as bs h1 h2 => by
    simp only [renderHookL, renderHook_congr h c i par a b h1, renderHookL_congr h c i par as bs h2]
end

end BS.Formatter
