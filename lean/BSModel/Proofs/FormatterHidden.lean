import BSModel.Model.FormatterHidden
/-! C15, hidden tags: the model with hidden tags refines the one without on trees that have none. Core Lean only. -/
namespace BS.Formatter
open List

theorem ofNodeL_isEmpty (l : List Node) : (ofNodeL l).isEmpty = l.isEmpty := by cases l <;> simp [ofNodeL]

mutual
theorem renderH_ofNode (c : Cfg) (i : Subst → PStr → PStr) (par : Option PStr) (n : Node) :
    renderH c i par (HNode.ofNode n) = render c i par n := by
  cases n with
  | str k v => simp [HNode.ofNode, renderH, render]
  | tag nm p as cbe pre ks =>
    simp only [HNode.ofNode, renderH, render, ofNodeL_isEmpty, Bool.false_eq_true, if_false, renderHL_ofNodeL c i (some nm) ks]
theorem renderHL_ofNodeL (c : Cfg) (i : Subst → PStr → PStr) (par : Option PStr) (l : List Node) :
    renderHL c i par (ofNodeL l) = renderL c i par l := by
  cases l with
  | nil => simp [ofNodeL, renderHL, renderL]
  | cons k ks => simp only [ofNodeL, renderHL, renderL, renderH_ofNode c i par k, renderHL_ofNodeL c i par ks]
end

mutual
theorem prettyItemsH_ofNode (c : Cfg) (i : Subst → PStr → PStr) (lv : Nat) (lit : Bool) (par : Option PStr) (n : Node) :
    prettyItemsH c i lv lit par (HNode.ofNode n) = prettyItems c i lv lit par n := by
  cases n with
  | str k v => simp [HNode.ofNode, prettyItemsH, prettyItems]
  | tag nm p as cbe pre ks =>
    simp only [HNode.ofNode, prettyItemsH, prettyItems, ofNodeL_isEmpty, Bool.false_eq_true, if_false,
      prettyItemsHL_ofNodeL c i (lv + 1) _ (some nm) ks]
theorem prettyItemsHL_ofNodeL (c : Cfg) (i : Subst → PStr → PStr) (lv : Nat) (lit : Bool) (par : Option PStr) (l : List Node) :
    prettyItemsHL c i lv lit par (ofNodeL l) = prettyItemsL c i lv lit par l := by
  cases l with
  | nil => simp [ofNodeL, prettyItemsHL, prettyItemsL]
  | cons k ks =>
    simp only [ofNodeL, prettyItemsHL, prettyItemsL, prettyItemsH_ofNode c i lv lit par k, prettyItemsHL_ofNodeL c i lv lit par ks]
end

theorem renderModeH_ofNode (c : Cfg) (i : Subst → PStr → PStr) (m : Mode) (par : Option PStr) (n : Node) :
    renderModeH c i m par (HNode.ofNode n) = renderMode c i m par n := by
  cases m with
  | decode => simp [renderModeH, renderMode, renderH_ofNode]
  | pretty lv => simp [renderModeH, renderMode, pretty, prettyItemsH_ofNode]
  | contents => cases n <;> simp [renderModeH, renderMode, HNode.ofNode, hkidsOf, kidsOf, renderHL_ofNodeL]
  | prettyContents lv =>
    cases n <;> simp [renderModeH, renderMode, HNode.ofNode, hkidsOf, kidsOf, prettyL, prettyItemsHL_ofNodeL]

/-- the indentation depths an item list mentions -/
def indDepths : List Item → List Nat
  | [] => []
  | .ind d :: rest => d :: indDepths rest
  | .lit _ :: rest => indDepths rest

theorem indDepths_append (a b : List Item) : indDepths (a ++ b) = indDepths a ++ indDepths b := by
  induction a with
  | nil => rfl
  | cons x xs ih => cases x <;> simp [indDepths, ih]

def AllGe (lv : Nat) (items : List Item) : Prop := ∀ d ∈ indDepths items, lv ≤ d

theorem allGe_nil (lv : Nat) : AllGe lv [] := by simp [AllGe, indDepths]
theorem allGe_append {lv : Nat} {a b : List Item} (ha : AllGe lv a) (hb : AllGe lv b) : AllGe lv (a ++ b) := by
  intro d hd
  rw [indDepths_append, List.mem_append] at hd
  rcases hd with hd | hd
  · exact ha d hd
  · exact hb d hd
theorem allGe_lit {lv : Nat} {s : PStr} {a : List Item} (ha : AllGe lv a) : AllGe lv (.lit s :: a) := by
  intro d hd; exact ha d (by simpa [indDepths] using hd)
theorem allGe_ind {lv d : Nat} {a : List Item} (h : lv ≤ d) (ha : AllGe lv a) : AllGe lv (.ind d :: a) := by
  intro x hx
  simp only [indDepths, List.mem_cons] at hx
  rcases hx with rfl | hx
  · exact h
  · exact ha x hx
theorem allGe_mono {lv : Nat} {a : List Item} (ha : AllGe (lv + 1) a) : AllGe lv a := fun d hd => Nat.le_of_succ_le (ha d hd)

mutual
/-- every indentation written for something at or below level `lv` is at least `lv` deep: no line is indented less than the
    receiver's own level, whatever hidden tags the tree contains -/
theorem indDepths_ge (c : Cfg) (i : Subst → PStr → PStr) (lv : Nat) (lit : Bool) (par : Option PStr) (n : HNode) :
    AllGe lv (prettyItemsH c i lv lit par n) := by
  cases n with
  | str k v =>
    simp only [prettyItemsH]
    split
    · exact allGe_lit (allGe_nil _)
    · split
      · exact allGe_nil _
      · exact allGe_ind (Nat.le_refl _) (allGe_lit (allGe_lit (allGe_nil _)))
  | tag h nm p as cbe pre ks =>
    have ih := allGe_mono (indDepthsL_ge c i (lv + 1) (lit || pre) (some nm) ks)
    have ih1 := allGe_mono (indDepthsL_ge c i (lv + 1) true (some nm) ks)
    have ih2 := allGe_mono (indDepthsL_ge c i (lv + 1) false (some nm) ks)
    simp only [prettyItemsH]
    split
    · split
      · exact allGe_nil _
      · exact ih
    · split
      · split
        · exact allGe_lit (allGe_nil _)
        · exact allGe_ind (Nat.le_refl _) (allGe_lit (allGe_lit (allGe_nil _)))
      · split
        · exact allGe_append (allGe_append (allGe_lit (allGe_nil _)) ih1) (allGe_lit (allGe_nil _))
        · split
          · exact allGe_append (allGe_append (allGe_ind (Nat.le_refl _) (allGe_lit (allGe_nil _))) ih1)
              (allGe_lit (allGe_lit (allGe_nil _)))
          · exact allGe_append (allGe_append (allGe_ind (Nat.le_refl _) (allGe_lit (allGe_lit (allGe_nil _)))) ih2)
              (allGe_ind (Nat.le_refl _) (allGe_lit (allGe_lit (allGe_nil _))))
theorem indDepthsL_ge (c : Cfg) (i : Subst → PStr → PStr) (lv : Nat) (lit : Bool) (par : Option PStr) (l : List HNode) :
    AllGe lv (prettyItemsHL c i lv lit par l) := by
  cases l with
  | nil => simp only [prettyItemsHL]; exact allGe_nil _
  | cons k ks =>
    simp only [prettyItemsHL]
    exact allGe_append (indDepths_ge c i lv lit par k) (indDepthsL_ge c i lv lit par ks)
end

end BS.Formatter
