import BSModel.Model.FormatterPopulate
import BSModel.Proofs.Formatter
/-! helper lemmas for C15: the alternatives `_populate_class_variables` assembles are mutually exclusive for every input
    table in which no long key is a proper prefix of another and none starts with `&`. Core Lean only. -/
namespace BS.Formatter
open List

/-! ### a sufficient condition for `Exclusive` -/

theorem shadow_contra (a b : Alt) (s : PStr) (hlt : a.key.length < b.key.length) (ha : a.matchAt s = true)
    (hb : b.matchAt s = true) : (a.key.isPrefixOf b.key && !a.notNext.contains (b.key.getD a.key.length 0)) = true := by
  simp only [Alt.matchAt, Bool.and_eq_true, List.isPrefixOf_iff_prefix] at ha hb
  have hpre : a.key <+: b.key := List.prefix_of_prefix_length_le ha.1 hb.1 (Nat.le_of_lt hlt)
  obtain ⟨r, hr⟩ := hpre
  obtain ⟨t, ht⟩ := hb.1
  cases r with
  | nil => simp at hr; rw [hr] at hlt; omega
  | cons x r =>
    have hs : s = a.key ++ (x :: (r ++ t)) := by rw [← ht, ← hr]; simp
    have hx : b.key.getD a.key.length 0 = x := by rw [← hr]; simp [List.getD]
    have hd : (s.drop a.key.length).head? = some x := by rw [hs]; simp
    have := ha.2
    rw [hd] at this
    simp only [Bool.and_eq_true, List.isPrefixOf_iff_prefix, hx]
    exact ⟨⟨x :: r, hr⟩, this⟩

theorem exclusive_of_guarded (alts : List Alt)
    (hkey : ∀ a ∈ alts, ∀ b ∈ alts, a.key = b.key → a = b)
    (hguard : ∀ a ∈ alts, ∀ b ∈ alts, a.key.length < b.key.length → a.key.isPrefixOf b.key = true →
      a.notNext.contains (b.key.getD a.key.length 0) = true) : Exclusive alts := by
  intro s a ha b hb hma hmb
  have shadow : ∀ a ∈ alts, ∀ b ∈ alts, a.key.length < b.key.length → a.matchAt s = true → b.matchAt s = true → False := by
    intro a ha b hb hlt hma hmb
    have hc := shadow_contra a b s hlt hma hmb
    simp only [Bool.and_eq_true, Bool.not_eq_true'] at hc
    have := hguard a ha b hb hlt hc.1
    rw [hc.2] at this; exact Bool.noConfusion this
  rcases Nat.lt_trichotomy a.key.length b.key.length with hl | hl | hl
  · exact (shadow a ha b hb hl hma hmb).elim
  · apply hkey a ha b hb
    simp only [Alt.matchAt, Bool.and_eq_true, List.isPrefixOf_iff_prefix] at hma hmb
    exact (List.prefix_of_prefix_length_le hma.1 hmb.1 (Nat.le_of_eq hl)).eq_of_length hl
  · exact (shadow b hb a ha hl hmb hma).elim

/-! ### sets kept as lists -/

theorem setAdd_nodup {α} [BEq α] [LawfulBEq α] (s : List α) (x : α) (h : s.Nodup) : (setAdd s x).Nodup := by
  unfold setAdd
  split
  · exact h
  · rename_i hc
    have hx : x ∉ s := by simpa using hc
    exact List.nodup_append.2 ⟨h, by simp, fun a ha b hb => by
      simp only [List.mem_singleton] at hb; subst hb; exact fun e => hx (e ▸ ha)⟩

theorem mem_setAdd {α} [BEq α] [LawfulBEq α] (s : List α) (x y : α) : y ∈ setAdd s x ↔ y ∈ s ∨ y = x := by
  unfold setAdd
  split
  · rename_i hc
    have hx : x ∈ s := by simpa using hc
    constructor
    · exact Or.inl
    · rintro (h | rfl)
      · exact h
      · exact hx
  · simp

/-! ### the `defaultdict(set)` -/

/-- keys distinct; every set without repeats; every member starts with its key and satisfies `P` -/
def LongInv (P : PStr → Prop) (m : List (Nat × List PStr)) : Prop :=
  (m.map (·.1)).Nodup ∧ ∀ e ∈ m, e.2.Nodup ∧ ∀ l ∈ e.2, l.headD 0 = e.1 ∧ P l

theorem multiAdd_keys (m : List (Nat × List PStr)) (c : Nat) (l : PStr) :
    ∀ k, k ∈ (multiAdd m c l).map (·.1) ↔ k ∈ m.map (·.1) ∨ k = c := by
  induction m with
  | nil => intro k; simp [multiAdd]
  | cons e rest ih =>
    intro k
    simp only [multiAdd]
    split
    · rename_i h; simp only [List.map_cons, List.mem_cons]; constructor
      · rintro (h1 | h1); exact Or.inl (Or.inl h1); exact Or.inl (Or.inr h1)
      · rintro ((h1 | h1) | h1); exact Or.inl h1; exact Or.inr h1; exact Or.inl (h1.trans h.symm)
    · simp only [List.map_cons, List.mem_cons, ih k]; constructor
      · rintro (h1 | h1 | h1); exact Or.inl (Or.inl h1); exact Or.inl (Or.inr h1); exact Or.inr h1
      · rintro ((h1 | h1) | h1); exact Or.inl h1; exact Or.inr (Or.inl h1); exact Or.inr (Or.inr h1)

theorem multiAdd_inv (P : PStr → Prop) (m : List (Nat × List PStr)) (l : PStr) (hP : P l) (h : LongInv P m) :
    LongInv P (multiAdd m (l.headD 0) l) := by
  induction m with
  | nil =>
    refine ⟨by simp [multiAdd], ?_⟩
    intro e he
    simp only [multiAdd, List.mem_singleton] at he
    subst he
    exact ⟨by simp, fun x hx => by simp only [List.mem_singleton] at hx; subst hx; exact ⟨rfl, hP⟩⟩
  | cons e rest ih =>
    obtain ⟨hk, hs⟩ := h
    simp only [List.map_cons] at hk
    have hk' := List.nodup_cons.1 hk
    have hrest : LongInv P rest := ⟨hk'.2, fun e' he' => hs e' (List.mem_cons_of_mem _ he')⟩
    simp only [multiAdd]
    split
    · rename_i hc
      refine ⟨by simpa using hk, ?_⟩
      intro e' he'
      rcases List.mem_cons.1 he' with hee | he'
      · subst hee
        have he := hs e (by simp)
        refine ⟨setAdd_nodup _ _ he.1, fun x hx => ?_⟩
        rcases (mem_setAdd _ _ _).1 hx with hx | rfl
        · exact he.2 x hx
        · exact ⟨hc.symm, hP⟩
      · exact hs e' (List.mem_cons_of_mem _ he')
    · rename_i hc
      have ih' := ih hrest
      refine ⟨?_, ?_⟩
      · simp only [List.map_cons]
        refine List.nodup_cons.2 ⟨?_, ih'.1⟩
        intro hmem
        rcases (multiAdd_keys rest _ l e.1).1 hmem with h1 | h1
        · exact hk'.1 h1
        · exact hc h1
      · intro e' he'
        rcases List.mem_cons.1 he' with hee | he'
        · rw [hee]; exact hs e (by simp)
        · exact ih'.2 e' he'

theorem multiGet_of_mem (m : List (Nat × List PStr)) (hk : (m.map (·.1)).Nodup) (e : Nat × List PStr) (he : e ∈ m) :
    multiGet m e.1 = e.2 := by
  unfold multiGet
  cases hf : m.find? (fun x => x.1 = e.1) with
  | none =>
    rw [List.find?_eq_none] at hf
    exact absurd (by simp) (hf e he)
  | some x =>
    have h1 : x.1 = e.1 := by simpa using List.find?_some hf
    have h2 := List.mem_of_find?_eq_some hf
    rw [inj_of_nodup_map (·.1) m hk x e h2 he h1]

/-! ### the loop -/

theorem classify_long (ch l : PStr) (h : classify ch = .long l) : l = ch ∧ 2 ≤ ch.length := by
  match ch with
  | [] => simp [classify] at h
  | [c] => simp only [classify] at h; split at h <;> exact CharClass.noConfusion h
  | c :: d :: r =>
    simp only [classify] at h
    split at h
    · exact CharClass.noConfusion h
    · injection h with h; exact ⟨h.symm, by simp⟩

theorem classify_short (ch : PStr) (c : Nat) (h : classify ch = .short c) : c ≠ 38 := by
  match ch with
  | [] => simp [classify] at h
  | [c'] =>
    simp only [classify] at h
    split at h
    · exact CharClass.noConfusion h
    · rename_i hc
      injection h with h
      subst h
      intro h38
      subst h38
      simp at hc
  | c' :: d :: r =>
    simp only [classify] at h
    split at h <;> exact CharClass.noConfusion h

def isLongChar (ch : PStr) : Bool := match classify ch with | .long _ => true | _ => false

/-- the values of the table that get an alternative of their own longer than one code point -/
def longChars (items : List (PStr × PStr)) : List PStr := (items.map (·.2)).filter isLongChar

structure PopInv (src : List PStr) (st : PopState) : Prop where
  shortNodup : st.shortEntities.Nodup
  shortRange : ∀ c ∈ st.shortEntities, c ≠ 38
  long : LongInv (fun l => 2 ≤ l.length ∧ l ∈ src) st.longByFirst

theorem popStep_inv (items : List (PStr × PStr)) (st : PopState) (item : PStr × PStr) (hi : item ∈ items)
    (h : PopInv (longChars items) st) : PopInv (longChars items) (popStep st item) := by
  unfold popStep
  simp only
  cases hc : classify item.2 with
  | skip => exact ⟨h.shortNodup, h.shortRange, h.long⟩
  | short c =>
    refine ⟨setAdd_nodup _ _ h.shortNodup, ?_, h.long⟩
    intro x hx
    rcases (mem_setAdd _ _ _).1 hx with hx | rfl
    · exact h.shortRange x hx
    · exact classify_short _ _ hc
  | long l =>
    obtain ⟨hl, hlen⟩ := classify_long _ _ hc
    refine ⟨h.shortNodup, h.shortRange, ?_⟩
    apply multiAdd_inv _ _ l _ h.long
    refine ⟨hl ▸ hlen, ?_⟩
    unfold longChars
    rw [List.mem_filter]
    refine ⟨List.mem_map.2 ⟨item, hi, hl.symm⟩, ?_⟩
    simp [isLongChar, hl, hc]

theorem foldl_inv {σ α} (step : σ → α → σ) (Inv : σ → Prop) : ∀ (l : List α) (init : σ),
    (∀ st x, x ∈ l → Inv st → Inv (step st x)) → Inv init → Inv (l.foldl step init)
  | [], _, _, h0 => h0
  | x :: xs, init, hs, h0 =>
    foldl_inv step Inv xs (step init x) (fun st y hy => hs st y (List.mem_cons_of_mem _ hy)) (hs init x (by simp) h0)

theorem popLoop_inv (items : List (PStr × PStr)) : PopInv (longChars items) (popLoop items) := by
  unfold popLoop
  apply foldl_inv popStep (PopInv (longChars items)) items {} (fun st x hx h => popStep_inv items st x hx h)
  exact ⟨List.nodup_nil, by simp, by simp [LongInv]⟩

/-! ### the alternatives are mutually exclusive -/

/-- no long key is a proper prefix of another, and none starts with `&` -/
def TableOK (items : List (PStr × PStr)) : Prop :=
  (∀ l₁ ∈ longChars items, ∀ l₂ ∈ longChars items, l₁.length < l₂.length → l₁.isPrefixOf l₂ = false) ∧
  ∀ l ∈ longChars items, l.headD 0 ≠ 38

theorem mem_particles (st : PopState) (p : PStr × List Nat) (h : p ∈ particles st) :
    (∃ c ∈ st.shortEntities, p = ([c], (multiGet st.longByFirst c).map (fun l => (l.drop 1).headD 0))) ∨
    (∃ e ∈ st.longByFirst, ∃ l ∈ e.2, p = (l, [])) ∨ p = ([38], []) := by
  unfold particles at h
  simp only [List.mem_append, List.mem_map, List.mem_flatMap, List.mem_singleton] at h
  rcases h with (⟨c, hc, rfl⟩ | ⟨e, he, l, hl, rfl⟩) | rfl
  · exact Or.inl ⟨c, hc, rfl⟩
  · exact Or.inr (Or.inl ⟨e, he, l, hl, rfl⟩)
  · exact Or.inr (Or.inr rfl)

theorem getD_one (l : PStr) : l.getD 1 0 = (l.drop 1).headD 0 := by
  match l with
  | [] => rfl
  | [_] => rfl
  | _ :: _ :: _ => rfl

theorem particles_guarded (items : List (PStr × PStr)) (hT : TableOK items) :
    let ps := particles (popLoop items)
    (∀ p ∈ ps, ∀ q ∈ ps, p.1 = q.1 → p = q) ∧
    (∀ p ∈ ps, ∀ q ∈ ps, p.1.length < q.1.length → p.1.isPrefixOf q.1 = true → p.2.contains (q.1.getD p.1.length 0) = true) := by
  have inv := popLoop_inv items
  generalize popLoop items = st at inv
  obtain ⟨hsn, hsr, hkn, hle⟩ := inv
  constructor
  · intro p hp q hq hk
    rcases mem_particles st p hp with ⟨c, hc, rfl⟩ | ⟨e, he, l, hl, rfl⟩ | rfl <;>
      rcases mem_particles st q hq with ⟨c', hc', rfl⟩ | ⟨e', he', l', hl', rfl⟩ | rfl
    · simp only [List.cons.injEq, and_true] at hk; subst hk; rfl
    · have := ((hle e' he').2 l' hl').2.1; simp only at hk; subst hk; simp at this
    · simp only [List.cons.injEq, and_true] at hk; exact absurd hk (hsr c hc)
    · have := ((hle e he).2 l hl).2.1; simp only at hk; subst hk; simp at this
    · simp only at hk; subst hk; rfl
    · have := ((hle e he).2 l hl).2.1; simp only at hk; subst hk; simp at this
    · simp only [List.cons.injEq, and_true] at hk; exact absurd hk.symm (hsr c' hc')
    · have := ((hle e' he').2 l' hl').2.1; simp only at hk; subst hk; simp at this
    · rfl
  · intro p hp q hq hlt hpre
    -- the longer one is a long entity
    rcases mem_particles st q hq with ⟨c', hc', rfl⟩ | ⟨e', he', l', hl', rfl⟩ | rfl
    · rcases mem_particles st p hp with ⟨c, hc, rfl⟩ | ⟨e, he, l, hl, rfl⟩ | rfl
      · simp at hlt
      · have := ((hle e he).2 l hl).2.1; simp only [List.length_singleton] at hlt; omega
      · simp at hlt
    · have hq' := (hle e' he').2 l' hl'
      rcases mem_particles st p hp with ⟨c, hc, rfl⟩ | ⟨e, he, l, hl, rfl⟩ | rfl
      · -- a short entity that starts a long one: its look-ahead lists the long one's second code point
        simp only [List.length_singleton] at hlt ⊢
        have hhead : l'.headD 0 = c := by
          match l', hpre with
          | x :: _, hpre => simp [List.isPrefixOf] at hpre; simp [hpre]
        have hec : e'.1 = c := hq'.1.symm.trans hhead
        have hget := multiGet_of_mem st.longByFirst hkn e' he'
        rw [hec] at hget
        simp only [hget, getD_one, List.contains_iff_mem, List.mem_map]
        exact ⟨l', hl', rfl⟩
      · have hp' := (hle e he).2 l hl
        have := hT.1 l hp'.2.2 l' hq'.2.2 hlt
        simp only at hpre; rw [hpre] at this; exact Bool.noConfusion this
      · have hhead : l'.headD 0 = 38 := by
          match l', hpre with
          | x :: _, hpre => simp [List.isPrefixOf] at hpre; simp [hpre]
        exact absurd hhead (hT.2 l' hq'.2.2)
    · rcases mem_particles st p hp with ⟨c, hc, rfl⟩ | ⟨e, he, l, hl, rfl⟩ | rfl
      · simp at hlt
      · have := ((hle e he).2 l hl).2.1; simp only [List.length_singleton] at hlt; omega
      · simp at hlt

theorem populateAlts_exclusive (items : List (PStr × PStr)) (c2n : List (Nat × PStr)) (hT : TableOK items) :
    Exclusive (populateAlts items c2n) := by
  obtain ⟨h1, h2⟩ := particles_guarded items hT
  unfold populateAlts
  apply exclusive_of_guarded
  · intro a ha b hb hk
    simp only [List.mem_map] at ha hb
    obtain ⟨p, hp, rfl⟩ := ha
    obtain ⟨q, hq, rfl⟩ := hb
    simp only at hk
    rw [h1 p hp q hq hk]
  · intro a ha b hb hlt hpre
    simp only [List.mem_map] at ha hb
    obtain ⟨p, hp, rfl⟩ := ha
    obtain ⟨q, hq, rfl⟩ := hb
    exact h2 p hp q hq hlt hpre

/-! ### a checker for `TableOK` -/

def tableOKChk (items : List (PStr × PStr)) : Bool :=
  let ls := longChars items
  ls.all (fun l₁ => ls.all fun l₂ => !(Nat.blt l₁.length l₂.length) || !(l₁.isPrefixOf l₂)) &&
  ls.all (fun l => !(Nat.beq (l.headD 0) 38))

theorem tableOKChk_sound (items : List (PStr × PStr)) (h : tableOKChk items = true) : TableOK items := by
  simp only [tableOKChk, Bool.and_eq_true, List.all_eq_true, Bool.or_eq_true, Bool.not_eq_true'] at h
  refine ⟨fun l₁ h1 l₂ h2 hlt => ?_, fun l hl h38 => ?_⟩
  · rcases h.1 l₁ h1 l₂ h2 with h3 | h3
    · have h4 : Nat.blt l₁.length l₂.length = true := by simp [Nat.blt_eq, hlt]
      rw [h4] at h3; exact Bool.noConfusion h3
    · exact h3
  · have := h.2 l hl
    rw [h38] at this
    simp at this

/-! ### the listing order inside a `(?![…])` class, and the listing order of the alternatives -/

theorem matchAt_congr (a a' : Alt) (hk : a'.key = a.key) (hn : ∀ x, x ∈ a'.notNext ↔ x ∈ a.notNext) (s : PStr) :
    a'.matchAt s = a.matchAt s := by
  unfold Alt.matchAt
  rw [hk]
  cases (s.drop a.key.length).head? with
  | none => rfl
  | some c =>
    simp only
    by_cases hc : c ∈ a.notNext
    · have := (hn c).2 hc; simp [hc, this]
    · have : c ∉ a'.notNext := fun h => hc ((hn c).1 h); simp [hc, this]

theorem find?_map_congr (alts : List Alt) (f : Alt → Alt) (s : PStr)
    (hf : ∀ a, (f a).matchAt s = a.matchAt s) :
    (alts.map f).find? (·.matchAt s) = (alts.find? (·.matchAt s)).map f := by
  induction alts with
  | nil => rfl
  | cons a rest ih =>
    simp only [List.map_cons, List.find?_cons, hf a]
    cases a.matchAt s <;> simp [ih]

theorem reSubF_map_congr (alts : List Alt) (f : Alt → Alt)
    (hk : ∀ a, (f a).key = a.key) (hr : ∀ a, (f a).repl = a.repl) (hn : ∀ a x, x ∈ (f a).notNext ↔ x ∈ a.notNext) :
    ∀ fuel s, reSubF (alts.map f) fuel s = reSubF alts fuel s := by
  intro fuel
  induction fuel with
  | zero => intro s; simp [reSubF]
  | succ n ih =>
    intro s
    cases s with
    | nil => simp [reSubF]
    | cons c s =>
      simp only [reSubF]
      rw [find?_map_congr alts f (c :: s) (fun a => matchAt_congr a (f a) (hk a) (hn a) (c :: s))]
      cases alts.find? (·.matchAt (c :: s)) with
      | none => simp only [Option.map_none, ih]
      | some a => simp only [Option.map_some, hr, hk, ih]

/-- relisting the code points inside every look-ahead class changes nothing -/
theorem reSub_map_congr (alts : List Alt) (f : Alt → Alt)
    (hk : ∀ a, (f a).key = a.key) (hr : ∀ a, (f a).repl = a.repl) (hn : ∀ a x, x ∈ (f a).notNext ↔ x ∈ a.notNext) (s : PStr) :
    reSub (alts.map f) s = reSub alts s := reSubF_map_congr alts f hk hr hn _ s

theorem exclusive_map (alts : List Alt) (f : Alt → Alt) (hk : ∀ a, (f a).key = a.key)
    (hn : ∀ a x, x ∈ (f a).notNext ↔ x ∈ a.notNext) (h : Exclusive alts) : Exclusive (alts.map f) := by
  intro s a ha b hb hma hmb
  obtain ⟨a0, ha0, rfl⟩ := List.mem_map.1 ha
  obtain ⟨b0, hb0, rfl⟩ := List.mem_map.1 hb
  rw [matchAt_congr a0 (f a0) (hk a0) (hn a0) s] at hma
  rw [matchAt_congr b0 (f b0) (hk b0) (hn b0) s] at hmb
  rw [h s a0 ha0 b0 hb0 hma hmb]

end BS.Formatter
