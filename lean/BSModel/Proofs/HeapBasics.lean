import BSModel.Proofs.HeapWF
/-! shared lemmas about `Tiles`, `boundary` and the down-walk `lastDown` (used by both pillars) -/
namespace BS.Heap

theorem tiles_mono (pos size : Nat → Nat) : ∀ (l : List Nat) (s e : Nat), Tiles pos size l s e → s ≤ e := by
  intro l; induction l with
  | nil => intro s e h; simp [Tiles] at h; omega
  | cons b l ih => intro s e h; obtain ⟨_, _, hr⟩ := h; have := ih _ _ hr; omega

/-- every child lies inside the tiled range -/
theorem tiles_mem (pos size : Nat → Nat) : ∀ (ks : List Nat) (s e : Nat), Tiles pos size ks s e →
    ∀ k ∈ ks, s ≤ pos k ∧ pos k + size k ≤ e ∧ 1 ≤ size k := by
  intro ks; induction ks with
  | nil => intro s e _ k hk; simp at hk
  | cons a l ih =>
    intro s e h k hk
    obtain ⟨ha, ha1, hr⟩ := h
    have hm := tiles_mono pos size l _ _ hr
    rcases List.mem_cons.mp hk with rfl | hk'
    · omega
    · have := ih _ _ hr k hk'; omega

/-- the tiling covers the range: every position in `[s, e)` lies in exactly one child's interval -/
theorem tiles_cover (pos size : Nat → Nat) : ∀ (ks : List Nat) (s e q : Nat), Tiles pos size ks s e →
    s ≤ q → q < e → ∃ k ∈ ks, pos k ≤ q ∧ q < pos k + size k := by
  intro ks; induction ks with
  | nil => intro s e q h h1 h2; simp [Tiles] at h; omega
  | cons a l ih =>
    intro s e q h h1 h2
    obtain ⟨ha, ha1, hr⟩ := h
    by_cases hq : q < s + size a
    · exact ⟨a, by simp, by omega, by omega⟩
    · obtain ⟨k, hk, hk1, hk2⟩ := ih (s + size a) e q hr (by omega) h2
      exact ⟨k, by simp [hk], hk1, hk2⟩

/-- two different children occupy disjoint intervals -/
theorem tiles_disjoint (pos size : Nat → Nat) : ∀ (ks : List Nat) (s e : Nat), Tiles pos size ks s e →
    ∀ a ∈ ks, ∀ b ∈ ks, pos a ≤ pos b → pos b < pos a + size a → pos a = pos b := by
  intro ks; induction ks with
  | nil => intro s e _ a ha; simp at ha
  | cons c l ih =>
    intro s e h a ha b hb h1 h2
    obtain ⟨hc, hc1, hr⟩ := h
    rcases List.mem_cons.mp ha with rfl | ha' <;> rcases List.mem_cons.mp hb with rfl | hb'
    · rfl
    · have := tiles_mem pos size l _ _ hr b hb'; omega
    · have := tiles_mem pos size l _ _ hr a ha'; omega
    · exact ih _ _ hr a ha' b hb' h1 h2

theorem tiles_last (pos size : Nat → Nat) :
    ∀ (ks : List Nat) (s e k : Nat), Tiles pos size ks s e → ks.getLast? = some k →
      pos k + size k = e ∧ s ≤ pos k ∧ 1 ≤ size k := by
  intro ks
  induction ks with
  | nil => intro s e k _ h; simp at h
  | cons a l ih =>
    intro s e k ht hl
    obtain ⟨ha, ha1, hr⟩ := ht
    cases l with
    | nil =>
      simp at hl; subst hl
      simp [Tiles] at hr; omega
    | cons b l' =>
      have : (b :: l').getLast? = some k := by simpa [List.getLast?_cons_cons] using hl
      have := ih (s + size a) e k hr this
      omega

theorem boundary_ge (size : Nat → Nat) : ∀ (l : List Nat) (s j : Nat), s ≤ boundary size l s j := by
  intro l; induction l with
  | nil => intro s j; cases j <;> simp [boundary]
  | cons a l ih => intro s j; cases j with
    | zero => simp [boundary]
    | succ j => simp only [boundary]; have := ih (s + size a) j; omega

/-- the slot boundary is a child start, or the end of the range -/
theorem boundary_spec (pos size : Nat → Nat) : ∀ (ks : List Nat) (s e i : Nat), Tiles pos size ks s e →
    i ≤ ks.length →
    (∀ k, ks[i]? = some k → pos k = boundary size ks s i) ∧ (i = ks.length → boundary size ks s i = e) ∧
    boundary size ks s i ≤ e := by
  intro ks; induction ks with
  | nil => intro s e i h hi; simp at hi; subst hi; simp [Tiles] at h; simp [boundary, h]
  | cons a l ih =>
    intro s e i h hi
    obtain ⟨ha, ha1, hr⟩ := h
    cases i with
    | zero =>
      have := tiles_mono pos size l _ _ hr
      simp [boundary, ha]; omega
    | succ i =>
      have := ih (s + size a) e i hr (by simpa using hi)
      simp only [boundary, List.getElem?_cons_succ, List.length_cons]
      refine ⟨this.1, ?_, this.2.2⟩
      intro h'; exact this.2.1 (by omega)

theorem tiles_insert (pos size pos' size' : Nat → Nat) (x sx : Nat) (hsx : 1 ≤ sx) :
    ∀ (ks : List Nat) (i s e : Nat),
      Tiles pos size ks s e →
      x ∉ ks →
      (∀ k ∈ ks, size' k = size k) →
      (∀ k ∈ ks, pos' k = if boundary size ks s i ≤ pos k then pos k + sx else pos k) →
      pos' x = boundary size ks s i → size' x = sx →
      Tiles pos' size' (ks.take i ++ x :: ks.drop i) s (e + sx) := by
  intro ks
  induction ks with
  | nil =>
    intro i s e ht _ _ _ hpx hsz
    simp [Tiles] at ht ⊢
    cases i <;> simp [boundary] at hpx <;> omega
  | cons k ks ih =>
    intro i s e ht hx hs hp hpx hsz
    obtain ⟨hk, hk1, hrest⟩ := ht
    cases i with
    | zero =>
      simp only [List.take_zero, List.nil_append, List.drop_zero, boundary] at *
      refine ⟨hpx, by omega, ?_⟩
      have shift : ∀ (l : List Nat) (s' e' : Nat), Tiles pos size l s' e' → s ≤ s' →
          (∀ k ∈ l, size' k = size k) → (∀ k ∈ l, pos' k = if s ≤ pos k then pos k + sx else pos k) →
          Tiles pos' size' l (s' + sx) (e' + sx) := by
        intro l
        induction l with
        | nil => intro s' e' h _ _ _; simp [Tiles] at h ⊢; omega
        | cons a l ihl =>
          intro s' e' h hle hs' hp'
          obtain ⟨ha, ha1, hr⟩ := h
          have e1 := hs' a (by simp)
          have e2 := hp' a (by simp)
          refine ⟨by rw [e2]; simp [ha, hle], by omega, ?_⟩
          have := ihl (s' + size a) e' hr (by omega) (fun k hk => hs' k (by simp [hk])) (fun k hk => hp' k (by simp [hk]))
          rw [e1]
          have e : s' + size a + sx = s' + sx + size a := by omega
          rw [← e]; exact this
      have := shift (k :: ks) s e ⟨hk, hk1, hrest⟩ (Nat.le_refl _) hs hp
      rw [hsz]; exact this
    | succ i =>
      simp only [List.take_succ_cons, List.cons_append, List.drop_succ_cons, boundary] at *
      have hxks : x ∉ ks := by intro h; apply hx; simp [h]
      have e1 := hs k (by simp)
      have e2 := hp k (by simp)
      have hb : pos k < boundary size ks (s + size k) i := by
        have := boundary_ge size ks (s + size k) i; omega
      refine ⟨by rw [e2]; simp [hk]; omega, by omega, ?_⟩
      rw [e1]
      exact ih i (s + size k) e hrest hxks (fun k' hk' => hs k' (by simp [hk']))
        (fun k' hk' => hp k' (by simp [hk'])) hpx hsz

/-- the down-walk of `_last_descendant` ends on the last node of the subtree, which has no children -/
theorem lastDown_pos (h : Heap) (w : Wit) (hwf : WF h w) :
    ∀ (f n : Nat), w.size n ≤ f + 1 →
      w.tree (lastDown h f n) = w.tree n ∧ w.pos (lastDown h f n) + 1 = w.pos n + w.size n ∧
      h.kids (lastDown h f n) = [] := by
  intro f
  induction f with
  | zero =>
    intro n hsz
    have h1 := hwf.size_pos n
    have ht := hwf.tiles n
    have : w.size n = 1 := by omega
    simp only [lastDown]
    refine ⟨trivial, by omega, ?_⟩
    cases hk : h.kids n with
    | nil => rfl
    | cons a l =>
      rw [hk] at ht
      obtain ⟨_, ha1, hr⟩ := ht
      have := tiles_mono _ _ l _ _ hr
      omega
  | succ f ih =>
    intro n hsz
    have h1 := hwf.size_pos n
    have ht := hwf.tiles n
    simp only [lastDown]
    by_cases htag : (h.kind n).isTag = true
    · simp only [htag, if_true]
      cases hl : (h.kids n).getLast? with
      | none =>
        simp only
        have : h.kids n = [] := by simpa using hl
        rw [this] at ht
        simp [Tiles] at ht
        exact ⟨trivial, by omega, this⟩
      | some k =>
        simp only
        have hk := tiles_last _ _ (h.kids n) _ _ k ht hl
        have hmem : k ∈ h.kids n := List.mem_of_getLast? hl
        have := ih k (by omega)
        exact ⟨by rw [this.1, hwf.kid_tree n k hmem], by omega, this.2.2⟩
    · have hs : (h.kind n).isTag = false := by simpa using htag
      simp only [hs, Bool.false_eq_true, if_false]
      have hk := hwf.str_leaf n hs
      rw [hk] at ht
      simp [Tiles] at ht
      exact ⟨trivial, by omega, hk⟩

end BS.Heap
