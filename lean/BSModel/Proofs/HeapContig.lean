import BSModel.Proofs.HeapShape
/-! C02: several elements inserted by one call end up contiguous and in order (the slot arithmetic of
    `Tag.insert`: "next slot = index of the last inserted element + 1") -/
namespace BS.Heap

theorem erase_append_of_not_mem_left {l₁ l₂ : List Nat} {x : Nat} (h : x ∉ l₁) :
    (l₁ ++ l₂).erase x = l₁ ++ l₂.erase x := by
  rw [List.erase_append]; simp [h]

theorem erase_append_of_mem_left {l₁ l₂ : List Nat} {x : Nat} (h : x ∈ l₁) :
    (l₁ ++ l₂).erase x = l₁.erase x ++ l₂ := by
  rw [List.erase_append]; simp [h]

theorem insertIdx_append_length (l₁ l₂ : List Nat) (x : Nat) :
    (l₁ ++ l₂).insertIdx l₁.length x = l₁ ++ x :: l₂ := by
  induction l₁ with
  | nil => simp
  | cons a l ih => simp [ih]

/-- one step of the loop on a children list that already holds the block `ys` at `pre.length` -/
theorem block_step (pre ys post : List Nat) (x : Nat) (hnd : (pre ++ ys ++ post).Nodup) (hx : x ∉ ys) :
    ((pre ++ ys ++ post).erase x).insertIdx (slotOf (pre ++ ys ++ post) (pre ++ ys).length x) x
      = pre.erase x ++ (ys ++ [x]) ++ post.erase x ∧
    (((pre ++ ys ++ post).erase x).insertIdx (slotOf (pre ++ ys ++ post) (pre ++ ys).length x) x).idxOf x
      = (pre.erase x ++ ys).length := by
  have hslot : slotOf (pre ++ ys ++ post) (pre ++ ys).length x = (pre.erase x ++ ys).length := by
    unfold slotOf
    rw [List.take_left']
    · by_cases hp : x ∈ pre
      · rw [erase_append_of_mem_left hp]
      · rw [erase_append_of_not_mem_left hp, List.erase_of_not_mem hx, List.erase_of_not_mem hp]
    · rfl
  have herase : (pre ++ ys ++ post).erase x = pre.erase x ++ ys ++ post.erase x := by
    by_cases hp : x ∈ pre
    · have hnpost : x ∉ post := by
        intro hpo
        have := List.nodup_append.mp hnd
        exact this.2.2 x (by simp [hp]) x hpo rfl
      rw [List.append_assoc, erase_append_of_mem_left hp, List.erase_of_not_mem hnpost, List.append_assoc]
    · rw [List.append_assoc, erase_append_of_not_mem_left hp, erase_append_of_not_mem_left hx,
        List.erase_of_not_mem hp, List.append_assoc]
  have hins : ((pre ++ ys ++ post).erase x).insertIdx (slotOf (pre ++ ys ++ post) (pre ++ ys).length x) x
      = pre.erase x ++ (ys ++ [x]) ++ post.erase x := by
    rw [hslot, herase, insertIdx_append_length]
    simp
  refine ⟨hins, ?_⟩
  rw [hins]
  have hnotin : x ∉ pre.erase x ++ ys := by
    intro hm
    rcases List.mem_append.mp hm with h1 | h1
    · have hndp : pre.Nodup := by
        have := List.nodup_append.mp hnd
        exact (List.nodup_append.mp this.1).1
      exact (List.Nodup.mem_erase_iff hndp).mp h1 |>.1 rfl
    · exact hx h1
  rw [show pre.erase x ++ (ys ++ [x]) ++ post.erase x = (pre.erase x ++ ys) ++ (x :: post.erase x) by simp]
  rw [List.idxOf_append]
  simp [hnotin]

end BS.Heap

namespace BS.Heap

theorem idxOf?_append_cons_of_not_mem : ∀ (l₁ l₂ : List Nat) (x : Nat), x ∉ l₁ →
    (l₁ ++ x :: l₂).idxOf? x = some l₁.length := by
  intro l₁
  induction l₁ with
  | nil => intro l₂ x _; simp [List.idxOf?_cons]
  | cons a l ih =>
    intro l₂ x hx
    have hax : a ≠ x := fun h => hx (by simp [h])
    have hxl : x ∉ l := fun h => hx (by simp [h])
    simp only [List.cons_append, List.idxOf?_cons, beq_iff_eq, hax, if_false, ih l₂ x hxl]
    simp

theorem good_kids_nodup {h : Heap} (hg : Good h) (n : Nat) : (h.kids n).Nodup := by
  obtain ⟨w, hwf⟩ := hg
  have ht := hwf.tiles n
  generalize h.kids n = ks at ht
  generalize w.pos n + 1 = s at ht
  generalize w.pos n + w.size n = e at ht
  induction ks generalizing s with
  | nil => exact List.nodup_nil
  | cons a l ih =>
    obtain ⟨ha, ha1, hr⟩ := ht
    refine List.nodup_cons.mpr ⟨?_, ih _ hr⟩
    intro hm
    have := tiles_mem _ _ _ _ _ hr a hm
    omega

theorem filter_erase_nodup {l : List Nat} (hnd : l.Nodup) (x : Nat) (xs : List Nat) :
    (l.erase x).filter (fun k => !xs.contains k) = l.filter (fun k => !(x :: xs).contains k) := by
  rw [List.Nodup.erase_eq_filter hnd, List.filter_filter]
  apply List.filter_congr
  intro k _
  simp only [List.contains_cons, Bool.not_or]
  cases hkx : k == x <;> simp_all [bne]

section contig
variable (hE : ExtractSpec) (hL : LinkChildSpec)
include hE hL

/-- **Contiguity of a multi-element insertion.** If `p`'s children are `pre ++ ys ++ post`, the running
    position stands right after the block `ys`, and the distinct elements `xs` (none of them in `ys`) are inserted
    by the loop of `Tag.insert`, then afterwards `p`'s children are `pre' ++ ys ++ xs ++ post'`, where `pre'`,
    `post'` are `pre`, `post` without the elements of `xs`: the inserted elements are contiguous, in the requested
    order, right where the block was, and the other children keep their order. -/
theorem insertElems_contiguous {p : Nat} : ∀ (xs : List Nat) (h : Heap) (pos : Nat) (h' : Heap) (pos' : Nat)
    (pre ys post : List Nat),
    Good2 h → (h.kind p).isTag = true → xs.Nodup → (∀ x ∈ xs, h.kind x ≠ .soup) → (∀ x ∈ xs, x ∉ ys) →
    h.kids p = pre ++ ys ++ post → pos = (pre ++ ys).length →
    insertElems h p pos xs = .ok (h', pos') →
    h'.kids p = pre.filter (fun k => !xs.contains k) ++ (ys ++ xs) ++ post.filter (fun k => !xs.contains k) ∧
    pos' = (pre.filter (fun k => !xs.contains k) ++ (ys ++ xs)).length := by
  intro xs
  induction xs with
  | nil =>
    intro h pos h' pos' pre ys post _ _ _ _ _ hk hpos hi
    simp only [insertElems] at hi; cases hi
    have ft : ∀ l : List Nat, l.filter (fun _ => true) = l := fun l => List.filter_eq_self.mpr (fun _ _ => rfl)
    simp [hk, hpos, ft]
  | cons x xs ih =>
    intro h pos h' pos' pre ys post hg hp hnd hkx hxy hk hpos hi
    simp only [insertElems] at hi
    cases hc : insertCore h p pos x with
    | error e => simp only [hc] at hi; cases hi
    | ok h1 =>
      simp only [hc] at hi
      obtain ⟨hg1, hk1⟩ := insertCore_good2 hE hL hg hp (hkx x (by simp)) hc
      obtain ⟨hshape, _, _⟩ := insertCore_shape hE hL hg.1 hp (hkx x (by simp)) hc
      have hndk : (pre ++ ys ++ post).Nodup := by rw [← hk]; exact good_kids_nodup hg.1 p
      obtain ⟨hb1, hb2⟩ := block_step pre ys post x hndk (hxy x (by simp))
      rw [hk, hpos] at hshape
      rw [hb1] at hshape
      -- the index of x in the new list
      have hnotin : x ∉ pre.erase x ++ ys := by
        intro hm
        rcases List.mem_append.mp hm with h1' | h1'
        · have hndp : pre.Nodup := (List.nodup_append.mp (List.nodup_append.mp hndk).1).1
          exact ((List.Nodup.mem_erase_iff hndp).mp h1').1 rfl
        · exact hxy x (by simp) h1'
      have hidx : indexOf h1 p x = some (pre.erase x ++ ys).length := by
        unfold indexOf
        rw [hshape]
        rw [show pre.erase x ++ (ys ++ [x]) ++ post.erase x = (pre.erase x ++ ys) ++ x :: post.erase x by simp]
        exact idxOf?_append_cons_of_not_mem _ _ _ hnotin
      simp only [hidx] at hi
      have hndpre : pre.Nodup := (List.nodup_append.mp (List.nodup_append.mp hndk).1).1
      have hndpost : post.Nodup := (List.nodup_append.mp hndk).2.1
      have := ih h1 _ h' pos' (pre.erase x) (ys ++ [x]) (post.erase x) hg1 (by rw [hk1.1 p]; exact hp)
        (List.nodup_cons.mp hnd).2
        (fun y hy hs => hkx y (by simp [hy]) ((hk1.2 y).mp hs))
        (fun y hy hm => by
          rcases List.mem_append.mp hm with h1' | h1'
          · exact hxy y (by simp [hy]) h1'
          · simp only [List.mem_singleton] at h1'; subst h1'; exact (List.nodup_cons.mp hnd).1 hy)
        hshape (by simp only [List.length_append, List.length_cons, List.length_nil]; omega) hi
      rw [filter_erase_nodup hndpre, filter_erase_nodup hndpost] at this
      refine ⟨by rw [this.1]; simp, by rw [this.2]; simp⟩

end contig
end BS.Heap
