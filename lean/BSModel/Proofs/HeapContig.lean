import BSModel.Proofs.HeapShape
/-! C02: several elements inserted by one call end up contiguous and in order (the slot arithmetic of
    `Tag.insert`: "next slot = index of the last inserted element + 1") -/
namespace BS.Heap

theorem erase_append_of_not_mem_left {l₁ l₂ : List Nat} {x : Nat} (h : x ∉ l₁) :
    (l₁ ++ l₂).erase x = l₁ ++ l₂.erase x := by
  rw [List.erase_append]; simp [h]

theorem erase_append_of_mem_left {l₁ l₂ : List Nat} {x : Nat} (h : x ∈ l₁) :
    (l₁ ++ l₂).erase x = l₁.erase x ++ l₂ := by
  rw [List.erase_append]; simp [h]

theorem insertIdx_append_length (l₁ l₂ : List Nat) (x : Nat) :
    (l₁ ++ l₂).insertIdx l₁.length x = l₁ ++ x :: l₂ := by
  induction l₁ with
  | nil => simp
  | cons a l ih => simp [ih]

/-- one step of the loop on a children list that already holds the block `ys` at `pre.length` -/
theorem block_step (pre ys post : List Nat) (x : Nat) (hnd : (pre ++ ys ++ post).Nodup) (hx : x ∉ ys) :
    ((pre ++ ys ++ post).erase x).insertIdx (slotOf (pre ++ ys ++ post) (pre ++ ys).length x) x
      = pre.erase x ++ (ys ++ [x]) ++ post.erase x ∧
    (((pre ++ ys ++ post).erase x).insertIdx (slotOf (pre ++ ys ++ post) (pre ++ ys).length x) x).idxOf x
      = (pre.erase x ++ ys).length := by
  have hslot : slotOf (pre ++ ys ++ post) (pre ++ ys).length x = (pre.erase x ++ ys).length := by
    unfold slotOf
    rw [List.take_left']
    · by_cases hp : x ∈ pre
      · rw [erase_append_of_mem_left hp]
      · rw [erase_append_of_not_mem_left hp, List.erase_of_not_mem hx, List.erase_of_not_mem hp]
    · rfl
  have herase : (pre ++ ys ++ post).erase x = pre.erase x ++ ys ++ post.erase x := by
    by_cases hp : x ∈ pre
    · have hnpost : x ∉ post := by
        intro hpo
        have := List.nodup_append.mp hnd
        exact this.2.2 x (by simp [hp]) x hpo rfl
      rw [List.append_assoc, erase_append_of_mem_left hp, List.erase_of_not_mem hnpost, List.append_assoc]
    · rw [List.append_assoc, erase_append_of_not_mem_left hp, erase_append_of_not_mem_left hx,
        List.erase_of_not_mem hp, List.append_assoc]
  have hins : ((pre ++ ys ++ post).erase x).insertIdx (slotOf (pre ++ ys ++ post) (pre ++ ys).length x) x
      = pre.erase x ++ (ys ++ [x]) ++ post.erase x := by
    rw [hslot, herase, insertIdx_append_length]
    simp
  refine ⟨hins, ?_⟩
  rw [hins]
  have hnotin : x ∉ pre.erase x ++ ys := by
    intro hm
    rcases List.mem_append.mp hm with h1 | h1
    · have hndp : pre.Nodup := by
        have := List.nodup_append.mp hnd
        exact (List.nodup_append.mp this.1).1
      exact (List.Nodup.mem_erase_iff hndp).mp h1 |>.1 rfl
    · exact hx h1
  rw [show pre.erase x ++ (ys ++ [x]) ++ post.erase x = (pre.erase x ++ ys) ++ (x :: post.erase x) by simp]
  rw [List.idxOf_append]
  simp [hnotin]

end BS.Heap
