import BSModel.Model.HeapCopy
import BSModel.Proofs.HeapOps
import BSModel.Proofs.HeapExtract
import BSModel.Proofs.HeapLink
import BSModel.Proofs.HeapIter
import BSModel.Proofs.HeapDecompose
import BSModel.Proofs.HeapEffects
/-! # Copies at the pointer level: the step lemma

`alloc` of ANY kind keeps the nested-set invariant (the fresh id is an isolated one-node tree whatever its class), and
`tag.append(fresh)` — the only linking statement of `__deepcopy__` — is `linkChild` at the end of the tag's children with the paste
witness; everything outside the tag's tree keeps all six link fields (`append_leaf_spec`, `append_leaf_frame`). Core Lean only. -/
namespace BS.Heap

/-! ### allocation of an object of any class -/

/-- `alloc_wf` without its (unused) restriction on the kind: a fresh Tag or BeautifulSoup object is an isolated node too -/
theorem alloc_wf_any {h : Heap} {w : Wit} (hwf : WF h w) (k : Kind) (v : PStr) : WF (alloc h k v).1 w := by
  have hf := hwf.fresh h.next (Nat.le_refl _)
  constructor
  · exact hwf.size_pos
  · exact hwf.size_cap
  · intro n hn
    simp only [alloc] at hn ⊢
    by_cases hnn : n = h.next
    · subst hnn; exact hf.2.1
    · simp only [hnn, if_false] at hn; exact hwf.str_leaf n hn
  · exact hwf.tiles
  · exact hwf.kid_parent
  · exact hwf.kid_tree
  · exact hwf.parent_kid
  · exact hwf.root_tree
  · exact hwf.tree_root
  · exact hwf.bound
  · exact hwf.inj
  · exact hwf.laminar
  · exact hwf.chain_ne
  · exact hwf.chain_pe
  · exact hwf.sib_ns
  · exact hwf.sib_ps
  · intro r hr
    have := hwf.unl_soup r hr
    simp only [alloc]
    by_cases hrn : r = h.next
    · subst hrn; rw [hf.2.2] at hr; cases hr
    · simp only [hrn, if_false]; exact this
  · intro n hn
    simp only [alloc] at hn ⊢
    by_cases hnn : n = h.next
    · subst hnn; exact hf.1
    · simp only [hnn, if_false] at hn; exact hwf.soup_root n hn
  · intro n hn
    simp only [alloc] at hn ⊢
    exact hwf.fresh n (by omega)

/-- what `Good2` needs of an allocation instead of `KSame` (which a fresh *tag* does not satisfy: the id was a string by convention):
    the forest stays consistent, ids from the new `next` on are still strings, and no EXISTING id changes class or text -/
theorem alloc_good2_any {h : Heap} (hg : Good2 h) (k : Kind) (v : PStr) :
    Good2 (alloc h k v).1 ∧ (∀ n, n ≠ h.next → (alloc h k v).1.kind n = h.kind n ∧ (alloc h k v).1.val n = h.val n) ∧
    (alloc h k v).1.kind h.next = k ∧ (alloc h k v).1.val h.next = v ∧ (alloc h k v).1.next = h.next + 1 := by
  obtain ⟨⟨w, hwf⟩, hstr⟩ := hg
  refine ⟨⟨⟨w, alloc_wf_any hwf k v⟩, ?_⟩, ?_, by simp [alloc], by simp [alloc], rfl⟩
  · intro n hn
    simp only [alloc] at hn ⊢
    have : n ≠ h.next := by omega
    simp only [this, if_false]
    exact hstr n (by omega)
  · intro n hn; simp [alloc, hn]

/-! ### a fresh node is a one-node tree of the witness -/

theorem wf_leaf_root {h : Heap} {w : Wit} (hwf : WF h w) {c : Nat} (hp : h.parent c = none) (hk : h.kids c = []) :
    w.tree c = c ∧ w.pos c = 0 ∧ w.size c = 1 ∧ ∀ m, w.tree m = c → m = c := by
  have hr := hwf.root_tree c hp
  have ht := hwf.tiles c
  rw [hk] at ht
  simp only [Tiles] at ht
  have hs : w.size c = 1 := by omega
  refine ⟨hr.1, hr.2, hs, ?_⟩
  intro m hm
  have hb := hwf.bound m
  have hsm := hwf.size_pos m
  rw [hm, hs] at hb
  exact hwf.inj m c (by rw [hm, hr.1]) (by omega)

theorem opt_ext {a b : Option Nat} (h : ∀ x, a = some x ↔ b = some x) : a = b := by
  cases a with
  | none =>
    cases b with
    | none => rfl
    | some y => exact absurd ((h y).mpr rfl) (by simp)
  | some x => exact ((h x).mp rfl).symm

/-! ### `tag.append(fresh)` -/

/-- `p.append(c)` for a parentless non-BeautifulSoup `c`, read off the call chain `append → insert → _insert`: it IS the linking
    part of `_insert` at the end of `p`'s children, and the guards that let it return say `c ≠ p`, `p` is a tag, `p` is not beneath `c`,
    and both are allocated -/
theorem append_root_is_linkChild {h h' : Heap} {p c : Nat} (hc : h.parent c = none) (hks : h.kind c ≠ .soup)
    (hs : step h (.append p (.node c)) = .ok h') :
    (h.kind p).isTag = true ∧ c ≠ p ∧ isAnc h c h.cap p = false ∧ c < h.next ∧ p < h.next ∧
    linkChild h p (h.kids p).length c = .ok h' := by
  simp only [step] at hs
  split at hs
  · rename_i hp
    have hcore := append_insertCore hks hs
    unfold insertCore at hcore
    split at hcore
    · cases hcore
    · rename_i hcp
      split at hcore
      · cases hcore
      · rename_i hguard
        have hguard : isAnc h c h.cap p = false ∧ c < h.next ∧ p < h.next := by
          simp only [not_or, Nat.not_le, Bool.not_eq_true] at hguard; exact hguard
        simp only [hc, Nat.min_self] at hcore
        exact ⟨hp, hcp, hguard.1, hguard.2.1, hguard.2.2, hcore⟩
  · cases hs

/-- **the step of the copy loop.** Appending a parentless leaf `c` (not a BeautifulSoup object) to `p`: the paste witness with `c` at
    the very end of `p`'s interval; `c` becomes the last child of `p`; no other children list, no other parent field, no class, no text
    and not the allocation counter change; and every element outside `p`'s tree (other than `c`) keeps all of its link fields -/
theorem append_leaf_spec {h h' : Heap} {w : Wit} {p c : Nat} (hwf : WF h w) (hc : h.parent c = none) (hkc : h.kids c = [])
    (hks : h.kind c ≠ .soup) (hs : step h (.append p (.node c)) = .ok h') :
    WF h' (pasteWit w c p (w.pos p + w.size p)) ∧ w.tree p ≠ c ∧ (h.kind p).isTag = true ∧ p < h.next ∧ c < h.next ∧
    (∀ n, h'.kids n = if n = p then h.kids p ++ [c] else h.kids n) ∧
    (∀ n, h'.parent n = if n = c then some p else h.parent n) ∧
    h'.kind = h.kind ∧ h'.val = h.val ∧ h'.next = h.next := by
  obtain ⟨hp, hcp, hanc, hcn, hpn, hl⟩ := append_root_is_linkChild hc hks hs
  obtain ⟨htc, hpc0, hsc, honly⟩ := wf_leaf_root hwf hc hkc
  have hnin := isAnc_false_not_inSub hwf hanc
  have htree : w.tree p ≠ c := by
    intro hcc
    apply hnin
    have := wf_pos_lt hwf p
    rw [hcc, hsc] at this
    exact ⟨by rw [hcc, htc], by omega, by omega⟩
  obtain ⟨h2, h2e, hwf2, hk2, hp2, hkind, hval, hnext⟩ :=
    linkChild_spec h w p (h.kids p).length c hwf hc hks hp htree (Nat.le_refl _) hcn hpn
  rw [h2e] at hl; cases hl
  have hb := (boundary_spec w.pos w.size (h.kids p) (w.pos p + 1) (w.pos p + w.size p) (h.kids p).length (hwf.tiles p)
    (Nat.le_refl _)).2.1 rfl
  rw [hb] at hwf2
  refine ⟨hwf2, htree, hp, hpn, hcn, ?_, hp2, hkind, hval, hnext⟩
  intro n
  rw [hk2 n]
  by_cases hn : n = p
  · simp only [hn, if_true]; exact List.insertIdx_length_self
  · simp only [hn, if_false]

/-- **frame of the step**: an element `a` outside `p`'s tree (and other than `c`) keeps all four sibling/element links (its parent and
    children are in `append_leaf_spec`'s closed forms), its tree, its position and its size in the witness -/
theorem append_leaf_frame {h h' : Heap} {w : Wit} {p c : Nat} {P : Nat} (hwf : WF h w) (hwf' : WF h' (pasteWit w c p P))
    (hc : h.parent c = none) (hkc : h.kids c = [])
    (hpar : ∀ n, h'.parent n = if n = c then some p else h.parent n)
    {a : Nat} (hat : w.tree a ≠ w.tree p) (hac : a ≠ c) :
    h'.ne a = h.ne a ∧ h'.pe a = h.pe a ∧ h'.ns a = h.ns a ∧ h'.ps a = h.ps a := by
  obtain ⟨htc, hpc0, hsc, honly⟩ := wf_leaf_root hwf hc hkc
  have hta : w.tree a ≠ c := fun hh => hac (honly a hh)
  have hap : a ≠ p := fun hh => hat (by rw [hh])
  -- nodes sharing a parent share a tree
  have hsib : ∀ x y q, h.parent x = some q → h.parent y = some q → w.tree x = w.tree y := by
    intro x y q hx hy
    rw [(wf_parent_pos hwf hx).1, (wf_parent_pos hwf hy).1]
  have hkidp : ∀ x, h.parent x = some p → w.tree x = w.tree p := fun x hx => (wf_parent_pos hwf hx).1
  refine ⟨?_, ?_, ?_, ?_⟩
  · apply opt_ext; intro b
    rw [hwf'.chain_ne, hwf.chain_ne]
    simp only [pasteWit]
    by_cases hb : w.tree b = c
    · grind
    · by_cases hb2 : w.tree b = w.tree p <;> grind
  · apply opt_ext; intro b
    rw [hwf'.chain_pe, hwf.chain_pe]
    simp only [pasteWit]
    by_cases hb : w.tree b = c
    · grind
    · by_cases hb2 : w.tree b = w.tree p <;> grind
  · apply opt_ext; intro b
    rw [hwf'.sib_ns, hwf.sib_ns]
    simp only [pasteWit, hpar]
    by_cases hb : b = c
    · subst hb
      simp only [hac, if_false, if_true, hc]
      constructor
      · rintro ⟨⟨q, h1, h2⟩, _⟩
        cases h2
        exact absurd (hkidp a h1) hat
      · rintro ⟨⟨q, _, h2⟩, _⟩; cases h2
    · have := hsib a b
      by_cases hb1 : w.tree b = c
      · exact absurd (honly b hb1) hb
      · grind
  · apply opt_ext; intro b
    rw [hwf'.sib_ps, hwf.sib_ps]
    simp only [pasteWit, hpar]
    by_cases hb : b = c
    · subst hb
      simp only [hac, if_false, if_true, hc]
      constructor
      · rintro ⟨⟨q, h1, h2⟩, _⟩
        cases h1
        exact absurd (hkidp a h2) hat
      · rintro ⟨⟨q, h1, _⟩, _⟩; cases h1
    · have := hsib b a
      by_cases hb1 : w.tree b = c
      · exact absurd (honly b hb1) hb
      · grind

end BS.Heap
