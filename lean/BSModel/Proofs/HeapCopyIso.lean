import BSModel.Proofs.HeapCopySpec
/-! # The loop of `__deepcopy__`: the source side of its invariant

`SInv`: the open SOURCE tags on the stack are exactly the proper ancestors, strictly inside `x`, of the next element of
`self.descendants`, innermost on top, each paired with its own clone — so after `_event_stream`'s closing loop the top of the stack is
the parent of the next element (or the stack is empty and the parent is `x`), and `tag_stack[-1].append(clone)` links the clone under
the clone of that parent. Positions refer to the witness `w0` of the heap BEFORE the copy. Core Lean only. -/
namespace BS.Heap

theorem popClosed_none_match (a : Nat) : ∀ (st : List (Nat × Nat)), (∀ e ∈ st, e.1 ≠ a) → popClosed (some a) st = [] := by
  intro st
  induction st with
  | nil => intro _; rfl
  | cons e st ih =>
    intro hall
    obtain ⟨s, c⟩ := e
    have hs : a ≠ s := fun hh => hall (s, c) (by simp) hh.symm
    simp only [popClosed, Option.some.injEq, hs, if_false]
    exact ih (fun e he => hall e (by simp [he]))

theorem popClosed_found (pos : Nat → Nat) (a t : Nat) : ∀ (st : List (Nat × Nat)),
    st.Pairwise (fun e1 e2 => pos e2.1 < pos e1.1) → (a, t) ∈ st →
    ∃ pre rest, st = pre ++ (a, t) :: rest ∧ popClosed (some a) st = (a, t) :: rest ∧ ∀ e ∈ pre, pos a < pos e.1 := by
  intro st
  induction st with
  | nil => intro _ hm; cases hm
  | cons e st ih =>
    intro hp hm
    obtain ⟨s, c⟩ := e
    obtain ⟨hhead, htail⟩ := List.pairwise_cons.mp hp
    by_cases hs : a = s
    · subst hs
      have : t = c := by
        rcases List.mem_cons.mp hm with heq | hin
        · cases heq; rfl
        · have := hhead (a, t) hin; simp at this
      subst this
      exact ⟨[], st, rfl, by simp [popClosed], fun e he => by cases he⟩
    · have hin : (a, t) ∈ st := by
        rcases List.mem_cons.mp hm with heq | hin
        · cases heq; exact absurd rfl hs
        · exact hin
      obtain ⟨pre, rest, h1, h2, h3⟩ := ih htail hin
      refine ⟨(s, c) :: pre, rest, by rw [h1]; rfl, ?_, ?_⟩
      · simp only [popClosed, Option.some.injEq, hs, if_false]; exact h2
      · intro e he
        rcases List.mem_cons.mp he with rfl | hin'
        · exact hhead (a, t) hin
        · exact h3 e hin'

structure SInv (h0 : Heap) (w0 : Wit) (x N0 : Nat) (h : Heap) (st : List (Nat × Nat)) (srcs : List Nat) : Prop where
  src : ∀ e ∈ st, w0.tree e.1 = w0.tree x ∧ w0.pos x < w0.pos e.1 ∧ w0.pos e.1 < w0.pos x + srcs.length ∧
    e.2 = N0 + (w0.pos e.1 - w0.pos x)
  complete : ∀ a, w0.tree a = w0.tree x → w0.pos x < w0.pos a → w0.pos a < w0.pos x + srcs.length →
    w0.pos x + srcs.length < w0.pos a + w0.size a → (a, N0 + (w0.pos a - w0.pos x)) ∈ st
  sorted : st.Pairwise (fun e1 e2 => w0.pos e2.1 < w0.pos e1.1)
  par : ∀ i d, srcs[i]? = some d → 1 ≤ i →
    ∃ π, h0.parent d = some π ∧ h.parent (N0 + i) = some (N0 + (w0.pos π - w0.pos x))

theorem sinv_init (h0 : Heap) (w0 : Wit) (x N0 : Nat) (h : Heap) : SInv h0 w0 x N0 h [] [x] := by
  constructor
  · intro e he; cases he
  · intro a _ h1 h2 _; simp at h2; omega
  · exact List.Pairwise.nil
  · intro i d hi h1
    cases i with
    | zero => omega
    | succ i => simp at hi

theorem sinv_step {h0 : Heap} {w0 : Wit} {x N0 : Nat} {h h2 : Heap} {w : Wit} {st st2 : List (Nat × Nat)} {srcs : List Nat}
    {d : Nat} (hwf0 : WF h0 w0) (inv : CInv h0 N0 h w st srcs) (sinv : SInv h0 w0 x N0 h st srcs)
    (hd : d < N0) (hds : h0.kind d ≠ .soup) (hin : w0.inSub x d) (hposd : w0.pos d = w0.pos x + srcs.length)
    (hlen1 : 1 ≤ srcs.length) (hs : copyStep h N0 st d = .ok (h2, st2)) :
    SInv h0 w0 x N0 h2 st2 (srcs ++ [d]) := by
  unfold copyStep at hs
  have hpd : h.parent d = h0.parent d := (inv.frame d hd).1
  have hkd : h.kind d = h0.kind d := (inv.frame d hd).2.2.2.2.2.2.1
  rw [hpd] at hs
  -- the parent of `d`
  have hxd : x ≠ d := by intro hh; subst hh; omega
  obtain ⟨π, hπ⟩ : ∃ π, h0.parent d = some π := by
    cases hp : h0.parent d with
    | none => have := (hwf0.root_tree d hp).2; omega
    | some π => exact ⟨π, rfl⟩
  have hπin : w0.inSub x π := (inSub_parent hwf0 hπ x).mp ⟨hxd, hin⟩
  have hπd := wf_parent_pos' hwf0 hπ
  have hszd := hwf0.size_pos d
  rw [hπ] at hs
  generalize hst1 : popClosed (some π) st = st1 at hs
  have hsuf : st1 <:+ st := by rw [← hst1]; exact popClosed_suffix _ _
  have hmem : ∀ e ∈ st1, e ∈ st := fun e he => hsuf.subset he
  -- what the closing loop leaves: the clone of `π` on top, and everything at or above `π` in the tree still open
  have hpop : topClone N0 st1 = N0 + (w0.pos π - w0.pos x) ∧
      ∀ a t, (a, t) ∈ st → w0.pos a ≤ w0.pos π → (a, t) ∈ st1 := by
    by_cases hπx : π = x
    · subst hπx
      have : st1 = [] := by
        rw [← hst1]; apply popClosed_none_match
        intro e he hh
        have := (sinv.src e he).2.1
        rw [hh] at this; omega
      rw [this]
      refine ⟨by simp [topClone], ?_⟩
      intro a t hat hle
      have := (sinv.src (a, t) hat).2.1
      simp only at this; omega
    · have hlt : w0.pos x < w0.pos π := by
        rcases Nat.lt_or_ge (w0.pos x) (w0.pos π) with hh | hh
        · exact hh
        · exact absurd (hwf0.inj π x hπin.1 (by have := hπin.2.1; omega)) hπx
      have hon := sinv.complete π hπin.1 hlt (by omega) (by omega)
      obtain ⟨pre, rest, h1, h2', h3⟩ := popClosed_found w0.pos π _ st sinv.sorted hon
      rw [h2'] at hst1
      refine ⟨by rw [← hst1]; rfl, ?_⟩
      intro a t hat hle
      rw [h1] at hat
      rcases List.mem_append.mp hat with hpre | hrest
      · have := h3 (a, t) hpre; simp only at this; omega
      · rw [← hst1]; exact hrest
  cases hap : step (alloc h (h.kind d) (h.val d)).1 (.append (topClone N0 st1) (.node h.next)) with
  | error e => simp only [hap] at hs; cases hs
  | ok h2' =>
    simp only [hap, Except.ok.injEq, Prod.mk.injEq] at hs
    obtain ⟨e1, e2⟩ := hs
    subst e1 e2
    have hf := inv.wf.fresh h.next (Nat.le_refl _)
    have hwf1 : WF (alloc h (h.kind d) (h.val d)).1 w := alloc_wf_any inv.wf _ _
    have hks : (alloc h (h.kind d) (h.val d)).1.kind h.next ≠ .soup := by simp [alloc, hkd]; exact hds
    obtain ⟨_, _, _, _, _, _, hpar, _, _, _⟩ := append_leaf_spec hwf1 hf.1 hf.2.1 hks hap
    have hlen := inv.len
    have hlt := inv.lt
    have hc : h.next = N0 + (w0.pos d - w0.pos x) := by omega
    constructor
    · -- src
      have hold : ∀ e ∈ st1, w0.tree e.1 = w0.tree x ∧ w0.pos x < w0.pos e.1 ∧
          w0.pos e.1 < w0.pos x + (srcs ++ [d]).length ∧ e.2 = N0 + (w0.pos e.1 - w0.pos x) := by
        intro e he
        have := sinv.src e (hmem e he)
        refine ⟨this.1, this.2.1, ?_, this.2.2.2⟩
        rw [List.length_append]; simp only [List.length_singleton]; omega
      intro e he
      split at he
      · rcases List.mem_cons.mp he with rfl | hin'
        · refine ⟨hin.1, ?_, ?_, hc⟩
          · show w0.pos x < w0.pos d; omega
          · show w0.pos d < w0.pos x + (srcs ++ [d]).length
            rw [List.length_append]; simp only [List.length_singleton]; omega
        · exact hold e hin'
      · exact hold e he
    · -- complete
      intro a hta h1 h2 h3
      rw [List.length_append] at h2 h3; simp only [List.length_singleton] at h2 h3
      by_cases had : w0.pos a = w0.pos x + srcs.length
      · have : a = d := hwf0.inj a d (by rw [hta, hin.1]) (by omega)
        subst this
        have htag : (h.kind a).isTag = true := by
          rw [hkd]
          cases hk : (h0.kind a).isTag with
          | true => rfl
          | false =>
            have hkk := hwf0.str_leaf a hk
            have ht := hwf0.tiles a
            rw [hkk] at ht; simp only [Tiles] at ht; omega
        simp only [htag, if_true]
        rw [← hc]; exact List.mem_cons_self
      · have hina : w0.inSub a d := ⟨by rw [hin.1, hta], by omega, by omega⟩
        have had' : a ≠ d := by intro hh; subst hh; omega
        have hinπ := (inSub_parent hwf0 hπ a).mp ⟨had', hina⟩
        have hon := sinv.complete a hta h1 (by omega) (by omega)
        have := hpop.2 a _ hon hinπ.2.1
        split
        · exact List.mem_cons_of_mem _ this
        · exact this
    · -- sorted
      have hs1 : st1.Pairwise (fun e1 e2 => w0.pos e2.1 < w0.pos e1.1) := sinv.sorted.sublist hsuf.sublist
      split
      · refine List.pairwise_cons.mpr ⟨?_, hs1⟩
        intro e he
        have := (sinv.src e (hmem e he)).2.2.1
        show w0.pos e.1 < w0.pos d
        omega
      · exact hs1
    · -- par
      intro i d' hi h1
      rw [hpar]
      by_cases hlt' : i < srcs.length
      · rw [List.getElem?_append_left hlt'] at hi
        obtain ⟨π', hp1, hp2⟩ := sinv.par i d' hi h1
        have hne : N0 + i ≠ h.next := by omega
        simp only [hne, if_false]
        exact ⟨π', hp1, hp2⟩
      · have hge : srcs.length ≤ i := by omega
        rw [List.getElem?_append_right hge] at hi
        have hi0 : i - srcs.length = 0 := by
          cases hx : i - srcs.length with
          | zero => rfl
          | succ n => rw [hx] at hi; simp at hi
        rw [hi0] at hi
        simp at hi; subst hi
        have heq : N0 + i = h.next := by omega
        simp only [heq, if_true]
        exact ⟨π, hπ, by rw [hpop.1]⟩

theorem copyLoop_sinv {h0 : Heap} {w0 : Wit} {x N0 : Nat} (hwf0 : WF h0 w0) :
    ∀ (ds : List Nat) (h h' : Heap) (w : Wit) (st : List (Nat × Nat)) (srcs : List Nat),
    CInv h0 N0 h w st srcs → SInv h0 w0 x N0 h st srcs → 1 ≤ srcs.length →
    (∀ d ∈ ds, d < N0 ∧ h0.kind d ≠ .soup) →
    (∀ i d, (srcs ++ ds)[i]? = some d → w0.tree d = w0.tree x ∧ w0.pos d = w0.pos x + i) →
    (srcs ++ ds).length ≤ w0.size x →
    copyLoop N0 h st ds = .ok h' →
    ∃ w' st', CInv h0 N0 h' w' st' (srcs ++ ds) ∧ SInv h0 w0 x N0 h' st' (srcs ++ ds) := by
  intro ds
  induction ds with
  | nil =>
    intro h h' w st srcs inv sinv _ _ _ _ hl
    simp only [copyLoop] at hl; cases hl
    exact ⟨w, st, by simpa using inv, by simpa using sinv⟩
  | cons d ds ih =>
    intro h h' w st srcs inv sinv hlen1 hds hall hsz hl
    simp only [copyLoop] at hl
    cases hs : copyStep h N0 st d with
    | error e => simp only [hs] at hl; cases hl
    | ok r =>
      obtain ⟨h1, st1⟩ := r
      simp only [hs] at hl
      have hdd := hds d (by simp)
      obtain ⟨w1, inv1⟩ := cinv_step inv hdd.1 hdd.2 hs
      have hdpos := hall srcs.length d (by simp)
      have hin : w0.inSub x d := by
        refine ⟨hdpos.1, by omega, ?_⟩
        rw [List.length_append] at hsz; simp only [List.length_cons] at hsz; omega
      have sinv1 := sinv_step hwf0 inv sinv hdd.1 hdd.2 hin hdpos.2 hlen1 hs
      have heq : srcs ++ d :: ds = (srcs ++ [d]) ++ ds := by simp
      rw [heq] at hall hsz ⊢
      exact ih h1 h' w1 st1 (srcs ++ [d]) inv1 sinv1 (by simp) (fun e he => hds e (by simp [he])) hall hsz hl

/-- the element of the document order of `x` that stands at a given position of the witness -/
theorem docOrder_at {h : Heap} {w : Wit} (hwf : WF h w) (x : Nat) {π : Nat} (hin : w.inSub x π) :
    (docOrder h x)[w.pos π - w.pos x]? = some π := by
  have hsz : w.size x ≤ h.cap + 1 := by have := hwf.size_cap x; omega
  obtain ⟨hlen, hpos⟩ : (docOrder h x).length = w.size x ∧ ∀ j (hj : j < (docOrder h x).length),
      w.pos (docOrder h x)[j] = w.pos x + j ∧ w.tree (docOrder h x)[j] = w.tree x := pre_consec' hwf h.cap x hsz
  have hj : w.pos π - w.pos x < (docOrder h x).length := by rw [hlen]; have := hin.2.1; have := hin.2.2; omega
  rw [List.getElem?_eq_getElem hj]
  congr 1
  have := hpos _ hj
  exact hwf.inj _ _ (by rw [this.2, hin.1]) (by have := hin.2.1; omega)

/-- **the finished loop, both sides of the invariant**, for the witness `w` of the heap before the copy -/
theorem copy_invs {h h' : Heap} {w : Wit} {x c : Nat} (hwf : WF h w) (hstr : ∀ n, h.next ≤ n → h.kind n = .str)
    (hc : copy h x = .ok (h', c)) :
    ∃ w' st', CInv h h.next h' w' st' (docOrder h x) ∧ SInv h w x h.next h' st' (docOrder h x) := by
  have hsz : w.size x ≤ h.cap + 1 := by have := hwf.size_cap x; omega
  obtain ⟨hlen, hpos⟩ : (docOrder h x).length = w.size x ∧ ∀ j (hj : j < (docOrder h x).length),
      w.pos (docOrder h x)[j] = w.pos x + j ∧ w.tree (docOrder h x)[j] = w.tree x := pre_consec' hwf h.cap x hsz
  unfold copy at hc
  split at hc
  · obtain ⟨ds, hds, hdo, _⟩ := descendants_docOrder hwf x
    simp only [hds] at hc
    cases hl : copyLoop h.next (alloc h (h.kind x) (h.val x)).1 [] ds with
    | error e => simp only [hl] at hc; cases hc
    | ok h1 =>
      simp only [hl, Except.ok.injEq, Prod.mk.injEq] at hc
      obtain ⟨e1, e2⟩ := hc
      subst e1 e2
      have hold := docOrder_tail_old hwf x
      have heq : [x] ++ ds = docOrder h x := by rw [hdo]; rfl
      have hall : ∀ i d, ([x] ++ ds)[i]? = some d → w.tree d = w.tree x ∧ w.pos d = w.pos x + i := by
        intro i d hi
        rw [heq] at hi
        obtain ⟨hi', rfl⟩ := List.getElem?_eq_some_iff.mp hi
        have := hpos i hi'
        exact ⟨this.2, this.1⟩
      have hszl : ([x] ++ ds).length ≤ w.size x := by rw [heq]; omega
      obtain ⟨w', st', inv, sinv⟩ := copyLoop_sinv hwf ds _ _ w [] [x] (cinv_init hwf hstr x)
        (sinv_init h w x h.next _) (by simp) (fun d hd => hold d (by rw [hdo]; simpa using hd)) hall hszl hl
      rw [heq] at inv sinv
      exact ⟨w', st', inv, sinv⟩
  · rename_i hnt
    simp only [Except.ok.injEq, Prod.mk.injEq] at hc
    obtain ⟨e1, e2⟩ := hc
    subst e1 e2
    have hk : h.kids x = [] := hwf.str_leaf x (by simpa using hnt)
    have : docOrder h x = [x] := by unfold docOrder; cases h.cap <;> simp [pre, hk]
    rw [this]
    exact ⟨w, [], cinv_init hwf hstr x, sinv_init h w x h.next _⟩

/-- the `i`-th element of the document order of `x`, in the witness -/
theorem docOrder_elem {h : Heap} {w : Wit} (hwf : WF h w) (x : Nat) {i d : Nat} (hid : (docOrder h x)[i]? = some d) :
    w.inSub x d ∧ w.pos d = w.pos x + i ∧ i < w.size x := by
  have hsz : w.size x ≤ h.cap + 1 := by have := hwf.size_cap x; omega
  obtain ⟨hlen, hpos⟩ : (docOrder h x).length = w.size x ∧ ∀ j (hj : j < (docOrder h x).length),
      w.pos (docOrder h x)[j] = w.pos x + j ∧ w.tree (docOrder h x)[j] = w.tree x := pre_consec' hwf h.cap x hsz
  obtain ⟨hi', rfl⟩ := List.getElem?_eq_some_iff.mp hid
  have := hpos i hi'
  exact ⟨⟨this.2, by omega, by omega⟩, this.1, by omega⟩

/-- **parents correspond**: the parent of the clone of `d` is the clone of the parent of `d` -/
theorem copy_parents {h h' : Heap} {x c : Nat} (hg : Good2 h) (hc : copy h x = .ok (h', c)) :
    ∀ i d, 1 ≤ i → (docOrder h x)[i]? = some d →
      ∃ π j, h.parent d = some π ∧ (docOrder h x)[j]? = some π ∧ j < i ∧ h'.parent (h.next + i) = some (h.next + j) := by
  obtain ⟨⟨w, hwf⟩, hstr⟩ := hg
  obtain ⟨w', st', inv, sinv⟩ := copy_invs hwf hstr hc
  intro i d hi1 hid
  obtain ⟨π, hp1, hp2⟩ := sinv.par i d hid hi1
  obtain ⟨hind, hdpos, _⟩ := docOrder_elem hwf x hid
  have hxd : x ≠ d := by intro hh; subst hh; omega
  have hinπ := (inSub_parent hwf hp1 x).mp ⟨hxd, hind⟩
  have hπd := wf_parent_pos' hwf hp1
  exact ⟨π, w.pos π - w.pos x, hp1, docOrder_at hwf x hinπ, by omega, hp2⟩

/-! ### children lists correspond -/

theorem tiles_sorted (pos size : Nat → Nat) : ∀ (ks : List Nat) (s e : Nat), Tiles pos size ks s e →
    ks.Pairwise (fun a b => pos a < pos b) := by
  intro ks
  induction ks with
  | nil => intro _ _ _; exact List.Pairwise.nil
  | cons k ks ih =>
    intro s e ht
    obtain ⟨h1, h2, h3⟩ := ht
    refine List.pairwise_cons.mpr ⟨?_, ih _ _ h3⟩
    intro m hm
    have := tiles_mem pos size ks _ _ h3 m hm
    omega

/-- two lists strictly increasing in the same key with the same elements are equal -/
theorem sorted_ext (key : Nat → Nat) : ∀ (l1 l2 : List Nat), l1.Pairwise (fun a b => key a < key b) →
    l2.Pairwise (fun a b => key a < key b) → (∀ m, m ∈ l1 ↔ m ∈ l2) → l1 = l2 := by
  intro l1
  induction l1 with
  | nil =>
    intro l2 _ _ hm
    symm; apply List.eq_nil_iff_forall_not_mem.mpr
    intro a ha; exact absurd ((hm a).mpr ha) (by simp)
  | cons a l1 ih =>
    intro l2 h1 h2 hm
    cases l2 with
    | nil => exact absurd ((hm a).mp (by simp)) (by simp)
    | cons b l2 =>
      obtain ⟨ha, ht1⟩ := List.pairwise_cons.mp h1
      obtain ⟨hb, ht2⟩ := List.pairwise_cons.mp h2
      have hab : a = b := by
        rcases List.mem_cons.mp ((hm a).mp (by simp)) with h | h
        · exact h
        · rcases List.mem_cons.mp ((hm b).mpr (by simp)) with h' | h'
          · exact h'.symm
          · have := ha b h'; have := hb a h; omega
      subst hab
      congr 1
      apply ih l2 ht1 ht2
      intro m
      constructor
      · intro hm1
        rcases List.mem_cons.mp ((hm m).mp (List.mem_cons_of_mem _ hm1)) with h | h
        · subst h; have := ha m hm1; omega
        · exact h
      · intro hm2
        rcases List.mem_cons.mp ((hm m).mpr (List.mem_cons_of_mem _ hm2)) with h | h
        · subst h; have := hb m hm2; omega
        · exact h

/-- **children lists correspond** under `φ` = "element at index `j` of the source's document order ↦ `j`-th object allocated" -/
theorem copy_kids {h h' : Heap} {x c : Nat} (hg : Good2 h) (hc : copy h x = .ok (h', c)) :
    ∃ φ : Nat → Nat, (∀ j k, (docOrder h x)[j]? = some k → φ k = h.next + j) ∧
      ∀ i d, (docOrder h x)[i]? = some d → h'.kids (h.next + i) = (h.kids d).map φ := by
  obtain ⟨⟨w, hwf⟩, hstr⟩ := hg
  obtain ⟨w', st', inv, sinv⟩ := copy_invs hwf hstr hc
  obtain ⟨_, hroot, hdoc, hlen⟩ := cinv_final inv
  have hn : h'.next - h.next = w.size x := by
    rw [← inv.len]
    have hsz : w.size x ≤ h.cap + 1 := by have := hwf.size_cap x; omega
    exact (pre_consec' hwf h.cap x hsz).1
  have hlt := inv.lt
  refine ⟨fun k => h.next + (w.pos k - w.pos x), ?_, ?_⟩
  · intro j k hjk
    have := (docOrder_elem hwf x hjk).2.1
    show h.next + (w.pos k - w.pos x) = h.next + j
    omega
  · intro i d hid
    obtain ⟨hind, hdpos, hisz⟩ := docOrder_elem hwf x hid
    -- every child of `d` lies in the subtree of `x`, to the right of `d`
    have hkid : ∀ k, k ∈ h.kids d → w.inSub x k ∧ w.pos d < w.pos k := by
      intro k hk
      have h1 := wf_kid_lt hwf hk
      have h2 := hwf.kid_tree d k hk
      have h3 := hwf.laminar x d hind.1.symm hind.2.1 hind.2.2
      exact ⟨⟨by rw [h2, hind.1], by omega, by omega⟩, by omega⟩
    have hclonepos : ∀ k, k ∈ h.kids d → w'.pos (h.next + (w.pos k - w.pos x)) = w.pos k - w.pos x := by
      intro k hk
      obtain ⟨_, hk1, hk2⟩ := (hkid k hk).1
      rw [inv.clone_pos _ (by omega) (by omega)]; omega
    apply sorted_ext w'.pos
    · exact tiles_sorted _ _ _ _ _ (inv.wf.tiles (h.next + i))
    · rw [List.pairwise_map]
      refine (tiles_sorted _ _ _ _ _ (hwf.tiles d)).imp_of_mem ?_
      intro a b ha hb hab
      rw [hclonepos a ha, hclonepos b hb]
      have := (hkid a ha).1.2.1; have := (hkid b hb).1.2.1
      omega
    · intro m
      constructor
      · intro hm
        have hpm := inv.wf.kid_parent _ _ hm
        have htm : w'.tree m = h.next := by
          rw [inv.wf.kid_tree _ _ hm]; exact inv.clone_tree _ (by omega) (by omega)
        have hmem := (docOrder_mem inv.wf hroot m).mpr htm
        rw [hdoc, List.mem_range'_1] at hmem
        obtain ⟨i', rfl⟩ : ∃ i', m = h.next + i' := ⟨m - h.next, by omega⟩
        have hi'1 : 1 ≤ i' := by
          cases i' with
          | zero => rw [Nat.add_zero, hroot] at hpm; cases hpm
          | succ n => omega
        have hi'lt : i' < (docOrder h x).length := by rw [inv.len]; omega
        have hd' : (docOrder h x)[i']? = some (docOrder h x)[i'] := List.getElem?_eq_getElem hi'lt
        obtain ⟨π, hp1, hp2⟩ := sinv.par i' _ hd' hi'1
        obtain ⟨hind', hdpos', _⟩ := docOrder_elem hwf x hd'
        have hxd' : x ≠ (docOrder h x)[i'] := by intro hh; rw [← hh] at hdpos'; omega
        have hinπ := (inSub_parent hwf hp1 x).mp ⟨hxd', hind'⟩
        rw [hpm] at hp2
        have hπd : π = d := by
          apply hwf.inj π d (by rw [hinπ.1, hind.1])
          have := Option.some.inj hp2; have := hinπ.2.1; omega
        subst hπd
        refine List.mem_map.mpr ⟨(docOrder h x)[i'], hwf.parent_kid _ _ hp1, ?_⟩
        show h.next + (w.pos (docOrder h x)[i'] - w.pos x) = h.next + i'
        omega
      · intro hm
        obtain ⟨k, hk, rfl⟩ := List.mem_map.mp hm
        show h.next + (w.pos k - w.pos x) ∈ h'.kids (h.next + i)
        have hkk := hkid k hk
        have hkd := docOrder_at hwf x hkk.1
        obtain ⟨π, hp1, hp2⟩ := sinv.par _ k hkd (by omega)
        have : π = d := by
          have := hwf.kid_parent d k hk
          rw [this] at hp1; exact (Option.some.inj hp1).symm
        subst this
        apply inv.wf.parent_kid
        rw [hp2]
        congr 1
        omega

/-- **the isomorphism, assembled**: one map `φ` from the source's document order onto the clone's -/
theorem copy_iso {h h' : Heap} {x c : Nat} (hg : Good2 h) (hc : copy h x = .ok (h', c)) :
    ∃ φ : Nat → Nat, (∀ j k, (docOrder h x)[j]? = some k → φ k = h.next + j) ∧
      docOrder h' c = (docOrder h x).map φ ∧
      (∀ d, d ∈ docOrder h x → h'.kind (φ d) = h.kind d ∧ h'.val (φ d) = h.val d ∧ h'.kids (φ d) = (h.kids d).map φ) ∧
      (∀ d, d ∈ docOrder h x → d ≠ x → ∃ π, h.parent d = some π ∧ π ∈ docOrder h x ∧ h'.parent (φ d) = some (φ π)) := by
  obtain ⟨φ, hφ, hkids⟩ := copy_kids hg hc
  have hpar := copy_parents hg hc
  obtain ⟨rfl, w', st', inv⟩ := copy_cinv hg hc
  obtain ⟨_, hroot, hdoc, hlen⟩ := cinv_final inv
  refine ⟨φ, hφ, ?_, ?_, ?_⟩
  · apply List.ext_getElem
    · rw [hlen, List.length_map]
    · intro i h1 h2
      rw [List.getElem_map]
      have hi : i < (docOrder h x).length := by rw [← hlen]; exact h1
      rw [hφ i _ (List.getElem?_eq_getElem hi)]
      have : (docOrder h' h.next)[i]? = some (h.next + i) := by
        rw [hdoc, List.getElem?_range' (by rw [← inv.len]; exact hi)]; simp
      rw [List.getElem?_eq_getElem h1] at this
      exact Option.some.inj this
  · intro d hd
    obtain ⟨i, hi, rfl⟩ := List.getElem_of_mem hd
    have hid := List.getElem?_eq_getElem hi
    rw [hφ i _ hid]
    exact ⟨(inv.img i _ hid).1, (inv.img i _ hid).2, hkids i _ hid⟩
  · intro d hd hdx
    obtain ⟨i, hi, rfl⟩ := List.getElem_of_mem hd
    have hid := List.getElem?_eq_getElem hi
    have hi1 : 1 ≤ i := by
      cases i with
      | zero =>
        exfalso; apply hdx
        have h0 : (docOrder h x)[0]? = some x := by unfold docOrder; rw [pre_head]; rfl
        rw [hid] at h0; exact Option.some.inj h0
      | succ n => omega
    obtain ⟨π, j, hp1, hj, _, hp2⟩ := hpar i _ hi1 hid
    refine ⟨π, hp1, List.mem_of_getElem? hj, ?_⟩
    rw [hφ i _ hid, hφ j π hj]; exact hp2

end BS.Heap
