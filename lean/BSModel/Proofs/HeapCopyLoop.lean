import BSModel.Proofs.HeapCopy
/-! # The loop of `__deepcopy__`: its invariant

`CInv`: the clone under construction is ONE tree rooted at the first allocated id `N0`; its nodes are exactly the ids allocated since,
and they stand in document order in allocation order (`pos (N0 + i) = i`); the stack of open clones is the right spine of that tree
(every open clone's interval ends where the tree ends, deeper ones further right) — which is why `tag_stack[-1].append(…)` puts the next
clone at the very end of the document order; every id below `N0` (everything that existed before the copy) has every field it had.
Core Lean only. -/
namespace BS.Heap

structure CInv (h0 : Heap) (N0 : Nat) (h : Heap) (w : Wit) (st : List (Nat × Nat)) (srcs : List Nat) : Prop where
  wf : WF h w
  strs : ∀ n, h.next ≤ n → h.kind n = .str
  lt : N0 < h.next
  root : h.parent N0 = none
  clone_tree : ∀ m, N0 ≤ m → m < h.next → w.tree m = N0
  clone_pos : ∀ m, N0 ≤ m → m < h.next → w.pos m = m - N0
  size_root : w.size N0 = h.next - N0
  old_tree : ∀ a, a < N0 → w.tree a < N0
  frame : ∀ a, a < N0 → h.parent a = h0.parent a ∧ h.kids a = h0.kids a ∧ h.ne a = h0.ne a ∧ h.pe a = h0.pe a ∧
    h.ns a = h0.ns a ∧ h.ps a = h0.ps a ∧ h.kind a = h0.kind a ∧ h.val a = h0.val a
  stack : ∀ e ∈ st, N0 < e.2 ∧ e.2 < h.next ∧ w.pos e.2 + w.size e.2 = w.size N0
  sorted : st.Pairwise (fun a b => w.pos b.2 < w.pos a.2)
  len : srcs.length = h.next - N0
  img : ∀ i d, srcs[i]? = some d → h.kind (N0 + i) = h0.kind d ∧ h.val (N0 + i) = h0.val d

theorem popClosed_suffix (par : Option Nat) : ∀ st, popClosed par st <:+ st := by
  intro st
  induction st with
  | nil => exact List.suffix_refl _
  | cons e st ih =>
    obtain ⟨s, c⟩ := e
    simp only [popClosed]
    split
    · exact List.suffix_refl _
    · exact ih.trans (List.suffix_cons _ _)

/-- the clone on top of the stack is the root clone or the head of the stack -/
theorem topClone_cases (c0 : Nat) (st : List (Nat × Nat)) :
    (st = [] ∧ topClone c0 st = c0) ∨ ∃ e tl, st = e :: tl ∧ topClone c0 st = e.2 := by
  cases st with
  | nil => exact Or.inl ⟨rfl, rfl⟩
  | cons e tl => obtain ⟨s, c⟩ := e; exact Or.inr ⟨(s, c), tl, rfl, rfl⟩

/-- the start of the loop: right after `clone = self.copy_self()` -/
theorem cinv_init {h0 : Heap} {w : Wit} (hwf : WF h0 w) (hstr : ∀ n, h0.next ≤ n → h0.kind n = .str) (x : Nat) :
    CInv h0 h0.next (alloc h0 (h0.kind x) (h0.val x)).1 w [] [x] := by
  have hf := hwf.fresh h0.next (Nat.le_refl _)
  obtain ⟨htc, hpc, hsc, honly⟩ := wf_leaf_root hwf hf.1 hf.2.1
  constructor
  · exact alloc_wf_any hwf _ _
  · intro n hn
    simp only [alloc] at hn ⊢
    have : n ≠ h0.next := by omega
    simp only [this, if_false]; exact hstr n (by omega)
  · simp [alloc]
  · exact hf.1
  · intro m h1 h2
    simp only [alloc] at h2
    have : m = h0.next := by omega
    rw [this]; exact htc
  · intro m h1 h2
    simp only [alloc] at h2
    have : m = h0.next := by omega
    rw [this, hpc]; omega
  · simp only [alloc]; rw [hsc]; omega
  · intro a ha
    apply Classical.byContradiction
    intro hge
    have hge : h0.next ≤ w.tree a := by omega
    have hfr := hwf.fresh (w.tree a) hge
    have := (wf_leaf_root hwf hfr.1 hfr.2.1).2.2.2 a rfl
    omega
  · intro a ha
    have : a ≠ h0.next := by omega
    simp [alloc, this]
  · intro e he; cases he
  · exact List.Pairwise.nil
  · simp [alloc]
  · intro i d hi
    cases i with
    | zero => simp at hi; subst hi; simp [alloc]
    | succ i => simp at hi

/-- **one iteration keeps the invariant**: `d` is an element that existed before the copy and is not a BeautifulSoup object -/
theorem cinv_step {h0 : Heap} {N0 : Nat} {h h2 : Heap} {w : Wit} {st st2 : List (Nat × Nat)} {srcs : List Nat} {d : Nat}
    (inv : CInv h0 N0 h w st srcs) (hd : d < N0) (hds : h0.kind d ≠ .soup)
    (hs : copyStep h N0 st d = .ok (h2, st2)) :
    ∃ w2, CInv h0 N0 h2 w2 st2 (srcs ++ [d]) := by
  unfold copyStep at hs
  generalize hst1 : popClosed (h.parent d) st = st1 at hs
  have hsuf : st1 <:+ st := by rw [← hst1]; exact popClosed_suffix _ _
  cases hap : step (alloc h (h.kind d) (h.val d)).1 (.append (topClone N0 st1) (.node h.next)) with
  | error e => simp only [hap] at hs; cases hs
  | ok h2' =>
    simp only [hap, Except.ok.injEq, Prod.mk.injEq] at hs
    obtain ⟨e1, e2⟩ := hs
    subst e1 e2
    have hkd : h.kind d = h0.kind d := (inv.frame d hd).2.2.2.2.2.2.1
    have hvd : h.val d = h0.val d := (inv.frame d hd).2.2.2.2.2.2.2
    have hf := inv.wf.fresh h.next (Nat.le_refl _)
    have hwf1 : WF (alloc h (h.kind d) (h.val d)).1 w := alloc_wf_any inv.wf _ _
    have hc1 : (alloc h (h.kind d) (h.val d)).1.parent h.next = none := hf.1
    have hk1 : (alloc h (h.kind d) (h.val d)).1.kids h.next = [] := hf.2.1
    have hks : (alloc h (h.kind d) (h.val d)).1.kind h.next ≠ .soup := by simp [alloc, hkd]; exact hds
    obtain ⟨hwf2, htpc, _, hpn, _, hkids, hpar, hkind, hval, hnext⟩ := append_leaf_spec hwf1 hc1 hk1 hks hap
    obtain ⟨htc, hpc0, hsc, honly⟩ := wf_leaf_root hwf1 hc1 hk1
    have hfr := fun a (hat : w.tree a ≠ w.tree (topClone N0 st1)) (hac : a ≠ h.next) =>
      append_leaf_frame (a := a) hwf1 hwf2 hc1 hk1 hpar hat hac
    -- the clone on top: in the clone tree, on its right spine, to the right of everything else on the stack
    have hmem : ∀ e ∈ st1, e ∈ st := fun e he => hsuf.subset he
    have hsorted1 : st1.Pairwise (fun a b => w.pos b.2 < w.pos a.2) := inv.sorted.sublist hsuf.sublist
    have hsp := inv.wf.size_pos
    have htop : N0 ≤ topClone N0 st1 ∧ topClone N0 st1 < h.next ∧
        w.pos (topClone N0 st1) + w.size (topClone N0 st1) = w.size N0 ∧
        ∀ e ∈ st1, w.pos e.2 ≤ w.pos (topClone N0 st1) := by
      rcases topClone_cases N0 st1 with ⟨he, ht⟩ | ⟨e, tl, he, ht⟩
      · rw [ht, he]
        refine ⟨Nat.le_refl _, inv.lt, ?_, fun e he => by cases he⟩
        rw [inv.clone_pos N0 (Nat.le_refl _) inv.lt]; omega
      · rw [ht]
        have hes := inv.stack e (hmem e (by rw [he]; simp))
        refine ⟨by omega, hes.2.1, hes.2.2, ?_⟩
        intro e' he'
        rw [he] at he' hsorted1
        rcases List.mem_cons.mp he' with rfl | hin
        · exact Nat.le_refl _
        · exact Nat.le_of_lt ((List.pairwise_cons.mp hsorted1).1 e' hin)
    generalize topClone N0 st1 = p at *
    obtain ⟨hp1, hp2, hp3, hp4⟩ := htop
    have htp : w.tree p = N0 := inv.clone_tree p hp1 hp2
    have hS : w.size N0 = h.next - N0 := inv.size_root
    have hlt := inv.lt
    have hnext2 : h2'.next = h.next + 1 := by rw [hnext]; rfl
    have hposp : w.pos p = p - N0 := inv.clone_pos p hp1 hp2
    have hszp := hsp p
    refine ⟨pasteWit w h.next p (w.pos p + w.size p), ?_⟩
    constructor
    · exact hwf2
    · intro n hn
      rw [hkind]
      simp only [alloc]
      have : n ≠ h.next := by omega
      simp only [this, if_false]
      exact inv.strs n (by omega)
    · omega
    · rw [hpar]
      have : N0 ≠ h.next := by omega
      simp only [this, if_false]
      exact inv.root
    · -- clone_tree
      intro m h1 h2
      simp only [pasteWit]
      by_cases hm : m = h.next
      · subst hm; simp only [htc, if_true]; exact htp
      · have := inv.clone_tree m h1 (by omega)
        have hne : w.tree m ≠ h.next := by omega
        simp only [hne, if_false]; exact this
    · -- clone_pos
      intro m h1 h2
      simp only [pasteWit]
      by_cases hm : m = h.next
      · subst hm; simp only [htc, if_true, hpc0]; omega
      · have ht := inv.clone_tree m h1 (by omega)
        have hpm := inv.clone_pos m h1 (by omega)
        have hne : w.tree m ≠ h.next := by omega
        have : ¬ (w.tree m = w.tree p ∧ w.pos p + w.size p ≤ w.pos m) := by omega
        simp only [hne, this, if_false]; exact hpm
    · -- size_root
      simp only [pasteWit]
      have hp0 := inv.clone_pos N0 (Nat.le_refl _) hlt
      have : w.tree N0 = w.tree p ∧ w.pos N0 ≤ w.pos p ∧ w.pos p < w.pos N0 + w.size N0 := by
        refine ⟨by rw [htp, inv.clone_tree N0 (Nat.le_refl _) hlt], by omega, by omega⟩
      simp only [this, and_self, if_true, hsc]; omega
    · -- old_tree
      intro a ha
      simp only [pasteWit]
      have := inv.old_tree a ha
      have hne : w.tree a ≠ h.next := by omega
      simp only [hne, if_false]; exact this
    · -- frame
      intro a ha
      have hot := inv.old_tree a ha
      have hfa := hfr a (by omega) (by omega)
      have hia := inv.frame a ha
      have hac : a ≠ h.next := by omega
      have hap' : a ≠ p := by omega
      refine ⟨?_, ?_, ?_, ?_, ?_, ?_, ?_, ?_⟩
      · rw [hpar]; simp only [hac, if_false]; exact hia.1
      · rw [hkids]; simp only [hap', if_false]; exact hia.2.1
      · rw [hfa.1]; exact hia.2.2.1
      · rw [hfa.2.1]; exact hia.2.2.2.1
      · rw [hfa.2.2.1]; exact hia.2.2.2.2.1
      · rw [hfa.2.2.2]; exact hia.2.2.2.2.2.1
      · rw [hkind]; simp only [alloc, hac, if_false]; exact hia.2.2.2.2.2.2.1
      · rw [hval]; simp only [alloc, hac, if_false]; exact hia.2.2.2.2.2.2.2
    · -- stack
      have hold : ∀ e ∈ st1, N0 < e.2 ∧ e.2 < h2'.next ∧
          (pasteWit w h.next p (w.pos p + w.size p)).pos e.2 + (pasteWit w h.next p (w.pos p + w.size p)).size e.2 =
          (pasteWit w h.next p (w.pos p + w.size p)).size N0 := by
        intro e he
        have hes := inv.stack e (hmem e he)
        have hle := hp4 e he
        have hte := inv.clone_tree e.2 (by omega) hes.2.1
        have hp0 := inv.clone_pos N0 (Nat.le_refl _) hlt
        have htN := inv.clone_tree N0 (Nat.le_refl _) hlt
        refine ⟨hes.1, by omega, ?_⟩
        simp only [pasteWit]
        have h1 : w.tree e.2 ≠ h.next := by omega
        have h2 : ¬ (w.tree e.2 = w.tree p ∧ w.pos p + w.size p ≤ w.pos e.2) := by
          have := hsp e.2; omega
        have h3 : w.tree e.2 = w.tree p ∧ w.pos e.2 ≤ w.pos p ∧ w.pos p < w.pos e.2 + w.size e.2 := by
          refine ⟨by rw [hte, htp], hle, by omega⟩
        have h4 : w.tree N0 = w.tree p ∧ w.pos N0 ≤ w.pos p ∧ w.pos p < w.pos N0 + w.size N0 := by
          refine ⟨by rw [htN, htp], by omega, by omega⟩
        rw [if_neg h1, if_neg h2, if_pos h3, if_pos h4, hsc]; omega
      intro e he
      split at he
      · rcases List.mem_cons.mp he with rfl | hin
        · refine ⟨by omega, by omega, ?_⟩
          simp only [pasteWit]
          have hp0 := inv.clone_pos N0 (Nat.le_refl _) hlt
          have htN := inv.clone_tree N0 (Nat.le_refl _) hlt
          have h3 : ¬ (w.tree h.next = w.tree p ∧ w.pos h.next ≤ w.pos p ∧ w.pos p < w.pos h.next + w.size h.next) := by
            rw [htc, htp]; omega
          have h4 : w.tree N0 = w.tree p ∧ w.pos N0 ≤ w.pos p ∧ w.pos p < w.pos N0 + w.size N0 := by
            refine ⟨by rw [htN, htp], by omega, by omega⟩
          rw [if_pos htc, if_neg h3, if_pos h4, hsc, hpc0]; omega
        · exact hold e hin
      · exact hold e he
    · -- sorted
      have hposold : ∀ e ∈ st1, (pasteWit w h.next p (w.pos p + w.size p)).pos e.2 = w.pos e.2 := by
        intro e he
        have hes := inv.stack e (hmem e he)
        have hte := inv.clone_tree e.2 (by omega) hes.2.1
        simp only [pasteWit]
        have h1 : w.tree e.2 ≠ h.next := by omega
        have h2 : ¬ (w.tree e.2 = w.tree p ∧ w.pos p + w.size p ≤ w.pos e.2) := by
          have := hsp e.2; omega
        simp only [h1, h2, if_false]
      have hs1 : st1.Pairwise (fun a b => (pasteWit w h.next p (w.pos p + w.size p)).pos b.2 <
          (pasteWit w h.next p (w.pos p + w.size p)).pos a.2) := by
        refine hsorted1.imp_of_mem ?_
        intro a b ha hb hab
        rw [hposold a ha, hposold b hb]; exact hab
      split
      · refine List.pairwise_cons.mpr ⟨?_, hs1⟩
        intro e he
        rw [hposold e he]
        have hes := inv.stack e (hmem e he)
        have := hsp e.2
        simp only [pasteWit, htc, if_true, hpc0]; omega
      · exact hs1
    · -- len
      rw [List.length_append, inv.len]; simp only [List.length_singleton]; omega
    · -- img
      intro i d' hi
      rw [hkind, hval]
      by_cases hlt' : i < srcs.length
      · rw [List.getElem?_append_left hlt'] at hi
        have := inv.img i d' hi
        have hne : N0 + i ≠ h.next := by have := inv.len; omega
        simp only [alloc, hne, if_false]; exact this
      · have hge : srcs.length ≤ i := by omega
        rw [List.getElem?_append_right hge] at hi
        have hi0 : i - srcs.length = 0 := by
          cases hx : i - srcs.length with
          | zero => rfl
          | succ n => rw [hx] at hi; simp at hi
        rw [hi0] at hi
        simp at hi; subst hi
        have heq : N0 + i = h.next := by have := inv.len; omega
        simp only [alloc, heq, if_true]; exact ⟨hkd, hvd⟩

end BS.Heap
