import BSModel.Proofs.HeapCopyLoop
/-! # `copy`: what the finished loop gives

From `CInv` at the end of the loop: the clone is a detached tree whose nodes are exactly the ids allocated by the call, in document
order in allocation order; its length, classes and texts are those of the source's document order; nothing that existed before has
changed in any field. Core Lean only. -/
namespace BS.Heap

theorem copyLoop_cinv {h0 : Heap} {N0 : Nat} : ∀ (ds : List Nat) (h h' : Heap) (w : Wit) (st : List (Nat × Nat)) (srcs : List Nat),
    CInv h0 N0 h w st srcs → (∀ d ∈ ds, d < N0 ∧ h0.kind d ≠ .soup) → copyLoop N0 h st ds = .ok h' →
    ∃ w' st', CInv h0 N0 h' w' st' (srcs ++ ds) := by
  intro ds
  induction ds with
  | nil =>
    intro h h' w st srcs inv _ hl
    simp only [copyLoop] at hl; cases hl
    exact ⟨w, st, by simpa using inv⟩
  | cons d ds ih =>
    intro h h' w st srcs inv hds hl
    simp only [copyLoop] at hl
    cases hs : copyStep h N0 st d with
    | error e => simp only [hs] at hl; cases hl
    | ok r =>
      obtain ⟨h1, st1⟩ := r
      simp only [hs] at hl
      obtain ⟨w1, inv1⟩ := cinv_step inv (hds d (by simp)).1 (hds d (by simp)).2 hs
      obtain ⟨w', st', inv'⟩ := ih h1 h' w1 st1 (srcs ++ [d]) inv1 (fun e he => hds e (by simp [he])) hl
      exact ⟨w', st', by simpa using inv'⟩

/-- every element of the document order of `x` other than `x` itself has a parent: it is allocated and not a BeautifulSoup object -/
theorem docOrder_tail_old {h : Heap} {w : Wit} (hwf : WF h w) (x : Nat) :
    ∀ d ∈ (docOrder h x).tail, d < h.next ∧ h.kind d ≠ .soup := by
  intro d hd
  have hsz : w.size x ≤ h.cap + 1 := by have := hwf.size_cap x; omega
  obtain ⟨hlen, hpos⟩ := pre_consec' hwf h.cap x hsz
  obtain ⟨j, hj, rfl⟩ := List.getElem_of_mem hd
  have hj' : j + 1 < (docOrder h x).length := by simp only [List.length_tail] at hj; omega
  rw [List.getElem_tail]
  have hp := (hpos (j + 1) hj').1
  cases hpar : h.parent (docOrder h x)[j + 1] with
  | none =>
    have := (hwf.root_tree _ hpar).2
    unfold docOrder at this
    omega
  | some q =>
    have hm := hwf.parent_kid _ _ hpar
    refine ⟨?_, wf_kid_not_soup hwf hm⟩
    apply Classical.byContradiction
    intro hge
    have := (hwf.fresh (docOrder h x)[j + 1] (by omega)).1
    rw [hpar] at this; cases this

/-- **the finished loop**: a copy that returns leaves the loop invariant, with the whole document order of the source as its record -/
theorem copy_cinv {h h' : Heap} {x c : Nat} (hg : Good2 h) (hc : copy h x = .ok (h', c)) :
    c = h.next ∧ ∃ w' st', CInv h h.next h' w' st' (docOrder h x) := by
  obtain ⟨⟨w, hwf⟩, hstr⟩ := hg
  have hinit := cinv_init hwf hstr x
  unfold copy at hc
  split at hc
  · obtain ⟨ds, hds, hdo, _⟩ := descendants_docOrder hwf x
    simp only [hds] at hc
    cases hl : copyLoop h.next (alloc h (h.kind x) (h.val x)).1 [] ds with
    | error e => simp only [hl] at hc; cases hc
    | ok h1 =>
      simp only [hl, Except.ok.injEq, Prod.mk.injEq] at hc
      obtain ⟨e1, e2⟩ := hc
      subst e1 e2
      refine ⟨rfl, ?_⟩
      have hold := docOrder_tail_old hwf x
      rw [hdo] at hold ⊢
      exact copyLoop_cinv ds _ _ w [] [x] hinit (fun d hd => hold d (by simpa using hd)) hl
  · rename_i hnt
    simp only [Except.ok.injEq, Prod.mk.injEq] at hc
    obtain ⟨e1, e2⟩ := hc
    subst e1 e2
    refine ⟨rfl, w, [], ?_⟩
    have hk : h.kids x = [] := hwf.str_leaf x (by simpa using hnt)
    have : docOrder h x = [x] := by unfold docOrder; cases h.cap <;> simp [pre, hk]
    rw [this]; exact hinit

/-- what the invariant says once the loop is over -/
theorem cinv_final {h0 h' : Heap} {N0 : Nat} {w' : Wit} {st' : List (Nat × Nat)} {srcs : List Nat}
    (inv : CInv h0 N0 h' w' st' srcs) :
    Good2 h' ∧ h'.parent N0 = none ∧ docOrder h' N0 = List.range' N0 (h'.next - N0) ∧
    (docOrder h' N0).length = srcs.length := by
  have hlen : (docOrder h' N0).length = h'.next - N0 := by rw [docOrder_length inv.wf, inv.size_root]
  refine ⟨⟨⟨w', inv.wf⟩, inv.strs⟩, inv.root, ?_, by rw [hlen, inv.len]⟩
  apply List.ext_getElem
  · rw [hlen, List.length_range']
  · intro j h1 h2
    rw [List.getElem_range']
    have hj : j < h'.next - N0 := by omega
    have hm := (docOrder_getElem? inv.wf inv.root j (N0 + j)).mpr
      ⟨inv.clone_tree (N0 + j) (by omega) (by omega), by rw [inv.clone_pos (N0 + j) (by omega) (by omega)]; omega⟩
    rw [List.getElem?_eq_getElem h1] at hm
    simpa using hm

/-- in a consistent forest every link of an element leads to an element of the same tree -/
theorem tree_closed {h : Heap} {w : Wit} (hwf : WF h w) {m b : Nat}
    (hl : h.ne m = some b ∨ h.pe m = some b ∨ h.ns m = some b ∨ h.ps m = some b ∨ h.parent m = some b ∨ b ∈ h.kids m) :
    w.tree b = w.tree m := by
  rcases hl with h1 | h1 | h1 | h1 | h1 | h1
  · exact ((hwf.chain_ne m b).mp h1).2.1.symm
  · exact ((hwf.chain_pe b m).mp h1).2.1
  · obtain ⟨⟨p, hp1, hp2⟩, _⟩ := (hwf.sib_ns m b).mp h1
    rw [(wf_parent_pos hwf hp1).1, (wf_parent_pos hwf hp2).1]
  · obtain ⟨⟨p, hp1, hp2⟩, _⟩ := (hwf.sib_ps b m).mp h1
    rw [(wf_parent_pos hwf hp1).1, (wf_parent_pos hwf hp2).1]
  · exact (wf_parent_pos hwf h1).1.symm
  · exact hwf.kid_tree m b h1

/-- the elements of a tree that existed before a copy are ids below the allocation counter -/
theorem docOrder_old {h : Heap} (hg : Good h) {r m : Nat} (hr : r < h.next) (hm : m ∈ docOrder h r) : m < h.next := by
  obtain ⟨w, hwf⟩ := hg
  unfold docOrder at hm
  rw [pre_head] at hm
  rcases List.mem_cons.mp hm with rfl | ht
  · exact hr
  · exact (docOrder_tail_old hwf r m ht).1

/-- the class of every string `.string =` creates is a string class; copies and constructor calls need no side condition -/
def Op2.kindsOK : Op2 → Prop
  | .edit op => op.kindsOK
  | _ => True

theorem step2_good2 {h h' : Heap} {op : Op2} (hg : Good2 h) (hk : op.kindsOK) (hs : step2 h op = .ok h') : Good2 h' := by
  cases op with
  | edit op => exact (step_good2 hg hk hs).1
  | copy x =>
    simp only [step2] at hs
    cases hc : copy h x with
    | error e => simp only [hc, Except.map] at hs; cases hs
    | ok r =>
      obtain ⟨h1, c⟩ := r
      simp only [hc, Except.map] at hs; cases hs
      obtain ⟨_, w', st', inv⟩ := copy_cinv hg hc
      exact (cinv_final inv).1
  | alloc k v =>
    simp only [step2] at hs; cases hs
    exact (alloc_good2_any hg k v).1

end BS.Heap
