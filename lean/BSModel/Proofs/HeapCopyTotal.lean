import BSModel.Proofs.HeapCopySpec
/-! # `copy` never fails on a consistent forest

`tag.append(fresh leaf)` passes every guard of `append → insert → _insert` (`append_leaf_total`), the clone on top of the stack is always
a tag (`TInv`), hence every iteration of the loop returns. Core Lean only. -/
namespace BS.Heap

/-- the parent walk from anything else never reaches an element nobody names as parent -/
theorem isAnc_childless (h : Heap) (a : Nat) (hk : ∀ c, h.parent c ≠ some a) : ∀ (f x : Nat), x ≠ a → isAnc h a f x = false := by
  intro f
  induction f with
  | zero => intro x hx; simp [isAnc, hx]
  | succ f ih =>
    intro x hx
    simp only [isAnc, hx, if_false]
    cases hp : h.parent x with
    | none => rfl
    | some q =>
      have : q ≠ a := by intro hh; subst hh; exact hk x hp
      exact ih q this

/-- `p.append(c)` for a parentless, childless, allocated `c` that is not a BeautifulSoup object and an allocated tag `p ≠ c` returns -/
theorem append_leaf_total {h : Heap} {w : Wit} {p c : Nat} (hwf : WF h w) (hc : h.parent c = none) (hkc : h.kids c = [])
    (hks : h.kind c ≠ .soup) (hp : (h.kind p).isTag = true) (hcp : c ≠ p) (hcn : c < h.next) (hpn : p < h.next) :
    ∃ h', step h (.append p (.node c)) = .ok h' := by
  have hnk : ∀ k, h.parent k ≠ some c := by
    intro k hk
    have := hwf.parent_kid k c hk
    rw [hkc] at this; cases this
  have hanc : isAnc h c h.cap p = false := isAnc_childless h c hnk _ p (fun hh => hcp hh.symm)
  obtain ⟨htc, _, hsc, _⟩ := wf_leaf_root hwf hc hkc
  have htree : w.tree p ≠ c := by
    intro hcc
    have := wf_pos_lt hwf p
    rw [hcc, hsc] at this
    exact hcp (hwf.inj c p (by rw [htc, hcc]) (by have := (hwf.root_tree c hc).2; omega))
  obtain ⟨h2, h2e, _, hk2, _⟩ := linkChild_spec h w p (h.kids p).length c hwf hc hks hp htree (Nat.le_refl _) hcn hpn
  have hcore : insertCore h p (h.kids p).length c = .ok h2 := by
    unfold insertCore
    have h1 : ¬ (isAnc h c h.cap p = true ∨ h.next ≤ c ∨ h.next ≤ p) := by
      rw [hanc]; simp; omega
    simp only [hcp, if_false, h1, hc, Nat.min_self]
    exact h2e
  have hmem : c ∈ h2.kids p := by
    rw [hk2 p]; simp only [if_true]
    exact (List.mem_insertIdx (Nat.le_refl _)).mpr (Or.inl rfl)
  obtain ⟨i, hi⟩ : ∃ i, indexOf h2 p c = some i := by
    unfold indexOf
    cases hx : (h2.kids p).idxOf? c with
    | none => exact absurd hmem (List.idxOf?_eq_none_iff.mp hx)
    | some i => exact ⟨i, rfl⟩
  refine ⟨h2, ?_⟩
  simp [step, hp, append, insert, insertArgs, insertArg1, hks, insertElems, hcore, hi]

/-- the clones a clone can be appended to are tags: the root clone and every open clone -/
structure TInv (N0 : Nat) (h : Heap) (st : List (Nat × Nat)) : Prop where
  root : (h.kind N0).isTag = true
  open_ : ∀ e ∈ st, (h.kind e.2).isTag = true

theorem copyStep_total {h0 : Heap} {N0 : Nat} {h : Heap} {w : Wit} {st : List (Nat × Nat)} {srcs : List Nat} {d : Nat}
    (inv : CInv h0 N0 h w st srcs) (tinv : TInv N0 h st) (hd : d < N0) (hds : h0.kind d ≠ .soup) :
    ∃ h2 st2, copyStep h N0 st d = .ok (h2, st2) ∧ TInv N0 h2 st2 := by
  obtain ⟨st1, hst1⟩ : ∃ st1, st1 = popClosed (h.parent d) st := ⟨_, rfl⟩
  have hsuf : st1 <:+ st := by rw [hst1]; exact popClosed_suffix _ _
  have hmem : ∀ e ∈ st1, e ∈ st := fun e he => hsuf.subset he
  have hkd : h.kind d = h0.kind d := (inv.frame d hd).2.2.2.2.2.2.1
  have hf := inv.wf.fresh h.next (Nat.le_refl _)
  have hwf1 : WF (alloc h (h.kind d) (h.val d)).1 w := alloc_wf_any inv.wf _ _
  have hks : (alloc h (h.kind d) (h.val d)).1.kind h.next ≠ .soup := by simp [alloc, hkd]; exact hds
  have hlt := inv.lt
  have htop : topClone N0 st1 < h.next ∧ (h.kind (topClone N0 st1)).isTag = true := by
    rcases topClone_cases N0 st1 with ⟨_, ht⟩ | ⟨e, tl, he, ht⟩
    · rw [ht]; exact ⟨hlt, tinv.root⟩
    · rw [ht]
      have hin : e ∈ st := hmem e (by rw [he]; simp)
      exact ⟨(inv.stack e hin).2.1, tinv.open_ e hin⟩
  obtain ⟨p, hpdef⟩ : ∃ p, p = topClone N0 st1 := ⟨_, rfl⟩
  rw [← hpdef] at htop
  have hpk : ((alloc h (h.kind d) (h.val d)).1.kind p).isTag = true := by
    have : p ≠ h.next := by omega
    simp only [alloc, this, if_false]; exact htop.2
  obtain ⟨h2, hap⟩ := append_leaf_total (p := p) (c := h.next) hwf1 hf.1 hf.2.1 hks hpk (by omega)
    (by simp [alloc]) (by simp only [alloc]; omega)
  obtain ⟨_, _, _, _, _, _, _, hkind, _, _⟩ := append_leaf_spec hwf1 hf.1 hf.2.1 hks hap
  refine ⟨h2, if (h.kind d).isTag then (d, h.next) :: st1 else st1, ?_, ?_⟩
  · subst hpdef; subst hst1; simp only [copyStep, hap]
  have hkeep : ∀ n, n < h.next → h2.kind n = h.kind n := by
    intro n hn
    have : n ≠ h.next := by omega
    rw [hkind]; simp only [alloc, this, if_false]
  constructor
  · rw [hkeep N0 hlt]; exact tinv.root
  · intro e he
    split at he
    · rename_i htag
      rcases List.mem_cons.mp he with rfl | hin
      · show (h2.kind h.next).isTag = true
        rw [hkind]; simp only [alloc, if_true]; exact htag
      · rw [hkeep _ (inv.stack e (hmem e hin)).2.1]; exact tinv.open_ e (hmem e hin)
    · rw [hkeep _ (inv.stack e (hmem e he)).2.1]; exact tinv.open_ e (hmem e he)

theorem copyLoop_total {h0 : Heap} {N0 : Nat} : ∀ (ds : List Nat) (h : Heap) (w : Wit) (st : List (Nat × Nat)) (srcs : List Nat),
    CInv h0 N0 h w st srcs → TInv N0 h st → (∀ d ∈ ds, d < N0 ∧ h0.kind d ≠ .soup) → ∃ h', copyLoop N0 h st ds = .ok h' := by
  intro ds
  induction ds with
  | nil => intro h _ _ _ _ _ _; exact ⟨h, rfl⟩
  | cons d ds ih =>
    intro h w st srcs inv tinv hds
    have hdd := hds d (by simp)
    obtain ⟨h2, st2, hs, tinv2⟩ := copyStep_total inv tinv hdd.1 hdd.2
    obtain ⟨w2, inv2⟩ := cinv_step inv hdd.1 hdd.2 hs
    obtain ⟨h', hl⟩ := ih h2 w2 st2 _ inv2 tinv2 (fun e he => hds e (by simp [he]))
    exact ⟨h', by simp only [copyLoop, hs]; exact hl⟩

/-- **on a consistent forest a copy never fails**, whatever is copied -/
theorem copy_total {h : Heap} (x : Nat) (hg : Good2 h) : ∃ h' c, copy h x = .ok (h', c) := by
  obtain ⟨⟨w, hwf⟩, hstr⟩ := hg
  unfold copy
  split
  · rename_i htag
    obtain ⟨ds, hds, hdo, _⟩ := descendants_docOrder hwf x
    simp only [hds]
    have hold := docOrder_tail_old hwf x
    rw [hdo] at hold
    have tinv : TInv h.next (alloc h (h.kind x) (h.val x)).1 [] := ⟨by simp [alloc]; exact htag, fun e he => by cases he⟩
    obtain ⟨h', hl⟩ := copyLoop_total ds _ w [] [x] (cinv_init hwf hstr x) tinv (fun d hd => hold d (by simpa using hd))
    exact ⟨h', h.next, by rw [hl]⟩
  · exact ⟨_, _, rfl⟩

end BS.Heap
