import BSModel.Proofs.HeapOps
import BSModel.Proofs.HeapExtract
import BSModel.Proofs.HeapLink
import BSModel.Proofs.HeapIter
/-! # `decompose` keeps the forest consistent (C01)

`decompose()` = `extract()` followed by the wipe-out loop along `next_element`. On a well-formed heap the loop
visits exactly the nodes of the (now detached) tree of `x`, in document order — the successor is read *before*
the current element is wiped — and turns every one of them into an isolated one-node tree; no other element
changes. Together with the two pillars this gives `step_good2` for **all** editing calls. Core Lean only. -/
namespace BS.Heap

/-! ## 1. the wipe-out loop in closed form -/

/-- one iteration of the loop: all six links and the children list of `e` are cleared -/
def wipeOne (h : Heap) (e : Nat) : Heap :=
  setKids (setNe (setPe (setNs (setPs (setParent h e none) e none) e none) e none) e none) e []

theorem wipe_succ (h : Heap) (f e : Nat) : wipe h (f + 1) (some e) = wipe (wipeOne h e) f (h.ne e) := rfl
theorem wipe_none (h : Heap) (f : Nat) : wipe h f none = h := by cases f <;> rfl
theorem wipe_zero (h : Heap) (o : Option Nat) : wipe h 0 o = h := rfl

theorem wipeOne_parent (h : Heap) (e m : Nat) : (wipeOne h e).parent m = if m = e then none else h.parent m := rfl
theorem wipeOne_ps (h : Heap) (e m : Nat) : (wipeOne h e).ps m = if m = e then none else h.ps m := rfl
theorem wipeOne_ns (h : Heap) (e m : Nat) : (wipeOne h e).ns m = if m = e then none else h.ns m := rfl
theorem wipeOne_pe (h : Heap) (e m : Nat) : (wipeOne h e).pe m = if m = e then none else h.pe m := rfl
theorem wipeOne_ne (h : Heap) (e m : Nat) : (wipeOne h e).ne m = if m = e then none else h.ne m := rfl
theorem wipeOne_kids (h : Heap) (e m : Nat) : (wipeOne h e).kids m = if m = e then [] else h.kids m := rfl
theorem wipeOne_kind (h : Heap) (e : Nat) : (wipeOne h e).kind = h.kind := rfl
theorem wipeOne_val (h : Heap) (e : Nat) : (wipeOne h e).val = h.val := rfl
theorem wipeOne_next (h : Heap) (e : Nat) : (wipeOne h e).next = h.next := rfl
theorem wipeOne_cap (h : Heap) (e : Nat) : (wipeOne h e).cap = h.cap := rfl

/-- loop invariant: in `g` the nodes at positions `< k` of the tree of `x` (positions of the witness `w` of the
    heap `h` the loop started from) are wiped, every other node is as in `h` -/
structure WipedTo (h : Heap) (w : Wit) (x k : Nat) (g : Heap) : Prop where
  parent : ∀ m, g.parent m = if w.tree m = x ∧ w.pos m < k then none else h.parent m
  ps : ∀ m, g.ps m = if w.tree m = x ∧ w.pos m < k then none else h.ps m
  ns : ∀ m, g.ns m = if w.tree m = x ∧ w.pos m < k then none else h.ns m
  pe : ∀ m, g.pe m = if w.tree m = x ∧ w.pos m < k then none else h.pe m
  ne : ∀ m, g.ne m = if w.tree m = x ∧ w.pos m < k then none else h.ne m
  kids : ∀ m, g.kids m = if w.tree m = x ∧ w.pos m < k then [] else h.kids m
  kind : g.kind = h.kind
  val : g.val = h.val
  next : g.next = h.next
  cap : g.cap = h.cap

/-- the whole tree of `x` is wiped, nothing else is touched -/
structure Wiped (h : Heap) (w : Wit) (x : Nat) (g : Heap) : Prop where
  parent : ∀ m, g.parent m = if w.tree m = x then none else h.parent m
  ps : ∀ m, g.ps m = if w.tree m = x then none else h.ps m
  ns : ∀ m, g.ns m = if w.tree m = x then none else h.ns m
  pe : ∀ m, g.pe m = if w.tree m = x then none else h.pe m
  ne : ∀ m, g.ne m = if w.tree m = x then none else h.ne m
  kids : ∀ m, g.kids m = if w.tree m = x then [] else h.kids m
  kind : g.kind = h.kind
  val : g.val = h.val
  next : g.next = h.next
  cap : g.cap = h.cap

theorem ite_merge {α : Type} (P Q R : Prop) [Decidable P] [Decidable Q] [Decidable R] (hk : (P ∨ Q) ↔ R)
    (a b : α) : (if P then a else if Q then a else b) = if R then a else b := by
  by_cases hP : P <;> by_cases hQ : Q <;> by_cases hR : R <;> simp_all

theorem wipedTo_zero (h : Heap) (w : Wit) (x : Nat) : WipedTo h w x 0 h := by
  constructor <;> simp

theorem wipedTo_step {h g : Heap} {w : Wit} {x k e : Nat} (hwf : WF h w) (hg : WipedTo h w x k g)
    (ht : w.tree e = x) (hp : w.pos e = k) : WipedTo h w x (k + 1) (wipeOne g e) := by
  have key : ∀ m, (m = e ∨ (w.tree m = x ∧ w.pos m < k)) ↔ (w.tree m = x ∧ w.pos m < k + 1) := by
    intro m
    constructor
    · rintro (rfl | h1)
      · exact ⟨ht, by omega⟩
      · exact ⟨h1.1, by omega⟩
    · rintro ⟨h1, h2⟩
      by_cases h3 : w.pos m < k
      · exact Or.inr ⟨h1, h3⟩
      · exact Or.inl (hwf.inj m e (by rw [h1, ht]) (by omega))
  constructor
  · intro m; rw [wipeOne_parent, hg.parent m]; exact ite_merge _ _ _ (key m) _ _
  · intro m; rw [wipeOne_ps, hg.ps m]; exact ite_merge _ _ _ (key m) _ _
  · intro m; rw [wipeOne_ns, hg.ns m]; exact ite_merge _ _ _ (key m) _ _
  · intro m; rw [wipeOne_pe, hg.pe m]; exact ite_merge _ _ _ (key m) _ _
  · intro m; rw [wipeOne_ne, hg.ne m]; exact ite_merge _ _ _ (key m) _ _
  · intro m; rw [wipeOne_kids, hg.kids m]; exact ite_merge _ _ _ (key m) _ _
  · rw [wipeOne_kind]; exact hg.kind
  · rw [wipeOne_val]; exact hg.val
  · rw [wipeOne_next]; exact hg.next
  · rw [wipeOne_cap]; exact hg.cap

/-- the loop, started on the `k`-th element of the document order with the first `k` already wiped, wipes the
    rest of the tree: the successor it reads from a not-yet-wiped element is the original one -/
theorem wipe_loop {h : Heap} {w : Wit} {x : Nat} (hwf : WF h w) (hr : h.parent x = none) (hu : w.unl x = false) :
    ∀ (f k : Nat) (g : Heap), WipedTo h w x k g → k ≤ w.size x → w.size x ≤ f + k →
      WipedTo h w x (w.size x) (wipe g f (docOrder h x)[k]?) := by
  intro f
  induction f with
  | zero =>
    intro k g hg hk hf
    have : k = w.size x := by omega
    subst this
    rw [wipe_zero]; exact hg
  | succ f ih =>
    intro k g hg hk hf
    by_cases hlt : k < w.size x
    · have hlen : k < (docOrder h x).length := by rw [docOrder_length hwf]; exact hlt
      have he := docOrder_getElem hwf hr k hlen
      rw [List.getElem?_eq_getElem hlen, wipe_succ]
      have hue : w.unl (docOrder h x)[k] = false := by
        by_cases hk0 : k = 0
        · have := wf_pos_zero hwf (a := (docOrder h x)[k]) (by omega)
          rw [he.2] at this
          rw [this]; exact hu
        · exact wf_unl_pos hwf (by omega)
      have hne : g.ne (docOrder h x)[k] = (docOrder h x)[k + 1]? := by
        rw [hg.ne, if_neg (by rw [he.1]; omega)]
        have := (next_element_is_successor hwf (docOrder h x)[k]).1 hue
        rw [he.2, he.1] at this
        exact this
      rw [hne]
      exact ih (k + 1) _ (wipedTo_step hwf hg he.2 he.1) (by omega) (by omega)
    · have : k = w.size x := by omega
      subst this
      rw [List.getElem?_eq_none (by rw [docOrder_length hwf]; omega), wipe_none]
      exact hg

theorem wipedTo_full {h g : Heap} {w : Wit} {x : Nat} (hwf : WF h w) (hg : WipedTo h w x (w.size x) g) :
    Wiped h w x g := by
  have key : ∀ m, (w.tree m = x ∧ w.pos m < w.size x) ↔ w.tree m = x := by
    intro m
    constructor
    · exact fun hh => hh.1
    · intro hh
      have := wf_pos_lt hwf m
      rw [hh] at this
      exact ⟨hh, this⟩
  constructor
  · intro m; rw [hg.parent m]; simp only [key m]
  · intro m; rw [hg.ps m]; simp only [key m]
  · intro m; rw [hg.ns m]; simp only [key m]
  · intro m; rw [hg.pe m]; simp only [key m]
  · intro m; rw [hg.ne m]; simp only [key m]
  · intro m; rw [hg.kids m]; simp only [key m]
  · exact hg.kind
  · exact hg.val
  · exact hg.next
  · exact hg.cap

/-- **closed form of the wipe-out loop**: started on a root `x` that stands in the element chain, with fuel at
    least the size of its tree, the loop clears all six links and the children list of every node of that tree
    and changes nothing else -/
theorem wipe_closed {h : Heap} {w : Wit} {x fuel : Nat} (hwf : WF h w) (hr : h.parent x = none)
    (hu : w.unl x = false) (hf : w.size x ≤ fuel) : Wiped h w x (wipe h fuel (some x)) := by
  have hrt := hwf.root_tree x hr
  have h0 : (docOrder h x)[0]? = some x := (docOrder_getElem? hwf hr 0 x).mpr hrt
  have := wipe_loop hwf hr hu fuel 0 h (wipedTo_zero h w x) (Nat.zero_le _) (by omega)
  rw [h0] at this
  exact wipedTo_full hwf this

/-- the closed form, field by field -/
theorem wipe_closed' {h : Heap} {w : Wit} {x fuel : Nat} (hwf : WF h w) (hr : h.parent x = none)
    (hu : w.unl x = false) (hf : w.size x ≤ fuel) :
    let h' := wipe h fuel (some x)
    (∀ m, w.tree m = x → h'.parent m = none ∧ h'.ps m = none ∧ h'.ns m = none ∧ h'.pe m = none ∧
      h'.ne m = none ∧ h'.kids m = []) ∧
    (∀ m, w.tree m ≠ x → h'.parent m = h.parent m ∧ h'.ps m = h.ps m ∧ h'.ns m = h.ns m ∧ h'.pe m = h.pe m ∧
      h'.ne m = h.ne m ∧ h'.kids m = h.kids m) ∧
    h'.kind = h.kind ∧ h'.val = h.val ∧ h'.next = h.next ∧ h'.cap = h.cap := by
  intro h'
  have hw := wipe_closed hwf hr hu hf
  refine ⟨?_, ?_, hw.kind, hw.val, hw.next, hw.cap⟩
  · intro m hm
    exact ⟨by rw [hw.parent m, if_pos hm], by rw [hw.ps m, if_pos hm], by rw [hw.ns m, if_pos hm],
      by rw [hw.pe m, if_pos hm], by rw [hw.ne m, if_pos hm], by rw [hw.kids m, if_pos hm]⟩
  · intro m hm
    exact ⟨by rw [hw.parent m, if_neg hm], by rw [hw.ps m, if_neg hm], by rw [hw.ns m, if_neg hm],
      by rw [hw.pe m, if_neg hm], by rw [hw.ne m, if_neg hm], by rw [hw.kids m, if_neg hm]⟩

/-! ## 2. the wiped heap is well-formed: every node of the destroyed tree is an isolated one-node tree -/

def wipeWit (w : Wit) (x : Nat) : Wit where
  tree := fun m => if w.tree m = x then m else w.tree m
  pos := fun m => if w.tree m = x then 0 else w.pos m
  size := fun m => if w.tree m = x then 1 else w.size m
  unl := fun m => if w.tree m = x then false else w.unl m

section wipeWF
variable {h g : Heap} {w : Wit} {x : Nat} (hwf : WF h w) (hg : Wiped h w x g)
include hwf hg

theorem wipe_wf : WF g (wipeWit w x) := by
  have hself : ∀ n, w.tree (w.tree n) = w.tree n := fun n => (wf_root_self hwf n).1
  have hpar : ∀ c p, h.parent c = some p → w.tree c = w.tree p := fun c p hp => (wf_parent_pos' hwf hp).1
  have hcap1 : 1 ≤ h.cap := Nat.le_trans (hwf.size_pos 0) (hwf.size_cap 0)
  constructor
  · intro n; simp only [wipeWit]; have := hwf.size_pos n; split <;> omega
  · intro n; simp only [wipeWit]; have := hwf.size_cap n; rw [hg.cap]; split <;> omega
  · intro n hn
    rw [hg.kind] at hn
    rw [hg.kids n]
    split
    · rfl
    · exact hwf.str_leaf n hn
  · intro n
    rw [hg.kids n]
    by_cases hd : w.tree n = x
    · simp only [hd, if_true, wipeWit, Tiles]
    · simp only [hd, if_false]
      have hn : (wipeWit w x).pos n = w.pos n ∧ (wipeWit w x).size n = w.size n := by simp [wipeWit, hd]
      rw [hn.1, hn.2]
      apply tiles_congr w.pos w.size _ _ _ _ _ (hwf.tiles n)
      intro k hk
      have := hwf.kid_tree n k hk
      have hdk : ¬ w.tree k = x := by rw [this]; exact hd
      simp [wipeWit, hdk]
  · intro n k hk
    rw [hg.kids n] at hk
    by_cases hd : w.tree n = x
    · simp [hd] at hk
    · simp only [hd, if_false] at hk
      have := hwf.kid_tree n k hk
      rw [hg.parent k, if_neg (by rw [this]; exact hd)]
      exact hwf.kid_parent n k hk
  · intro n k hk
    rw [hg.kids n] at hk
    by_cases hd : w.tree n = x
    · simp [hd] at hk
    · simp only [hd, if_false] at hk
      have := hwf.kid_tree n k hk
      have hdk : ¬ w.tree k = x := by rw [this]; exact hd
      simp only [wipeWit, hd, hdk, if_false]
      exact this
  · intro c p hp
    rw [hg.parent c] at hp
    by_cases hd : w.tree c = x
    · simp [hd] at hp
    · simp only [hd, if_false] at hp
      have := hpar c p hp
      rw [hg.kids p, if_neg (by rw [← this]; exact hd)]
      exact hwf.parent_kid c p hp
  · intro r hr
    rw [hg.parent r] at hr
    by_cases hd : w.tree r = x
    · simp [wipeWit, hd]
    · simp only [hd, if_false] at hr
      simp only [wipeWit, hd, if_false]
      exact hwf.root_tree r hr
  · intro n
    by_cases hd : w.tree n = x
    · simp only [wipeWit, hd, if_true]
      rw [hg.parent n, if_pos hd]
    · simp only [wipeWit, hd, if_false]
      rw [hg.parent _, if_neg (by rw [hself n]; exact hd)]
      exact hwf.tree_root n
  · intro n
    by_cases hd : w.tree n = x
    · simp [wipeWit, hd]
    · have hd' : ¬ w.tree (w.tree n) = x := by rw [hself n]; exact hd
      simp only [wipeWit, hd, hd', if_false]
      exact hwf.bound n
  · intro a b ht hp
    have := hwf.inj a b
    have := hself a
    have := hself b
    simp only [wipeWit] at ht hp
    grind
  · intro a b ht h1 h2
    have := hwf.laminar a b
    have := hself a
    have := hself b
    simp only [wipeWit] at ht h1 h2 ⊢
    grind
  · intro a b
    have := hwf.chain_ne a b
    have := hself a
    have := hself b
    rw [hg.ne a]
    simp only [wipeWit]
    grind
  · intro a b
    have := hwf.chain_pe a b
    have := hself a
    have := hself b
    rw [hg.pe b]
    simp only [wipeWit]
    grind
  · intro a b
    have := hwf.sib_ns a b
    have := hpar a
    have := hpar b
    rw [hg.ns a, hg.parent a, hg.parent b]
    simp only [wipeWit]
    grind
  · intro a b
    have := hwf.sib_ps a b
    have := hpar a
    have := hpar b
    rw [hg.ps b, hg.parent a, hg.parent b]
    simp only [wipeWit]
    grind
  · intro r hr
    simp only [wipeWit] at hr
    by_cases hd : w.tree r = x
    · simp [hd] at hr
    · simp only [hd, if_false] at hr
      rw [hg.kind, hg.parent r, if_neg hd]
      exact hwf.unl_soup r hr
  · intro n hn
    rw [hg.kind] at hn
    rw [hg.parent n]
    split
    · rfl
    · exact hwf.soup_root n hn
  · intro n hn
    rw [hg.next] at hn
    have := hwf.fresh n hn
    rw [hg.parent n, hg.kids n]
    simp only [wipeWit]
    refine ⟨?_, ?_, ?_⟩ <;> split <;> simp [this]

end wipeWF

/-! ## 3. `decompose` -/

/-- a childless BeautifulSoup root that stands outside the element chain may as well be regarded as standing in
    it: it has no first child whose `previous_element` could tell the difference -/
theorem wf_relink_childless {h : Heap} {w : Wit} {x : Nat} (hwf : WF h w) (hk : h.kids x = [])
    (hr : h.parent x = none) :
    WF h { w with unl := fun m => if m = x then false else w.unl m } := by
  have hrt := hwf.root_tree x hr
  have hsz : w.size x = 1 := by
    have := hwf.tiles x
    rw [hk] at this
    simp only [Tiles] at this
    omega
  have nosucc : ∀ b, ¬ (w.tree x = w.tree b ∧ w.pos b = w.pos x + 1) := by
    rintro b ⟨h1, h2⟩
    have hb := hwf.bound b
    have := hwf.size_pos b
    rw [← h1, hrt.1, hsz] at hb
    omega
  constructor
  · exact hwf.size_pos
  · exact hwf.size_cap
  · exact hwf.str_leaf
  · exact hwf.tiles
  · exact hwf.kid_parent
  · exact hwf.kid_tree
  · exact hwf.parent_kid
  · exact hwf.root_tree
  · exact hwf.tree_root
  · exact hwf.bound
  · exact hwf.inj
  · exact hwf.laminar
  · intro a b
    have := hwf.chain_ne a b
    by_cases ha : a = x
    · subst ha
      have := nosucc b
      simp only [if_true]
      grind
    · simp only [ha, if_false]; exact this
  · intro a b
    have := hwf.chain_pe a b
    by_cases ha : a = x
    · subst ha
      have := nosucc b
      simp only [if_true]
      grind
    · simp only [ha, if_false]; exact this
  · exact hwf.sib_ns
  · exact hwf.sib_ps
  · intro r hr'
    by_cases hrx : r = x
    · simp [hrx] at hr'
    · simp only [hrx, if_false] at hr'
      exact hwf.unl_soup r hr'
  · exact hwf.soup_root
  · intro n hn
    have := hwf.fresh n hn
    refine ⟨this.1, this.2.1, ?_⟩
    simp only
    split
    · rfl
    · exact this.2.2

/-- the recursive walk from `x` lists exactly the nodes of the subtree of `x` -/
theorem docOrder_mem_inSub {h : Heap} {w : Wit} (hwf : WF h w) (x m : Nat) :
    m ∈ docOrder h x ↔ w.inSub x m := by
  have hP := pre_consec hwf h.cap x (by have := hwf.size_cap x; omega)
  unfold docOrder
  constructor
  · intro hm
    obtain ⟨j, hj, rfl⟩ := List.getElem_of_mem hm
    have := hP.2 j hj
    exact ⟨this.2, by omega, by omega⟩
  · rintro ⟨h1, h2, h3⟩
    have hj : w.pos m - w.pos x < (pre h.kids h.cap x).length := by omega
    have := hP.2 _ hj
    have : (pre h.kids h.cap x)[w.pos m - w.pos x] = m := hwf.inj _ _ (by rw [this.2, h1]) (by omega)
    rw [← this]
    exact List.getElem_mem hj

/-- the nodes of the tree of a root are the nodes of its subtree -/
theorem tree_eq_root_iff {h : Heap} {w : Wit} (hwf : WF h w) {x : Nat} (hr : h.parent x = none) (m : Nat) :
    w.tree m = x ↔ w.inSub x m := by
  have hrt := hwf.root_tree x hr
  constructor
  · intro hm
    have := wf_pos_lt hwf m
    rw [hm] at this
    exact ⟨by rw [hm, hrt.1], by omega, by omega⟩
  · intro hm
    rw [hm.1, hrt.1]

/-- after the cut, the tree named `x` consists of the nodes of the former subtree of `x` -/
theorem cutWit_tree_iff {h : Heap} {w : Wit} (hwf : WF h w) (x m : Nat) :
    (cutWit w x).tree m = x ↔ w.inSub x m := by
  simp only [cutWit, Wit.inSub]
  split
  · rename_i hc; simp [hc]
  · rename_i hc
    constructor
    · intro hm
      exact absurd ((tree_eq_root_iff hwf (by rw [← hm]; exact hwf.tree_root m) m).mp hm) hc
    · intro hm; exact absurd hm hc

/-- **`decompose` in closed form**: it is `extract` followed by wiping exactly the tree of `x`. The guard of the
    model (a BeautifulSoup object with children standing outside the element chain) is what makes this
    unconditional: in every other state the root of the detached tree stands in the element chain, or is alone. -/
theorem decompose_wiped {h h' : Heap} {w : Wit} {x : Nat} (hwf : WF h w) (hd : decompose h x = .ok h') :
    ∃ h1 w1, extract h x = .ok h1 ∧ WF h1 w1 ∧ h1.parent x = none ∧ h1.kind = h.kind ∧ h1.val = h.val ∧
      h1.next = h.next ∧ Wiped h1 w1 x h' ∧ (∀ m, w1.tree m = x ↔ m ∈ docOrder h x) := by
  unfold decompose at hd
  split at hd
  · cases hd
  · rename_i hguard
    obtain ⟨h1, he, hwf1, _, hpar, hkind, hval, hnext, _⟩ := extract_spec h w x hwf
    rw [he] at hd
    simp only [Except.ok.injEq] at hd
    subst hd
    have hr1 : h1.parent x = none := by rw [hpar x]; simp
    cases hu : w.unl x with
    | false =>
      exact ⟨h1, cutWit w x, he, hwf1, hr1, hkind, hval, hnext,
        wipe_closed hwf1 hr1 (by simp only [cutWit]; exact hu) (hwf1.size_cap x),
        fun m => (cutWit_tree_iff hwf x m).trans (docOrder_mem_inSub hwf x m).symm⟩
    | true =>
      -- an unlinked BeautifulSoup root: `extract` is the identity, and the guard says it has no children
      have hs := hwf.unl_soup x hu
      have hne := (next_element_is_successor hwf x).2 hu
      have hid := extract_root_id hwf hs.2
      rw [hid] at he
      simp only [Except.ok.injEq] at he
      subst he
      have hk : h.kids x = [] := by
        cases hkx : h.kids x with
        | nil => rfl
        | cons a l =>
          exfalso
          apply hguard
          refine ⟨hs.1, hne, ?_⟩
          rw [hkx]; simp
      have hwf2 := wf_relink_childless hwf hk hs.2
      exact ⟨h, _, hid, hwf2, hs.2, rfl, rfl, rfl,
        wipe_closed hwf2 hs.2 (by simp) (hwf2.size_cap x),
        fun m => (tree_eq_root_iff hwf hs.2 m).trans (docOrder_mem_inSub hwf x m).symm⟩

theorem decompose_good2 {h h' : Heap} {x : Nat} (hg : Good2 h) (hd : decompose h x = .ok h') :
    Good2 h' ∧ KSame h h' := by
  obtain ⟨w, hwf⟩ := hg.1
  obtain ⟨h1, w1, _, hwf1, _, hkind, _, hnext, hW, _⟩ := decompose_wiped hwf hd
  refine ⟨⟨⟨wipeWit w1 x, wipe_wf hwf1 hW⟩, ?_⟩, KSame.of_kind_eq (hW.kind.trans hkind)⟩
  intro n hn
  rw [hW.kind, hkind]
  rw [hW.next, hnext] at hn
  exact hg.2 n hn

theorem decomposeAll_good2 : ∀ (cs : List Nat) (h h' : Heap), Good2 h → decomposeAll h cs = .ok h' → Good2 h' ∧ KSame h h' := by
  intro cs
  induction cs with
  | nil => intro h h' hg hd; simp only [decomposeAll] at hd; cases hd; exact ⟨hg, KSame.refl _⟩
  | cons c cs ih =>
    intro h h' hg hd
    simp only [decomposeAll] at hd
    cases hc : decompose h c with
    | error e => simp only [hc] at hd; cases hd
    | ok h1 =>
      simp only [hc] at hd
      obtain ⟨hg1, hk1⟩ := decompose_good2 hg hc
      obtain ⟨hg', hk'⟩ := ih h1 h' hg1 hd
      exact ⟨hg', hk1.trans hk'⟩

/-! ## 4. every editing call -/

/-- **every** editing call that returns keeps the forest consistent -/
theorem step_good2 {h h' : Heap} {op : Op} (hg : Good2 h) (hk : op.kindsOK) (hs : step h op = .ok h') :
    Good2 h' ∧ KSame h h' := by
  cases hd : op.isDecompose with
  | false => exact step_good2_noDecompose extract_spec linkChild_spec hg hd hk hs
  | true =>
    cases op <;> simp only [Op.isDecompose] at hd <;> try (cases hd)
    · exact decompose_good2 hg hs
    · simp only [step] at hs
      split at hs
      · exact decomposeAll_good2 _ _ _ hg hs
      · cases hs

end BS.Heap
