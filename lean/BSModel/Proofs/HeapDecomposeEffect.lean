import BSModel.Proofs.HeapDecompose
import BSModel.Proofs.HeapEffects
/-! # C02: the exact effect of `decompose()` and of `clear(decompose=True)` on the forest

`decompose()` = `extract()` + the wipe-out loop. In forest terms (children lists, parent fields): the element leaves its
parent's children list; every element of its subtree — the pre-order walk from it before the call — ends up destroyed:
the model's mark for "destroyed" is the state of an isolated one-node tree (no parent, no children, all four sibling /
element links `none`); nothing else changes. `clear(decompose=True)` does this to every child in turn. Core Lean only. -/
namespace BS.Heap

/-- the state the wipe-out loop leaves an element in -/
def Isolated (h : Heap) (m : Nat) : Prop :=
  h.parent m = none ∧ h.ps m = none ∧ h.ns m = none ∧ h.pe m = none ∧ h.ne m = none ∧ h.kids m = []

/-- in a consistent forest a parentless, childless element has no links at all -/
theorem good_isolated {h : Heap} (hg : Good h) {m : Nat} (hp : h.parent m = none) (hk : h.kids m = []) :
    Isolated h m := by
  obtain ⟨w, hwf⟩ := hg
  obtain ⟨h1, h2, h3, h4⟩ := root_no_links hwf hp
  have hrt := hwf.root_tree m hp
  have hsz : w.size m = 1 := by
    have := hwf.tiles m
    rw [hk] at this
    simp only [Tiles] at this
    omega
  have hmem : m ∈ docOrder h m := by unfold docOrder; rw [pre_head]; simp
  exact ⟨hp, h1, h2, h3, h4 m hmem (by omega), hk⟩

/-- **decompose()**: the element leaves its parent's children list; every element of its subtree is destroyed; every
    other element keeps its parent and its children list (the parent's list only loses the element); no element changes
    class or text, nothing is allocated; the forest stays consistent -/
theorem decompose_effect {h h' : Heap} {x : Nat} (hg : Good2 h) (hd : decompose h x = .ok h') :
    Good2 h' ∧
    (∀ m, m ∈ docOrder h x → Isolated h' m) ∧
    (∀ m, m ∉ docOrder h x →
      h'.parent m = h.parent m ∧ h'.kids m = if h.parent x = some m then (h.kids m).erase x else h.kids m) ∧
    h'.kind = h.kind ∧ h'.val = h.val ∧ h'.next = h.next ∧ h'.cap = h.cap := by
  obtain ⟨w, hwf⟩ := hg.1
  obtain ⟨h1, w1, he, hwf1, _, hkind, hval, hnext, hW, hmem⟩ := decompose_wiped hwf hd
  obtain ⟨h1', he', _, hk1, hp1, _, _, _, hcap1⟩ := extract_spec h w x hwf
  rw [he] at he'; cases he'
  have hxin : x ∈ docOrder h x := by unfold docOrder; rw [pre_head]; simp
  refine ⟨(decompose_good2 hg hd).1, ?_, ?_, hW.kind.trans hkind, hW.val.trans hval, hW.next.trans hnext,
    hW.cap.trans hcap1⟩
  · intro m hm
    have hm := (hmem m).mpr hm
    exact ⟨by rw [hW.parent m, if_pos hm], by rw [hW.ps m, if_pos hm], by rw [hW.ns m, if_pos hm],
      by rw [hW.pe m, if_pos hm], by rw [hW.ne m, if_pos hm], by rw [hW.kids m, if_pos hm]⟩
  · intro m hm
    have hmx : m ≠ x := fun e => hm (e ▸ hxin)
    have hm' : ¬ w1.tree m = x := fun hc => hm ((hmem m).mp hc)
    exact ⟨by rw [hW.parent m, if_neg hm', hp1 m, if_neg hmx], by rw [hW.kids m, if_neg hm', hk1 m]⟩

/-- `decompose()` of an element that is not a BeautifulSoup object never fails on a consistent forest -/
theorem decompose_total {h : Heap} {x : Nat} (hg : Good h) (hx : h.kind x ≠ .soup) : ∃ h', decompose h x = .ok h' := by
  obtain ⟨h1, he⟩ := extract_total extract_spec x hg
  refine ⟨wipe h1 h1.cap (some x), ?_⟩
  unfold decompose
  rw [if_neg (fun hc => hx hc.1)]
  simp only [he]

/-! ### subtrees of different children of one parent -/

theorem pre_congr (kids kids' : Nat → List Nat) : ∀ (f n : Nat), (∀ m ∈ pre kids f n, kids' m = kids m) →
    pre kids' f n = pre kids f n := by
  intro f
  induction f with
  | zero => intro n _; rfl
  | succ f ih =>
    intro n hm
    simp only [pre] at hm ⊢
    rw [hm n (by simp)]
    congr 1
    apply flatMap_congr'
    intro k hk
    apply ih k
    intro m hmk
    exact hm m (List.mem_cons_of_mem _ (List.mem_flatMap.mpr ⟨k, hk, hmk⟩))

theorem parent_not_in_subtree {h : Heap} {w : Wit} (hwf : WF h w) {t c : Nat} (hc : c ∈ h.kids t) :
    t ∉ docOrder h c := by
  intro hm
  have := (docOrder_mem_inSub hwf c t).mp hm
  have hl := wf_kid_lt hwf hc
  have := this.2.1
  omega

theorem sibling_subtrees_disjoint {h : Heap} {w : Wit} (hwf : WF h w) {t c c' : Nat} (hc : c ∈ h.kids t)
    (hc' : c' ∈ h.kids t) (hne : c ≠ c') (m : Nat) (hm : m ∈ docOrder h c) : m ∉ docOrder h c' := by
  intro hm'
  have a := (docOrder_mem_inSub hwf c m).mp hm
  have b := (docOrder_mem_inSub hwf c' m).mp hm'
  have ht : w.tree c = w.tree c' := by rw [hwf.kid_tree t c hc, hwf.kid_tree t c' hc']
  apply hne
  by_cases hle : w.pos c ≤ w.pos c'
  · exact hwf.inj c c' ht (tiles_disjoint _ _ _ _ _ (hwf.tiles t) c hc c' hc' hle (by have := a.2.2; have := b.2.1; omega))
  · exact (hwf.inj c' c ht.symm
      (tiles_disjoint _ _ _ _ _ (hwf.tiles t) c' hc' c hc (by omega) (by have := b.2.2; have := a.2.1; omega))).symm

/-- the walk from a tag is the tag followed by the walks from its children -/
theorem docOrder_cons_kids {h : Heap} {w : Wit} (hwf : WF h w) (t : Nat) :
    docOrder h t = t :: (h.kids t).flatMap (docOrder h) := by
  unfold docOrder
  have hc1 : 1 ≤ h.cap := Nat.le_trans (hwf.size_pos 0) (hwf.size_cap 0)
  obtain ⟨f, hf⟩ : ∃ f, h.cap = f + 1 := ⟨h.cap - 1, by omega⟩
  rw [hf]
  simp only [pre]
  congr 1
  apply flatMap_congr'
  intro k _
  have := hwf.size_cap k
  exact pre_fuel hwf f (f + 1) k (by omega) (by omega)

theorem docOrder_mem_iff {h : Heap} {w : Wit} (hwf : WF h w) (t m : Nat) :
    m ∈ docOrder h t ↔ m = t ∨ ∃ c ∈ h.kids t, m ∈ docOrder h c := by
  rw [docOrder_cons_kids hwf t, List.mem_cons, List.mem_flatMap]

/-- destroying one child leaves its siblings attached, with their subtrees as they were -/
theorem decompose_sibling {h h1 : Heap} {t c c' : Nat} (hg : Good2 h) (hct : h.parent c = some t)
    (hd : decompose h c = .ok h1) (hc't : h.parent c' = some t) (hne : c ≠ c') :
    h1.parent c' = some t ∧ docOrder h1 c' = docOrder h c' := by
  obtain ⟨w, hwf⟩ := hg.1
  obtain ⟨_, _, hE3, _, _, _, hcap⟩ := decompose_effect hg hd
  have hc := hwf.parent_kid c t hct
  have hc' := hwf.parent_kid c' t hc't
  have hself : c' ∈ docOrder h c' := by unfold docOrder; rw [pre_head]; simp
  have hnot : c' ∉ docOrder h c := fun hm => sibling_subtrees_disjoint hwf hc hc' hne c' hm hself
  refine ⟨by rw [(hE3 c' hnot).1]; exact hc't, ?_⟩
  unfold docOrder
  rw [hcap]
  apply pre_congr
  intro m hm
  have hm1 : m ∉ docOrder h c := fun hmc => sibling_subtrees_disjoint hwf hc hc' hne m hmc hm
  have hmt : m ≠ t := fun e => parent_not_in_subtree hwf hc' (e ▸ hm)
  rw [(hE3 m hm1).2, hct]
  have : ¬ (some t = some m) := fun e => hmt (Option.some.inj e).symm
  rw [if_neg this]

/-- the loop of `clear(decompose=True)` over distinct children of `t` -/
theorem decomposeAll_children : ∀ (cs : List Nat) (h h' : Heap) (t : Nat), Good2 h → cs.Nodup →
    (∀ c ∈ cs, h.parent c = some t) → decomposeAll h cs = .ok h' →
    Good2 h' ∧ h'.kids t = (h.kids t).filter (fun k => !cs.contains k) ∧
    (∀ m, (∃ c ∈ cs, m ∈ docOrder h c) → h'.parent m = none ∧ h'.kids m = []) ∧
    (∀ m, m ≠ t → (∀ c ∈ cs, m ∉ docOrder h c) → h'.parent m = h.parent m ∧ h'.kids m = h.kids m) ∧
    h'.parent t = h.parent t ∧ h'.kind = h.kind ∧ h'.val = h.val ∧ h'.next = h.next ∧ h'.cap = h.cap := by
  intro cs
  induction cs with
  | nil =>
    intro h h' t hg _ _ hd
    simp only [decomposeAll] at hd; cases hd
    have ft : (h.kids t).filter (fun _ => true) = h.kids t := List.filter_eq_self.mpr (fun _ _ => rfl)
    refine ⟨hg, by simp [ft], ?_, fun _ _ _ => ⟨rfl, rfl⟩, rfl, rfl, rfl, rfl, rfl⟩
    rintro m ⟨c, hc, _⟩
    cases hc
  | cons c cs ih =>
    intro h h' t hg hnd hpar hd
    simp only [decomposeAll] at hd
    cases hc1 : decompose h c with
    | error e => simp only [hc1] at hd; cases hd
    | ok h1 =>
      simp only [hc1] at hd
      obtain ⟨w, hwf⟩ := hg.1
      have hnd' := List.nodup_cons.mp hnd
      have hct := hpar c (by simp)
      have hcmem := hwf.parent_kid c t hct
      obtain ⟨hg1, hE2, hE3, hkind1, hval1, hnext1, hcap1⟩ := decompose_effect hg hc1
      have hsib : ∀ c' ∈ cs, h1.parent c' = some t ∧ docOrder h1 c' = docOrder h c' := fun c' hc' =>
        decompose_sibling hg hct hc1 (hpar c' (by simp [hc'])) (fun e => hnd'.1 (e ▸ hc'))
      obtain ⟨hg', hkt, hwiped, hsame, hpt, hkind', hval', hnext', hcap'⟩ :=
        ih h1 h' t hg1 hnd'.2 (fun c' hc' => (hsib c' hc').1) hd
      have htc : t ∉ docOrder h c := parent_not_in_subtree hwf hcmem
      have hdisj : ∀ m, m ∈ docOrder h c → ∀ c' ∈ cs, m ∉ docOrder h1 c' := by
        intro m hm c' hc'
        rw [(hsib c' hc').2]
        exact sibling_subtrees_disjoint hwf hcmem (hwf.parent_kid c' t (hpar c' (by simp [hc'])))
          (fun e => hnd'.1 (e ▸ hc')) m hm
      refine ⟨hg', ?_, ?_, ?_, ?_, hkind'.trans hkind1, hval'.trans hval1, hnext'.trans hnext1, hcap'.trans hcap1⟩
      · rw [hkt, (hE3 t htc).2, hct, if_pos rfl, filter_erase_cons (good_kids_nodup hg.1 t)]
      · rintro m ⟨c'', hc'', hm⟩
        rcases List.mem_cons.mp hc'' with rfl | hc''
        · have hmt : m ≠ t := fun e => htc (e ▸ hm)
          have := hsame m hmt (hdisj m hm)
          have iso := hE2 m hm
          exact ⟨this.1.trans iso.1, this.2.trans iso.2.2.2.2.2⟩
        · exact hwiped m ⟨c'', hc'', by rw [(hsib c'' hc'').2]; exact hm⟩
      · intro m hmt hall
        have hmc : m ∉ docOrder h c := hall c (by simp)
        have h1m := hE3 m hmc
        have : ¬ (h.parent c = some m) := by rw [hct]; intro e; exact hmt (Option.some.inj e).symm
        rw [if_neg this] at h1m
        have := hsame m hmt (fun c' hc' => by rw [(hsib c' hc').2]; exact hall c' (by simp [hc']))
        exact ⟨this.1.trans h1m.1, this.2.trans h1m.2⟩
      · rw [hpt, (hE3 t htc).1]

/-- **clear(decompose=True)**: the tag is left childless; every element that was beneath it is destroyed; the tag keeps
    its own place; every element outside its subtree keeps its parent and its children list; no element changes class or
    text, nothing is allocated; the forest stays consistent -/
theorem clearDecompose_effect {h h' : Heap} {t : Nat} (hg : Good2 h) (hd : clearDecompose h t = .ok h') :
    Good2 h' ∧ h'.kids t = [] ∧ h'.parent t = h.parent t ∧
    (∀ m, m ∈ docOrder h t → m ≠ t → Isolated h' m) ∧
    (∀ m, m ∉ docOrder h t → h'.parent m = h.parent m ∧ h'.kids m = h.kids m) ∧
    h'.kind = h.kind ∧ h'.val = h.val ∧ h'.next = h.next := by
  obtain ⟨w, hwf⟩ := hg.1
  obtain ⟨hg', hkt, hwiped, hsame, hpt, hkind, hval, hnext, _⟩ :=
    decomposeAll_children (h.kids t) h h' t hg (good_kids_nodup hg.1 t) (fun c hc => hwf.kid_parent t c hc) hd
  refine ⟨hg', ?_, hpt, ?_, ?_, hkind, hval, hnext⟩
  · rw [hkt]
    apply List.filter_eq_nil_iff.mpr
    intro k hk; simp [hk]
  · intro m hm hmt
    rcases (docOrder_mem_iff hwf t m).mp hm with e | hc
    · exact absurd e hmt
    · have := hwiped m hc
      exact good_isolated hg'.1 this.1 this.2
  · intro m hm
    have hmt : m ≠ t := fun e => hm (by rw [e]; unfold docOrder; rw [pre_head]; simp)
    exact hsame m hmt (fun c hc hmc => hm ((docOrder_mem_iff hwf t m).mpr (Or.inr ⟨c, hc, hmc⟩)))

/-- `clear(decompose=True)` never fails on a consistent forest -/
theorem decomposeAll_children_total : ∀ (cs : List Nat) (h : Heap) (t : Nat), Good2 h → cs.Nodup →
    (∀ c ∈ cs, h.parent c = some t) → ∃ h', decomposeAll h cs = .ok h' := by
  intro cs
  induction cs with
  | nil => intro h _ _ _ _; exact ⟨h, rfl⟩
  | cons c cs ih =>
    intro h t hg hnd hpar
    obtain ⟨w, hwf⟩ := hg.1
    have hnd' := List.nodup_cons.mp hnd
    have hct := hpar c (by simp)
    have hcs : h.kind c ≠ .soup := fun hk => by have := hwf.soup_root c hk; rw [hct] at this; cases this
    obtain ⟨h1, hc1⟩ := decompose_total hg.1 hcs
    obtain ⟨hg1, _⟩ := decompose_effect hg hc1
    obtain ⟨h', hd⟩ := ih h1 t hg1 hnd'.2 (fun c' hc' =>
      (decompose_sibling hg hct hc1 (hpar c' (by simp [hc'])) (fun e => hnd'.1 (e ▸ hc'))).1)
    exact ⟨h', by simp only [decomposeAll, hc1]; exact hd⟩

theorem clearDecompose_total {h : Heap} (t : Nat) (hg : Good2 h) : ∃ h', clearDecompose h t = .ok h' := by
  obtain ⟨w, hwf⟩ := hg.1
  exact decomposeAll_children_total (h.kids t) h t hg (good_kids_nodup hg.1 t) (fun c hc => hwf.kid_parent t c hc)

end BS.Heap
