import BSModel.Proofs.HeapContig
import BSModel.Proofs.HeapExtract
import BSModel.Proofs.HeapLink
/-! C02: the documented effect of further editing calls, derived from the effect of the two primitives -/
namespace BS.Heap

/-- effect of `for element in cs: element.extract()` when all of `cs` are (distinct) children of `t` -/
theorem extractAll_children : ∀ (cs : List Nat) (h h' : Heap) (t : Nat), Good h → cs.Nodup →
    (∀ c ∈ cs, h.parent c = some t) → extractAll h cs = .ok h' →
    Good h' ∧ h'.kids t = (h.kids t).filter (fun k => !cs.contains k) ∧ (∀ n, n ≠ t → h'.kids n = h.kids n) ∧
    (∀ n, h'.parent n = if n ∈ cs then none else h.parent n) := by
  intro cs
  induction cs with
  | nil =>
    intro h h' t hg _ _ he
    simp only [extractAll] at he; cases he
    have ft : (h.kids t).filter (fun _ => true) = h.kids t := List.filter_eq_self.mpr (fun _ _ => rfl)
    exact ⟨hg, by simp [ft], fun _ _ => rfl, fun n => by simp⟩
  | cons c cs ih =>
    intro h h' t hg hnd hpar he
    simp only [extractAll] at he
    cases hc : extract h c with
    | error e => simp only [hc] at he; cases he
    | ok h1 =>
      simp only [hc] at he
      obtain ⟨hg1, hk1, hp1, _, _⟩ := extract_good extract_spec hg hc
      have hct := hpar c (by simp)
      have hnd' := (List.nodup_cons.mp hnd)
      have := ih h1 h' t hg1 hnd'.2 (fun d hd => by
        rw [hp1 d]
        have : d ≠ c := by intro hdc; subst hdc; exact hnd'.1 hd
        simp [this, hpar d (by simp [hd])]) he
      obtain ⟨hg', hkt, hko, hpa⟩ := this
      refine ⟨hg', ?_, ?_, ?_⟩
      · rw [hkt, hk1 t]
        simp only [hct, if_true]
        rw [filter_erase_nodup (good_kids_nodup hg t)]
      · intro n hn
        rw [hko n hn, hk1 n]
        have : h.parent c ≠ some n := by rw [hct]; intro hh; cases hh; exact hn rfl
        simp [this]
      · intro n
        rw [hpa n, hp1 n]
        by_cases hnc : n = c
        · subst hnc; simp
        · by_cases hncs : n ∈ cs <;> simp [hnc, hncs]

/-- **clear()**: every child of the tag comes back detached, the tag is left without children, and no other children
    list and no other parent field changes -/
theorem clear_effect {h h' : Heap} {t : Nat} (hg : Good h) (hc : clear h t = .ok h') :
    Good h' ∧ h'.kids t = [] ∧ (∀ n, n ≠ t → h'.kids n = h.kids n) ∧
    (∀ n, h'.parent n = if n ∈ h.kids t then none else h.parent n) := by
  obtain ⟨w, hwf⟩ := hg
  have := extractAll_children (h.kids t) h h' t ⟨w, hwf⟩ (good_kids_nodup ⟨w, hwf⟩ t)
    (fun c hc' => hwf.kid_parent t c hc') hc
  obtain ⟨hg', hkt, hko, hpa⟩ := this
  refine ⟨hg', ?_, hko, hpa⟩
  rw [hkt]
  apply List.filter_eq_nil_iff.mpr
  intro k hk
  simp [hk]

theorem eraseIdx_insertIdx_replace (y : Nat) : ∀ (l : List Nat) (i : Nat) (hi : i < l.length), l.Nodup →
    (l.eraseIdx i).insertIdx i y = l.map (fun k => if k = l[i] then y else k) := by
  intro l
  induction l with
  | nil => intro i hi; simp at hi
  | cons a l ih =>
    intro i hi hnd
    have hnd' := List.nodup_cons.mp hnd
    cases i with
    | zero =>
      simp only [List.eraseIdx_cons_zero, List.insertIdx_zero, List.getElem_cons_zero, List.map_cons, if_true]
      congr 1
      have : ∀ k ∈ l, (if k = a then y else k) = k := by
        intro k hk
        have : k ≠ a := by intro hka; subst hka; exact hnd'.1 hk
        simp [this]
      rw [List.map_congr_left this]; simp
    | succ i =>
      have hi' : i < l.length := by simpa using hi
      simp only [List.eraseIdx_cons_succ, List.insertIdx_succ_cons, List.getElem_cons_succ, List.map_cons]
      have hai : a ≠ l[i] := by
        intro hc; apply hnd'.1; rw [hc]; exact List.getElem_mem _
      simp only [hai, if_false]
      rw [ih i hi' hnd'.2]

/-- **replace_with(y)** for one element `y` that is not a sibling of `x` (fresh, a detached root, or from elsewhere):
    `y` takes exactly `x`'s slot; `x` comes back detached; `y` disappears from wherever it was; nothing else moves -/
theorem replaceWith_one_effect {h h' : Heap} {x y p : Nat} (hg : Good2 h) (hp : h.parent x = some p)
    (hy : h.kind y ≠ .soup) (hxy : y ≠ x) (hyp : y ∉ h.kids p)
    (hr : replaceWith h x [.node y] = .ok h') :
    Good2 h' ∧ h'.kids p = (h.kids p).map (fun k => if k = x then y else k) ∧
    (∀ n, n ≠ p → h'.kids n = ((h.kids n).erase x).erase y) ∧ h'.parent x = none ∧ h'.parent y = some p := by
  obtain ⟨hgood, hstr⟩ := hg
  obtain ⟨w, hwf⟩ := hgood
  have hmem := hwf.parent_kid x p hp
  have hptag := wf_parent_isTag hwf hp
  unfold replaceWith at hr
  simp only [hp] at hr
  have hne : ([Arg.node y] = [Arg.node x]) = False := by
    simp; exact hxy
  simp only [hne, if_false] at hr
  have hself : ([Arg.node y].any (isSelf p)) = decide (y = p) := by simp [isSelf]
  simp only [hself] at hr
  by_cases hyp' : y = p
  · simp [hyp'] at hr
  · simp only [hyp', decide_false, Bool.false_eq_true, if_false] at hr
    cases hidx : indexOf h p x with
    | none => simp only [hidx] at hr; cases hr
    | some i =>
      simp only [hidx] at hr
      cases he : extract h x with
      | error e => simp only [he] at hr; cases hr
      | ok h1 =>
        simp only [he] at hr
        obtain ⟨hg1, hk1, hp1, hkind1, hnext1⟩ := extract_good extract_spec ⟨w, hwf⟩ he
        have hg1' : Good2 h1 := ⟨hg1, fun n hn => by rw [hkind1]; exact hstr n (by omega)⟩
        cases hins : insert h1 p i [.node y] with
        | error e => simp only [hins] at hr; cases hr
        | ok r =>
          obtain ⟨h2, ins⟩ := r
          simp only [hins] at hr; cases hr
          -- unfold the single-argument insert down to insertCore
          have hy1 : h1.kind y ≠ .soup := by rw [hkind1]; exact hy
          unfold insert at hins
          simp only [insertArgs, insertArg1, hy1, if_false, insertElems] at hins
          cases hcore : insertCore h1 p i y with
          | error e => simp only [hcore] at hins; cases hins
          | ok h3 =>
            simp only [hcore] at hins
            cases hidx3 : indexOf h3 p y with
            | none => simp only [hidx3] at hins; cases hins
            | some j =>
              simp only [hidx3] at hins
              cases hins
              have hp1tag : (h1.kind p).isTag = true := by rw [hkind1]; exact hptag
              obtain ⟨hg3, hk3⟩ := insertCore_good2 extract_spec linkChild_spec hg1' hp1tag hy1 hcore
              obtain ⟨hsp, hso, hpa⟩ := insertCore_shape extract_spec linkChild_spec hg1 hp1tag hy1 hcore
              have hkp1 : h1.kids p = (h.kids p).erase x := by rw [hk1 p]; simp [hp]
              have hynot1 : y ∉ h1.kids p := by
                rw [hkp1]; intro hm; exact hyp (List.mem_of_mem_erase hm)
              unfold indexOf at hidx
              obtain ⟨hil, hget, _⟩ := List.idxOf?_eq_some_iff.mp hidx
              have hnd := good_kids_nodup ⟨w, hwf⟩ p
              refine ⟨hg3, ?_, ?_, ?_, ?_⟩
              · have hyne : y ∉ (h.kids p).erase x := by rw [← hkp1]; exact hynot1
                rw [hsp, hkp1, List.erase_of_not_mem hyne]
                -- slot: before the element that was at index i of the erased list = i (y is not in the list)
                have hslot : slotOf ((h.kids p).erase x) i y = min i ((h.kids p).erase x).length := by
                  unfold slotOf
                  rw [List.erase_of_not_mem (fun hm => hyne (List.mem_of_mem_take hm))]
                  simp [List.length_take]
                rw [hslot]
                have hlen : ((h.kids p).erase x).length = (h.kids p).length - 1 := List.length_erase_of_mem hmem
                have hmin : min i ((h.kids p).erase x).length = i := by rw [hlen]; omega
                rw [hmin]
                -- erase the element at index i, insert y there = replace it
                have herase : (h.kids p).erase x = (h.kids p).eraseIdx i := by
                  rw [List.erase_eq_eraseIdx, hidx]
                rw [herase]
                have := eraseIdx_insertIdx_replace y (h.kids p) i hil hnd
                rw [hget] at this
                exact this
              · intro n hn
                rw [hso n hn, hk1 n]
                have : h.parent x ≠ some n := by rw [hp]; intro hh; cases hh; exact hn rfl
                simp only [this, if_false]
                -- x is not in kids n (n ≠ p): erasing it changes nothing
                have hxn : x ∉ h.kids n := by
                  intro hm; have := hwf.kid_parent n x hm; rw [hp] at this; cases this; exact hn rfl
                rw [List.erase_of_not_mem hxn]
              · rw [hpa x, hp1 x]; simp [Ne.symm hxy]
              · rw [hpa y]; simp

end BS.Heap

namespace BS.Heap

/-- inserting one non-BeautifulSoup element is one `_insert` -/
theorem insert_single_node {h h' : Heap} {p i c : Nat} {ins : List Nat} (hc : h.kind c ≠ .soup)
    (hi : insert h p i [.node c] = .ok (h', ins)) : insertCore h p i c = .ok h' := by
  unfold insert at hi
  simp only [insertArgs, insertArg1, hc, if_false, insertElems] at hi
  cases hcore : insertCore h p i c with
  | error e => simp only [hcore] at hi; cases hi
  | ok h3 =>
    simp only [hcore] at hi
    cases hidx : indexOf h3 p c with
    | none => simp only [hidx] at hi; cases hi
    | some j => simp only [hidx] at hi; cases hi; rfl

/-- the loop of `unwrap`: children `cs` of the detached `x`, inserted one by one (in reverse) at index `i` of `p` -/
theorem unwrapLoop_effect (x p : Nat) (hxp : x ≠ p) : ∀ (rcs : List Nat) (h h' : Heap) (pre done post : List Nat),
    Good2 h → (h.kind p).isTag = true → h.kids p = pre ++ done ++ post → h.kids x = rcs.reverse →
    unwrapLoop h p pre.length rcs = .ok h' →
    Good2 h' ∧ h'.kids p = pre ++ (rcs.reverse ++ done) ++ post ∧ h'.kids x = [] ∧
    (∀ n, n ≠ p → n ≠ x → h'.kids n = h.kids n) ∧
    (∀ n, h'.parent n = if n ∈ rcs then some p else h.parent n) := by
  intro rcs
  induction rcs with
  | nil =>
    intro h h' pre done post hg _ hk hx hu
    simp only [unwrapLoop] at hu; cases hu
    exact ⟨hg, by simpa using hk, by simpa using hx, fun _ _ _ => rfl, fun n => by simp⟩
  | cons c rcs ih =>
    intro h h' pre done post hg hp hk hx hu
    simp only [unwrapLoop] at hu
    obtain ⟨hgood, hstr⟩ := hg
    obtain ⟨w, hwf⟩ := hgood
    have hcx : c ∈ h.kids x := by rw [hx]; simp
    have hcs : h.kind c ≠ .soup := wf_kid_not_soup hwf hcx
    have hcpar : h.parent c = some x := hwf.kid_parent x c hcx
    have hcnotp : c ∉ h.kids p := by
      intro hm; have := hwf.kid_parent p c hm; rw [hcpar] at this; cases this; exact hxp rfl
    cases hins : insert h p pre.length [.node c] with
    | error e => simp only [hins] at hu; cases hu
    | ok r =>
      obtain ⟨h1, ins⟩ := r
      simp only [hins] at hu
      have hcore := insert_single_node hcs hins
      obtain ⟨hg1, hks1⟩ := insertCore_good2 extract_spec linkChild_spec ⟨⟨w, hwf⟩, hstr⟩ hp hcs hcore
      obtain ⟨hsp, hso, hpa⟩ := insertCore_shape extract_spec linkChild_spec ⟨w, hwf⟩ hp hcs hcore
      have hkp1 : h1.kids p = pre ++ (c :: done) ++ post := by
        rw [hsp, List.erase_of_not_mem hcnotp]
        have hslot : slotOf (h.kids p) pre.length c = pre.length := by
          unfold slotOf
          rw [List.erase_of_not_mem (fun hm => hcnotp (List.mem_of_mem_take hm)), hk]
          simp [List.length_take]
        rw [hslot, hk, List.append_assoc, insertIdx_append_length]
        simp
      have hkx1 : h1.kids x = rcs.reverse := by
        rw [hso x hxp, hx]
        have hnd := good_kids_nodup ⟨w, hwf⟩ x
        rw [hx] at hnd
        simp only [List.reverse_cons] at hnd ⊢
        have hcn : c ∉ rcs.reverse := by
          intro hm
          have := List.nodup_append.mp hnd
          exact this.2.2 c hm c (by simp) rfl
        rw [List.erase_append_right _ hcn]; simp
      have := ih h1 h' pre (c :: done) post hg1 (by rw [hks1.1 p]; exact hp) hkp1 hkx1 hu
      obtain ⟨hg', hkp', hkx', hko', hpa'⟩ := this
      refine ⟨hg', by rw [hkp']; simp, hkx', ?_, ?_⟩
      · intro n hnp hnx
        rw [hko' n hnp hnx, hso n hnp]
        apply List.erase_of_not_mem
        intro hm; have := hwf.kid_parent n c hm; rw [hcpar] at this; cases this; exact hnx rfl
      · intro n
        rw [hpa' n, hpa n]
        by_cases hnr : n ∈ rcs
        · simp [hnr]
        · by_cases hnc : n = c <;> simp [hnr, hnc]

/-- **unwrap()**: `x` is replaced by its children, in order, exactly at its slot; `x` comes back detached and
    childless; nothing else moves -/
theorem unwrap_effect {h h' : Heap} {x p : Nat} {pre post : List Nat} (hg : Good2 h) (hp : h.parent x = some p)
    (hk : h.kids p = pre ++ x :: post) (hu : unwrap h x = .ok h') :
    Good2 h' ∧ h'.kids p = pre ++ h.kids x ++ post ∧ h'.kids x = [] ∧ h'.parent x = none ∧
    (∀ n, n ≠ p → n ≠ x → h'.kids n = h.kids n) ∧ (∀ c ∈ h.kids x, h'.parent c = some p) := by
  obtain ⟨hgood, hstr⟩ := hg
  obtain ⟨w, hwf⟩ := hgood
  have hptag := wf_parent_isTag hwf hp
  have hnd := good_kids_nodup ⟨w, hwf⟩ p
  have hxp : x ≠ p := by
    intro hc; subst hc
    -- a node is not its own parent: pos strictly increases from parent to child
    have := wf_parent_pos hwf hp
    omega
  have hxpre : x ∉ pre := by
    intro hm; rw [hk] at hnd
    have := List.nodup_append.mp hnd
    exact this.2.2 x hm x (by simp) rfl
  unfold unwrap at hu
  simp only [hp] at hu
  have hidx : indexOf h p x = some pre.length := by
    unfold indexOf; rw [hk]; exact idxOf?_append_cons_of_not_mem pre post x hxpre
  simp only [hidx] at hu
  cases he : extract h x with
  | error e => simp only [he] at hu; cases hu
  | ok h1 =>
    simp only [he] at hu
    obtain ⟨hg1, hk1, hp1, hkind1, hnext1⟩ := extract_good extract_spec ⟨w, hwf⟩ he
    have hg1' : Good2 h1 := ⟨hg1, fun n hn => by rw [hkind1]; exact hstr n (by omega)⟩
    have hkp1 : h1.kids p = pre ++ [] ++ post := by
      rw [hk1 p]; simp only [hp, if_true, hk, List.append_nil]
      rw [List.erase_append_right _ hxpre]; simp
    have hkx1 : h1.kids x = h.kids x := by
      rw [hk1 x]
      have : h.parent x ≠ some x := by rw [hp]; intro hh; cases hh; exact hxp rfl
      simp [this]
    have := unwrapLoop_effect x p hxp (h1.kids x).reverse h1 h' pre [] post hg1' (by rw [hkind1]; exact hptag) hkp1
      (by simp) hu
    obtain ⟨hg', hkp', hkx', hko', hpa'⟩ := this
    refine ⟨hg', by rw [hkp', hkx1]; simp, hkx', ?_, ?_, ?_⟩
    · rw [hpa' x, hp1 x]
      have : x ∉ (h1.kids x).reverse := by
        intro hm
        have hm' : x ∈ h.kids x := by rw [← hkx1]; exact List.mem_reverse.mp hm
        have := hwf.kid_parent x x hm'
        rw [hp] at this; cases this; exact hxp rfl
      simp [this]
    · intro n hnp hnx
      rw [hko' n hnp hnx, hk1 n]
      have : h.parent x ≠ some n := by rw [hp]; intro hh; cases hh; exact hnp rfl
      simp [this]
    · intro c hc
      rw [hpa' c]
      have : c ∈ (h1.kids x).reverse := by rw [hkx1]; exact List.mem_reverse.mpr hc
      simp [this]

end BS.Heap

namespace BS.Heap

/-- after `y.extract()`, `_insert(i, y)` into `p` (not inside `y`) puts `y` at index `i` (clamped) of `p`'s children -/
theorem insert_detached_at {h h' : Heap} {p i y : Nat} (hg : Good2 h) (hp : (h.kind p).isTag = true)
    (hy : h.kind y ≠ .soup) (hroot : h.parent y = none) (hi : i ≤ (h.kids p).length)
    (hc : insertCore h p i y = .ok h') :
    Good2 h' ∧ h'.kids p = (h.kids p).insertIdx i y ∧ (∀ n, n ≠ p → h'.kids n = h.kids n) ∧
    (∀ n, h'.parent n = if n = y then some p else h.parent n) := by
  obtain ⟨hgood, hstr⟩ := hg
  obtain ⟨w, hwf⟩ := hgood
  have hnot : ∀ n, y ∉ h.kids n := by
    intro n hm; have := hwf.kid_parent n y hm; rw [hroot] at this; cases this
  obtain ⟨hg', _⟩ := insertCore_good2 extract_spec linkChild_spec ⟨⟨w, hwf⟩, hstr⟩ hp hy hc
  obtain ⟨hsp, hso, hpa⟩ := insertCore_shape extract_spec linkChild_spec ⟨w, hwf⟩ hp hy hc
  refine ⟨hg', ?_, ?_, hpa⟩
  · rw [hsp, List.erase_of_not_mem (hnot p)]
    have : slotOf (h.kids p) i y = i := by
      unfold slotOf
      rw [List.erase_of_not_mem (fun hm => hnot p (List.mem_of_mem_take hm))]
      simp [List.length_take]; omega
    rw [this]
  · intro n hn; rw [hso n hn, List.erase_of_not_mem (hnot n)]

/-- **insert_before(y)** (one element): `y` is removed from wherever it was and ends up immediately before `x`;
    the other children of `x`'s parent keep their order; no other children list changes except for losing `y` -/
theorem insertBefore_one_effect {h h' : Heap} {x y p : Nat} {pre post : List Nat} (hg : Good2 h)
    (hp : h.parent x = some p) (hy : h.kind y ≠ .soup) (hxy : y ≠ x) (hxs : h.kind x ≠ .soup)
    (hk : (h.kids p).erase y = pre ++ x :: post)
    (hr : insertBefore h x [.node y] = .ok h') :
    Good2 h' ∧ h'.kids p = pre ++ y :: x :: post ∧ (∀ n, n ≠ p → h'.kids n = (h.kids n).erase y) ∧
    h'.parent y = some p := by
  obtain ⟨hgood, hstr⟩ := hg
  obtain ⟨w, hwf⟩ := hgood
  have hptag := wf_parent_isTag hwf hp
  unfold insertBefore at hr
  simp only [hxs, if_false, hp] at hr
  have hself : ([Arg.node y].any (isSelf x)) = false := by simp [isSelf, hxy]
  simp only [hself, Bool.false_eq_true, if_false, insertBeforeLoop, extractArg] at hr
  cases he : extract h y with
  | error e => simp only [he] at hr; cases hr
  | ok h1 =>
    simp only [he] at hr
    obtain ⟨hg1, hk1, hp1, hkind1, hnext1⟩ := extract_good extract_spec ⟨w, hwf⟩ he
    have hg1' : Good2 h1 := ⟨hg1, fun n hn => by rw [hkind1]; exact hstr n (by omega)⟩
    have hke : ∀ n, h1.kids n = (h.kids n).erase y := fun n => by rw [hk1 n]; exact kidsWithout_eq_erase hwf y n
    have hnd1 := good_kids_nodup hg1 p
    rw [hke p, hk] at hnd1
    have hxpre : x ∉ pre := by
      intro hm
      have := List.nodup_append.mp hnd1
      exact this.2.2 x hm x (by simp) rfl
    have hidx : indexOf h1 p x = some pre.length := by
      unfold indexOf; rw [hke p, hk]; exact idxOf?_append_cons_of_not_mem pre post x hxpre
    simp only [hidx] at hr
    cases hins : insert h1 p pre.length [.node y] with
    | error e => simp only [hins] at hr; cases hr
    | ok r =>
      obtain ⟨h2, ins⟩ := r
      simp only [hins] at hr; cases hr
      have hy1 : h1.kind y ≠ .soup := by rw [hkind1]; exact hy
      have hcore := insert_single_node hy1 hins
      have := insert_detached_at hg1' (by rw [hkind1]; exact hptag) hy1 (by rw [hp1 y]; simp)
        (by rw [hke p, hk]; simp) hcore
      obtain ⟨hg', hkp, hko, hpa⟩ := this
      refine ⟨hg', ?_, ?_, by rw [hpa y]; simp⟩
      · rw [hkp, hke p, hk, insertIdx_append_length]
      · intro n hn; rw [hko n hn, hke n]

/-- **insert_after(y)** (one element): `y` ends up immediately after `x` -/
theorem insertAfter_one_effect {h h' : Heap} {x y p : Nat} {pre post : List Nat} (hg : Good2 h)
    (hp : h.parent x = some p) (hy : h.kind y ≠ .soup) (hxy : y ≠ x) (hxs : h.kind x ≠ .soup)
    (hk : (h.kids p).erase y = pre ++ x :: post)
    (hr : insertAfter h x [.node y] = .ok h') :
    Good2 h' ∧ h'.kids p = pre ++ x :: y :: post ∧ (∀ n, n ≠ p → h'.kids n = (h.kids n).erase y) ∧
    h'.parent y = some p := by
  obtain ⟨hgood, hstr⟩ := hg
  obtain ⟨w, hwf⟩ := hgood
  have hptag := wf_parent_isTag hwf hp
  unfold insertAfter at hr
  simp only [hxs, if_false, hp] at hr
  have hself : ([Arg.node y].any (isSelf x)) = false := by simp [isSelf, hxy]
  have hself1 : isSelf x (Arg.node y) = false := by simp [isSelf, hxy]
  simp only [hself, Bool.false_eq_true, if_false, insertAfterLoop, extractArg, hself1] at hr
  cases he : extract h y with
  | error e => simp only [he] at hr; cases hr
  | ok h1 =>
    simp only [he] at hr
    obtain ⟨hg1, hk1, hp1, hkind1, hnext1⟩ := extract_good extract_spec ⟨w, hwf⟩ he
    have hg1' : Good2 h1 := ⟨hg1, fun n hn => by rw [hkind1]; exact hstr n (by omega)⟩
    have hke : ∀ n, h1.kids n = (h.kids n).erase y := fun n => by rw [hk1 n]; exact kidsWithout_eq_erase hwf y n
    have hnd1 := good_kids_nodup hg1 p
    rw [hke p, hk] at hnd1
    have hxpre : x ∉ pre := by
      intro hm
      have := List.nodup_append.mp hnd1
      exact this.2.2 x hm x (by simp) rfl
    have hidx : indexOf h1 p x = some pre.length := by
      unfold indexOf; rw [hke p, hk]; exact idxOf?_append_cons_of_not_mem pre post x hxpre
    simp only [hidx] at hr
    cases hins : insert h1 p (pre.length + 1) [.node y] with
    | error e => simp only [hins] at hr; cases hr
    | ok r =>
      obtain ⟨h2, ins⟩ := r
      simp only [hins] at hr; cases hr
      have hy1 : h1.kind y ≠ .soup := by rw [hkind1]; exact hy
      have hcore := insert_single_node hy1 hins
      have := insert_detached_at hg1' (by rw [hkind1]; exact hptag) hy1 (by rw [hp1 y]; simp)
        (by rw [hke p, hk]; simp) hcore
      obtain ⟨hg', hkp, hko, hpa⟩ := this
      refine ⟨hg', ?_, ?_, by rw [hpa y]; simp⟩
      · rw [hkp, hke p, hk]
        have : pre ++ x :: post = (pre ++ [x]) ++ post := by simp
        rw [this]
        have hl : (pre ++ [x]).length = pre.length + 1 := by simp
        rw [← hl, insertIdx_append_length]; simp
      · intro n hn; rw [hko n hn, hke n]

/-- **append(y)** (one element): `y` is removed from wherever it was and becomes the last child -/
theorem append_one_effect {h h' : Heap} {p y : Nat} (hg : Good2 h) (hp : (h.kind p).isTag = true)
    (hy : h.kind y ≠ .soup) (ha : append h p (.node y) = .ok h') :
    Good2 h' ∧ h'.kids p = (h.kids p).erase y ++ [y] ∧ (∀ n, n ≠ p → h'.kids n = (h.kids n).erase y) ∧
    h'.parent y = some p := by
  obtain ⟨hgood, hstr⟩ := hg
  unfold append at ha
  cases hins : insert h p (h.kids p).length [.node y] with
  | error e => simp only [hins] at ha; cases ha
  | ok r =>
    obtain ⟨h1, ins⟩ := r
    simp only [hins] at ha
    split at ha
    · cases ha
    · cases ha
      have hcore := insert_single_node hy hins
      obtain ⟨hg', _⟩ := insertCore_good2 extract_spec linkChild_spec ⟨hgood, hstr⟩ hp hy hcore
      obtain ⟨hsp, hso, hpa⟩ := insertCore_shape extract_spec linkChild_spec hgood hp hy hcore
      refine ⟨hg', ?_, hso, by rw [hpa y]; simp⟩
      rw [hsp]
      have : slotOf (h.kids p) (h.kids p).length y = ((h.kids p).erase y).length := by
        unfold slotOf; rw [List.take_length]
      rw [this, List.insertIdx_length_self]

end BS.Heap

namespace BS.Heap

theorem good_not_self_kid {h : Heap} (hg : Good h) (n : Nat) : n ∉ h.kids n := by
  obtain ⟨w, hwf⟩ := hg
  intro hm
  have := tiles_mem w.pos w.size (h.kids n) _ _ (hwf.tiles n) n hm
  omega

/-- **wrap(w)**: `w` takes `x`'s place among the children of `x`'s parent, and `x` becomes the last child of `w`
    (after whatever `w` already contained); nothing else moves (other lists only lose `w`) -/
theorem wrap_effect {h h' : Heap} {x w p : Nat} (hg : Good2 h) (hp : h.parent x = some p)
    (hw : (h.kind w).isTag = true) (hws : h.kind w ≠ .soup) (hxw : w ≠ x) (hwp : w ∉ h.kids p)
    (hr : wrap h x w = .ok h') :
    Good2 h' ∧ h'.kids p = (h.kids p).map (fun k => if k = x then w else k) ∧
    h'.kids w = h.kids w ++ [x] ∧ h'.parent x = some w ∧ h'.parent w = some p ∧
    (∀ n, n ≠ p → n ≠ w → h'.kids n = (h.kids n).erase w) := by
  have hg0 := hg
  obtain ⟨hgood, hstr⟩ := hg
  obtain ⟨wt, hwf⟩ := hgood
  have hxs : h.kind x ≠ .soup := by
    intro hk; have := hwf.soup_root x hk; rw [hp] at this; cases this
  unfold wrap at hr
  cases hrw : replaceWith h x [.node w] with
  | error e => simp only [hrw] at hr; cases hr
  | ok h1 =>
    simp only [hrw] at hr
    obtain ⟨hg1, hkp1, hko1, hpx1, hpw1⟩ := replaceWith_one_effect hg0 hp hws hxw hwp hrw
    obtain ⟨_, hks1⟩ := replaceWith_good2 extract_spec linkChild_spec hg0 hrw
    have hwne : w ≠ p := by
      intro he
      obtain ⟨wt1, hwf1⟩ := hg1.1
      have hm := hwf1.parent_kid w p hpw1
      rw [← he] at hm
      exact good_not_self_kid hg1.1 w hm
    have hxnw : x ∉ h.kids w := by
      intro hm; have := hwf.kid_parent w x hm; rw [hp] at this; cases this; exact hwne rfl
    have hwnw : w ∉ h.kids w := good_not_self_kid ⟨wt, hwf⟩ w
    have hkw1 : h1.kids w = h.kids w := by
      rw [hko1 w hwne, List.erase_of_not_mem hxnw, List.erase_of_not_mem hwnw]
    have hw1 : (h1.kind w).isTag = true := by rw [hks1.1 w]; exact hw
    have hx1 : h1.kind x ≠ .soup := fun hk => hxs ((hks1.2 x).mp hk)
    obtain ⟨hg2, hkw2, hko2, hpx2⟩ := append_one_effect hg1 hw1 hx1 hr
    have hxnp1 : x ∉ h1.kids p := by
      obtain ⟨wt1, hwf1⟩ := hg1.1
      intro hm; have := hwf1.kid_parent p x hm; rw [hpx1] at this; cases this
    refine ⟨hg2, ?_, ?_, hpx2, ?_, ?_⟩
    · rw [hko2 p (Ne.symm hwne), List.erase_of_not_mem hxnp1, hkp1]
    · rw [hkw2, hkw1, List.erase_of_not_mem hxnw]
    · obtain ⟨wt2, hwf2⟩ := hg2.1
      have : w ∈ h'.kids p := by
        rw [hko2 p (Ne.symm hwne), List.erase_of_not_mem hxnp1, hkp1]
        have hm := hwf.parent_kid x p hp
        exact List.mem_map.mpr ⟨x, hm, by simp⟩
      exact hwf2.kid_parent p w this
    · intro n hnp hnw
      rw [hko2 n hnw, hko1 n hnp]
      have hxn : x ∉ h.kids n := by
        intro hm; have := hwf.kid_parent n x hm; rw [hp] at this; cases this; exact hnp rfl
      rw [List.erase_of_not_mem hxn]
      have : x ∉ (h.kids n).erase w := fun hm => hxn (List.mem_of_mem_erase hm)
      rw [List.erase_of_not_mem this]

end BS.Heap

namespace BS.Heap

theorem extractAll_next_kind : ∀ (cs : List Nat) (h h' : Heap), Good h → extractAll h cs = .ok h' →
    h'.next = h.next ∧ h'.kind = h.kind := by
  intro cs
  induction cs with
  | nil => intro h h' _ he; simp only [extractAll] at he; cases he; exact ⟨rfl, rfl⟩
  | cons c cs ih =>
    intro h h' hg he
    simp only [extractAll] at he
    cases hx : extract h c with
    | error e => simp only [hx] at he; cases he
    | ok h1 =>
      simp only [hx] at he
      obtain ⟨hg1, _, _, hk1, hn1⟩ := extract_good extract_spec hg hx
      obtain ⟨hn, hk⟩ := ih h1 h' hg1 he
      exact ⟨hn.trans hn1, hk.trans hk1⟩

theorem append_insertCore {h h' : Heap} {p y : Nat} (hy : h.kind y ≠ .soup) (ha : append h p (.node y) = .ok h') :
    insertCore h p (h.kids p).length y = .ok h' := by
  unfold append at ha
  cases hins : insert h p (h.kids p).length [.node y] with
  | error e => simp only [hins] at ha; cases ha
  | ok r =>
    obtain ⟨h1, ins⟩ := r
    simp only [hins] at ha
    split at ha
    · cases ha
    · cases ha; exact insert_single_node hy hins

/-- **`tag.string = v`**: the tag's former children are detached (each keeps its subtree), and the tag's only child is a NEW string
    object of the requested class; no other children list changes -/
theorem setString_effect {h h' : Heap} {t : Nat} {k : Kind} {v : PStr} (hg : Good2 h) (ht : (h.kind t).isTag = true)
    (hk : k = .str ∨ k = .pre) (hs : setString h t k v = .ok h') :
    Good2 h' ∧ h'.kids t = [h.next] ∧ h'.parent h.next = some t ∧ (∀ n, n ≠ t → h'.kids n = h.kids n) ∧
    (∀ n, n ≠ h.next → h'.parent n = if n ∈ h.kids t then none else h.parent n) := by
  have hks : k ≠ .soup := by rcases hk with rfl | rfl <;> decide
  unfold setString at hs
  cases hc : clear h t with
  | error e => simp only [hc] at hs; cases hs
  | ok h1 =>
    simp only [hc] at hs
    obtain ⟨hg1, hkt1, hko1, hpa1⟩ := clear_effect hg.1 hc
    obtain ⟨hg1', hks1⟩ := clear_good2 extract_spec linkChild_spec hg hc
    obtain ⟨hn1, hkind1⟩ := extractAll_next_kind _ _ _ hg.1 hc
    obtain ⟨hg2, hks2⟩ := alloc_good2 hg1' k v hk
    obtain ⟨ha2, hap, hak, han, hakn, hako⟩ := alloc_fields h1 k v
    rw [ha2] at hs
    have ht2 : ((alloc h1 k v).1.kind t).isTag = true := by rw [hks2.1 t, hks1.1 t]; exact ht
    have hy2 : (alloc h1 k v).1.kind h1.next ≠ .soup := by rw [hakn]; exact hks
    obtain ⟨hg', hkt', hko', hpn'⟩ := append_one_effect hg2 ht2 hy2 hs
    have hfresh : ∀ n, h1.next ∉ h1.kids n := by
      intro n hm
      obtain ⟨w1, hwf1⟩ := hg1
      have h1' := hwf1.kid_parent n _ hm
      have h2' := (hwf1.fresh h1.next (Nat.le_refl _)).1
      rw [h2'] at h1'; cases h1'
    refine ⟨hg', ?_, ?_, ?_, ?_⟩
    · rw [hkt', hak, hkt1, hn1]; simp
    · rw [← hn1]; exact hpn'
    · intro n hn
      rw [hko' n hn, hak, List.erase_of_not_mem (hfresh n), hko1 n hn]
    · intro n hn
      -- parents: append only changes the parent of the appended element
      obtain ⟨w', hwf'⟩ := hg'.1
      rw [← hn1] at hn
      have hshape := insertCore_shape extract_spec linkChild_spec hg2.1 ht2 hy2 (append_insertCore hy2 hs)
      rw [hshape.2.2 n, if_neg hn, hap, hpa1 n]

end BS.Heap

namespace BS.Heap

theorem nodup_erase_filter {l : List Nat} (hl : l.Nodup) (x : Nat) (q : Nat → Bool) :
    (l.erase x).filter q = l.filter (fun k => !(k == x) && q k) := by
  rw [hl.erase_eq_filter, List.filter_filter]
  apply List.filter_congr
  intro k _
  simp [Bool.and_comm, bne]

theorem filter_erase_cons {l : List Nat} (hl : l.Nodup) (x : Nat) (xs : List Nat) :
    (l.erase x).filter (fun k => !xs.contains k) = l.filter (fun k => !(x :: xs).contains k) := by
  rw [nodup_erase_filter hl]
  apply List.filter_congr
  intro k _
  by_cases hkx : k = x <;> simp [hkx]

/-- **extend(xs)** (distinct elements): each is removed from wherever it was; together they end up at the end of the tag's
    children, in the given order; every other children list only loses them -/
theorem appendAll_effect : ∀ (xs : List Nat) (h h' : Heap) (p : Nat), Good2 h → (h.kind p).isTag = true → xs.Nodup →
    (∀ x ∈ xs, h.kind x ≠ .soup) → appendAll h p (xs.map Arg.node) = .ok h' →
    Good2 h' ∧ h'.kids p = (h.kids p).filter (fun k => !xs.contains k) ++ xs ∧
    (∀ n, n ≠ p → h'.kids n = (h.kids n).filter (fun k => !xs.contains k)) ∧ (∀ x ∈ xs, h'.parent x = some p) := by
  intro xs
  induction xs with
  | nil =>
    intro h h' p hg _ _ _ ha
    simp only [List.map_nil, appendAll] at ha; cases ha
    refine ⟨hg, ?_, ?_, ?_⟩
    · rw [List.append_nil]; exact (List.filter_eq_self.mpr (fun _ _ => rfl)).symm
    · intro n _; exact (List.filter_eq_self.mpr (fun _ _ => rfl)).symm
    · intro x hx; cases hx
  | cons x xs ih =>
    intro h h' p hg hp hnd hk ha
    simp only [List.map_cons, appendAll] at ha
    cases hap : append h p (.node x) with
    | error e => simp only [hap] at ha; cases ha
    | ok h1 =>
      simp only [hap] at ha
      have hxk := hk x (by simp)
      obtain ⟨hg1, hkp1, hko1, hpx1⟩ := append_one_effect hg hp hxk hap
      obtain ⟨_, hks1⟩ := append_good2 extract_spec linkChild_spec hg hp hap
      have hnd' := (List.nodup_cons.mp hnd)
      have hp1 : (h1.kind p).isTag = true := by rw [hks1.1 p]; exact hp
      have hk1 : ∀ y ∈ xs, h1.kind y ≠ .soup := fun y hy hs => hk y (by simp [hy]) ((hks1.2 y).mp hs)
      obtain ⟨hg', hkp', hko', hpa'⟩ := ih h1 h' p hg1 hp1 hnd'.2 hk1 ha
      have hxn : xs.contains x = false := by
        have := hnd'.1
        simp [this]
      have hfinal : h'.kids p = (h.kids p).filter (fun k => !(x :: xs).contains k) ++ x :: xs := by
        rw [hkp', hkp1, List.filter_append]
        have : [x].filter (fun k => !xs.contains k) = [x] := by simp [hnd'.1]
        rw [this, filter_erase_cons (good_kids_nodup hg.1 p)]
        simp
      refine ⟨hg', hfinal, ?_, ?_⟩
      · intro n hn
        rw [hko' n hn, hko1 n hn, filter_erase_cons (good_kids_nodup hg.1 n)]
      · intro y hy
        obtain ⟨w', hwf'⟩ := hg'.1
        apply hwf'.kid_parent p y
        rw [hfinal]
        exact List.mem_append_right _ hy

end BS.Heap

namespace BS.Heap

theorem split_unique {x : Nat} : ∀ (a c b d : List Nat), a ++ x :: b = c ++ x :: d → x ∉ a → x ∉ c → a = c ∧ b = d := by
  intro a
  induction a with
  | nil =>
    intro c b d h _ hc
    cases c with
    | nil => simp at h; exact ⟨rfl, h⟩
    | cons c0 cs =>
      simp at h
      exact absurd h.1.symm (by intro e; exact hc (by simp [e]))
  | cons a0 as ih =>
    intro c b d h ha hc
    cases c with
    | nil =>
      simp at h
      exact absurd h.1 (by intro e; exact ha (by simp [e]))
    | cons c0 cs =>
      simp at h
      obtain ⟨h0, ht⟩ := h
      have := ih cs b d ht (fun hm => ha (by simp [hm])) (fun hm => hc (by simp [hm]))
      exact ⟨by rw [h0, this.1], this.2⟩

theorem insertBeforeLoop_cons (h : Heap) (p x : Nat) (a : Arg) (as : List Arg) :
    insertBeforeLoop h p x (a :: as) =
      (match insertBeforeLoop h p x [a] with
       | .error e => .error e
       | .ok h2 => insertBeforeLoop h2 p x as) := by
  simp only [insertBeforeLoop]
  cases extractArg h a with
  | error e => rfl
  | ok h1 =>
    simp only
    cases indexOf h1 p x with
    | none => rfl
    | some i =>
      simp only
      cases insert h1 p i [a] with
      | error e => rfl
      | ok r => rfl

/-- **insert_before(y₁, …, yₙ)** (distinct elements, none of them the target): all are removed from wherever they were and end up,
    in the given order, immediately before `x`; the other children of `x`'s parent keep their order; every other children list
    only loses them -/
theorem insertBefore_many_effect : ∀ (ys : List Nat) (h h' : Heap) (x p : Nat) (pre post : List Nat), Good2 h →
    h.parent x = some p → ys.Nodup → x ∉ ys → (∀ y ∈ ys, h.kind y ≠ .soup) → h.kind x ≠ .soup →
    (h.kids p).filter (fun k => !ys.contains k) = pre ++ x :: post →
    insertBeforeLoop h p x (ys.map Arg.node) = .ok h' →
    Good2 h' ∧ h'.kids p = pre ++ ys ++ x :: post ∧
    (∀ n, n ≠ p → h'.kids n = (h.kids n).filter (fun k => !ys.contains k)) ∧ (∀ y ∈ ys, h'.parent y = some p) := by
  intro ys
  induction ys with
  | nil =>
    intro h h' x p pre post hg _ _ _ _ _ hk hr
    simp only [List.map_nil, insertBeforeLoop] at hr; cases hr
    have hf : ∀ l : List Nat, l.filter (fun k => !([] : List Nat).contains k) = l :=
      fun l => List.filter_eq_self.mpr (fun _ _ => rfl)
    rw [hf] at hk
    refine ⟨hg, by simp [hk], fun n _ => (hf _).symm, fun y hy => by cases hy⟩
  | cons y ys ih =>
    intro h h' x p pre post hg hp hnd hx hk hxs hsplit hr
    have hnd' := List.nodup_cons.mp hnd
    have hyx : y ≠ x := fun e => hx (by simp [e])
    have hxys : x ∉ ys := fun hm => hx (by simp [hm])
    have hyk := hk y (by simp)
    rw [List.map_cons, insertBeforeLoop_cons] at hr
    cases hone : insertBeforeLoop h p x [Arg.node y] with
    | error e => simp only [hone] at hr; cases hr
    | ok h2 =>
      simp only [hone] at hr
      -- the one-argument call
      have hcall : insertBefore h x [.node y] = .ok h2 := by
        unfold insertBefore
        simp only [hxs, if_false, hp]
        have : ([Arg.node y].any (isSelf x)) = false := by simp [isSelf, hyx]
        simp only [this, Bool.false_eq_true, if_false]
        exact hone
      -- where x sits once y is gone
      have hndp := good_kids_nodup hg.1 p
      have hxmem : x ∈ (h.kids p).erase y := by
        obtain ⟨w, hwf⟩ := hg.1
        exact (List.mem_erase_of_ne (Ne.symm hyx)).mpr (hwf.parent_kid x p hp)
      obtain ⟨pre1, post1, hsp1⟩ := List.append_of_mem hxmem
      obtain ⟨hg2, hkp2, hko2, hpy2⟩ := insertBefore_one_effect hg hp hyk hyx hxs hsp1 hcall
      obtain ⟨_, hks2⟩ := insertBefore_good2 extract_spec linkChild_spec hg hcall
      have hp2 : h2.parent x = some p := by
        obtain ⟨w2, hwf2⟩ := hg2.1
        exact hwf2.kid_parent p x (by rw [hkp2]; simp)
      have hk2 : ∀ z ∈ ys, h2.kind z ≠ .soup := fun z hz hs => hk z (by simp [hz]) ((hks2.2 z).mp hs)
      have hxs2 : h2.kind x ≠ .soup := fun hs => hxs ((hks2.2 x).mp hs)
      -- the filtered view after the first step
      have hf2 : (h2.kids p).filter (fun k => !ys.contains k) =
          (pre1.filter (fun k => !ys.contains k) ++ [y]) ++ x :: post1.filter (fun k => !ys.contains k) := by
        rw [hkp2, List.filter_append, List.filter_cons, List.filter_cons]
        simp [hnd'.1, hxys]
      obtain ⟨hg', hkp', hko', hpa'⟩ := ih h2 h' x p _ _ hg2 hp2 hnd'.2 hxys hk2 hxs2 hf2 hr
      -- identify pre/post
      have hview : (h.kids p).filter (fun k => !(y :: ys).contains k) =
          pre1.filter (fun k => !ys.contains k) ++ x :: post1.filter (fun k => !ys.contains k) := by
        rw [← filter_erase_cons hndp, hsp1, List.filter_append, List.filter_cons]
        simp [hxys]
      have hnd1 : (pre1 ++ x :: post1).Nodup := by rw [← hsp1]; exact hndp.erase y
      have hxpre1 : x ∉ pre1.filter (fun k => !ys.contains k) := by
        intro hm
        have hm' := (List.mem_filter.mp hm).1
        exact (List.nodup_append.mp hnd1).2.2 x hm' x (by simp) rfl
      have hxpre : x ∉ pre := by
        intro hm
        have hnd0 : (pre ++ x :: post).Nodup := by rw [← hsplit]; exact hndp.filter _
        exact (List.nodup_append.mp hnd0).2.2 x hm x (by simp) rfl
      obtain ⟨hpre, hpost⟩ := split_unique _ _ _ _ (hsplit.symm.trans hview) hxpre hxpre1
      refine ⟨hg', ?_, ?_, ?_⟩
      · rw [hkp', hpre, hpost]; simp
      · intro n hn
        rw [hko' n hn, hko2 n hn, filter_erase_cons (good_kids_nodup hg.1 n)]
      · intro z hz
        obtain ⟨w', hwf'⟩ := hg'.1
        apply hwf'.kid_parent p z
        rw [hkp']
        rcases List.mem_cons.mp hz with rfl | hz'
        · simp
        · simp [hz']

end BS.Heap

namespace BS.Heap

theorem insert_single_ins {h h' : Heap} {p i c : Nat} {ins : List Nat} (hc : h.kind c ≠ .soup)
    (hi : insert h p i [.node c] = .ok (h', ins)) : ins = [c] := by
  unfold insert at hi
  simp only [insertArgs, insertArg1, hc, if_false, insertElems] at hi
  cases hcore : insertCore h p i c with
  | error e => simp only [hcore] at hi; cases hi
  | ok h3 =>
    simp only [hcore] at hi
    cases hidx : indexOf h3 p c with
    | none => simp only [hidx] at hi; cases hi
    | some j => simp only [hidx] at hi; cases hi; rfl

/-- one iteration of `insert_after`'s loop on an element argument = the one-argument call; the next anchor is that element -/
theorem insertAfterLoop_cons_node {h h' : Heap} {p a y : Nat} {as : List Arg} (hg : Good h) (hy : h.kind y ≠ .soup) (hya : y ≠ a)
    (hr : insertAfterLoop h p a (.node y :: as) = .ok h') :
    ∃ h2, insertAfterLoop h p a [.node y] = .ok h2 ∧ insertAfterLoop h2 p y as = .ok h' := by
  have hself1 : isSelf a (Arg.node y) = false := by simp [isSelf, hya]
  simp only [insertAfterLoop, extractArg, hself1, Bool.false_eq_true, if_false] at hr ⊢
  cases he : extract h y with
  | error e => simp only [he] at hr; cases hr
  | ok h1 =>
    simp only [he] at hr ⊢
    cases hidx : indexOf h1 p a with
    | none => simp only [hidx] at hr; cases hr
    | some i =>
      simp only [hidx] at hr ⊢
      cases hins : insert h1 p (i + 1) [.node y] with
      | error e => simp only [hins] at hr; cases hr
      | ok r =>
        obtain ⟨h2, ins⟩ := r
        simp only [hins] at hr ⊢
        have hk1 : h1.kind y ≠ .soup := by
          intro hs
          obtain ⟨_, _, _, hkind, _⟩ := extract_good extract_spec hg he
          rw [hkind] at hs; exact hy hs
        have : ins = [y] := insert_single_ins hk1 hins
        subst this
        exact ⟨h2, rfl, by simpa using hr⟩

end BS.Heap

namespace BS.Heap

/-- **insert_after(y₁, …, yₙ)** (distinct elements, none of them the target): all are removed from wherever they were and end up,
    in the given order, immediately after `x` -/
theorem insertAfter_many_effect : ∀ (ys : List Nat) (h h' : Heap) (a p : Nat) (pre post : List Nat), Good2 h →
    h.parent a = some p → ys.Nodup → a ∉ ys → (∀ y ∈ ys, h.kind y ≠ .soup) → h.kind a ≠ .soup →
    (h.kids p).filter (fun k => !ys.contains k) = pre ++ a :: post →
    insertAfterLoop h p a (ys.map Arg.node) = .ok h' →
    Good2 h' ∧ h'.kids p = pre ++ a :: ys ++ post ∧
    (∀ n, n ≠ p → h'.kids n = (h.kids n).filter (fun k => !ys.contains k)) ∧ (∀ y ∈ ys, h'.parent y = some p) := by
  intro ys
  induction ys with
  | nil =>
    intro h h' a p pre post hg _ _ _ _ _ hk hr
    simp only [List.map_nil, insertAfterLoop] at hr; cases hr
    have hf : ∀ l : List Nat, l.filter (fun k => !([] : List Nat).contains k) = l :=
      fun l => List.filter_eq_self.mpr (fun _ _ => rfl)
    rw [hf] at hk
    refine ⟨hg, by simp [hk], fun n _ => (hf _).symm, fun y hy => by cases hy⟩
  | cons y ys ih =>
    intro h h' a p pre post hg hp hnd hx hk hxs hsplit hr
    have hnd' := List.nodup_cons.mp hnd
    have hya : y ≠ a := fun e => hx (by simp [e])
    have hays : a ∉ ys := fun hm => hx (by simp [hm])
    have hyk := hk y (by simp)
    rw [List.map_cons] at hr
    obtain ⟨h2, hone, hrest⟩ := insertAfterLoop_cons_node hg.1 hyk hya hr
    have hcall : insertAfter h a [.node y] = .ok h2 := by
      unfold insertAfter
      simp only [hxs, if_false, hp]
      have : ([Arg.node y].any (isSelf a)) = false := by simp [isSelf, hya]
      simp only [this, Bool.false_eq_true, if_false]
      exact hone
    have hndp := good_kids_nodup hg.1 p
    have hamem : a ∈ (h.kids p).erase y := by
      obtain ⟨w, hwf⟩ := hg.1
      exact (List.mem_erase_of_ne (Ne.symm hya)).mpr (hwf.parent_kid a p hp)
    obtain ⟨pre1, post1, hsp1⟩ := List.append_of_mem hamem
    obtain ⟨hg2, hkp2, hko2, hpy2⟩ := insertAfter_one_effect hg hp hyk hya hxs hsp1 hcall
    obtain ⟨_, hks2⟩ := insertAfter_good2 extract_spec linkChild_spec hg hcall
    have hk2 : ∀ z ∈ ys, h2.kind z ≠ .soup := fun z hz hs => hk z (by simp [hz]) ((hks2.2 z).mp hs)
    have hyk2 : h2.kind y ≠ .soup := fun hs => hyk ((hks2.2 y).mp hs)
    have hf2 : (h2.kids p).filter (fun k => !ys.contains k) =
        (pre1.filter (fun k => !ys.contains k) ++ [a]) ++ y :: post1.filter (fun k => !ys.contains k) := by
      rw [hkp2, List.filter_append, List.filter_cons, List.filter_cons]
      simp [hnd'.1, hays]
    obtain ⟨hg', hkp', hko', hpa'⟩ := ih h2 h' y p _ _ hg2 hpy2 hnd'.2 hnd'.1 hk2 hyk2 hf2 hrest
    have hview : (h.kids p).filter (fun k => !(y :: ys).contains k) =
        pre1.filter (fun k => !ys.contains k) ++ a :: post1.filter (fun k => !ys.contains k) := by
      rw [← filter_erase_cons hndp, hsp1, List.filter_append, List.filter_cons]
      simp [hays]
    have hnd1 : (pre1 ++ a :: post1).Nodup := by rw [← hsp1]; exact hndp.erase y
    have hapre1 : a ∉ pre1.filter (fun k => !ys.contains k) := by
      intro hm
      have hm' := (List.mem_filter.mp hm).1
      exact (List.nodup_append.mp hnd1).2.2 a hm' a (by simp) rfl
    have hapre : a ∉ pre := by
      intro hm
      have hnd0 : (pre ++ a :: post).Nodup := by rw [← hsplit]; exact hndp.filter _
      exact (List.nodup_append.mp hnd0).2.2 a hm a (by simp) rfl
    obtain ⟨hpre, hpost⟩ := split_unique _ _ _ _ (hsplit.symm.trans hview) hapre hapre1
    refine ⟨hg', ?_, ?_, ?_⟩
    · rw [hkp', hpre, hpost]; simp
    · intro n hn
      rw [hko' n hn, hko2 n hn, filter_erase_cons (good_kids_nodup hg.1 n)]
    · intro z hz
      obtain ⟨w', hwf'⟩ := hg'.1
      apply hwf'.kid_parent p z
      rw [hkp']
      rcases List.mem_cons.mp hz with rfl | hz'
      · simp
      · simp [hz']

end BS.Heap

namespace BS.Heap

/-- `Tag.insert` over element arguments is the element loop -/
theorem insertArgs_nodes {p : Nat} : ∀ (xs : List Nat) (h : Heap) (pos : Nat), Good2 h → (h.kind p).isTag = true →
    (∀ x ∈ xs, h.kind x ≠ .soup) →
    insertArgs h p pos (xs.map Arg.node) =
      (match insertElems h p pos xs with
       | .error e => .error e
       | .ok (h', pos') => .ok (h', pos', xs)) := by
  intro xs
  induction xs with
  | nil => intro h pos _ _ _; simp [insertArgs, insertElems]
  | cons x xs ih =>
    intro h pos hg hp hk
    have hxk := hk x (by simp)
    simp only [List.map_cons, insertArgs, insertArg1, hxk, if_false, insertElems]
    cases hcore : insertCore h p pos x with
    | error e => rfl
    | ok h1 =>
      simp only
      cases hidx : indexOf h1 p x with
      | none => rfl
      | some i =>
        simp only
        obtain ⟨hg1, hks1⟩ := insertCore_good2 extract_spec linkChild_spec hg hp hxk hcore
        have hp1 : (h1.kind p).isTag = true := by rw [hks1.1 p]; exact hp
        have hk1 : ∀ z ∈ xs, h1.kind z ≠ .soup := fun z hz hs => hk z (by simp [hz]) ((hks1.2 z).mp hs)
        rw [ih h1 (i + 1) hg1 hp1 hk1]
        cases insertElems h1 p (i + 1) xs with
        | error e => rfl
        | ok r => obtain ⟨h3, pos3⟩ := r; simp

/-- the element loop changes the parent of the inserted elements only -/
theorem insertElems_parent {p : Nat} : ∀ (xs : List Nat) (h : Heap) (pos : Nat) (h' : Heap) (pos' : Nat),
    Good2 h → (h.kind p).isTag = true → (∀ x ∈ xs, h.kind x ≠ .soup) →
    insertElems h p pos xs = .ok (h', pos') → ∀ n, n ∉ xs → h'.parent n = h.parent n := by
  intro xs
  induction xs with
  | nil => intro h pos h' pos' _ _ _ hi n _; simp only [insertElems] at hi; cases hi; rfl
  | cons x xs ih =>
    intro h pos h' pos' hg hp hk hi n hn
    have hxk := hk x (by simp)
    simp only [insertElems] at hi
    cases hcore : insertCore h p pos x with
    | error e => simp only [hcore] at hi; cases hi
    | ok h1 =>
      simp only [hcore] at hi
      cases hidx : indexOf h1 p x with
      | none => simp only [hidx] at hi; cases hi
      | some i =>
        simp only [hidx] at hi
        obtain ⟨hg1, hks1⟩ := insertCore_good2 extract_spec linkChild_spec hg hp hxk hcore
        have hp1 : (h1.kind p).isTag = true := by rw [hks1.1 p]; exact hp
        have hk1 : ∀ z ∈ xs, h1.kind z ≠ .soup := fun z hz hs => hk z (by simp [hz]) ((hks1.2 z).mp hs)
        have hsh := insertCore_shape extract_spec linkChild_spec hg.1 hp hxk hcore
        rw [ih h1 (i + 1) h' pos' hg1 hp1 hk1 hi n (fun hm => hn (by simp [hm])), hsh.2.2 n]
        have : n ≠ x := fun e => hn (by simp [e])
        simp [this]

/-- **replace_with(y₁, …, yₙ)** (distinct elements, none of them `x` or `x`'s parent): `x` comes back detached, and the `yᵢ` — each
    removed from wherever it was — stand contiguously, in the given order, where `x` stood; the other children keep their order -/
theorem replaceWith_many_effect {h h' : Heap} {x p : Nat} {ys pre post : List Nat} (hg : Good2 h) (hp : h.parent x = some p)
    (hnd : ys.Nodup) (hxy : x ∉ ys) (hpy : p ∉ ys) (hk : ∀ y ∈ ys, h.kind y ≠ .soup) (hne : ys ≠ [])
    (hsplit : h.kids p = pre ++ x :: post) (hr : replaceWith h x (ys.map Arg.node) = .ok h') :
    h'.kids p = pre.filter (fun k => !ys.contains k) ++ ys ++ post.filter (fun k => !ys.contains k) ∧ h'.parent x = none := by
  have hg0 := hg
  obtain ⟨hgood, hstr⟩ := hg
  obtain ⟨w, hwf⟩ := hgood
  have hptag := wf_parent_isTag hwf hp
  unfold replaceWith at hr
  simp only [hp] at hr
  have hne1 : (ys.map Arg.node = [Arg.node x]) = False := by
    apply propext; constructor
    · intro he
      cases ys with
      | nil => simp at he
      | cons y rest =>
        cases rest with
        | nil => simp at he; exact hxy (by simp [he])
        | cons _ _ => simp at he
    · intro hf; exact hf.elim
  have hself : (ys.map Arg.node).any (isSelf p) = false := by
    rw [List.any_eq_false]
    intro a ha
    obtain ⟨y, hy, rfl⟩ := List.mem_map.mp ha
    simp only [isSelf, decide_eq_true_eq]
    intro e; exact hpy (e ▸ hy)
  simp only [hne1, if_false, hself, Bool.false_eq_true] at hr
  have hnd0 : (pre ++ x :: post).Nodup := by rw [← hsplit]; exact good_kids_nodup ⟨w, hwf⟩ p
  have hxpre : x ∉ pre := fun hm => (List.nodup_append.mp hnd0).2.2 x hm x (by simp) rfl
  have hidx : indexOf h p x = some pre.length := by
    unfold indexOf; rw [hsplit]; exact idxOf?_append_cons_of_not_mem pre post x hxpre
  simp only [hidx] at hr
  cases he : extract h x with
  | error e => simp only [he] at hr; cases hr
  | ok h1 =>
    simp only [he] at hr
    obtain ⟨hg1, hk1, hp1, hkind1, hnext1⟩ := extract_good extract_spec ⟨w, hwf⟩ he
    have hg1' : Good2 h1 := ⟨hg1, fun n hn => by rw [hkind1]; exact hstr n (by omega)⟩
    have hxpost : x ∉ post := by
      intro hm
      have := (List.nodup_append.mp hnd0).2.1
      exact (List.nodup_cons.mp this).1 hm
    have hkp1 : h1.kids p = pre ++ post := by
      rw [hk1 p]; simp only [hp, if_true]; rw [hsplit]
      rw [List.erase_append_right _ hxpre]; simp
    have hptag1 : (h1.kind p).isTag = true := by rw [hkind1]; exact hptag
    have hkys1 : ∀ y ∈ ys, h1.kind y ≠ .soup := fun y hy => by rw [hkind1]; exact hk y hy
    unfold insert at hr
    rw [insertArgs_nodes ys h1 pre.length hg1' hptag1 hkys1] at hr
    cases hel : insertElems h1 p pre.length ys with
    | error e => simp only [hel] at hr; cases hr
    | ok r =>
      obtain ⟨h2, pos2⟩ := r
      simp only [hel] at hr; cases hr
      have hcont := insertElems_contiguous extract_spec linkChild_spec ys h1 pre.length h' pos2 pre [] post
        hg1' hptag1 hnd hkys1 (fun _ _ hm => by cases hm) (by simp [hkp1]) (by simp) hel
      refine ⟨by simpa using hcont.1, ?_⟩
      -- x stays detached: it is not among the inserted elements
      rw [insertElems_parent ys h1 pre.length h' pos2 hg1' hptag1 hkys1 hel x hxy, hp1 x]; simp

end BS.Heap

namespace BS.Heap

/-- the element loop leaves the children of every tag other than the target with exactly the inserted elements removed -/
theorem insertElems_others {p : Nat} : ∀ (xs : List Nat) (h : Heap) (pos : Nat) (h' : Heap) (pos' : Nat),
    Good2 h → (h.kind p).isTag = true → (∀ x ∈ xs, h.kind x ≠ .soup) → xs.Nodup →
    insertElems h p pos xs = .ok (h', pos') → ∀ n, n ≠ p → h'.kids n = (h.kids n).filter (fun k => !xs.contains k) := by
  intro xs
  induction xs with
  | nil =>
    intro h pos h' pos' _ _ _ _ hi n _
    simp only [insertElems] at hi; cases hi
    exact (List.filter_eq_self.mpr (fun _ _ => rfl)).symm
  | cons x xs ih =>
    intro h pos h' pos' hg hp hk hnd hi n hn
    have hxk := hk x (by simp)
    simp only [insertElems] at hi
    cases hcore : insertCore h p pos x with
    | error e => simp only [hcore] at hi; cases hi
    | ok h1 =>
      simp only [hcore] at hi
      cases hidx : indexOf h1 p x with
      | none => simp only [hidx] at hi; cases hi
      | some i =>
        simp only [hidx] at hi
        obtain ⟨hg1, hks1⟩ := insertCore_good2 extract_spec linkChild_spec hg hp hxk hcore
        have hp1 : (h1.kind p).isTag = true := by rw [hks1.1 p]; exact hp
        have hk1 : ∀ z ∈ xs, h1.kind z ≠ .soup := fun z hz hs => hk z (by simp [hz]) ((hks1.2 z).mp hs)
        have hsh := insertCore_shape extract_spec linkChild_spec hg.1 hp hxk hcore
        rw [ih h1 (i + 1) h' pos' hg1 hp1 hk1 (List.nodup_cons.mp hnd).2 hi n hn, hsh.2.1 n hn,
          filter_erase_cons (good_kids_nodup hg.1 n)]

/-- **a whole BeautifulSoup object as the argument of `insert`**: its children — all of them, in order — are moved to the slot,
    contiguously; the BeautifulSoup object itself stays where it was, childless; the other children of the target keep their order -/
theorem insert_soup_effect {h h' : Heap} {p s position : Nat} {ins : List Nat} (hg : Good2 h) (hp : (h.kind p).isTag = true)
    (hs : h.kind s = .soup) (hsp : s ≠ p) (hpos : position ≤ (h.kids p).length)
    (hi : insert h p position [.node s] = .ok (h', ins)) :
    ins = h.kids s ∧
    h'.kids p = ((h.kids p).take position).filter (fun k => !(h.kids s).contains k) ++ h.kids s ++
                ((h.kids p).drop position).filter (fun k => !(h.kids s).contains k) ∧
    h'.kids s = [] := by
  obtain ⟨w, hwf⟩ := hg.1
  unfold insert at hi
  simp only [insertArgs, insertArg1, hs, if_true, hsp, if_false] at hi
  cases hel : insertElems h p position (h.kids s) with
  | error e => simp only [hel] at hi; cases hi
  | ok r =>
    obtain ⟨h2, pos2⟩ := r
    simp only [hel] at hi
    cases hi
    have hnd := good_kids_nodup hg.1 s
    have hk : ∀ x ∈ h.kids s, h.kind x ≠ .soup := fun x hx => wf_kid_not_soup hwf hx
    have hcont := insertElems_contiguous extract_spec linkChild_spec (h.kids s) h position h' pos2
      ((h.kids p).take position) [] ((h.kids p).drop position) hg hp hnd hk (fun _ _ hm => by cases hm) (by simp)
      (by simp [Nat.min_eq_left hpos]) hel
    refine ⟨by simp, by simpa using hcont.1, ?_⟩
    rw [insertElems_others (h.kids s) h position h' pos2 hg hp hk hnd hel s hsp]
    apply List.filter_eq_nil_iff.mpr
    intro a ha
    simp [ha]

end BS.Heap
