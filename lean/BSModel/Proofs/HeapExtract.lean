import BSModel.Proofs.HeapExtractStruct
import BSModel.Proofs.HeapExtractLinks
import BSModel.Proofs.HeapExtractSibs
/-! # Pillar 1: `PageElement.extract` preserves the invariant (cut witness)

`extract_spec : ExtractSpec`. The proof is split over the helper files
`HeapExtractRead` (closed-form field reads of `relinkElems`/`relinkSibs`), `HeapExtractComp` (what `extract`
computes on a well-formed heap: `cutHeap`, and its field reads), `HeapExtractTiles` (list lemmas about `Tiles`),
`HeapExtractGeom` (the cut witness, node by node: `cut_cases`), `HeapExtractStruct` (structural clauses of `WF`),
`HeapExtractLinks` (`next_element`/`previous_element`), `HeapExtractSibs` (`next_sibling`/`previous_sibling`). -/
namespace BS.Heap

/-- the cut heap is well-formed for the cut witness (the case where `x` has a parent) -/
theorem cut_wf {h : Heap} {w : Wit} {x p L : Nat} (hwf : WF h w) (hp : h.parent x = some p)
    (hLt : w.tree L = w.tree x) (hLp : w.pos L + 1 = w.pos x + w.size x) :
    WF (cutHeap h p x L) (cutWit w x) where
  size_pos := cut_size_pos hwf x
  size_cap := fun n => by
    rw [cutHeap_cap]; exact Nat.le_trans (cut_size_le hwf x n) (hwf.size_cap n)
  str_leaf := fun n hn => by
    rw [cutHeap_kind] at hn
    have := hwf.str_leaf n hn
    rw [cutHeap_kids]
    split
    · next e => subst e; rw [this]; rfl
    · exact this
  tiles := fun n => by
    rw [cutHeap_kids]
    by_cases hn : n = p
    · subst hn; simp only [if_true]; exact cut_tiles_parent hwf hp
    · simp only [hn, if_false]; exact cut_tiles_other hwf hp n hn
  kid_parent := fun n k hk => by
    obtain ⟨hk1, hk2⟩ := (cut_mem_kids hwf hp L n k).mp hk
    rw [cutHeap_parent]; simp only [hk2, if_false]; exact hwf.kid_parent n k hk1
  kid_tree := fun n k hk => by
    obtain ⟨hk1, hk2⟩ := (cut_mem_kids hwf hp L n k).mp hk
    exact cut_kid_tree hwf n k hk1 hk2
  parent_kid := fun c q hc => by
    rw [cutHeap_parent] at hc
    by_cases hcx : c = x
    · simp [hcx] at hc
    · simp only [hcx, if_false] at hc
      exact (cut_mem_kids hwf hp L q c).mpr ⟨hwf.parent_kid c q hc, hcx⟩
  root_tree := fun r hr => by
    rw [cutHeap_parent] at hr; exact cut_root_tree hwf hp r hr
  tree_root := fun n => by
    rw [cutHeap_parent]; exact cut_tree_root hwf n
  bound := cut_bound hwf hp
  inj := cut_inj hwf hp
  laminar := cut_laminar hwf hp
  chain_ne := fun a b => by
    rw [cutHeap_ne]; exact cut_chain_ne hwf hp hLt hLp a b
  chain_pe := fun a b => by
    rw [cutHeap_pe]; exact cut_chain_pe hwf hp hLt hLp a b
  sib_ns := fun a b => by
    rw [cutHeap_ns, cutHeap_parent, cutHeap_parent]; exact cut_sib_ns hwf hp a b
  sib_ps := fun a b => by
    rw [cutHeap_ps, cutHeap_parent, cutHeap_parent]; exact cut_sib_ps hwf hp a b
  unl_soup := fun r hr => by
    have := hwf.unl_soup r hr
    rw [cutHeap_kind, cutHeap_parent]
    refine ⟨this.1, ?_⟩
    split
    · rfl
    · exact this.2
  soup_root := fun n hn => by
    rw [cutHeap_kind] at hn
    rw [cutHeap_parent]
    split
    · rfl
    · exact hwf.soup_root n hn
  fresh := fun n hn => by
    rw [cutHeap_next] at hn
    have := hwf.fresh n hn
    rw [cutHeap_parent, cutHeap_kids]
    refine ⟨?_, ?_, this.2.2⟩
    · split
      · rfl
      · exact this.1
    · split
      · next e => subst e; rw [this.2.1]; rfl
      · exact this.2.1

/-! ## the case where `x` is a root: `extract` changes nothing -/

theorem setPe_self (h : Heap) (i : Nat) (v : Option Nat) (hv : h.pe i = v) : setPe h i v = h := by
  cases h; simp only [setPe] at *; congr; funext j; split <;> simp_all
theorem setNe_self (h : Heap) (i : Nat) (v : Option Nat) (hv : h.ne i = v) : setNe h i v = h := by
  cases h; simp only [setNe] at *; congr; funext j; split <;> simp_all
theorem setPs_self (h : Heap) (i : Nat) (v : Option Nat) (hv : h.ps i = v) : setPs h i v = h := by
  cases h; simp only [setPs] at *; congr; funext j; split <;> simp_all
theorem setNs_self (h : Heap) (i : Nat) (v : Option Nat) (hv : h.ns i = v) : setNs h i v = h := by
  cases h; simp only [setNs] at *; congr; funext j; split <;> simp_all
theorem setParent_self (h : Heap) (i : Nat) (v : Option Nat) (hv : h.parent i = v) : setParent h i v = h := by
  cases h; simp only [setParent] at *; congr; funext j; split <;> simp_all

theorem root_links {h : Heap} {w : Wit} {x : Nat} (hwf : WF h w) (hp : h.parent x = none) :
    h.pe x = none ∧ h.ne (lastDown h h.cap x) = none ∧ h.ps x = none ∧ h.ns x = none := by
  obtain ⟨hr1, hr2⟩ := hwf.root_tree x hp
  obtain ⟨hLt, hLp, _⟩ := last_facts h w hwf x
  refine ⟨?_, ?_, ?_, ?_⟩
  · cases hc : h.pe x with
    | none => rfl
    | some a => have := (hwf.chain_pe a x).mp hc; omega
  · cases hc : h.ne (lastDown h h.cap x) with
    | none => rfl
    | some b =>
      have := (hwf.chain_ne _ b).mp hc
      have hb := hwf.bound b
      have hsb := hwf.size_pos b
      have : w.tree b = x := by omega
      rw [this] at hb
      omega
  · cases hc : h.ps x with
    | none => rfl
    | some a =>
      obtain ⟨⟨q, _, hq⟩, _⟩ := (hwf.sib_ps a x).mp hc
      rw [hp] at hq; cases hq
  · cases hc : h.ns x with
    | none => rfl
    | some a =>
      obtain ⟨⟨q, hq, _⟩, _⟩ := (hwf.sib_ns x a).mp hc
      rw [hp] at hq; cases hq

theorem extract_root_id {h : Heap} {w : Wit} {x : Nat} (hwf : WF h w) (hp : h.parent x = none) :
    extract h x = .ok h := by
  obtain ⟨h1, h2, h3, h4⟩ := root_links hwf hp
  rw [extract_root h w hwf x hp]
  have e1 : relinkElems h x (lastDown h h.cap x) = h := by
    unfold relinkElems
    simp only [h1, h2, ne_eq, not_true_eq_false, false_and, if_false]
    rw [setPe_self h x none h1, setNe_self h _ none h2]
  rw [e1, setParent_self h x none hp]
  have e2 : relinkSibs h x = h := by
    unfold relinkSibs
    simp only [h3, h4, ne_eq, not_true_eq_false, false_and, if_false]
    rw [setPs_self h x none h3, setNs_self h x none h4]
  rw [e2]

theorem cutWit_root {h : Heap} {w : Wit} {x : Nat} (hwf : WF h w) (hp : h.parent x = none) :
    cutWit w x = w := by
  obtain ⟨hr1, hr2⟩ := hwf.root_tree x hp
  have key : ∀ m, (cutWit w x).tree m = w.tree m ∧ (cutWit w x).pos m = w.pos m ∧
      (cutWit w x).size m = w.size m := by
    intro m
    have hb := hwf.bound m
    have hsm := hwf.size_pos m
    rcases cut_cases hwf x m with c | c | c | c | c
    · omega
    · omega
    · omega
    · omega
    · have : w.tree m = x := by omega
      rw [this] at hb
      omega
  have e1 : (cutWit w x).tree = w.tree := funext fun m => (key m).1
  have e2 : (cutWit w x).pos = w.pos := funext fun m => (key m).2.1
  have e3 : (cutWit w x).size = w.size := funext fun m => (key m).2.2
  have e4 : (cutWit w x).unl = w.unl := rfl
  cases w
  cases hc : cutWit _ x
  simp only [hc] at e1 e2 e3 e4
  simp only [e1, e2, e3, e4]

/-- **Pillar 1**: `extract` on a well-formed heap -/
theorem extract_spec : ExtractSpec := by
  intro h w x hwf
  cases hp : h.parent x with
  | none =>
    refine ⟨h, extract_root_id hwf hp, ?_, ?_, ?_, rfl, rfl, rfl, rfl⟩
    · rw [cutWit_root hwf hp]; exact hwf
    · intro n; simp
    · intro n
      split
      · next e => subst e; exact hp
      · rfl
  | some p =>
    obtain ⟨hLt, hLp, _⟩ := last_facts h w hwf x
    refine ⟨cutHeap h p x (lastDown h h.cap x), extract_child h w hwf x p hp, cut_wf hwf hp hLt hLp, ?_,
      cutHeap_parent h p x _, cutHeap_kind h p x _, cutHeap_val h p x _, cutHeap_next h p x _,
      cutHeap_cap h p x _⟩
    intro n
    rw [cutHeap_kids]
    by_cases hn : n = p
    · subst hn; simp
    · have : ¬ (some p = some n) := fun e => hn (Option.some.inj e).symm
      simp [hn, this]

/-- the extracted element is detached on all four sides -/
theorem extract_detached {h h' : Heap} {w : Wit} {x : Nat} (hwf : WF h w) (he : extract h x = .ok h') :
    h'.parent x = none ∧ h'.ps x = none ∧ h'.ns x = none ∧ h'.pe x = none := by
  cases hp : h.parent x with
  | none =>
    rw [extract_root_id hwf hp] at he
    cases he
    obtain ⟨h1, _, h3, h4⟩ := root_links hwf hp
    exact ⟨hp, h3, h4, h1⟩
  | some p =>
    rw [extract_child h w hwf x p hp] at he
    cases he
    rw [cutHeap_parent, cutHeap_ps, cutHeap_ns, cutHeap_pe]
    simp

end BS.Heap
