import BSModel.Proofs.HeapExtractRead
/-! what `extract` computes on a well-formed heap -/
namespace BS.Heap

/-- the heap `extract` produces for a child `x` of `p` whose last descendant is `L` -/
def cutHeap (h : Heap) (p x L : Nat) : Heap :=
  relinkSibs (setParent (relinkElems (setKids h p ((h.kids p).erase x)) x L) x none) x

/-- the down-walk from `n` does not read the children list of a node outside `n`'s subtree -/
theorem lastDown_setKids (h : Heap) (w : Wit) (hwf : WF h w) (p : Nat) (l : List Nat) :
    ∀ (f n : Nat), ¬ (w.tree p = w.tree n ∧ w.pos n ≤ w.pos p ∧ w.pos p < w.pos n + w.size n) →
      lastDown (setKids h p l) f n = lastDown h f n := by
  intro f
  induction f with
  | zero => intro n _; rfl
  | succ f ih =>
    intro n hn
    have hnp : n ≠ p := by
      intro e; subst e; have := hwf.size_pos n; apply hn; omega
    have hk : (setKids h p l).kids n = h.kids n := by simp [setKids, hnp]
    have hkind : (setKids h p l).kind = h.kind := rfl
    simp only [lastDown, hk, hkind]
    split
    · cases hl : (h.kids n).getLast? with
      | none => rfl
      | some k =>
        simp only
        have hmem : k ∈ h.kids n := List.mem_of_getLast? hl
        have h1 := tiles_mem _ _ _ _ _ (hwf.tiles n) k hmem
        have h2 := hwf.kid_tree n k hmem
        apply ih
        intro hc
        apply hn
        omega
    · rfl

/-- the last descendant is not a root when `x` is not -/
theorem last_facts (h : Heap) (w : Wit) (hwf : WF h w) (x : Nat) :
    w.tree (lastDown h h.cap x) = w.tree x ∧ w.pos (lastDown h h.cap x) + 1 = w.pos x + w.size x ∧
    h.kids (lastDown h h.cap x) = [] :=
  lastDown_pos h w hwf h.cap x (by have := hwf.size_cap x; omega)

theorem child_pos (h : Heap) (w : Wit) (hwf : WF h w) (x p : Nat) (hp : h.parent x = some p) :
    w.tree x = w.tree p ∧ w.pos p + 1 ≤ w.pos x ∧ w.pos x + w.size x ≤ w.pos p + w.size p := by
  have hmem := hwf.parent_kid x p hp
  have h1 := tiles_mem _ _ _ _ _ (hwf.tiles p) x hmem
  have h2 := hwf.kid_tree p x hmem
  omega

theorem extract_child (h : Heap) (w : Wit) (hwf : WF h w) (x p : Nat) (hp : h.parent x = some p) :
    extract h x = .ok (cutHeap h p x (lastDown h h.cap x)) := by
  have hmem := hwf.parent_kid x p hp
  obtain ⟨hxt, hxp, hxe⟩ := child_pos h w hwf x p hp
  obtain ⟨hLt, hLp, _⟩ := last_facts h w hwf x
  unfold extract
  simp only [hp, indexOf]
  cases hi : (h.kids p).idxOf? x with
  | none => exact absurd hmem (List.idxOf?_eq_none_iff.mp hi)
  | some i =>
    have he : (h.kids p).eraseIdx i = (h.kids p).erase x := by
      rw [List.erase_eq_eraseIdx]; simp [hi]
    simp only [he]
    have hL : lastDescendant (setKids h p ((h.kids p).erase x)) x true = .ok (lastDown h h.cap x) := by
      unfold lastDescendant
      have e1 : (setKids h p ((h.kids p).erase x)).ns = h.ns := rfl
      have e2 : (setKids h p ((h.kids p).erase x)).pe = h.pe := rfl
      have e3 : (setKids h p ((h.kids p).erase x)).cap = h.cap := rfl
      simp only [e1, e2, e3, if_true]
      cases hs : h.ns x with
      | some s =>
        simp only
        have hs' := (hwf.sib_ns x s).mp hs
        obtain ⟨⟨q, hq1, hq2⟩, hsp⟩ := hs'
        have hqp : q = p := by rw [hp] at hq1; exact (Option.some.inj hq1).symm
        subst hqp
        have hst := child_pos h w hwf s q hq2
        have hunl : w.unl (lastDown h h.cap x) = false := by
          cases hu : w.unl (lastDown h h.cap x) with
          | false => rfl
          | true =>
            have := (hwf.root_tree _ (hwf.unl_soup _ hu).2).2
            have := hwf.size_pos x
            omega
        have : h.pe s = some (lastDown h h.cap x) :=
          (hwf.chain_pe (lastDown h h.cap x) s).mpr ⟨hunl, by omega, by omega⟩
        simp [this]
      | none =>
        simp only
        rw [lastDown_setKids h w hwf p _ h.cap x (by omega)]
    simp only [hL]
    rfl

theorem extract_root (h : Heap) (w : Wit) (hwf : WF h w) (x : Nat) (hp : h.parent x = none) :
    extract h x = .ok (relinkSibs (setParent (relinkElems h x (lastDown h h.cap x)) x none) x) := by
  unfold extract
  simp only [hp]
  have hns : h.ns x = none := by
    cases hs : h.ns x with
    | none => rfl
    | some s =>
      obtain ⟨⟨q, hq1, _⟩, _⟩ := (hwf.sib_ns x s).mp hs
      rw [hp] at hq1; cases hq1
  simp [lastDescendant, hns]


/-! ## field reads of `cutHeap` -/
section reads
variable (h : Heap) (p x L : Nat)

theorem cutHeap_ne (a : Nat) : (cutHeap h p x L).ne a =
    if a = L then none else if h.pe x = some a ∧ h.pe x ≠ h.ne L then h.ne L else h.ne a := by
  unfold cutHeap
  rw [(relinkSibs_other _ x).2.2.1]
  show (relinkElems (setKids h p ((h.kids p).erase x)) x L).ne a = _
  rw [relinkElems_ne]; rfl

theorem cutHeap_pe (b : Nat) : (cutHeap h p x L).pe b =
    if b = x then none else if h.ne L = some b ∧ h.ne L ≠ h.pe x then h.pe x else h.pe b := by
  unfold cutHeap
  rw [(relinkSibs_other _ x).2.1]
  show (relinkElems (setKids h p ((h.kids p).erase x)) x L).pe b = _
  rw [relinkElems_pe]; rfl

theorem cutHeap_ns (a : Nat) : (cutHeap h p x L).ns a =
    if a = x then none else if h.ps x = some a ∧ h.ps x ≠ h.ns x then h.ns x else h.ns a := by
  unfold cutHeap
  rw [relinkSibs_ns]
  show (if a = x then none else
    if (relinkElems (setKids h p ((h.kids p).erase x)) x L).ps x = some a ∧
        (relinkElems (setKids h p ((h.kids p).erase x)) x L).ps x ≠
        (relinkElems (setKids h p ((h.kids p).erase x)) x L).ns x
    then (relinkElems (setKids h p ((h.kids p).erase x)) x L).ns x
    else (relinkElems (setKids h p ((h.kids p).erase x)) x L).ns a) = _
  rw [(relinkElems_other _ x L).2.1, (relinkElems_other _ x L).2.2.1]; rfl

theorem cutHeap_ps (b : Nat) : (cutHeap h p x L).ps b =
    if b = x then none else if h.ns x = some b ∧ h.ns x ≠ h.ps x then h.ps x else h.ps b := by
  unfold cutHeap
  rw [relinkSibs_ps]
  show (if b = x then none else
    if (relinkElems (setKids h p ((h.kids p).erase x)) x L).ns x = some b ∧
        (relinkElems (setKids h p ((h.kids p).erase x)) x L).ns x ≠
        (relinkElems (setKids h p ((h.kids p).erase x)) x L).ps x
    then (relinkElems (setKids h p ((h.kids p).erase x)) x L).ps x
    else (relinkElems (setKids h p ((h.kids p).erase x)) x L).ps b) = _
  rw [(relinkElems_other _ x L).2.1, (relinkElems_other _ x L).2.2.1]; rfl

theorem cutHeap_parent (n : Nat) : (cutHeap h p x L).parent n = if n = x then none else h.parent n := by
  unfold cutHeap
  rw [(relinkSibs_other _ x).1]
  show (if n = x then none else (relinkElems (setKids h p ((h.kids p).erase x)) x L).parent n) = _
  rw [(relinkElems_other _ x L).1]; rfl

theorem cutHeap_kids (n : Nat) : (cutHeap h p x L).kids n =
    if n = p then (h.kids p).erase x else h.kids n := by
  unfold cutHeap
  rw [(relinkSibs_other _ x).2.2.2.1]
  show (relinkElems (setKids h p ((h.kids p).erase x)) x L).kids n = _
  rw [(relinkElems_other _ x L).2.2.2.1]; rfl

theorem cutHeap_kind : (cutHeap h p x L).kind = h.kind := by
  unfold cutHeap
  rw [(relinkSibs_other _ x).2.2.2.2.1]
  show (relinkElems (setKids h p ((h.kids p).erase x)) x L).kind = _
  rw [(relinkElems_other _ x L).2.2.2.2.1]; rfl

theorem cutHeap_val : (cutHeap h p x L).val = h.val := by
  unfold cutHeap
  rw [(relinkSibs_other _ x).2.2.2.2.2.1]
  show (relinkElems (setKids h p ((h.kids p).erase x)) x L).val = _
  rw [(relinkElems_other _ x L).2.2.2.2.2.1]; rfl

theorem cutHeap_next : (cutHeap h p x L).next = h.next := by
  unfold cutHeap
  rw [(relinkSibs_other _ x).2.2.2.2.2.2.1]
  show (relinkElems (setKids h p ((h.kids p).erase x)) x L).next = _
  rw [(relinkElems_other _ x L).2.2.2.2.2.2.1]; rfl

theorem cutHeap_cap : (cutHeap h p x L).cap = h.cap := by
  unfold cutHeap
  rw [(relinkSibs_other _ x).2.2.2.2.2.2.2]
  show (relinkElems (setKids h p ((h.kids p).erase x)) x L).cap = _
  rw [(relinkElems_other _ x L).2.2.2.2.2.2.2]; rfl

end reads

end BS.Heap
