import BSModel.Proofs.HeapExtractComp
import BSModel.Proofs.HeapExtractTiles
/-! geometry of the cut: how the cut witness relates to the old one, node by node -/
namespace BS.Heap

section
variable {h : Heap} {w : Wit} {x p : Nat}

/-- no node's tree is named `x` when `x` has a parent -/
theorem tree_ne_x (hwf : WF h w) (hp : h.parent x = some p) (m : Nat) : w.tree m ≠ x := by
  intro e
  have := hwf.tree_root m
  rw [e, hp] at this
  cases this

/-- the values of the cut witness on a node, by the node's place relative to the cut segment -/
theorem cut_vals (hwf : WF h w) (x m : Nat) :
    (w.tree m ≠ w.tree x → (cutWit w x).tree m = w.tree m ∧ (cutWit w x).pos m = w.pos m ∧
      (cutWit w x).size m = w.size m) ∧
    (w.tree m = w.tree x →
      (w.pos x ≤ w.pos m ∧ w.pos m < w.pos x + w.size x ∧ w.pos m + w.size m ≤ w.pos x + w.size x ∧
        (cutWit w x).tree m = x ∧ (cutWit w x).pos m + w.pos x = w.pos m ∧ (cutWit w x).size m = w.size m) ∨
      (w.pos m + w.size m ≤ w.pos x ∧
        (cutWit w x).tree m = w.tree m ∧ (cutWit w x).pos m = w.pos m ∧ (cutWit w x).size m = w.size m) ∨
      (w.pos m < w.pos x ∧ w.pos x + w.size x ≤ w.pos m + w.size m ∧
        (cutWit w x).tree m = w.tree m ∧ (cutWit w x).pos m = w.pos m ∧
        (cutWit w x).size m + w.size x = w.size m ∧ 1 ≤ (cutWit w x).size m) ∨
      (w.pos x + w.size x ≤ w.pos m ∧
        (cutWit w x).tree m = w.tree m ∧ (cutWit w x).pos m + w.size x = w.pos m ∧
        (cutWit w x).size m = w.size m)) := by
  have h1 := hwf.size_pos m
  have h2 := hwf.size_pos x
  have h3 := hwf.laminar m x
  have h4 := hwf.laminar x m
  simp only [cutWit]
  constructor
  · intro hne; simp [hne]
  · intro he
    simp only [he, true_and]
    by_cases c1 : w.pos m < w.pos x
    · by_cases c2 : w.pos x < w.pos m + w.size m
      · have := h3 he (by omega) c2
        right; right; left
        simp only [c1, c2, and_self, if_true]
        have : ¬ w.pos x ≤ w.pos m := by omega
        simp only [this, false_and, if_false]
        and_intros <;> first | trivial | omega
      · right; left
        have : ¬ w.pos x ≤ w.pos m := by omega
        simp only [c1, c2, this, false_and, and_false, if_false, if_true]
        and_intros <;> first | trivial | omega
    · by_cases c2 : w.pos m < w.pos x + w.size x
      · left
        have := h4 he.symm (by omega) c2
        have c3 : w.pos x ≤ w.pos m := by omega
        simp only [c1, c2, c3, and_self, false_and, if_true, if_false]
        and_intros <;> first | trivial | omega
      · right; right; right
        simp only [c1, c2, and_false, false_and, if_false, if_true]
        and_intros <;> first | trivial | omega


/-- facts about a child `k` of `n` in the old heap -/
theorem kid_facts (hwf : WF h w) (n k : Nat) (hk : k ∈ h.kids n) :
    w.tree k = w.tree n ∧ w.pos n + 1 ≤ w.pos k ∧ w.pos k + w.size k ≤ w.pos n + w.size n ∧
    h.parent k = some n := by
  have h1 := tiles_mem _ _ _ _ _ (hwf.tiles n) k hk
  have h2 := hwf.kid_tree n k hk
  have h3 := hwf.kid_parent n k hk
  exact ⟨h2, by omega, by omega, h3⟩

/-- children of a node inside the cut segment are inside it -/
theorem kid_seg_down (hwf : WF h w) (x n k : Nat) (hk : k ∈ h.kids n) (hn : w.tree n = w.tree x)
    (h1 : w.pos x ≤ w.pos n) (h2 : w.pos n < w.pos x + w.size x) :
    w.pos x ≤ w.pos k ∧ w.pos k < w.pos x + w.size x := by
  have := kid_facts hwf n k hk
  have := hwf.laminar x n hn.symm h1 h2
  have := hwf.size_pos k
  omega

/-- a node inside the cut segment other than `x` has its parent inside it -/
theorem kid_seg_up (hwf : WF h w) (x n k : Nat) (hk : k ∈ h.kids n) (hkx : k ≠ x)
    (hkt : w.tree k = w.tree x)
    (h1 : w.pos x ≤ w.pos k) (h2 : w.pos k < w.pos x + w.size x) :
    w.pos x ≤ w.pos n ∧ w.pos n < w.pos x + w.size x := by
  have hkf := kid_facts hwf n k hk
  have hsx := hwf.size_pos x
  have hsk := hwf.size_pos k
  refine ⟨?_, by omega⟩
  apply Classical.byContradiction
  intro hlt
  obtain ⟨c, hc, hc1, hc2⟩ := tiles_cover _ _ _ _ _ (w.pos x) (hwf.tiles n) (by omega) (by omega)
  have hcf := kid_facts hwf n c hc
  have hl := hwf.laminar c x (by omega) hc1 hc2
  have hd := tiles_disjoint _ _ _ _ _ (hwf.tiles n) c hc k hk (by omega) (by omega)
  have hck := tiles_pos_inj _ _ _ _ _ (hwf.tiles n) c hc k hk hd
  subst hck
  exact hkx (hwf.inj c x hkt (by omega))


/-- `cut_vals` as a five-way case split -/
theorem cut_cases (hwf : WF h w) (x m : Nat) :
    (w.tree m ≠ w.tree x ∧ (cutWit w x).tree m = w.tree m ∧ (cutWit w x).pos m = w.pos m ∧
      (cutWit w x).size m = w.size m) ∨
    (w.tree m = w.tree x ∧ w.pos x ≤ w.pos m ∧ w.pos m < w.pos x + w.size x ∧
        w.pos m + w.size m ≤ w.pos x + w.size x ∧
        (cutWit w x).tree m = x ∧ (cutWit w x).pos m + w.pos x = w.pos m ∧ (cutWit w x).size m = w.size m) ∨
    (w.tree m = w.tree x ∧ w.pos m + w.size m ≤ w.pos x ∧
        (cutWit w x).tree m = w.tree m ∧ (cutWit w x).pos m = w.pos m ∧ (cutWit w x).size m = w.size m) ∨
    (w.tree m = w.tree x ∧ w.pos m < w.pos x ∧ w.pos x + w.size x ≤ w.pos m + w.size m ∧
        (cutWit w x).tree m = w.tree m ∧ (cutWit w x).pos m = w.pos m ∧
        (cutWit w x).size m + w.size x = w.size m ∧ 1 ≤ (cutWit w x).size m) ∨
    (w.tree m = w.tree x ∧ w.pos x + w.size x ≤ w.pos m ∧
        (cutWit w x).tree m = w.tree m ∧ (cutWit w x).pos m + w.size x = w.pos m ∧
        (cutWit w x).size m = w.size m) := by
  obtain ⟨h1, h2⟩ := cut_vals hwf x m
  by_cases ht : w.tree m = w.tree x
  · rcases h2 ht with c | c | c | c
    · right; left; exact ⟨ht, c⟩
    · right; right; left; exact ⟨ht, c⟩
    · right; right; right; left; exact ⟨ht, c⟩
    · right; right; right; right; exact ⟨ht, c⟩
  · left; exact ⟨ht, h1 ht⟩

theorem tiles_uniform (hwf : WF h w) (pos' size' : Nat → Nat) (n d : Nat)
    (hn : pos' n + d = w.pos n ∧ size' n = w.size n)
    (hk : ∀ k ∈ h.kids n, pos' k + d = w.pos k ∧ size' k = w.size k) :
    Tiles pos' size' (h.kids n) (pos' n + 1) (pos' n + size' n) := by
  apply tiles_shift w.pos w.size pos' size' d _ _ _ _ hk
  have e1 : pos' n + 1 + d = w.pos n + 1 := by omega
  have e2 : pos' n + size' n + d = w.pos n + w.size n := by omega
  rw [e1, e2]; exact hwf.tiles n

end
end BS.Heap
