import BSModel.Proofs.HeapExtractGeom
/-! the link clauses of `WF (cutHeap h p x L) (cutWit w x)` -/
namespace BS.Heap

section
variable {h : Heap} {w : Wit} {x p L : Nat}

theorem unl_false_of_pos (hwf : WF h w) (a : Nat) (ha : 1 ≤ w.pos a) : w.unl a = false := by
  cases hu : w.unl a with
  | false => rfl
  | true =>
    have := (hwf.root_tree _ (hwf.unl_soup _ hu).2).2
    omega

theorem cut_chain_ne (hwf : WF h w) (hp : h.parent x = some p)
    (hLt : w.tree L = w.tree x) (hLp : w.pos L + 1 = w.pos x + w.size x) (a b : Nat) :
    (if a = L then none else if h.pe x = some a ∧ h.pe x ≠ h.ne L then h.ne L else h.ne a) = some b ↔
    (w.unl a = false ∧ (cutWit w x).tree a = (cutWit w x).tree b ∧
      (cutWit w x).pos b = (cutWit w x).pos a + 1) := by
  have hxf := child_pos h w hwf x p hp
  have hsx := hwf.size_pos x
  have hsa := hwf.size_pos a
  have hsb := hwf.size_pos b
  have na := tree_ne_x hwf hp a
  have nb := tree_ne_x hwf hp b
  have huL : w.unl L = false := unl_false_of_pos hwf L (by omega)
  have e1 := hwf.chain_ne a b
  have e2 := hwf.chain_ne L b
  have e3 := hwf.chain_pe a x
  have e4 := hwf.chain_ne L a
  have i1 := hwf.inj a L
  have i2 := hwf.inj b x
  have ca := cut_cases hwf x a
  have cb := cut_cases hwf x b
  by_cases hal : a = L
  · subst hal
    simp only [if_true]
    constructor
    · intro hc; cases hc
    · rintro ⟨_, ht, hpos⟩
      exfalso
      clear e1 e2 e3 e4 i1 i2
      rcases ca with c | c | c | c | c <;> rcases cb with c' | c' | c' | c' | c' <;> omega
  · simp only [hal, if_false]
    by_cases hpr : h.pe x = some a
    · have hpa := e3.mp hpr
      have hne : h.pe x ≠ h.ne L := by
        rw [hpr]; intro hc
        have := e4.mp hc.symm
        omega
      rw [if_pos ⟨hpr, hne⟩, e2]
      constructor
      · rintro ⟨_, ht, hpos⟩
        refine ⟨hpa.1, ?_⟩
        clear e1 e2 e3 e4 i1 i2
        rcases ca with c | c | c | c | c <;> rcases cb with c' | c' | c' | c' | c' <;> omega
      · rintro ⟨_, ht, hpos⟩
        refine ⟨huL, ?_⟩
        clear e1 e2 e3 e4 i1 i2
        rcases ca with c | c | c | c | c <;> rcases cb with c' | c' | c' | c' | c' <;> omega
    · have : ¬ (h.pe x = some a ∧ h.pe x ≠ h.ne L) := fun hc => hpr hc.1
      simp only [this, if_false]
      rw [e1]
      have hpr' : ¬ (w.unl a = false ∧ w.tree a = w.tree x ∧ w.pos x = w.pos a + 1) := fun hc => hpr (e3.mpr hc)
      constructor
      · rintro ⟨hu, ht, hpos⟩
        have : ¬ (w.tree a = w.tree x ∧ w.pos x = w.pos a + 1) := fun hc => hpr' ⟨hu, hc⟩
        have hL : ¬ (w.tree a = w.tree L ∧ w.pos a = w.pos L) := fun hc => hal (i1 hc.1 hc.2)
        refine ⟨hu, ?_⟩
        clear e1 e2 e3 e4 i1 i2
        rcases ca with c | c | c | c | c <;> rcases cb with c' | c' | c' | c' | c' <;> omega
      · rintro ⟨hu, ht, hpos⟩
        have : ¬ (w.tree a = w.tree x ∧ w.pos x = w.pos a + 1) := fun hc => hpr' ⟨hu, hc⟩
        refine ⟨hu, ?_⟩
        clear e1 e2 e3 e4 i1 i2
        rcases ca with c | c | c | c | c <;> rcases cb with c' | c' | c' | c' | c' <;> omega

theorem cut_chain_pe (hwf : WF h w) (hp : h.parent x = some p)
    (hLt : w.tree L = w.tree x) (hLp : w.pos L + 1 = w.pos x + w.size x) (a b : Nat) :
    (if b = x then none else if h.ne L = some b ∧ h.ne L ≠ h.pe x then h.pe x else h.pe b) = some a ↔
    (w.unl a = false ∧ (cutWit w x).tree a = (cutWit w x).tree b ∧
      (cutWit w x).pos b = (cutWit w x).pos a + 1) := by
  have hxf := child_pos h w hwf x p hp
  have hsx := hwf.size_pos x
  have hsa := hwf.size_pos a
  have hsb := hwf.size_pos b
  have na := tree_ne_x hwf hp a
  have nb := tree_ne_x hwf hp b
  have huL : w.unl L = false := unl_false_of_pos hwf L (by omega)
  have e1 := hwf.chain_pe a b
  have e2 := hwf.chain_pe a x
  have e3 := hwf.chain_ne L b
  have e4 := hwf.chain_pe b x
  have i2 := hwf.inj b x
  have ca := cut_cases hwf x a
  have cb := cut_cases hwf x b
  by_cases hbx : b = x
  · subst hbx
    simp only [if_true]
    constructor
    · intro hc; cases hc
    · rintro ⟨_, ht, hpos⟩
      exfalso
      rcases cb with c' | c' | c' | c' | c' <;> omega
  · simp only [hbx, if_false]
    by_cases hsu : h.ne L = some b
    · have hsb' := e3.mp hsu
      have hne : h.ne L ≠ h.pe x := by
        rw [hsu]; intro hc
        have := e4.mp hc.symm
        omega
      rw [if_pos ⟨hsu, hne⟩, e2]
      constructor
      · rintro ⟨hu, ht, hpos⟩
        refine ⟨hu, ?_⟩
        clear e1 e2 e3 e4 i2
        rcases ca with c | c | c | c | c <;> rcases cb with c' | c' | c' | c' | c' <;> omega
      · rintro ⟨hu, ht, hpos⟩
        refine ⟨hu, ?_⟩
        clear e1 e2 e3 e4 i2
        rcases ca with c | c | c | c | c <;> rcases cb with c' | c' | c' | c' | c' <;> omega
    · have : ¬ (h.ne L = some b ∧ h.ne L ≠ h.pe x) := fun hc => hsu hc.1
      simp only [this, if_false]
      rw [e1]
      have hsu' : ¬ (w.tree L = w.tree b ∧ w.pos b = w.pos L + 1) := fun hc => hsu (e3.mpr ⟨huL, hc⟩)
      have hx' : ¬ (w.tree b = w.tree x ∧ w.pos b = w.pos x) := fun hc => hbx (i2 hc.1 hc.2)
      constructor
      · rintro ⟨hu, ht, hpos⟩
        refine ⟨hu, ?_⟩
        clear e1 e2 e3 e4 i2
        rcases ca with c | c | c | c | c <;> rcases cb with c' | c' | c' | c' | c' <;> omega
      · rintro ⟨hu, ht, hpos⟩
        refine ⟨hu, ?_⟩
        clear e1 e2 e3 e4 i2
        rcases ca with c | c | c | c | c <;> rcases cb with c' | c' | c' | c' | c' <;> omega


end
end BS.Heap
