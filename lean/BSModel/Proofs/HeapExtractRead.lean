import BSModel.Proofs.HeapBasics
/-! # Pillar 1: `PageElement.extract` preserves the invariant (cut witness) -/
namespace BS.Heap

/-! ## read lemmas for the primitives -/

theorem relinkElems_ne (h : Heap) (x last a : Nat) :
    (relinkElems h x last).ne a =
      if a = last then none
      else if h.pe x = some a ∧ h.pe x ≠ h.ne last then h.ne last else h.ne a := by
  unfold relinkElems
  rcases hp : h.pe x with _ | p <;> rcases hn : h.ne last with _ | n <;>
    simp [setNe, setPe, setNeO, setPeO] <;> (try split) <;> (try split) <;> simp_all <;> grind

theorem relinkElems_pe (h : Heap) (x last b : Nat) :
    (relinkElems h x last).pe b =
      if b = x then none
      else if h.ne last = some b ∧ h.ne last ≠ h.pe x then h.pe x else h.pe b := by
  unfold relinkElems
  rcases hp : h.pe x with _ | p <;> rcases hn : h.ne last with _ | n <;>
    simp [setNe, setPe, setNeO, setPeO] <;> (try split) <;> (try split) <;> simp_all <;> grind

theorem setNeO_other (h : Heap) (i v) :
    (setNeO h i v).parent = h.parent ∧ (setNeO h i v).ps = h.ps ∧ (setNeO h i v).ns = h.ns ∧
    (setNeO h i v).pe = h.pe ∧ (setNeO h i v).kids = h.kids ∧ (setNeO h i v).kind = h.kind ∧
    (setNeO h i v).val = h.val ∧ (setNeO h i v).next = h.next ∧ (setNeO h i v).cap = h.cap := by
  cases i <;> simp [setNeO, setNe]

theorem setPeO_other (h : Heap) (i v) :
    (setPeO h i v).parent = h.parent ∧ (setPeO h i v).ps = h.ps ∧ (setPeO h i v).ns = h.ns ∧
    (setPeO h i v).ne = h.ne ∧ (setPeO h i v).kids = h.kids ∧ (setPeO h i v).kind = h.kind ∧
    (setPeO h i v).val = h.val ∧ (setPeO h i v).next = h.next ∧ (setPeO h i v).cap = h.cap := by
  cases i <;> simp [setPeO, setPe]

theorem setNsO_other (h : Heap) (i v) :
    (setNsO h i v).parent = h.parent ∧ (setNsO h i v).ps = h.ps ∧ (setNsO h i v).ne = h.ne ∧
    (setNsO h i v).pe = h.pe ∧ (setNsO h i v).kids = h.kids ∧ (setNsO h i v).kind = h.kind ∧
    (setNsO h i v).val = h.val ∧ (setNsO h i v).next = h.next ∧ (setNsO h i v).cap = h.cap := by
  cases i <;> simp [setNsO, setNs]

theorem setPsO_other (h : Heap) (i v) :
    (setPsO h i v).parent = h.parent ∧ (setPsO h i v).ns = h.ns ∧ (setPsO h i v).ne = h.ne ∧
    (setPsO h i v).pe = h.pe ∧ (setPsO h i v).kids = h.kids ∧ (setPsO h i v).kind = h.kind ∧
    (setPsO h i v).val = h.val ∧ (setPsO h i v).next = h.next ∧ (setPsO h i v).cap = h.cap := by
  cases i <;> simp [setPsO, setPs]

theorem relinkElems_other (h : Heap) (x last : Nat) :
    (relinkElems h x last).parent = h.parent ∧ (relinkElems h x last).ps = h.ps ∧
    (relinkElems h x last).ns = h.ns ∧ (relinkElems h x last).kids = h.kids ∧
    (relinkElems h x last).kind = h.kind ∧ (relinkElems h x last).val = h.val ∧
    (relinkElems h x last).next = h.next ∧ (relinkElems h x last).cap = h.cap := by
  unfold relinkElems
  simp only []
  split <;> split <;> simp [setNe, setPe, setNeO_other, setPeO_other]

theorem relinkSibs_ns (h : Heap) (x a : Nat) :
    (relinkSibs h x).ns a =
      if a = x then none
      else if h.ps x = some a ∧ h.ps x ≠ h.ns x then h.ns x else h.ns a := by
  unfold relinkSibs
  rcases hp : h.ps x with _ | p <;> rcases hn : h.ns x with _ | n <;>
    simp [setNs, setPs, setNsO, setPsO] <;> (try split) <;> (try split) <;> simp_all <;> grind

theorem relinkSibs_ps (h : Heap) (x b : Nat) :
    (relinkSibs h x).ps b =
      if b = x then none
      else if h.ns x = some b ∧ h.ns x ≠ h.ps x then h.ps x else h.ps b := by
  unfold relinkSibs
  rcases hp : h.ps x with _ | p <;> rcases hn : h.ns x with _ | n <;>
    simp [setNs, setPs, setNsO, setPsO] <;> (try split) <;> (try split) <;> simp_all <;> grind

theorem relinkSibs_other (h : Heap) (x : Nat) :
    (relinkSibs h x).parent = h.parent ∧ (relinkSibs h x).pe = h.pe ∧
    (relinkSibs h x).ne = h.ne ∧ (relinkSibs h x).kids = h.kids ∧
    (relinkSibs h x).kind = h.kind ∧ (relinkSibs h x).val = h.val ∧
    (relinkSibs h x).next = h.next ∧ (relinkSibs h x).cap = h.cap := by
  unfold relinkSibs
  simp only []
  split <;> split <;> simp [setNs, setPs, setNsO_other, setPsO_other]

end BS.Heap
