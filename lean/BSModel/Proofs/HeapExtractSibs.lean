import BSModel.Proofs.HeapExtractGeom
/-! the sibling-link clauses of `WF (cutHeap h p x L) (cutWit w x)` -/
namespace BS.Heap

section
variable {h : Heap} {w : Wit} {x p : Nat}

/-- two children of `q` around a gap that starts at `pos x`: then `q` is `x`'s parent -/
theorem gap_parent (hwf : WF h w) (hp : h.parent x = some p) (q a b : Nat)
    (ha : a ∈ h.kids q) (hb : b ∈ h.kids q) (hta : w.tree a = w.tree x)
    (h1 : w.pos a + w.size a = w.pos x) (h2 : w.pos x < w.pos b) : q = p := by
  have hbf := kid_facts hwf q b hb
  have haf := kid_facts hwf q a ha
  have hsb := hwf.size_pos b
  obtain ⟨c, hc, hcp⟩ := tiles_adjacent _ _ _ _ _ a (hwf.tiles q) ha (by omega)
  have hcf := kid_facts hwf q c hc
  have : c = x := hwf.inj c x (by omega) (by omega)
  subst this
  have := hcf.2.2.2
  rw [hp] at this
  exact (Option.some.inj this).symm

/-- adjacency of two children (neither of them `x`) before and after the cut -/
theorem sib_adj (hwf : WF h w) (hp : h.parent x = some p) (q a b : Nat)
    (ha : a ∈ h.kids q) (hb : b ∈ h.kids q) (hax : a ≠ x) (hbx : b ≠ x) :
    (w.pos b = w.pos a + w.size a → (cutWit w x).pos b = (cutWit w x).pos a + (cutWit w x).size a) ∧
    ((cutWit w x).pos b = (cutWit w x).pos a + (cutWit w x).size a →
      w.pos b = w.pos a + w.size a ∨
      (q = p ∧ w.pos a + w.size a = w.pos x ∧ w.pos b = w.pos x + w.size x)) := by
  have hsx := hwf.size_pos x
  have hsa := hwf.size_pos a
  have hsb := hwf.size_pos b
  have haf := kid_facts hwf q a ha
  have hbf := kid_facts hwf q b hb
  have ua := kid_seg_up hwf x q a ha hax
  have ub := kid_seg_up hwf x q b hb hbx
  have da := kid_seg_down hwf x q a ha
  have db := kid_seg_down hwf x q b hb
  have hg := gap_parent hwf hp q a b ha hb
  have ca := cut_cases hwf x a
  have cb := cut_cases hwf x b
  constructor
  · intro hadj
    rcases ca with c | c | c | c | c <;> rcases cb with c' | c' | c' | c' | c' <;> omega
  · intro hadj
    by_cases hgap : w.tree a = w.tree x ∧ w.pos a + w.size a = w.pos x ∧ w.pos b = w.pos x + w.size x
    · right
      exact ⟨hg hgap.1 hgap.2.1 (by omega), hgap.2.1, hgap.2.2⟩
    · left
      rcases ca with c | c | c | c | c <;> rcases cb with c' | c' | c' | c' | c' <;> omega

theorem some_parent_eq {a q q' : Nat} (h1 : h.parent a = some q) (h2 : h.parent a = some q') : q = q' := by
  rw [h1] at h2; exact Option.some.inj h2

theorem cut_sib_ns (hwf : WF h w) (hp : h.parent x = some p) (a b : Nat) :
    (if a = x then none else if h.ps x = some a ∧ h.ps x ≠ h.ns x then h.ns x else h.ns a) = some b ↔
    ((∃ q, (if a = x then none else h.parent a) = some q ∧ (if b = x then none else h.parent b) = some q) ∧
      (cutWit w x).pos b = (cutWit w x).pos a + (cutWit w x).size a) := by
  have hsx := hwf.size_pos x
  have hsa := hwf.size_pos a
  have hsb := hwf.size_pos b
  have hxm := hwf.parent_kid x p hp
  have hxf := kid_facts hwf p x hxm
  by_cases hax : a = x
  · subst hax
    simp
  · simp only [hax, if_false]
    by_cases hpr : h.ps x = some a
    · obtain ⟨⟨q, hq1, hq2⟩, hpos⟩ := (hwf.sib_ps a x).mp hpr
      have := some_parent_eq hq2 hp; subst this
      have ham := hwf.parent_kid a q hq1
      have haf := kid_facts hwf q a ham
      have ca := cut_cases hwf x a
      have hne : h.ps x ≠ h.ns x := by
        rw [hpr]; intro hc
        have := ((hwf.sib_ns x a).mp hc.symm).2
        omega
      rw [if_pos ⟨hpr, hne⟩, hwf.sib_ns x b]
      constructor
      · rintro ⟨⟨q', hq1', hq2'⟩, hpos'⟩
        have := some_parent_eq hq1' hp; subst this
        have hbx : b ≠ x := by intro e; subst e; omega
        have hbm := hwf.parent_kid b q' hq2'
        have hbf := kid_facts hwf q' b hbm
        have cb := cut_cases hwf x b
        refine ⟨⟨q', hq1, by simp [hbx, hq2']⟩, ?_⟩
        rcases ca with c | c | c | c | c <;> rcases cb with c' | c' | c' | c' | c' <;> omega
      · rintro ⟨⟨q', hq1', hq2'⟩, hpos'⟩
        have := some_parent_eq hq1' hq1; subst this
        by_cases hbx : b = x
        · simp [hbx] at hq2'
        · simp only [hbx, if_false] at hq2'
          have hbm := hwf.parent_kid b q' hq2'
          have hbf := kid_facts hwf q' b hbm
          have ub := kid_seg_up hwf x q' b hbm hbx
          have cb := cut_cases hwf x b
          refine ⟨⟨q', hp, hq2'⟩, ?_⟩
          rcases ca with c | c | c | c | c <;> rcases cb with c' | c' | c' | c' | c' <;> omega
    · have : ¬ (h.ps x = some a ∧ h.ps x ≠ h.ns x) := fun hc => hpr hc.1
      simp only [this, if_false]
      rw [hwf.sib_ns a b]
      constructor
      · rintro ⟨⟨q, hq1, hq2⟩, hpos⟩
        have hbx : b ≠ x := by
          intro e; subst e
          exact hpr ((hwf.sib_ps a b).mpr ⟨⟨q, hq1, hq2⟩, hpos⟩)
        have ham := hwf.parent_kid a q hq1
        have hbm := hwf.parent_kid b q hq2
        refine ⟨⟨q, hq1, by simp [hbx, hq2]⟩, ?_⟩
        exact (sib_adj hwf hp q a b ham hbm hax hbx).1 hpos
      · rintro ⟨⟨q, hq1, hq2⟩, hpos⟩
        by_cases hbx : b = x
        · simp [hbx] at hq2
        · simp only [hbx, if_false] at hq2
          have ham := hwf.parent_kid a q hq1
          have hbm := hwf.parent_kid b q hq2
          refine ⟨⟨q, hq1, hq2⟩, ?_⟩
          rcases (sib_adj hwf hp q a b ham hbm hax hbx).2 hpos with hh | ⟨hqp, hg1, hg2⟩
          · exact hh
          · exfalso
            subst hqp
            exact hpr ((hwf.sib_ps a x).mpr ⟨⟨q, hq1, hp⟩, hg1.symm⟩)

theorem cut_sib_ps (hwf : WF h w) (hp : h.parent x = some p) (a b : Nat) :
    (if b = x then none else if h.ns x = some b ∧ h.ns x ≠ h.ps x then h.ps x else h.ps b) = some a ↔
    ((∃ q, (if a = x then none else h.parent a) = some q ∧ (if b = x then none else h.parent b) = some q) ∧
      (cutWit w x).pos b = (cutWit w x).pos a + (cutWit w x).size a) := by
  have hsx := hwf.size_pos x
  have hsa := hwf.size_pos a
  have hsb := hwf.size_pos b
  have hxm := hwf.parent_kid x p hp
  have hxf := kid_facts hwf p x hxm
  by_cases hbx : b = x
  · subst hbx
    simp
  · simp only [hbx, if_false]
    by_cases hsu : h.ns x = some b
    · obtain ⟨⟨q, hq1, hq2⟩, hpos⟩ := (hwf.sib_ns x b).mp hsu
      have := some_parent_eq hq1 hp; subst this
      have hbm := hwf.parent_kid b q hq2
      have hbf := kid_facts hwf q b hbm
      have cb := cut_cases hwf x b
      have hne : h.ns x ≠ h.ps x := by
        rw [hsu]; intro hc
        have := ((hwf.sib_ps b x).mp hc.symm).2
        omega
      rw [if_pos ⟨hsu, hne⟩, hwf.sib_ps a x]
      constructor
      · rintro ⟨⟨q', hq1', hq2'⟩, hpos'⟩
        have := some_parent_eq hq2' hp; subst this
        have hax : a ≠ x := by intro e; subst e; omega
        have ham := hwf.parent_kid a q' hq1'
        have haf := kid_facts hwf q' a ham
        have ca := cut_cases hwf x a
        refine ⟨⟨q', by simp [hax, hq1'], hq2⟩, ?_⟩
        rcases ca with c | c | c | c | c <;> rcases cb with c' | c' | c' | c' | c' <;> omega
      · rintro ⟨⟨q', hq1', hq2'⟩, hpos'⟩
        have := some_parent_eq hq2' hq2; subst this
        by_cases hax : a = x
        · simp [hax] at hq1'
        · simp only [hax, if_false] at hq1'
          have ham := hwf.parent_kid a q' hq1'
          have haf := kid_facts hwf q' a ham
          have ua := kid_seg_up hwf x q' a ham hax
          have d1 := tiles_disjoint _ _ _ _ _ (hwf.tiles q') a ham x hxm
          have ca := cut_cases hwf x a
          refine ⟨⟨q', hq1', hp⟩, ?_⟩
          rcases ca with c | c | c | c | c <;> rcases cb with c' | c' | c' | c' | c' <;> omega
    · have : ¬ (h.ns x = some b ∧ h.ns x ≠ h.ps x) := fun hc => hsu hc.1
      simp only [this, if_false]
      rw [hwf.sib_ps a b]
      constructor
      · rintro ⟨⟨q, hq1, hq2⟩, hpos⟩
        have hax : a ≠ x := by
          intro e; subst e
          exact hsu ((hwf.sib_ns a b).mpr ⟨⟨q, hq1, hq2⟩, hpos⟩)
        have ham := hwf.parent_kid a q hq1
        have hbm := hwf.parent_kid b q hq2
        refine ⟨⟨q, by simp [hax, hq1], hq2⟩, ?_⟩
        exact (sib_adj hwf hp q a b ham hbm hax hbx).1 hpos
      · rintro ⟨⟨q, hq1, hq2⟩, hpos⟩
        by_cases hax : a = x
        · simp [hax] at hq1
        · simp only [hax, if_false] at hq1
          have ham := hwf.parent_kid a q hq1
          have hbm := hwf.parent_kid b q hq2
          refine ⟨⟨q, hq1, hq2⟩, ?_⟩
          rcases (sib_adj hwf hp q a b ham hbm hax hbx).2 hpos with hh | ⟨hqp, hg1, hg2⟩
          · exact hh
          · exfalso
            subst hqp
            exact hsu ((hwf.sib_ns x b).mpr ⟨⟨q, hp, hq2⟩, hg2⟩)


end
end BS.Heap
