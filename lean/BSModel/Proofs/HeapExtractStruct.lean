import BSModel.Proofs.HeapExtractGeom
/-! the structural clauses of `WF (cutHeap h p x L) (cutWit w x)` -/
namespace BS.Heap

section
variable {h : Heap} {w : Wit} {x p : Nat}

theorem cut_size_pos (hwf : WF h w) (x n : Nat) : 1 ≤ (cutWit w x).size n := by
  have := hwf.size_pos n
  rcases cut_cases hwf x n with c | c | c | c | c <;> omega

theorem cut_size_le (hwf : WF h w) (x n : Nat) : (cutWit w x).size n ≤ w.size n := by
  rcases cut_cases hwf x n with c | c | c | c | c <;> omega

theorem cut_tiles_parent (hwf : WF h w) (hp : h.parent x = some p) :
    Tiles (cutWit w x).pos (cutWit w x).size ((h.kids p).erase x)
      ((cutWit w x).pos p + 1) ((cutWit w x).pos p + (cutWit w x).size p) := by
  have hmem := hwf.parent_kid x p hp
  have hxf := kid_facts hwf p x hmem
  have hsx := hwf.size_pos x
  have ht := hwf.tiles p
  apply tiles_erase w.pos w.size _ _ x (h.kids p) _ _ _ hmem
  · intro k hk hkx
    have hkf := kid_facts hwf p k hk
    have hsk := hwf.size_pos k
    have d1 := tiles_disjoint _ _ _ _ _ ht k hk x hmem
    have d2 := tiles_disjoint _ _ _ _ _ ht x hmem k hk
    have d3 := tiles_pos_inj _ _ _ _ _ ht k hk x hmem
    have hne : w.pos k ≠ w.pos x := fun e => hkx (d3 e)
    rcases cut_cases hwf x k with c | c | c | c | c <;> omega
  · have e : (cutWit w x).pos p + 1 = w.pos p + 1 ∧
        (cutWit w x).pos p + (cutWit w x).size p + w.size x = w.pos p + w.size p := by
      rcases cut_cases hwf x p with c | c | c | c | c <;> omega
    rw [e.1, e.2]; exact ht

theorem cut_tiles_other (hwf : WF h w) (hp : h.parent x = some p) (n : Nat) (hn : n ≠ p) :
    Tiles (cutWit w x).pos (cutWit w x).size (h.kids n)
      ((cutWit w x).pos n + 1) ((cutWit w x).pos n + (cutWit w x).size n) := by
  have hsx := hwf.size_pos x
  have hxn : ∀ k ∈ h.kids n, k ≠ x := by
    intro k hk e; subst e
    have := hwf.kid_parent n k hk
    rw [hp] at this; exact hn (Option.some.inj this).symm
  rcases cut_cases hwf x n with c | c | c | c | c
  · -- another tree
    apply tiles_uniform hwf _ _ n 0 (by omega)
    intro k hk
    have hkf := kid_facts hwf n k hk
    rcases cut_cases hwf x k with c' | c' | c' | c' | c' <;> omega
  · -- inside the segment
    apply tiles_uniform hwf _ _ n (w.pos x) (by omega)
    intro k hk
    have hkf := kid_facts hwf n k hk
    have := kid_seg_down hwf x n k hk c.1 c.2.1 c.2.2.1
    rcases cut_cases hwf x k with c' | c' | c' | c' | c' <;> omega
  · -- before the segment
    apply tiles_uniform hwf _ _ n 0 (by omega)
    intro k hk
    have hkf := kid_facts hwf n k hk
    have hsk := hwf.size_pos k
    rcases cut_cases hwf x k with c' | c' | c' | c' | c' <;> omega
  · -- a proper ancestor of `x`
    have ht := hwf.tiles n
    have := (tiles_cut w.pos w.size (cutWit w x).pos (cutWit w x).size (w.pos x) (w.size x) hsx
      (h.kids n) _ _ ht ?_).1 (by omega) (by omega)
    · have e : (cutWit w x).pos n + 1 = w.pos n + 1 ∧
          (cutWit w x).pos n + (cutWit w x).size n = w.pos n + w.size n - w.size x := by omega
      rw [e.1, e.2]; exact this
    · intro k hk
      have hkf := kid_facts hwf n k hk
      have hsk := hwf.size_pos k
      have hup := kid_seg_up hwf x n k hk (hxn k hk)
      rcases cut_cases hwf x k with c' | c' | c' | c' | c'
      · omega
      · have := hup c'.1 c'.2.1 c'.2.2.1; omega
      · left; omega
      · right; left; omega
      · right; right; omega
  · -- after the segment
    apply tiles_uniform hwf _ _ n (w.size x) (by omega)
    intro k hk
    have hkf := kid_facts hwf n k hk
    rcases cut_cases hwf x k with c' | c' | c' | c' | c' <;> omega

/-- membership in the new children lists -/
theorem cut_mem_kids (hwf : WF h w) (hp : h.parent x = some p) (L n k : Nat) :
    k ∈ (cutHeap h p x L).kids n ↔ k ∈ h.kids n ∧ k ≠ x := by
  rw [cutHeap_kids]
  by_cases hn : n = p
  · subst hn
    simp only [if_true]
    rw [(tiles_nodup _ _ _ _ _ (hwf.tiles n)).mem_erase_iff]
    exact And.comm
  · simp only [hn, if_false]
    constructor
    · intro hk
      refine ⟨hk, ?_⟩
      intro e; subst e
      have := hwf.kid_parent n k hk
      rw [hp] at this; exact hn (Option.some.inj this).symm
    · exact fun hk => hk.1

theorem cut_kid_tree (hwf : WF h w) (n k : Nat) (hk : k ∈ h.kids n) (hkx : k ≠ x) :
    (cutWit w x).tree k = (cutWit w x).tree n := by
  have hkf := kid_facts hwf n k hk
  have hsk := hwf.size_pos k
  have hup := kid_seg_up hwf x n k hk hkx
  have hdn := kid_seg_down hwf x n k hk
  rcases cut_cases hwf x n with c | c | c | c | c <;>
    rcases cut_cases hwf x k with c' | c' | c' | c' | c' <;> omega

theorem cut_root_tree (hwf : WF h w) (hp : h.parent x = some p) (r : Nat)
    (hr : (if r = x then none else h.parent r) = none) :
    (cutWit w x).tree r = r ∧ (cutWit w x).pos r = 0 := by
  have hsx := hwf.size_pos x
  have hxf := child_pos h w hwf x p hp
  by_cases hrx : r = x
  · subst hrx
    rcases cut_cases hwf r r with c | c | c | c | c <;> omega
  · simp only [hrx, if_false] at hr
    have := hwf.root_tree r hr
    rcases cut_cases hwf x r with c | c | c | c | c <;> omega

theorem cut_tree_root (hwf : WF h w) (n : Nat) :
    (if (cutWit w x).tree n = x then none else h.parent ((cutWit w x).tree n)) = none := by
  by_cases e : (cutWit w x).tree n = x
  · simp [e]
  · simp only [e, if_false]
    have := hwf.tree_root n
    rcases cut_cases hwf x n with c | c | c | c | c
    all_goals first | (rw [c.2.1]; exact this) | (rw [c.2.2.1]; exact this) | (rw [c.2.2.2.1]; exact this) | (exfalso; omega)

/-- the root of `x`'s old tree is a proper ancestor of `x` -/
theorem cut_root_vals (hwf : WF h w) (hp : h.parent x = some p) :
    (cutWit w x).size (w.tree x) + w.size x = w.size (w.tree x) := by
  have hsx := hwf.size_pos x
  have hxf := child_pos h w hwf x p hp
  have hr := hwf.root_tree _ (hwf.tree_root x)
  have hb := hwf.bound x
  rcases cut_cases hwf x (w.tree x) with c | c | c | c | c <;> omega

theorem tree_tree (hwf : WF h w) (n : Nat) : w.tree (w.tree n) = w.tree n :=
  (hwf.root_tree _ (hwf.tree_root n)).1

theorem cut_bound (hwf : WF h w) (hp : h.parent x = some p) (n : Nat) :
    (cutWit w x).pos n + (cutWit w x).size n ≤ (cutWit w x).size ((cutWit w x).tree n) := by
  have hb := hwf.bound n
  have hrv := cut_root_vals hwf hp
  have hxf := child_pos h w hwf x p hp
  have hbx := hwf.bound x
  rcases cut_cases hwf x n with c | c | c | c | c
  · rw [c.2.1]
    have ht := tree_tree hwf n
    rcases cut_cases hwf x (w.tree n) with c' | c' | c' | c' | c' <;> omega
  · rw [c.2.2.2.2.1]
    rcases cut_cases hwf x x with c' | c' | c' | c' | c' <;> omega
  · rw [c.2.2.1, c.1]; rw [c.1] at hb; omega
  · rw [c.2.2.2.1, c.1]; rw [c.1] at hb; omega
  · rw [c.2.2.1, c.1]; rw [c.1] at hb; omega

theorem cut_inj (hwf : WF h w) (hp : h.parent x = some p) (a b : Nat)
    (ht : (cutWit w x).tree a = (cutWit w x).tree b) (hpos : (cutWit w x).pos a = (cutWit w x).pos b) :
    a = b := by
  have hi := hwf.inj a b
  have na := tree_ne_x hwf hp a
  have nb := tree_ne_x hwf hp b
  have hsx := hwf.size_pos x
  have hsa := hwf.size_pos a
  have hsb := hwf.size_pos b
  apply hi <;>
  rcases cut_cases hwf x a with c | c | c | c | c <;>
    rcases cut_cases hwf x b with c' | c' | c' | c' | c' <;> omega

theorem cut_laminar (hwf : WF h w) (hp : h.parent x = some p) (a b : Nat)
    (ht : (cutWit w x).tree a = (cutWit w x).tree b) (h1 : (cutWit w x).pos a ≤ (cutWit w x).pos b)
    (h2 : (cutWit w x).pos b < (cutWit w x).pos a + (cutWit w x).size a) :
    (cutWit w x).pos b + (cutWit w x).size b ≤ (cutWit w x).pos a + (cutWit w x).size a := by
  have hl := hwf.laminar a b
  have na := tree_ne_x hwf hp a
  have nb := tree_ne_x hwf hp b
  have hsx := hwf.size_pos x
  have hsb := hwf.size_pos b
  rcases cut_cases hwf x a with c | c | c | c | c <;>
    rcases cut_cases hwf x b with c' | c' | c' | c' | c' <;> omega

end
end BS.Heap
