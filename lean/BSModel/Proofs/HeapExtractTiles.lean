import BSModel.Proofs.HeapBasics
/-! list lemmas about `Tiles` needed for the cut witness -/
namespace BS.Heap

/-- a uniform downward shift by `d` -/
theorem tiles_shift (pos size pos' size' : Nat → Nat) (d : Nat) :
    ∀ (ks : List Nat) (s e : Nat), Tiles pos size ks (s + d) (e + d) →
      (∀ k ∈ ks, pos' k + d = pos k ∧ size' k = size k) → Tiles pos' size' ks s e := by
  intro ks
  induction ks with
  | nil => intro s e h _; simp [Tiles] at h ⊢; omega
  | cons a l ih =>
    intro s e h hk
    obtain ⟨ha, ha1, hr⟩ := h
    have e1 := hk a (by simp)
    refine ⟨by omega, by omega, ?_⟩
    apply ih
    · have e : s + size' a + d = s + d + size a := by omega
      rw [e]; exact hr
    · intro k hk'; exact hk k (by simp [hk'])

theorem tiles_nodup (pos size : Nat → Nat) :
    ∀ (ks : List Nat) (s e : Nat), Tiles pos size ks s e → ks.Nodup := by
  intro ks
  induction ks with
  | nil => intro _ _ _; exact List.nodup_nil
  | cons a l ih =>
    intro s e h
    obtain ⟨ha, ha1, hr⟩ := h
    refine List.nodup_cons.mpr ⟨?_, ih _ _ hr⟩
    intro hm
    have := tiles_mem pos size l _ _ hr a hm
    omega

/-- erasing the child `x`: later children shift down by `size x` -/
theorem tiles_erase (pos size pos' size' : Nat → Nat) (x : Nat) :
    ∀ (ks : List Nat) (s e : Nat), Tiles pos size ks s (e + size x) → x ∈ ks →
      (∀ k ∈ ks, k ≠ x → size' k = size k ∧ (pos k < pos x → pos' k = pos k) ∧
        (pos x < pos k → pos' k + size x = pos k)) →
      Tiles pos' size' (ks.erase x) s e := by
  intro ks
  induction ks with
  | nil => intro s e _ hx; simp at hx
  | cons a l ih =>
    intro s e h hx hk
    obtain ⟨ha, ha1, hr⟩ := h
    by_cases hax : a = x
    · subst hax
      rw [List.erase_cons_head]
      apply tiles_shift pos size pos' size' (size a) l s e hr
      intro k hkl
      have hm := tiles_mem pos size l _ _ hr k hkl
      have hne : k ≠ a := by intro e'; subst e'; omega
      have := hk k (by simp [hkl]) hne
      exact ⟨this.2.2 (by omega), this.1⟩
    · have hxl : x ∈ l := by
        rcases List.mem_cons.mp hx with e' | e'
        · exact absurd e'.symm hax
        · exact e'
      rw [List.erase_cons_tail (by simpa using hax)]
      have hm := tiles_mem pos size l _ _ hr x hxl
      have e1 := hk a (by simp) hax
      refine ⟨by rw [e1.2.1 (by omega)]; exact ha, by omega, ?_⟩
      rw [e1.1]
      apply ih (s + size a) e hr hxl
      intro k hkl; exact hk k (by simp [hkl])

/-- cutting the segment `[X, X+S)` out of a tiled range: children before it stay, the one child that contains
    it shrinks, children after it shift down -/
theorem tiles_cut (pos size pos' size' : Nat → Nat) (X S : Nat) (hS : 1 ≤ S) :
    ∀ (ks : List Nat) (s e : Nat), Tiles pos size ks s e →
      (∀ k ∈ ks,
        (pos k + size k ≤ X ∧ pos' k = pos k ∧ size' k = size k) ∨
        (pos k < X ∧ X + S ≤ pos k + size k ∧ pos' k = pos k ∧ size' k + S = size k ∧ 1 ≤ size' k) ∨
        (X + S ≤ pos k ∧ pos' k + S = pos k ∧ size' k = size k)) →
      (s ≤ X → X + S ≤ e → Tiles pos' size' ks s (e - S)) ∧
      (X + S ≤ s → Tiles pos' size' ks (s - S) (e - S)) := by
  intro ks
  induction ks with
  | nil =>
    intro s e h _
    simp [Tiles] at h ⊢
    omega
  | cons a l ih =>
    intro s e h hk
    obtain ⟨ha, ha1, hr⟩ := h
    have hm := tiles_mono pos size l _ _ hr
    have iht := ih (s + size a) e hr (fun k hkl => hk k (by simp [hkl]))
    have hka := hk a (by simp)
    constructor
    · intro h1 h2
      rcases hka with ⟨c1, c2, c3⟩ | ⟨c1, c2, c3, c4, c5⟩ | ⟨c1, c2, c3⟩
      · refine ⟨by omega, by omega, ?_⟩
        rw [c3]; exact iht.1 (by omega) h2
      · refine ⟨by omega, c5, ?_⟩
        have := iht.2 (by omega)
        have e' : s + size' a = s + size a - S := by omega
        rw [e']; exact this
      · omega
    · intro h1
      rcases hka with ⟨c1, c2, c3⟩ | ⟨c1, c2, c3, c4, c5⟩ | ⟨c1, c2, c3⟩
      · omega
      · omega
      · refine ⟨by omega, by omega, ?_⟩
        have := iht.2 (by omega)
        have e' : s - S + size' a = s + size a - S := by omega
        rw [e']; exact this

theorem tiles_pos_inj (pos size : Nat → Nat) :
    ∀ (ks : List Nat) (s e : Nat), Tiles pos size ks s e →
      ∀ a ∈ ks, ∀ b ∈ ks, pos a = pos b → a = b := by
  intro ks
  induction ks with
  | nil => intro s e _ a ha; simp at ha
  | cons c l ih =>
    intro s e h a ha b hb hab
    obtain ⟨hc, hc1, hr⟩ := h
    rcases List.mem_cons.mp ha with rfl | ha' <;> rcases List.mem_cons.mp hb with rfl | hb'
    · rfl
    · have := tiles_mem pos size l _ _ hr b hb'; omega
    · have := tiles_mem pos size l _ _ hr a ha'; omega
    · exact ih _ _ hr a ha' b hb' hab

/-- a child that does not end the range is followed by a child -/
theorem tiles_adjacent (pos size : Nat → Nat) (ks : List Nat) (s e a : Nat) (ht : Tiles pos size ks s e)
    (ha : a ∈ ks) (hlt : pos a + size a < e) : ∃ c ∈ ks, pos c = pos a + size a := by
  have hm := tiles_mem pos size ks s e ht a ha
  obtain ⟨c, hc, hc1, hc2⟩ := tiles_cover pos size ks s e (pos a + size a) ht (by omega) hlt
  refine ⟨c, hc, ?_⟩
  have d1 := tiles_disjoint pos size ks s e ht a ha c hc
  have d2 := tiles_disjoint pos size ks s e ht c hc a ha
  have d3 := tiles_pos_inj pos size ks s e ht a ha c hc
  by_cases hpc : pos a = pos c
  · have := d3 hpc; subst this; omega
  · omega

end BS.Heap
