import BSModel.Proofs.HeapBasics
/-! # Every navigation view of a well-formed heap is the pre-order walk of the children lists

`pre h.kids f n` is the specification: the recursive pre-order walk over `contents`. On a heap with `WF h w`
the fuelled pointer chases of `Model/Heap.lean` (`nextElements`, `previousElements`, `nextSiblings`,
`previousSiblings`, `parents`, `descendants`) are closed-form slices of that walk; in particular the ghost fuel
`h.cap` always suffices (termination is part of every equation). Core Lean only. -/
namespace BS.Heap

/-- the specification: recursive pre-order walk of the children lists (fuel = bound on the depth) -/
def pre (kids : Nat → List Nat) : Nat → Nat → List Nat
  | 0, n => [n]
  | f + 1, n => n :: (kids n).flatMap (pre kids f)

/-- document order of the tree rooted at `r` -/
def docOrder (h : Heap) (r : Nat) : List Nat := pre h.kids h.cap r

/-! ## 0. small facts about `Tiles` and `WF` -/

/-- a list whose `j`-th element sits at position `s + j` of tree `t` -/
def Consec (w : Wit) (l : List Nat) (t s : Nat) : Prop :=
  ∀ j (h : j < l.length), w.pos l[j] = s + j ∧ w.tree l[j] = t

theorem consec_append (w : Wit) (l₁ l₂ : List Nat) (t s : Nat)
    (h1 : Consec w l₁ t s) (h2 : Consec w l₂ t (s + l₁.length)) : Consec w (l₁ ++ l₂) t s := by
  intro j hj
  by_cases hlt : j < l₁.length
  · rw [List.getElem_append_left hlt]; exact h1 j hlt
  · have hge : l₁.length ≤ j := by omega
    rw [List.getElem_append_right hge]
    have := h2 (j - l₁.length) (by simp only [List.length_append] at hj; omega)
    refine ⟨by omega, this.2⟩

theorem flatMap_congr' {α β : Type} (f g : α → List β) : ∀ (l : List α), (∀ a ∈ l, f a = g a) →
    l.flatMap f = l.flatMap g := by
  intro l; induction l with
  | nil => intro _; rfl
  | cons a l ih =>
    intro hfg
    simp only [List.flatMap_cons]
    rw [hfg a (by simp), ih (fun b hb => hfg b (by simp [hb]))]

/-- a child is strictly smaller than its parent -/
theorem wf_kid_lt {h : Heap} {w : Wit} (hwf : WF h w) {n k : Nat} (hk : k ∈ h.kids n) :
    w.pos n + 1 ≤ w.pos k ∧ w.pos k + w.size k ≤ w.pos n + w.size n ∧ 1 ≤ w.size k := by
  have := tiles_mem w.pos w.size (h.kids n) _ _ (hwf.tiles n) k hk
  omega

theorem wf_size_one_kids {h : Heap} {w : Wit} (hwf : WF h w) {n : Nat} (hs : w.size n ≤ 1) : h.kids n = [] := by
  cases hk : h.kids n with
  | nil => rfl
  | cons a l =>
    have := wf_kid_lt hwf (n := n) (k := a) (by simp [hk])
    omega

theorem wf_root_self {h : Heap} {w : Wit} (hwf : WF h w) (n : Nat) :
    w.tree (w.tree n) = w.tree n ∧ w.pos (w.tree n) = 0 := hwf.root_tree _ (hwf.tree_root n)

theorem wf_pos_lt {h : Heap} {w : Wit} (hwf : WF h w) (n : Nat) : w.pos n < w.size (w.tree n) := by
  have := hwf.bound n; have := hwf.size_pos n; omega

/-- a node with a parent is not at position 0, hence not an unlinked root -/
theorem wf_parent_pos' {h : Heap} {w : Wit} (hwf : WF h w) {c p : Nat} (hp : h.parent c = some p) :
    w.tree c = w.tree p ∧ w.pos p + 1 ≤ w.pos c ∧ w.pos c + w.size c ≤ w.pos p + w.size p := by
  have hk := hwf.parent_kid c p hp
  have := wf_kid_lt hwf hk
  exact ⟨hwf.kid_tree p c hk, this.1, this.2.1⟩

theorem wf_unl_pos {h : Heap} {w : Wit} (hwf : WF h w) {a : Nat} (hp : 1 ≤ w.pos a) : w.unl a = false := by
  cases hu : w.unl a with
  | false => rfl
  | true =>
    have := (hwf.root_tree a (hwf.unl_soup a hu).2).2
    omega

/-- the only node at position 0 of a tree is its root -/
theorem wf_pos_zero {h : Heap} {w : Wit} (hwf : WF h w) {a : Nat} (hp : w.pos a = 0) : a = w.tree a := by
  have := wf_root_self hwf a
  exact hwf.inj a (w.tree a) this.1.symm (by omega)

/-! ## 1. the recursive pre-order occupies consecutive positions; fuel irrelevance -/

theorem pre_consec {h : Heap} {w : Wit} (hwf : WF h w) :
    ∀ (f n : Nat), w.size n ≤ f + 1 →
      (pre h.kids f n).length = w.size n ∧ Consec w (pre h.kids f n) (w.tree n) (w.pos n) := by
  intro f
  induction f with
  | zero =>
    intro n hsz
    have h1 := hwf.size_pos n
    simp only [pre, List.length_singleton]
    refine ⟨by omega, ?_⟩
    intro j hj
    simp only [List.length_singleton] at hj
    have : j = 0 := by omega
    subst this; simp
  | succ f ih =>
    intro n hsz
    have h1 := hwf.size_pos n
    have ht := hwf.tiles n
    have kidsPart : ∀ (ks : List Nat) (s e : Nat), Tiles w.pos w.size ks s e →
        (∀ k ∈ ks, w.size k ≤ f + 1 ∧ w.tree k = w.tree n) →
        (ks.flatMap (pre h.kids f)).length + s = e ∧ Consec w (ks.flatMap (pre h.kids f)) (w.tree n) s := by
      intro ks
      induction ks with
      | nil =>
        intro s e h _
        simp only [Tiles] at h
        refine ⟨by simp [h], ?_⟩
        intro j hj; simp at hj
      | cons k ks ihk =>
        intro s e h hs
        obtain ⟨hk, hk1, hr⟩ := h
        have hk' := hs k (by simp)
        have a := ih k hk'.1
        have b := ihk (s + w.size k) e hr (fun k' hk' => hs k' (by simp [hk']))
        simp only [List.flatMap_cons, List.length_append]
        refine ⟨by omega, ?_⟩
        apply consec_append
        · rw [← hk, ← hk'.2]; exact a.2
        · rw [a.1]; exact b.2
    have small : ∀ k ∈ h.kids n, w.size k ≤ f + 1 ∧ w.tree k = w.tree n := by
      intro k hk
      have := wf_kid_lt hwf hk
      exact ⟨by omega, hwf.kid_tree n k hk⟩
    have kp := kidsPart (h.kids n) _ _ ht small
    simp only [pre, List.length_cons]
    refine ⟨by omega, ?_⟩
    intro j hj
    cases j with
    | zero => simp
    | succ j =>
      simp only [List.getElem_cons_succ]
      have := kp.2 j (by simp only [List.length_cons] at hj; omega)
      exact ⟨by omega, this.2⟩

/-- item 1 in the requested shape -/
theorem pre_consec' {h : Heap} {w : Wit} (hwf : WF h w) (f n : Nat) (hsz : w.size n ≤ f + 1) :
    (pre h.kids f n).length = w.size n ∧
    ∀ j (hj : j < (pre h.kids f n).length),
      w.pos (pre h.kids f n)[j] = w.pos n + j ∧ w.tree (pre h.kids f n)[j] = w.tree n :=
  pre_consec hwf f n hsz

/-- fuel irrelevance: any fuel `≥ size n - 1` gives the same walk -/
theorem pre_fuel {h : Heap} {w : Wit} (hwf : WF h w) :
    ∀ (f g n : Nat), w.size n ≤ f + 1 → w.size n ≤ g + 1 → pre h.kids f n = pre h.kids g n := by
  intro f
  induction f with
  | zero =>
    intro g n hf _
    have hk := wf_size_one_kids hwf (n := n) (by omega)
    cases g with
    | zero => rfl
    | succ g => simp [pre, hk]
  | succ f ih =>
    intro g n hf hg
    cases g with
    | zero =>
      have hk := wf_size_one_kids hwf (n := n) (by omega)
      simp [pre, hk]
    | succ g =>
      simp only [pre]
      congr 1
      apply flatMap_congr'
      intro k hk
      have := wf_kid_lt hwf hk
      exact ih g k (by omega) (by omega)

/-! ## 2. `docOrder` of a root enumerates exactly the nodes of its tree, by position -/

theorem docOrder_length {h : Heap} {w : Wit} (hwf : WF h w) (r : Nat) :
    (docOrder h r).length = w.size r :=
  (pre_consec hwf h.cap r (by have := hwf.size_cap r; omega)).1

theorem docOrder_getElem {h : Heap} {w : Wit} (hwf : WF h w) {r : Nat} (hr : h.parent r = none)
    (j : Nat) (hj : j < (docOrder h r).length) :
    w.pos (docOrder h r)[j] = j ∧ w.tree (docOrder h r)[j] = r := by
  have := (pre_consec hwf h.cap r (by have := hwf.size_cap r; omega)).2 j hj
  have hrt := hwf.root_tree r hr
  rw [hrt.1, hrt.2] at this
  exact ⟨by unfold docOrder; omega, this.2⟩

/-- the `j`-th element of the document order is the unique node of the tree at position `j` -/
theorem docOrder_getElem? {h : Heap} {w : Wit} (hwf : WF h w) {r : Nat} (hr : h.parent r = none) (j m : Nat) :
    (docOrder h r)[j]? = some m ↔ (w.tree m = r ∧ w.pos m = j) := by
  constructor
  · intro hm
    obtain ⟨hj, rfl⟩ := List.getElem?_eq_some_iff.mp hm
    have := docOrder_getElem hwf hr j hj
    exact ⟨this.2, this.1⟩
  · rintro ⟨ht, hp⟩
    have hlt : j < (docOrder h r).length := by
      rw [docOrder_length hwf _]; have := wf_pos_lt hwf m; rw [ht] at this; omega
    have := docOrder_getElem hwf hr j hlt
    rw [List.getElem?_eq_getElem hlt]
    congr 1
    exact hwf.inj _ _ (by rw [this.2, ht]) (by omega)

/-- every node sits in the document order of its own tree, at its own position -/
theorem docOrder_self {h : Heap} {w : Wit} (hwf : WF h w) (m : Nat) :
    (docOrder h (w.tree m))[w.pos m]? = some m :=
  (docOrder_getElem? hwf (hwf.tree_root m) _ _).mpr ⟨rfl, rfl⟩

theorem docOrder_mem {h : Heap} {w : Wit} (hwf : WF h w) {r : Nat} (hr : h.parent r = none) (m : Nat) :
    m ∈ docOrder h r ↔ w.tree m = r := by
  constructor
  · intro hm
    obtain ⟨j, hj, rfl⟩ := List.getElem_of_mem hm
    exact (docOrder_getElem hwf hr j hj).2
  · intro ht
    have := docOrder_self hwf m
    rw [ht] at this
    exact List.mem_of_getElem? this

theorem docOrder_nodup {h : Heap} {w : Wit} (hwf : WF h w) {r : Nat} (hr : h.parent r = none) :
    (docOrder h r).Nodup := by
  unfold List.Nodup
  rw [List.pairwise_iff_getElem]
  intro i j hi hj hij heq
  have a := (docOrder_getElem hwf hr i hi).1
  have b := (docOrder_getElem hwf hr j hj).1
  rw [heq] at a
  omega

/-- every position below the size of the tree is occupied (by exactly one node, see `WF.inj`) -/
theorem pos_surj {h : Heap} {w : Wit} (hwf : WF h w) {r : Nat} (hr : h.parent r = none) (j : Nat)
    (hj : j < w.size r) : ∃ m, w.tree m = r ∧ w.pos m = j ∧ ∀ m', w.tree m' = r → w.pos m' = j → m' = m := by
  have hlt : j < (docOrder h r).length := by rw [docOrder_length hwf _]; exact hj
  have := docOrder_getElem hwf hr j hlt
  refine ⟨(docOrder h r)[j], this.2, this.1, ?_⟩
  intro m' ht hp
  exact hwf.inj _ _ (by rw [this.2, ht]) (by omega)

/-- item 2 -/
theorem docOrder_complete {h : Heap} {w : Wit} (hwf : WF h w) {r : Nat} (hr : h.parent r = none) :
    (∀ m, m ∈ docOrder h r ↔ w.tree m = r) ∧ (docOrder h r).Nodup ∧ (docOrder h r).length = w.size r ∧
    (∀ j m, (docOrder h r)[j]? = some m ↔ (w.tree m = r ∧ w.pos m = j)) ∧
    (∀ j, j < w.size r → ∃ m, w.tree m = r ∧ w.pos m = j) :=
  ⟨docOrder_mem hwf hr, docOrder_nodup hwf hr, docOrder_length hwf _, docOrder_getElem? hwf hr,
   fun j hj => by obtain ⟨m, h1, h2, _⟩ := pos_surj hwf hr j hj; exact ⟨m, h1, h2⟩⟩

/-! ## 3. `next_element` / `previous_element` are the document-order successor / predecessor -/

theorem next_element_is_successor {h : Heap} {w : Wit} (hwf : WF h w) (a : Nat) :
    (w.unl a = false → h.ne a = (docOrder h (w.tree a))[w.pos a + 1]?) ∧ (w.unl a = true → h.ne a = none) := by
  have hr := hwf.tree_root a
  constructor
  · intro hu
    cases hL : (docOrder h (w.tree a))[w.pos a + 1]? with
    | some b =>
      have := (docOrder_getElem? hwf hr _ _).mp hL
      exact (hwf.chain_ne a b).mpr ⟨hu, this.1.symm, this.2⟩
    | none =>
      cases hn : h.ne a with
      | none => rfl
      | some b =>
        have hb := (hwf.chain_ne a b).mp hn
        have := (docOrder_getElem? hwf hr (w.pos a + 1) b).mpr ⟨hb.2.1.symm, hb.2.2⟩
        rw [hL] at this; cases this
  · intro hu
    cases hn : h.ne a with
    | none => rfl
    | some b =>
      have hb := (hwf.chain_ne a b).mp hn
      rw [hu] at hb; cases hb.1

theorem previous_element_is_predecessor {h : Heap} {w : Wit} (hwf : WF h w) (b : Nat) :
    h.pe b = if w.pos b = 0 then none
             else if w.unl (w.tree b) = true ∧ w.pos b = 1 then none
             else (docOrder h (w.tree b))[w.pos b - 1]? := by
  have hr := hwf.tree_root b
  have hrs := wf_root_self hwf b
  split
  · rename_i h0
    cases hn : h.pe b with
    | none => rfl
    | some a => have := (hwf.chain_pe a b).mp hn; omega
  · rename_i h0
    split
    · rename_i h1
      cases hn : h.pe b with
      | none => rfl
      | some a =>
        have ha := (hwf.chain_pe a b).mp hn
        have : a = w.tree a := wf_pos_zero hwf (by omega)
        rw [ha.2.1] at this
        rw [this, h1.1] at ha
        cases ha.1
    · rename_i h1
      have hlt : w.pos b - 1 < (docOrder h (w.tree b)).length := by
        rw [docOrder_length hwf _]; have := wf_pos_lt hwf b; omega
      rw [List.getElem?_eq_getElem hlt]
      have ha := docOrder_getElem hwf hr _ hlt
      refine (hwf.chain_pe _ b).mpr ⟨?_, ha.2, by omega⟩
      cases hu : w.unl (docOrder h (w.tree b))[w.pos b - 1] with
      | false => rfl
      | true =>
        exfalso
        have hz := (hwf.root_tree _ (hwf.unl_soup _ hu).2)
        rw [ha.2] at hz
        have hu' := hu
        rw [← hz.1] at hu'
        exact h1 ⟨hu', by omega⟩

/-! ## 4. `next_elements` / `previous_elements` -/

theorem chase_none (step : Nat → Option Nat) (f : Nat) : chase step f none = [] := by
  cases f <;> rfl

/-- chasing `next_element` from the node at position `j ≥ 1` yields the rest of the document order -/
theorem chase_ne_drop {h : Heap} {w : Wit} (hwf : WF h w) {r : Nat} (hr : h.parent r = none) :
    ∀ (f j : Nat), 1 ≤ j → w.size r ≤ f + j →
      chase h.ne f (docOrder h r)[j]? = (docOrder h r).drop j := by
  intro f
  induction f with
  | zero =>
    intro j _ hf
    have : (docOrder h r).length ≤ j := by rw [docOrder_length hwf r]; omega
    rw [List.drop_eq_nil_of_le this]; rfl
  | succ f ih =>
    intro j hj hf
    by_cases hlt : j < (docOrder h r).length
    · have he := docOrder_getElem hwf hr j hlt
      rw [List.getElem?_eq_getElem hlt, List.drop_eq_getElem_cons hlt]
      simp only [chase]
      congr 1
      have hne := (next_element_is_successor hwf (docOrder h r)[j]).1 (wf_unl_pos hwf (by omega))
      rw [he.2, he.1] at hne
      rw [hne]
      exact ih (j + 1) (by omega) (by omega)
    · have hle : (docOrder h r).length ≤ j := by omega
      rw [List.drop_eq_nil_of_le hle, List.getElem?_eq_none hle, chase_none]

/-- item 4a: `next_elements` is the part of the document order after the element; the fuel `h.cap` suffices -/
theorem nextElements_eq {h : Heap} {w : Wit} (hwf : WF h w) (x : Nat) :
    (w.unl x = false → nextElements h x = (docOrder h (w.tree x)).drop (w.pos x + 1)) ∧
    (w.unl x = true → nextElements h x = []) := by
  have hs := next_element_is_successor hwf x
  constructor
  · intro hu
    unfold nextElements
    rw [hs.1 hu]
    apply chase_ne_drop hwf (hwf.tree_root x)
    · omega
    · have := hwf.size_cap (w.tree x); omega
  · intro hu
    unfold nextElements
    rw [hs.2 hu, chase_none]

/-- chasing `previous_element`; `d = 1` when the root is an unlinked BeautifulSoup object (the chain stops
    before it), `d = 0` otherwise -/
theorem chase_pe_take {h : Heap} {w : Wit} (hwf : WF h w) {r : Nat} (hr : h.parent r = none) (d : Nat)
    (hd : d = if w.unl r = true then 1 else 0) :
    ∀ (f j : Nat), j ≤ f → j ≤ w.size r →
      chase h.pe f (if j ≤ d then none else (docOrder h r)[j - 1]?) = (((docOrder h r).take j).drop d).reverse := by
  intro f
  induction f with
  | zero =>
    intro j hj _
    have : j = 0 := by omega
    subst this
    simp [chase]
  | succ f ih =>
    intro j hj hsz
    by_cases hjd : j ≤ d
    · rw [if_pos hjd, chase_none]
      have : ((docOrder h r).take j).drop d = [] := by
        apply List.drop_eq_nil_of_le
        rw [List.length_take]; omega
      rw [this]; rfl
    · rw [if_neg hjd]
      have hlt : j - 1 < (docOrder h r).length := by rw [docOrder_length hwf r]; omega
      have he := docOrder_getElem hwf hr (j - 1) hlt
      rw [List.getElem?_eq_getElem hlt]
      simp only [chase]
      have hpe := previous_element_is_predecessor hwf (docOrder h r)[j - 1]
      rw [he.2, he.1] at hpe
      have hcond : (if j - 1 = 0 then none
          else if w.unl r = true ∧ j - 1 = 1 then none else (docOrder h r)[j - 1 - 1]?) =
          (if j - 1 ≤ d then none else (docOrder h r)[j - 1 - 1]?) := by
        generalize (docOrder h r)[j - 1 - 1]? = X
        by_cases hu : w.unl r = true
        · have hd1 : d = 1 := by simp [hd, hu]
          by_cases h1 : j - 1 = 0
          · rw [if_pos h1, if_pos (by omega)]
          · rw [if_neg h1]
            by_cases h2 : j - 1 = 1
            · rw [if_pos ⟨hu, h2⟩, if_pos (by omega)]
            · rw [if_neg (by intro hh; exact h2 hh.2), if_neg (by omega)]
        · have hd0 : d = 0 := by simp [hd, hu]
          by_cases h1 : j - 1 = 0
          · rw [if_pos h1, if_pos (by omega)]
          · rw [if_neg h1, if_neg (by intro hh; exact hu hh.1), if_neg (by omega)]
      rw [hpe, hcond, ih (j - 1) (by omega) (by omega)]
      have hj1 : j = (j - 1) + 1 := by omega
      have ht : (docOrder h r).take j = (docOrder h r).take (j - 1) ++ [(docOrder h r)[j - 1]] := by
        conv => lhs; rw [hj1]
        rw [List.take_add_one, List.getElem?_eq_getElem hlt]; rfl
      rw [ht, List.drop_append_of_le_length (by rw [List.length_take]; omega), List.reverse_append]
      rfl

/-- item 4b: `previous_elements` is the reversed part of the document order before the element, without the
    root when that is an unlinked BeautifulSoup object -/
theorem previousElements_eq {h : Heap} {w : Wit} (hwf : WF h w) (x : Nat) :
    (w.unl (w.tree x) = false →
      previousElements h x = ((docOrder h (w.tree x)).take (w.pos x)).reverse) ∧
    (w.unl (w.tree x) = true →
      previousElements h x = (((docOrder h (w.tree x)).take (w.pos x)).drop 1).reverse) := by
  have hr := hwf.tree_root x
  have hpe := previous_element_is_predecessor hwf x
  have hcap := hwf.size_cap (w.tree x)
  have hlt := wf_pos_lt hwf x
  constructor
  · intro hu
    have := chase_pe_take hwf hr 0 (by simp [hu]) h.cap (w.pos x) (by omega) (by omega)
    rw [List.drop_zero] at this
    rw [← this]
    unfold previousElements
    rw [hpe]
    simp [hu]
  · intro hu
    have := chase_pe_take hwf hr 1 (by simp [hu]) h.cap (w.pos x) (by omega) (by omega)
    rw [← this]
    unfold previousElements
    rw [hpe]
    congr 1
    by_cases h0 : w.pos x = 0
    · simp [h0]
    · by_cases h1 : w.pos x = 1
      · simp [h1, hu]
      · have : ¬ (w.pos x ≤ 1) := by omega
        simp [h0, h1, this]

/-! ## 5. `next_siblings` / `previous_siblings` -/

theorem tiles_nodup_it (pos size : Nat → Nat) : ∀ (ks : List Nat) (s e : Nat), Tiles pos size ks s e → ks.Nodup := by
  intro ks; induction ks with
  | nil => intro _ _ _; exact List.nodup_nil
  | cons k ks ih =>
    intro s e ht
    obtain ⟨hk, hk1, hr⟩ := ht
    refine List.nodup_cons.mpr ⟨?_, ih _ _ hr⟩
    intro hmem
    have := tiles_mem pos size ks _ _ hr k hmem
    omega

/-- children lists are duplicate-free -/
theorem kids_nodup {h : Heap} {w : Wit} (hwf : WF h w) (n : Nat) : (h.kids n).Nodup :=
  tiles_nodup_it _ _ _ _ _ (hwf.tiles n)

theorem tiles_length (pos size : Nat → Nat) : ∀ (ks : List Nat) (s e : Nat), Tiles pos size ks s e →
    s + ks.length ≤ e := by
  intro ks; induction ks with
  | nil => intro s e ht; simp only [Tiles] at ht; simp [ht]
  | cons k ks ih =>
    intro s e ht
    obtain ⟨_, hk1, hr⟩ := ht
    have := ih _ _ hr
    simp only [List.length_cons]; omega

/-- consecutive children occupy adjacent intervals; the first starts at `s`, the last ends at `e` -/
theorem tiles_adj (pos size : Nat → Nat) : ∀ (ks : List Nat) (s e i a : Nat), Tiles pos size ks s e →
    ks[i]? = some a →
    (i = 0 → pos a = s) ∧
    (∀ b, ks[i + 1]? = some b → pos b = pos a + size a) ∧ (ks[i + 1]? = none → pos a + size a = e) := by
  intro ks; induction ks with
  | nil => intro s e i a _ h; simp at h
  | cons k ks ih =>
    intro s e i a ht ha
    obtain ⟨hk, hk1, hr⟩ := ht
    cases i with
    | zero =>
      simp only [List.getElem?_cons_zero, Option.some.injEq] at ha
      subst ha
      refine ⟨fun _ => hk, ?_, ?_⟩
      · intro b hb
        simp only [Nat.zero_add, List.getElem?_cons_succ] at hb
        cases ks with
        | nil => simp at hb
        | cons c ks' =>
          simp only [List.getElem?_cons_zero, Option.some.injEq] at hb
          subst hb
          have := hr.1; omega
      · intro hb
        simp only [Nat.zero_add, List.getElem?_cons_succ] at hb
        cases ks with
        | nil => simp only [Tiles] at hr; omega
        | cons c ks' => simp at hb
    | succ i =>
      simp only [List.getElem?_cons_succ] at ha ⊢
      have := ih (s + size k) e i a hr ha
      exact ⟨by omega, this.2⟩

/-- `next_sibling` of the `i`-th child is the `(i+1)`-th child -/
theorem ns_kid {h : Heap} {w : Wit} (hwf : WF h w) {p i a : Nat} (ha : (h.kids p)[i]? = some a) :
    h.ns a = (h.kids p)[i + 1]? := by
  have hadj := tiles_adj w.pos w.size _ _ _ i a (hwf.tiles p) ha
  have hmem : a ∈ h.kids p := List.mem_of_getElem? ha
  have hpa := hwf.kid_parent p a hmem
  cases hb : (h.kids p)[i + 1]? with
  | some b =>
    have hmb : b ∈ h.kids p := List.mem_of_getElem? hb
    exact (hwf.sib_ns a b).mpr ⟨⟨p, hpa, hwf.kid_parent p b hmb⟩, hadj.2.1 b hb⟩
  | none =>
    cases hn : h.ns a with
    | none => rfl
    | some b =>
      obtain ⟨⟨q, hq1, hq2⟩, hpos⟩ := (hwf.sib_ns a b).mp hn
      rw [hpa] at hq1; cases hq1
      have := wf_kid_lt hwf (hwf.parent_kid b p hq2)
      have := hadj.2.2 hb
      omega

/-- `previous_sibling` of the `i`-th child is the `(i-1)`-th child -/
theorem ps_kid {h : Heap} {w : Wit} (hwf : WF h w) {p i b : Nat} (hb : (h.kids p)[i]? = some b) :
    h.ps b = if i = 0 then none else (h.kids p)[i - 1]? := by
  have hmem : b ∈ h.kids p := List.mem_of_getElem? hb
  have hpb := hwf.kid_parent p b hmem
  split
  · rename_i h0
    have hadj := tiles_adj w.pos w.size _ _ _ i b (hwf.tiles p) hb
    cases hn : h.ps b with
    | none => rfl
    | some a =>
      obtain ⟨⟨q, hq1, hq2⟩, hpos⟩ := (hwf.sib_ps a b).mp hn
      rw [hpb] at hq2; cases hq2
      have := wf_kid_lt hwf (hwf.parent_kid a p hq1)
      have := hadj.1 h0
      omega
  · rename_i h0
    have hlt : i - 1 < (h.kids p).length := by
      have := (List.getElem?_eq_some_iff.mp hb).1; omega
    rw [List.getElem?_eq_getElem hlt]
    have ha : (h.kids p)[i - 1]? = some (h.kids p)[i - 1] := List.getElem?_eq_getElem hlt
    have hadj := tiles_adj w.pos w.size _ _ _ (i - 1) _ (hwf.tiles p) ha
    have hi : i - 1 + 1 = i := by omega
    rw [hi] at hadj
    exact (hwf.sib_ps _ b).mpr ⟨⟨p, hwf.kid_parent p _ (List.getElem_mem hlt), hpb⟩, hadj.2.1 b hb⟩

theorem chase_ns_drop {h : Heap} {w : Wit} (hwf : WF h w) (p : Nat) :
    ∀ (f j : Nat), (h.kids p).length ≤ f + j → chase h.ns f (h.kids p)[j]? = (h.kids p).drop j := by
  intro f
  induction f with
  | zero =>
    intro j hf
    rw [List.drop_eq_nil_of_le (by omega)]; rfl
  | succ f ih =>
    intro j hf
    by_cases hlt : j < (h.kids p).length
    · rw [List.getElem?_eq_getElem hlt, List.drop_eq_getElem_cons hlt]
      simp only [chase]
      rw [ns_kid hwf (List.getElem?_eq_getElem hlt), ih (j + 1) (by omega)]
    · have hle : (h.kids p).length ≤ j := by omega
      rw [List.drop_eq_nil_of_le hle, List.getElem?_eq_none hle, chase_none]

theorem chase_ps_take {h : Heap} {w : Wit} (hwf : WF h w) (p : Nat) :
    ∀ (f j : Nat), j ≤ f → j ≤ (h.kids p).length →
      chase h.ps f (if j = 0 then none else (h.kids p)[j - 1]?) = ((h.kids p).take j).reverse := by
  intro f
  induction f with
  | zero =>
    intro j hj _
    have : j = 0 := by omega
    subst this; simp [chase]
  | succ f ih =>
    intro j hj hlen
    by_cases h0 : j = 0
    · subst h0; simp [chase]
    · rw [if_neg h0]
      have hlt : j - 1 < (h.kids p).length := by omega
      rw [List.getElem?_eq_getElem hlt]
      simp only [chase]
      rw [ps_kid hwf (List.getElem?_eq_getElem hlt), ih (j - 1) (by omega) (by omega)]
      have hj1 : j = (j - 1) + 1 := by omega
      have ht : (h.kids p).take j = (h.kids p).take (j - 1) ++ [(h.kids p)[j - 1]] := by
        conv => lhs; rw [hj1]
        rw [List.take_add_one, List.getElem?_eq_getElem hlt]; rfl
      rw [ht, List.reverse_append]; rfl

theorem kids_length_lt {h : Heap} {w : Wit} (hwf : WF h w) (p : Nat) : (h.kids p).length < h.cap := by
  have := tiles_length _ _ _ _ _ (hwf.tiles p)
  have := hwf.size_cap p
  omega

/-- the index of a child in its parent's list -/
theorem kids_idxOf {h : Heap} {w : Wit} (hwf : WF h w) {x p : Nat} (hp : h.parent x = some p) :
    (h.kids p)[(h.kids p).idxOf x]? = some x := by
  have hmem := hwf.parent_kid x p hp
  have hlt : (h.kids p).idxOf x < (h.kids p).length := List.idxOf_lt_length_of_mem hmem
  rw [List.getElem?_eq_getElem hlt, List.getElem_idxOf hlt]

/-- item 5a -/
theorem nextSiblings_eq {h : Heap} {w : Wit} (hwf : WF h w) {x p i : Nat} (hp : h.parent x = some p)
    (hi : (h.kids p).idxOf x = i) : nextSiblings h x = (h.kids p).drop (i + 1) := by
  have hx := kids_idxOf hwf hp
  rw [hi] at hx
  unfold nextSiblings
  rw [ns_kid hwf hx]
  exact chase_ns_drop hwf p h.cap (i + 1) (by have := kids_length_lt hwf p; omega)

/-- item 5b -/
theorem previousSiblings_eq {h : Heap} {w : Wit} (hwf : WF h w) {x p i : Nat} (hp : h.parent x = some p)
    (hi : (h.kids p).idxOf x = i) : previousSiblings h x = ((h.kids p).take i).reverse := by
  have hx := kids_idxOf hwf hp
  rw [hi] at hx
  have hlt := (List.getElem?_eq_some_iff.mp hx).1
  unfold previousSiblings
  rw [ps_kid hwf hx]
  exact chase_ps_take hwf p h.cap i (by have := kids_length_lt hwf p; omega) (by omega)

/-- item 5c: a root has no siblings -/
theorem siblings_root {h : Heap} {w : Wit} (hwf : WF h w) {x : Nat} (hp : h.parent x = none) :
    h.ns x = none ∧ h.ps x = none ∧ nextSiblings h x = [] ∧ previousSiblings h x = [] := by
  have hns : h.ns x = none := by
    cases hn : h.ns x with
    | none => rfl
    | some b =>
      obtain ⟨⟨q, hq1, _⟩, _⟩ := (hwf.sib_ns x b).mp hn
      rw [hp] at hq1; cases hq1
  have hps : h.ps x = none := by
    cases hn : h.ps x with
    | none => rfl
    | some a =>
      obtain ⟨⟨q, _, hq2⟩, _⟩ := (hwf.sib_ps a x).mp hn
      rw [hp] at hq2; cases hq2
  refine ⟨hns, hps, ?_, ?_⟩
  · unfold nextSiblings; rw [hns, chase_none]
  · unfold previousSiblings; rw [hps, chase_none]

/-! ## 6. `parents` is the ancestor chain, innermost first -/

/-- a root has no proper ancestor -/
theorem inSub_root {h : Heap} {w : Wit} (hwf : WF h w) {c : Nat} (hp : h.parent c = none) (a : Nat) :
    ¬ (a ≠ c ∧ w.inSub a c) := by
  rintro ⟨hne, ht, h1, _⟩
  have := (hwf.root_tree c hp).2
  exact hne (hwf.inj a c ht.symm (by omega))

/-- the proper ancestors of a node are the ancestors-or-self of its parent -/
theorem inSub_parent {h : Heap} {w : Wit} (hwf : WF h w) {c p : Nat} (hp : h.parent c = some p) (a : Nat) :
    (a ≠ c ∧ w.inSub a c) ↔ w.inSub a p := by
  have hc := wf_parent_pos' hwf hp
  have hck := hwf.parent_kid c p hp
  unfold Wit.inSub
  constructor
  · rintro ⟨hne, ht, h1, h2⟩
    have hlt : w.pos a < w.pos c := by
      rcases Nat.lt_or_ge (w.pos a) (w.pos c) with h | h
      · exact h
      · exact absurd (hwf.inj a c ht.symm (by omega)) hne
    refine ⟨by rw [← hc.1, ht], ?_, by omega⟩
    rcases Nat.lt_or_ge (w.pos p) (w.pos a) with hpa | hpa
    · exfalso
      obtain ⟨k, hk, hk1, hk2⟩ := tiles_cover w.pos w.size (h.kids p) _ _ (w.pos a) (hwf.tiles p)
        (by omega) (by omega)
      have hkt := hwf.kid_tree p k hk
      have hl := hwf.laminar k a (by rw [hkt, ← hc.1, ht]) hk1 hk2
      have := tiles_disjoint w.pos w.size (h.kids p) _ _ (hwf.tiles p) k hk c hck (by omega) (by omega)
      omega
    · exact hpa
  · rintro ⟨ht, h1, h2⟩
    have hl := hwf.laminar a p ht.symm h1 h2
    have hsc := hwf.size_pos c
    refine ⟨?_, by rw [hc.1, ht], by omega, by omega⟩
    intro heq; subst heq; omega

/-- the parent chase does not depend on the fuel once it exceeds the depth -/
theorem chase_parent_fuel {h : Heap} {w : Wit} (hwf : WF h w) :
    ∀ (f g c : Nat), w.pos c ≤ f → w.pos c ≤ g →
      chase h.parent f (h.parent c) = chase h.parent g (h.parent c) := by
  intro f
  induction f with
  | zero =>
    intro g c hf _
    have hc : c = w.tree c := wf_pos_zero hwf (by omega)
    have : h.parent c = none := by rw [hc]; exact hwf.tree_root c
    rw [this, chase_none, chase_none]
  | succ f ih =>
    intro g c hf hg
    cases hp : h.parent c with
    | none => rw [chase_none, chase_none]
    | some p =>
      have hc := wf_parent_pos' hwf hp
      cases g with
      | zero => omega
      | succ g =>
        simp only [chase]
        rw [ih g p (by omega) (by omega)]

/-- the iterator is the recursion along `.parent` -/
theorem parents_cons {h : Heap} {w : Wit} (hwf : WF h w) {x p : Nat} (hp : h.parent x = some p) :
    parents h x = p :: parents h p := by
  have hc := wf_parent_pos' hwf hp
  have hlt := wf_pos_lt hwf x
  have hcap := hwf.size_cap (w.tree x)
  unfold parents
  rw [hp]
  cases hcapv : h.cap with
  | zero => omega
  | succ f =>
    simp only [chase]
    rw [chase_parent_fuel hwf f (f + 1) p (by omega) (by omega)]

theorem parents_root {h : Heap} {x : Nat} (hp : h.parent x = none) : parents h x = [] := by
  unfold parents; rw [hp, chase_none]

theorem chase_parent_spec {h : Heap} {w : Wit} (hwf : WF h w) :
    ∀ (f c : Nat), w.pos c ≤ f →
      (∀ a, a ∈ chase h.parent f (h.parent c) ↔ (a ≠ c ∧ w.inSub a c)) ∧
      (chase h.parent f (h.parent c)).Pairwise (fun a b => w.pos b < w.pos a) ∧
      (h.parent c ≠ none → (chase h.parent f (h.parent c)).getLast? = some (w.tree c)) := by
  intro f
  induction f with
  | zero =>
    intro c hf
    have hc : c = w.tree c := wf_pos_zero hwf (by omega)
    have hp : h.parent c = none := by rw [hc]; exact hwf.tree_root c
    rw [hp, chase_none]
    refine ⟨fun a => ⟨fun hm => by simp at hm, fun hm => absurd hm (inSub_root hwf hp a)⟩, List.Pairwise.nil,
      fun hh => absurd rfl hh⟩
  | succ f ih =>
    intro c hf
    cases hp : h.parent c with
    | none =>
      rw [chase_none]
      refine ⟨fun a => ⟨fun hm => by simp at hm, fun hm => absurd hm (inSub_root hwf hp a)⟩, List.Pairwise.nil,
        fun hh => absurd rfl hh⟩
    | some p =>
      have hc := wf_parent_pos' hwf hp
      obtain ⟨i1, i2, i3⟩ := ih p (by omega)
      simp only [chase]
      have hsp : w.inSub p p := ⟨rfl, Nat.le_refl _, by have := hwf.size_pos p; omega⟩
      refine ⟨?_, ?_, ?_⟩
      · intro a
        rw [inSub_parent hwf hp a, List.mem_cons, i1 a]
        constructor
        · rintro (rfl | hm)
          · exact hsp
          · exact hm.2
        · intro hs
          by_cases hap : a = p
          · exact Or.inl hap
          · exact Or.inr ⟨hap, hs⟩
      · refine List.pairwise_cons.mpr ⟨?_, i2⟩
        intro a ha
        obtain ⟨hne, ht, h1, _⟩ := (i1 a).mp ha
        rcases Nat.lt_or_ge (w.pos a) (w.pos p) with hlt | hge
        · exact hlt
        · exact absurd (hwf.inj a p ht.symm (by omega)) hne
      · intro _
        rw [List.getLast?_cons]
        cases hpp : h.parent p with
        | none =>
          rw [chase_none]
          have := (hwf.root_tree p hpp).1
          simp only [List.getLast?_nil, Option.getD_none]
          rw [hc.1, this]
        | some q =>
          rw [hpp] at i3
          rw [i3 (by simp)]
          simp only [Option.getD_some]
          rw [hc.1]

/-- item 6: `parents` lists exactly the proper ancestors (`a ≠ x` with `x` in the subtree of `a`), innermost
    first (strictly decreasing pre-order position), ending with the root of the tree -/
theorem parents_eq {h : Heap} {w : Wit} (hwf : WF h w) (x : Nat) :
    (∀ a, a ∈ parents h x ↔ (a ≠ x ∧ w.inSub a x)) ∧
    (parents h x).Pairwise (fun a b => w.pos b < w.pos a) ∧
    (h.parent x ≠ none → (parents h x).getLast? = some (w.tree x)) ∧
    (h.parent x = none → parents h x = []) ∧
    (∀ p, h.parent x = some p → parents h x = p :: parents h p) := by
  have hlt := wf_pos_lt hwf x
  have hcap := hwf.size_cap (w.tree x)
  obtain ⟨a1, a2, a3⟩ := chase_parent_spec hwf h.cap x (by omega)
  exact ⟨a1, a2, a3, parents_root, fun p hp => parents_cons hwf hp⟩

/-! ## 7. `descendants` -/

theorem chaseNe_eq_chase (h : Heap) : ∀ (f : Nat) (o : Option Nat), chaseNe h f o = chase h.ne f o := by
  intro f
  induction f with
  | zero => intro o; rfl
  | succ f ih =>
    intro o
    cases o with
    | none => rfl
    | some e => simp only [chaseNe, chase, ih]

/-- the walk of a subtree is the slice `[pos t, pos t + size t)` of the document order of its tree -/
theorem pre_slice {h : Heap} {w : Wit} (hwf : WF h w) (t : Nat) :
    pre h.kids h.cap t = ((docOrder h (w.tree t)).drop (w.pos t)).take (w.size t) := by
  have hcap := hwf.size_cap t
  have hP := pre_consec hwf h.cap t (by omega)
  apply List.ext_getElem?
  intro i
  rw [List.getElem?_take]
  by_cases hi : i < w.size t
  · rw [if_pos hi, List.getElem?_drop]
    have hlt : i < (pre h.kids h.cap t).length := by rw [hP.1]; exact hi
    have := hP.2 i hlt
    rw [List.getElem?_eq_getElem hlt]
    exact ((docOrder_getElem? hwf (hwf.tree_root t) _ _).mpr ⟨this.2, this.1⟩).symm
  · rw [if_neg hi, List.getElem?_eq_none (by rw [hP.1]; omega)]

/-- `_last_descendant()` never fails and returns the last node of the subtree (through the next-sibling
    shortcut or through the down-walk) -/
theorem lastDescendant_ok {h : Heap} {w : Wit} (hwf : WF h w) (t : Nat) :
    ∃ l, lastDescendant h t true = .ok l ∧ w.tree l = w.tree t ∧ w.pos l + 1 = w.pos t + w.size t := by
  unfold lastDescendant
  simp only [if_true]
  cases hn : h.ns t with
  | none =>
    have := lastDown_pos h w hwf h.cap t (by have := hwf.size_cap t; omega)
    exact ⟨_, rfl, this.1, this.2.1⟩
  | some s =>
    obtain ⟨⟨q, hq1, hq2⟩, hpos⟩ := (hwf.sib_ns t s).mp hn
    have ht := wf_parent_pos' hwf hq1
    have hs := wf_parent_pos' hwf hq2
    have hsz := hwf.size_pos t
    have hpe := previous_element_is_predecessor hwf s
    rw [if_neg (by omega), if_neg (by intro hh; omega)] at hpe
    have hlt : w.pos s - 1 < (docOrder h (w.tree s)).length := by
      rw [docOrder_length hwf _]; have := wf_pos_lt hwf s; omega
    rw [List.getElem?_eq_getElem hlt] at hpe
    have he := docOrder_getElem hwf (hwf.tree_root s) _ hlt
    simp only [hpe]
    exact ⟨_, rfl, by rw [he.2, hs.1, ht.1], by omega⟩

/-- on a duplicate-free list, `takeWhile (· ≠ l[k])` is `take k` -/
theorem takeWhile_ne_getElem? : ∀ (l : List Nat) (k : Nat) (stop : Option Nat), l.Nodup → l[k]? = stop →
    l.takeWhile (fun e => decide (some e ≠ stop)) = l.take k := by
  intro l
  induction l with
  | nil => intro k stop _ _; simp
  | cons a l ih =>
    intro k stop hnd hk
    obtain ⟨ha, hnd'⟩ := List.nodup_cons.mp hnd
    cases k with
    | zero =>
      simp only [List.getElem?_cons_zero] at hk
      subst hk
      simp
    | succ k =>
      simp only [List.getElem?_cons_succ] at hk
      have hne : some a ≠ stop := by
        intro heq
        rw [← heq] at hk
        exact ha (List.mem_of_getElem? hk)
      rw [List.takeWhile_cons_of_pos (by simpa using hne), List.take_succ_cons, ih k stop hnd' hk]

/-- item 7: `Tag.descendants` is the walk of the subtree without the tag itself; `_last_descendant` does not
    fail, the chase has enough fuel and the `takeWhile` stops exactly after the last descendant -/
theorem descendants_eq {h : Heap} {w : Wit} (hwf : WF h w) (t : Nat) :
    descendants h t = .ok ((pre h.kids h.cap t).tail) := by
  obtain ⟨l, hl, hlt, hlp⟩ := lastDescendant_ok hwf t
  have hr := hwf.tree_root t
  have hcapr := hwf.size_cap (w.tree t)
  unfold descendants
  cases hk : h.kids t with
  | nil =>
    have : pre h.kids h.cap t = [t] := by cases h.cap <;> simp [pre, hk]
    rw [this]; rfl
  | cons first rest =>
    simp only [List.head?_cons, hl]
    congr 1
    have hfm : first ∈ h.kids t := by simp [hk]
    have hft := hwf.kid_tree t first hfm
    have hfp : w.pos first = w.pos t + 1 := by
      have := hwf.tiles t; rw [hk] at this; exact this.1
    have hfs := wf_kid_lt hwf hfm
    -- the chase from the first child is the rest of the document order
    have hfirst : some first = (docOrder h (w.tree t))[w.pos t + 1]? :=
      ((docOrder_getElem? hwf hr _ _).mpr ⟨hft, hfp⟩).symm
    rw [chaseNe_eq_chase, hfirst, chase_ne_drop hwf hr h.cap (w.pos t + 1) (by omega) (by omega)]
    -- the stop element is the one at position `pos t + size t`, if any
    have hstop := (next_element_is_successor hwf l).1 (wf_unl_pos hwf (by omega))
    rw [hlt] at hstop
    have hidx : ((docOrder h (w.tree t)).drop (w.pos t + 1))[w.size t - 1]? = h.ne l := by
      rw [hstop, List.getElem?_drop]; congr 1; omega
    have hnd : ((docOrder h (w.tree t)).drop (w.pos t + 1)).Nodup :=
      (docOrder_nodup hwf hr).sublist (List.drop_sublist _ _)
    rw [takeWhile_ne_getElem? _ _ _ hnd hidx, pre_slice hwf t]
    have hlen : w.pos t < (docOrder h (w.tree t)).length := by
      rw [docOrder_length hwf _]; exact wf_pos_lt hwf t
    have hsz : w.size t = (w.size t - 1) + 1 := by omega
    rw [List.drop_eq_getElem_cons hlen]
    conv => rhs; rw [hsz, List.take_succ_cons]
    rfl

theorem pre_head (kids : Nat → List Nat) (f n : Nat) : pre kids f n = n :: (pre kids f n).tail := by
  cases f <;> rfl

/-- a tag followed by its descendants is the walk of its subtree -/
theorem descendants_docOrder {h : Heap} {w : Wit} (hwf : WF h w) (t : Nat) :
    ∃ ds, descendants h t = .ok ds ∧ docOrder h t = t :: ds ∧ ds.length + 1 = w.size t := by
  refine ⟨_, descendants_eq hwf t, pre_head _ _ _, ?_⟩
  have := docOrder_length hwf t
  unfold docOrder at this
  rw [pre_head] at this
  simpa using this

/-! ## 8. a detached tree has no links out of itself -/

/-- the last element of any tree has no `next_element`; a root has no sibling and no `previous_element`
    (no hypothesis on the kind of the root is needed) -/
theorem root_no_links {h : Heap} {w : Wit} (hwf : WF h w) {r : Nat} (hr : h.parent r = none) :
    h.ps r = none ∧ h.ns r = none ∧ h.pe r = none ∧
    ∀ l, l ∈ docOrder h r → w.pos l + 1 = w.size r → h.ne l = none := by
  have hs := siblings_root hwf hr
  have hrt := hwf.root_tree r hr
  refine ⟨hs.2.1, hs.1, ?_, ?_⟩
  · have := previous_element_is_predecessor hwf r
    rw [if_pos hrt.2] at this
    exact this
  · intro l hl hpos
    have ht := (docOrder_mem hwf hr l).mp hl
    cases hn : h.ne l with
    | none => rfl
    | some b =>
      have hb := (hwf.chain_ne l b).mp hn
      have := wf_pos_lt hwf b
      rw [← hb.2.1, ht] at this
      omega

/-- item 8 (requested shape; the kind hypothesis is not used) -/
theorem detached_root {h : Heap} {w : Wit} (hwf : WF h w) {r : Nat} (hr : h.parent r = none)
    (_ : h.kind r ≠ .soup) :
    h.ps r = none ∧ h.ns r = none ∧ h.pe r = none ∧
    ∀ l, l ∈ docOrder h r → w.pos l + 1 = w.size r → h.ne l = none :=
  root_no_links hwf hr

end BS.Heap
