import BSModel.Proofs.HeapLinkChain
import BSModel.Proofs.HeapLinkSib
import BSModel.Proofs.HeapLinkTiles
/-! Pillar 2 (`LinkChildSpec`): the linking part of `Tag._insert` never fails on a well-formed heap and
    preserves the invariant with the paste witness. Assembly of the parts `HeapLinkGeo` (lists, walks),
    `HeapLinkCode` (closed form of the result), `HeapLinkWit` (geometry of the paste witness),
    `HeapLinkA/Chain/Sib/Tiles` (the clauses of `WF`). -/
namespace BS.Heap

theorem insertIdx_eq_take_drop (x : Nat) : ∀ (l : List Nat) (i : Nat), i ≤ l.length →
    l.insertIdx i x = l.take i ++ x :: l.drop i := by
  intro l
  induction l with
  | nil => intro i hi; simp at hi; subst hi; simp
  | cons a l ih =>
    intro i hi
    cases i with
    | zero => simp
    | succ i =>
      simp only [List.insertIdx_succ_cons, List.take_succ_cons, List.drop_succ_cons, List.cons_append]
      rw [ih i (by simpa using hi)]

/-- the geometry of the insertion point computed by `linkChild` -/
theorem geo_of (h : Heap) (w : Wit) (p i x : Nat) (g : Heap) (hwf : WF h w)
    (hx : h.parent x = none) (hkx : h.kind x ≠ .soup) (hpx : w.tree p ≠ x) (hi : i ≤ (h.kids p).length)
    (g1 : ∀ j, g.ns j = if j = x then none else if prevSibOf h p i = some j then some x else h.ns j)
    (g2 : ∀ j, g.parent j = if j = x then some p else h.parent j) :
    Geo h w p x (boundary w.size (h.kids p) (w.pos p + 1) i) (predOf h p i) (lastDown h h.cap x)
      (if (h.kids p).length ≤ i then nextAfter g h.cap p else (h.kids p)[i]?)
      (prevSibOf h p i) ((h.kids p)[i]?) := by
  have hT := hwf.tiles p
  have hbs := boundary_spec w.pos w.size (h.kids p) _ _ i hT hi
  have hbg := boundary_ge w.size (h.kids p) (w.pos p + 1) i
  have hxt := hwf.root_tree x hx
  have hkid : ∀ k, k ∈ h.kids p → w.tree k = w.tree p ∧ w.pos p + 1 ≤ w.pos k ∧
      w.pos k + w.size k ≤ w.pos p + w.size p ∧ 1 ≤ w.size k := by
    intro k hk
    have := tiles_mem _ _ _ _ _ hT k hk
    exact ⟨hwf.kid_tree p k hk, this.1, this.2.1, this.2.2⟩
  -- the previous sibling
  have hprev : ∀ a, prevSibOf h p i = some a ↔
      (h.parent a = some p ∧ w.pos a + w.size a = boundary w.size (h.kids p) (w.pos p + 1) i) := by
    intro a
    by_cases hi0 : i = 0
    · subst hi0
      simp only [prevSibOf, if_true, boundary_zero]
      constructor
      · intro e; cases e
      · rintro ⟨h1, h2⟩
        have := hkid a (hwf.parent_kid a p h1)
        omega
    · simp only [prevSibOf, hi0, if_false]
      have hlt : i - 1 < (h.kids p).length := by omega
      have hpc : (h.kids p)[i - 1]? = some ((h.kids p)[i - 1]) := List.getElem?_eq_getElem hlt
      have hbp := boundary_prev w.pos w.size (h.kids p) _ _ (i - 1) _ hT hpc
      have e : i - 1 + 1 = i := by omega
      rw [e] at hbp
      have hm : (h.kids p)[i - 1] ∈ h.kids p := List.getElem_mem hlt
      rw [hpc]
      constructor
      · intro e; cases e
        exact ⟨hwf.kid_parent p _ hm, hbp.symm⟩
      · rintro ⟨h1, h2⟩
        have hma := hwf.parent_kid a p h1
        have k1 := hkid a hma
        have k2 := hkid _ hm
        have d1 := tiles_disjoint _ _ _ _ _ hT a hma _ hm
        have d2 := tiles_disjoint _ _ _ _ _ hT _ hm a hma
        have : (h.kids p)[i - 1] = a := hwf.inj _ a (by rw [k1.1, k2.1]) (by omega)
        rw [this]
  -- the next sibling
  have hnext : ∀ b, (h.kids p)[i]? = some b ↔
      (h.parent b = some p ∧ w.pos b = boundary w.size (h.kids p) (w.pos p + 1) i) := by
    intro b
    constructor
    · intro e
      exact ⟨hwf.kid_parent p b (List.mem_of_getElem? e), hbs.1 b e⟩
    · rintro ⟨h1, h2⟩
      have hmb := hwf.parent_kid b p h1
      have k1 := hkid b hmb
      by_cases hlen : i < (h.kids p).length
      · have hnc : (h.kids p)[i]? = some ((h.kids p)[i]) := List.getElem?_eq_getElem hlen
        have := hbs.1 _ hnc
        have k2 := hkid _ (List.mem_of_getElem? hnc)
        have : (h.kids p)[i] = b := hwf.inj _ b (by rw [k1.1, k2.1]) (by omega)
        rw [hnc, this]
      · have := hbs.2.1 (by omega)
        omega
  refine
    { wf := hwf, xroot := hx, xkind := hkx, ptree := hpx, Plo := by omega, Phi := hbs.2.2,
      sep := ?_, pred_t := ?_, pred_p := ?_, last_t := ?_, last_p := ?_, succ_iff := ?_,
      prev_iff := hprev, next_iff := hnext }
  · intro k hk
    exact boundary_sep w.pos w.size (h.kids p) _ _ i hT k (hwf.parent_kid k p hk)
  · -- tree of pred
    unfold predOf
    cases hps : prevSibOf h p i with
    | none => rfl
    | some pc =>
      simp only
      have hpc := ((hprev pc).mp hps).1
      have := lastDown_pos h w hwf h.cap pc (by have := hwf.size_cap pc; omega)
      rw [this.1]; exact hwf.kid_tree p pc (hwf.parent_kid pc p hpc)
  · -- position of pred
    unfold predOf
    cases hps : prevSibOf h p i with
    | none =>
      simp only
      by_cases hi0 : i = 0
      · subst hi0; rw [boundary_zero]
      · exfalso
        simp only [prevSibOf, hi0, if_false] at hps
        have : (h.kids p).length ≤ i - 1 := by simpa using hps
        omega
    | some pc =>
      simp only
      have hpc := (hprev pc).mp hps
      have := lastDown_pos h w hwf h.cap pc (by have := hwf.size_cap pc; omega)
      omega
  · have := lastDown_pos h w hwf h.cap x (by have := hwf.size_cap x; omega)
    rw [this.1]; exact hxt.1
  · have := lastDown_pos h w hwf h.cap x (by have := hwf.size_cap x; omega)
    omega
  · -- the successor
    intro b
    by_cases hlen : (h.kids p).length ≤ i
    · rw [if_pos hlen]
      have hag : ∀ n, w.tree n = w.tree p → w.pos n ≤ w.pos p → g.ns n = h.ns n ∧ g.parent n = h.parent n := by
        intro n hn1 hn2
        have hnx : n ≠ x := by intro e; subst e; exact hpx (by rw [← hn1]; exact hxt.1)
        have hnp : prevSibOf h p i ≠ some n := by
          intro e
          have := hkid n (hwf.parent_kid n p ((hprev n).mp e).1)
          omega
        rw [g1, g2]; simp [hnx, hnp]
      have hcap : w.pos p < h.cap := by
        have := pos_lt_tree hwf p; have := hwf.size_cap (w.tree p); omega
      rw [nextAfter_spec hwf g p hag h.cap p rfl (Nat.le_refl _) hcap b, hbs.2.1 (by omega)]
    · rw [if_neg hlen]
      have hlt : i < (h.kids p).length := by omega
      have hnc : (h.kids p)[i]? = some ((h.kids p)[i]) := List.getElem?_eq_getElem hlt
      have h1 := hbs.1 _ hnc
      have k2 := hkid _ (List.mem_of_getElem? hnc)
      rw [hnc]
      constructor
      · intro e; cases e; exact ⟨k2.1, h1⟩
      · rintro ⟨t1, t2⟩
        have : (h.kids p)[i] = b := hwf.inj _ b (by rw [t1, k2.1]) (by omega)
        rw [this]

theorem linkChild_spec : LinkChildSpec := by
  intro h w p i x hwf hx hkx hptag hpx hi hxn hpn
  obtain ⟨h', g, hok, g1, g2, L⟩ := linkChild_linked h p i x hi
  have G := geo_of h w p i x g hwf hx hkx hpx hi g1 g2
  refine ⟨h', hok, ?_, ?_, L.parent, L.kind, L.val, L.next⟩
  · have hk : ∀ k, k ∈ (h.kids p).insertIdx i x ↔ (k = x ∨ k ∈ h.kids p) := fun k => List.mem_insertIdx hi
    have htp : Tiles (pasteWit w x p (boundary w.size (h.kids p) (w.pos p + 1) i)).pos
        (pasteWit w x p (boundary w.size (h.kids p) (w.pos p + 1) i)).size ((h.kids p).insertIdx i x)
        (w.pos p + 1) (w.pos p + w.size p + w.size x) := by
      rw [insertIdx_eq_take_drop x _ i hi]
      have rx := G.region x
      have hxt := G.x_tree; have hptr := G.ptree
      apply tiles_insert w.pos w.size _ _ x (w.size x) (hwf.size_pos x) (h.kids p) i _ _ (hwf.tiles p)
        (x_not_kid G p)
      · intro k hk
        have := kid_region G (hwf.kid_parent p k hk)
        omega
      · intro k hk
        have := kid_region G (hwf.kid_parent p k hk)
        have := hwf.size_pos k
        split <;> omega
      · omega
      · omega
    exact
      { size_pos := paste_size_pos G
        size_cap := link_size_cap G L
        str_leaf := link_str_leaf G L hptag
        tiles := link_tiles G L htp
        kid_parent := link_kid_parent G L hk
        kid_tree := link_kid_tree G L hk
        parent_kid := link_parent_kid G L hk
        root_tree := link_root_tree G L
        tree_root := link_tree_root G L
        bound := paste_bound G
        inj := paste_inj G
        laminar := paste_laminar G
        chain_ne := link_chain_ne G L
        chain_pe := link_chain_pe G L
        sib_ns := link_sib_ns G L
        sib_ps := link_sib_ps G L
        unl_soup := link_unl_soup G L
        soup_root := link_soup_root G L
        fresh := link_fresh G L hxn hpn }
  · intro n; rw [L.kids]

end BS.Heap

#print axioms BS.Heap.linkChild_spec
