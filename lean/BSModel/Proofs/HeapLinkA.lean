import BSModel.Proofs.HeapLinkWit
/-! Pillar 2, part 4: the arithmetic and the structural clauses of the invariant after linking. -/
namespace BS.Heap

section
variable {h h' : Heap} {w : Wit} {p x P pred lastx : Nat} {succ prevSib nextSib : Option Nat}
  {newKids : List Nat}
  (G : Geo h w p x P pred lastx succ prevSib nextSib)
  (L : Linked h h' p x pred lastx succ prevSib nextSib newKids)

section
include G

theorem paste_size_pos (n : Nat) : 1 ≤ (pasteWit w x p P).size n := by
  have := G.region n; have := G.wf.size_pos n; omega

theorem paste_inj (a b : Nat) (ht : (pasteWit w x p P).tree a = (pasteWit w x p P).tree b)
    (hp : (pasteWit w x p P).pos a = (pasteWit w x p P).pos b) : a = b := by
  have ra := G.region a; have rb := G.region b
  have := G.wf.inj a b
  have := G.wf.size_pos a; have := G.wf.size_pos b
  have := G.ptree
  omega

theorem paste_laminar (a b : Nat) (ht : (pasteWit w x p P).tree a = (pasteWit w x p P).tree b)
    (h1 : (pasteWit w x p P).pos a ≤ (pasteWit w x p P).pos b)
    (h2 : (pasteWit w x p P).pos b < (pasteWit w x p P).pos a + (pasteWit w x p P).size a) :
    (pasteWit w x p P).pos b + (pasteWit w x p P).size b ≤
      (pasteWit w x p P).pos a + (pasteWit w x p P).size a := by
  have ra := G.region a; have rb := G.region b
  have := G.wf.laminar a b
  have := G.wf.size_pos a; have := G.wf.size_pos b
  have := G.ptree
  omega

theorem paste_bound (n : Nat) :
    (pasteWit w x p P).pos n + (pasteWit w x p P).size n ≤ (pasteWit w x p P).size ((pasteWit w x p P).tree n) := by
  have rn := G.region n
  have rt := G.region (w.tree p)
  have rtn := G.region (w.tree n)
  have := G.wf.bound n
  have := G.wf.bound p
  have := root_of_tree G.wf p
  have := root_of_tree G.wf n
  have := G.ptree; have := G.Phi; have := G.Plo
  have := G.wf.size_pos p
  grind

end

section
include G L

theorem link_size_cap (n : Nat) : (pasteWit w x p P).size n ≤ h'.cap := by
  have := G.region n
  have := G.wf.size_cap n; have := G.wf.size_cap x
  rw [L.cap]; omega

theorem link_str_leaf (hp : (h.kind p).isTag = true) (n : Nat) (hn : (h'.kind n).isTag = false) : h'.kids n = [] := by
  rw [L.kind] at hn
  rw [L.kids]
  have : n ≠ p := by intro e; subst e; rw [hp] at hn; cases hn
  simp only [this, if_false]
  exact G.wf.str_leaf n hn

omit L in
theorem x_not_kid (n : Nat) : x ∉ h.kids n := by
  intro hm
  have := G.wf.kid_parent n x hm
  rw [G.xroot] at this; cases this

theorem link_kid_parent (hk : ∀ k, k ∈ newKids ↔ (k = x ∨ k ∈ h.kids p)) (n k : Nat) (hm : k ∈ h'.kids n) :
    h'.parent k = some n := by
  rw [L.kids] at hm
  rw [L.parent]
  by_cases hn : n = p
  · subst hn
    simp only [if_true] at hm
    rcases (hk k).mp hm with rfl | hm'
    · simp
    · have : k ≠ x := by intro e; subst e; exact x_not_kid G _ hm'
      simp only [this, if_false]
      exact G.wf.kid_parent _ k hm'
  · simp only [hn, if_false] at hm
    have : k ≠ x := by intro e; subst e; exact x_not_kid G _ hm
    simp only [this, if_false]
    exact G.wf.kid_parent _ k hm

theorem link_kid_tree (hk : ∀ k, k ∈ newKids ↔ (k = x ∨ k ∈ h.kids p)) (n k : Nat) (hm : k ∈ h'.kids n) :
    (pasteWit w x p P).tree k = (pasteWit w x p P).tree n := by
  rw [L.kids] at hm
  have rk := G.region k; have rn := G.region n; have rx := G.region x; have rp := G.region p
  have hxt := G.x_tree; have hpt := G.ptree
  by_cases hn : n = p
  · subst hn
    simp only [if_true] at hm
    rcases (hk k).mp hm with rfl | hm'
    · omega
    · have := G.wf.kid_tree _ k hm'; omega
  · simp only [hn, if_false] at hm
    have := G.wf.kid_tree _ k hm; omega

theorem link_parent_kid (hk : ∀ k, k ∈ newKids ↔ (k = x ∨ k ∈ h.kids p)) (c q : Nat) (hc : h'.parent c = some q) :
    c ∈ h'.kids q := by
  rw [L.parent] at hc
  rw [L.kids]
  by_cases hcx : c = x
  · subst hcx
    simp only [if_true] at hc
    cases hc
    simp only [if_true]
    exact (hk c).mpr (Or.inl rfl)
  · simp only [hcx, if_false] at hc
    have := G.wf.parent_kid c q hc
    by_cases hq : q = p
    · subst hq; simp only [if_true]; exact (hk c).mpr (Or.inr this)
    · simp only [hq, if_false]; exact this

theorem link_root_tree (r : Nat) (hr : h'.parent r = none) :
    (pasteWit w x p P).tree r = r ∧ (pasteWit w x p P).pos r = 0 := by
  rw [L.parent] at hr
  by_cases hrx : r = x
  · subst hrx; simp at hr
  · simp only [hrx, if_false] at hr
    obtain ⟨h1, h2⟩ := G.wf.root_tree r hr
    have := G.region r
    have := G.Plo
    omega

theorem link_tree_root (n : Nat) : h'.parent ((pasteWit w x p P).tree n) = none := by
  rw [L.parent]
  have := G.region n
  have := G.ptree
  have h1 := G.wf.tree_root n
  have h2 := G.wf.tree_root p
  have : (pasteWit w x p P).tree n ≠ x := by
    intro e
    have := (root_of_tree G.wf n).1
    omega
  simp only [this, if_false]
  by_cases hx : w.tree n = x
  · have : (pasteWit w x p P).tree n = w.tree p := by simp [pasteWit, hx]
    rw [this]; exact h2
  · have : (pasteWit w x p P).tree n = w.tree n := by simp [pasteWit, hx]
    rw [this]; exact h1

theorem link_unl_soup (r : Nat) (hr : (pasteWit w x p P).unl r = true) : h'.kind r = .soup ∧ h'.parent r = none := by
  rw [pasteWit_unl] at hr
  have hu : w.unl r = true := by revert hr; cases w.unl r <;> simp
  obtain ⟨h1, h2⟩ := G.wf.unl_soup r hu
  rw [L.kind, L.parent]
  have : r ≠ x := by intro e; subst e; exact G.xkind h1
  simp only [this, if_false]
  exact ⟨h1, h2⟩

theorem link_soup_root (n : Nat) (hn : h'.kind n = .soup) : h'.parent n = none := by
  rw [L.kind] at hn
  rw [L.parent]
  have : n ≠ x := by intro e; subst e; exact G.xkind hn
  simp only [this, if_false]
  exact G.wf.soup_root n hn

theorem link_fresh (hx : x < h.next) (hp : p < h.next) (n : Nat) (hn : h'.next ≤ n) :
    h'.parent n = none ∧ h'.kids n = [] ∧ (pasteWit w x p P).unl n = false := by
  rw [L.next] at hn
  rw [L.parent, L.kids, pasteWit_unl]
  have h1 : n ≠ x := by omega
  have h2 : n ≠ p := by omega
  obtain ⟨f1, f2, f3⟩ := G.wf.fresh n hn
  simp [h1, h2, f1, f2, f3]

end

end

end BS.Heap