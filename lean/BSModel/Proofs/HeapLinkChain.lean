import BSModel.Proofs.HeapLinkA
/-! Pillar 2, part 5: the element chain (`next_element`/`previous_element`) after linking. -/
namespace BS.Heap

section
variable {h h' : Heap} {w : Wit} {p x P pred lastx : Nat} {succ prevSib nextSib : Option Nat}
  {newKids : List Nat}
  (G : Geo h w p x P pred lastx succ prevSib nextSib)
  (L : Linked h h' p x pred lastx succ prevSib nextSib newKids)

section
include G

theorem pred_unl' : (w.unl pred && !(decide (P = 1) && decide (pred = p))) = false := by
  cases hu : w.unl pred with
  | false => rfl
  | true =>
    obtain ⟨_, _, h0⟩ := G.unl_root hu
    have := G.pred_p; have := G.Plo
    have hp1 : P = 1 := by omega
    have : pred = p := G.wf.inj pred p G.pred_t (by omega)
    simp [hp1, this]

theorem other_unl' {a : Nat} (ha : a ≠ pred) : (w.unl a && !(decide (P = 1) && decide (a = p))) = w.unl a := by
  by_cases hc : P = 1 ∧ a = p
  · obtain ⟨hp1, rfl⟩ := hc
    have := G.pred_p; have := G.Plo
    have : pred = a := G.wf.inj pred a G.pred_t (by omega)
    exact absurd this.symm ha
  · have : (decide (P = 1) && decide (a = p)) = false := by
      simp only [Bool.and_eq_false_iff, decide_eq_false_iff_not]; omega
    simp [this]

/-- positions only: inside `x`'s tree / before the insertion point / after it / another tree -/
theorem region_pos (m : Nat) :
    (w.tree m = x ∧ (pasteWit w x p P).tree m = w.tree p ∧ (pasteWit w x p P).pos m = P + w.pos m ∧
      w.pos m < w.size x) ∨
    (w.tree m = w.tree p ∧ (pasteWit w x p P).tree m = w.tree p ∧ (pasteWit w x p P).pos m = w.pos m ∧
      w.pos m < P) ∨
    (w.tree m = w.tree p ∧ (pasteWit w x p P).tree m = w.tree p ∧ (pasteWit w x p P).pos m = w.pos m + w.size x ∧
      P ≤ w.pos m) ∨
    (w.tree m ≠ x ∧ w.tree m ≠ w.tree p ∧ (pasteWit w x p P).tree m = w.tree m ∧
      (pasteWit w x p P).pos m = w.pos m) := by
  have hpt := G.ptree
  have hs := G.wf.size_pos m
  by_cases h1 : w.tree m = x
  · have := G.in_x h1
    left; simp only [pasteWit]; grind
  · by_cases h2 : w.tree m = w.tree p
    · by_cases h3 : P ≤ w.pos m
      · right; right; left; simp only [pasteWit]; grind
      · right; left; simp only [pasteWit]; grind
    · right; right; right; simp only [pasteWit]; grind

theorem pred_ne_lastx : pred ≠ lastx := by
  intro e
  have := G.pred_t; have := G.last_t; have := G.ptree
  rw [e] at *; omega

end

include G L

theorem link_chain_ne (a b : Nat) :
    h'.ne a = some b ↔ ((pasteWit w x p P).unl a = false ∧ (pasteWit w x p P).tree a = (pasteWit w x p P).tree b ∧
      (pasteWit w x p P).pos b = (pasteWit w x p P).pos a + 1) := by
  rw [L.ne, pasteWit_unl]
  have ra := region_pos G a; have rb := region_pos G b
  have hxt := G.x_tree; have hpt := G.ptree
  have hlo := G.Plo
  have hlt := G.last_t; have hlp := G.last_p
  have hpt := G.pred_t; have hpp := G.pred_p
  have := G.wf.size_pos x; have := G.wf.size_pos a; have := G.wf.size_pos b
  by_cases hal : a = lastx
  · rw [if_pos hal]
    have hu : w.unl a = false := G.unl_in_x (by rw [hal]; exact hlt)
    rw [hu, G.succ_iff b]
    simp only [Bool.false_and, true_and]
    subst hal
    omega
  · rw [if_neg hal]
    have i1 := G.wf.inj a lastx
    by_cases hap : a = pred
    · rw [if_pos hap]
      subst hap
      rw [pred_unl' G]
      simp only [Option.some.injEq, true_and]
      have rx := G.region x
      constructor
      · intro e; subst e; omega
      · intro hh
        exact (G.wf.inj b x (by omega) (by omega)).symm
    · rw [if_neg hap, other_unl' G hap, G.wf.chain_ne a b]
      have i2 := G.wf.inj a pred
      constructor
      · rintro ⟨hu, h1, h2⟩
        refine ⟨hu, ?_⟩
        rcases ra with ra | ra | ra | ra <;> rcases rb with rb | rb | rb | rb <;> omega
      · rintro ⟨hu, h1, h2⟩
        refine ⟨hu, ?_⟩
        rcases ra with ra | ra | ra | ra <;> rcases rb with rb | rb | rb | rb <;> omega

theorem link_pe_ne (a b : Nat) : h'.pe b = some a ↔ h'.ne a = some b := by
  rw [L.pe, L.ne]
  have hold : h.pe b = some a ↔ h.ne a = some b := by rw [G.wf.chain_pe a b, G.wf.chain_ne a b]
  have hxt := G.x_tree; have hptr := G.ptree
  have hlt := G.last_t; have hlp := G.last_p
  have hpt := G.pred_t; have hpp := G.pred_p
  by_cases hsb : succ = some b
  · rw [if_pos hsb]
    obtain ⟨sb1, sb2⟩ := (G.succ_iff b).mp hsb
    by_cases hal : a = lastx
    · rw [if_pos hal]; simp [hal, hsb]
    · rw [if_neg hal]
      have : ¬ (some lastx = some a) := by
        intro e; cases e; exact hal rfl
      simp only [this, false_iff]
      by_cases hap : a = pred
      · rw [if_pos hap]
        intro e; cases e
        omega
      · rw [if_neg hap]
        intro hne
        obtain ⟨_, t, q⟩ := (G.wf.chain_ne a b).mp hne
        exact hap (G.wf.inj a pred (by omega) (by omega))
  · rw [if_neg hsb]
    by_cases hbx : b = x
    · rw [if_pos hbx]
      subst hbx
      by_cases hal : a = lastx
      · rw [if_pos hal]
        have : ¬ (some pred = some a) := by
          intro e; cases e; exact pred_ne_lastx G hal
        simp only [this, hsb]
      · rw [if_neg hal]
        by_cases hap : a = pred
        · simp [hap]
        · rw [if_neg hap]
          have h1 : ¬ (some pred = some a) := by
            intro e; cases e; exact hap rfl
          have h2 : ¬ (h.ne a = some b) := by
            intro hne
            have := (G.wf.chain_ne a b).mp hne
            omega
          simp only [h1, h2]
    · rw [if_neg hbx]
      by_cases hal : a = lastx
      · rw [if_pos hal, hold]
        simp only [hsb, iff_false]
        intro hne
        subst hal
        have := (G.wf.chain_ne a b).mp hne
        have := G.in_x (m := b) (by omega)
        have := G.wf.size_pos b
        omega
      · rw [if_neg hal]
        by_cases hap : a = pred
        · rw [if_pos hap, hold]
          have h1 : ¬ (some x = some b) := by
            intro e; cases e; exact hbx rfl
          simp only [h1, iff_false]
          intro hne
          subst hap
          have := (G.wf.chain_ne a b).mp hne
          exact hsb ((G.succ_iff b).mpr (by omega))
        · rw [if_neg hap]; exact hold

theorem link_chain_pe (a b : Nat) :
    h'.pe b = some a ↔ ((pasteWit w x p P).unl a = false ∧ (pasteWit w x p P).tree a = (pasteWit w x p P).tree b ∧
      (pasteWit w x p P).pos b = (pasteWit w x p P).pos a + 1) := by
  rw [link_pe_ne G L, link_chain_ne G L]

end

end BS.Heap
