import BSModel.Proofs.HeapLinkGeo
/-! Pillar 2, part 2: what `linkChild` computes, in closed form (read lemmas for every field). -/
namespace BS.Heap

/-- closed-form description of the heap after linking `x` under `p`:
    `pred`/`succ` = the elements that precede `x` / follow `x`'s last descendant `lastx` in document order,
    `prevSib`/`nextSib` = the new siblings of `x` -/
structure Linked (h h' : Heap) (p x pred lastx : Nat) (succ prevSib nextSib : Option Nat)
    (newKids : List Nat) : Prop where
  parent : ∀ j, h'.parent j = if j = x then some p else h.parent j
  ps : ∀ j, h'.ps j = if nextSib = some j then some x else if j = x then prevSib else h.ps j
  ns : ∀ j, h'.ns j = if j = x then nextSib else if prevSib = some j then some x else h.ns j
  ne : ∀ a, h'.ne a = if a = lastx then succ else if a = pred then some x else h.ne a
  pe : ∀ b, h'.pe b = if succ = some b then some lastx else if b = x then some pred else h.pe b
  kids : ∀ j, h'.kids j = if j = p then newKids else h.kids j
  kind : h'.kind = h.kind
  val : h'.val = h.val
  next : h'.next = h.next
  cap : h'.cap = h.cap + h.cap

/-! ### projections of the field writes -/
@[simp] theorem setParent_parent (h : Heap) (i : Nat) (v : Option Nat) (j : Nat) : (setParent h i v).parent j = if j = i then v else h.parent j := rfl
@[simp] theorem setParent_ps (h : Heap) (i : Nat) (v : Option Nat) : (setParent h i v).ps = h.ps := rfl
@[simp] theorem setParent_ns (h : Heap) (i : Nat) (v : Option Nat) : (setParent h i v).ns = h.ns := rfl
@[simp] theorem setParent_pe (h : Heap) (i : Nat) (v : Option Nat) : (setParent h i v).pe = h.pe := rfl
@[simp] theorem setParent_ne (h : Heap) (i : Nat) (v : Option Nat) : (setParent h i v).ne = h.ne := rfl
@[simp] theorem setParent_kids (h : Heap) (i : Nat) (v : Option Nat) : (setParent h i v).kids = h.kids := rfl
@[simp] theorem setParent_kind (h : Heap) (i : Nat) (v : Option Nat) : (setParent h i v).kind = h.kind := rfl
@[simp] theorem setParent_val (h : Heap) (i : Nat) (v : Option Nat) : (setParent h i v).val = h.val := rfl
@[simp] theorem setParent_next (h : Heap) (i : Nat) (v : Option Nat) : (setParent h i v).next = h.next := rfl
@[simp] theorem setParent_cap (h : Heap) (i : Nat) (v : Option Nat) : (setParent h i v).cap = h.cap := rfl
@[simp] theorem setPs_parent (h : Heap) (i : Nat) (v : Option Nat) : (setPs h i v).parent = h.parent := rfl
@[simp] theorem setPs_ps (h : Heap) (i : Nat) (v : Option Nat) (j : Nat) : (setPs h i v).ps j = if j = i then v else h.ps j := rfl
@[simp] theorem setPs_ns (h : Heap) (i : Nat) (v : Option Nat) : (setPs h i v).ns = h.ns := rfl
@[simp] theorem setPs_pe (h : Heap) (i : Nat) (v : Option Nat) : (setPs h i v).pe = h.pe := rfl
@[simp] theorem setPs_ne (h : Heap) (i : Nat) (v : Option Nat) : (setPs h i v).ne = h.ne := rfl
@[simp] theorem setPs_kids (h : Heap) (i : Nat) (v : Option Nat) : (setPs h i v).kids = h.kids := rfl
@[simp] theorem setPs_kind (h : Heap) (i : Nat) (v : Option Nat) : (setPs h i v).kind = h.kind := rfl
@[simp] theorem setPs_val (h : Heap) (i : Nat) (v : Option Nat) : (setPs h i v).val = h.val := rfl
@[simp] theorem setPs_next (h : Heap) (i : Nat) (v : Option Nat) : (setPs h i v).next = h.next := rfl
@[simp] theorem setPs_cap (h : Heap) (i : Nat) (v : Option Nat) : (setPs h i v).cap = h.cap := rfl
@[simp] theorem setNs_parent (h : Heap) (i : Nat) (v : Option Nat) : (setNs h i v).parent = h.parent := rfl
@[simp] theorem setNs_ps (h : Heap) (i : Nat) (v : Option Nat) : (setNs h i v).ps = h.ps := rfl
@[simp] theorem setNs_ns (h : Heap) (i : Nat) (v : Option Nat) (j : Nat) : (setNs h i v).ns j = if j = i then v else h.ns j := rfl
@[simp] theorem setNs_pe (h : Heap) (i : Nat) (v : Option Nat) : (setNs h i v).pe = h.pe := rfl
@[simp] theorem setNs_ne (h : Heap) (i : Nat) (v : Option Nat) : (setNs h i v).ne = h.ne := rfl
@[simp] theorem setNs_kids (h : Heap) (i : Nat) (v : Option Nat) : (setNs h i v).kids = h.kids := rfl
@[simp] theorem setNs_kind (h : Heap) (i : Nat) (v : Option Nat) : (setNs h i v).kind = h.kind := rfl
@[simp] theorem setNs_val (h : Heap) (i : Nat) (v : Option Nat) : (setNs h i v).val = h.val := rfl
@[simp] theorem setNs_next (h : Heap) (i : Nat) (v : Option Nat) : (setNs h i v).next = h.next := rfl
@[simp] theorem setNs_cap (h : Heap) (i : Nat) (v : Option Nat) : (setNs h i v).cap = h.cap := rfl
@[simp] theorem setPe_parent (h : Heap) (i : Nat) (v : Option Nat) : (setPe h i v).parent = h.parent := rfl
@[simp] theorem setPe_ps (h : Heap) (i : Nat) (v : Option Nat) : (setPe h i v).ps = h.ps := rfl
@[simp] theorem setPe_ns (h : Heap) (i : Nat) (v : Option Nat) : (setPe h i v).ns = h.ns := rfl
@[simp] theorem setPe_pe (h : Heap) (i : Nat) (v : Option Nat) (j : Nat) : (setPe h i v).pe j = if j = i then v else h.pe j := rfl
@[simp] theorem setPe_ne (h : Heap) (i : Nat) (v : Option Nat) : (setPe h i v).ne = h.ne := rfl
@[simp] theorem setPe_kids (h : Heap) (i : Nat) (v : Option Nat) : (setPe h i v).kids = h.kids := rfl
@[simp] theorem setPe_kind (h : Heap) (i : Nat) (v : Option Nat) : (setPe h i v).kind = h.kind := rfl
@[simp] theorem setPe_val (h : Heap) (i : Nat) (v : Option Nat) : (setPe h i v).val = h.val := rfl
@[simp] theorem setPe_next (h : Heap) (i : Nat) (v : Option Nat) : (setPe h i v).next = h.next := rfl
@[simp] theorem setPe_cap (h : Heap) (i : Nat) (v : Option Nat) : (setPe h i v).cap = h.cap := rfl
@[simp] theorem setNe_parent (h : Heap) (i : Nat) (v : Option Nat) : (setNe h i v).parent = h.parent := rfl
@[simp] theorem setNe_ps (h : Heap) (i : Nat) (v : Option Nat) : (setNe h i v).ps = h.ps := rfl
@[simp] theorem setNe_ns (h : Heap) (i : Nat) (v : Option Nat) : (setNe h i v).ns = h.ns := rfl
@[simp] theorem setNe_pe (h : Heap) (i : Nat) (v : Option Nat) : (setNe h i v).pe = h.pe := rfl
@[simp] theorem setNe_ne (h : Heap) (i : Nat) (v : Option Nat) (j : Nat) : (setNe h i v).ne j = if j = i then v else h.ne j := rfl
@[simp] theorem setNe_kids (h : Heap) (i : Nat) (v : Option Nat) : (setNe h i v).kids = h.kids := rfl
@[simp] theorem setNe_kind (h : Heap) (i : Nat) (v : Option Nat) : (setNe h i v).kind = h.kind := rfl
@[simp] theorem setNe_val (h : Heap) (i : Nat) (v : Option Nat) : (setNe h i v).val = h.val := rfl
@[simp] theorem setNe_next (h : Heap) (i : Nat) (v : Option Nat) : (setNe h i v).next = h.next := rfl
@[simp] theorem setNe_cap (h : Heap) (i : Nat) (v : Option Nat) : (setNe h i v).cap = h.cap := rfl
@[simp] theorem setKids_parent (h : Heap) (i : Nat) (v : List Nat) : (setKids h i v).parent = h.parent := rfl
@[simp] theorem setKids_ps (h : Heap) (i : Nat) (v : List Nat) : (setKids h i v).ps = h.ps := rfl
@[simp] theorem setKids_ns (h : Heap) (i : Nat) (v : List Nat) : (setKids h i v).ns = h.ns := rfl
@[simp] theorem setKids_pe (h : Heap) (i : Nat) (v : List Nat) : (setKids h i v).pe = h.pe := rfl
@[simp] theorem setKids_ne (h : Heap) (i : Nat) (v : List Nat) : (setKids h i v).ne = h.ne := rfl
@[simp] theorem setKids_kids (h : Heap) (i : Nat) (v : List Nat) (j : Nat) : (setKids h i v).kids j = if j = i then v else h.kids j := rfl
@[simp] theorem setKids_kind (h : Heap) (i : Nat) (v : List Nat) : (setKids h i v).kind = h.kind := rfl
@[simp] theorem setKids_val (h : Heap) (i : Nat) (v : List Nat) : (setKids h i v).val = h.val := rfl
@[simp] theorem setKids_next (h : Heap) (i : Nat) (v : List Nat) : (setKids h i v).next = h.next := rfl
@[simp] theorem setKids_cap (h : Heap) (i : Nat) (v : List Nat) : (setKids h i v).cap = h.cap := rfl

@[simp] theorem lastDown_setParent (h : Heap) (i : Nat) (v : Option Nat) : lastDown (setParent h i v) = lastDown h := by
  funext f n; exact lastDown_congr (setParent h i v) h rfl rfl f n
@[simp] theorem lastDown_setPs (h : Heap) (i : Nat) (v : Option Nat) : lastDown (setPs h i v) = lastDown h := by
  funext f n; exact lastDown_congr (setPs h i v) h rfl rfl f n
@[simp] theorem lastDown_setNs (h : Heap) (i : Nat) (v : Option Nat) : lastDown (setNs h i v) = lastDown h := by
  funext f n; exact lastDown_congr (setNs h i v) h rfl rfl f n
@[simp] theorem lastDown_setPe (h : Heap) (i : Nat) (v : Option Nat) : lastDown (setPe h i v) = lastDown h := by
  funext f n; exact lastDown_congr (setPe h i v) h rfl rfl f n
@[simp] theorem lastDown_setNe (h : Heap) (i : Nat) (v : Option Nat) : lastDown (setNe h i v) = lastDown h := by
  funext f n; exact lastDown_congr (setNe h i v) h rfl rfl f n

/-- the previous sibling the new child gets -/
def prevSibOf (h : Heap) (p i : Nat) : Option Nat := if i = 0 then none else (h.kids p)[i - 1]?

/-- the element that will precede the new child -/
def predOf (h : Heap) (p i : Nat) : Nat :=
  match prevSibOf h p i with
  | none => p
  | some pc => lastDown h h.cap pc

/-! ### `linkChild` in stages -/

def linkPrev (h : Heap) (p pos x : Nat) : Except Err (Heap × Option Nat) :=
  let h0 := setParent h x (some p)
  if pos = 0 then
    .ok (setPe (setPs h0 x none) x (some p), some p)
  else
    match (h0.kids p)[pos - 1]? with
    | none => .error .crash
    | some pc =>
      let h1 := setNs (setPs h0 x (some pc)) pc (some x)
      let l := lastDown h1 h1.cap pc
      .ok (setPe h1 x (some l), some l)

def linkNext (h3 : Heap) (p pos x lastx : Nat) : Heap :=
  if pos ≥ (h3.kids p).length then
    setNe (setNs h3 x none) lastx (nextAfter (setNs h3 x none) (setNs h3 x none).cap p)
  else
    match (h3.kids p)[pos]? with
    | none => h3
    | some nc => setNe (setPs (setNs h3 x (some nc)) nc (some x)) lastx (some nc)

def linkFin (h6 : Heap) (p pos x : Nat) : Heap :=
  { setKids h6 p ((h6.kids p).insertIdx pos x) with cap := h6.cap + h6.cap }

theorem linkChild_eq (h : Heap) (p pos x : Nat) :
    linkChild h p pos x =
      match linkPrev h p pos x with
      | .error e => .error e
      | .ok (h2, prevEl) =>
        let h3 := setNeO h2 prevEl (some x)
        let lastx := lastDown h3 h3.cap x
        let h5 := linkNext h3 p pos x lastx
        .ok (linkFin (setPeO h5 (h5.ne lastx) (some lastx)) p pos x) := rfl

theorem linkPrev_ok (h : Heap) (p i x : Nat) (hi : i ≤ (h.kids p).length) :
    ∃ h2, linkPrev h p i x = .ok (h2, some (predOf h p i)) ∧
      (∀ j, h2.parent j = if j = x then some p else h.parent j) ∧
      (∀ j, h2.ps j = if j = x then prevSibOf h p i else h.ps j) ∧
      (∀ j, h2.ns j = if prevSibOf h p i = some j then some x else h.ns j) ∧
      (∀ j, h2.pe j = if j = x then some (predOf h p i) else h.pe j) ∧
      h2.ne = h.ne ∧ h2.kids = h.kids ∧ h2.kind = h.kind ∧ h2.val = h.val ∧ h2.next = h.next ∧ h2.cap = h.cap := by
  by_cases hi0 : i = 0
  · subst hi0
    refine ⟨_, rfl, ?_⟩
    simp [prevSibOf, predOf]
  · have hlt : i - 1 < (h.kids p).length := by omega
    have hpc : (h.kids p)[i - 1]? = some ((h.kids p)[i - 1]) := List.getElem?_eq_getElem hlt
    refine ⟨setPe (setNs (setPs (setParent h x (some p)) x (some (h.kids p)[i - 1])) (h.kids p)[i - 1] (some x)) x
      (some (lastDown h h.cap (h.kids p)[i - 1])), ?_, ?_⟩
    · simp [linkPrev, hi0, hpc, predOf, prevSibOf]
    · simp [prevSibOf, predOf, hi0, hpc]
      intro j; grind


theorem linkNext_reads (h3 : Heap) (p i x lastx : Nat) :
    let succ := if (h3.kids p).length ≤ i then nextAfter (setNs h3 x none) h3.cap p else (h3.kids p)[i]?
    (linkNext h3 p i x lastx).parent = h3.parent ∧
    (∀ j, (linkNext h3 p i x lastx).ps j = if (h3.kids p)[i]? = some j then some x else h3.ps j) ∧
    (∀ j, (linkNext h3 p i x lastx).ns j = if j = x then (h3.kids p)[i]? else h3.ns j) ∧
    (∀ a, (linkNext h3 p i x lastx).ne a = if a = lastx then succ else h3.ne a) ∧
    (linkNext h3 p i x lastx).pe = h3.pe ∧ (linkNext h3 p i x lastx).kids = h3.kids ∧
    (linkNext h3 p i x lastx).kind = h3.kind ∧ (linkNext h3 p i x lastx).val = h3.val ∧
    (linkNext h3 p i x lastx).next = h3.next ∧ (linkNext h3 p i x lastx).cap = h3.cap := by
  intro succ
  by_cases hlen : (h3.kids p).length ≤ i
  · have hn : (h3.kids p)[i]? = none := List.getElem?_eq_none hlen
    simp [linkNext, hlen, succ]
  · have hlt : i < (h3.kids p).length := by omega
    have hn : (h3.kids p)[i]? = some ((h3.kids p)[i]) := List.getElem?_eq_getElem hlt
    simp [linkNext, hlen, hn, succ]
    intro j; grind

theorem linkChild_linked (h : Heap) (p i x : Nat) (hi : i ≤ (h.kids p).length) :
    ∃ h' g, linkChild h p i x = .ok h' ∧
      (∀ j, g.ns j = if j = x then none else if prevSibOf h p i = some j then some x else h.ns j) ∧
      (∀ j, g.parent j = if j = x then some p else h.parent j) ∧
      Linked h h' p x (predOf h p i) (lastDown h h.cap x)
        (if (h.kids p).length ≤ i then nextAfter g h.cap p else (h.kids p)[i]?)
        (prevSibOf h p i) ((h.kids p)[i]?) ((h.kids p).insertIdx i x) := by
  obtain ⟨h2, e2, r1, r2, r3, r4, r5, r6, r7, r8, r9, r10⟩ := linkPrev_ok h p i x hi
  have hr := linkNext_reads (setNe h2 (predOf h p i) (some x)) p i x (lastDown h h.cap x)
  simp only [setNe_kids, setNe_cap, setNe_parent, setNe_ps, setNe_ns, setNe_ne, setNe_pe, setNe_kind,
    setNe_val, setNe_next, r6, r10] at hr
  obtain ⟨q1, q2, q3, q4, q5, q6, q7, q8, q9, q10⟩ := hr
  generalize hh5 : linkNext (setNe h2 (predOf h p i) (some x)) p i x (lastDown h h.cap x) = h5 at *
  refine ⟨linkFin (setPeO h5 (h5.ne (lastDown h h.cap x)) (some (lastDown h h.cap x))) p i x,
    setNs (setNe h2 (predOf h p i) (some x)) x none, ?_, ?_, ?_, ?_⟩
  · rw [linkChild_eq, e2]
    simp only [setNeO, lastDown_setNe, setNe_cap, r10, lastDown_congr h2 h r6 r7, hh5]
  · intro j; simp [r3]
  · intro j; simp [r1]
  · have hsucc := q4 (lastDown h h.cap x)
    simp only [if_true] at hsucc
    generalize hs : (if (h.kids p).length ≤ i then nextAfter (setNs (setNe h2 (predOf h p i) (some x)) x none) h.cap p
        else (h.kids p)[i]?) = succ at *
    rw [hsucc]
    cases succ with
    | none =>
      constructor <;> simp [linkFin, setPeO, *]
    | some sc =>
      constructor <;> simp [linkFin, setPeO, *]
      intro b; grind

end BS.Heap
