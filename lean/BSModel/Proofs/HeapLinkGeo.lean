import BSModel.Proofs.HeapBasics
/-! Pillar 2, part 1: list lemmas about `Tiles`/`boundary`, the geometry of a well-formed forest
    (parents, ancestors, the insertion point) and the two walks (`lastDown`, `nextAfter`). -/
namespace BS.Heap

/-! ## `Tiles` under uniform shifts and under growth of one tile -/

theorem tiles_shift_lk (pos size pos' size' : Nat → Nat) (d : Nat) :
    ∀ (ks : List Nat) (s e : Nat), Tiles pos size ks s e →
      (∀ k ∈ ks, pos' k = pos k + d ∧ size' k = size k) →
      Tiles pos' size' ks (s + d) (e + d) := by
  intro ks
  induction ks with
  | nil => intro s e h _; simp [Tiles] at h ⊢; omega
  | cons a l ih =>
    intro s e h hk
    obtain ⟨ha, ha1, hr⟩ := h
    have e1 := hk a (by simp)
    have := ih (s + size a) e hr (fun k hk' => hk k (by simp [hk']))
    refine ⟨by omega, by omega, ?_⟩
    rw [e1.2]
    have e : s + size a + d = s + d + size a := by omega
    rw [← e]; exact this

theorem tiles_congr (pos size pos' size' : Nat → Nat) (ks : List Nat) (s e : Nat)
    (h : Tiles pos size ks s e) (hk : ∀ k ∈ ks, pos' k = pos k ∧ size' k = size k) :
    Tiles pos' size' ks s e := by
  have := tiles_shift_lk pos size pos' size' 0 ks s e h (by simpa using hk)
  simpa using this

/-- the tile containing position `q` grows by `d`, the later tiles shift by `d` -/
theorem tiles_grow (pos size pos' size' : Nat → Nat) (q d : Nat) :
    ∀ (ks : List Nat) (s e : Nat), Tiles pos size ks s e → s ≤ q → q < e →
      (∀ k ∈ ks, pos' k = if q < pos k then pos k + d else pos k) →
      (∀ k ∈ ks, size' k = if pos k ≤ q ∧ q < pos k + size k then size k + d else size k) →
      Tiles pos' size' ks s (e + d) := by
  intro ks
  induction ks with
  | nil => intro s e h h1 h2 _ _; simp [Tiles] at h; omega
  | cons a l ih =>
    intro s e h h1 h2 hp hs
    obtain ⟨ha, ha1, hr⟩ := h
    have e1 := hp a (by simp)
    have e2 := hs a (by simp)
    by_cases hq : q < s + size a
    · have hpa : pos' a = s := by rw [e1, if_neg (by omega)]; exact ha
      have hsa : size' a = size a + d := by rw [e2, if_pos (by omega)]
      refine ⟨hpa, by omega, ?_⟩
      rw [hsa]
      have := tiles_shift_lk pos size pos' size' d l (s + size a) e hr (by
        intro k hk
        have hm := tiles_mem pos size l _ _ hr k hk
        have e3 := hp k (by simp [hk])
        have e4 := hs k (by simp [hk])
        rw [e3, e4, if_pos (by omega), if_neg (by omega)]
        exact ⟨rfl, rfl⟩)
      have e : s + size a + d = s + (size a + d) := by omega
      rw [← e]; exact this
    · have hpa : pos' a = s := by rw [e1, if_neg (by omega)]; exact ha
      have hsa : size' a = size a := by rw [e2, if_neg (by omega)]
      refine ⟨hpa, by omega, ?_⟩
      rw [hsa]
      exact ih (s + size a) e hr (by omega) h2 (fun k hk => hp k (by simp [hk])) (fun k hk => hs k (by simp [hk]))

/-- a tile is the last one or is followed by another tile -/
theorem tiles_next (pos size : Nat → Nat) :
    ∀ (ks : List Nat) (s e : Nat), Tiles pos size ks s e →
      ∀ k ∈ ks, pos k + size k = e ∨ ∃ k' ∈ ks, pos k' = pos k + size k := by
  intro ks
  induction ks with
  | nil => intro s e _ k hk; simp at hk
  | cons a l ih =>
    intro s e h k hk
    obtain ⟨ha, ha1, hr⟩ := h
    rcases List.mem_cons.mp hk with rfl | hk'
    · cases l with
      | nil => simp [Tiles] at hr; left; omega
      | cons b l' =>
        right
        exact ⟨b, by simp, by have := hr.1; omega⟩
    · rcases ih _ _ hr k hk' with h1 | ⟨k', hk1, hk2⟩
      · exact Or.inl h1
      · exact Or.inr ⟨k', by simp [hk1], hk2⟩

/-! ## slot boundaries -/

theorem boundary_zero (size : Nat → Nat) (ks : List Nat) (s : Nat) : boundary size ks s 0 = s := by
  cases ks <;> rfl

/-- a slot boundary never lies strictly inside a tile -/
theorem boundary_sep (pos size : Nat → Nat) :
    ∀ (ks : List Nat) (s e i : Nat), Tiles pos size ks s e →
      ∀ k ∈ ks, pos k + size k ≤ boundary size ks s i ∨ boundary size ks s i ≤ pos k := by
  intro ks
  induction ks with
  | nil => intro s e i _ k hk; simp at hk
  | cons a l ih =>
    intro s e i h k hk
    have hm := tiles_mem pos size (a :: l) s e h k hk
    obtain ⟨ha, ha1, hr⟩ := h
    cases i with
    | zero => right; simp only [boundary]; omega
    | succ i =>
      simp only [boundary]
      rcases List.mem_cons.mp hk with rfl | hk'
      · left; have := boundary_ge size l (s + size k) i; omega
      · exact ih _ _ i hr k hk'

/-- slot `i+1` starts where child `i` ends -/
theorem boundary_prev (pos size : Nat → Nat) :
    ∀ (ks : List Nat) (s e i k : Nat), Tiles pos size ks s e → ks[i]? = some k →
      boundary size ks s (i + 1) = pos k + size k := by
  intro ks
  induction ks with
  | nil => intro s e i k _ hk; simp at hk
  | cons a l ih =>
    intro s e i k h hk
    obtain ⟨ha, ha1, hr⟩ := h
    cases i with
    | zero =>
      simp at hk; subst hk
      simp only [boundary, boundary_zero]; omega
    | succ i =>
      simp only [List.getElem?_cons_succ] at hk
      simp only [boundary]
      exact ih _ _ i k hr hk

/-! ## the down-walk only reads `contents` and the class -/

theorem lastDown_congr (h1 h2 : Heap) (hk : h1.kids = h2.kids) (hd : h1.kind = h2.kind) :
    ∀ f n, lastDown h1 f n = lastDown h2 f n := by
  intro f
  induction f with
  | zero => intro n; rfl
  | succ f ih =>
    intro n
    simp only [lastDown, hk, hd]
    split
    · split
      · rfl
      · exact ih _
    · rfl

/-! ## geometry of a well-formed forest -/
section
variable {h : Heap} {w : Wit} (hwf : WF h w)
include hwf

/-- a child's interval lies strictly inside its parent's -/
theorem kid_in {a q : Nat} (hp : h.parent a = some q) :
    w.tree a = w.tree q ∧ w.pos q + 1 ≤ w.pos a ∧ w.pos a + w.size a ≤ w.pos q + w.size q := by
  have hm := hwf.parent_kid a q hp
  have := tiles_mem _ _ _ _ _ (hwf.tiles q) a hm
  exact ⟨hwf.kid_tree q a hm, this.1, this.2.1⟩

/-- the parent is the lowest proper ancestor -/
theorem parent_min {a q m : Nat} (hp : h.parent a = some q) (ht : w.tree m = w.tree a)
    (h1 : w.pos m < w.pos a) (h2 : w.pos a < w.pos m + w.size m) : w.pos m ≤ w.pos q := by
  apply Classical.byContradiction
  intro hc
  have hka := hwf.parent_kid a q hp
  obtain ⟨hta, ha1, ha2⟩ := kid_in hwf hp
  have hl := hwf.laminar q m (by rw [ht, hta]) (by omega) (by omega)
  obtain ⟨k, hk, hk1, hk2⟩ := tiles_cover _ _ _ _ _ (w.pos m) (hwf.tiles q) (by omega) (by omega)
  have hkt := hwf.kid_tree q k hk
  have hl2 := hwf.laminar k m (by rw [hkt, ht, hta]) hk1 hk2
  have := tiles_disjoint _ _ _ _ _ (hwf.tiles q) k hk a hka (by omega) (by omega)
  omega

theorem root_of_tree (n : Nat) : w.tree (w.tree n) = w.tree n ∧ w.pos (w.tree n) = 0 :=
  hwf.root_tree _ (hwf.tree_root n)

theorem pos_lt_tree (n : Nat) : w.pos n < w.size (w.tree n) := by
  have := hwf.bound n; have := hwf.size_pos n; omega

theorem no_ns_of_root {r : Nat} (hr : h.parent r = none) : h.ns r = none := by
  cases hn : h.ns r with
  | none => rfl
  | some b =>
    obtain ⟨⟨q, hq, _⟩, _⟩ := (hwf.sib_ns r b).mp hn
    rw [hr] at hq; cases hq

theorem no_ps_of_root {r : Nat} (hr : h.parent r = none) : h.ps r = none := by
  cases hn : h.ps r with
  | none => rfl
  | some b =>
    obtain ⟨⟨q, _, hq⟩, _⟩ := (hwf.sib_ps b r).mp hn
    rw [hr] at hq; cases hq

theorem no_pe_of_root {r : Nat} (hr : h.parent r = none) : h.pe r = none := by
  cases hn : h.pe r with
  | none => rfl
  | some b =>
    have := (hwf.chain_pe b r).mp hn
    have := (hwf.root_tree r hr).2
    omega

/-- the up-walk of `_insert` finds the node right after the subtree of `q` (in document order), if any.
    `g` is the intermediate heap the walk runs on: it agrees with `h` on the nodes the walk visits. -/
theorem nextAfter_spec (g : Heap) (p : Nat)
    (hag : ∀ n, w.tree n = w.tree p → w.pos n ≤ w.pos p → g.ns n = h.ns n ∧ g.parent n = h.parent n) :
    ∀ (f q : Nat), w.tree q = w.tree p → w.pos q ≤ w.pos p → w.pos q < f →
      ∀ b, nextAfter g f q = some b ↔ (w.tree b = w.tree q ∧ w.pos b = w.pos q + w.size q) := by
  intro f
  induction f with
  | zero => intro q _ _ hf; omega
  | succ f ih =>
    intro q hqt hqp hf b
    obtain ⟨e1, e2⟩ := hag q hqt hqp
    simp only [nextAfter, e1, e2]
    cases hn : h.ns q with
    | some s =>
      simp only
      obtain ⟨⟨r, hr1, hr2⟩, hs⟩ := (hwf.sib_ns q s).mp hn
      have t1 := (kid_in hwf hr1).1
      have t2 := (kid_in hwf hr2).1
      constructor
      · intro hb; cases hb; exact ⟨by rw [t1, t2], hs⟩
      · rintro ⟨hb1, hb2⟩
        have := hwf.inj b s (by rw [hb1, t1, t2]) (by omega)
        rw [this]
    | none =>
      simp only
      cases hpq : h.parent q with
      | none =>
        simp only
        obtain ⟨r1, r2⟩ := hwf.root_tree q hpq
        constructor
        · intro hb; cases hb
        · rintro ⟨hb1, hb2⟩
          have := pos_lt_tree hwf b
          rw [hb1, r1] at this
          omega
      | some r =>
        simp only
        obtain ⟨t1, t2, t3⟩ := kid_in hwf hpq
        have hm := hwf.parent_kid q r hpq
        have hend : w.pos q + w.size q = w.pos r + w.size r := by
          rcases tiles_next _ _ _ _ _ (hwf.tiles r) q hm with h1 | ⟨k', hk1, hk2⟩
          · exact h1
          · have := (hwf.sib_ns q k').mpr ⟨⟨r, hpq, hwf.kid_parent r k' hk1⟩, hk2⟩
            rw [hn] at this; cases this
        have := ih r (by rw [← t1, hqt]) (by omega) (by omega) b
        rw [this, t1, hend]

end

end BS.Heap
