import BSModel.Proofs.HeapLinkA
/-! Pillar 2, part 6: the sibling links (`next_sibling`/`previous_sibling`) after linking. -/
namespace BS.Heap

section
variable {h h' : Heap} {w : Wit} {p x P pred lastx : Nat} {succ prevSib nextSib : Option Nat}
  {newKids : List Nat}
  (G : Geo h w p x P pred lastx succ prevSib nextSib)
  (L : Linked h h' p x pred lastx succ prevSib nextSib newKids)

section
include G

/-- a node that ends at the insertion point and has a next sibling is the previous child, or spans `p` -/
theorem prev_unique {a b q : Nat} (ha : h.parent a = some q) (hb : h.parent b = some q)
    (hab : w.pos b = w.pos a + w.size a) (haP : w.pos a + w.size a = P) (ht : w.tree a = w.tree p)
    (hn : w.pos p < w.pos a ∨ w.pos a + w.size a ≤ w.pos p) : h.parent a = some p := by
  have hlo := G.Plo; have hhi := G.Phi
  have hsa := G.wf.size_pos a; have hsb := G.wf.size_pos b
  have hm := parent_min G.wf (m := p) ha ht.symm (by omega) (by omega)
  obtain ⟨ta, a1, a2⟩ := kid_in G.wf ha
  obtain ⟨tb, b1, b2⟩ := kid_in G.wf hb
  by_cases hpq : w.pos p = w.pos q
  · have : p = q := G.wf.inj p q (by rw [← ta, ht]) hpq
    rw [this]; exact ha
  · have := G.nonanc (m := q) (by rw [← ta, ht]) (by omega)
    omega

/-- kids of `p` are not moved by growth, only shifted -/
theorem kid_region {k : Nat} (hk : h.parent k = some p) :
    w.tree k = w.tree p ∧ (pasteWit w x p P).size k = w.size k ∧
    ((w.pos k + w.size k ≤ P ∧ (pasteWit w x p P).pos k = w.pos k) ∨
     (P ≤ w.pos k ∧ (pasteWit w x p P).pos k = w.pos k + w.size x)) := by
  obtain ⟨t, k1, k2⟩ := kid_in G.wf hk
  have := G.region k
  have := G.ptree
  have := G.wf.size_pos k
  omega

end

include G L

theorem link_sib_ns (a b : Nat) :
    h'.ns a = some b ↔ ((∃ q, h'.parent a = some q ∧ h'.parent b = some q) ∧
      (pasteWit w x p P).pos b = (pasteWit w x p P).pos a + (pasteWit w x p P).size a) := by
  rw [L.ns]
  simp only [L.parent]
  have hxt := G.x_tree; have hptr := G.ptree
  have hsx := G.wf.size_pos x
  have rx := G.region x
  by_cases hax : a = x
  · subst hax
    simp only [if_true, Option.some.injEq, exists_eq_left']
    rw [G.next_iff b]
    constructor
    · rintro ⟨h1, h2⟩
      have hbx : b ≠ a := by intro e; subst e; rw [G.xroot] at h1; cases h1
      have := kid_region G h1
      have := G.wf.size_pos b
      simp only [hbx, if_false]
      refine ⟨h1, by omega⟩
    · rintro ⟨h1, h2⟩
      have hbx : b ≠ a := by intro e; subst e; omega
      simp only [hbx, if_false] at h1
      have := kid_region G h1
      have := G.wf.size_pos b
      refine ⟨h1, by omega⟩
  · simp only [hax, if_false]
    by_cases hpa : prevSib = some a
    · simp only [hpa, if_true, Option.some.injEq]
      obtain ⟨pa1, pa2⟩ := (G.prev_iff a).mp hpa
      have ka := kid_region G pa1
      have := G.wf.size_pos a
      constructor
      · intro e; subst e
        simp only [if_true]
        exact ⟨⟨p, pa1, rfl⟩, by omega⟩
      · rintro ⟨⟨q, q1, q2⟩, h2⟩
        apply Classical.byContradiction
        intro hbx
        have hbx' : b ≠ x := fun e => hbx e.symm
        simp only [hbx', if_false] at q2
        rw [pa1] at q1; cases q1
        have := kid_region G q2
        have := G.wf.size_pos b
        omega
    · simp only [hpa, if_false]
      rw [G.wf.sib_ns a b]
      have ra := G.region a; have rb := G.region b
      have := G.wf.size_pos a; have := G.wf.size_pos b
      constructor
      · rintro ⟨⟨q, q1, q2⟩, h2⟩
        have hbx : b ≠ x := by intro e; subst e; rw [G.xroot] at q2; cases q2
        simp only [hbx, if_false]
        refine ⟨⟨q, q1, q2⟩, ?_⟩
        have t1 := (kid_in G.wf q1).1
        have t2 := (kid_in G.wf q2).1
        have hu : ¬ (w.pos a + w.size a = P ∧ w.tree a = w.tree p ∧
            (w.pos p < w.pos a ∨ w.pos a + w.size a ≤ w.pos p)) := by
          rintro ⟨u1, u2, u3⟩
          exact hpa ((G.prev_iff a).mpr ⟨prev_unique G q1 q2 h2 u1 u2 u3, u1⟩)
        omega
      · rintro ⟨⟨q, q1, q2⟩, h2⟩
        by_cases hbx : b = x
        · subst hbx
          simp only [if_true] at q2
          cases q2
          have := kid_region G q1
          exfalso
          apply hpa
          exact (G.prev_iff a).mpr ⟨q1, by omega⟩
        · simp only [hbx, if_false] at q2
          refine ⟨⟨q, q1, q2⟩, ?_⟩
          have t1 := (kid_in G.wf q1).1
          have t2 := (kid_in G.wf q2).1
          omega

theorem link_ps_ns (a b : Nat) : h'.ps b = some a ↔ h'.ns a = some b := by
  rw [L.ps, L.ns]
  have hold : h.ps b = some a ↔ h.ns a = some b := by rw [G.wf.sib_ps a b, G.wf.sib_ns a b]
  have f1 : nextSib = some b → b ≠ x := by
    intro e hbx; subst hbx; have := ((G.next_iff b).mp e).1; rw [G.xroot] at this; cases this
  have f2 : prevSib = some a → a ≠ x := by
    intro e hax; subst hax; have := ((G.prev_iff a).mp e).1; rw [G.xroot] at this; cases this
  have f3 : h.ns x = none := no_ns_of_root G.wf G.xroot
  have f4 : h.ps x = none := no_ps_of_root G.wf G.xroot
  have f5 : h.ns a ≠ some x := by
    intro e; obtain ⟨⟨q, _, q2⟩, _⟩ := (G.wf.sib_ns a x).mp e; rw [G.xroot] at q2; cases q2
  have f6 : h.ps b ≠ some x := by
    intro e; obtain ⟨⟨q, q1, _⟩, _⟩ := (G.wf.sib_ps x b).mp e; rw [G.xroot] at q1; cases q1
  have f7 : nextSib = some b → h.ns a = some b → prevSib = some a := by
    intro e1 e2
    obtain ⟨n1, n2⟩ := (G.next_iff b).mp e1
    obtain ⟨⟨q, q1, q2⟩, q3⟩ := (G.wf.sib_ns a b).mp e2
    rw [n1] at q2; cases q2
    exact (G.prev_iff a).mpr ⟨q1, by omega⟩
  have f8 : prevSib = some a → h.ns a = some b → nextSib = some b := by
    intro e1 e2
    obtain ⟨n1, n2⟩ := (G.prev_iff a).mp e1
    obtain ⟨⟨q, q1, q2⟩, q3⟩ := (G.wf.sib_ns a b).mp e2
    rw [n1] at q1; cases q1
    exact (G.next_iff b).mpr ⟨q2, by omega⟩
  grind

theorem link_sib_ps (a b : Nat) :
    h'.ps b = some a ↔ ((∃ q, h'.parent a = some q ∧ h'.parent b = some q) ∧
      (pasteWit w x p P).pos b = (pasteWit w x p P).pos a + (pasteWit w x p P).size a) := by
  rw [link_ps_ns G L, link_sib_ns G L]

end

end BS.Heap
