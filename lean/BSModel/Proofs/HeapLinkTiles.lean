import BSModel.Proofs.HeapLinkA
/-! Pillar 2, part 7: the children still tile their parent's interval after linking. -/
namespace BS.Heap

section
variable {h h' : Heap} {w : Wit} {p x P pred lastx : Nat} {succ prevSib nextSib : Option Nat}
  {newKids : List Nat}
  (G : Geo h w p x P pred lastx succ prevSib nextSib)
  (L : Linked h h' p x pred lastx succ prevSib nextSib newKids)

include G L

theorem link_tiles
    (htp : Tiles (pasteWit w x p P).pos (pasteWit w x p P).size newKids (w.pos p + 1) (w.pos p + w.size p + w.size x))
    (n : Nat) :
    Tiles (pasteWit w x p P).pos (pasteWit w x p P).size (h'.kids n)
      ((pasteWit w x p P).pos n + 1) ((pasteWit w x p P).pos n + (pasteWit w x p P).size n) := by
  rw [L.kids]
  have hptr := G.ptree
  have hlo := G.Plo; have hhi := G.Phi
  have rn := G.region n
  have hsn := G.wf.size_pos n
  by_cases hnp : n = p
  · subst hnp
    simp only [if_true]
    have e1 : (pasteWit w x n P).pos n = w.pos n := by omega
    have e2 : (pasteWit w x n P).size n = w.size n + w.size x := by omega
    rw [e1, e2]
    have e3 : w.pos n + (w.size n + w.size x) = w.pos n + w.size n + w.size x := by omega
    rw [e3]; exact htp
  · simp only [hnp, if_false]
    have hT := G.wf.tiles n
    have hkin : ∀ k ∈ h.kids n, w.tree k = w.tree n ∧ w.pos n + 1 ≤ w.pos k ∧ w.pos k + w.size k ≤ w.pos n + w.size n :=
      fun k hk => kid_in G.wf (G.wf.kid_parent n k hk)
    have hpn : w.tree n = w.tree p → w.pos n ≠ w.pos p := fun ht hp => hnp (G.wf.inj n p ht hp)
    rcases rn with rn | rn | rn | rn | rn
    · -- inside x's tree: uniform shift by P
      have := tiles_shift_lk w.pos w.size (pasteWit w x p P).pos (pasteWit w x p P).size P (h.kids n) _ _ hT (by
        intro k hk
        have := hkin k hk; have := G.region k
        omega)
      have e1 : (pasteWit w x p P).pos n + 1 = w.pos n + 1 + P := by omega
      have e2 : (pasteWit w x p P).pos n + (pasteWit w x p P).size n = w.pos n + w.size n + P := by omega
      rw [e1, e2]; exact this
    · -- a proper ancestor of p: the child containing p grows, the later ones shift
      have := tiles_grow w.pos w.size (pasteWit w x p P).pos (pasteWit w x p P).size (w.pos p) (w.size x)
        (h.kids n) _ _ hT (by omega) (by omega) (by
          intro k hk
          have := hkin k hk; have := G.region k; have := G.wf.size_pos k
          have := fun h1 h2 => parent_min G.wf (m := p) (G.wf.kid_parent n k hk) (by omega) h1 h2
          split <;> omega) (by
          intro k hk
          have := hkin k hk; have := G.region k; have := G.wf.size_pos k
          have := fun h1 h2 => parent_min G.wf (m := p) (G.wf.kid_parent n k hk) (by omega) h1 h2
          split <;> omega)
      have e1 : (pasteWit w x p P).pos n + 1 = w.pos n + 1 := by omega
      have e2 : (pasteWit w x p P).pos n + (pasteWit w x p P).size n = w.pos n + w.size n + w.size x := by omega
      rw [e1, e2]; exact this
    · -- before the insertion point: unchanged
      have := tiles_congr w.pos w.size (pasteWit w x p P).pos (pasteWit w x p P).size (h.kids n) _ _ hT (by
        intro k hk
        have := hkin k hk; have := G.region k; have := G.wf.size_pos k
        omega)
      have e1 : (pasteWit w x p P).pos n + 1 = w.pos n + 1 := by omega
      have e2 : (pasteWit w x p P).pos n + (pasteWit w x p P).size n = w.pos n + w.size n := by omega
      rw [e1, e2]; exact this
    · -- after the insertion point: uniform shift by size x
      have := tiles_shift_lk w.pos w.size (pasteWit w x p P).pos (pasteWit w x p P).size (w.size x) (h.kids n) _ _ hT (by
        intro k hk
        have := hkin k hk; have := G.region k; have := G.wf.size_pos k
        omega)
      have e1 : (pasteWit w x p P).pos n + 1 = w.pos n + 1 + w.size x := by omega
      have e2 : (pasteWit w x p P).pos n + (pasteWit w x p P).size n = w.pos n + w.size n + w.size x := by omega
      rw [e1, e2]; exact this
    · -- another tree: unchanged
      have := tiles_congr w.pos w.size (pasteWit w x p P).pos (pasteWit w x p P).size (h.kids n) _ _ hT (by
        intro k hk
        have := hkin k hk; have := G.region k
        omega)
      have e1 : (pasteWit w x p P).pos n + 1 = w.pos n + 1 := by omega
      have e2 : (pasteWit w x p P).pos n + (pasteWit w x p P).size n = w.pos n + w.size n := by omega
      rw [e1, e2]; exact this

end

end BS.Heap
