import BSModel.Proofs.HeapLinkCode
/-! Pillar 2, part 3: the geometry of the insertion point and of the paste witness. -/
namespace BS.Heap

/-- everything the invariant proof needs to know about the insertion point `P` in `p`'s tree and about the
    four special nodes -/
structure Geo (h : Heap) (w : Wit) (p x P pred lastx : Nat) (succ prevSib nextSib : Option Nat) : Prop where
  wf : WF h w
  xroot : h.parent x = none
  xkind : h.kind x ≠ .soup
  ptree : w.tree p ≠ x
  Plo : w.pos p < P
  Phi : P ≤ w.pos p + w.size p
  sep : ∀ k, h.parent k = some p → w.pos k + w.size k ≤ P ∨ P ≤ w.pos k
  pred_t : w.tree pred = w.tree p
  pred_p : w.pos pred + 1 = P
  last_t : w.tree lastx = x
  last_p : w.pos lastx + 1 = w.size x
  succ_iff : ∀ b, succ = some b ↔ (w.tree b = w.tree p ∧ w.pos b = P)
  prev_iff : ∀ a, prevSib = some a ↔ (h.parent a = some p ∧ w.pos a + w.size a = P)
  next_iff : ∀ b, nextSib = some b ↔ (h.parent b = some p ∧ w.pos b = P)

section
variable {h : Heap} {w : Wit} {p x P pred lastx : Nat} {succ prevSib nextSib : Option Nat}
  (G : Geo h w p x P pred lastx succ prevSib nextSib)
include G

theorem Geo.x_tree : w.tree x = x ∧ w.pos x = 0 := G.wf.root_tree x G.xroot

theorem Geo.x_ne_p : x ≠ p := by
  intro e; have := G.x_tree.1; have := G.ptree; subst e; contradiction

theorem Geo.in_x {m : Nat} (hm : w.tree m = x) : w.pos m + w.size m ≤ w.size x := by
  have := G.wf.bound m; rw [hm] at this; exact this

theorem Geo.unl_root {m : Nat} (hm : w.unl m = true) : h.kind m = .soup ∧ w.tree m = m ∧ w.pos m = 0 := by
  obtain ⟨h1, h2⟩ := G.wf.unl_soup m hm
  exact ⟨h1, G.wf.root_tree m h2⟩

theorem Geo.unl_in_x {m : Nat} (hm : w.tree m = x) : w.unl m = false := by
  cases hu : w.unl m with
  | false => rfl
  | true =>
    obtain ⟨h1, h2, _⟩ := G.unl_root hu
    have : m = x := by rw [← h2, hm]
    subst this
    exact absurd h1 G.xkind

/-- an ancestor-or-self of `p` spans the insertion point -/
theorem Geo.anc {m : Nat} (ht : w.tree m = w.tree p) (h1 : w.pos m ≤ w.pos p) (h2 : w.pos p < w.pos m + w.size m) :
    w.pos m < P ∧ P ≤ w.pos m + w.size m := by
  have := G.wf.laminar m p ht h1 h2
  have := G.Plo; have := G.Phi
  omega

/-- the insertion point is not strictly inside any node that is not an ancestor-or-self of `p` -/
theorem Geo.nonanc {m : Nat} (ht : w.tree m = w.tree p)
    (hn : w.pos p < w.pos m ∨ w.pos m + w.size m ≤ w.pos p) :
    w.pos m + w.size m ≤ P ∨ P ≤ w.pos m := by
  have hlo := G.Plo; have hhi := G.Phi
  have hs := G.wf.size_pos m
  by_cases h1 : w.pos m ≤ w.pos p
  · left; omega
  · by_cases h2 : w.pos p + w.size p ≤ w.pos m
    · right; omega
    · obtain ⟨k, hk, hk1, hk2⟩ := tiles_cover _ _ _ _ _ (w.pos m) (G.wf.tiles p) (by omega) (by omega)
      have hkt := G.wf.kid_tree p k hk
      have hl := G.wf.laminar k m (by rw [hkt, ht]) hk1 hk2
      rcases G.sep k (G.wf.kid_parent p k hk) with h3 | h3
      · left; omega
      · right; omega

/-- how the paste witness moves a node, by region: inside `x`'s tree / ancestor-or-self of `p` /
    before the insertion point / after it / in another tree -/
theorem Geo.region (m : Nat) :
    (w.tree m = x ∧ (pasteWit w x p P).tree m = w.tree p ∧ (pasteWit w x p P).pos m = P + w.pos m ∧
      (pasteWit w x p P).size m = w.size m ∧ w.pos m + w.size m ≤ w.size x) ∨
    (w.tree m = w.tree p ∧ (pasteWit w x p P).tree m = w.tree p ∧ (pasteWit w x p P).pos m = w.pos m ∧
      (pasteWit w x p P).size m = w.size m + w.size x ∧ w.pos m ≤ w.pos p ∧ w.pos p < w.pos m + w.size m ∧
      w.pos m < P ∧ P ≤ w.pos m + w.size m) ∨
    (w.tree m = w.tree p ∧ (pasteWit w x p P).tree m = w.tree p ∧ (pasteWit w x p P).pos m = w.pos m ∧
      (pasteWit w x p P).size m = w.size m ∧ (w.pos p < w.pos m ∨ w.pos m + w.size m ≤ w.pos p) ∧
      w.pos m + w.size m ≤ P) ∨
    (w.tree m = w.tree p ∧ (pasteWit w x p P).tree m = w.tree p ∧ (pasteWit w x p P).pos m = w.pos m + w.size x ∧
      (pasteWit w x p P).size m = w.size m ∧ (w.pos p < w.pos m ∨ w.pos m + w.size m ≤ w.pos p) ∧
      P ≤ w.pos m) ∨
    (w.tree m ≠ x ∧ w.tree m ≠ w.tree p ∧ (pasteWit w x p P).tree m = w.tree m ∧
      (pasteWit w x p P).pos m = w.pos m ∧ (pasteWit w x p P).size m = w.size m) := by
  have hpt := G.ptree
  have hs := G.wf.size_pos m
  by_cases h1 : w.tree m = x
  · left
    have := G.in_x h1
    have hne : ¬ (w.tree m = w.tree p) := by rw [h1]; exact fun e => hpt e.symm
    simp only [pasteWit]; grind
  · by_cases h2 : w.tree m = w.tree p
    · right
      by_cases h3 : w.pos m ≤ w.pos p ∧ w.pos p < w.pos m + w.size m
      · left
        have := G.anc h2 h3.1 h3.2
        simp only [pasteWit]; grind
      · right
        have hn : w.pos p < w.pos m ∨ w.pos m + w.size m ≤ w.pos p := by omega
        rcases G.nonanc h2 hn with h4 | h4
        · left
          have : ¬ (P ≤ w.pos m) := by omega
          simp only [pasteWit]; grind
        · right
          simp only [pasteWit]; grind
    · right; right; right; right
      simp only [pasteWit]; grind

omit G in
theorem pasteWit_unl (m : Nat) : (pasteWit w x p P).unl m = (w.unl m && !(P = 1 && m = p)) := rfl

end

end BS.Heap
