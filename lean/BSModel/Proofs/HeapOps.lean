import BSModel.Proofs.HeapBasics
/-! Composition: every editing call preserves `Good`, given the two pillars (`ExtractSpec`, `LinkChildSpec`).
    The pillars enter as hypotheses here and are instantiated in `Props/C01.lean`. -/
namespace BS.Heap

/-! ### facts read off `WF` -/

theorem wf_kid_not_soup {h : Heap} {w : Wit} (hwf : WF h w) {n k : Nat} (hk : k ∈ h.kids n) : h.kind k ≠ .soup := by
  intro hs
  have := hwf.soup_root k hs
  rw [hwf.kid_parent n k hk] at this
  cases this

/-- a child's position lies strictly inside the parent's interval -/
theorem wf_parent_pos {h : Heap} {w : Wit} (hwf : WF h w) {c p : Nat} (hp : h.parent c = some p) :
    w.tree c = w.tree p ∧ w.pos p < w.pos c ∧ w.pos c + w.size c ≤ w.pos p + w.size p := by
  have hm := hwf.parent_kid c p hp
  have := tiles_mem _ _ _ _ _ (hwf.tiles p) c hm
  exact ⟨hwf.kid_tree p c hm, by omega, by omega⟩

/-- the parent walk finds every ancestor-or-self within `pos x + 1` steps -/
theorem isAnc_complete {h : Heap} {w : Wit} (hwf : WF h w) (a : Nat) :
    ∀ (f x : Nat), w.pos x < f + 1 → w.inSub a x → isAnc h a f x = true := by
  intro f
  induction f with
  | zero =>
    intro x hf ⟨ht, h1, h2⟩
    have : w.pos x = w.pos a := by omega
    simp only [isAnc]
    exact decide_eq_true (hwf.inj x a ht this)
  | succ f ih =>
    intro x hf ⟨ht, h1, h2⟩
    simp only [isAnc]
    by_cases hxa : x = a
    · simp [hxa]
    · simp only [hxa, if_false]
      cases hp : h.parent x with
      | none =>
        -- x is a root: then a, in the same tree at a position ≤ pos x = 0, is x
        exfalso
        have hr := hwf.root_tree x hp
        apply hxa
        exact hwf.inj x a ht (by omega)
      | some q =>
        simp only
        have hq := wf_parent_pos hwf hp
        apply ih q (by omega)
        refine ⟨by rw [← hq.1, ht], ?_, ?_⟩
        · -- pos a ≤ pos q: otherwise a lies strictly inside q, below the child x … which contains a: a = x
          apply Classical.byContradiction
          intro hlt
          have hlt : w.pos q < w.pos a := by omega
          have hsx := hwf.size_pos x
          -- a is inside q's interval
          have haq : w.pos a < w.pos q + w.size q := by omega
          -- a is covered by a child k of q
          obtain ⟨k, hk, hk1, hk2⟩ := tiles_cover _ _ _ _ _ (w.pos a) (hwf.tiles q) (by omega) haq
          -- x is a child of q whose interval is inside a's; k's interval contains pos a
          have hxk := hwf.parent_kid x q hp
          have tk : w.tree k = w.tree a := by rw [hwf.kid_tree q k hk, ← hq.1, ht]
          have lam := hwf.laminar k a tk hk1 hk2
          -- k contains pos a ≤ pos x < end a ≤ end k, so k and x overlap: k = x
          have := tiles_disjoint _ _ _ _ _ (hwf.tiles q) k hk x hxk (by omega) (by omega)
          have hkx : k = x := hwf.inj k x (by rw [tk, ht]) this
          subst hkx
          -- then pos x ≤ pos a ≤ pos x, so a = x
          exact hxa (hwf.inj k a ht (by omega))
        · have := hwf.laminar a x ht.symm h1 h2
          have hqa : w.tree a = w.tree q := by rw [← hq.1, ht]
          by_cases hle : w.pos a ≤ w.pos q
          · -- q starts inside a (pos q < pos x < end a)
            have := hwf.laminar a q hqa hle (by omega)
            omega
          · omega

theorem isAnc_false_not_inSub {h : Heap} {w : Wit} (hwf : WF h w) {a x : Nat}
    (hf : isAnc h a h.cap x = false) : ¬ w.inSub a x := by
  intro hin
  have hb := hwf.bound x
  have hc := hwf.size_cap (w.tree x)
  have hs := hwf.size_pos x
  have := isAnc_complete hwf a h.cap x (by omega) hin
  rw [hf] at this; cases this

/-! ### allocation -/

theorem alloc_wf {h : Heap} {w : Wit} (hwf : WF h w) (k : Kind) (v : PStr) (hk : k ≠ .soup) :
    WF (alloc h k v).1 w := by
  have hf := hwf.fresh h.next (Nat.le_refl _)
  constructor
  · exact hwf.size_pos
  · exact hwf.size_cap
  · intro n hn
    simp only [alloc] at hn ⊢
    by_cases hnn : n = h.next
    · subst hnn; exact hf.2.1
    · simp only [hnn, if_false] at hn; exact hwf.str_leaf n hn
  · exact hwf.tiles
  · exact hwf.kid_parent
  · exact hwf.kid_tree
  · exact hwf.parent_kid
  · exact hwf.root_tree
  · exact hwf.tree_root
  · exact hwf.bound
  · exact hwf.inj
  · exact hwf.laminar
  · exact hwf.chain_ne
  · exact hwf.chain_pe
  · exact hwf.sib_ns
  · exact hwf.sib_ps
  · intro r hr
    have := hwf.unl_soup r hr
    simp only [alloc]
    by_cases hrn : r = h.next
    · subst hrn; rw [hf.2.2] at hr; cases hr
    · simp only [hrn, if_false]; exact this
  · intro n hn
    simp only [alloc] at hn ⊢
    by_cases hnn : n = h.next
    · subst hnn; exact hf.1
    · simp only [hnn, if_false] at hn; exact hwf.soup_root n hn
  · intro n hn
    simp only [alloc] at hn ⊢
    exact hwf.fresh n (by omega)

theorem alloc_good {h : Heap} (hg : Good h) (k : Kind) (v : PStr) (hk : k ≠ .soup) : Good (alloc h k v).1 := by
  obtain ⟨w, hwf⟩ := hg; exact ⟨w, alloc_wf hwf k v hk⟩

theorem alloc_fields (h : Heap) (k : Kind) (v : PStr) :
    (alloc h k v).2 = h.next ∧ (alloc h k v).1.parent = h.parent ∧ (alloc h k v).1.kids = h.kids ∧
    (alloc h k v).1.next = h.next + 1 ∧ (alloc h k v).1.kind h.next = k ∧
    (∀ n, n ≠ h.next → (alloc h k v).1.kind n = h.kind n) := by
  simp [alloc]
  intro n hn; simp [hn]

/-! ### the primitives, given the pillars -/

theorem extract_good (hE : ExtractSpec) {h h' : Heap} {x : Nat} (hg : Good h) (he : extract h x = .ok h') :
    Good h' ∧ (∀ n, h'.kids n = if h.parent x = some n then (h.kids n).erase x else h.kids n) ∧
    (∀ n, h'.parent n = if n = x then none else h.parent n) ∧
    h'.kind = h.kind ∧ h'.next = h.next := by
  obtain ⟨w, hwf⟩ := hg
  obtain ⟨h2, h2e, hwf2, hk, hp, hkind, _, hnext, _⟩ := hE h w x hwf
  rw [h2e] at he; cases he
  exact ⟨⟨_, hwf2⟩, hk, hp, hkind, hnext⟩

/-- `extract` never fails on a consistent forest -/
theorem extract_total (hE : ExtractSpec) {h : Heap} (x : Nat) (hg : Good h) : ∃ h', extract h x = .ok h' := by
  obtain ⟨w, hwf⟩ := hg
  obtain ⟨h2, h2e, _⟩ := hE h w x hwf
  exact ⟨h2, h2e⟩

theorem insertCore_good (hE : ExtractSpec) (hL : LinkChildSpec) {h h' : Heap} {p pos x : Nat}
    (hg : Good h) (hp : (h.kind p).isTag = true) (hx : h.kind x ≠ .soup)
    (hi : insertCore h p pos x = .ok h') :
    Good h' ∧ h'.kind = h.kind ∧ h'.next = h.next := by
  obtain ⟨w, hwf⟩ := hg
  unfold insertCore at hi
  split at hi
  · cases hi
  · rename_i hxp
    split at hi
    · cases hi
    · rename_i hguard
      have hguard : isAnc h x h.cap p = false ∧ x < h.next ∧ p < h.next := by
        simp only [not_or, Nat.not_le, Bool.not_eq_true] at hguard; exact hguard
      have hnin := isAnc_false_not_inSub hwf hguard.1
      -- linking after an (optional) extraction
      have link_after_extract : ∀ (i : Nat), i ≤ ((h.kids p).erase x).length ∨ h.parent x ≠ some p →
          (h.parent x ≠ some p → i ≤ (h.kids p).length) →
          ∀ h1, extract h x = .ok h1 → linkChild h1 p i x = .ok h' →
          Good h' ∧ h'.kind = h.kind ∧ h'.next = h.next := by
        intro i hi1 hi2 h1 he hl
        obtain ⟨h2, h2e, hwf2, hk, hpar, hkind, _, hnext, _⟩ := hE h w x hwf
        rw [h2e] at he; cases he
        have hlen : i ≤ (h1.kids p).length := by
          rw [hk p]
          by_cases hpp : h.parent x = some p
          · simp only [hpp, if_true]
            rcases hi1 with h' | h'
            · exact h'
            · exact absurd hpp h'
          · simp only [hpp, if_false]; exact hi2 hpp
        have htree : (cutWit w x).tree p ≠ x := by
          simp only [cutWit]
          split
          · rename_i hc; exact absurd hc hnin
          · intro hc
            -- tree p = x means x is the root of p's tree: then p lies in x's subtree
            apply hnin
            have hr := hwf.tree_root p
            rw [hc] at hr
            have hrt := hwf.root_tree x hr
            have hb := hwf.bound p
            have hsp := hwf.size_pos p
            rw [hc] at hb
            exact ⟨by rw [hc, hrt.1], by omega, by omega⟩
        obtain ⟨h3, h3e, hwf3, _, _, hkind3, _, hnext3⟩ :=
          hL h1 (cutWit w x) p i x hwf2 (by rw [hpar x]; simp) (by rw [hkind]; exact hx) (by rw [hkind]; exact hp)
            htree hlen (by rw [hnext]; exact hguard.2.1) (by rw [hnext]; exact hguard.2.2)
        rw [h3e] at hl; cases hl
        exact ⟨⟨_, hwf3⟩, by rw [hkind3, hkind], by rw [hnext3, hnext]⟩
      dsimp only at hi
      cases hpx : h.parent x with
      | none =>
        -- x has no parent: link directly
        simp only [hpx] at hi
        have htree : w.tree p ≠ x := by
          intro hc
          apply hnin
          have hrt := hwf.root_tree x hpx
          have hb := hwf.bound p
          have hsp := hwf.size_pos p
          rw [hc] at hb
          exact ⟨by rw [hc, hrt.1], by omega, by omega⟩
        obtain ⟨h3, h3e, hwf3, _, _, hkind3, _, hnext3⟩ :=
          hL h w p (min pos (h.kids p).length) x hwf hpx hx hp htree (Nat.min_le_right _ _) hguard.2.1 hguard.2.2
        rw [h3e] at hi; cases hi
        exact ⟨⟨_, hwf3⟩, hkind3, hnext3⟩
      | some q =>
        simp only [hpx] at hi
        obtain ⟨h1, he⟩ := extract_total hE x ⟨w, hwf⟩
        by_cases hqp : q = p
        · subst hqp
          simp only [if_true] at hi
          have hmem := hwf.parent_kid x q hpx
          have hlenE : ((h.kids q).erase x).length = (h.kids q).length - 1 := List.length_erase_of_mem hmem
          have hpos : 1 ≤ (h.kids q).length := List.length_pos_of_mem hmem
          cases hcur : indexOf h q x with
          | none => simp only [hcur] at hi; cases hi
          | some cur =>
            simp only [hcur, he] at hi
            have hcl : cur < (h.kids q).length := by
              unfold indexOf at hcur
              exact (List.idxOf?_eq_some_iff.mp hcur).1
            by_cases hlt : cur < min pos (h.kids q).length
            · simp only [hlt, if_true] at hi
              exact link_after_extract _ (Or.inl (by rw [hlenE]; have := Nat.min_le_right pos (h.kids q).length; omega))
                (fun hne => absurd hpx hne) h1 he hi
            · simp only [hlt, if_false] at hi
              by_cases heq : cur = min pos (h.kids q).length
              · simp only [heq, if_true] at hi
                cases hi; exact ⟨⟨w, hwf⟩, rfl, rfl⟩
              · simp only [heq, if_false] at hi
                exact link_after_extract _ (Or.inl (by rw [hlenE]; omega)) (fun hne => absurd hpx hne) h1 he hi
        · simp only [hqp, if_false, he] at hi
          have hne : h.parent x ≠ some p := by rw [hpx]; intro hc; cases hc; exact hqp rfl
          exact link_after_extract _ (Or.inr hne) (fun _ => Nat.min_le_right _ _) h1 he hi

end BS.Heap

namespace BS.Heap

/-- consistent forest whose unallocated ids are (by convention) plain strings -/
def Good2 (h : Heap) : Prop := Good h ∧ ∀ n, h.next ≤ n → h.kind n = .str

/-- no call ever turns a string into a tag or anything into a BeautifulSoup object -/
def KSame (h h' : Heap) : Prop :=
  (∀ n, (h'.kind n).isTag = (h.kind n).isTag) ∧ (∀ n, h'.kind n = .soup ↔ h.kind n = .soup)

theorem KSame.refl (h : Heap) : KSame h h := ⟨fun _ => rfl, fun _ => Iff.rfl⟩
theorem KSame.trans {a b c : Heap} (h1 : KSame a b) (h2 : KSame b c) : KSame a c :=
  ⟨fun n => by rw [h2.1 n, h1.1 n], fun n => (h2.2 n).trans (h1.2 n)⟩
theorem KSame.of_kind_eq {h h' : Heap} (hk : h'.kind = h.kind) : KSame h h' := by
  constructor <;> intro n <;> rw [hk]

theorem wf_parent_isTag {h : Heap} {w : Wit} (hwf : WF h w) {c p : Nat} (hp : h.parent c = some p) :
    (h.kind p).isTag = true := by
  cases hk : (h.kind p).isTag with
  | true => rfl
  | false =>
    have := hwf.str_leaf p hk
    have hm := hwf.parent_kid c p hp
    rw [this] at hm; cases hm

theorem good_parent_isTag {h : Heap} (hg : Good h) {c p : Nat} (hp : h.parent c = some p) :
    (h.kind p).isTag = true := by
  obtain ⟨w, hwf⟩ := hg; exact wf_parent_isTag hwf hp

theorem alloc_good2 {h : Heap} (hg : Good2 h) (k : Kind) (v : PStr) (hk : k = .str ∨ k = .pre) :
    Good2 (alloc h k v).1 ∧ KSame h (alloc h k v).1 := by
  have hks : k ≠ .soup := by rcases hk with rfl | rfl <;> decide
  have hold := hg.2 h.next (Nat.le_refl _)
  refine ⟨⟨alloc_good hg.1 k v hks, ?_⟩, ?_, ?_⟩
  · intro n hn
    simp only [alloc] at hn ⊢
    have : n ≠ h.next := by omega
    simp only [this, if_false]
    exact hg.2 n (by omega)
  · intro n
    simp only [alloc]
    by_cases hn : n = h.next
    · subst hn; simp only [if_true, hold]; rcases hk with rfl | rfl <;> rfl
    · simp only [hn, if_false]
  · intro n
    simp only [alloc]
    by_cases hn : n = h.next
    · subst hn; simp only [if_true, hold]; rcases hk with rfl | rfl <;> simp
    · simp only [hn, if_false]

section ops
variable (hE : ExtractSpec) (hL : LinkChildSpec)
include hE hL

theorem extract_good2 {h h' : Heap} {x : Nat} (hg : Good2 h) (he : extract h x = .ok h') :
    Good2 h' ∧ KSame h h' := by
  obtain ⟨hg', _, _, hk, hn⟩ := extract_good hE hg.1 he
  refine ⟨⟨hg', ?_⟩, KSame.of_kind_eq hk⟩
  intro n hn'; rw [hk]; exact hg.2 n (by omega)

theorem insertCore_good2 {h h' : Heap} {p pos x : Nat} (hg : Good2 h) (hp : (h.kind p).isTag = true)
    (hx : h.kind x ≠ .soup) (hi : insertCore h p pos x = .ok h') : Good2 h' ∧ KSame h h' := by
  obtain ⟨hg', hk, hn⟩ := insertCore_good hE hL hg.1 hp hx hi
  refine ⟨⟨hg', ?_⟩, KSame.of_kind_eq hk⟩
  intro n hn'; rw [hk]; exact hg.2 n (by omega)

theorem insertElems_good2 {p : Nat} : ∀ (xs : List Nat) (h : Heap) (pos : Nat) (h' : Heap) (pos' : Nat),
    Good2 h → (h.kind p).isTag = true → (∀ x ∈ xs, h.kind x ≠ .soup) →
    insertElems h p pos xs = .ok (h', pos') → Good2 h' ∧ KSame h h' := by
  intro xs
  induction xs with
  | nil => intro h pos h' pos' hg _ _ hi; simp only [insertElems] at hi; cases hi; exact ⟨hg, KSame.refl _⟩
  | cons x xs ih =>
    intro h pos h' pos' hg hp hx hi
    simp only [insertElems] at hi
    cases hc : insertCore h p pos x with
    | error e => simp only [hc] at hi; cases hi
    | ok h1 =>
      simp only [hc] at hi
      obtain ⟨hg1, hk1⟩ := insertCore_good2 hE hL hg hp (hx x (by simp)) hc
      cases hidx : indexOf h1 p x with
      | none => simp only [hidx] at hi; cases hi
      | some i =>
        simp only [hidx] at hi
        have := ih h1 (i + 1) h' pos' hg1 (by rw [hk1.1 p]; exact hp)
          (fun y hy hs => hx y (by simp [hy]) ((hk1.2 y).mp hs)) hi
        exact ⟨this.1, hk1.trans this.2⟩

theorem insertArg1_good2 {h h' : Heap} {p pos pos' : Nat} {a : Arg} {ins : List Nat} (hg : Good2 h)
    (hp : (h.kind p).isTag = true) (hr : insertArg1 h p pos a = .ok (h', pos', ins)) : Good2 h' ∧ KSame h h' := by
  unfold insertArg1 at hr
  cases a with
  | plain v =>
    simp only at hr
    obtain ⟨hga, hka⟩ := alloc_good2 hg .str v (Or.inl rfl)
    have hx : (alloc h .str v).1.kind (alloc h .str v).2 ≠ Kind.soup := by simp [alloc]
    cases hc : insertElems (alloc h .str v).1 p pos [(alloc h .str v).2] with
    | error e => simp only [hc] at hr; cases hr
    | ok r2 =>
      obtain ⟨h2, pos2⟩ := r2
      simp only [hc] at hr; cases hr
      have := insertElems_good2 hE hL _ _ _ _ _ hga (by rw [hka.1 p]; exact hp)
        (fun y hy => by simp only [List.mem_singleton] at hy; subst hy; exact hx) hc
      exact ⟨this.1, hka.trans this.2⟩
  | node x =>
    simp only at hr
    by_cases hs : h.kind x = .soup
    · simp only [hs, if_true] at hr
      by_cases hxp : x = p
      · simp only [hxp, if_true] at hr; cases hr
      · simp only [hxp, if_false] at hr
        cases hc : insertElems h p pos (h.kids x) with
        | error e => simp only [hc] at hr; cases hr
        | ok r2 =>
          obtain ⟨h2, pos2⟩ := r2
          simp only [hc] at hr; cases hr
          obtain ⟨w, hwf⟩ := hg.1
          exact insertElems_good2 hE hL _ _ _ _ _ hg hp (fun y hy => wf_kid_not_soup hwf hy) hc
    · simp only [hs, if_false] at hr
      cases hc : insertElems h p pos [x] with
      | error e => simp only [hc] at hr; cases hr
      | ok r2 =>
        obtain ⟨h2, pos2⟩ := r2
        simp only [hc] at hr; cases hr
        exact insertElems_good2 hE hL _ _ _ _ _ hg hp
          (fun y hy => by simp only [List.mem_singleton] at hy; subst hy; exact hs) hc

theorem insertArgs_good2 {p : Nat} : ∀ (args : List Arg) (h : Heap) (pos : Nat) (h' : Heap) (pos' : Nat) (ins : List Nat),
    Good2 h → (h.kind p).isTag = true →
    insertArgs h p pos args = .ok (h', pos', ins) → Good2 h' ∧ KSame h h' := by
  intro args
  induction args with
  | nil => intro h pos h' pos' ins hg _ hi; simp only [insertArgs] at hi; cases hi; exact ⟨hg, KSame.refl _⟩
  | cons a as ih =>
    intro h pos h' pos' ins hg hp hi
    simp only [insertArgs] at hi
    cases hstep : insertArg1 h p pos a with
    | error e => simp only [hstep] at hi; cases hi
    | ok r2 =>
      obtain ⟨h2, pos2, ins2⟩ := r2
      simp only [hstep] at hi
      have h2g := insertArg1_good2 hE hL hg hp hstep
      cases hc : insertArgs h2 p pos2 as with
      | error e => simp only [hc] at hi; cases hi
      | ok r3 =>
        obtain ⟨h3, pos3, ins3⟩ := r3
        simp only [hc] at hi; cases hi
        have := ih h2 pos2 _ _ ins3 h2g.1 (by rw [h2g.2.1 p]; exact hp) hc
        exact ⟨this.1, h2g.2.trans this.2⟩

theorem insert_good2 {h h' : Heap} {p pos : Nat} {args : List Arg} {ins : List Nat} (hg : Good2 h)
    (hp : (h.kind p).isTag = true) (hi : insert h p pos args = .ok (h', ins)) : Good2 h' ∧ KSame h h' := by
  unfold insert at hi
  cases hc : insertArgs h p pos args with
  | error e => simp only [hc] at hi; cases hi
  | ok r =>
    obtain ⟨h1, pos1, ins1⟩ := r
    simp only [hc] at hi; cases hi
    exact insertArgs_good2 hE hL _ _ _ _ _ _ hg hp hc

theorem append_good2 {h h' : Heap} {p : Nat} {a : Arg} (hg : Good2 h) (hp : (h.kind p).isTag = true)
    (hi : append h p a = .ok h') : Good2 h' ∧ KSame h h' := by
  unfold append at hi
  cases hc : insert h p (h.kids p).length [a] with
  | error e => simp only [hc] at hi; cases hi
  | ok r =>
    obtain ⟨h1, ins⟩ := r
    simp only [hc] at hi
    split at hi
    · cases hi
    · cases hi; exact insert_good2 hE hL hg hp hc

theorem appendAll_good2 {p : Nat} : ∀ (args : List Arg) (h h' : Heap), Good2 h → (h.kind p).isTag = true →
    appendAll h p args = .ok h' → Good2 h' ∧ KSame h h' := by
  intro args
  induction args with
  | nil => intro h h' hg _ hi; simp only [appendAll] at hi; cases hi; exact ⟨hg, KSame.refl _⟩
  | cons a as ih =>
    intro h h' hg hp hi
    simp only [appendAll] at hi
    cases hc : append h p a with
    | error e => simp only [hc] at hi; cases hi
    | ok h1 =>
      simp only [hc] at hi
      obtain ⟨hg1, hk1⟩ := append_good2 hE hL hg hp hc
      have := ih h1 h' hg1 (by rw [hk1.1 p]; exact hp) hi
      exact ⟨this.1, hk1.trans this.2⟩

theorem extractArg_good2 {h h' : Heap} {a : Arg} (hg : Good2 h) (he : extractArg h a = .ok h') :
    Good2 h' ∧ KSame h h' := by
  cases a with
  | node y => exact extract_good2 hE hL hg he
  | plain v => simp only [extractArg] at he; cases he; exact ⟨hg, KSame.refl _⟩

theorem insertBeforeLoop_good2 {p x : Nat} : ∀ (args : List Arg) (h h' : Heap), Good2 h → (h.kind p).isTag = true →
    insertBeforeLoop h p x args = .ok h' → Good2 h' ∧ KSame h h' := by
  intro args
  induction args with
  | nil => intro h h' hg _ hi; simp only [insertBeforeLoop] at hi; cases hi; exact ⟨hg, KSame.refl _⟩
  | cons a as ih =>
    intro h h' hg hp hi
    simp only [insertBeforeLoop] at hi
    cases hc : extractArg h a with
    | error e => simp only [hc] at hi; cases hi
    | ok h1 =>
      simp only [hc] at hi
      obtain ⟨hg1, hk1⟩ := extractArg_good2 hE hL hg hc
      cases hidx : indexOf h1 p x with
      | none => simp only [hidx] at hi; cases hi
      | some i =>
        simp only [hidx] at hi
        cases hins : insert h1 p i [a] with
        | error e => simp only [hins] at hi; cases hi
        | ok r =>
          obtain ⟨h2, ins⟩ := r
          simp only [hins] at hi
          obtain ⟨hg2, hk2⟩ := insert_good2 hE hL hg1 (by rw [hk1.1 p]; exact hp) hins
          have := ih h2 h' hg2 (by rw [hk2.1 p, hk1.1 p]; exact hp) hi
          exact ⟨this.1, (hk1.trans hk2).trans this.2⟩

theorem insertAfterLoop_good2 {p : Nat} : ∀ (args : List Arg) (h h' : Heap) (anchor : Nat), Good2 h →
    (h.kind p).isTag = true → insertAfterLoop h p anchor args = .ok h' → Good2 h' ∧ KSame h h' := by
  intro args
  induction args with
  | nil => intro h h' _ hg _ hi; simp only [insertAfterLoop] at hi; cases hi; exact ⟨hg, KSame.refl _⟩
  | cons a as ih =>
    intro h h' anchor hg hp hi
    simp only [insertAfterLoop] at hi
    by_cases hself : isSelf anchor a = true
    · simp only [hself, if_true] at hi
      exact ih h h' anchor hg hp hi
    simp only [hself, Bool.false_eq_true, if_false] at hi
    cases hc : extractArg h a with
    | error e => simp only [hc] at hi; cases hi
    | ok h1 =>
      simp only [hc] at hi
      obtain ⟨hg1, hk1⟩ := extractArg_good2 hE hL hg hc
      cases hidx : indexOf h1 p anchor with
      | none => simp only [hidx] at hi; cases hi
      | some i =>
        simp only [hidx] at hi
        cases hins : insert h1 p (i + 1) [a] with
        | error e => simp only [hins] at hi; cases hi
        | ok r =>
          obtain ⟨h2, ins⟩ := r
          simp only [hins] at hi
          obtain ⟨hg2, hk2⟩ := insert_good2 hE hL hg1 (by rw [hk1.1 p]; exact hp) hins
          have := ih h2 h' _ hg2 (by rw [hk2.1 p, hk1.1 p]; exact hp) hi
          exact ⟨this.1, (hk1.trans hk2).trans this.2⟩

theorem insertBefore_good2 {h h' : Heap} {x : Nat} {args : List Arg} (hg : Good2 h)
    (hi : insertBefore h x args = .ok h') : Good2 h' ∧ KSame h h' := by
  unfold insertBefore at hi
  split at hi
  · cases hi
  · cases hp : h.parent x with
    | none => simp only [hp] at hi; cases hi
    | some p =>
      simp only [hp] at hi
      split at hi
      · cases hi
      · exact insertBeforeLoop_good2 hE hL _ _ _ hg (good_parent_isTag hg.1 hp) hi

theorem insertAfter_good2 {h h' : Heap} {x : Nat} {args : List Arg} (hg : Good2 h)
    (hi : insertAfter h x args = .ok h') : Good2 h' ∧ KSame h h' := by
  unfold insertAfter at hi
  split at hi
  · cases hi
  · cases hp : h.parent x with
    | none => simp only [hp] at hi; cases hi
    | some p =>
      simp only [hp] at hi
      split at hi
      · cases hi
      · exact insertAfterLoop_good2 hE hL _ _ _ _ hg (good_parent_isTag hg.1 hp) hi

theorem replaceWith_good2 {h h' : Heap} {x : Nat} {args : List Arg} (hg : Good2 h)
    (hi : replaceWith h x args = .ok h') : Good2 h' ∧ KSame h h' := by
  unfold replaceWith at hi
  cases hp : h.parent x with
  | none => simp only [hp] at hi; cases hi
  | some p =>
    simp only [hp] at hi
    split at hi
    · cases hi; exact ⟨hg, KSame.refl _⟩
    · split at hi
      · cases hi
      · cases hidx : indexOf h p x with
        | none => simp only [hidx] at hi; cases hi
        | some i =>
          simp only [hidx] at hi
          cases he : extract h x with
          | error e => simp only [he] at hi; cases hi
          | ok h1 =>
            simp only [he] at hi
            obtain ⟨hg1, hk1⟩ := extract_good2 hE hL hg he
            cases hins : insert h1 p i args with
            | error e => simp only [hins] at hi; cases hi
            | ok r =>
              obtain ⟨h2, ins⟩ := r
              simp only [hins] at hi; cases hi
              have := insert_good2 hE hL hg1 (by rw [hk1.1 p]; exact good_parent_isTag hg.1 hp) hins
              exact ⟨this.1, hk1.trans this.2⟩

theorem wrap_good2 {h h' : Heap} {x w : Nat} (hg : Good2 h) (hw : (h.kind w).isTag = true)
    (hi : wrap h x w = .ok h') : Good2 h' ∧ KSame h h' := by
  unfold wrap at hi
  cases hr : replaceWith h x [.node w] with
  | error e => simp only [hr] at hi; cases hi
  | ok h1 =>
    simp only [hr] at hi
    obtain ⟨hg1, hk1⟩ := replaceWith_good2 hE hL hg hr
    have := append_good2 hE hL hg1 (by rw [hk1.1 w]; exact hw) hi
    exact ⟨this.1, hk1.trans this.2⟩

theorem unwrapLoop_good2 {p i : Nat} : ∀ (cs : List Nat) (h h' : Heap), Good2 h → (h.kind p).isTag = true →
    unwrapLoop h p i cs = .ok h' → Good2 h' ∧ KSame h h' := by
  intro cs
  induction cs with
  | nil => intro h h' hg _ hi; simp only [unwrapLoop] at hi; cases hi; exact ⟨hg, KSame.refl _⟩
  | cons c cs ih =>
    intro h h' hg hp hi
    simp only [unwrapLoop] at hi
    cases hins : insert h p i [.node c] with
    | error e => simp only [hins] at hi; cases hi
    | ok r =>
      obtain ⟨h1, ins⟩ := r
      simp only [hins] at hi
      obtain ⟨hg1, hk1⟩ := insert_good2 hE hL hg hp hins
      have := ih h1 h' hg1 (by rw [hk1.1 p]; exact hp) hi
      exact ⟨this.1, hk1.trans this.2⟩

theorem unwrap_good2 {h h' : Heap} {x : Nat} (hg : Good2 h) (hi : unwrap h x = .ok h') :
    Good2 h' ∧ KSame h h' := by
  unfold unwrap at hi
  cases hp : h.parent x with
  | none => simp only [hp] at hi; cases hi
  | some p =>
    simp only [hp] at hi
    cases hidx : indexOf h p x with
    | none => simp only [hidx] at hi; cases hi
    | some i =>
      simp only [hidx] at hi
      cases he : extract h x with
      | error e => simp only [he] at hi; cases hi
      | ok h1 =>
        simp only [he] at hi
        obtain ⟨hg1, hk1⟩ := extract_good2 hE hL hg he
        have := unwrapLoop_good2 hE hL _ _ _ hg1 (by rw [hk1.1 p]; exact good_parent_isTag hg.1 hp) hi
        exact ⟨this.1, hk1.trans this.2⟩

theorem extractAll_good2 : ∀ (cs : List Nat) (h h' : Heap), Good2 h → extractAll h cs = .ok h' →
    Good2 h' ∧ KSame h h' := by
  intro cs
  induction cs with
  | nil => intro h h' hg hi; simp only [extractAll] at hi; cases hi; exact ⟨hg, KSame.refl _⟩
  | cons c cs ih =>
    intro h h' hg hi
    simp only [extractAll] at hi
    cases he : extract h c with
    | error e => simp only [he] at hi; cases hi
    | ok h1 =>
      simp only [he] at hi
      obtain ⟨hg1, hk1⟩ := extract_good2 hE hL hg he
      have := ih h1 h' hg1 hi
      exact ⟨this.1, hk1.trans this.2⟩

theorem clear_good2 {h h' : Heap} {t : Nat} (hg : Good2 h) (hi : clear h t = .ok h') : Good2 h' ∧ KSame h h' :=
  extractAll_good2 hE hL _ _ _ hg hi

theorem setString_good2 {h h' : Heap} {t : Nat} {k : Kind} {v : PStr} (hg : Good2 h) (ht : (h.kind t).isTag = true)
    (hk : k = .str ∨ k = .pre) (hi : setString h t k v = .ok h') : Good2 h' ∧ KSame h h' := by
  unfold setString at hi
  cases hc : clear h t with
  | error e => simp only [hc] at hi; cases hi
  | ok h1 =>
    simp only [hc] at hi
    obtain ⟨hg1, hk1⟩ := clear_good2 hE hL hg hc
    obtain ⟨hg2, hk2⟩ := alloc_good2 hg1 k v hk
    have := append_good2 hE hL hg2 (by rw [hk2.1 t, hk1.1 t]; exact ht) hi
    exact ⟨this.1, (hk1.trans hk2).trans this.2⟩

theorem smoothMerge_good2 {t : Nat} : ∀ (is : List Nat) (h h' : Heap), Good2 h →
    smoothMerge h t is = .ok h' → Good2 h' ∧ KSame h h' := by
  intro is
  induction is with
  | nil => intro h h' hg hi; simp only [smoothMerge] at hi; cases hi; exact ⟨hg, KSame.refl _⟩
  | cons i is ih =>
    intro h h' hg hi
    simp only [smoothMerge] at hi
    split at hi
    · rename_i a b _ _
      cases he : extract h b with
      | error e => simp only [he] at hi; cases hi
      | ok h1 =>
        simp only [he] at hi
        obtain ⟨hg1, hk1⟩ := extract_good2 hE hL hg he
        obtain ⟨hg2, hk2⟩ := alloc_good2 hg1 .str (h1.val a ++ h1.val b) (Or.inl rfl)
        cases hr : replaceWith (alloc h1 .str (h1.val a ++ h1.val b)).1 a [.node (alloc h1 .str (h1.val a ++ h1.val b)).2] with
        | error e => simp only [hr] at hi; cases hi
        | ok h3 =>
          simp only [hr] at hi
          obtain ⟨hg3, hk3⟩ := replaceWith_good2 hE hL hg2 hr
          have := ih h3 h' hg3 hi
          exact ⟨this.1, ((hk1.trans hk2).trans hk3).trans this.2⟩
    · cases hi

theorem smoothAll_good2 : ∀ (ts : List Nat) (h h' : Heap), Good2 h → smoothAll h ts = .ok h' →
    Good2 h' ∧ KSame h h' := by
  intro ts
  induction ts with
  | nil => intro h h' hg hi; simp only [smoothAll] at hi; cases hi; exact ⟨hg, KSame.refl _⟩
  | cons t ts ih =>
    intro h h' hg hi
    simp only [smoothAll] at hi
    cases hc : smoothChildren h t with
    | error e => simp only [hc] at hi; cases hi
    | ok h1 =>
      simp only [hc] at hi
      obtain ⟨hg1, hk1⟩ := smoothMerge_good2 hE hL _ _ _ hg hc
      have := ih h1 h' hg1 hi
      exact ⟨this.1, hk1.trans this.2⟩

theorem smooth_good2 {h h' : Heap} {t : Nat} (hg : Good2 h) (hi : smooth h t = .ok h') : Good2 h' ∧ KSame h h' := by
  unfold smooth at hi
  cases hd : descendants h t with
  | error e => simp only [hd] at hi; cases hi
  | ok ds => simp only [hd] at hi; exact smoothAll_good2 hE hL _ _ _ hg hi

end ops
end BS.Heap

namespace BS.Heap

def Op.isDecompose : Op → Bool
  | .decompose _ => true
  | .clearDecompose _ => true
  | _ => false

/-- the string class of `.string = v` is a string class -/
def Op.kindsOK : Op → Prop
  | .setString _ k _ => k = .str ∨ k = .pre
  | _ => True

section step
variable (hE : ExtractSpec) (hL : LinkChildSpec)
include hE hL

/-- every editing call other than `decompose` keeps the forest consistent -/
theorem step_good2_noDecompose {h h' : Heap} {op : Op} (hg : Good2 h) (hd : op.isDecompose = false) (hk : op.kindsOK)
    (hs : step h op = .ok h') : Good2 h' ∧ KSame h h' := by
  cases op with
  | append p a =>
    simp only [step] at hs; split at hs
    · exact append_good2 hE hL hg (by assumption) hs
    · cases hs
  | insert p pos args =>
    simp only [step] at hs; split at hs
    · rename_i hp
      cases hi : insert h p pos args with
      | error e => simp only [hi, Except.map] at hs; cases hs
      | ok r =>
        obtain ⟨h1, ins⟩ := r
        simp only [hi, Except.map] at hs; cases hs
        exact insert_good2 hE hL hg hp hi
    · cases hs
  | extendTag p t =>
    simp only [step] at hs; split at hs
    · rename_i hp; exact appendAll_good2 hE hL _ _ _ hg hp.1 hs
    · cases hs
  | extendList p args =>
    simp only [step] at hs; split at hs
    · rename_i hp; exact appendAll_good2 hE hL _ _ _ hg hp hs
    · cases hs
  | insertBefore x args => exact insertBefore_good2 hE hL hg hs
  | insertAfter x args => exact insertAfter_good2 hE hL hg hs
  | replaceWith x args => exact replaceWith_good2 hE hL hg hs
  | wrap x w =>
    simp only [step] at hs; split at hs
    · rename_i hw; exact wrap_good2 hE hL hg hw hs
    · cases hs
  | unwrap x =>
    simp only [step] at hs; split at hs
    · exact unwrap_good2 hE hL hg hs
    · cases hs
  | extract x => exact extract_good2 hE hL hg hs
  | clear t =>
    simp only [step] at hs; split at hs
    · exact clear_good2 hE hL hg hs
    · cases hs
  | decompose x => simp [Op.isDecompose] at hd
  | clearDecompose t => simp [Op.isDecompose] at hd
  | smooth t =>
    simp only [step] at hs; split at hs
    · exact smooth_good2 hE hL hg hs
    · cases hs
  | setString t k v =>
    simp only [step] at hs; split at hs
    · rename_i ht; exact setString_good2 hE hL hg ht hk hs
    · cases hs

end step
end BS.Heap
