import BSModel.Proofs.HeapOps
/-! C02: the effect of the primitives on the forest (children lists and parent fields), read off the pillars -/
namespace BS.Heap

theorem eraseIdx_insertIdx_getElem {α} : ∀ (l : List α) (i : Nat) (h : i < l.length),
    (l.eraseIdx i).insertIdx i l[i] = l := by
  intro l
  induction l with
  | nil => intro i h; simp at h
  | cons a l ih =>
    intro i h
    cases i with
    | zero => simp
    | succ i => simp only [List.eraseIdx_cons_succ, List.getElem_cons_succ, List.insertIdx_succ_cons]; rw [ih]

/-- the children lists after removing `x` from wherever it is -/
def kidsWithout (h : Heap) (x : Nat) (n : Nat) : List Nat :=
  if h.parent x = some n then (h.kids n).erase x else h.kids n

/-- under WF, `kidsWithout` is simply erasing `x` everywhere (it occurs only under its parent) -/
theorem kidsWithout_eq_erase {h : Heap} {w : Wit} (hwf : WF h w) (x n : Nat) :
    kidsWithout h x n = (h.kids n).erase x := by
  unfold kidsWithout
  split
  · rfl
  · rename_i hne
    symm; apply List.erase_of_not_mem
    intro hm; exact hne (hwf.kid_parent n x hm)

/-- the slot `_insert` uses: "before the element that was at index `position`, not counting `x` itself" -/
def slotOf (ks : List Nat) (position x : Nat) : Nat := ((ks.take position).erase x).length

section shape
variable (hE : ExtractSpec) (hL : LinkChildSpec)
include hE hL

/-- **effect of `extract`**: `x` disappears from its parent's children, becomes parentless, and no other
    children list and no other parent field changes (so `x` comes back with its own subtree intact). -/
theorem extract_shape {h h' : Heap} {x : Nat} (hg : Good h) (he : extract h x = .ok h') :
    (∀ n, h'.kids n = kidsWithout h x n) ∧ (∀ n, h'.parent n = if n = x then none else h.parent n) := by
  obtain ⟨_, hk, hp, _, _⟩ := extract_good hE hg he
  exact ⟨hk, hp⟩

/-- **effect of `Tag._insert`** on a consistent forest, whenever it returns: `x` is removed from wherever it
    was and put into `p`'s children at the documented slot; every other children list only loses `x`; only
    `x`'s parent field changes. -/
theorem insertCore_shape {h h' : Heap} {p position x : Nat} (hg : Good h) (hp : (h.kind p).isTag = true)
    (hx : h.kind x ≠ .soup) (hi : insertCore h p position x = .ok h') :
    h'.kids p = ((h.kids p).erase x).insertIdx (slotOf (h.kids p) position x) x ∧
    (∀ n, n ≠ p → h'.kids n = (h.kids n).erase x) ∧
    (∀ n, h'.parent n = if n = x then some p else h.parent n) := by
  obtain ⟨w, hwf⟩ := hg
  have hnd : ∀ n, (h.kids n).Nodup := by
    intro n
    -- children occupy pairwise different positions
    have ht := hwf.tiles n
    generalize h.kids n = ks at ht
    generalize w.pos n + 1 = s at ht
    generalize w.pos n + w.size n = e at ht
    induction ks generalizing s with
    | nil => exact List.nodup_nil
    | cons a l ih =>
      obtain ⟨ha, ha1, hr⟩ := ht
      refine List.nodup_cons.mpr ⟨?_, ih _ hr⟩
      intro hm
      have := tiles_mem _ _ _ _ _ hr a hm
      omega
  unfold insertCore at hi
  split at hi
  · cases hi
  · rename_i hxp
    split at hi
    · cases hi
    · rename_i hguard
      have hguard : isAnc h x h.cap p = false ∧ x < h.next ∧ p < h.next := by
        simp only [not_or, Nat.not_le, Bool.not_eq_true] at hguard; exact hguard
      have hnin := isAnc_false_not_inSub hwf hguard.1
      dsimp only at hi
      -- generic: link after extraction
      have after : ∀ (i : Nat) h1, extract h x = .ok h1 → linkChild h1 p i x = .ok h' → i ≤ (h1.kids p).length →
          h'.kids p = ((h.kids p).erase x).insertIdx i x ∧ (∀ n, n ≠ p → h'.kids n = (h.kids n).erase x) ∧
          (∀ n, h'.parent n = if n = x then some p else h.parent n) := by
        intro i h1 he hl hlen
        obtain ⟨h2, h2e, hwf2, hk, hpar, hkind, _, hnext, _⟩ := hE h w x hwf
        rw [h2e] at he; cases he
        have htree : (cutWit w x).tree p ≠ x := by
          simp only [cutWit]
          split
          · rename_i hc; exact absurd hc hnin
          · intro hc
            apply hnin
            have hr := hwf.tree_root p
            rw [hc] at hr
            have hrt := hwf.root_tree x hr
            have hb := hwf.bound p
            have hsp := hwf.size_pos p
            rw [hc] at hb
            exact ⟨by rw [hc, hrt.1], by omega, by omega⟩
        obtain ⟨h3, h3e, _, hk3, hp3, _⟩ :=
          hL h1 (cutWit w x) p i x hwf2 (by rw [hpar x]; simp) (by rw [hkind]; exact hx) (by rw [hkind]; exact hp)
            htree hlen (by rw [hnext]; exact hguard.2.1) (by rw [hnext]; exact hguard.2.2)
        rw [h3e] at hl; cases hl
        have hke : ∀ n, h1.kids n = (h.kids n).erase x := by
          intro n; rw [hk n]; exact kidsWithout_eq_erase hwf x n
        refine ⟨by rw [hk3 p, hke p]; simp, ?_, ?_⟩
        · intro n hn; rw [hk3 n, hke n]; simp [hn]
        · intro n; rw [hp3 n, hpar n]; by_cases hnx : n = x <;> simp [hnx]
      cases hpx : h.parent x with
      | none =>
        simp only [hpx] at hi
        have hnotin : ∀ n, x ∉ h.kids n := by
          intro n hm; have := hwf.kid_parent n x hm; rw [hpx] at this; cases this
        have htree : w.tree p ≠ x := by
          intro hc
          apply hnin
          have hrt := hwf.root_tree x hpx
          have hb := hwf.bound p
          have hsp := hwf.size_pos p
          rw [hc] at hb
          exact ⟨by rw [hc, hrt.1], by omega, by omega⟩
        obtain ⟨h3, h3e, _, hk3, hp3, _⟩ :=
          hL h w p (min position (h.kids p).length) x hwf hpx hx hp htree (Nat.min_le_right _ _) hguard.2.1 hguard.2.2
        rw [h3e] at hi; cases hi
        have hslot : slotOf (h.kids p) position x = min position (h.kids p).length := by
          unfold slotOf
          rw [List.erase_of_not_mem (fun hm => hnotin p (List.mem_of_mem_take hm))]
          simp [List.length_take]
        refine ⟨by rw [hk3 p, hslot, List.erase_of_not_mem (hnotin p)]; simp, ?_, ?_⟩
        · intro n hn; rw [hk3 n, List.erase_of_not_mem (hnotin n)]; simp [hn]
        · exact hp3
      | some q =>
        simp only [hpx] at hi
        obtain ⟨h1, he⟩ := extract_total hE x ⟨w, hwf⟩
        have hke1 : ∀ n, h1.kids n = (h.kids n).erase x := by
          obtain ⟨_, hk, _⟩ := extract_good hE ⟨w, hwf⟩ he
          intro n; rw [hk n]; exact kidsWithout_eq_erase hwf x n
        by_cases hqp : q = p
        · subst hqp
          simp only [if_true] at hi
          have hmem := hwf.parent_kid x q hpx
          have hlenE : ((h.kids q).erase x).length = (h.kids q).length - 1 := List.length_erase_of_mem hmem
          have hpos : 1 ≤ (h.kids q).length := List.length_pos_of_mem hmem
          cases hcur : indexOf h q x with
          | none => simp only [hcur] at hi; cases hi
          | some cur =>
            simp only [hcur, he] at hi
            unfold indexOf at hcur
            obtain ⟨hcl, hget, hfirst⟩ := List.idxOf?_eq_some_iff.mp hcur
            -- the slot in terms of cur
            have hslot : slotOf (h.kids q) position x =
                if cur < min position (h.kids q).length then min position (h.kids q).length - 1
                else min position (h.kids q).length := by
              unfold slotOf
              by_cases hlt : cur < min position (h.kids q).length
              · simp only [hlt, if_true]
                have : x ∈ (h.kids q).take position := by
                  rw [List.mem_take_iff_getElem]
                  exact ⟨cur, by omega, by simpa using hget⟩
                rw [List.length_erase_of_mem this]; simp [List.length_take]
              · simp only [hlt, if_false]
                have : x ∉ (h.kids q).take position := by
                  intro hm
                  rw [List.mem_take_iff_getElem] at hm
                  obtain ⟨j, hj, hjx⟩ := hm
                  have hj' : j < (h.kids q).length := by omega
                  -- Nodup: the only index holding x is cur
                  have := (List.getElem_inj (h₀ := hj') (h₁ := hcl) (hnd q)).mp (by rw [hget]; simpa using hjx)
                  omega
                rw [List.erase_of_not_mem this]; simp [List.length_take]
            by_cases hlt : cur < min position (h.kids q).length
            · simp only [hlt, if_true] at hi hslot
              rw [hslot]
              exact after _ h1 he hi (by rw [hke1 q, hlenE]; have := Nat.min_le_right position (h.kids q).length; omega)
            · simp only [hlt, if_false] at hi hslot
              by_cases heq : cur = min position (h.kids q).length
              · simp only [heq, if_true] at hi
                cases hi
                rw [hslot, ← heq]
                refine ⟨?_, ?_, ?_⟩
                · -- erasing the element at index cur and putting it back at cur
                  have he' : (h.kids q).erase x = (h.kids q).eraseIdx cur := by
                    rw [List.erase_eq_eraseIdx, hcur]
                  rw [he']
                  have := eraseIdx_insertIdx_getElem (h.kids q) cur hcl
                  rw [hget] at this
                  exact this.symm
                · intro n hn
                  symm; apply List.erase_of_not_mem
                  intro hm; have := hwf.kid_parent n x hm; rw [hpx] at this; cases this; exact hn rfl
                · intro n; by_cases hnx : n = x <;> simp [hnx, hpx]
              · simp only [heq, if_false] at hi
                rw [hslot]
                exact after _ h1 he hi (by rw [hke1 q, hlenE]; omega)
        · simp only [hqp, if_false, he] at hi
          have hnotin : x ∉ h.kids p := by
            intro hm; have := hwf.kid_parent p x hm; rw [hpx] at this; cases this; exact hqp rfl
          have hslot : slotOf (h.kids p) position x = min position (h.kids p).length := by
            unfold slotOf
            rw [List.erase_of_not_mem (fun hm => hnotin (List.mem_of_mem_take hm))]
            simp [List.length_take]
          rw [hslot]
          exact after _ h1 he hi (by rw [hke1 p, List.erase_of_not_mem hnotin]; exact Nat.min_le_right _ _)

end shape
end BS.Heap
