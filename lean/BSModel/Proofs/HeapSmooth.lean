import BSModel.Model.HeapSmooth
import BSModel.Proofs.HeapEffects
import BSModel.Proofs.HeapIter
import BSModel.Proofs.HeapDecompose
/-! # C02: `smooth()` has exactly its documented effect

Part 1 (lists only): the procedure "mark the indices `i` where items `i`, `i+1` are both strings; for the marks in
reverse order merge items `i`, `i+1`" computes `squash`. Part 2 (heap): one iteration of the merge loop of
`_smooth_children` (`extract`; allocate; `replace_with`) is `mergeAt` on the view of the children list and touches no
other children list; the loop is the fold; `smoothChildren` is `squash`; `smooth` is `squash` on every tag of the
subtree. Core Lean only. -/
namespace BS.Heap

/-! ## 1. lists -/

/-- indices `i` with `l[i]`, `l[i+1]` both strings (what `smoothMarks` computes on the view) -/
def marks : Nat → List Item → List Nat
  | _, [] => []
  | _, [_] => []
  | i, a :: b :: rest =>
    let tl := marks (i + 1) (b :: rest)
    if a.isStr ∧ b.isStr then i :: tl else tl

/-- merge items `i` and `i+1` (both strings) into one -/
def mergeAt : List Item → Nat → List Item
  | .str a :: .str b :: rest, 0 => .str (a ++ b) :: rest
  | l, 0 => l
  | x :: rest, i + 1 => x :: mergeAt rest i
  | [], _ => []

/-- the procedure of `_smooth_children` on the view -/
def smoothPure (l : List Item) : List Item := (marks 0 l).reverse.foldl mergeAt l

theorem marks_shift : ∀ (l : List Item) (i : Nat), marks (i + 1) l = (marks i l).map (· + 1) := by
  intro l
  induction l with
  | nil => intro i; simp [marks]
  | cons a t ih =>
    intro i
    cases t with
    | nil => simp [marks]
    | cons b rest =>
      simp only [marks]
      rw [ih (i + 1)]
      split <;> simp

theorem mergeAt_cons_succ (a : Item) (tl : List Item) (m : Nat) : mergeAt (a :: tl) (m + 1) = a :: mergeAt tl m := by
  cases a <;> cases tl <;> simp [mergeAt]

theorem foldl_shift (a : Item) : ∀ (ms : List Nat) (tl : List Item),
    (ms.map (· + 1)).foldl mergeAt (a :: tl) = a :: ms.foldl mergeAt tl := by
  intro ms
  induction ms with
  | nil => intro tl; rfl
  | cons m ms ih =>
    intro tl
    simp only [List.map_cons, List.foldl_cons]
    rw [mergeAt_cons_succ, ih]

theorem smoothPure_cons2 (a b : Item) (rest : List Item) :
    smoothPure (a :: b :: rest) =
      (if a.isStr ∧ b.isStr then mergeAt (a :: smoothPure (b :: rest)) 0 else a :: smoothPure (b :: rest)) := by
  unfold smoothPure
  simp only [marks]
  rw [marks_shift (b :: rest) 0]
  split
  · rw [List.reverse_cons, List.foldl_append, ← List.map_reverse, foldl_shift]
    simp
  · rw [← List.map_reverse, foldl_shift]

theorem squash_str_head (bv : PStr) (rest : List Item) : ∃ w r, squash (.str bv :: rest) = .str w :: r := by
  simp only [squash]
  cases squash rest with
  | nil => exact ⟨bv, [], rfl⟩
  | cons c r =>
    cases c with
    | str cv => exact ⟨bv ++ cv, r, rfl⟩
    | other k => exact ⟨bv, .other k :: r, rfl⟩

/-- **the procedure computes the documented effect** (lists) -/
theorem smoothPure_eq_squash : ∀ (l : List Item), smoothPure l = squash l := by
  intro l
  induction l with
  | nil => rfl
  | cons a t ih =>
    cases t with
    | nil => cases a <;> rfl
    | cons b rest =>
      rw [smoothPure_cons2, ih]
      cases a with
      | other ia => simp [Item.isStr, squash, squashCons]
      | str av =>
        cases b with
        | other ib => simp [Item.isStr, squash, squashCons]
        | str bv =>
          obtain ⟨w, r, hw⟩ := squash_str_head bv rest
          simp only [Item.isStr, and_self, if_true]
          rw [show squash (.str av :: .str bv :: rest) = squashCons (.str av) (squash (.str bv :: rest)) from rfl, hw]
          rfl

/-! ### the two equations that pin `squash` down, and its observable consequences -/

/-- a child that is not a plain string separates: the two sides are smoothed independently and it stays where it is -/
theorem squash_split (l₁ l₂ : List Item) (k : Nat) :
    squash (l₁ ++ .other k :: l₂) = squash l₁ ++ .other k :: squash l₂ := by
  induction l₁ with
  | nil => rfl
  | cons a l ih =>
    simp only [List.cons_append, squash, ih]
    cases a with
    | other j => rfl
    | str av =>
      cases squash l with
      | nil => rfl
      | cons c r => cases c <;> rfl

/-- a non-empty run of plain strings becomes one string: the concatenation -/
theorem squash_run : ∀ (v : PStr) (vs : List PStr), squash ((v :: vs).map Item.str) = [.str (v :: vs).flatten] := by
  intro v vs
  induction vs generalizing v with
  | nil => simp [squash, squashCons]
  | cons u us ih =>
    have := ih u
    simp only [List.map_cons, squash] at this ⊢
    rw [this]
    simp [squashCons]

theorem squashCons_noAdj (x : Item) (r : List Item) (hr : NoAdjStr r) : NoAdjStr (squashCons x r) := by
  cases r with
  | nil => cases x <;> simp [squashCons, NoAdjStr]
  | cons c r' =>
    cases x with
    | other k => exact ⟨by simp [Item.isStr], hr⟩
    | str a =>
      cases c with
      | other j => exact ⟨by simp [Item.isStr], hr⟩
      | str b =>
        simp only [squashCons]
        cases r' with
        | nil => trivial
        | cons d r'' => exact ⟨by have := hr.1; simpa [Item.isStr] using this, hr.2⟩

/-- afterwards no two adjacent children are plain strings -/
theorem squash_noAdj (l : List Item) : NoAdjStr (squash l) := by
  induction l with
  | nil => trivial
  | cons a t ih => exact squashCons_noAdj a _ ih

theorem squashCons_strCat (x : Item) (r : List Item) : strCat (squashCons x r) = strCat (x :: r) := by
  cases x with
  | other k => rfl
  | str a =>
    cases r with
    | nil => rfl
    | cons c r' => cases c <;> simp [squashCons, strCat]

/-- no text is lost, duplicated or reordered -/
theorem squash_strCat (l : List Item) : strCat (squash l) = strCat l := by
  induction l with
  | nil => rfl
  | cons a t ih =>
    simp only [squash]
    rw [squashCons_strCat]
    cases a <;> simp [strCat, ih]

theorem squashCons_others (x : Item) (r : List Item) : others (squashCons x r) = others (x :: r) := by
  cases x with
  | other k => rfl
  | str a =>
    cases r with
    | nil => rfl
    | cons c r' => cases c <;> simp [squashCons, others]

/-- the children that are not plain strings are the same objects, in the same order -/
theorem squash_others (l : List Item) : others (squash l) = others l := by
  induction l with
  | nil => rfl
  | cons a t ih =>
    simp only [squash]
    rw [squashCons_others]
    cases a <;> simp [others, ih]

/-- a list without adjacent plain strings is left alone -/
theorem squash_of_noAdj : ∀ (l : List Item), NoAdjStr l → squash l = l := by
  intro l
  induction l with
  | nil => intro _; rfl
  | cons a t ih =>
    intro hn
    cases t with
    | nil => cases a <;> rfl
    | cons b rest =>
      have := ih hn.2
      simp only [squash] at this ⊢
      rw [this]
      cases a with
      | other k => rfl
      | str av =>
        cases b with
        | other j => rfl
        | str bv => exact absurd ⟨rfl, rfl⟩ hn.1

theorem squash_idem (l : List Item) : squash (squash l) = squash l := squash_of_noAdj _ (squash_noAdj l)

/-! ## 2. the marks stay usable when they are processed in reverse order -/

/-- items `m`, `m+1` exist and are both strings -/
def StrPairAt (l : List Item) (m : Nat) : Prop := ∃ a b, l[m]? = some (.str a) ∧ l[m + 1]? = some (.str b)

/-- every mark, at the moment it is used, points at two strings -/
def MarksOK (l : List Item) : List Nat → Prop
  | [] => True
  | i :: is => StrPairAt l i ∧ MarksOK (mergeAt l i) is

theorem mergeAt_getElem?_lt : ∀ (l : List Item) (i j : Nat), j < i → (mergeAt l i)[j]? = l[j]? := by
  intro l
  induction l with
  | nil => intro i j _; cases i <;> simp [mergeAt]
  | cons x l ih =>
    intro i j hj
    cases i with
    | zero => omega
    | succ i =>
      rw [mergeAt_cons_succ]
      cases j with
      | zero => rfl
      | succ j => simp only [List.getElem?_cons_succ]; exact ih i j (by omega)

theorem mergeAt_getElem?_self : ∀ (l : List Item) (i : Nat) (a b : PStr), l[i]? = some (.str a) →
    l[i + 1]? = some (.str b) → (mergeAt l i)[i]? = some (.str (a ++ b)) := by
  intro l
  induction l with
  | nil => intro i a b h; simp at h
  | cons x l ih =>
    intro i a b h1 h2
    cases i with
    | zero =>
      simp only [List.getElem?_cons_zero, Option.some.injEq] at h1
      subst h1
      cases l with
      | nil => simp at h2
      | cons y l' =>
        simp only [Nat.zero_add, List.getElem?_cons_succ, List.getElem?_cons_zero, Option.some.injEq] at h2
        subst h2
        rfl
    | succ i =>
      rw [mergeAt_cons_succ]
      simp only [List.getElem?_cons_succ] at h1 h2 ⊢
      exact ih i a b h1 h2

theorem strPairAt_mergeAt {l : List Item} {i j : Nat} (hi : StrPairAt l i) (hj : StrPairAt l j) (hlt : j < i) :
    StrPairAt (mergeAt l i) j := by
  obtain ⟨a, b, h1, h2⟩ := hi
  obtain ⟨c, d, h3, h4⟩ := hj
  by_cases he : j + 1 = i
  · subst he
    exact ⟨c, a ++ b, by rw [mergeAt_getElem?_lt _ _ _ hlt]; exact h3, mergeAt_getElem?_self _ _ _ _ h1 h2⟩
  · exact ⟨c, d, by rw [mergeAt_getElem?_lt _ _ _ hlt]; exact h3,
      by rw [mergeAt_getElem?_lt _ _ _ (by omega)]; exact h4⟩

theorem marksOK_of_sorted : ∀ (ms : List Nat) (l : List Item), ms.Pairwise (· > ·) → (∀ m ∈ ms, StrPairAt l m) →
    MarksOK l ms := by
  intro ms
  induction ms with
  | nil => intro l _ _; trivial
  | cons i is ih =>
    intro l hs hp
    have hs' := List.pairwise_cons.mp hs
    refine ⟨hp i (by simp), ih _ hs'.2 ?_⟩
    intro m hm
    exact strPairAt_mergeAt (hp i (by simp)) (hp m (by simp [hm])) (hs'.1 m hm)

theorem marks_mem : ∀ (l : List Item) (k m : Nat), m ∈ marks k l → k ≤ m ∧ StrPairAt l (m - k) := by
  intro l
  induction l with
  | nil => intro k m h; simp [marks] at h
  | cons a t ih =>
    intro k m h
    cases t with
    | nil => simp [marks] at h
    | cons b rest =>
      simp only [marks] at h
      have tl : m ∈ marks (k + 1) (b :: rest) → k ≤ m ∧ StrPairAt (a :: b :: rest) (m - k) := by
        intro hm
        obtain ⟨h1, a', b', h2, h3⟩ := ih (k + 1) m hm
        refine ⟨by omega, a', b', ?_, ?_⟩
        · have : m - k = (m - (k + 1)) + 1 := by omega
          rw [this, List.getElem?_cons_succ]; exact h2
        · have : m - k + 1 = (m - (k + 1) + 1) + 1 := by omega
          rw [this, List.getElem?_cons_succ]; exact h3
      split at h
      · rename_i hc
        rcases List.mem_cons.mp h with rfl | hm
        · refine ⟨Nat.le_refl _, ?_⟩
          cases a with
          | other _ => simp [Item.isStr] at hc
          | str av =>
            cases b with
            | other _ => simp [Item.isStr] at hc
            | str bv => rw [Nat.sub_self]; exact ⟨av, bv, rfl, rfl⟩
        · exact tl hm
      · exact tl h

theorem marks_sorted : ∀ (l : List Item) (k : Nat), (marks k l).Pairwise (· < ·) := by
  intro l
  induction l with
  | nil => intro k; simp [marks]
  | cons a t ih =>
    intro k
    cases t with
    | nil => simp [marks]
    | cons b rest =>
      simp only [marks]
      split
      · exact List.pairwise_cons.mpr ⟨fun m hm => by have := (marks_mem _ _ _ hm).1; omega, ih (k + 1)⟩
      · exact ih (k + 1)

/-- processing the marks in reverse order keeps every one of them valid -/
theorem marksOK_marks (l : List Item) : MarksOK l (marks 0 l).reverse := by
  apply marksOK_of_sorted
  · rw [List.pairwise_reverse]; exact marks_sorted l 0
  · intro m hm
    have := (marks_mem l 0 m (List.mem_reverse.mp hm)).2
    simpa using this

theorem mergeAt_append (l₁ : List Item) (a b : PStr) (l₂ : List Item) :
    mergeAt (l₁ ++ .str a :: .str b :: l₂) l₁.length = l₁ ++ .str (a ++ b) :: l₂ := by
  induction l₁ with
  | nil => rfl
  | cons x l ih => simp only [List.cons_append, List.length_cons, mergeAt_cons_succ, ih]

end BS.Heap

namespace BS.Heap

/-! ## 3. the heap: one iteration of the merge loop of `_smooth_children` -/

theorem item_isStr (h : Heap) (k : Nat) : (item h k).isStr = true ↔ h.kind k = .str := by
  unfold item; split <;> simp [Item.isStr, *]

/-- the marking pass of `_smooth_children` reads nothing but the view -/
theorem smoothMarks_eq (h : Heap) : ∀ (l : List Nat) (k : Nat), smoothMarks h k l = marks k (l.map (item h)) := by
  intro l
  induction l with
  | nil => intro k; rfl
  | cons a t ih =>
    intro k
    cases t with
    | nil => rfl
    | cons b rest =>
      simp only [smoothMarks, List.map_cons, marks]
      rw [ih (k + 1)]
      simp only [List.map_cons, item_isStr]

theorem item_congr {h h' : Heap} {k : Nat} (hk : h'.kind k = h.kind k) (hv : h'.val k = h.val k) :
    item h' k = item h k := by
  unfold item; rw [hk, hv]

theorem view_congr {h h' : Heap} {q : Nat} (hk : h'.kids q = h.kids q)
    (hkv : ∀ k ∈ h.kids q, h'.kind k = h.kind k ∧ h'.val k = h.val k) : view h' q = view h q := by
  unfold view; rw [hk]
  apply List.map_congr_left
  intro k hk'
  exact item_congr (hkv k hk').1 (hkv k hk').2

/-- a child is an allocated object -/
theorem good_kid_lt_next {h : Heap} (hg : Good h) {q k : Nat} (hk : k ∈ h.kids q) : k < h.next := by
  obtain ⟨w, hwf⟩ := hg
  apply Classical.byContradiction
  intro hn
  have := (hwf.fresh k (by omega)).1
  rw [hwf.kid_parent q k hk] at this; cases this

theorem split_two : ∀ (l : List Nat) (i a b : Nat), l[i]? = some a → l[i + 1]? = some b →
    ∃ pre post, l = pre ++ a :: b :: post ∧ pre.length = i := by
  intro l
  induction l with
  | nil => intro i a b h; simp at h
  | cons x l ih =>
    intro i a b h1 h2
    cases i with
    | zero =>
      simp only [List.getElem?_cons_zero, Option.some.injEq] at h1
      subst h1
      cases l with
      | nil => simp at h2
      | cons y l' =>
        simp only [Nat.zero_add, List.getElem?_cons_succ, List.getElem?_cons_zero, Option.some.injEq] at h2
        subst h2
        exact ⟨[], l', rfl, rfl⟩
    | succ i =>
      simp only [List.getElem?_cons_succ] at h1 h2
      obtain ⟨pre, post, hl, hp⟩ := ih i a b h1 h2
      exact ⟨x :: pre, post, by rw [hl]; rfl, by simp [hp]⟩

theorem map_replace_of_not_mem {a n : Nat} : ∀ (l : List Nat), a ∉ l → l.map (fun k => if k = a then n else k) = l := by
  intro l
  induction l with
  | nil => intro _; rfl
  | cons x l ih =>
    intro hm
    have hx : x ≠ a := fun e => hm (by simp [e])
    simp only [List.map_cons, hx, if_false]
    rw [ih (fun hm' => hm (by simp [hm']))]

/-- `_insert` of a parentless element is the linking part alone: no class, no text, no allocation counter changes,
    and only the element's own parent field does -/
theorem insertCore_root_linked {h h' : Heap} {p pos x : Nat} (hroot : h.parent x = none)
    (hc : insertCore h p pos x = .ok h') :
    h'.kind = h.kind ∧ h'.val = h.val ∧ h'.next = h.next ∧
    (∀ j, h'.parent j = if j = x then some p else h.parent j) := by
  unfold insertCore at hc
  split at hc
  · cases hc
  · split at hc
    · cases hc
    · simp only [hroot] at hc
      obtain ⟨h'', g, e, _, _, hl⟩ := linkChild_linked h p (min pos (h.kids p).length) x (Nat.min_le_right _ _)
      rw [e] at hc; cases hc
      exact ⟨hl.kind, hl.val, hl.next, hl.parent⟩

/-- `x.replace_with(y)` for a parentless `y`: classes, texts and the allocation counter are untouched; `x` loses its
    parent, `y` gets it, no other parent field changes -/
theorem replaceWith_root_frame {h h' : Heap} {x y p : Nat} (hg : Good h) (hp : h.parent x = some p)
    (hy : h.kind y ≠ .soup) (hxy : y ≠ x) (hyr : h.parent y = none)
    (hr : replaceWith h x [.node y] = .ok h') :
    h'.kind = h.kind ∧ h'.val = h.val ∧ h'.next = h.next ∧
    (∀ j, h'.parent j = if j = y then some p else if j = x then none else h.parent j) := by
  obtain ⟨w, hwf⟩ := hg
  unfold replaceWith at hr
  simp only [hp] at hr
  have hne : ([Arg.node y] = [Arg.node x]) = False := by simp; exact hxy
  simp only [hne, if_false] at hr
  split at hr
  · cases hr
  · cases hidx : indexOf h p x with
    | none => simp only [hidx] at hr; cases hr
    | some i =>
      simp only [hidx] at hr
      obtain ⟨h1, he, _, _, hpar1, hkind1, hval1, hnext1, _⟩ := extract_spec h w x hwf
      simp only [he] at hr
      cases hins : insert h1 p i [.node y] with
      | error e => simp only [hins] at hr; cases hr
      | ok r =>
        obtain ⟨h2, ins⟩ := r
        simp only [hins] at hr; cases hr
        have hy1 : h1.kind y ≠ .soup := by rw [hkind1]; exact hy
        have hcore := insert_single_node hy1 hins
        have hyr1 : h1.parent y = none := by rw [hpar1 y]; simp [hyr]
        obtain ⟨k, v, n, pa⟩ := insertCore_root_linked hyr1 hcore
        refine ⟨k.trans hkind1, v.trans hval1, n.trans hnext1, ?_⟩
        intro j; rw [pa j, hpar1 j]

/-- **one iteration of the merge loop** (`b.extract(); n = NavigableString(a + b); a.replace_with(n)`) on two adjacent
    children `a`, `b` of `t`: the pair is replaced, in place, by ONE new object — the next unused identity, a plain string
    whose text is the concatenation; no other children list changes; no existing object changes class or text; `a` and
    `b` come back detached, no other parent field changes -/
theorem smooth_step {h h1 h3 : Heap} {t a b : Nat} {pre post : List Nat} (hg : Good2 h)
    (hk : h.kids t = pre ++ a :: b :: post) (he : extract h b = .ok h1)
    (hr : replaceWith (alloc h1 .str (h1.val a ++ h1.val b)).1 a
      [.node (alloc h1 .str (h1.val a ++ h1.val b)).2] = .ok h3) :
    Good2 h3 ∧ h3.kids t = pre ++ h.next :: post ∧ (∀ q, q ≠ t → h3.kids q = h.kids q) ∧
    h3.next = h.next + 1 ∧ h3.kind h.next = .str ∧ h3.val h.next = h.val a ++ h.val b ∧
    (∀ k, k ≠ h.next → h3.kind k = h.kind k ∧ h3.val k = h.val k) ∧
    (∀ k, h3.parent k = if k = h.next then some t else if k = a ∨ k = b then none else h.parent k) := by
  obtain ⟨w, hwf⟩ := hg.1
  have hnd := good_kids_nodup hg.1 t
  rw [hk] at hnd
  have hamem : a ∈ h.kids t := by rw [hk]; simp
  have hbmem : b ∈ h.kids t := by rw [hk]; simp
  have hat := hwf.kid_parent t a hamem
  have hbt := hwf.kid_parent t b hbmem
  have hnd2 := List.nodup_append.mp hnd
  have habp := List.nodup_cons.mp hnd2.2.1
  have hapre : a ∉ pre := fun hm => hnd2.2.2 a hm a (by simp) rfl
  have hbpre : b ∉ pre := fun hm => hnd2.2.2 b hm b (by simp) rfl
  have hab : a ≠ b := fun e => habp.1 (by simp [e])
  have hapost : a ∉ post := fun hm => habp.1 (by simp [hm])
  -- `b.extract()`
  obtain ⟨h1', he', hwf1, hkids1, hpar1, hkind1, hval1, hnext1, _⟩ := extract_spec h w b hwf
  rw [he] at he'; cases he'
  have hg1 : Good2 h1 := ⟨⟨_, hwf1⟩, fun n hn => by rw [hkind1]; exact hg.2 n (by omega)⟩
  have hk1t : h1.kids t = pre ++ a :: post := by
    rw [hkids1 t]; simp only [hbt, if_true]
    rw [hk, List.erase_append_right _ hbpre]
    simp [hab]
  -- `NavigableString(a + b)`
  generalize hv : h1.val a ++ h1.val b = v at hr
  obtain ⟨hg2, _⟩ := alloc_good2 hg1 .str v (Or.inl rfl)
  obtain ⟨ha2, hap, hak, han, hakn, hako⟩ := alloc_fields h1 .str v
  rw [ha2] at hr
  have hval2 : ∀ k, (alloc h1 .str v).1.val k = if k = h1.next then v else h1.val k := fun k => rfl
  -- `a.replace_with(n)`
  have halt : a < h.next := good_kid_lt_next hg.1 hamem
  have hna : h1.next ≠ a := by omega
  have hfresh1 : ∀ q, h1.next ∉ h1.kids q := fun q hm => by have := good_kid_lt_next hg1.1 hm; omega
  have hp2 : (alloc h1 .str v).1.parent a = some t := by rw [hap, hpar1 a]; simp [hab, hat]
  have hns : (alloc h1 .str v).1.kind h1.next ≠ .soup := by rw [hakn]; decide
  obtain ⟨hg3, hk3t, hk3o, _, _⟩ :=
    replaceWith_one_effect hg2 hp2 hns hna (by rw [hak]; exact hfresh1 t) hr
  obtain ⟨fk, fv, fn, fp⟩ := replaceWith_root_frame hg2.1 hp2 hns hna
    (by rw [hap]; exact (hwf1.fresh _ (Nat.le_refl _)).1) hr
  refine ⟨hg3, ?_, ?_, ?_, ?_, ?_, ?_, ?_⟩
  · rw [hk3t, hak, hk1t, List.map_append, List.map_cons, map_replace_of_not_mem pre hapre,
      map_replace_of_not_mem post hapost, hnext1]
    simp
  · intro q hq
    have h1q : h1.kids q = h.kids q := by
      rw [hkids1 q]
      have : h.parent b ≠ some q := by rw [hbt]; intro e; cases e; exact hq rfl
      simp [this]
    have haq : a ∉ h.kids q := by
      intro hm; have := hwf.kid_parent q a hm; rw [hat] at this; cases this; exact hq rfl
    rw [hk3o q hq, hak, h1q, List.erase_of_not_mem haq]
    apply List.erase_of_not_mem
    rw [← h1q]; exact hfresh1 q
  · rw [fn, han, hnext1]
  · rw [fk, ← hnext1]; exact hakn
  · rw [fv, ← hnext1, hval2, if_pos rfl, ← hv, hval1]
  · intro k hk'
    rw [← hnext1] at hk'
    exact ⟨by rw [fk, hako k hk', hkind1], by rw [fv, hval2, if_neg hk', hval1]⟩
  · intro k
    rw [fp k, hap, hpar1 k, hnext1]
    have han' : a ≠ h.next := by omega
    by_cases hkn : k = h.next
    · simp [hkn]
    · by_cases hka : k = a
      · simp [hka, han']
      · by_cases hkb : k = b <;> simp [hkn, hka, hkb]

end BS.Heap

namespace BS.Heap

/-! ## 4. the same with identities: lists -/

/-- merge items `i` and `i+1` (both strings) into one new object `n` -/
def mergeAtL : List IItem → Nat → Nat → List IItem
  | (_, .str a) :: (_, .str b) :: rest, 0, n => (n, .str (a ++ b)) :: rest
  | l, 0, _ => l
  | x :: rest, i + 1, n => x :: mergeAtL rest i n
  | [], _, _ => []

/-- one iteration of the loop on (children with identities, allocation counter) -/
def mergeAtId (s : List IItem × Nat) (i : Nat) : List IItem × Nat := (mergeAtL s.1 i s.2, s.2 + 1)

def smoothPureId (n : Nat) (l : List IItem) : List IItem × Nat :=
  (marks 0 (l.map Prod.snd)).reverse.foldl mergeAtId (l, n)

theorem mergeAtL_cons_succ (a : IItem) (tl : List IItem) (m n : Nat) :
    mergeAtL (a :: tl) (m + 1) n = a :: mergeAtL tl m n := by
  obtain ⟨ia, a⟩ := a
  cases a <;> cases tl <;> simp [mergeAtL]

theorem foldl_shift_id (a : IItem) : ∀ (ms : List Nat) (s : List IItem × Nat),
    (ms.map (· + 1)).foldl mergeAtId (a :: s.1, s.2) =
      (a :: (ms.foldl mergeAtId s).1, (ms.foldl mergeAtId s).2) := by
  intro ms
  induction ms with
  | nil => intro s; rfl
  | cons m ms ih =>
    intro s
    simp only [List.map_cons, List.foldl_cons]
    have : mergeAtId (a :: s.1, s.2) (m + 1) = (a :: (mergeAtId s m).1, (mergeAtId s m).2) := by
      simp only [mergeAtId, mergeAtL_cons_succ]
    rw [this, ih]

theorem smoothPureId_cons2 (n : Nat) (a b : IItem) (rest : List IItem) :
    smoothPureId n (a :: b :: rest) =
      (if a.2.isStr ∧ b.2.isStr then
        mergeAtId (a :: (smoothPureId n (b :: rest)).1, (smoothPureId n (b :: rest)).2) 0
       else (a :: (smoothPureId n (b :: rest)).1, (smoothPureId n (b :: rest)).2)) := by
  unfold smoothPureId
  simp only [List.map_cons, marks]
  rw [marks_shift (b.2 :: rest.map Prod.snd) 0]
  split
  · rw [List.reverse_cons, List.foldl_append, ← List.map_reverse]
    have := foldl_shift_id a (marks 0 (b.2 :: rest.map Prod.snd)).reverse (b :: rest, n)
    simp only at this
    rw [this]
    simp
  · rw [← List.map_reverse]
    exact foldl_shift_id a (marks 0 (b.2 :: rest.map Prod.snd)).reverse (b :: rest, n)

theorem squashId_str_head (n ib : Nat) (bv : PStr) (rest : List IItem) :
    ∃ j w r m, squashId n ((ib, .str bv) :: rest) = ((j, .str w) :: r, m) := by
  simp only [squashId]
  rcases squashId n rest with ⟨l, m⟩
  cases l with
  | nil => exact ⟨ib, bv, [], m, rfl⟩
  | cons c r =>
    obtain ⟨ic, c⟩ := c
    cases c with
    | str cv => exact ⟨m, bv ++ cv, r, m + 1, rfl⟩
    | other k => exact ⟨ib, bv, (ic, .other k) :: r, m, rfl⟩

/-- **the procedure computes the documented effect, identities and allocation counter included** (lists) -/
theorem smoothPureId_eq_squashId (n : Nat) : ∀ (l : List IItem), smoothPureId n l = squashId n l := by
  intro l
  induction l with
  | nil => rfl
  | cons a t ih =>
    cases t with
    | nil => obtain ⟨ia, a⟩ := a; cases a <;> rfl
    | cons b rest =>
      rw [smoothPureId_cons2, ih]
      obtain ⟨ia, a⟩ := a
      obtain ⟨ib, b⟩ := b
      cases a with
      | other ka =>
        simp only [Item.isStr, Bool.false_eq_true, false_and, if_false]
        rfl
      | str av =>
        cases b with
        | other kb =>
          simp only [Item.isStr, Bool.false_eq_true, and_false, if_false]
          rfl
        | str bv =>
          obtain ⟨j, w, r, m, hw⟩ := squashId_str_head n ib bv rest
          simp only [Item.isStr, and_self, if_true]
          rw [show squashId n ((ia, .str av) :: (ib, .str bv) :: rest) =
            squashIdCons (ia, .str av) (squashId n ((ib, .str bv) :: rest)) from rfl, hw]
          rfl

theorem map_snd_mergeAtL : ∀ (l : List IItem) (i n : Nat), (mergeAtL l i n).map Prod.snd = mergeAt (l.map Prod.snd) i := by
  intro l
  induction l with
  | nil => intro i n; cases i <;> simp [mergeAtL, mergeAt]
  | cons x l ih =>
    intro i n
    cases i with
    | succ i => rw [mergeAtL_cons_succ, List.map_cons, List.map_cons, mergeAt_cons_succ, ih]
    | zero =>
      obtain ⟨ix, x⟩ := x
      cases x with
      | other k => simp [mergeAtL, mergeAt]
      | str a =>
        cases l with
        | nil => simp [mergeAtL, mergeAt]
        | cons y l' =>
          obtain ⟨iy, y⟩ := y
          cases y <;> simp [mergeAtL, mergeAt]

theorem mergeAtL_append (l₁ : List IItem) (ia ib n : Nat) (a b : PStr) (l₂ : List IItem) :
    mergeAtL (l₁ ++ (ia, .str a) :: (ib, .str b) :: l₂) l₁.length n = l₁ ++ (n, .str (a ++ b)) :: l₂ := by
  induction l₁ with
  | nil => rfl
  | cons x l ih => simp only [List.cons_append, List.length_cons, mergeAtL_cons_succ, ih]

theorem squashIdCons_snd (x : IItem) (r : List IItem × Nat) :
    (squashIdCons x r).1.map Prod.snd = squashCons x.2 (r.1.map Prod.snd) := by
  obtain ⟨ix, x⟩ := x
  obtain ⟨l, n⟩ := r
  cases x with
  | other k => rfl
  | str a =>
    cases l with
    | nil => rfl
    | cons c l' =>
      obtain ⟨ic, c⟩ := c
      cases c <;> rfl

/-- forgetting the identities gives `squash` -/
theorem squashId_snd (n : Nat) : ∀ (l : List IItem), (squashId n l).1.map Prod.snd = squash (l.map Prod.snd) := by
  intro l
  induction l with
  | nil => rfl
  | cons x rest ih =>
    simp only [squashId, List.map_cons, squash]
    rw [squashIdCons_snd, ih]

/-- the allocation counter only grows, and every identity in the result is an old one or was allocated in between -/
theorem squashId_counter (n : Nat) : ∀ (l : List IItem), n ≤ (squashId n l).2 ∧
    ∀ x ∈ (squashId n l).1, x ∈ l ∨ (n ≤ x.1 ∧ x.1 < (squashId n l).2) := by
  intro l
  induction l with
  | nil => exact ⟨Nat.le_refl _, fun x hx => by cases hx⟩
  | cons a rest ih =>
    simp only [squashId]
    rcases hq : squashId n rest with ⟨r, m⟩
    rw [hq] at ih
    obtain ⟨ia, a⟩ := a
    have generic : n ≤ m ∧ ∀ x ∈ (ia, a) :: r, x ∈ (ia, a) :: rest ∨ (n ≤ x.1 ∧ x.1 < m) := by
      refine ⟨ih.1, ?_⟩
      intro x hx
      rcases List.mem_cons.mp hx with rfl | hx'
      · exact Or.inl (by simp)
      · rcases ih.2 x hx' with h1 | h1
        · exact Or.inl (by simp [h1])
        · exact Or.inr h1
    cases a with
    | other k => exact generic
    | str av =>
      cases r with
      | nil => exact generic
      | cons c r' =>
        obtain ⟨ic, c⟩ := c
        cases c with
        | other k => exact generic
        | str cv =>
          simp only [squashIdCons]
          refine ⟨by have := ih.1; simp only at this; omega, ?_⟩
          intro x hx
          rcases List.mem_cons.mp hx with rfl | hx'
          · exact Or.inr ⟨ih.1, by simp⟩
          · rcases ih.2 x (by simp [hx']) with h1 | h1
            · exact Or.inl (by simp [h1])
            · exact Or.inr ⟨h1.1, by have := h1.2; simp only at this ⊢; omega⟩

end BS.Heap

namespace BS.Heap

/-! ## 5. the loop, `_smooth_children`, `smooth` -/

/-- what a smoothing pass over the tags in `S` leaves alone: the children list of every other object; the class and text
    of every existing object; every parent field except that of plain strings directly beneath a tag in `S` (the merged
    ones come back detached); everything it allocates is a plain string -/
structure SmoothFrame (h h' : Heap) (S : Nat → Prop) : Prop where
  others : ∀ q, ¬ S q → h'.kids q = h.kids q
  next : h.next ≤ h'.next
  old : ∀ k, k < h.next → h'.kind k = h.kind k ∧ h'.val k = h.val k
  newStr : ∀ k, h.next ≤ k → k < h'.next → h'.kind k = .str
  parent : ∀ k, k < h.next → h'.parent k = h.parent k ∨
    (∃ q, S q ∧ h.parent k = some q ∧ h.kind k = .str ∧ h'.parent k = none)

theorem SmoothFrame.refl (h : Heap) (S : Nat → Prop) : SmoothFrame h h S :=
  ⟨fun _ _ => rfl, Nat.le_refl _, fun _ _ => ⟨rfl, rfl⟩, fun k h1 h2 => by omega, fun _ _ => Or.inl rfl⟩

theorem SmoothFrame.mono {h h' : Heap} {S S' : Nat → Prop} (hs : ∀ q, S q → S' q) (f : SmoothFrame h h' S) :
    SmoothFrame h h' S' :=
  ⟨fun q hq => f.others q (fun hh => hq (hs q hh)), f.next, f.old, f.newStr,
    fun k hk => (f.parent k hk).imp id (fun ⟨q, h1, h2⟩ => ⟨q, hs q h1, h2⟩)⟩

theorem SmoothFrame.trans {h h1 h' : Heap} {S : Nat → Prop} (f : SmoothFrame h h1 S) (g : SmoothFrame h1 h' S) :
    SmoothFrame h h' S := by
  constructor
  · intro q hq; rw [g.others q hq, f.others q hq]
  · exact Nat.le_trans f.next g.next
  · intro k hk
    have a := f.old k hk
    have b := g.old k (Nat.lt_of_lt_of_le hk f.next)
    exact ⟨b.1.trans a.1, b.2.trans a.2⟩
  · intro k h1k h2k
    by_cases hlt : k < h1.next
    · rw [(g.old k hlt).1]; exact f.newStr k h1k hlt
    · exact g.newStr k (by omega) h2k
  · intro k hk
    have hk1 : k < h1.next := Nat.lt_of_lt_of_le hk f.next
    rcases f.parent k hk with a | ⟨q, sq, hp, hkd, hn⟩
    · rcases g.parent k hk1 with b | ⟨q, sq, hp, hkd, hn⟩
      · exact Or.inl (b.trans a)
      · exact Or.inr ⟨q, sq, by rw [← a]; exact hp, by rw [← (f.old k hk).1]; exact hkd, hn⟩
    · rcases g.parent k hk1 with b | ⟨q', _, hp', _, hn'⟩
      · exact Or.inr ⟨q, sq, hp, hkd, b.trans hn⟩
      · exact Or.inr ⟨q, sq, hp, hkd, hn'⟩

theorem idView_snd (h : Heap) (t : Nat) : (idView h t).map Prod.snd = view h t := by
  unfold idView view; rw [List.map_map]; rfl

theorem idView_fst (h : Heap) (t : Nat) : (idView h t).map Prod.fst = h.kids t := by
  unfold idView; rw [List.map_map]; exact List.map_id _

theorem idView_congr {h h' : Heap} {q : Nat} (hk : h'.kids q = h.kids q)
    (hkv : ∀ k ∈ h.kids q, h'.kind k = h.kind k ∧ h'.val k = h.val k) : idView h' q = idView h q := by
  unfold idView; rw [hk]
  apply List.map_congr_left
  intro k hk'
  rw [item_congr (hkv k hk').1 (hkv k hk').2]

theorem item_str_iff {h : Heap} {k : Nat} {v : PStr} : item h k = .str v ↔ h.kind k = .str ∧ h.val k = v := by
  unfold item
  split
  · rename_i hk; simp [hk]
  · rename_i hk; simp [hk]

/-- one iteration of the merge loop at a valid mark `i` is `mergeAtId` on (children with identities, allocation counter) -/
theorem smoothMerge_step {h h1 h3 : Heap} {t i a b : Nat} (hg : Good2 h) (hok : StrPairAt (view h t) i)
    (hia : (h.kids t)[i]? = some a) (hib : (h.kids t)[i + 1]? = some b) (he : extract h b = .ok h1)
    (hr : replaceWith (alloc h1 .str (h1.val a ++ h1.val b)).1 a
      [.node (alloc h1 .str (h1.val a ++ h1.val b)).2] = .ok h3) :
    Good2 h3 ∧ (idView h3 t, h3.next) = mergeAtId (idView h t, h.next) i ∧
    view h3 t = mergeAt (view h t) i ∧ SmoothFrame h h3 (· = t) := by
  obtain ⟨va, vb, hva, hvb⟩ := hok
  obtain ⟨pre, post, hk, hlen⟩ := split_two _ _ _ _ hia hib
  subst hlen
  obtain ⟨hg3, hk3, hko3, hn3, hkn3, hvn3, hold3, hpar3⟩ := smooth_step hg hk he hr
  have hia' : item h a = .str va := by
    have : (view h t)[pre.length]? = some (item h a) := by unfold view; rw [List.getElem?_map, hia]; rfl
    rw [this] at hva; exact Option.some.inj hva
  have hib' : item h b = .str vb := by
    have : (view h t)[pre.length + 1]? = some (item h b) := by unfold view; rw [List.getElem?_map, hib]; rfl
    rw [this] at hvb; exact Option.some.inj hvb
  have hka := item_str_iff.mp hia'
  have hkb := item_str_iff.mp hib'
  have hlt : ∀ k ∈ h.kids t, k < h.next := fun k hk' => good_kid_lt_next hg.1 hk'
  have hsame : ∀ k ∈ h.kids t, (k, item h3 k) = (k, item h k) := by
    intro k hk'
    have := hold3 k (by have := hlt k hk'; omega)
    rw [item_congr this.1 this.2]
  have hnew : item h3 h.next = .str (va ++ vb) :=
    item_str_iff.mpr ⟨hkn3, by rw [hvn3, hka.2, hkb.2]⟩
  have hid3 : idView h3 t = mergeAtL (idView h t) pre.length h.next := by
    have hm := mergeAtL_append (pre.map (fun k => (k, item h k))) a b h.next va vb
      (post.map (fun k => (k, item h k)))
    rw [List.length_map] at hm
    unfold idView
    rw [hk3, hk, List.map_append, List.map_cons, List.map_append, List.map_cons, List.map_cons, hia', hib',
      hm, hnew]
    congr 1
    · apply List.map_congr_left
      intro k hk'; exact hsame k (by rw [hk]; simp [hk'])
    · congr 1
      apply List.map_congr_left
      intro k hk'; exact hsame k (by rw [hk]; simp [hk'])
  have hview3 : view h3 t = mergeAt (view h t) pre.length := by
    rw [← idView_snd, hid3, map_snd_mergeAtL, idView_snd]
  refine ⟨hg3, by simp only [mergeAtId, hid3, hn3], hview3, ?_⟩
  constructor
  · exact hko3
  · omega
  · intro k hk'; exact hold3 k (by omega)
  · intro k h1k h2k
    have : k = h.next := by omega
    rw [this]; exact hkn3
  · intro k hk'
    rw [hpar3 k, if_neg (by omega)]
    by_cases hab : k = a ∨ k = b
    · rw [if_pos hab]
      obtain ⟨w, hwf⟩ := hg.1
      rcases hab with rfl | rfl
      · exact Or.inr ⟨t, rfl, hwf.kid_parent t k (by rw [hk]; simp), hka.1, rfl⟩
      · exact Or.inr ⟨t, rfl, hwf.kid_parent t k (by rw [hk]; simp), hkb.1, rfl⟩
    · rw [if_neg hab]; exact Or.inl rfl

/-- **the merge loop is the fold of `mergeAtId`** over the marks, as long as each mark, when it is used, points at two
    plain strings — which processing them in reverse order guarantees (`marksOK_marks`) -/
theorem smoothMerge_fold {t : Nat} : ∀ (ms : List Nat) (h h' : Heap), Good2 h → MarksOK (view h t) ms →
    smoothMerge h t ms = .ok h' →
    (idView h' t, h'.next) = ms.foldl mergeAtId (idView h t, h.next) ∧ Good2 h' ∧ SmoothFrame h h' (· = t) := by
  intro ms
  induction ms with
  | nil =>
    intro h h' hg _ hs
    simp only [smoothMerge] at hs; cases hs
    exact ⟨rfl, hg, SmoothFrame.refl _ _⟩
  | cons i is ih =>
    intro h h' hg hok hs
    obtain ⟨hpair, hok'⟩ := hok
    simp only [smoothMerge] at hs
    split at hs
    · rename_i a b hia hib
      cases he : extract h b with
      | error e => simp only [he] at hs; cases hs
      | ok h1 =>
        simp only [he] at hs
        cases hr : replaceWith (alloc h1 .str (h1.val a ++ h1.val b)).1 a
            [.node (alloc h1 .str (h1.val a ++ h1.val b)).2] with
        | error e => simp only [hr] at hs; cases hs
        | ok h3 =>
          simp only [hr] at hs
          obtain ⟨hg3, hid3, hview3, fr0⟩ := smoothMerge_step hg hpair hia hib he hr
          rw [← hview3] at hok'
          obtain ⟨e, hg', fr⟩ := ih h3 h' hg3 hok' hs
          refine ⟨?_, hg', fr0.trans fr⟩
          rw [e, List.foldl_cons, hid3]
    · cases hs

/-- **`_smooth_children`, exactly**: the children list of `t` — identities included — and the allocation counter are
    those of `squashId`; the forest stays consistent; nothing else changes (`SmoothFrame`) -/
theorem smoothChildren_exact {h h' : Heap} {t : Nat} (hg : Good2 h) (hs : smoothChildren h t = .ok h') :
    (idView h' t, h'.next) = squashId h.next (idView h t) ∧ Good2 h' ∧ SmoothFrame h h' (· = t) := by
  unfold smoothChildren at hs
  rw [smoothMarks_eq] at hs
  have hv : (h.kids t).map (item h) = view h t := rfl
  rw [hv] at hs
  obtain ⟨e, hg', fr⟩ := smoothMerge_fold _ h h' hg (marksOK_marks (view h t)) hs
  refine ⟨?_, hg', fr⟩
  rw [e, ← smoothPureId_eq_squashId]
  unfold smoothPureId
  rw [idView_snd]

/-- **`_smooth_children`, as the property sees it**: every maximal run of adjacent plain strings among the children of
    `t` has become one string, the concatenation, and nothing else has moved -/
theorem smoothChildren_effect {h h' : Heap} {t : Nat} (hg : Good2 h) (hs : smoothChildren h t = .ok h') :
    view h' t = squash (view h t) ∧ Good2 h' ∧ SmoothFrame h h' (· = t) := by
  obtain ⟨e, hg', fr⟩ := smoothChildren_exact hg hs
  refine ⟨?_, hg', fr⟩
  have : idView h' t = (squashId h.next (idView h t)).1 := by rw [← e]
  rw [← idView_snd, this, squashId_snd, idView_snd]

/-- a tag without two adjacent plain strings among its children is not touched at all -/
theorem smoothChildren_noop {h : Heap} {t : Nat} (hn : NoAdjStr (view h t)) : smoothChildren h t = .ok h := by
  unfold smoothChildren
  rw [smoothMarks_eq]
  have hv : (h.kids t).map (item h) = view h t := rfl
  rw [hv]
  have : ∀ (l : List Item) (k : Nat), NoAdjStr l → marks k l = [] := by
    intro l
    induction l with
    | nil => intro k _; rfl
    | cons a r ih =>
      intro k hl
      cases r with
      | nil => rfl
      | cons b rest =>
        simp only [marks]
        rw [ih (k + 1) hl.2, if_neg hl.1]
  rw [this _ 0 hn]
  rfl

end BS.Heap

namespace BS.Heap

/-- the walk of any subtree (not only of a whole tree) lists no element twice -/
theorem pre_nodup {h : Heap} {w : Wit} (hwf : WF h w) (t : Nat) : (docOrder h t).Nodup := by
  unfold docOrder; rw [pre_slice hwf t]
  exact (docOrder_nodup hwf (hwf.tree_root t)).sublist ((List.take_sublist _ _).trans (List.drop_sublist _ _))

/-- the loop of `smooth` over distinct tags: each tag's children list is changed by its own pass only -/
theorem smoothAll_effect : ∀ (ts : List Nat) (h h' : Heap), Good2 h → ts.Nodup → smoothAll h ts = .ok h' →
    Good2 h' ∧ SmoothFrame h h' (· ∈ ts) ∧
    (∀ q ∈ ts, ∃ n, h.next ≤ n ∧ idView h' q = (squashId n (idView h q)).1) := by
  intro ts
  induction ts with
  | nil =>
    intro h h' hg _ hs
    simp only [smoothAll] at hs; cases hs
    exact ⟨hg, SmoothFrame.refl _ _, fun q hq => by cases hq⟩
  | cons t ts ih =>
    intro h h' hg hnd hs
    simp only [smoothAll] at hs
    cases hc : smoothChildren h t with
    | error e => simp only [hc] at hs; cases hs
    | ok h1 =>
      simp only [hc] at hs
      obtain ⟨e1, hg1, fr1⟩ := smoothChildren_exact hg hc
      have hnd' := List.nodup_cons.mp hnd
      obtain ⟨hg', fr2, hq2⟩ := ih h1 h' hg1 hnd'.2 hs
      refine ⟨hg', (fr1.mono ?_).trans (fr2.mono ?_), ?_⟩
      · intro q hq; rw [hq]; simp
      · intro q hq; simp [hq]
      · intro q hq
        rcases List.mem_cons.mp hq with hqt | hq'
        · rw [hqt]
          refine ⟨h.next, Nat.le_refl _, ?_⟩
          have : idView h1 t = (squashId h.next (idView h t)).1 := by rw [← e1]
          rw [← this]
          apply idView_congr (fr2.others t hnd'.1)
          intro k hk; exact fr2.old k (good_kid_lt_next hg1.1 hk)
        · obtain ⟨n, hn, e⟩ := hq2 q hq'
          refine ⟨n, Nat.le_trans fr1.next hn, ?_⟩
          rw [e]
          have hqt : q ≠ t := fun e => hnd'.1 (e ▸ hq')
          have : idView h1 q = idView h q :=
            idView_congr (fr1.others q hqt) (fun k hk => fr1.old k (good_kid_lt_next hg.1 hk))
          rw [this]

/-- **`smooth()`, the whole call**: in every object `q` of the subtree of `t` (the pre-order walk from `t` before the
    call) every maximal run of adjacent plain strings among the children has become one string, the concatenation —
    with identities: `squashId` from some allocation counter `n` — and nothing else has changed (`SmoothFrame`) -/
theorem smooth_effect {h h' : Heap} {t : Nat} (hg : Good2 h) (hs : smooth h t = .ok h') :
    Good2 h' ∧ SmoothFrame h h' (· ∈ docOrder h t) ∧
    (∀ q ∈ docOrder h t, ∃ n, h.next ≤ n ∧ idView h' q = (squashId n (idView h q)).1) ∧
    (∀ q ∈ docOrder h t, view h' q = squash (view h q)) := by
  obtain ⟨w, hwf⟩ := hg.1
  obtain ⟨ds, hd, hdo, _⟩ := descendants_docOrder hwf t
  unfold smooth at hs
  simp only [hd] at hs
  have hnd : (t :: ds.filter (fun d => (h.kind d).isTag)).Nodup := by
    have := pre_nodup hwf t; rw [hdo] at this
    have h2 := List.nodup_cons.mp this
    exact List.nodup_cons.mpr ⟨fun hm => h2.1 (List.mem_filter.mp hm).1, h2.2.sublist List.filter_sublist⟩
  obtain ⟨hg', fr, hq⟩ := smoothAll_effect _ h h' hg hnd hs
  have hsub : ∀ q, q ∈ t :: ds.filter (fun d => (h.kind d).isTag) → q ∈ docOrder h t := by
    intro q hq'
    rw [hdo]
    rcases List.mem_cons.mp hq' with rfl | hq''
    · simp
    · exact List.mem_cons_of_mem _ (List.mem_filter.mp hq'').1
  have hid : ∀ q ∈ docOrder h t, ∃ n, h.next ≤ n ∧ idView h' q = (squashId n (idView h q)).1 := by
    intro q hqd
    by_cases hin : q ∈ t :: ds.filter (fun d => (h.kind d).isTag)
    · exact hq _ hin
    · have hnt : (h.kind q).isTag = false := by
        rw [hdo] at hqd
        rcases List.mem_cons.mp hqd with hqt | hq'
        · exact absurd (by rw [hqt]; simp) hin
        · cases hk : (h.kind q).isTag with
          | false => rfl
          | true => exact absurd (List.mem_cons_of_mem _ (List.mem_filter.mpr ⟨hq', by simpa using hk⟩)) hin
      have hk0 : h.kids q = [] := hwf.str_leaf q hnt
      have hk1 : h'.kids q = [] := by rw [fr.others q hin, hk0]
      refine ⟨h.next, Nat.le_refl _, ?_⟩
      simp [idView, hk0, hk1, squashId]
  refine ⟨hg', fr.mono hsub, hid, ?_⟩
  intro q hqd
  obtain ⟨n, _, e⟩ := hid q hqd
  rw [← idView_snd, e, squashId_snd, idView_snd]

end BS.Heap

namespace BS.Heap

/-! ## 6. `smooth()` never fails on a consistent forest -/

/-- the parent walk can only answer "yes" at the start or by arriving from a child -/
theorem isAnc_true_imp (h : Heap) (a : Nat) : ∀ (f x : Nat), isAnc h a f x = true → x = a ∨ ∃ c, h.parent c = some a := by
  intro f
  induction f with
  | zero => intro x hx; simp only [isAnc, decide_eq_true_eq] at hx; exact Or.inl hx
  | succ f ih =>
    intro x hx
    simp only [isAnc] at hx
    by_cases hxa : x = a
    · exact Or.inl hxa
    · simp only [hxa, if_false] at hx
      cases hp : h.parent x with
      | none => simp [hp] at hx
      | some q =>
        simp only [hp] at hx
        rcases ih q hx with rfl | hc
        · exact Or.inr ⟨x, hp⟩
        · exact Or.inr hc

/-- `_insert` of an allocated, parentless, childless element into another allocated object never fails -/
theorem insertCore_root_total {h : Heap} {p pos x : Nat} (hroot : h.parent x = none) (hxp : x ≠ p)
    (hnc : ∀ c, h.parent c ≠ some x) (hx : x < h.next) (hp : p < h.next) :
    ∃ h', insertCore h p pos x = .ok h' ∧ h'.kids p = (h.kids p).insertIdx (min pos (h.kids p).length) x := by
  obtain ⟨h', g, e, _, _, hl⟩ := linkChild_linked h p (min pos (h.kids p).length) x (Nat.min_le_right _ _)
  refine ⟨h', ?_, by rw [hl.kids p]; simp⟩
  have hanc : isAnc h x h.cap p = false := by
    cases hb : isAnc h x h.cap p with
    | false => rfl
    | true =>
      rcases isAnc_true_imp h x _ _ hb with e | ⟨c, hc⟩
      · exact absurd e.symm hxp
      · exact absurd hc (hnc c)
  have hguard : ¬ (isAnc h x h.cap p = true ∨ h.next ≤ x ∨ h.next ≤ p) := by
    rw [hanc]; simp; omega
  unfold insertCore
  rw [if_neg hxp, if_neg hguard]
  simp only [hroot]
  exact e

/-- `x.replace_with(y)` for an attached `x` and an allocated, parentless, childless `y` never fails -/
theorem replaceWith_root_total {h : Heap} {x y p : Nat} (hg : Good h) (hp : h.parent x = some p)
    (hy : h.kind y ≠ .soup) (hxy : y ≠ x) (hyr : h.parent y = none) (hyk : h.kids y = []) (hyn : y < h.next) :
    ∃ h', replaceWith h x [.node y] = .ok h' := by
  obtain ⟨w, hwf⟩ := hg
  have hxmem := hwf.parent_kid x p hp
  have hyp : y ≠ p := by intro e; subst e; rw [hyk] at hxmem; cases hxmem
  have hpn : p < h.next := by
    apply Classical.byContradiction
    intro hn
    have := (hwf.fresh p (by omega)).2.1
    rw [this] at hxmem; cases hxmem
  unfold replaceWith
  simp only [hp]
  have hne : ([Arg.node y] = [Arg.node x]) = False := by simp; exact hxy
  have hself : ([Arg.node y].any (isSelf p)) = false := by simp [isSelf, hyp]
  simp only [hne, if_false, hself, Bool.false_eq_true]
  cases hidx : indexOf h p x with
  | none =>
    unfold indexOf at hidx
    exact absurd hxmem (List.idxOf?_eq_none_iff.mp hidx)
  | some i =>
    simp only
    obtain ⟨h1, he, hwf1, hk1, hpar1, hkind1, hval1, hnext1, _⟩ := extract_spec h w x hwf
    simp only [he]
    have hy1 : h1.kind y ≠ .soup := by rw [hkind1]; exact hy
    have hroot1 : h1.parent y = none := by rw [hpar1]; simp [hyr]
    have hnc1 : ∀ c, h1.parent c ≠ some y := by
      intro c hc
      rw [hpar1 c] at hc
      split at hc
      · cases hc
      · have := hwf.parent_kid c y hc; rw [hyk] at this; cases this
    obtain ⟨h3, hc3, hk3⟩ := insertCore_root_total (pos := i) hroot1 hyp hnc1 (by rw [hnext1]; exact hyn)
      (by rw [hnext1]; exact hpn)
    have hmem3 : y ∈ h3.kids p := by
      rw [hk3, List.mem_insertIdx (Nat.min_le_right _ _)]; exact Or.inl rfl
    cases hidx3 : indexOf h3 p y with
    | none =>
      unfold indexOf at hidx3
      exact absurd hmem3 (List.idxOf?_eq_none_iff.mp hidx3)
    | some j =>
      refine ⟨h3, ?_⟩
      unfold insert
      simp only [insertArgs, insertArg1, hy1, if_false, insertElems, hc3, hidx3]

/-- one iteration of the merge loop at a valid mark never fails -/
theorem smoothMerge_step_total {h : Heap} {t i : Nat} (hg : Good2 h) (hok : StrPairAt (view h t) i) :
    ∃ a b h1 h3, (h.kids t)[i]? = some a ∧ (h.kids t)[i + 1]? = some b ∧ extract h b = .ok h1 ∧
      replaceWith (alloc h1 .str (h1.val a ++ h1.val b)).1 a
        [.node (alloc h1 .str (h1.val a ++ h1.val b)).2] = .ok h3 := by
  obtain ⟨va, vb, hva, hvb⟩ := hok
  obtain ⟨w, hwf⟩ := hg.1
  have hia : ∃ a, (h.kids t)[i]? = some a := by
    unfold view at hva; rw [List.getElem?_map] at hva
    cases hh : (h.kids t)[i]? with
    | none => rw [hh] at hva; cases hva
    | some a => exact ⟨a, rfl⟩
  have hib : ∃ b, (h.kids t)[i + 1]? = some b := by
    unfold view at hvb; rw [List.getElem?_map] at hvb
    cases hh : (h.kids t)[i + 1]? with
    | none => rw [hh] at hvb; cases hvb
    | some b => exact ⟨b, rfl⟩
  obtain ⟨a, hia⟩ := hia
  obtain ⟨b, hib⟩ := hib
  obtain ⟨pre, post, hk, _⟩ := split_two _ _ _ _ hia hib
  have hnd := good_kids_nodup hg.1 t
  rw [hk] at hnd
  have hab : a ≠ b := fun e => (List.nodup_cons.mp (List.nodup_append.mp hnd).2.1).1 (by simp [e])
  have hamem : a ∈ h.kids t := by rw [hk]; simp
  have hat := hwf.kid_parent t a hamem
  obtain ⟨h1, he, hwf1, hkids1, hpar1, hkind1, hval1, hnext1, _⟩ := extract_spec h w b hwf
  have hg1 : Good2 h1 := ⟨⟨_, hwf1⟩, fun n hn => by rw [hkind1]; exact hg.2 n (by omega)⟩
  generalize hv : h1.val a ++ h1.val b = v
  obtain ⟨hg2, _⟩ := alloc_good2 hg1 .str v (Or.inl rfl)
  obtain ⟨ha2, hap, hak, han, hakn, hako⟩ := alloc_fields h1 .str v
  have halt : a < h.next := good_kid_lt_next hg.1 hamem
  have hfr := hwf1.fresh h1.next (Nat.le_refl _)
  obtain ⟨h3, hr⟩ := replaceWith_root_total (x := a) (y := h1.next) (p := t) hg2.1
    (by rw [hap, hpar1 a]; simp [hab, hat]) (by rw [hakn]; decide) (by omega) (by rw [hap]; exact hfr.1)
    (by rw [hak]; exact hfr.2.1) (by rw [han]; omega)
  subst hv
  exact ⟨a, b, h1, h3, hia, hib, he, by rw [ha2]; exact hr⟩

theorem smoothMerge_total {t : Nat} : ∀ (ms : List Nat) (h : Heap), Good2 h → MarksOK (view h t) ms →
    ∃ h', smoothMerge h t ms = .ok h' := by
  intro ms
  induction ms with
  | nil => intro h _ _; exact ⟨h, rfl⟩
  | cons i is ih =>
    intro h hg hok
    obtain ⟨hpair, hok'⟩ := hok
    obtain ⟨a, b, h1, h3, hia, hib, he, hr⟩ := smoothMerge_step_total hg hpair
    obtain ⟨hg3, _, hview3, _⟩ := smoothMerge_step hg hpair hia hib he hr
    rw [← hview3] at hok'
    obtain ⟨h', hs⟩ := ih h3 hg3 hok'
    refine ⟨h', ?_⟩
    simp only [smoothMerge, hia, hib, he, hr]
    exact hs

theorem smoothChildren_total {h : Heap} (t : Nat) (hg : Good2 h) : ∃ h', smoothChildren h t = .ok h' := by
  unfold smoothChildren
  rw [smoothMarks_eq]
  exact smoothMerge_total _ h hg (marksOK_marks (view h t))

theorem smoothAll_total : ∀ (ts : List Nat) (h : Heap), Good2 h → ∃ h', smoothAll h ts = .ok h' := by
  intro ts
  induction ts with
  | nil => intro h _; exact ⟨h, rfl⟩
  | cons t ts ih =>
    intro h hg
    obtain ⟨h1, hc⟩ := smoothChildren_total t hg
    obtain ⟨_, hg1, _⟩ := smoothChildren_exact hg hc
    obtain ⟨h', hs⟩ := ih h1 hg1
    exact ⟨h', by simp only [smoothAll, hc]; exact hs⟩

/-- **on a consistent forest `smooth()` never fails** (none of the model's error outcomes — `IndexError`, `ValueError`,
    `AttributeError` on `None` — can occur) -/
theorem smooth_total {h : Heap} (t : Nat) (hg : Good2 h) : ∃ h', smooth h t = .ok h' := by
  obtain ⟨w, hwf⟩ := hg.1
  obtain ⟨ds, hd, _, _⟩ := descendants_docOrder hwf t
  obtain ⟨h', hs⟩ := smoothAll_total (t :: ds.filter (fun d => (h.kind d).isTag)) h hg
  exact ⟨h', by unfold smooth; simp only [hd]; exact hs⟩

end BS.Heap

namespace BS.Heap

/-- outside the smoothed tags every children list looks exactly as before (same objects, same classes, same texts) -/
theorem SmoothFrame.view_others {h h' : Heap} {S : Nat → Prop} (hg : Good h) (f : SmoothFrame h h' S) {q : Nat}
    (hq : ¬ S q) : idView h' q = idView h q ∧ view h' q = view h q :=
  ⟨idView_congr (f.others q hq) (fun k hk => f.old k (good_kid_lt_next hg hk)),
   view_congr (f.others q hq) (fun k hk => f.old k (good_kid_lt_next hg hk))⟩

end BS.Heap

namespace BS.Heap

/-! ## 7. a second `smooth()` finds nothing to do -/

theorem smoothAll_noop : ∀ (ts : List Nat) (h : Heap), (∀ q ∈ ts, NoAdjStr (view h q)) → smoothAll h ts = .ok h := by
  intro ts
  induction ts with
  | nil => intro h _; rfl
  | cons t ts ih =>
    intro h hn
    simp only [smoothAll, smoothChildren_noop (hn t (by simp))]
    exact ih h (fun q hq => hn q (by simp [hq]))

theorem inSub_refl {h : Heap} {w : Wit} (hwf : WF h w) (t : Nat) : w.inSub t t :=
  ⟨rfl, Nat.le_refl _, by have := hwf.size_pos t; omega⟩

/-- an existing object that lies beneath `t` after a smoothing pass lay beneath `t` before it: the pass detaches plain
    strings and attaches new ones, it moves no existing object to another parent -/
theorem smoothFrame_subtree_old {h h' : Heap} {w w' : Wit} {S : Nat → Prop} (hwf : WF h w) (hwf' : WF h' w')
    (fr : SmoothFrame h h' S) (t : Nat) :
    ∀ (n m : Nat), w'.pos m ≤ n → m < h.next → w'.inSub t m → w.inSub t m := by
  intro n
  induction n with
  | zero =>
    intro m hn hm hin
    by_cases hmt : m = t
    · rw [hmt]; exact inSub_refl hwf t
    · exfalso
      -- position 0: `m` is a root of `h'`, so it has no proper ancestor
      have hr : h'.parent m = none := by
        have := wf_pos_zero hwf' (a := m) (by omega)
        rw [this]; exact hwf'.tree_root m
      exact inSub_root hwf' hr t ⟨fun e => hmt e.symm, hin⟩
  | succ n ih =>
    intro m hn hm hin
    by_cases hmt : m = t
    · rw [hmt]; exact inSub_refl hwf t
    · cases hp' : h'.parent m with
      | none => exact absurd ⟨fun e => hmt e.symm, hin⟩ (inSub_root hwf' hp' t)
      | some p =>
        have hinp : w'.inSub t p := (inSub_parent hwf' hp' t).mp ⟨fun e => hmt e.symm, hin⟩
        have hp : h.parent m = some p := by
          rcases fr.parent m hm with a | ⟨_, _, _, _, hnone⟩
          · rw [← a]; exact hp'
          · rw [hnone] at hp'; cases hp'
        have hpold : p < h.next := by
          apply Classical.byContradiction
          intro hge
          have := (hwf.fresh p (by omega)).2.1
          have hk := hwf.parent_kid m p hp
          rw [this] at hk; cases hk
        have hpos := wf_parent_pos' hwf' hp'
        have := ih p (by omega) hpold hinp
        exact ((inSub_parent hwf hp t).mpr this).2

/-- **`smooth()` is idempotent**: calling it again on the result changes nothing at all — the heap is returned as it is -/
theorem smooth_idempotent {h h' : Heap} {t : Nat} (hg : Good2 h) (hs : smooth h t = .ok h') : smooth h' t = .ok h' := by
  obtain ⟨hg', fr, _, hv⟩ := smooth_effect hg hs
  obtain ⟨w, hwf⟩ := hg.1
  obtain ⟨w', hwf'⟩ := hg'.1
  obtain ⟨ds', hd', hdo', _⟩ := descendants_docOrder hwf' t
  unfold smooth
  simp only [hd']
  apply smoothAll_noop
  intro q hq
  have hself : t ∈ docOrder h t := by unfold docOrder; rw [pre_head]; simp
  have hin : q ∈ docOrder h t := by
    rcases List.mem_cons.mp hq with hqt | hq'
    · rw [hqt]; exact hself
    · obtain ⟨hqd, hqtag⟩ := List.mem_filter.mp hq'
      have hqtag : (h'.kind q).isTag = true := by simpa using hqtag
      have hqd' : q ∈ docOrder h' t := by rw [hdo']; exact List.mem_cons_of_mem _ hqd
      -- a tag of the result is an existing object
      have hold : q < h.next := by
        apply Classical.byContradiction
        intro hge
        have hstr : h'.kind q = .str := by
          by_cases hlt : q < h'.next
          · exact fr.newStr q (by omega) hlt
          · exact hg'.2 q (by omega)
        rw [hstr] at hqtag; cases hqtag
      have := smoothFrame_subtree_old hwf hwf' fr t (w'.pos q) q (Nat.le_refl _) hold
        ((docOrder_mem_inSub hwf' t q).mp hqd')
      exact (docOrder_mem_inSub hwf t q).mpr this
  rw [hv q hin]
  exact squash_noAdj _

end BS.Heap
