import BSModel.Model.Heap
/-! # The well-formedness invariant of the pointer heap (C01), as a nested-set witness

`WF h w`: the witness `w` assigns every node its tree (the id of its root), its pre-order position in that tree
and the size of its subtree, such that the children lists tile the parent's interval and *every* pointer field is
characterised arithmetically by positions. All tree relations (ancestor, subtree, last descendant, document-order
successor) are then linear arithmetic.

This file fixes the definitions and the *interface statements* of the two pillars (`ExtractSpec`,
`LinkChildSpec`); they are proved in `Proofs/HeapExtract.lean` and `Proofs/HeapLink.lean`, and composed into
`step_wf`/`history_wf` in `Proofs/HeapOps.lean`. -/
namespace BS.Heap

structure Wit where
  tree : Nat → Nat          -- id of the root of the node's tree
  pos : Nat → Nat           -- pre-order position inside that tree (root = 0)
  size : Nat → Nat          -- number of nodes of the node's subtree
  unl : Nat → Bool          -- a BeautifulSoup root that currently stands outside the element chain

/-- the children `ks` occupy consecutive intervals `[pos k, pos k + size k)` from `s` to `e` -/
def Tiles (pos size : Nat → Nat) : List Nat → Nat → Nat → Prop
  | [], s, e => s = e
  | k :: ks, s, e => pos k = s ∧ 1 ≤ size k ∧ Tiles pos size ks (s + size k) e

structure WF (h : Heap) (w : Wit) : Prop where
  size_pos : ∀ n, 1 ≤ w.size n
  size_cap : ∀ n, w.size n ≤ h.cap
  str_leaf : ∀ n, (h.kind n).isTag = false → h.kids n = []
  tiles : ∀ n, Tiles w.pos w.size (h.kids n) (w.pos n + 1) (w.pos n + w.size n)
  kid_parent : ∀ n k, k ∈ h.kids n → h.parent k = some n
  kid_tree : ∀ n k, k ∈ h.kids n → w.tree k = w.tree n
  parent_kid : ∀ c p, h.parent c = some p → c ∈ h.kids p
  root_tree : ∀ r, h.parent r = none → w.tree r = r ∧ w.pos r = 0
  tree_root : ∀ n, h.parent (w.tree n) = none
  bound : ∀ n, w.pos n + w.size n ≤ w.size (w.tree n)
  inj : ∀ a b, w.tree a = w.tree b → w.pos a = w.pos b → a = b
  laminar : ∀ a b, w.tree a = w.tree b → w.pos a ≤ w.pos b → w.pos b < w.pos a + w.size a →
      w.pos b + w.size b ≤ w.pos a + w.size a
  /-- `next_element` is the document-order successor (except out of an unlinked BeautifulSoup root) -/
  chain_ne : ∀ a b, h.ne a = some b ↔ (w.unl a = false ∧ w.tree a = w.tree b ∧ w.pos b = w.pos a + 1)
  chain_pe : ∀ a b, h.pe b = some a ↔ (w.unl a = false ∧ w.tree a = w.tree b ∧ w.pos b = w.pos a + 1)
  /-- sibling links are adjacency among the children of one parent -/
  sib_ns : ∀ a b, h.ns a = some b ↔ ((∃ p, h.parent a = some p ∧ h.parent b = some p) ∧ w.pos b = w.pos a + w.size a)
  sib_ps : ∀ a b, h.ps b = some a ↔ ((∃ p, h.parent a = some p ∧ h.parent b = some p) ∧ w.pos b = w.pos a + w.size a)
  unl_soup : ∀ r, w.unl r = true → h.kind r = .soup ∧ h.parent r = none
  soup_root : ∀ n, h.kind n = .soup → h.parent n = none
  fresh : ∀ n, h.next ≤ n → h.parent n = none ∧ h.kids n = [] ∧ w.unl n = false

/-- the heap describes one consistent forest -/
def Good (h : Heap) : Prop := ∃ w, WF h w

/-- `x` lies in the subtree of `a` (ancestor-or-self), arithmetically -/
def Wit.inSub (w : Wit) (a x : Nat) : Prop :=
  w.tree x = w.tree a ∧ w.pos a ≤ w.pos x ∧ w.pos x < w.pos a + w.size a

/-- witness after cutting the subtree of `x` out of its tree: the segment `[pos x, pos x + size x)` becomes the
    tree named `x`, later positions shift down, proper ancestors shrink -/
def cutWit (w : Wit) (x : Nat) : Wit where
  tree := fun m => if w.tree m = w.tree x ∧ w.pos x ≤ w.pos m ∧ w.pos m < w.pos x + w.size x then x else w.tree m
  pos := fun m =>
    if w.tree m = w.tree x then
      if w.pos m < w.pos x then w.pos m
      else if w.pos m < w.pos x + w.size x then w.pos m - w.pos x
      else w.pos m - w.size x
    else w.pos m
  size := fun m =>
    if w.tree m = w.tree x ∧ w.pos m < w.pos x ∧ w.pos x < w.pos m + w.size m then w.size m - w.size x
    else w.size m
  unl := w.unl

/-- witness after pasting the tree rooted at `x` under `p` as child number `i`
    (`P` = pre-order position the root `x` gets in `p`'s tree) -/
def pasteWit (w : Wit) (x p P : Nat) : Wit where
  tree := fun m => if w.tree m = x then w.tree p else w.tree m
  pos := fun m =>
    if w.tree m = x then P + w.pos m
    else if w.tree m = w.tree p ∧ P ≤ w.pos m then w.pos m + w.size x
    else w.pos m
  size := fun m =>
    if w.tree m = w.tree p ∧ w.pos m ≤ w.pos p ∧ w.pos p < w.pos m + w.size m then w.size m + w.size x
    else w.size m
  unl := fun m => w.unl m && !(P = 1 && m = p)

/-- pre-order position of slot `i` among children `ks` that start at `s` -/
def boundary (size : Nat → Nat) : List Nat → Nat → Nat → Nat
  | _, s, 0 => s
  | [], s, _ => s
  | k :: ks, s, i + 1 => boundary size ks (s + size k) i

/-- **Pillar 1** (`PageElement.extract`). On a well-formed heap `extract` never fails, yields a well-formed
    heap (cut witness), removes `x` from its parent's children and changes no other children list. -/
def ExtractSpec : Prop :=
  ∀ (h : Heap) (w : Wit) (x : Nat), WF h w →
    ∃ h', extract h x = .ok h' ∧ WF h' (cutWit w x) ∧
      (∀ n, h'.kids n = if h.parent x = some n then (h.kids n).erase x else h.kids n) ∧
      (∀ n, h'.parent n = if n = x then none else h.parent n) ∧
      h'.kind = h.kind ∧ h'.val = h.val ∧ h'.next = h.next ∧ h'.cap = h.cap

/-- **Pillar 2** (the linking part of `Tag._insert`). Linking a detached non-soup root `x` under a tag `p` that
    is not inside `x`'s tree, at a position `i ≤ len(contents)`, never fails, yields a well-formed heap (paste
    witness) whose children list of `p` has `x` at index `i`, and changes no other children list. -/
def LinkChildSpec : Prop :=
  ∀ (h : Heap) (w : Wit) (p i x : Nat), WF h w →
    h.parent x = none → h.kind x ≠ .soup → (h.kind p).isTag = true → w.tree p ≠ x → i ≤ (h.kids p).length →
    x < h.next → p < h.next →
    ∃ h', linkChild h p i x = .ok h' ∧
      WF h' (pasteWit w x p (boundary w.size (h.kids p) (w.pos p + 1) i)) ∧
      (∀ n, h'.kids n = if n = p then (h.kids p).insertIdx i x else h.kids n) ∧
      (∀ n, h'.parent n = if n = x then some p else h.parent n) ∧
      h'.kind = h.kind ∧ h'.val = h.val ∧ h'.next = h.next

end BS.Heap
