import BSModel.Proofs.Entities
/-! Helper lemmas for the `substitute_html5` part of C09: the two passes fused, round trip for strings whose bare
    ampersands cannot start a reference. Core Lean only. -/
namespace BS.Entities
open BS.Reader

/-- what the html5 round trip needs beyond `TblOK`: `&` is neither `\w` nor `\d`; no alternative contains `&` or starts
    with one of the code points of `&amp;`; the reader knows `amp`. -/
def Html5OK (T : Tbl) : Bool :=
  !inRanges T.word 38 && !inRanges T.digit 38 &&
    T.particles.all (fun p => !p.key.contains 38 && !amp.contains (p.key.headD 0)) &&
    T.toChar.get [97, 109, 112] == some [38]

/-- every ampersand is either escaped by the first pass (`(#\d+|#x[0-9a-fA-F]+|\w+);` follows) or followed by something
    that cannot start a reference for any parser: not an ASCII letter, not `#` -/
def noBareRefStart (T : Tbl) : PStr → Bool
  | [] => true
  | c :: cs =>
    (c != 38 || (entityLen T true cs).isSome ||
      (match cs with
       | [] => true
       | d :: _ => !isAlpha d && d != 35)) && noBareRefStart T cs

/-- the first pass as a plain left-to-right map: `&` ↦ `&amp;` exactly where an entity body follows -/
def escSpec (T : Tbl) : PStr → PStr
  | [] => []
  | c :: cs => if c = 38 ∧ (entityLen T true cs).isSome then amp ++ escSpec T cs else c :: escSpec T cs

theorem drop_spanLen (p : Nat → Bool) (l : PStr) : l.drop (spanLen p l) = l.dropWhile p := by
  unfold spanLen
  conv => lhs; arg 2; rw [← List.takeWhile_append_dropWhile (p := p) (l := l)]
  rw [List.drop_left]

theorem take_spanLen (p : Nat → Bool) (l : PStr) : l.take (spanLen p l) = l.takeWhile p := by
  unfold spanLen
  conv => lhs; arg 2; rw [← List.takeWhile_append_dropWhile (p := p) (l := l)]
  rw [List.take_left]

theorem mem_takeWhile_sat (p : Nat → Bool) (l : PStr) : ∀ x ∈ l.takeWhile p, p x = true := by
  induction l with
  | nil => simp
  | cons a t ih =>
    intro x hx
    simp only [List.takeWhile] at hx
    split at hx
    · simp only [List.mem_cons] at hx
      rcases hx with rfl | hx
      · assumption
      · exact ih x hx
    · simp at hx

theorem runSemi_spec {pre : Nat} {p : Nat → Bool} {l : PStr} {m : Nat} (h : runSemi pre p l = some m) :
    ∃ run rest, l = run ++ 59 :: rest ∧ (∀ x ∈ run, p x = true) ∧ m = pre + run.length + 1 := by
  unfold runSemi at h
  split at h
  · simp at h
  · split at h
    · rename_i rest hd
      simp only [Option.some.injEq] at h
      refine ⟨l.takeWhile p, rest, ?_, mem_takeWhile_sat p l, ?_⟩
      · rw [drop_spanLen] at hd
        rw [← hd, List.takeWhile_append_dropWhile]
      · rw [← h]; rfl
    · simp at h

theorem entityLen_no_amp {T : Tbl} (hw : inRanges T.word 38 = false) (hd : inRanges T.digit 38 = false)
    {ci : Bool} {l : PStr} {n : Nat} (h : entityLen T ci l = some n) : 38 ∉ l.take n := by
  have run_ok : ∀ (p : Nat → Bool) (run rest : PStr), p 38 = false → (∀ x ∈ run, p x = true) →
      38 ∉ (run ++ 59 :: rest).take (run.length + 1) := by
    intro p run rest hp hr hm
    have : (run ++ 59 :: rest).take (run.length + 1) = run ++ [59] := by
      have : run ++ 59 :: rest = (run ++ [59]) ++ rest := by simp
      rw [this]
      have hl : run.length + 1 = (run ++ [59]).length := by simp
      rw [hl, List.take_left]
    rw [this] at hm
    simp only [List.mem_append, List.mem_cons, List.mem_nil_iff, or_false] at hm
    rcases hm with hm | hm
    · have := hr 38 hm; simp [hp] at this
    · omega
  unfold entityLen at h
  split at h
  · rename_i r
    split at h
    · rename_i m hm
      simp only [Option.some.injEq] at h
      obtain ⟨run, rest, hl, hr, hmm⟩ := runSemi_spec hm
      subst hl; subst h; subst hmm
      have : 1 + run.length + 1 = (run.length + 1) + 1 := by omega
      rw [this, List.take_succ_cons]
      simp only [List.mem_cons, not_or]
      exact ⟨by omega, run_ok _ run rest hd hr⟩
    · split at h
      · rename_i x r'
        split at h
        · rename_i hx
          obtain ⟨run, rest, hl, hr, hmm⟩ := runSemi_spec h
          subst hl; subst hmm
          have : 2 + run.length + 1 = ((run.length + 1) + 1) + 1 := by omega
          rw [this, List.take_succ_cons, List.take_succ_cons]
          simp only [List.mem_cons, not_or]
          refine ⟨by omega, ?_, run_ok _ run rest (by decide) hr⟩
          simp only [Bool.or_eq_true, decide_eq_true_eq, Bool.and_eq_true] at hx
          omega
        · simp at h
      · simp at h
  · obtain ⟨run, rest, hl, hr, hmm⟩ := runSemi_spec h
    subst hl; subst hmm
    have : 0 + run.length + 1 = run.length + 1 := by omega
    rw [this]
    exact run_ok _ run rest hw hr

theorem escapeEntities_copy (T : Tbl) (k : Nat) (l : PStr) :
    escapeEntities T k l = l.take k ++ escapeEntities T 0 (l.drop k) := by
  induction l generalizing k with
  | nil => cases k <;> simp [escapeEntities]
  | cons c cs ih =>
    cases k with
    | zero => simp
    | succ k => simp only [escapeEntities, List.take_succ_cons, List.drop_succ_cons, List.cons_append]; rw [ih k]

theorem escSpec_append_noamp (T : Tbl) (a r : PStr) (h : 38 ∉ a) : escSpec T (a ++ r) = a ++ escSpec T r := by
  induction a with
  | nil => rfl
  | cons x xs ih =>
    simp only [List.mem_cons, not_or] at h
    have hx : ¬ x = 38 := fun e => h.1 e.symm
    simp only [List.cons_append, escSpec, hx, false_and, ↓reduceIte, ih h.2]

theorem escapeEntities_eq_spec {T : Tbl} (hw : inRanges T.word 38 = false) (hd : inRanges T.digit 38 = false) :
    ∀ s, escapeEntities T 0 s = escSpec T s := by
  intro s
  generalize hn : s.length = n
  induction n using Nat.strongRecOn generalizing s with
  | _ n ih =>
    cases s with
    | nil => simp [escapeEntities, escSpec]
    | cons c cs =>
      simp only [List.length_cons] at hn
      by_cases hc : c = 38
      · subst hc
        cases he : entityLen T true cs with
        | none =>
          simp only [escapeEntities, ↓reduceIte, he, escSpec, Option.isSome_none, Bool.false_eq_true, and_false]
          rw [ih cs.length (by omega) cs rfl]
        | some m =>
          simp only [escapeEntities, ↓reduceIte, he, escSpec, Option.isSome_some, and_self]
          rw [escapeEntities_copy, ih (cs.drop m).length (by simp; omega) _ rfl]
          have := escSpec_append_noamp T (cs.take m) (cs.drop m) (entityLen_no_amp hw hd he)
          rw [List.take_append_drop] at this
          rw [this]
      · simp only [escapeEntities, hc, ↓reduceIte, escSpec, false_and]
        rw [ih cs.length (by omega) cs rfl]

theorem escSpec_prefix (T : Tbl) : ∀ (k l : PStr), 38 ∉ k → k <+: escSpec T l →
    ∃ rest, l = k ++ rest ∧ escSpec T l = k ++ escSpec T rest := by
  intro k
  induction k with
  | nil => intro l _ _; exact ⟨l, rfl, rfl⟩
  | cons x xs ih =>
    intro l hk hp
    simp only [List.mem_cons, not_or] at hk
    cases l with
    | nil => simp [escSpec] at hp
    | cons y ys =>
      by_cases hy : y = 38
      · subst hy
        exfalso
        simp only [escSpec] at hp
        split at hp
        · simp only [amp, List.cons_append] at hp
          have := List.cons_prefix_cons.mp hp
          omega
        · have := List.cons_prefix_cons.mp hp
          omega
      · simp only [escSpec, hy, false_and, ↓reduceIte] at hp ⊢
        obtain ⟨hxy, hrest⟩ := List.cons_prefix_cons.mp hp
        obtain ⟨rest, h1, h2⟩ := ih ys hk.2 hrest
        exact ⟨rest, by rw [hxy, h1]; rfl, by rw [hxy, h2]; rfl⟩

theorem noBareRefStart_suffix (T : Tbl) (a r : PStr) (h : noBareRefStart T (a ++ r) = true) :
    noBareRefStart T r = true := by
  induction a with
  | nil => exact h
  | cons x xs ih =>
    simp only [List.cons_append, noBareRefStart, Bool.and_eq_true] at h
    exact ih h.2

theorem firstMatch_none_of_head {ps : List Particle} {c : Nat} (h : ∀ p ∈ ps, p.key.headD 0 ≠ c) (cs : PStr) :
    firstMatch ps (c :: cs) = none := by
  cases hm : firstMatch ps (c :: cs) with
  | none => rfl
  | some p =>
    obtain ⟨hp, hmat⟩ := firstMatch_some hm
    have := fstCp_of_matches hmat
    simp only [fstCp, List.headD_cons] at this
    exact absurd this (h p hp)


theorem html5OK_spec {T : Tbl} (h : Html5OK T = true) :
    inRanges T.word 38 = false ∧ inRanges T.digit 38 = false ∧
      (∀ p ∈ T.particles, 38 ∉ p.key ∧ p.key.headD 0 ∉ amp) ∧ T.toChar.get [97, 109, 112] = some [38] := by
  unfold Html5OK at h
  simp only [Bool.and_eq_true, Bool.not_eq_true', List.all_eq_true, beq_iff_eq] at h
  obtain ⟨⟨⟨h1, h2⟩, h3⟩, h4⟩ := h
  refine ⟨h1, h2, fun p hp => ?_, h4⟩
  have := h3 p hp
  simp only [List.contains_eq_mem, decide_eq_false_iff_not] at this
  exact this

theorem reSub_amp {ps : List Particle} (h : ∀ p ∈ ps, p.key.headD 0 ∉ amp) (rep : PStr → PStr) (Y : PStr) :
    reSub ps rep 0 (amp ++ Y) = amp ++ reSub ps rep 0 Y := by
  have hn : ∀ c ∈ amp, ∀ cs, firstMatch ps (c :: cs) = none :=
    fun c hc cs => firstMatch_none_of_head (fun p hp e => h p hp (e ▸ hc)) cs
  simp only [amp, List.cons_append, List.nil_append]
  rw [reSub_miss _ _ _ _ (hn 38 (by simp [amp]) _), reSub_miss _ _ _ _ (hn 97 (by simp [amp]) _),
    reSub_miss _ _ _ _ (hn 109 (by simp [amp]) _), reSub_miss _ _ _ _ (hn 112 (by simp [amp]) _),
    reSub_miss _ _ _ _ (hn 59 (by simp [amp]) _)]

/-- the output for a non-empty input starts with the input's first code point or with `&` -/
theorem html5_head {T : Tbl} (hR : RepOK T (htmlRep T) T.particles)
    (hk : ∀ p ∈ T.particles, 38 ∉ p.key ∧ p.key.headD 0 ∉ amp) (d : Nat) (ds : PStr) :
    ∃ y Y, reSub T.particles (htmlRep T) 0 (escSpec T (d :: ds)) = y :: Y ∧ (y = d ∨ y = 38) := by
  have h38 : ∀ cs, firstMatch T.particles (38 :: cs) = none :=
    fun cs => firstMatch_none_of_head (fun p hp e => (hk p hp).2 (e ▸ (by simp [amp]))) cs
  by_cases hd : d = 38
  · subst hd
    simp only [escSpec]
    split
    · rw [reSub_amp (fun p hp => (hk p hp).2)]
      exact ⟨38, _, rfl, Or.inr rfl⟩
    · rw [reSub_miss _ _ _ _ (h38 _)]
      exact ⟨38, _, rfl, Or.inl rfl⟩
  · simp only [escSpec, hd, false_and, ↓reduceIte]
    cases hm : firstMatch T.particles (d :: escSpec T ds) with
    | none => rw [reSub_miss _ _ _ _ hm]; exact ⟨d, _, rfl, Or.inl rfl⟩
    | some p =>
      obtain ⟨hp, _⟩ := firstMatch_some hm
      obtain ⟨n, hn, _⟩ := hR p hp
      simp only [reSub, hm, hn, ref, List.cons_append]
      exact ⟨38, _, rfl, Or.inr rfl⟩

theorem readText_bare_amp (T : Tbl) (late : Bool) (y : Nat) (Y : PStr) (h1 : isAlpha y = false) (h2 : y ≠ 35) :
    readText T late 0 (38 :: y :: Y) = 38 :: readText T late 0 (y :: Y) := by
  simp [readText, h1, h2]

/-- text round trip of `substitute_html5` for strings whose bare ampersands cannot start a reference -/
theorem html5_text_roundtrip_gen (T : Tbl) (late : Bool) (hR : RepOK T (htmlRep T) T.particles)
    (h5 : Html5OK T = true) :
    ∀ s, noBareRefStart T s = true → readText T late 0 (substHtml5Old T s) = s := by
  obtain ⟨hw, hd, hk, hamp⟩ := html5OK_spec h5
  have h38 : ∀ cs, firstMatch T.particles (38 :: cs) = none :=
    fun cs => firstMatch_none_of_head (fun p hp e => (hk p hp).2 (e ▸ (by simp [amp]))) cs
  intro s
  unfold substHtml5Old
  rw [escapeEntities_eq_spec hw hd]
  generalize hn : s.length = n
  induction n using Nat.strongRecOn generalizing s with
  | _ n ih =>
    intro hs
    cases s with
    | nil => simp [escSpec, reSub, readText]
    | cons c cs =>
      simp only [List.length_cons] at hn
      simp only [noBareRefStart, Bool.and_eq_true, Bool.or_eq_true, bne_iff_ne, ne_eq] at hs
      obtain ⟨hc, hcs⟩ := hs
      by_cases h : c = 38
      · subst h
        cases he : entityLen T true cs with
        | some m =>
          simp only [escSpec, he, Option.isSome_some, and_self, ↓reduceIte]
          rw [reSub_amp (fun p hp => (hk p hp).2)]
          have : amp = ref [97, 109, 112] := rfl
          rw [this, readText_ref T late _ _ (by decide), entityRef_of_entry hamp, ih cs.length (by omega) cs rfl hcs]
          rfl
        | none =>
          simp only [escSpec, he, Option.isSome_none, Bool.false_eq_true, and_false, ↓reduceIte]
          rw [reSub_miss _ _ _ _ (h38 _)]
          cases cs with
          | nil => simp [escSpec, reSub, readText]
          | cons d ds =>
            simp only [he, Option.isSome_none, Bool.false_eq_true, or_false, not_true_eq_false, false_or,
              Bool.and_eq_true, Bool.not_eq_true', bne_iff_ne, ne_eq] at hc
            obtain ⟨y, Y, hY, hy⟩ := html5_head hR hk d ds
            have hyalpha : isAlpha y = false := by
              rcases hy with rfl | rfl
              · exact hc.1
              · decide
            have hy35 : y ≠ 35 := by
              rcases hy with rfl | rfl
              · exact hc.2
              · decide
            have := ih (d :: ds).length (by omega) (d :: ds) rfl hcs
            rw [hY] at this ⊢
            rw [readText_bare_amp T late y Y hyalpha hy35, this]
      · simp only [escSpec, h, false_and, ↓reduceIte]
        cases hm : firstMatch T.particles (c :: escSpec T cs) with
        | none =>
          rw [reSub_miss _ _ _ _ hm, readText_plain T late c _ h, ih cs.length (by omega) cs rfl hcs]
        | some p =>
          obtain ⟨hp, hmat⟩ := firstMatch_some hm
          obtain ⟨nm, hnm, hname, _, hback, _⟩ := hR p hp
          have hpre : p.key <+: escSpec T (c :: cs) := by
            have := matchesAt_prefix hmat
            simpa only [escSpec, h, false_and, ↓reduceIte] using this
          obtain ⟨rest, hl, hesc⟩ := escSpec_prefix T p.key (c :: cs) (hk p hp).1 hpre
          have hkne : p.key ≠ [] := (matchesAt_split hmat).1
          have hesc' : c :: escSpec T cs = p.key ++ escSpec T rest := by
            simpa only [escSpec, h, false_and, ↓reduceIte] using hesc
          rw [hesc'] at hm ⊢
          have hlen : rest.length < n := by
            have h1 := congrArg List.length hl
            have h2 : p.key.length ≠ 0 := by simpa using hkne
            simp only [List.length_cons, List.length_append] at h1
            omega
          have hrest : noBareRefStart T rest = true := by
            have hall : noBareRefStart T (c :: cs) = true := by
              simp only [noBareRefStart, Bool.and_eq_true, Bool.or_eq_true, bne_iff_ne, ne_eq]
              exact ⟨hc, hcs⟩
            rw [hl] at hall
            exact noBareRefStart_suffix T _ _ hall
          rw [reSub_hit _ _ p _ hkne hm, hnm, readText_ref T late nm _ hname, entityRef_of_entry hback,
            ih rest.length hlen rest rfl hrest, ← hl]

end BS.Entities
