import BSModel.Proofs.Html5Fix
/-! Where exactly the repair of `substitute_html5` changes the output. Core Lean only. -/
namespace BS.Entities
open BS.Reader

/-- what the two first passes have in common: code points other than `&` are copied, an `&` stays in front -/
structure EscLike (F : PStr → PStr) : Prop where
  nil : F [] = []
  cons : ∀ x xs, x ≠ 38 → F (x :: xs) = x :: F xs
  amp : ∀ xs, ∃ Y, F (38 :: xs) = 38 :: Y

theorem escLike_spec (T : Tbl) : EscLike (escSpec T) where
  nil := rfl
  cons := by intro x xs hx; simp [escSpec, hx]
  amp := by
    intro xs
    simp only [escSpec]
    split
    · exact ⟨_, rfl⟩
    · exact ⟨_, rfl⟩

theorem escLike_fix (T : Tbl) : EscLike (escapeAmpersands T) where
  nil := rfl
  cons := by intro x xs hx; simp [escapeAmpersands, hx]
  amp := by
    intro xs
    simp only [escapeAmpersands]
    split
    · exact ⟨_, rfl⟩
    · exact ⟨_, rfl⟩

theorem escLike_prefix {F : PStr → PStr} (hF : EscLike F) :
    ∀ (k l : PStr), 38 ∉ k → (k.isPrefixOf (F l) = k.isPrefixOf l) ∧
      (k.isPrefixOf l = true → ((F l).drop k.length).head? = (l.drop k.length).head?) := by
  intro k
  induction k with
  | nil =>
    intro l _
    refine ⟨by simp, fun _ => ?_⟩
    cases l with
    | nil => simp [hF.nil]
    | cons x xs =>
      by_cases hx : x = 38
      · subst hx; obtain ⟨Y, hY⟩ := hF.amp xs; simp [hY]
      · simp [hF.cons x xs hx]
  | cons a k' ih =>
    intro l hk
    simp only [List.mem_cons, not_or] at hk
    cases l with
    | nil => simp [hF.nil, List.isPrefixOf]
    | cons x xs =>
      by_cases hx : x = 38
      · subst hx
        obtain ⟨Y, hY⟩ := hF.amp xs
        have : (a == 38) = false := by simp; exact fun e => hk.1 e.symm
        simp [hY, List.isPrefixOf, this]
      · rw [hF.cons x xs hx]
        obtain ⟨h1, h2⟩ := ih xs hk.2
        simp only [List.isPrefixOf, h1, List.length_cons, List.drop_succ_cons, Bool.and_eq_true, beq_iff_eq]
        exact ⟨trivial, fun h => h2 h.2⟩

theorem find?_congr' {α : Type} (f g : α → Bool) : ∀ (l : List α), (∀ x ∈ l, f x = g x) → l.find? f = l.find? g := by
  intro l
  induction l with
  | nil => intro _; rfl
  | cons a t ih =>
    intro h
    simp only [List.find?, h a (by simp)]
    rw [ih (fun x hx => h x (by simp [hx]))]

/-- an alternative without `&` in its key matches the escaped text where it matches the original -/
theorem escLike_matchesAt {F : PStr → PStr} (hF : EscLike F) (p : Particle) (h38 : 38 ∉ p.key) (l : PStr) :
    p.matchesAt (F l) = p.matchesAt l := by
  obtain ⟨h1, h2⟩ := escLike_prefix hF p.key l h38
  unfold Particle.matchesAt
  rw [h1]
  cases hp : p.key.isPrefixOf l with
  | false => simp
  | true =>
    have h2' := h2 hp
    generalize (F l).drop p.key.length = A at h2'
    generalize l.drop p.key.length = B at h2'
    cases A <;> cases B <;> simp_all

theorem escLike_firstMatch {F : PStr → PStr} (hF : EscLike F) {ps : List Particle} (hk : KeysOK ps) (l : PStr) :
    firstMatch ps (F l) = firstMatch ps l := by
  unfold firstMatch
  exact find?_congr' _ _ ps (fun p hp => escLike_matchesAt hF p (hk p hp).1 l)

theorem escLike_append {F : PStr → PStr} (hF : EscLike F) (a r : PStr) (h : 38 ∉ a) : F (a ++ r) = a ++ F r := by
  induction a with
  | nil => rfl
  | cons x xs ih =>
    simp only [List.mem_cons, not_or] at h
    simp only [List.cons_append]
    rw [hF.cons x _ (fun e => h.1 e.symm), ih h.2]

/-- the output starts with the input's first code point or with `&` -/
theorem escLike_head {T : Tbl} {F : PStr → PStr} (hF : EscLike F) {ps : List Particle} {rep : PStr → PStr}
    (hR : RepOK T rep ps) (hk : KeysOK ps) (d : Nat) (ds : PStr) :
    ∃ y Y, reSub ps rep 0 (F (d :: ds)) = y :: Y ∧ (y = d ∨ y = 38) := by
  have h38 : ∀ cs, firstMatch ps (38 :: cs) = none :=
    fun cs => firstMatch_none_of_head (fun p hp => (hk p hp).2.1) cs
  by_cases hd : d = 38
  · subst hd
    obtain ⟨Y, hY⟩ := hF.amp ds
    rw [hY, reSub_miss _ _ _ _ (h38 _)]
    exact ⟨38, _, rfl, Or.inl rfl⟩
  · rw [hF.cons d ds hd]
    cases hm : firstMatch ps (d :: F ds) with
    | none => rw [reSub_miss _ _ _ _ hm]; exact ⟨d, _, rfl, Or.inl rfl⟩
    | some p =>
      obtain ⟨hp, _⟩ := firstMatch_some hm
      obtain ⟨n, hn, _⟩ := hR p hp
      simp only [reSub, hm, hn, ref, List.cons_append]
      exact ⟨38, _, rfl, Or.inr rfl⟩

/-- whatever of the output does not contain `&` was copied from the input -/
theorem escLike_copied_prefix {T : Tbl} {F : PStr → PStr} (hF : EscLike F) {ps : List Particle} {rep : PStr → PStr}
    (hR : RepOK T rep ps) (hk : KeysOK ps) :
    ∀ (q cs : PStr), 38 ∉ q → q <+: reSub ps rep 0 (F cs) → q <+: cs := by
  intro q
  induction q with
  | nil => intro cs _ _; exact List.nil_prefix
  | cons x q' ih =>
    intro cs hq hp
    simp only [List.mem_cons, not_or] at hq
    cases cs with
    | nil => simp [hF.nil, reSub] at hp
    | cons d ds =>
      by_cases hd : d = 38
      · exfalso
        obtain ⟨y, Y, hY, hy⟩ := escLike_head hF hR hk d ds
        rw [hY] at hp
        have := (List.cons_prefix_cons.mp hp).1
        rcases hy with rfl | rfl <;> omega
      · rw [hF.cons d ds hd] at hp
        cases hm : firstMatch ps (d :: F ds) with
        | none =>
          rw [reSub_miss _ _ _ _ hm] at hp
          obtain ⟨h1, h2⟩ := List.cons_prefix_cons.mp hp
          rw [h1]
          exact List.cons_prefix_cons.mpr ⟨rfl, ih ds hq.2 h2⟩
        | some p =>
          exfalso
          obtain ⟨hp', _⟩ := firstMatch_some hm
          obtain ⟨n, hn, _⟩ := hR p hp'
          simp only [reSub, hm, hn, ref, List.cons_append] at hp
          have := (List.cons_prefix_cons.mp hp).1
          omega

theorem ampsAgree_append_noamp (T : Tbl) (a r : PStr) (h : 38 ∉ a) : ampsAgree T (a ++ r) = ampsAgree T r := by
  induction a with
  | nil => rfl
  | cons x xs ih =>
    simp only [List.mem_cons, not_or] at h
    have : (x != 38) = true := by simp; exact fun e => h.1 e.symm
    simp only [List.cons_append, ampsAgree, this, Bool.true_or, Bool.true_and, ih h.2]

/-- `amp;` in front: the old first pass would have escaped -/
theorem entityLen_of_amp_prefix {T : Tbl} (hw : ∀ x ∈ [97, 109, 112], inRanges T.word x = true)
    (h59 : inRanges T.word 59 = false) (cs : PStr) (h : [97, 109, 112, 59] <+: cs) :
    (entityLen T true cs).isSome = true := by
  obtain ⟨r, rfl⟩ := h
  have hspan : spanLen (inRanges T.word) ([97, 109, 112] ++ 59 :: r) = 3 :=
    spanLen_append_stop _ [97, 109, 112] 59 r hw h59
  have : ([97, 109, 112, 59] ++ r : PStr) = [97, 109, 112] ++ 59 :: r := rfl
  rw [this]
  simp only [entityLen, List.cons_append, List.nil_append]
  simp only [List.cons_append, List.nil_append] at hspan
  simp [runSemi, hspan]

/-- table facts for the converse -/
def AgreeOK (T : Tbl) : Bool :=
  [97, 109, 112].all (inRanges T.word) && !inRanges T.word 59

/-- the two functions compute the same output **only** where they take the same decision at every ampersand -/
theorem agree_of_old_eq_fixed {T : Tbl} (hR : RepOK T (htmlRep T) T.particles) (hk : KeysOK T.particles)
    (ha : AgreeOK T = true) :
    ∀ s, reSub T.particles (htmlRep T) 0 (escSpec T s) = reSub T.particles (htmlRep T) 0 (escapeAmpersands T s) →
      ampsAgree T s = true := by
  have hS := escLike_spec T
  have hE := escLike_fix T
  have h38 : ∀ cs, firstMatch T.particles (38 :: cs) = none :=
    fun cs => firstMatch_none_of_head (fun p hp => (hk p hp).2.1) cs
  unfold AgreeOK at ha
  simp only [Bool.and_eq_true, List.all_eq_true, Bool.not_eq_true'] at ha
  intro s
  generalize hn : s.length = n
  induction n using Nat.strongRecOn generalizing s with
  | _ n ih =>
    intro heq
    cases s with
    | nil => rfl
    | cons c cs =>
      simp only [List.length_cons] at hn
      by_cases hc : c = 38
      · subst hc
        simp only [ampsAgree, bne_self_eq_false, Bool.false_or, Bool.and_eq_true, beq_iff_eq]
        cases hold : (entityLen T true cs).isSome <;> cases hnew : ampNeedsEscape T cs
        · -- neither escapes
          refine ⟨rfl, ih cs.length (by omega) cs rfl ?_⟩
          simp only [escSpec, hold, Bool.false_eq_true, and_false, ↓reduceIte, escapeAmpersands, hnew, Bool.and_false] at heq
          rw [reSub_miss _ _ _ _ (h38 _), reSub_miss _ _ _ _ (h38 _)] at heq
          exact (List.cons.inj heq).2
        · -- only the repaired one escapes: then the old output would start with `amp;`
          exfalso
          simp only [escSpec, hold, Bool.false_eq_true, and_false, ↓reduceIte, escapeAmpersands, hnew, decide_true,
            Bool.and_self] at heq
          rw [reSub_miss _ _ _ _ (h38 _), reSub_copy _ amp _ (keysOK_amp hk)] at heq
          simp only [amp, List.cons_append, List.nil_append, List.cons.injEq, true_and] at heq
          have hpre : [97, 109, 112, 59] <+: reSub T.particles (htmlRep T) 0 (escSpec T cs) := by
            rw [heq]; exact ⟨_, rfl⟩
          have := escLike_copied_prefix hS hR hk _ cs (by decide) hpre
          have := entityLen_of_amp_prefix ha.1 ha.2 cs this
          rw [hold] at this; simp at this
        · -- the old one escapes and the repaired one does not: impossible
          exfalso
          have : ampNeedsEscape T cs = true := by
            unfold ampNeedsEscape
            cases cs with
            | nil => simp [entityLen, runSemi, spanLen] at hold
            | cons d ds => simp [ampNeedsEscapeMid, hold]
          rw [hnew] at this; simp at this
        · -- both escape
          refine ⟨rfl, ih cs.length (by omega) cs rfl ?_⟩
          simp only [escSpec, hold, and_self, ↓reduceIte, escapeAmpersands, hnew, decide_true, Bool.and_self] at heq
          rw [reSub_copy _ amp _ (keysOK_amp hk), reSub_copy _ amp _ (keysOK_amp hk)] at heq
          exact List.append_cancel_left heq
      · have hcb : (c != 38) = true := by simp [hc]
        simp only [ampsAgree, hcb, Bool.true_or, Bool.true_and]
        have e1 : escSpec T (c :: cs) = c :: escSpec T cs := hS.cons c cs hc
        have e2 : escapeAmpersands T (c :: cs) = c :: escapeAmpersands T cs := hE.cons c cs hc
        have hfm1 := escLike_firstMatch hS hk (c :: cs)
        have hfm2 := escLike_firstMatch hE hk (c :: cs)
        rw [e1] at hfm1 heq
        rw [e2] at hfm2 heq
        cases hm : firstMatch T.particles (c :: cs) with
        | none =>
          rw [hm] at hfm1 hfm2
          rw [reSub_miss _ _ _ _ hfm1, reSub_miss _ _ _ _ hfm2] at heq
          exact ih cs.length (by omega) cs rfl (List.cons.inj heq).2
        | some p =>
          rw [hm] at hfm1 hfm2
          obtain ⟨hp, hmat⟩ := firstMatch_some hm
          obtain ⟨hkne, hsplit⟩ := matchesAt_split hmat
          generalize hrest : (c :: cs).drop p.key.length = rest at hsplit
          have hno := (hk p hp).1
          have e1' : c :: escSpec T cs = p.key ++ escSpec T rest := by
            rw [← e1, hsplit, escLike_append hS _ _ hno]
          have e2' : c :: escapeAmpersands T cs = p.key ++ escapeAmpersands T rest := by
            rw [← e2, hsplit, escLike_append hE _ _ hno]
          rw [e1'] at hfm1 heq
          rw [e2'] at hfm2 heq
          rw [reSub_hit _ _ p _ hkne hfm1, reSub_hit _ _ p _ hkne hfm2] at heq
          have hlen : rest.length < n := by
            have h1 := congrArg List.length hsplit
            have h2 : p.key.length ≠ 0 := by simpa using hkne
            simp only [List.length_cons, List.length_append] at h1
            omega
          have := ih rest.length hlen rest rfl (List.append_cancel_left heq)
          have hag : ampsAgree T (c :: cs) = ampsAgree T rest := by
            rw [hsplit, ampsAgree_append_noamp T _ _ hno]
          simp only [ampsAgree, hcb, Bool.true_or, Bool.true_and] at hag
          rw [hag]; exact this

end BS.Entities
