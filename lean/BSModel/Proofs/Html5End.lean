import BSModel.Proofs.Html5Fix
/-! The three substitutions against the reader for text that is the LAST THING OF THE DOCUMENT (`Reader.readTextEnd`: no tag
    after the text, html.parser's end-of-input behaviour). Core Lean only. -/
namespace BS.Entities
open BS.Reader

theorem readTextEnd_skip (T : Tbl) (late : Bool) (k : Nat) (l : PStr) :
    readTextEnd T late k l = readTextEnd T late 0 (l.drop k) := by
  induction l generalizing k with
  | nil => cases k <;> simp [readTextEnd]
  | cons c cs ih =>
    cases k with
    | zero => simp
    | succ k => simp only [readTextEnd, List.drop_succ_cons]; exact ih k

theorem readTextEnd_plain (T : Tbl) (late : Bool) (c : Nat) (cs : PStr) (h : c ≠ 38) :
    readTextEnd T late 0 (c :: cs) = c :: readTextEnd T late 0 cs := by
  simp [readTextEnd, h]

theorem readTextEnd_noamp (T : Tbl) (late : Bool) (l : PStr) (h : 38 ∉ l) : readTextEnd T late 0 l = l := by
  induction l with
  | nil => simp [readTextEnd]
  | cons x xs ih =>
    simp only [List.mem_cons, not_or] at h
    rw [readTextEnd_plain T late x xs (fun e => h.1 e.symm), ih h.2]

theorem readTextEnd_bare_amp (T : Tbl) (late : Bool) (y : Nat) (Y : PStr) (h1 : isAlpha y = false) (h2 : y ≠ 35) :
    readTextEnd T late 0 (38 :: y :: Y) = 38 :: readTextEnd T late 0 (y :: Y) := by
  simp [readTextEnd, h1, h2]

/-- a name run followed by some code point `y`: the reference token ends there (and takes `y` along when it is `;`) -/
theorem readTextEnd_run (T : Tbl) (late : Bool) (a : Nat) (t : PStr) (y : Nat) (Y : PStr) (ha : isAlpha a = true)
    (hall : ∀ x ∈ a :: t, isNameChar x = true) (hy : isNameChar y = false) :
    readTextEnd T late 0 (38 :: (a :: t) ++ y :: Y) =
      entityRef T (a :: t) ++ readTextEnd T late 0 (if y = 59 then Y else y :: Y) := by
  have ha35 : a ≠ 35 := by
    simp only [isAlpha, Bool.or_eq_true, Bool.and_eq_true, decide_eq_true_eq] at ha; omega
  have hspan : spanLen isNameChar ((a :: t) ++ y :: Y) = (a :: t).length :=
    spanLen_append_stop _ _ y Y hall hy
  simp only [List.cons_append] at hspan ⊢
  have h1 : List.drop (a :: t).length (a :: (t ++ y :: Y)) = y :: Y := by
    rw [← List.cons_append, List.drop_left]
  have h2 : List.take (a :: t).length (a :: (t ++ y :: Y)) = a :: t := by
    rw [← List.cons_append, List.take_left]
  simp only [readTextEnd, ne_eq, not_true_eq_false, ↓reduceIte, ha35, ha, hspan, h1, h2]
  rw [readTextEnd_skip]
  by_cases hy59 : y = 59
  · simp only [hy59, ↓reduceIte]
    have h3 : List.drop ((a :: t).length + 1) (a :: (t ++ 59 :: Y)) = Y := by
      rw [← List.cons_append, ← List.drop_drop, List.drop_left]; rfl
    rw [h3]
  · simp only [hy59, ↓reduceIte, Nat.add_zero]
    rw [h1]

theorem readTextEnd_ref (T : Tbl) (late : Bool) (name rest : PStr) (h : isName name = true) :
    readTextEnd T late 0 (ref name ++ rest) = entityRef T name ++ readTextEnd T late 0 rest := by
  have hal := isName_alnum h
  cases name with
  | nil => simp [isName] at h
  | cons a t =>
    have ha : isAlpha a = true := by simp only [isName, Bool.and_eq_true] at h; exact h.1
    have hcs : ref (a :: t) ++ rest = 38 :: (a :: t) ++ 59 :: rest := by simp [ref]
    rw [hcs, readTextEnd_run T late a t 59 rest ha (fun x hx => isAlnum_nameChar (hal x hx)) (by decide)]
    simp

theorem readTextEnd_unknown_ref (T : Tbl) (late : Bool) (a : Nat) (t : PStr) (y : Nat) (Y : PStr)
    (ha : isAlpha a = true) (hall : ∀ x ∈ a :: t, isNameChar x = true) (hy : isNameChar y = false) (hy59 : y ≠ 59)
    (hunk : T.toChar.get (a :: t) = none) :
    readTextEnd T late 0 (38 :: (a :: t) ++ y :: Y) = 38 :: (a :: t) ++ readTextEnd T late 0 (y :: Y) := by
  rw [readTextEnd_run T late a t y Y ha hall hy]
  simp [entityRef, hunk, hy59]

/-- a name run that reaches the end of the document and is not one of the dangerous shapes: read as it stands -/
theorem readTextEnd_unknown_end (T : Tbl) (late : Bool) (a : Nat) (t : PStr) (ha : isAlpha a = true)
    (hall : ∀ x ∈ a :: t, isNameChar x = true) (_hunk : T.toChar.get (a :: t) = none)
    (heof : eofDanger T (a :: t) = false) :
    readTextEnd T late 0 (38 :: a :: t) = 38 :: a :: t := by
  have ha35 : a ≠ 35 := by
    simp only [isAlpha, Bool.or_eq_true, Bool.and_eq_true, decide_eq_true_eq] at ha; omega
  have hspan : spanLen isNameChar (a :: t) = (a :: t).length := spanLen_all _ _ hall
  have hdrop : List.drop (a :: t).length (a :: t) = [] := List.drop_length
  have h38 : 38 ∉ a :: t := fun hm => by have := hall 38 hm; revert this; decide
  simp only [eofDanger, ha, hspan, hdrop, List.isEmpty_nil, Bool.and_self, Bool.true_and] at heof
  simp only [readTextEnd, ne_eq, not_true_eq_false, ↓reduceIte, ha35, ha, hspan, hdrop]
  cases hq : lastDashDot (a :: t) with
  | none =>
    rw [hq] at heof
    simp only at heof ⊢
    simp [heof]
  | some q =>
    rw [hq] at heof
    simp only [Option.isSome_eq_false_iff, Option.isNone_iff_eq_none] at heof
    simp only [entityRef, heof]
    rw [readTextEnd_skip, readTextEnd_noamp T late _ (fun hm => h38 (List.mem_of_mem_drop hm))]
    simp

/-- text round trip of a table-driven substitution that always catches `&`, for text at the end of the document -/
theorem html_text_roundtrip_end_gen (T : Tbl) (late : Bool) (ps : List Particle) (rep : PStr → PStr)
    (hR : RepOK T rep ps) (h38 : coversChar ps 38 = true) :
    ∀ l, readTextEnd T late 0 (reSub ps rep 0 l) = l := by
  refine reSub_induction ps (motive := fun l => readTextEnd T late 0 (reSub ps rep 0 l) = l) ?_ ?_ ?_
  · simp [reSub, readTextEnd]
  · intro p rest hp hk _ hfm ih
    obtain ⟨n, hn, hname, _, hback, _⟩ := hR p hp
    rw [reSub_hit ps _ p rest hk hfm, hn, readTextEnd_ref T late n _ hname, entityRef_of_entry hback, ih]
  · intro c cs hfm ih
    have hc : c ≠ 38 := by
      intro h; subst h; exact coversChar_spec h38 cs hfm
    rw [reSub_miss ps _ c cs hfm, readTextEnd_plain T late c _ hc, ih]

/-- text round trip of the repaired `substitute_html5` for text that is the last thing of the document -/
theorem fix_text_roundtrip_end_gen (T : Tbl) (late : Bool) (ps : List Particle) (rep : PStr → PStr)
    (hR : RepOK T rep ps) (hk : KeysOK ps) (hamp : T.toChar.get [97, 109, 112] = some [38]) :
    ∀ s, readTextEnd T late 0 (reSub ps rep 0 (escapeAmpersands T s)) = s := by
  have h38 : ∀ cs, firstMatch ps (38 :: cs) = none :=
    fun cs => firstMatch_none_of_head (fun p hp => (hk p hp).2.1) cs
  intro s
  generalize hn : s.length = n
  induction n using Nat.strongRecOn generalizing s with
  | _ n ih =>
    cases s with
    | nil => simp [escapeAmpersands, reSub, readTextEnd]
    | cons c cs =>
      simp only [List.length_cons] at hn
      by_cases h : c = 38
      · subst h
        cases hne : ampNeedsEscape T cs with
        | true =>
          simp only [escapeAmpersands, hne, decide_true, Bool.and_self, ↓reduceIte]
          rw [reSub_copy rep amp _ (keysOK_amp hk)]
          have : amp = ref [97, 109, 112] := rfl
          rw [this, readTextEnd_ref T late _ _ (by decide), entityRef_of_entry hamp, ih cs.length (by omega) cs rfl]
          rfl
        | false =>
          simp only [escapeAmpersands, hne, Bool.and_false, Bool.false_eq_true, ↓reduceIte]
          rw [reSub_miss _ _ _ _ (h38 _)]
          cases cs with
          | nil => simp [escapeAmpersands, reSub, readTextEnd]
          | cons d ds =>
            obtain ⟨hd35, _, hcase⟩ := ampNeedsEscape_false hne
            rcases hcase with halpha | ⟨hsemi, hunk, _⟩
            · obtain ⟨y, Y, hY, hy⟩ := fix_head hR hk d ds
              have hyalpha : isAlpha y = false := by
                rcases hy with rfl | rfl
                · exact halpha
                · decide
              have hy35 : y ≠ 35 := by
                rcases hy with rfl | rfl
                · exact hd35
                · decide
              have := ih (d :: ds).length (by omega) (d :: ds) rfl
              rw [hY] at this ⊢
              rw [readTextEnd_bare_amp T late y Y hyalpha hy35, this]
            · by_cases halpha : isAlpha d = true
              · -- `&name` with an unknown name that is not followed by `;`
                have hsplit := List.takeWhile_append_dropWhile (p := isNameChar) (l := d :: ds)
                have htake : (d :: ds).take (spanLen isNameChar (d :: ds)) = (d :: ds).takeWhile isNameChar :=
                  take_spanLen _ _
                have hdrop : (d :: ds).drop (spanLen isNameChar (d :: ds)) = (d :: ds).dropWhile isNameChar :=
                  drop_spanLen _ _
                have hdname : isNameChar d = true := by simp [isNameChar, isAlnum, halpha]
                obtain ⟨t, ht⟩ : ∃ t, (d :: ds).takeWhile isNameChar = d :: t := by
                  simp [List.takeWhile, hdname]
                have hNall : ∀ x ∈ d :: t, isNameChar x = true := by
                  intro x hx; rw [← ht] at hx; exact mem_takeWhile_sat _ _ x hx
                have hN38 : 38 ∉ d :: t := by
                  intro hm; have := hNall 38 hm; revert this; decide
                generalize hR' : (d :: ds).dropWhile isNameChar = R at hsplit hdrop
                rw [ht] at hsplit
                rw [htake, ht] at hunk
                rw [hdrop] at hsemi
                have hRlen : R.length < n := by
                  have := congrArg List.length hsplit
                  have hn' := hn
                  simp only [List.length_append, List.length_cons] at this hn'
                  omega
                rw [← hsplit, esc_append_noamp T _ _ hN38,
                  reSub_copy rep (d :: t) _ (fun x hx p hp e => by
                    have := (hk p hp).2.2.2; rw [e, hNall x hx] at this; exact absurd this (by simp))]
                have hYhead : ∀ y Y', reSub ps rep 0 (escapeAmpersands T R) = y :: Y' →
                    isNameChar y = false ∧ y ≠ 59 := by
                  intro y Y' hy
                  cases R with
                  | nil => simp [escapeAmpersands, reSub] at hy
                  | cons r rs =>
                    obtain ⟨y0, Y0, hY0, hy0⟩ := fix_head hR hk r rs
                    rw [hY0] at hy
                    simp only [List.cons.injEq] at hy
                    have hr1 : isNameChar r = false := dropWhile_head_not _ _ r rs hR'
                    have hr2 : r ≠ 59 := fun e => hsemi rs (by rw [e])
                    rcases hy0 with rfl | rfl
                    · rw [← hy.1]; exact ⟨hr1, hr2⟩
                    · rw [← hy.1]; exact ⟨by decide, by decide⟩
                cases hRe : R with
                | nil =>
                  -- the name runs to the end of the document
                  have hcs : d :: ds = d :: t := by rw [← hsplit, hRe, List.append_nil]
                  have heof : eofDanger T (d :: t) = false := by
                    have := hne; unfold ampNeedsEscape at this
                    rw [Bool.or_eq_false_iff] at this
                    rw [← hcs]; exact this.2
                  simp only [escapeAmpersands, reSub, List.append_nil]
                  exact readTextEnd_unknown_end T late d t halpha hNall hunk heof
                | cons r0 rs0 =>
                  have hYne : ∃ y Y', reSub ps rep 0 (escapeAmpersands T R) = y :: Y' := by
                    rw [hRe]
                    obtain ⟨y0, Y0, hY0, _⟩ := fix_head hR hk r0 rs0
                    exact ⟨y0, Y0, hY0⟩
                  obtain ⟨y, Y', hYeq⟩ := hYne
                  have hread := readTextEnd_unknown_ref T late d t y Y' halpha hNall (hYhead y Y' hYeq).1
                    (hYhead y Y' hYeq).2 hunk
                  rw [← hRe, hYeq]
                  simp only [List.cons_append] at hread ⊢
                  rw [hread, ← hYeq, ih R.length hRlen R rfl]
              · have halpha' : isAlpha d = false := by simpa using halpha
                obtain ⟨y, Y, hY, hy⟩ := fix_head hR hk d ds
                have hyalpha : isAlpha y = false := by
                  rcases hy with rfl | rfl
                  · exact halpha'
                  · decide
                have hy35 : y ≠ 35 := by
                  rcases hy with rfl | rfl
                  · exact hd35
                  · decide
                have := ih (d :: ds).length (by omega) (d :: ds) rfl
                rw [hY] at this ⊢
                rw [readTextEnd_bare_amp T late y Y hyalpha hy35, this]
      · have hc : (c == 38) = false := by simpa using h
        simp only [escapeAmpersands, h, decide_false, Bool.false_and, Bool.false_eq_true, ↓reduceIte]
        cases hm : firstMatch ps (c :: escapeAmpersands T cs) with
        | none =>
          rw [reSub_miss _ _ _ _ hm, readTextEnd_plain T late c _ h, ih cs.length (by omega) cs rfl]
        | some p =>
          obtain ⟨hp, hmat⟩ := firstMatch_some hm
          obtain ⟨nm, hnm, hname, _, hback, _⟩ := hR p hp
          have hpre : p.key <+: escapeAmpersands T (c :: cs) := by
            have := matchesAt_prefix hmat
            simpa only [escapeAmpersands, h, decide_false, Bool.false_and, Bool.false_eq_true, ↓reduceIte] using this
          obtain ⟨rest, hl, hesc⟩ := esc_prefix T p.key (c :: cs) (hk p hp).1 hpre
          have hkne : p.key ≠ [] := (matchesAt_split hmat).1
          have hesc' : c :: escapeAmpersands T cs = p.key ++ escapeAmpersands T rest := by
            simpa only [escapeAmpersands, h, decide_false, Bool.false_and, Bool.false_eq_true, ↓reduceIte] using hesc
          rw [hesc'] at hm ⊢
          have hlen : rest.length < n := by
            have h1 := congrArg List.length hl
            have h2 : p.key.length ≠ 0 := by simpa using hkne
            simp only [List.length_cons, List.length_append] at h1
            omega
          rw [reSub_hit _ _ p _ hkne hm, hnm, readTextEnd_ref T late nm _ hname, entityRef_of_entry hback,
            ih rest.length hlen rest rfl, ← hl]


end BS.Entities
