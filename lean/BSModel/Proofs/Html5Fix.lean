import BSModel.Proofs.Entities
import BSModel.Proofs.Html5
/-! Helper lemmas for the repaired `substitute_html5` (fixes/C09-html5-ampersand.diff): the first pass escapes every `&` a
    parser would interpret; text and attribute round trips for ALL strings. Core Lean only. -/
namespace BS.Entities
open BS.Reader

/-- conditions on an alternation under which the first pass and the table pass do not interfere: no key contains `&`,
    no key starts with `&`, `;` or a code point that can occur in an entity name (`[-.a-zA-Z0-9]`) -/
def KeysOK (ps : List Particle) : Prop :=
  ∀ p ∈ ps, 38 ∉ p.key ∧ p.key.headD 0 ≠ 38 ∧ p.key.headD 0 ≠ 59 ∧ isNameChar (p.key.headD 0) = false

def keysOK (ps : List Particle) : Bool :=
  ps.all fun p => !p.key.contains 38 && p.key.headD 0 != 38 && p.key.headD 0 != 59 && !isNameChar (p.key.headD 0)

theorem keysOK_spec {ps : List Particle} (h : keysOK ps = true) : KeysOK ps := by
  unfold keysOK at h
  simp only [List.all_eq_true, Bool.and_eq_true, Bool.not_eq_true', bne_iff_ne, ne_eq] at h
  intro p hp
  obtain ⟨⟨⟨h1, h2⟩, h3⟩, h4⟩ := h p hp
  refine ⟨?_, h2, h3, h4⟩
  simpa using h1

theorem esc_append_noamp (T : Tbl) (a r : PStr) (h : 38 ∉ a) :
    escapeAmpersands T (a ++ r) = a ++ escapeAmpersands T r := by
  induction a with
  | nil => rfl
  | cons x xs ih =>
    simp only [List.mem_cons, not_or] at h
    have hx : (x == 38) = false := by simp; exact fun e => h.1 e.symm
    have hx' : ¬ x = 38 := fun e => h.1 e.symm
    simp only [List.cons_append, escapeAmpersands, hx', decide_false, Bool.false_and, Bool.false_eq_true, ↓reduceIte,
      ih h.2]

theorem esc_prefix (T : Tbl) : ∀ (k l : PStr), 38 ∉ k → k <+: escapeAmpersands T l →
    ∃ rest, l = k ++ rest ∧ escapeAmpersands T l = k ++ escapeAmpersands T rest := by
  intro k
  induction k with
  | nil => intro l _ _; exact ⟨l, rfl, rfl⟩
  | cons x xs ih =>
    intro l hk hp
    simp only [List.mem_cons, not_or] at hk
    cases l with
    | nil => simp [escapeAmpersands] at hp
    | cons y ys =>
      by_cases hy : y = 38
      · subst hy
        exfalso
        simp only [escapeAmpersands] at hp
        split at hp
        · simp only [amp, List.cons_append] at hp
          have := List.cons_prefix_cons.mp hp
          omega
        · have := List.cons_prefix_cons.mp hp
          omega
      · simp only [escapeAmpersands, hy, decide_false, Bool.false_and, Bool.false_eq_true, ↓reduceIte] at hp ⊢
        obtain ⟨hxy, hrest⟩ := List.cons_prefix_cons.mp hp
        obtain ⟨rest, h1, h2⟩ := ih ys hk.2 hrest
        exact ⟨rest, by rw [hxy, h1]; rfl, by rw [hxy, h2]; rfl⟩

/-- code points that are the first code point of no alternative are copied -/
theorem reSub_copy {ps : List Particle} (rep : PStr → PStr) (a Z : PStr)
    (h : ∀ x ∈ a, ∀ p ∈ ps, p.key.headD 0 ≠ x) : reSub ps rep 0 (a ++ Z) = a ++ reSub ps rep 0 Z := by
  induction a with
  | nil => rfl
  | cons x xs ih =>
    simp only [List.cons_append]
    rw [reSub_miss _ _ _ _ (firstMatch_none_of_head (h x (by simp)) _), ih (fun y hy => h y (by simp [hy]))]

theorem keysOK_amp {ps : List Particle} (hk : KeysOK ps) : ∀ x ∈ amp, ∀ p ∈ ps, p.key.headD 0 ≠ x := by
  intro x hx p hp
  obtain ⟨_, h38, h59, hn⟩ := hk p hp
  simp only [amp, List.mem_cons, List.mem_nil_iff, or_false] at hx
  rcases hx with rfl | rfl | rfl | rfl | rfl
  · exact h38
  · intro e; rw [e] at hn; revert hn; decide
  · intro e; rw [e] at hn; revert hn; decide
  · intro e; rw [e] at hn; revert hn; decide
  · exact h59

/-- the output for a non-empty input starts with the input's first code point or with `&` -/
theorem fix_head {T : Tbl} {ps : List Particle} {rep : PStr → PStr} (hR : RepOK T rep ps) (hk : KeysOK ps)
    (d : Nat) (ds : PStr) :
    ∃ y Y, reSub ps rep 0 (escapeAmpersands T (d :: ds)) = y :: Y ∧ (y = d ∨ y = 38) := by
  have h38 : ∀ cs, firstMatch ps (38 :: cs) = none :=
    fun cs => firstMatch_none_of_head (fun p hp => (hk p hp).2.1) cs
  by_cases hd : d = 38
  · subst hd
    simp only [escapeAmpersands]
    split
    · rw [reSub_copy rep amp _ (keysOK_amp hk)]
      exact ⟨38, _, rfl, Or.inr rfl⟩
    · rw [reSub_miss _ _ _ _ (h38 _)]
      exact ⟨38, _, rfl, Or.inl rfl⟩
  · simp only [escapeAmpersands, hd, decide_false, Bool.false_and, Bool.false_eq_true, ↓reduceIte]
    cases hm : firstMatch ps (d :: escapeAmpersands T ds) with
    | none => rw [reSub_miss _ _ _ _ hm]; exact ⟨d, _, rfl, Or.inl rfl⟩
    | some p =>
      obtain ⟨hp, _⟩ := firstMatch_some hm
      obtain ⟨n, hn, _⟩ := hR p hp
      simp only [reSub, hm, hn, ref, List.cons_append]
      exact ⟨38, _, rfl, Or.inr rfl⟩

/-- reading `&name` for an unknown name that is not followed by `;`: the literal text -/
theorem readText_unknown_ref (T : Tbl) (late : Bool) (a : Nat) (t Y : PStr) (ha : isAlpha a = true)
    (hall : ∀ x ∈ a :: t, isNameChar x = true)
    (hY : ∀ y Y', Y = y :: Y' → isNameChar y = false ∧ y ≠ 59) (hunk : T.toChar.get (a :: t) = none) :
    readText T late 0 (38 :: (a :: t) ++ Y) = 38 :: (a :: t) ++ readText T late 0 Y := by
  have ha35 : a ≠ 35 := by
    simp only [isAlpha, Bool.or_eq_true, Bool.and_eq_true, decide_eq_true_eq] at ha; omega
  have hspan : spanLen isNameChar ((a :: t) ++ Y) = (a :: t).length := by
    cases Y with
    | nil => rw [List.append_nil]; exact spanLen_all _ _ hall
    | cons y Y' => exact spanLen_append_stop _ _ y Y' hall (hY y Y' rfl).1
  simp only [List.cons_append] at hspan ⊢
  simp only [readText, ne_eq, not_true_eq_false, ↓reduceIte, ha35, ha, hspan]
  have h1 : List.drop (a :: t).length (a :: (t ++ Y)) = Y := by
    rw [← List.cons_append, List.drop_left]
  have h2 : List.take (a :: t).length (a :: (t ++ Y)) = a :: t := by
    rw [← List.cons_append, List.take_left]
  rw [h1, h2]
  have hd : List.drop (a :: t).length (a :: (t ++ Y)) = Y := h1
  split
  · exact absurd rfl (hY 59 _ rfl).2
  · rw [readText_skip]
    simp only [Nat.add_zero, entityRef, hunk]
    rw [hd]
    simp


theorem dropWhile_head_not (p : Nat → Bool) (l : PStr) (y : Nat) (Y : PStr) (h : l.dropWhile p = y :: Y) :
    p y = false := by
  induction l with
  | nil => simp at h
  | cons a t ih =>
    simp only [List.dropWhile] at h
    split at h
    · exact ih h
    · rename_i hp
      simp only [List.cons.injEq] at h
      rw [← h.1]; simpa using hp

/-- what it means for an ampersand to be left bare by the repaired first pass -/
theorem ampNeedsEscape_false {T : Tbl} {d : Nat} {ds : PStr} (h : ampNeedsEscape T (d :: ds) = false) :
    d ≠ 35 ∧ entityLen T true (d :: ds) = none ∧
      (isAlpha d = false ∨
        ((∀ tl, (d :: ds).drop (spanLen isNameChar (d :: ds)) ≠ 59 :: tl) ∧
          T.toChar.get ((d :: ds).take (spanLen isNameChar (d :: ds))) = none ∧ legacyPrefix T (d :: ds) = false)) := by
  unfold ampNeedsEscape at h
  rw [Bool.or_eq_false_iff] at h
  replace h := h.1
  unfold ampNeedsEscapeMid at h
  simp only [Bool.or_eq_false_iff, decide_eq_false_iff_not, Bool.and_eq_false_iff, Option.isSome_eq_false_iff,
    Option.isNone_iff_eq_none] at h
  obtain ⟨⟨h1, h2⟩, h3⟩ := h
  refine ⟨h1, h2, ?_⟩
  rcases h3 with h3 | ⟨⟨h3, h4⟩, h5⟩
  · exact Or.inl h3
  · refine Or.inr ⟨?_, h4, h5⟩
    intro tl heq
    rw [heq] at h3
    simp at h3

/-- text round trip of the repaired `substitute_html5`, for any alternation whose entries are well-formed -/
theorem fix_text_roundtrip_gen (T : Tbl) (late : Bool) (ps : List Particle) (rep : PStr → PStr)
    (hR : RepOK T rep ps) (hk : KeysOK ps) (hamp : T.toChar.get [97, 109, 112] = some [38]) :
    ∀ s, readText T late 0 (reSub ps rep 0 (escapeAmpersands T s)) = s := by
  have h38 : ∀ cs, firstMatch ps (38 :: cs) = none :=
    fun cs => firstMatch_none_of_head (fun p hp => (hk p hp).2.1) cs
  intro s
  generalize hn : s.length = n
  induction n using Nat.strongRecOn generalizing s with
  | _ n ih =>
    cases s with
    | nil => simp [escapeAmpersands, reSub, readText]
    | cons c cs =>
      simp only [List.length_cons] at hn
      by_cases h : c = 38
      · subst h
        cases hne : ampNeedsEscape T cs with
        | true =>
          simp only [escapeAmpersands, hne, decide_true, Bool.and_self, ↓reduceIte]
          rw [reSub_copy rep amp _ (keysOK_amp hk)]
          have : amp = ref [97, 109, 112] := rfl
          rw [this, readText_ref T late _ _ (by decide), entityRef_of_entry hamp, ih cs.length (by omega) cs rfl]
          rfl
        | false =>
          simp only [escapeAmpersands, hne, Bool.and_false, Bool.false_eq_true, ↓reduceIte]
          rw [reSub_miss _ _ _ _ (h38 _)]
          cases cs with
          | nil => simp [escapeAmpersands, reSub, readText]
          | cons d ds =>
            obtain ⟨hd35, _, hcase⟩ := ampNeedsEscape_false hne
            rcases hcase with halpha | ⟨hsemi, hunk, _⟩
            · obtain ⟨y, Y, hY, hy⟩ := fix_head hR hk d ds
              have hyalpha : isAlpha y = false := by
                rcases hy with rfl | rfl
                · exact halpha
                · decide
              have hy35 : y ≠ 35 := by
                rcases hy with rfl | rfl
                · exact hd35
                · decide
              have := ih (d :: ds).length (by omega) (d :: ds) rfl
              rw [hY] at this ⊢
              rw [readText_bare_amp T late y Y hyalpha hy35, this]
            · by_cases halpha : isAlpha d = true
              · -- `&name` with an unknown name that is not followed by `;`
                have hsplit := List.takeWhile_append_dropWhile (p := isNameChar) (l := d :: ds)
                have htake : (d :: ds).take (spanLen isNameChar (d :: ds)) = (d :: ds).takeWhile isNameChar :=
                  take_spanLen _ _
                have hdrop : (d :: ds).drop (spanLen isNameChar (d :: ds)) = (d :: ds).dropWhile isNameChar :=
                  drop_spanLen _ _
                have hdname : isNameChar d = true := by simp [isNameChar, isAlnum, halpha]
                obtain ⟨t, ht⟩ : ∃ t, (d :: ds).takeWhile isNameChar = d :: t := by
                  simp [List.takeWhile, hdname]
                have hNall : ∀ x ∈ d :: t, isNameChar x = true := by
                  intro x hx; rw [← ht] at hx; exact mem_takeWhile_sat _ _ x hx
                have hN38 : 38 ∉ d :: t := by
                  intro hm; have := hNall 38 hm; revert this; decide
                generalize hR' : (d :: ds).dropWhile isNameChar = R at hsplit hdrop
                rw [ht] at hsplit
                rw [htake, ht] at hunk
                rw [hdrop] at hsemi
                have hRlen : R.length < n := by
                  have := congrArg List.length hsplit
                  have hn' := hn
                  simp only [List.length_append, List.length_cons] at this hn'
                  omega
                rw [← hsplit, esc_append_noamp T _ _ hN38,
                  reSub_copy rep (d :: t) _ (fun x hx p hp e => by
                    have := (hk p hp).2.2.2; rw [e, hNall x hx] at this; exact absurd this (by simp))]
                have hYhead : ∀ y Y', reSub ps rep 0 (escapeAmpersands T R) = y :: Y' →
                    isNameChar y = false ∧ y ≠ 59 := by
                  intro y Y' hy
                  cases R with
                  | nil => simp [escapeAmpersands, reSub] at hy
                  | cons r rs =>
                    obtain ⟨y0, Y0, hY0, hy0⟩ := fix_head hR hk r rs
                    rw [hY0] at hy
                    simp only [List.cons.injEq] at hy
                    have hr1 : isNameChar r = false := dropWhile_head_not _ _ r rs hR'
                    have hr2 : r ≠ 59 := fun e => hsemi rs (by rw [e])
                    rcases hy0 with rfl | rfl
                    · rw [← hy.1]; exact ⟨hr1, hr2⟩
                    · rw [← hy.1]; exact ⟨by decide, by decide⟩
                have hread := readText_unknown_ref T late d t _ halpha hNall hYhead hunk
                simp only [List.cons_append] at hread ⊢
                rw [hread, ih R.length hRlen R rfl]
              · have halpha' : isAlpha d = false := by simpa using halpha
                obtain ⟨y, Y, hY, hy⟩ := fix_head hR hk d ds
                have hyalpha : isAlpha y = false := by
                  rcases hy with rfl | rfl
                  · exact halpha'
                  · decide
                have hy35 : y ≠ 35 := by
                  rcases hy with rfl | rfl
                  · exact hd35
                  · decide
                have := ih (d :: ds).length (by omega) (d :: ds) rfl
                rw [hY] at this ⊢
                rw [readText_bare_amp T late y Y hyalpha hy35, this]
      · have hc : (c == 38) = false := by simpa using h
        simp only [escapeAmpersands, h, decide_false, Bool.false_and, Bool.false_eq_true, ↓reduceIte]
        cases hm : firstMatch ps (c :: escapeAmpersands T cs) with
        | none =>
          rw [reSub_miss _ _ _ _ hm, readText_plain T late c _ h, ih cs.length (by omega) cs rfl]
        | some p =>
          obtain ⟨hp, hmat⟩ := firstMatch_some hm
          obtain ⟨nm, hnm, hname, _, hback, _⟩ := hR p hp
          have hpre : p.key <+: escapeAmpersands T (c :: cs) := by
            have := matchesAt_prefix hmat
            simpa only [escapeAmpersands, h, decide_false, Bool.false_and, Bool.false_eq_true, ↓reduceIte] using this
          obtain ⟨rest, hl, hesc⟩ := esc_prefix T p.key (c :: cs) (hk p hp).1 hpre
          have hkne : p.key ≠ [] := (matchesAt_split hmat).1
          have hesc' : c :: escapeAmpersands T cs = p.key ++ escapeAmpersands T rest := by
            simpa only [escapeAmpersands, h, decide_false, Bool.false_and, Bool.false_eq_true, ↓reduceIte] using hesc
          rw [hesc'] at hm ⊢
          have hlen : rest.length < n := by
            have h1 := congrArg List.length hl
            have h2 : p.key.length ≠ 0 := by simpa using hkne
            simp only [List.length_cons, List.length_append] at h1
            omega
          rw [reSub_hit _ _ p _ hkne hm, hnm, readText_ref T late nm _ hname, entityRef_of_entry hback,
            ih rest.length hlen rest rfl, ← hl]


/-! ## attribute values: html.unescape on the output of the repaired function -/

theorem cmpL_eq : ∀ (a b : PStr), cmpL a b = .eq → a = b := by
  intro a
  induction a with
  | nil => intro b h; cases b <;> simp [cmpL] at h ⊢
  | cons x xs ih =>
    intro b h
    cases b with
    | nil => simp [cmpL] at h
    | cons y ys =>
      simp only [cmpL] at h
      cases h1 : Nat.blt x y
      · cases h2 : Nat.blt y x
        · rw [h1, h2] at h
          simp only [cond_false] at h
          have h1' : ¬ x < y := by rw [← Nat.blt_eq, h1]; simp
          have h2' : ¬ y < x := by rw [← Nat.blt_eq, h2]; simp
          have hxy : x = y := by omega
          rw [hxy, ih ys h]
        · rw [h1, h2] at h; simp at h
      · rw [h1] at h; simp at h

/-- a property of every entry of a dictionary -/
def Dict.all (f : PStr → PStr → Bool) : Dict → Bool
  | .leaf => true
  | .node l k v r => Dict.all f l && f k v && Dict.all f r

theorem Dict.all_get {f : PStr → PStr → Bool} : ∀ {d : Dict}, Dict.all f d = true → ∀ {x v : PStr},
    d.get x = some v → f x v = true := by
  intro d
  induction d with
  | leaf => intro _ x v hg; simp [Dict.get] at hg
  | node l k v' r ihl ihr =>
    intro h x v hg
    simp only [Dict.all, Bool.and_eq_true] at h
    simp only [Dict.get] at hg
    split at hg
    · exact ihl h.1.1 hg
    · rename_i heq
      simp only [Option.some.injEq] at hg
      rw [cmpL_eq _ _ heq, ← hg]; exact h.1.2
    · exact ihr h.2 hg

/-- shape of a key of `html.entities.html5`: `name;` for a well-formed name, or a name that needs no semicolon (one of
    `T.legacy`) -/
def html5KeyOK (T : Tbl) (k _v : PStr) : Bool :=
  match k.reverse with
  | 59 :: rn => isName rn.reverse
  | _ => T.legacy.contains k

theorem html5KeyOK_spec {T : Tbl} (hleg : T.legacy.all isName = true) (hall : Dict.all (html5KeyOK T) T.html5 = true)
    {q v : PStr} (hg : T.html5.get q = some v) :
    (q ∈ T.legacy ∧ isName q = true) ∨ (∃ n, q = n ++ [59] ∧ isName n = true) := by
  have := Dict.all_get hall hg
  unfold html5KeyOK at this
  split at this
  · rename_i rn heq
    refine Or.inr ⟨rn.reverse, ?_, this⟩
    have := congrArg List.reverse heq
    simpa using this
  · have h : q ∈ T.legacy := by simpa using this
    exact Or.inl ⟨h, (List.all_eq_true.mp hleg) q h⟩

/-- whatever of the output does not contain `&` was copied from the input -/
theorem fix_copied_prefix {T : Tbl} {ps : List Particle} {rep : PStr → PStr} (hR : RepOK T rep ps) (hk : KeysOK ps) :
    ∀ (q cs : PStr), 38 ∉ q → q <+: reSub ps rep 0 (escapeAmpersands T cs) → q <+: cs := by
  intro q
  induction q with
  | nil => intro cs _ _; exact List.nil_prefix
  | cons x q' ih =>
    intro cs hq hp
    simp only [List.mem_cons, not_or] at hq
    cases cs with
    | nil => simp [escapeAmpersands, reSub] at hp
    | cons d ds =>
      by_cases hd : d = 38
      · exfalso
        obtain ⟨y, Y, hY, hy⟩ := fix_head hR hk d ds
        rw [hY] at hp
        have := (List.cons_prefix_cons.mp hp).1
        rcases hy with rfl | rfl <;> omega
      · simp only [escapeAmpersands, hd, decide_false, Bool.false_and, Bool.false_eq_true, ↓reduceIte] at hp
        cases hm : firstMatch ps (d :: escapeAmpersands T ds) with
        | none =>
          rw [reSub_miss _ _ _ _ hm] at hp
          obtain ⟨h1, h2⟩ := List.cons_prefix_cons.mp hp
          rw [h1]
          exact List.cons_prefix_cons.mpr ⟨rfl, ih ds hq.2 h2⟩
        | some p =>
          exfalso
          obtain ⟨hp', _⟩ := firstMatch_some hm
          obtain ⟨n, hn, _⟩ := hR p hp'
          simp only [reSub, hm, hn, ref, List.cons_append] at hp
          have := (List.cons_prefix_cons.mp hp).1
          omega

theorem unescape_noamp_prefix (T : Tbl) (s r : PStr) (h : 38 ∉ s) :
    unescape T 0 (s ++ r) = s ++ unescape T 0 r := by
  induction s with
  | nil => rfl
  | cons x xs ih =>
    simp only [List.mem_cons, not_or] at h
    simp only [List.cons_append]
    rw [unescape_plain T x _ (fun e => h.1 e.symm), ih h.2]

theorem longestPrefix_none (T : Tbl) (s : PStr) (h : ∀ x, T.html5.get (s.take x) = none) :
    ∀ k, longestPrefix T s k = none := by
  intro k
  induction k with
  | zero => rfl
  | succ k ih =>
    simp only [longestPrefix]
    split
    · rfl
    · rw [h (k + 1)]; exact ih

theorem take_succ_of_drop (l : PStr) (n a : Nat) (r : PStr) (h : l.drop n = a :: r) :
    l.take (n + 1) = l.take n ++ [a] := by
  induction l generalizing n with
  | nil => simp at h
  | cons x xs ih =>
    cases n with
    | zero => simp at h; simp [h.1]
    | succ n => simp only [List.drop_succ_cons] at h; simp [ih n h]

theorem take_le_spanLen_sat (p : Nat → Bool) (l : PStr) (n : Nat) (hn : n ≤ spanLen p l) :
    ∀ x ∈ l.take n, p x = true := by
  intro x hx
  have h1 : l.take n = (l.take (spanLen p l)).take n := by
    rw [List.take_take]; congr 1; omega
  rw [h1, take_spanLen] at hx
  exact mem_takeWhile_sat p l x (List.mem_of_mem_take hx)

/-- `html.unescape` at an ampersand after which no prefix is a key of `html5`: the ampersand stays -/
theorem unescape_bare (T : Tbl) (O : PStr) (hd : ∀ tl, O ≠ 35 :: tl)
    (hnone : ∀ q, 38 ∉ q → q <+: O → T.html5.get q = none) :
    unescape T 0 (38 :: O) = 38 :: unescape T 0 O := by
  cases O with
  | nil => simp [unescape]
  | cons d ds =>
    have hd35 : d ≠ 35 := fun e => hd ds (by rw [e])
    conv => lhs; unfold unescape
    simp only [ne_eq, not_true_eq_false, ↓reduceIte, hd35]
    split
    · rfl
    · rename_i hn0
      -- the reference body `s`
      generalize hm : min (spanLen isRefChar (d :: ds)) 32 = n at hn0 ⊢
      have hnle : n ≤ spanLen isRefChar (d :: ds) := by omega
      have hsat := take_le_spanLen_sat isRefChar (d :: ds) n hnle
      have key : ∀ k, (k = n ∨ (k = n + 1 ∧ ∃ tl, (d :: ds).drop n = 59 :: tl)) →
          namedRef T ((d :: ds).take k) ++ unescape T k (d :: ds) = 38 :: unescape T 0 (d :: ds) := by
        intro k hk
        have hs38 : 38 ∉ (d :: ds).take k := by
          rcases hk with rfl | ⟨rfl, tl, heq⟩
          · intro hm
            have := hsat 38 hm; revert this; decide
          · rw [take_succ_of_drop _ _ _ _ heq]
            intro hm
            simp only [List.mem_append, List.mem_cons, List.mem_nil_iff, or_false] at hm
            rcases hm with hm | hm
            · have := hsat 38 hm; revert this; decide
            · omega
        have hspre : (d :: ds).take k <+: d :: ds := List.take_prefix _ _
        have hnamed : namedRef T ((d :: ds).take k) = 38 :: (d :: ds).take k := by
          simp only [namedRef, hnone _ hs38 hspre]
          rw [longestPrefix_none T _ (fun x => hnone _ (fun hm => hs38 (List.mem_of_mem_take hm))
            (List.IsPrefix.trans (List.take_prefix _ _) hspre))]
        rw [hnamed, unescape_skip]
        conv => rhs; rw [← List.take_append_drop k (d :: ds), unescape_noamp_prefix T _ _ hs38]
        simp
      split
      · rename_i tl heq
        exact key (n + 1) (Or.inr ⟨rfl, tl, heq⟩)
      · exact key n (Or.inl rfl)


theorem isName_head_alpha {q : PStr} (h : isName q = true) : ∃ a t, q = a :: t ∧ isAlpha a = true := by
  cases q with
  | nil => simp [isName] at h
  | cons a t => simp only [isName, Bool.and_eq_true] at h; exact ⟨a, t, rfl, h.1⟩

/-- after a bare ampersand of the repaired first pass no prefix of the input is a key of `html5` -/
theorem bare_no_key {T : Tbl} (hleg : T.legacy.all isName = true) (hall : Dict.all (html5KeyOK T) T.html5 = true)
    {cs : PStr} (hne : ampNeedsEscape T cs = false) (q : PStr) (hq : q <+: cs) : T.html5.get q = none := by
  cases hg : T.html5.get q with
  | none => rfl
  | some v =>
    exfalso
    cases cs with
    | nil =>
      have : q = [] := List.prefix_nil.mp hq
      subst this
      rcases html5KeyOK_spec hleg hall hg with ⟨_, hn⟩ | ⟨n, hn, _⟩
      · simp [isName] at hn
      · simp at hn
    | cons d ds =>
      obtain ⟨_, _, hcase⟩ := ampNeedsEscape_false hne
      rcases html5KeyOK_spec hleg hall hg with ⟨hmem, hn⟩ | ⟨n, hqn, hn⟩
      · obtain ⟨a, t, hqa, ha⟩ := isName_head_alpha hn
        rw [hqa] at hq
        have had : a = d := (List.cons_prefix_cons.mp hq).1
        rcases hcase with hal | ⟨_, _, hlp⟩
        · rw [← had, ha] at hal; simp at hal
        · have : legacyPrefix T (d :: ds) = true := by
            unfold legacyPrefix
            rw [List.any_eq_true]
            exact ⟨q, hmem, List.isPrefixOf_iff_prefix.mpr (hqa ▸ hq)⟩
          rw [this] at hlp; simp at hlp
      · obtain ⟨a, t, hna, ha⟩ := isName_head_alpha hn
        obtain ⟨rest, hrest⟩ := hq
        have hcs : d :: ds = n ++ 59 :: rest := by rw [← hrest, hqn]; simp
        have had : a = d := by rw [hna] at hcs; simp at hcs; exact hcs.1.symm
        have hspan : spanLen isNameChar (d :: ds) = n.length := by
          rw [hcs]
          exact spanLen_append_stop _ _ _ _ (fun x hx => isAlnum_nameChar (isName_alnum hn x hx)) (by decide)
        rcases hcase with hal | ⟨hsemi, _, _⟩
        · rw [← had, ha] at hal; simp at hal
        · apply hsemi rest
          rw [hspan, hcs, List.drop_left]

/-- attribute round trip (through `html.unescape`) of the repaired `substitute_html5`, for any alternation with
    well-formed entries -/
theorem fix_attr_roundtrip_gen (T : Tbl) (ps : List Particle) (rep : PStr → PStr)
    (hR : RepOK T rep ps) (hk : KeysOK ps) (hamp : T.html5.get [97, 109, 112, 59] = some [38])
    (hleg : T.legacy.all isName = true) (hall : Dict.all (html5KeyOK T) T.html5 = true) :
    ∀ s, unescape T 0 (reSub ps rep 0 (escapeAmpersands T s)) = s := by
  have h38 : ∀ cs, firstMatch ps (38 :: cs) = none :=
    fun cs => firstMatch_none_of_head (fun p hp => (hk p hp).2.1) cs
  intro s
  generalize hn : s.length = n
  induction n using Nat.strongRecOn generalizing s with
  | _ n ih =>
    cases s with
    | nil => simp [escapeAmpersands, reSub, unescape]
    | cons c cs =>
      simp only [List.length_cons] at hn
      by_cases h : c = 38
      · subst h
        cases hne : ampNeedsEscape T cs with
        | true =>
          simp only [escapeAmpersands, hne, decide_true, Bool.and_self, ↓reduceIte]
          rw [reSub_copy rep amp _ (keysOK_amp hk)]
          have : amp = ref [97, 109, 112] := rfl
          rw [this, unescape_ref T _ _ [38] (by decide) (by decide) hamp, ih cs.length (by omega) cs rfl]
          rfl
        | false =>
          simp only [escapeAmpersands, hne, Bool.and_false, Bool.false_eq_true, ↓reduceIte]
          rw [reSub_miss _ _ _ _ (h38 _)]
          rw [unescape_bare T _ ?_ ?_, ih cs.length (by omega) cs rfl]
          · intro tl heq
            cases cs with
            | nil => simp [escapeAmpersands, reSub] at heq
            | cons d ds =>
              obtain ⟨y, Y, hY, hy⟩ := fix_head hR hk d ds
              rw [hY] at heq
              simp only [List.cons.injEq] at heq
              have := (ampNeedsEscape_false hne).1
              rcases hy with rfl | rfl <;> omega
          · intro q hq38 hqpre
            exact bare_no_key hleg hall hne q (fix_copied_prefix hR hk q cs hq38 hqpre)
      · simp only [escapeAmpersands, h, decide_false, Bool.false_and, Bool.false_eq_true, ↓reduceIte]
        cases hm : firstMatch ps (c :: escapeAmpersands T cs) with
        | none =>
          rw [reSub_miss _ _ _ _ hm, unescape_plain T c _ h, ih cs.length (by omega) cs rfl]
        | some p =>
          obtain ⟨hp, hmat⟩ := firstMatch_some hm
          obtain ⟨nm, hnm, hname, hlen, _, hback⟩ := hR p hp
          have hpre : p.key <+: escapeAmpersands T (c :: cs) := by
            have := matchesAt_prefix hmat
            simpa only [escapeAmpersands, h, decide_false, Bool.false_and, Bool.false_eq_true, ↓reduceIte] using this
          obtain ⟨rest, hl, hesc⟩ := esc_prefix T p.key (c :: cs) (hk p hp).1 hpre
          have hkne : p.key ≠ [] := (matchesAt_split hmat).1
          have hesc' : c :: escapeAmpersands T cs = p.key ++ escapeAmpersands T rest := by
            simpa only [escapeAmpersands, h, decide_false, Bool.false_and, Bool.false_eq_true, ↓reduceIte] using hesc
          rw [hesc'] at hm ⊢
          have hlen' : rest.length < n := by
            have h1 := congrArg List.length hl
            have h2 : p.key.length ≠ 0 := by simpa using hkne
            simp only [List.length_cons, List.length_append] at h1
            omega
          rw [reSub_hit _ _ p _ hkne hm, hnm, unescape_ref T nm _ _ hname (by omega) hback,
            ih rest.length hlen' rest rfl, ← hl]

/-! ### `"` ↦ `&quot;` as one more alternative -/

def quotParticle : Particle := ⟨[34], []⟩

/-- the callback extended by `"` ↦ `&quot;` -/
def repQ (rep : PStr → PStr) (k : PStr) : PStr := if k = [34] then quotEnt else rep k

theorem firstMatch_append_quot (ps : List Particle) (l : PStr) :
    firstMatch (ps ++ [quotParticle]) l =
      match firstMatch ps l with
      | some p => some p
      | none => if quotParticle.matchesAt l then some quotParticle else none := by
  unfold firstMatch
  rw [List.find?_append]
  cases List.find? (fun x => x.matchesAt l) ps with
  | some p => rfl
  | none => cases h : quotParticle.matchesAt l <;> simp [List.find?, h]

theorem replaceDq_reSub {T : Tbl} {ps : List Particle} {rep : PStr → PStr} (hR : RepOK T rep ps)
    (h34 : ∀ p ∈ ps, p.key.headD 0 ≠ 34) :
    ∀ l, replaceDq (reSub ps rep 0 l) = reSub (ps ++ [quotParticle]) (repQ rep) 0 l := by
  refine reSub_induction ps
    (motive := fun l => replaceDq (reSub ps rep 0 l) = reSub (ps ++ [quotParticle]) (repQ rep) 0 l) ?_ ?_ ?_
  · simp [reSub, replaceDq]
  · intro p rest hp hk _ hfm ih
    obtain ⟨n, hn, hname, _⟩ := hR p hp
    have hfm' : firstMatch (ps ++ [quotParticle]) (p.key ++ rest) = some p := by
      rw [firstMatch_append_quot, hfm]
    have hkey : p.key ≠ [34] := by
      intro e; have := h34 p hp; rw [e] at this; simp at this
    rw [reSub_hit ps _ p rest hk hfm, reSub_hit _ _ p rest hk hfm', hn, replaceDq_ref n _ hname, ih]
    simp [repQ, hkey, hn]
  · intro c cs hfm ih
    rw [reSub_miss ps _ c cs hfm]
    simp only [replaceDq]
    split
    · rename_i hc
      subst hc
      have hfm' : firstMatch (ps ++ [quotParticle]) (34 :: cs) = some quotParticle := by
        rw [firstMatch_append_quot, hfm]
        have : quotParticle.matchesAt (34 :: cs) = true := by
          unfold quotParticle; rw [matchesAt_single]; cases cs <;> simp
        simp [this]
      have := reSub_hit (ps ++ [quotParticle]) (repQ rep) quotParticle cs (by simp [quotParticle]) hfm'
      have hkey : quotParticle.key = [34] := rfl
      rw [hkey] at this
      simp only [List.cons_append, List.nil_append] at this
      rw [this, ih]
      simp [repQ]
    · rename_i hc
      have hfm' : firstMatch (ps ++ [quotParticle]) (c :: cs) = none := by
        rw [firstMatch_append_quot, hfm]
        have : quotParticle.matchesAt (c :: cs) = false := by
          simp [quotParticle, Particle.matchesAt, List.isPrefixOf]
          intro e; exact absurd e.symm hc
        simp [this]
      rw [reSub_miss _ _ c cs hfm', ih]

theorem repOK_quot {T : Tbl} {ps : List Particle} {rep : PStr → PStr} (hR : RepOK T rep ps)
    (h34 : ∀ p ∈ ps, p.key.headD 0 ≠ 34) (hq1 : T.toChar.get [113, 117, 111, 116] = some [34])
    (hq2 : T.html5.get [113, 117, 111, 116, 59] = some [34]) : RepOK T (repQ rep) (ps ++ [quotParticle]) := by
  intro p hp
  simp only [List.mem_append, List.mem_cons, List.mem_nil_iff, or_false] at hp
  rcases hp with hp | rfl
  · obtain ⟨n, hn, rest⟩ := hR p hp
    have hkey : p.key ≠ [34] := by
      intro e; have := h34 p hp; rw [e] at this; simp at this
    exact ⟨n, by simp [repQ, hkey, hn], rest⟩
  · exact ⟨[113, 117, 111, 116], by simp [repQ, quotParticle, quotEnt, ref], by decide, by decide, hq1, hq2⟩

theorem keysOK_quot {ps : List Particle} (hk : KeysOK ps) : KeysOK (ps ++ [quotParticle]) := by
  intro p hp
  simp only [List.mem_append, List.mem_cons, List.mem_nil_iff, or_false] at hp
  rcases hp with hp | rfl
  · exact hk p hp
  · simp [quotParticle]; decide

/-- everything the repaired `substitute_html5` needs of the tables beyond `TblOK`, decidable -/
def Html5FixOK (T : Tbl) : Bool :=
  keysOK T.particles && T.particles.all (fun p => p.key.headD 0 != 34) &&
    T.toChar.get [97, 109, 112] == some [38] && T.html5.get [97, 109, 112, 59] == some [38] &&
    T.toChar.get [113, 117, 111, 116] == some [34] &&
    T.legacy.all isName && Dict.all (html5KeyOK T) T.html5

theorem html5FixOK_spec {T : Tbl} (h : Html5FixOK T = true) :
    KeysOK T.particles ∧ (∀ p ∈ T.particles, p.key.headD 0 ≠ 34) ∧ T.toChar.get [97, 109, 112] = some [38] ∧
      T.html5.get [97, 109, 112, 59] = some [38] ∧ T.toChar.get [113, 117, 111, 116] = some [34] ∧
      T.legacy.all isName = true ∧ Dict.all (html5KeyOK T) T.html5 = true := by
  unfold Html5FixOK at h
  simp only [Bool.and_eq_true, beq_iff_eq, List.all_eq_true, bne_iff_ne, ne_eq] at h
  obtain ⟨⟨⟨⟨⟨⟨h1, h2⟩, h3⟩, h4⟩, h5⟩, h6⟩, h7⟩ := h
  exact ⟨keysOK_spec h1, h2, h3, h4, h5, by simpa [List.all_eq_true] using h6, h7⟩


/-! ## where 4.13.0 and the repair agree -/

/-- the old first pass would have taken the same decision as the repaired one at every ampersand of `s` -/
def ampsAgree (T : Tbl) : PStr → Bool
  | [] => true
  | c :: cs => (c != 38 || ampNeedsEscape T cs == (entityLen T true cs).isSome) && ampsAgree T cs

theorem escSpec_eq_of_agree (T : Tbl) : ∀ s, ampsAgree T s = true → escSpec T s = escapeAmpersands T s := by
  intro s
  induction s with
  | nil => intro _; rfl
  | cons c cs ih =>
    intro h
    simp only [ampsAgree, Bool.and_eq_true, Bool.or_eq_true, bne_iff_ne, ne_eq, beq_iff_eq] at h
    simp only [escSpec, escapeAmpersands, ih h.2]
    by_cases hc : c = 38
    · have := h.1.resolve_left (by simp [hc])
      simp [hc, this]
    · simp [hc]

/-- on such strings the two functions compute the same output -/
theorem old_eq_fixed_of_agree {T : Tbl} (hw : inRanges T.word 38 = false) (hd : inRanges T.digit 38 = false)
    (s : PStr) (h : ampsAgree T s = true) : substHtml5Old T s = substHtml5 T s := by
  unfold substHtml5Old substHtml5 substHtml5With
  rw [escapeEntities_eq_spec hw hd, escSpec_eq_of_agree T s h]

end BS.Entities
