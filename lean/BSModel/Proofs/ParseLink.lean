import BSModel.Model.ParseLink
import BSModel.Proofs.HeapLink
import BSModel.Proofs.HeapOps
/-! # Parse-time linkage, part 1: what `parseAppend` writes, and how it relates to `linkChild`

`PageElement.setup(parent, previous_element)` + `contents.append` is — in the states the parser reaches — the
linking part of `Tag._insert` at the end of the document (`linkChild h cur len(contents) x`), except for the very
first element, where the parser leaves the BeautifulSoup object outside the element chain
(`soup.next_element` stays `None`, the first element's `previous_element` is `None`). -/
namespace BS.ParseLink
open BS.Heap

theorem heap_ext {a b : Heap} (h1 : ∀ j, a.parent j = b.parent j) (h2 : ∀ j, a.ps j = b.ps j)
    (h3 : ∀ j, a.ns j = b.ns j) (h4 : ∀ j, a.pe j = b.pe j) (h5 : ∀ j, a.ne j = b.ne j)
    (h6 : ∀ j, a.kids j = b.kids j) (h7 : a.kind = b.kind) (h8 : a.val = b.val) (h9 : a.next = b.next)
    (h10 : a.cap = b.cap) : a = b := by
  cases a; cases b
  simp only [Heap.mk.injEq]
  exact ⟨funext h1, funext h2, funext h3, funext h4, funext h5, funext h6, h7, h8, h9, h10⟩

theorem lastDown_leaf (h : Heap) (f n : Nat) (hk : h.kids n = []) : lastDown h f n = n := by
  cases f with
  | zero => rfl
  | succ f => simp [lastDown, hk]

theorem prevSibOf_end (h : Heap) (p : Nat) : prevSibOf h p (h.kids p).length = (h.kids p).getLast? := by
  unfold prevSibOf
  cases h.kids p with
  | nil => simp
  | cons a l => simp [List.getLast?_eq_getElem?]

/-- closed form of `parseAppend` -/
theorem parseAppend_reads (h : Heap) (cur : Nat) (mre : Option Nat) (x : Nat) :
    (∀ j, (parseAppend h cur mre x).parent j = if j = x then some cur else h.parent j) ∧
    (∀ j, (parseAppend h cur mre x).ps j = if j = x then (h.kids cur).getLast? else h.ps j) ∧
    (∀ j, (parseAppend h cur mre x).ns j =
      if (h.kids cur).getLast? = some j then some x else if j = x then none else h.ns j) ∧
    (∀ j, (parseAppend h cur mre x).pe j = if j = x then mre else h.pe j) ∧
    (∀ j, (parseAppend h cur mre x).ne j = if j = x then none else if mre = some j then some x else h.ne j) ∧
    (∀ j, (parseAppend h cur mre x).kids j = if j = cur then h.kids cur ++ [x] else h.kids j) ∧
    (parseAppend h cur mre x).kind = h.kind ∧ (parseAppend h cur mre x).val = h.val ∧
    (parseAppend h cur mre x).next = h.next ∧ (parseAppend h cur mre x).cap = h.cap + h.cap := by
  cases mre <;> cases hl : (h.kids cur).getLast? <;>
    simp [parseAppend, setNeO, setNsO, hl] <;> (intros; grind)

/-! ### the BeautifulSoup object outside the element chain -/

/-- mark the root `r` as standing outside the element chain -/
def unlWit (w : Wit) (r : Nat) : Wit := { w with unl := fun n => if n = r then true else w.unl n }

/-- cutting the link between a BeautifulSoup root and its first element keeps the heap consistent -/
theorem unlink_root {h : Heap} {w : Wit} (hwf : WF h w) (r f : Nat) (hk : h.kind r = .soup)
    (hr : h.parent r = none) (hrn : r < h.next) (hft : w.tree f = r) (hfp : w.pos f = 1) :
    WF (setPe (setNe h r none) f none) (unlWit w r) := by
  obtain ⟨hrt, hrp⟩ := hwf.root_tree r hr
  constructor
  · exact hwf.size_pos
  · exact hwf.size_cap
  · exact hwf.str_leaf
  · exact hwf.tiles
  · exact hwf.kid_parent
  · exact hwf.kid_tree
  · exact hwf.parent_kid
  · exact hwf.root_tree
  · exact hwf.tree_root
  · exact hwf.bound
  · exact hwf.inj
  · exact hwf.laminar
  · intro a b
    have := hwf.chain_ne a b
    simp only [setPe_ne, setNe_ne, unlWit]
    by_cases ha : a = r
    · simp [ha]
    · simp only [ha, if_false]; exact this
  · intro a b
    have := hwf.chain_pe a b
    simp only [setPe_pe, unlWit]
    show (if b = f then none else h.pe b) = some a ↔ _
    by_cases hb : b = f
    · subst hb
      simp only [if_true]
      constructor
      · intro e; cases e
      · rintro ⟨h1, h2, h3⟩
        have : a = r := hwf.inj a r (by rw [h2, hft, hrt]) (by omega)
        simp [this] at h1
    · simp only [hb, if_false]
      by_cases ha : a = r
      · subst ha
        simp only [if_true]
        constructor
        · intro e
          have := this.mp e
          exact absurd (hwf.inj b f (by rw [← this.2.1, hrt, hft]) (by omega)) hb
        · rintro ⟨h1, _⟩; cases h1
      · simp only [ha, if_false]; exact this
  · exact hwf.sib_ns
  · exact hwf.sib_ps
  · intro n hn
    simp only [unlWit] at hn
    by_cases hnr : n = r
    · subst hnr; exact ⟨hk, hr⟩
    · simp only [hnr, if_false] at hn; exact hwf.unl_soup n hn
  · exact hwf.soup_root
  · intro n hn
    have := hwf.fresh n hn
    refine ⟨this.1, this.2.1, ?_⟩
    simp only [unlWit]
    have : n ≠ r := by
      intro e; subst e
      exact absurd hn (by simp only [setPe_next, setNe_next]; omega)
    simp only [this, if_false]
    exact (hwf.fresh n hn).2.2

end BS.ParseLink
