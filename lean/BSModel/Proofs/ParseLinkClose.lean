import BSModel.Proofs.ParseLinkFacts
import BSModel.Proofs.Builder
/-! # Parse-time linkage, part 5: the actions derived from C03's machine close every element at the end -/
namespace BS.ParseLink
open BS.Heap BS.Builder

theorem prun_append (pst : PSt) (a b : List Act) : prun pst (a ++ b) = prun (prun pst a) b := by
  simp [prun, List.foldl_append]

theorem pstep_newStr_stack (pst : PSt) : (pstep pst .newStr).stack = pst.stack := by
  cases hs : pst.stack with
  | nil => rw [pstep_nil hs, hs]
  | cons c r => rw [pstep_newStr hs]; exact hs

theorem pstep_newTag_len (pst : PSt) (h : pst.stack ≠ []) :
    (pstep pst .newTag).stack.length = pst.stack.length + 1 := by
  cases hs : pst.stack with
  | nil => exact absurd hs h
  | cons c r => rw [pstep_newTag hs]; simp [hs]

theorem prun_flush_stack (pst : PSt) (c : Bool) :
    (prun pst (if c then [Act.newStr] else [])).stack = pst.stack := by
  cases c
  · rfl
  · exact pstep_newStr_stack pst

theorem prun_pops : ∀ (k : Nat) (pst : PSt), k + 1 ≤ pst.stack.length →
    (prun pst (List.replicate k Act.pop)).stack.length = pst.stack.length - k := by
  intro k
  induction k with
  | zero => intro pst _; rfl
  | succ k ih =>
    intro pst hk
    match hs : pst.stack with
    | [] => rw [hs] at hk; simp at hk
    | [a] => rw [hs] at hk; simp at hk
    | a :: b :: r =>
      show (prun (pstep pst .pop) (List.replicate k Act.pop)).stack.length = _
      rw [pstep_pop hs, ih _ (by rw [hs] at hk; simp at hk ⊢; omega)]
      simp only [List.length_cons]; omega

/-! the builder side: how the length of C03's tag stack moves -/

theorem endData_len (cfg : Cfg) (st : St) (cls : Option Cls) :
    (endData cfg st cls).stack.length = st.stack.length := by
  unfold endData
  split
  · rfl
  · cases hs : st.stack with
    | nil => simp
    | cons t r => simp

theorem popTag_len_le (st : St) : (popTag st).stack.length ≤ st.stack.length := by
  unfold popTag
  split <;> simp_all

theorem popLoop_len_le (name : Name) (pfx : Option Name) : ∀ (fuel : Nat) (st : St),
    (popLoop st name pfx fuel).stack.length ≤ st.stack.length := by
  intro fuel
  induction fuel with
  | zero => intro st; exact Nat.le_refl _
  | succ f ih =>
    intro st
    unfold popLoop
    split
    · exact Nat.le_refl _
    · exact Nat.le_refl _
    · split
      · exact Nat.le_refl _
      · split
        · exact popTag_len_le st
        · exact Nat.le_trans (ih _) (popTag_len_le st)

theorem popToTag_len_le (cfg : Cfg) (st : St) (name : Name) (pfx : Option Name) :
    (popToTag cfg st name pfx).stack.length ≤ st.stack.length := by
  unfold popToTag
  split
  · exact Nat.le_refl _
  · exact popLoop_len_le _ _ _ _

/-- the actions of one event move the parser's stack as the event moves C03's stack -/
theorem actsOf_len {cfg : Cfg} {st : St} (h : Inv cfg st) (pst : PSt) (hl : pst.stack.length = st.stack.length)
    (e : Ev) : (prun pst (actsOf cfg st e)).stack.length = (step cfg st e).stack.length := by
  have hne : pst.stack ≠ [] := by
    intro e0; have := h.root.ne_nil; rw [e0] at hl; cases hs : st.stack <;> simp_all
  cases e with
  | start n p =>
    simp only [actsOf, prun_append]
    show (pstep (prun pst _) .newTag).stack.length = _
    rw [pstep_newTag_len _ (by rw [prun_flush_stack]; exact hne), prun_flush_stack, hl]
    simp [Builder.step, pushTag, endData_len]
  | stop n p =>
    simp only [actsOf, prun_append]
    have h2 : Inv cfg (popToTag cfg (endData cfg st none) n p) := (h.endData none).popToTag n p
    have hpos : 1 ≤ (popToTag cfg (endData cfg st none) n p).stack.length := by
      have := h2.root.ne_nil
      cases hs : (popToTag cfg (endData cfg st none) n p).stack with
      | nil => exact absurd hs this
      | cons a r => simp
    have hle := popToTag_len_le cfg (endData cfg st none) n p
    have he := endData_len cfg st none
    rw [prun_pops _ _ (by rw [prun_flush_stack, hl]; omega), prun_flush_stack, hl]
    show _ = (popToTag cfg (endData cfg st none) n p).stack.length
    omega
  | data s => simp only [actsOf]; exact hl
  | endData c =>
    simp only [actsOf]
    rw [prun_flush_stack, hl]
    exact (endData_len cfg st c).symm

theorem actions_len (cfg : Cfg) : ∀ (evs : List Ev) (st : St) (pst : PSt), Inv cfg st →
    pst.stack.length = st.stack.length → (prun pst (actions cfg st evs)).stack.length = 1 := by
  intro evs
  induction evs with
  | nil =>
    intro st pst h hl
    have hpos : 1 ≤ st.stack.length := by
      have := h.root.ne_nil
      cases hs : st.stack with
      | nil => exact absurd hs this
      | cons a r => simp
    simp only [actions, prun_append]
    have hf : (prun pst (if st.buf.isEmpty = true then [] else [Act.newStr])).stack = pst.stack := by
      have := prun_flush_stack pst (!st.buf.isEmpty)
      cases hb : st.buf.isEmpty <;> simp_all
    rw [prun_pops _ _ (by rw [hf, hl]; omega), hf, hl]
    omega
  | cons e es ih =>
    intro st pst h hl
    simp only [actions, prun_append]
    exact ih (step cfg st e) _ (h.step e) (actsOf_len h pst hl e)

/-- **everything is closed at the end**: after the actions of a complete event list only the BeautifulSoup
    object is left on the parser's tag stack -/
theorem actions_closed (cfg : Cfg) (hc : CfgOK cfg) (evs : List Ev) :
    (prun PSt.init (actions cfg (St.init cfg) evs)).stack = [0] := by
  have hl := actions_len cfg evs (St.init cfg) PSt.init (Inv.init hc) rfl
  have hr := parse_stack_root (actions cfg (St.init cfg) evs)
  match hs : (prun PSt.init (actions cfg (St.init cfg) evs)).stack with
  | [] => rw [hs] at hl; simp at hl
  | [a] => rw [hs] at hr; simp at hr; rw [hr]
  | a :: b :: r => rw [hs] at hl; simp at hl

end BS.ParseLink
