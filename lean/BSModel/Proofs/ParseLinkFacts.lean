import BSModel.Proofs.ParseLinkInv
import BSModel.Proofs.HeapIter
/-! # Parse-time linkage, part 4: what the invariant says about a parsed document -/
namespace BS.ParseLink
open BS.Heap

section
variable {st : PSt} {w : Wit} (I : PInv st w)
include I

theorem PInv.root_facts : st.heap.kind 0 = .soup ∧ st.heap.parent 0 = none ∧ 1 ≤ st.heap.next := by
  obtain ⟨h1, h2⟩ := I.wf.unl_soup 0 I.unl0
  have := I.wf.size_pos 0
  rw [I.size0] at this
  exact ⟨h1, h2, this⟩

/-- the BeautifulSoup object stands outside the element chain -/
theorem PInv.root_ne : st.heap.ne 0 = none := by
  cases hn : st.heap.ne 0 with
  | none => rfl
  | some b => have := (I.wf.chain_ne 0 b).mp hn; rw [I.unl0] at this; cases this.1

/-- the document order of the BeautifulSoup object is the creation order of the objects -/
theorem PInv.docOrder_eq : docOrder st.heap 0 = List.range st.heap.next := by
  have hp0 := I.root_facts.2.1
  apply List.ext_getElem?
  intro j
  by_cases hj : j < st.heap.next
  · rw [List.getElem?_range hj]
    exact (docOrder_getElem? I.wf hp0 j j).mpr (I.created j hj)
  · rw [List.getElem?_eq_none (by rw [docOrder_length I.wf, I.size0]; omega),
      List.getElem?_eq_none (by rw [List.length_range]; omega)]

/-- `next_element`/`previous_element` link the objects in creation order, starting from the first object
    created after the BeautifulSoup object -/
theorem PInv.chain (n : Nat) (h1 : 1 ≤ n) (h2 : n + 1 < st.heap.next) :
    st.heap.ne n = some (n + 1) ∧ st.heap.pe (n + 1) = some n := by
  obtain ⟨a1, a2⟩ := I.created n (by omega)
  obtain ⟨b1, b2⟩ := I.created (n + 1) h2
  have hu : w.unl n = false := wf_unl_pos I.wf (by omega)
  exact ⟨(I.wf.chain_ne n (n + 1)).mpr ⟨hu, by rw [a1, b1], by omega⟩,
    (I.wf.chain_pe n (n + 1)).mpr ⟨hu, by rw [a1, b1], by omega⟩⟩

/-- the first element has no previous element, the last one no next element -/
theorem PInv.chain_ends : st.heap.pe 1 = none ∧ st.heap.ne (st.heap.next - 1) = none := by
  have hn := I.root_facts.2.2
  constructor
  · cases hp : st.heap.pe 1 with
    | none => rfl
    | some a =>
      exfalso
      obtain ⟨c1, c2, c3⟩ := (I.wf.chain_pe a 1).mp hp
      by_cases h1 : 1 < st.heap.next
      · obtain ⟨b1, b2⟩ := I.created 1 h1
        obtain ⟨hp0, _⟩ := I.root_facts.2
        obtain ⟨r1, r2⟩ := I.wf.root_tree 0 hp0
        have : a = 0 := I.wf.inj a 0 (by rw [c2, b1, r1]) (by omega)
        subst this
        rw [I.unl0] at c1; cases c1
      · have := (I.wf.fresh 1 (by omega)).1
        have := (I.wf.root_tree 1 this).2
        omega
  · cases hp : st.heap.ne (st.heap.next - 1) with
    | none => rfl
    | some b =>
      exfalso
      obtain ⟨c1, c2, c3⟩ := (I.wf.chain_ne _ b).mp hp
      obtain ⟨b1, b2⟩ := I.created (st.heap.next - 1) (by omega)
      have hb := I.wf.bound b
      have := I.wf.size_pos b
      rw [← c2, b1, I.size0] at hb
      omega

/-- `_most_recent_element` is the object created last -/
theorem PInv.mre_eq : st.mre = if st.heap.next = 1 then none else some (st.heap.next - 1) := by
  cases hm : st.mre with
  | none =>
    have := (I.mre_none hm).2
    rw [I.size0] at this
    simp [this]
  | some m =>
    obtain ⟨m1, m2, m3⟩ := I.mre_some m hm
    rw [I.size0] at m2
    obtain ⟨b1, b2⟩ := I.created (st.heap.next - 1) (by omega)
    have : m = st.heap.next - 1 := I.wf.inj _ _ (by rw [m1, b1]) (by omega)
    have hne : st.heap.next ≠ 1 := by omega
    simp [hne, this]

/-- every open element is a tag whose subtree reaches the end of the document (the right spine) -/
theorem PInv.open_last (c : Nat) (hc : c ∈ st.stack) :
    (st.heap.kind c).isTag = true ∧ lastDown st.heap st.heap.cap c = st.heap.next - 1 := by
  obtain ⟨d1, d2, d3, d4⟩ := I.stk c hc
  refine ⟨d1, ?_⟩
  have hl := lastDown_pos st.heap w I.wf st.heap.cap c (by have := I.wf.size_cap c; omega)
  have hn := I.root_facts.2.2
  obtain ⟨b1, b2⟩ := I.created (st.heap.next - 1) (by omega)
  have := I.size0
  exact I.wf.inj _ _ (by rw [hl.1, d3, b1]) (by omega)

end

/-! ### for every action list -/

theorem parse_root_ne (acts : List Act) : (prun PSt.init acts).heap.ne 0 = none := by
  obtain ⟨w, I⟩ := parse_inv acts; exact I.root_ne

theorem parse_docOrder (acts : List Act) :
    docOrder (prun PSt.init acts).heap 0 = List.range (prun PSt.init acts).heap.next := by
  obtain ⟨w, I⟩ := parse_inv acts; exact I.docOrder_eq

theorem parse_chain (acts : List Act) (n : Nat) (h1 : 1 ≤ n) (h2 : n + 1 < (prun PSt.init acts).heap.next) :
    (prun PSt.init acts).heap.ne n = some (n + 1) ∧ (prun PSt.init acts).heap.pe (n + 1) = some n := by
  obtain ⟨w, I⟩ := parse_inv acts; exact I.chain n h1 h2

theorem parse_chain_ends (acts : List Act) :
    (prun PSt.init acts).heap.pe 1 = none ∧
    (prun PSt.init acts).heap.ne ((prun PSt.init acts).heap.next - 1) = none := by
  obtain ⟨w, I⟩ := parse_inv acts; exact I.chain_ends

theorem parse_mre (acts : List Act) :
    (prun PSt.init acts).mre =
      if (prun PSt.init acts).heap.next = 1 then none else some ((prun PSt.init acts).heap.next - 1) := by
  obtain ⟨w, I⟩ := parse_inv acts; exact I.mre_eq

theorem parse_stack_root (acts : List Act) : (prun PSt.init acts).stack.getLast? = some 0 := by
  obtain ⟨w, I⟩ := parse_inv acts; exact I.root

theorem parse_open_last (acts : List Act) (c : Nat) (hc : c ∈ (prun PSt.init acts).stack) :
    ((prun PSt.init acts).heap.kind c).isTag = true ∧
    lastDown (prun PSt.init acts).heap (prun PSt.init acts).heap.cap c = (prun PSt.init acts).heap.next - 1 := by
  obtain ⟨w, I⟩ := parse_inv acts; exact I.open_last c hc

end BS.ParseLink
