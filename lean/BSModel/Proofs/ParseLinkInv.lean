import BSModel.Proofs.ParseLinkStep
/-! # Parse-time linkage, part 3: the invariant of the parser's state and the theorem `parse_wf` -/
namespace BS.ParseLink
open BS.Heap

/-! ### the new witness, read off -/

theorem fresh_leaf {h : Heap} {w : Wit} (hwf : WF h w) {x : Nat} (hx : h.parent x = none) (hxk : h.kids x = []) :
    w.tree x = x ∧ w.pos x = 0 ∧ w.size x = 1 := by
  obtain ⟨h1, h2⟩ := hwf.root_tree x hx
  have := hwf.tiles x
  rw [hxk] at this
  simp only [Tiles] at this
  exact ⟨h1, h2, by omega⟩

theorem appWit_x {h : Heap} {w : Wit} {cur x : Nat} (hwf : WF h w) (hx : h.parent x = none) (hxk : h.kids x = [])
    (hx0 : x ≠ 0) (hc0 : w.tree cur = 0) :
    (appWit w x cur).tree x = 0 ∧ (appWit w x cur).pos x = w.size 0 ∧ (appWit w x cur).size x = 1 := by
  obtain ⟨h1, h2, h3⟩ := fresh_leaf hwf hx hxk
  simp only [appWit, pasteWit, h1, h2, h3, hc0]
  simp [hx0]

theorem appWit_old {h : Heap} {w : Wit} {cur x : Nat} (hwf : WF h w) (hx : h.parent x = none) (hxk : h.kids x = [])
    (hx0 : x ≠ 0) (hc0 : w.tree cur = 0) (n : Nat) (hn : w.tree n = 0) :
    (appWit w x cur).tree n = 0 ∧ (appWit w x cur).pos n = w.pos n ∧
    (appWit w x cur).size n =
      if w.pos n ≤ w.pos cur ∧ w.pos cur < w.pos n + w.size n then w.size n + 1 else w.size n := by
  obtain ⟨h1, h2, h3⟩ := fresh_leaf hwf hx hxk
  have hb := hwf.bound n
  have hs := hwf.size_pos n
  rw [hn] at hb
  have h0x : ¬ (0 = x) := fun e => hx0 e.symm
  have hlt : ¬ (w.size 0 ≤ w.pos n) := by omega
  simp only [appWit, pasteWit, hn, hc0, h3, h0x, hlt, if_false, true_and, and_false]

/-! ### `_linkage_fixer` changes nothing -/

theorem setNs_self {h : Heap} {i : Nat} {v : Option Nat} (hv : h.ns i = v) : setNs h i v = h := by
  apply heap_ext <;> try (intros; rfl)
  intro j; simp only [setNs_ns]; split
  · subst_vars; rfl
  · rfl

theorem setNe_self {h : Heap} {i : Nat} {v : Option Nat} (hv : h.ne i = v) : setNe h i v = h := by
  apply heap_ext <;> try (intros; rfl)
  intro j; simp only [setNe_ne]; split
  · subst_vars; rfl
  · rfl

/-- the up-walk from a node that ends at the end of its document finds no next sibling -/
theorem fixerWalk_id {h : Heap} {w : Wit} (hwf : WF h w) (d c : Nat) :
    ∀ (f t : Nat), w.pos t + w.size t = w.size (w.tree t) → fixerWalk h d c f (some t) = h := by
  intro f
  induction f with
  | zero => intro t _; rfl
  | succ f ih =>
    intro t ht
    simp only [fixerWalk]
    cases hn : h.ns t with
    | some s =>
      exfalso
      obtain ⟨⟨p, hp1, hp2⟩, hs⟩ := (hwf.sib_ns t s).mp hn
      have t1 := (kid_in hwf hp1).1
      have t2 := (kid_in hwf hp2).1
      have hb := hwf.bound s
      have := hwf.size_pos s
      rw [t2, ← t1] at hb
      omega
    | none =>
      simp only
      cases hp : h.parent t with
      | none => cases f <;> rfl
      | some q =>
        obtain ⟨t1, _, t3⟩ := kid_in hwf hp
        have hb := hwf.bound q
        rw [← t1] at hb
        exact ih q (by rw [← t1]; omega)

theorem linkageFixer_id {h : Heap} {w : Wit} {cur x : Nat} {ks : List Nat} (hwf : WF h w)
    (hk : h.kids cur = ks ++ [x]) (hks : ks ≠ []) (hxks : x ∉ ks) (hxk : h.kids x = [])
    (hns : h.ns x = none) (hne : h.ne x = none) (hce : w.pos cur + w.size cur = w.size (w.tree cur)) :
    linkageFixer h cur = h := by
  cases ks with
  | nil => exact absurd rfl hks
  | cons first l =>
    have hh : (h.kids cur).head? = some first := by rw [hk]; rfl
    have hl : (h.kids cur).getLast? = some x := by rw [hk, List.getLast?_append]; rfl
    have hxf : ¬ (x = first) := by intro e; apply hxks; simp [e]
    unfold linkageFixer
    rw [hh, hl]
    simp only [hxf, false_and, if_false, setNs_self hns, hxk, List.isEmpty_nil, not_true_eq_false, and_false,
      setNe_self hne]
    exact fixerWalk_id hwf x x _ cur hce

/-! ### the invariant of the parser's state -/

/-- the open elements (`tagStack`) are the right spine of the document rooted at the BeautifulSoup object `0`:
    each of them ends at the end of the document; `_most_recent_element` is the last element of the document;
    the BeautifulSoup object stands outside the element chain -/
structure PInv (st : PSt) (w : Wit) : Prop where
  wf : WF st.heap w
  unl0 : w.unl 0 = true
  stk : ∀ c ∈ st.stack, (st.heap.kind c).isTag = true ∧ c < st.heap.next ∧ w.tree c = 0 ∧
    w.pos c + w.size c = w.size 0
  ord : st.stack.Pairwise (fun a b => w.pos b < w.pos a)
  root : st.stack.getLast? = some 0
  mre_some : ∀ m, st.mre = some m → w.tree m = 0 ∧ w.pos m + 1 = w.size 0 ∧ 1 ≤ w.pos m
  mre_none : st.mre = none → st.stack = [0] ∧ w.size 0 = 1
  kstr : ∀ n, st.heap.next ≤ n → st.heap.kind n = .str
  /-- every object created so far is in the document, at the position given by its creation number -/
  created : ∀ n, n < st.heap.next → w.tree n = 0 ∧ w.pos n = n
  size0 : w.size 0 = st.heap.next

theorem PInv.init : PInv PSt.init ⟨fun n => n, fun _ => 0, fun _ => 1, fun n => n = 0⟩ := by
  refine ⟨?_, by simp, ?_, by simp [PSt.init], rfl, ?_, ?_, ?_, ?_, rfl⟩
  · constructor <;> simp [PSt.init, Heap.empty, Tiles]
    · intro n hn; omega
  · intro c hc
    simp only [PSt.init, List.mem_singleton] at hc
    subst hc
    simp [PSt.init, Kind.isTag]
  · intro m hm; simp [PSt.init] at hm
  · intro _; exact ⟨rfl, rfl⟩
  · intro n hn
    simp only [PSt.init] at hn ⊢
    have : n ≠ 0 := by omega
    simp [this]
  · intro n hn
    simp only [PSt.init] at hn
    have : n = 0 := by omega
    simp [this]

/-- appending a freshly created object of class `k` to the innermost open element -/
theorem append_inv {st : PSt} {w : Wit} (I : PInv st w) {cur : Nat} {rest : List Nat}
    (hs : st.stack = cur :: rest) (k : Kind) (hk : k = .tag ∨ k = .str) :
    PInv ⟨parseAppend (alloc st.heap k []).1 cur st.mre st.heap.next, st.stack, some st.heap.next⟩
      (appWit w st.heap.next cur) ∧
    (parseAppend (alloc st.heap k []).1 cur st.mre st.heap.next).kind st.heap.next = k ∧
    (parseAppend (alloc st.heap k []).1 cur st.mre st.heap.next).next = st.heap.next + 1 ∧
    (appWit w st.heap.next cur).tree st.heap.next = 0 ∧
    (appWit w st.heap.next cur).pos st.heap.next = w.size 0 ∧
    (appWit w st.heap.next cur).size st.heap.next = 1 ∧
    (appWit w st.heap.next cur).size 0 = w.size 0 + 1 ∧
    (∀ c ∈ st.stack, (appWit w st.heap.next cur).pos c < w.size 0) := by
  have hks : k ≠ .soup := by rcases hk with rfl | rfl <;> decide
  have hwf1 : WF (alloc st.heap k []).1 w := alloc_wf I.wf k [] hks
  obtain ⟨hx, hxk, _⟩ := I.wf.fresh st.heap.next (Nat.le_refl _)
  obtain ⟨hk0, hp0⟩ := I.wf.unl_soup 0 I.unl0
  obtain ⟨ht0, hpos0⟩ := I.wf.root_tree 0 hp0
  have hcm : cur ∈ st.stack := by rw [hs]; simp
  obtain ⟨c1, c2, c3, c4⟩ := I.stk cur hcm
  have hkx : (alloc st.heap k []).1.kind st.heap.next = k := by simp [alloc]
  have hko : ∀ c, c ≠ st.heap.next → (alloc st.heap k []).1.kind c = st.heap.kind c := by
    intro c hc; simp [alloc, hc]
  have hx0 : st.heap.next ≠ 0 := by omega
  have hord : ∀ c ∈ st.stack, w.pos c ≤ w.pos cur := by
    intro c hc
    have ho := I.ord
    rw [hs] at hc ho
    rcases List.mem_cons.mp hc with rfl | hc'
    · exact Nat.le_refl _
    · exact Nat.le_of_lt ((List.pairwise_cons.mp ho).1 c hc')
  have hwf2 := parseAppend_wf (mre := st.mre) (x := st.heap.next) (cur := cur) hwf1 I.unl0 hx hxk
    (by rw [hkx]; exact hks) (by show st.heap.next < st.heap.next + 1; omega)
    (by rw [hko cur (by omega)]; exact c1) (by show cur < st.heap.next + 1; omega) c3 c4 I.mre_some
    (by
      intro hm
      obtain ⟨e1, e2⟩ := I.mre_none hm
      rw [hs] at e1
      exact ⟨by cases e1; rfl, e2⟩)
  obtain ⟨r1, r2, r3, r4, r5, r6, r7, r8, r9, r10⟩ :=
    parseAppend_reads (alloc st.heap k []).1 cur st.mre st.heap.next
  obtain ⟨x1, x2, x3⟩ := appWit_x (cur := cur) hwf1 hx hxk hx0 c3
  have hold := appWit_old (cur := cur) hwf1 hx hxk hx0 c3
  have hsc := I.wf.size_pos cur
  have hs0 : (appWit w st.heap.next cur).size 0 = w.size 0 + 1 := by
    rw [(hold 0 ht0).2.2, if_pos (by omega)]
  have hstk : ∀ c ∈ st.stack, (appWit w st.heap.next cur).tree c = 0 ∧
      (appWit w st.heap.next cur).pos c = w.pos c ∧ (appWit w st.heap.next cur).size c = w.size c + 1 := by
    intro c hc
    obtain ⟨_, _, d3, d4⟩ := I.stk c hc
    have := hord c hc
    obtain ⟨o1, o2, o3⟩ := hold c d3
    exact ⟨o1, o2, by rw [o3, if_pos (by omega)]⟩
  have hnext : (parseAppend (alloc st.heap k []).1 cur st.mre st.heap.next).next = st.heap.next + 1 := by
    rw [r9]; rfl
  refine ⟨⟨hwf2, I.unl0, ?_, ?_, I.root, ?_, ?_, ?_, ?_, ?_⟩, by rw [r7]; exact hkx, hnext, x1, x2, x3, hs0, ?_⟩
  · intro c hc
    obtain ⟨d1, d2, d3, d4⟩ := I.stk c hc
    obtain ⟨o1, o2, o3⟩ := hstk c hc
    refine ⟨?_, ?_, o1, by rw [o2, o3, hs0]; omega⟩
    · show ((parseAppend (alloc st.heap k []).1 cur st.mre st.heap.next).kind c).isTag = true
      rw [r7, hko c (by omega)]; exact d1
    · show c < (parseAppend (alloc st.heap k []).1 cur st.mre st.heap.next).next
      rw [r9]; show c < st.heap.next + 1; omega
  · show st.stack.Pairwise _
    apply List.Pairwise.imp_of_mem _ I.ord
    intro a b ha hb hab
    rw [(hstk a ha).2.1, (hstk b hb).2.1]; exact hab
  · intro m hm
    cases hm
    have := I.wf.size_pos 0
    exact ⟨x1, by rw [x2, hs0], by rw [x2]; exact this⟩
  · intro hm; cases hm
  · intro n hn
    show (parseAppend (alloc st.heap k []).1 cur st.mre st.heap.next).kind n = .str
    have hn' : st.heap.next + 1 ≤ n := by
      have : (parseAppend (alloc st.heap k []).1 cur st.mre st.heap.next).next = st.heap.next + 1 := by rw [r9]; rfl
      rw [← this]; exact hn
    rw [r7, hko n (by omega)]
    exact I.kstr n (by omega)
  · intro n hn
    have hn' : n < st.heap.next + 1 := by rw [← hnext]; exact hn
    by_cases hnx : n = st.heap.next
    · subst hnx; exact ⟨x1, by rw [x2, I.size0]⟩
    · obtain ⟨e1, e2⟩ := I.created n (by omega)
      obtain ⟨o1, o2, _⟩ := hold n e1
      exact ⟨o1, by rw [o2, e2]⟩
  · show (appWit w st.heap.next cur).size 0 = (parseAppend (alloc st.heap k []).1 cur st.mre st.heap.next).next
    rw [hs0, hnext, I.size0]
  · intro c hc
    obtain ⟨_, _, _, d4⟩ := I.stk c hc
    have := I.wf.size_pos c
    rw [(hstk c hc).2.1]; omega

/-! ### the three actions -/

theorem pstep_newTag {st : PSt} {cur : Nat} {rest : List Nat} (hs : st.stack = cur :: rest) :
    pstep st .newTag = ⟨parseAppend (alloc st.heap .tag []).1 cur st.mre st.heap.next, st.heap.next :: st.stack,
      some st.heap.next⟩ := by
  simp only [pstep, hs]; rfl

theorem pstep_newStr {st : PSt} {cur : Nat} {rest : List Nat} (hs : st.stack = cur :: rest) :
    pstep st .newStr =
      ⟨if (alloc st.heap .str []).1.ne cur ≠ none
        then linkageFixer (parseAppend (alloc st.heap .str []).1 cur st.mre st.heap.next) cur
        else parseAppend (alloc st.heap .str []).1 cur st.mre st.heap.next, st.stack, some st.heap.next⟩ := by
  simp only [pstep, hs]; rfl

theorem pstep_nil {st : PSt} (hs : st.stack = []) (a : Act) : pstep st a = st := by
  cases a <;> simp only [pstep, hs]

theorem pstep_pop_root {st : PSt} {a : Nat} (hs : st.stack = [a]) : pstep st .pop = st := by
  simp only [pstep, hs]

theorem pstep_pop {st : PSt} {a b : Nat} {r : List Nat} (hs : st.stack = a :: b :: r) :
    pstep st .pop = { st with stack := b :: r } := by
  simp only [pstep, hs]

/-- in every reachable state `_linkage_fixer` is a no-op: the parent already had children, the new string is the
    last element of the document, and no open element has a next sibling -/
theorem newStr_fixer_noop {st : PSt} {w : Wit} (I : PInv st w) {cur : Nat} {rest : List Nat}
    (hs : st.stack = cur :: rest) (hfix : (alloc st.heap .str []).1.ne cur ≠ none) :
    linkageFixer (parseAppend (alloc st.heap .str []).1 cur st.mre st.heap.next) cur =
      parseAppend (alloc st.heap .str []).1 cur st.mre st.heap.next := by
  obtain ⟨J, _⟩ := append_inv I hs .str (Or.inr rfl)
  obtain ⟨r1, r2, r3, r4, r5, r6, r7, r8, r9, r10⟩ :=
    parseAppend_reads (alloc st.heap .str []).1 cur st.mre st.heap.next
  have hcm : cur ∈ st.stack := by rw [hs]; simp
  obtain ⟨c1, c2, c3, c4⟩ := I.stk cur hcm
  obtain ⟨hx, hxk, _⟩ := I.wf.fresh st.heap.next (Nat.le_refl _)
  have hxnk : st.heap.next ∉ st.heap.kids cur := by
    intro hm; have := I.wf.kid_parent cur _ hm; rw [hx] at this; cases this
  have hl : ((alloc st.heap .str []).1.kids cur).getLast? ≠ some st.heap.next :=
    fun e => hxnk (List.mem_of_getLast? e)
  -- `cur.next_element` was set, so `cur` already had children
  have hks : st.heap.kids cur ≠ [] := by
    intro hk
    have ht := I.wf.tiles cur
    rw [hk] at ht; simp only [Tiles] at ht
    cases hn : st.heap.ne cur with
    | none => exact hfix hn
    | some b =>
      obtain ⟨_, b2, b3⟩ := (I.wf.chain_ne cur b).mp hn
      have hb := I.wf.bound b
      have := I.wf.size_pos b
      rw [← b2, c3] at hb
      omega
  obtain ⟨d1, d2, d3, d4⟩ := J.stk cur hcm
  apply linkageFixer_id (w := appWit w st.heap.next cur) (x := st.heap.next) (ks := st.heap.kids cur) J.wf
  · rw [r6]; simp; rfl
  · exact hks
  · exact hxnk
  · rw [r6, if_neg (by omega)]; exact hxk
  · rw [r3, if_neg hl, if_pos rfl]
  · rw [r5, if_pos rfl]
  · rw [d3]; exact d4

theorem pstep_inv {st : PSt} {w : Wit} (I : PInv st w) (a : Act) : ∃ w', PInv (pstep st a) w' := by
  cases hs : st.stack with
  | nil => rw [pstep_nil hs]; exact ⟨w, I⟩
  | cons cur rest =>
    cases a with
    | newTag =>
      rw [pstep_newTag hs]
      obtain ⟨J, jk, jn, j1, j2, j3, j4, j5⟩ := append_inv I hs .tag (Or.inl rfl)
      refine ⟨_, ⟨J.wf, J.unl0, ?_, ?_, ?_, J.mre_some, ?_, J.kstr, J.created, J.size0⟩⟩
      · intro c hc
        rcases List.mem_cons.mp hc with rfl | hc'
        · refine ⟨?_, ?_, j1, by rw [j2, j3, j4]⟩
          · show ((parseAppend (alloc st.heap .tag []).1 cur st.mre st.heap.next).kind st.heap.next).isTag = true
            rw [jk]; rfl
          · show st.heap.next < (parseAppend (alloc st.heap .tag []).1 cur st.mre st.heap.next).next
            rw [jn]; omega
        · exact J.stk c hc'
      · show (st.heap.next :: st.stack).Pairwise _
        rw [List.pairwise_cons]
        exact ⟨fun c hc => by rw [j2]; exact j5 c hc, J.ord⟩
      · show (st.heap.next :: st.stack).getLast? = some 0
        have := I.root
        rw [hs] at this ⊢
        rw [List.getLast?_cons_cons]; exact this
      · intro hm; cases hm
    | newStr =>
      rw [pstep_newStr hs]
      obtain ⟨J, _⟩ := append_inv I hs .str (Or.inr rfl)
      refine ⟨appWit w st.heap.next cur, ?_⟩
      by_cases hfix : (alloc st.heap .str []).1.ne cur ≠ none
      · rw [if_pos hfix, newStr_fixer_noop I hs hfix]; exact J
      · rw [if_neg hfix]; exact J
    | pop =>
      cases rest with
      | nil => rw [pstep_pop_root hs]; exact ⟨w, I⟩
      | cons b r =>
        rw [pstep_pop hs]
        refine ⟨w, ⟨I.wf, I.unl0, ?_, ?_, ?_, I.mre_some, ?_, I.kstr, I.created, I.size0⟩⟩
        · intro c hc
          exact I.stk c (by rw [hs]; exact List.mem_cons_of_mem _ hc)
        · have := I.ord
          rw [hs] at this
          exact (List.pairwise_cons.mp this).2
        · have := I.root
          rw [hs, List.getLast?_cons_cons] at this
          exact this
        · intro hm
          have := (I.mre_none hm).1
          rw [hs] at this; cases this

theorem prun_inv : ∀ (acts : List Act) (st : PSt) (w : Wit), PInv st w → ∃ w', PInv (prun st acts) w'
  | [], _, w, I => ⟨w, I⟩
  | a :: as, st, _, I => by
    obtain ⟨w1, I1⟩ := pstep_inv I a
    exact prun_inv as (pstep st a) w1 I1

theorem parse_inv (acts : List Act) : ∃ w, PInv (prun PSt.init acts) w := prun_inv acts _ _ PInv.init

/-- **parse-time linkage always yields a consistent pointer heap** -/
theorem parse_wf : ∀ acts, Good (prun PSt.init acts).heap := by
  intro acts
  obtain ⟨w, I⟩ := parse_inv acts
  exact ⟨w, I.wf⟩

theorem parse_good2 : ∀ acts, Good2 (prun PSt.init acts).heap := by
  intro acts
  obtain ⟨w, I⟩ := parse_inv acts
  exact ⟨⟨w, I.wf⟩, I.kstr⟩

end BS.ParseLink

#print axioms BS.ParseLink.parse_wf
#print axioms BS.ParseLink.parse_good2
