import BSModel.Proofs.ParseLink
/-! # Parse-time linkage, part 2: one `parseAppend` at the end of the document keeps the heap consistent -/
namespace BS.ParseLink
open BS.Heap

/-- linking a fresh leaf `x` as the last child of a node `cur` that ends at the end of document `0`:
    the element before `x` is the last element of the document, nothing follows `x` -/
theorem link_at_end {h : Heap} {w : Wit} {cur x : Nat} (hwf : WF h w)
    (hx : h.parent x = none) (hxk : h.kids x = []) (hkx : h.kind x ≠ .soup) (hxn : x < h.next)
    (hct : (h.kind cur).isTag = true) (hcn : cur < h.next) (hx0 : x ≠ 0)
    (hc0 : w.tree cur = 0) (hce : w.pos cur + w.size cur = w.size 0) :
    ∃ h' pred, linkChild h cur (h.kids cur).length x = .ok h' ∧ WF h' (pasteWit w x cur (w.size 0)) ∧
      w.tree pred = 0 ∧ w.pos pred + 1 = w.size 0 ∧
      Linked h h' cur x pred x none (h.kids cur).getLast? none (h.kids cur ++ [x]) := by
  have hpx : w.tree cur ≠ x := by rw [hc0]; exact fun e => hx0 e.symm
  obtain ⟨h', hok, hwf', _⟩ := linkChild_spec h w cur (h.kids cur).length x hwf hx hkx hct hpx (Nat.le_refl _) hxn hcn
  obtain ⟨h'', g, hok2, g1, g2, L⟩ := linkChild_linked h cur (h.kids cur).length x (Nat.le_refl _)
  have G := geo_of h w cur (h.kids cur).length x g hwf hx hkx hpx (Nat.le_refl _) g1 g2
  have e : h'' = h' := by rw [hok] at hok2; cases hok2; rfl
  subst e
  have hP : boundary w.size (h.kids cur) (w.pos cur + 1) (h.kids cur).length = w.size 0 := by
    rw [(boundary_spec w.pos w.size (h.kids cur) _ _ _ (hwf.tiles cur) (Nat.le_refl _)).2.1 rfl, hce]
  rw [hP] at hwf' G
  simp only [Nat.le_refl, if_true] at L G
  generalize nextAfter g h.cap cur = succ at L G
  have hs : succ = none := by
    cases hsc : succ with
    | none => rfl
    | some b =>
      have hb1 := (G.succ_iff b).mp hsc
      have hb := hwf.bound b
      have := hwf.size_pos b
      rw [hb1.1, hc0] at hb
      omega
  subst hs
  rw [lastDown_leaf h h.cap x hxk, prevSibOf_end, List.getElem?_eq_none (Nat.le_refl _),
    List.insertIdx_length_self] at L
  refine ⟨h'', predOf h cur (h.kids cur).length, hok, hwf', ?_, G.pred_p, L⟩
  rw [G.pred_t, hc0]

/-- … so, when `_most_recent_element` is the last element of the document, `setup` + `append` is `linkChild` -/
theorem parseAppend_some_eq {h h' : Heap} {cur x m : Nat}
    (L : Linked h h' cur x m x none (h.kids cur).getLast? none (h.kids cur ++ [x])) (hxk : x ∉ h.kids cur) :
    parseAppend h cur (some m) x = h' := by
  obtain ⟨r1, r2, r3, r4, r5, r6, r7, r8, r9, r10⟩ := parseAppend_reads h cur (some m) x
  have hl : (h.kids cur).getLast? ≠ some x := fun e => hxk (List.mem_of_getLast? e)
  apply heap_ext
  · intro j; rw [r1, L.parent]
  · intro j; rw [r2, L.ps]; simp
  · intro j; rw [r3, L.ns]; grind
  · intro j; rw [r4, L.pe]; simp
  · intro j; rw [r5, L.ne]; grind
  · intro j; rw [r6, L.kids]
  · rw [r7, L.kind]
  · rw [r8, L.val]
  · rw [r9, L.next]
  · rw [r10, L.cap]

/-- … and for the very first element it is `linkChild` followed by cutting the root out of the chain -/
theorem parseAppend_none_eq {h h' : Heap} {x : Nat}
    (L : Linked h h' 0 x 0 x none (h.kids 0).getLast? none (h.kids 0 ++ [x])) (hxk : x ∉ h.kids 0)
    (hx0 : x ≠ 0) (hne : h.ne 0 = none) :
    parseAppend h 0 none x = setPe (setNe h' 0 none) x none := by
  obtain ⟨r1, r2, r3, r4, r5, r6, r7, r8, r9, r10⟩ := parseAppend_reads h 0 none x
  have hl : (h.kids 0).getLast? ≠ some x := fun e => hxk (List.mem_of_getLast? e)
  apply heap_ext
  · intro j; rw [r1]; simp [L.parent]
  · intro j; rw [r2]; simp [L.ps]
  · intro j; rw [r3]; simp only [setPe_ns, setNe_ns, L.ns]; grind
  · intro j; rw [r4]; simp only [setPe_pe, setNe_pe, L.pe]; grind
  · intro j; rw [r5]; simp only [setPe_ne, setNe_ne, L.ne]; grind
  · intro j; rw [r6]; simp [L.kids]
  · rw [r7]; simp [L.kind]
  · rw [r8]; simp [L.val]
  · rw [r9]; simp [L.next]
  · rw [r10]; simp [L.cap]

/-- witness after the parser appended the fresh node `x` to `cur`, at the end of document `0`; the
    BeautifulSoup object keeps standing outside the element chain -/
def appWit (w : Wit) (x cur : Nat) : Wit :=
  { pasteWit w x cur (w.size 0) with unl := w.unl }

/-- **one parser append keeps the heap consistent**: `cur` is an open element (it ends at the end of the
    document), `mre` is the last element of the document (or nothing has been created yet) -/
theorem parseAppend_wf {h : Heap} {w : Wit} {cur x : Nat} {mre : Option Nat} (hwf : WF h w)
    (hu : w.unl 0 = true)
    (hx : h.parent x = none) (hxk : h.kids x = []) (hkx : h.kind x ≠ .soup) (hxn : x < h.next)
    (hct : (h.kind cur).isTag = true) (hcn : cur < h.next)
    (hc0 : w.tree cur = 0) (hce : w.pos cur + w.size cur = w.size 0)
    (hms : ∀ m, mre = some m → w.tree m = 0 ∧ w.pos m + 1 = w.size 0 ∧ 1 ≤ w.pos m)
    (hmn : mre = none → cur = 0 ∧ w.size 0 = 1) :
    WF (parseAppend h cur mre x) (appWit w x cur) := by
  obtain ⟨hk0, hp0⟩ := hwf.unl_soup 0 hu
  obtain ⟨ht0, hpos0⟩ := hwf.root_tree 0 hp0
  have hx0 : x ≠ 0 := by intro e; subst e; exact hkx hk0
  have hxnk : x ∉ h.kids cur := by
    intro hm; have := hwf.kid_parent cur x hm; rw [hx] at this; cases this
  obtain ⟨h', pred, hok, hwf', hpt, hpp, L⟩ := link_at_end hwf hx hxk hkx hxn hct hcn hx0 hc0 hce
  cases hm : mre with
  | some m =>
    obtain ⟨m1, m2, m3⟩ := hms m hm
    have : pred = m := hwf.inj pred m (by rw [hpt, m1]) (by omega)
    subst this
    rw [parseAppend_some_eq L hxnk]
    have hw : appWit w x cur = pasteWit w x cur (w.size 0) := by
      simp only [appWit, pasteWit, Wit.mk.injEq, true_and]
      funext n
      have : w.size 0 ≠ 1 := by omega
      simp [this]
    rw [hw]; exact hwf'
  | none =>
    obtain ⟨hc, hs1⟩ := hmn hm
    subst hc
    have : pred = 0 := hwf.inj pred 0 (by rw [hpt, ht0]) (by omega)
    subst this
    have hne : h.ne 0 = none := by
      cases hn : h.ne 0 with
      | none => rfl
      | some b => have := (hwf.chain_ne 0 b).mp hn; rw [hu] at this; cases this.1
    rw [parseAppend_none_eq L hxnk hx0 hne]
    obtain ⟨hxt, hxp⟩ := hwf.root_tree x hx
    have hw : appWit w x 0 = unlWit (pasteWit w x 0 (w.size 0)) 0 := by
      simp only [appWit, pasteWit, unlWit, Wit.mk.injEq, true_and]
      funext n
      by_cases hn : n = 0
      · subst hn; simp [hu]
      · simp [hn]
    rw [hw]
    apply unlink_root hwf' 0 x
    · rw [L.kind]; exact hk0
    · rw [L.parent]; simp [Ne.symm hx0, hp0]
    · rw [L.next]; omega
    · simp [pasteWit, hxt, ht0]
    · simp [pasteWit, hxt, hxp, hs1]

end BS.ParseLink
