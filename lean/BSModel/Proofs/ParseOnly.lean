import BSModel.Model.ParseOnly
import BSModel.Proofs.BuilderBal
/-! # C16 helper lemmas: the filtered machine in deep mode (a kept element is open) and in root mode -/
namespace BS.ParseOnly
open BS.Builder

theorem fRun_cons (cfg : Cfg) (f : Filt) (s : SSt) (e : Ev) (es : List Ev) :
    fRun cfg f s (e :: es) = fRun cfg f (fStep cfg f s e) es := rfl

theorem fRun_nil (cfg : Cfg) (f : Filt) (s : SSt) : fRun cfg f s [] = s := rfl

theorem fRun_append (cfg : Cfg) (f : Filt) (s : SSt) (a b : List Ev) :
    fRun cfg f s (a ++ b) = fRun cfg f (fRun cfg f s a) b := by
  simp [fRun, List.foldl_append]

/-! ### deep mode: at least two frames open -/

theorem fFlush_deep (cfg : Cfg) (f : Filt) (top below : Frame) (rest : List Frame) (b : List PStr)
    (cls : Option Cls) :
    fFlush cfg f ⟨top :: below :: rest, b⟩ cls = sFlush cfg ⟨top :: below :: rest, b⟩ cls := by
  cases b with
  | nil => simp [fFlush, sFlush]
  | cons x xs => simp only [fFlush]

theorem fStep_deep (cfg : Cfg) (f : Filt) (top below : Frame) (rest : List Frame) (b : List PStr) (ev : Ev) :
    fStep cfg f ⟨top :: below :: rest, b⟩ ev = sStep cfg ⟨top :: below :: rest, b⟩ ev := by
  cases ev with
  | start n p => simp [fStep, sStep, fFlush_deep, sFlush_eq]
  | stop n p => simp only [fStep, sStep, fFlush_deep]
  | data s => rfl
  | endData c => simp only [fStep, sStep, fFlush_deep]

mutual
theorem deep_forest (cfg : Cfg) (f : Filt) : ∀ (ds : List Doc), noRootL cfg ds = true →
    ∀ (top below : Frame) (rest : List Frame) (b : List PStr),
    fRun cfg f ⟨top :: below :: rest, b⟩ (eventsL ds) = sRun cfg ⟨top :: below :: rest, b⟩ (eventsL ds)
  | [], _, top, below, rest, b => by simp [eventsL, fRun_nil, sRun_nil]
  | d :: ds, hok, top, below, rest, b => by
    simp only [noRootL, Bool.and_eq_true] at hok
    simp only [eventsL, fRun_append, sRun_append]
    rw [deep_doc cfg f d hok.1 top below rest b, run_doc cfg d hok.1 top (below :: rest) b,
      deep_forest cfg f ds hok.2 _ below rest _]
theorem deep_doc (cfg : Cfg) (f : Filt) : ∀ (d : Doc), noRoot cfg d = true →
    ∀ (top below : Frame) (rest : List Frame) (b : List PStr),
    fRun cfg f ⟨top :: below :: rest, b⟩ (events d) = sRun cfg ⟨top :: below :: rest, b⟩ (events d)
  | .text c s, _, top, below, rest, b => by
    by_cases hc : c = 0
    · simp [events, hc, fRun_cons, fRun_nil, sRun_cons, sRun_nil, fStep_deep]
    · simp only [events, hc, if_false, fRun_cons, fRun_nil, sRun_cons, sRun_nil, fStep_deep]
      simp only [sStep, sFlush_eq, fStep_deep]
  | .elem n p ks, hok, top, below, rest, b => by
    simp only [noRoot, Bool.and_eq_true, bne_iff_ne, ne_eq] at hok
    simp only [events, fRun_cons, fRun_append, sRun_cons, sRun_append, fStep_deep, sStep_start]
    rw [deep_forest cfg f ks hok.2 ⟨n, p, []⟩ _ (below :: rest) [], run_forest cfg ks hok.2 ⟨n, p, []⟩ _ []]
    simp only [fRun_nil, sRun_nil, fStep_deep]
end

/-! ### root mode: only the BeautifulSoup object is open -/

/-- what a flush appends at the root: the collapsed run, if the filter allows it -/
def txtRoot (cfg : Cfg) (f : Filt) (b : List PStr) (cls : Option Cls) : List Doc :=
  match b with
  | [] => []
  | _ :: _ =>
    let s := wsVal cfg false b.flatten
    if f.allowString s then [Doc.text (cls.getD 0) s] else []

theorem classN_root {cfg : Cfg} (hc : CfgOK cfg) (cls : Option Cls) :
    classN cfg [cfg.rootName] cls = cls.getD 0 := by
  simp only [classN, List.find?_cons, hc.2, Option.isSome_none, List.find?_nil, Option.bind_none,
    Option.getD_none]
  split <;> simp_all

/-- a root-level string survives iff the filter accepts its final value; class and value are those of the
    unfiltered parse -/
theorem txtRoot_eq_filter {cfg : Cfg} (hc : CfgOK cfg) (f : Filt) (b : List PStr) (cls : Option Cls) :
    txtRoot cfg f b cls =
      (txtN cfg [cfg.rootName] b cls).filter
        (fun d => match d with | .text _ s => f.allowString s | .elem _ _ _ => true) := by
  cases b with
  | nil => rfl
  | cons x xs =>
    simp only [txtRoot, txtN, classN_root hc, List.any_cons, hc.1, List.any_nil, Bool.or_false]
    generalize wsVal cfg false (x :: xs).flatten = v
    cases h : f.allowString v <;> simp [List.filter, h]

theorem fFlush_root {cfg : Cfg} (hc : CfgOK cfg) (f : Filt) (pfx : Option Name) (kids : List Doc)
    (b : List PStr) (cls : Option Cls) :
    fFlush cfg f ⟨[⟨cfg.rootName, pfx, kids⟩], b⟩ cls =
      ⟨[⟨cfg.rootName, pfx, kids ++ txtRoot cfg f b cls⟩], []⟩ := by
  cases b with
  | nil => simp [fFlush, txtRoot]
  | cons x xs =>
    have hp : preserving cfg [⟨cfg.rootName, pfx, kids⟩] = false := by simp [preserving, hc.1]
    have hcl : classFor cfg [⟨cfg.rootName, pfx, kids⟩] cls = cls.getD 0 := by
      rw [classFor_names]; exact classN_root hc cls
    simp only [fFlush, txtRoot, hp, hcl]
    change (if f.allowString (wsVal cfg false (x :: xs).flatten) = true then _ else _) = _
    cases h : f.allowString (wsVal cfg false (x :: xs).flatten)
    · simp only [Bool.false_eq_true, if_false, List.append_nil]
    · simp only [if_true]; rfl

mutual
/-- what the filtered machine appends to the BeautifulSoup object for a forest, and the text left pending,
    given the pending chunks `b` -/
def outer (cfg : Cfg) (f : Filt) : List PStr → List Doc → List Doc × List PStr
  | b, [] => ([], b)
  | b, d :: ds =>
    let r := outer1 cfg f b d
    let r2 := outer cfg f r.2 ds
    (r.1 ++ r2.1, r2.2)
/-- … for one node -/
def outer1 (cfg : Cfg) (f : Filt) : List PStr → Doc → List Doc × List PStr
  | b, .text c s =>
    if c = 0 then ([], b ++ [s]) else (txtRoot cfg f b none ++ txtRoot cfg f [s] (some c), [])
  | b, .elem n p ks =>
    if f.allowTag n p then
      -- kept: built exactly as the plain machine builds it below the root
      let r := absorb cfg [n, cfg.rootName] [] ks
      (txtRoot cfg f b none ++ [Doc.elem n p (r.1 ++ txtN cfg [n, cfg.rootName] r.2 none)], [])
    else
      -- dropped: its start tag flushes the pending text, its children are handled at the root, its end
      -- tag flushes again
      let r := outer cfg f [] ks
      (txtRoot cfg f b none ++ r.1 ++ txtRoot cfg f r.2 none, [])
end

theorem closeCount_nil (n : Name) (p : Option Name) : closeCount n p [] = 0 := by
  simp [closeCount]

mutual
theorem root_forest {cfg : Cfg} (hc : CfgOK cfg) (f : Filt) : ∀ (ds : List Doc), noRootL cfg ds = true →
    ∀ (pfx : Option Name) (kids : List Doc) (b : List PStr),
    fRun cfg f ⟨[⟨cfg.rootName, pfx, kids⟩], b⟩ (eventsL ds) =
      ⟨[⟨cfg.rootName, pfx, kids ++ (outer cfg f b ds).1⟩], (outer cfg f b ds).2⟩
  | [], _, pfx, kids, b => by simp [eventsL, fRun_nil, outer]
  | d :: ds, hok, pfx, kids, b => by
    simp only [noRootL, Bool.and_eq_true] at hok
    simp only [eventsL, fRun_append, outer]
    rw [root_doc hc f d hok.1 pfx kids b, root_forest hc f ds hok.2]
    simp [List.append_assoc]
theorem root_doc {cfg : Cfg} (hc : CfgOK cfg) (f : Filt) : ∀ (d : Doc), noRoot cfg d = true →
    ∀ (pfx : Option Name) (kids : List Doc) (b : List PStr),
    fRun cfg f ⟨[⟨cfg.rootName, pfx, kids⟩], b⟩ (events d) =
      ⟨[⟨cfg.rootName, pfx, kids ++ (outer1 cfg f b d).1⟩], (outer1 cfg f b d).2⟩
  | .text c s, _, pfx, kids, b => by
    by_cases h0 : c = 0
    · simp [events, outer1, h0, fRun_cons, fRun_nil, fStep]
    · simp only [events, outer1, h0, if_false, fRun_cons, fRun_nil, fStep, fFlush_root hc,
        List.nil_append, List.append_assoc]
  | .elem n p ks, hok, pfx, kids, b => by
    simp only [noRoot, Bool.and_eq_true, bne_iff_ne, ne_eq] at hok
    simp only [events, fRun_cons, fRun_append, fRun_nil]
    by_cases hf : f.allowTag n p = true
    · -- kept: push, absorb the whole subtree in deep mode, close into the root
      have h1 : fStep cfg f ⟨[⟨cfg.rootName, pfx, kids⟩], b⟩ (.start n p) =
          ⟨[⟨n, p, []⟩, ⟨cfg.rootName, pfx, kids ++ txtRoot cfg f b none⟩], []⟩ := by
        simp [fStep, fFlush_root hc, hf]
      rw [h1, deep_forest cfg f ks hok.2, run_forest cfg ks hok.2, fStep_deep]
      simp only [List.map_cons, List.map_nil, List.nil_append]
      rw [sStep_stop_top cfg n p _ _ [] _ hok.1]
      simp [outer1, hf, List.append_assoc]
    · -- dropped: nothing pushed, contents handled at the root, the end tag finds nothing to close
      have hf' : f.allowTag n p = false := by simpa using hf
      have h1 : fStep cfg f ⟨[⟨cfg.rootName, pfx, kids⟩], b⟩ (.start n p) =
          ⟨[⟨cfg.rootName, pfx, kids ++ txtRoot cfg f b none⟩], []⟩ := by
        simp [fStep, fFlush_root hc, hf']
      rw [h1, root_forest hc f ks hok.2]
      simp only [fStep, fFlush_root hc]
      simp [closeCount_nil, sCloseN, outer1, hf', List.append_assoc]
end

theorem fBuild_events {cfg : Cfg} (hc : CfgOK cfg) (f : Filt) (ds : List Doc) (hok : noRootL cfg ds = true) :
    fBuild cfg f (eventsL ds) = (outer cfg f [] ds).1 ++ txtRoot cfg f (outer cfg f [] ds).2 none := by
  simp only [fBuild]
  rw [root_forest hc f ds hok, fFlush_root hc]
  simp [sCloseN]

end BS.ParseOnly
