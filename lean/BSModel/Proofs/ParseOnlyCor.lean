import BSModel.Proofs.ParseOnly
/-! # C16 helper lemmas: the root-mode result in the property's words
(outermost matches; text runs; independence of the normal form from context names that carry no context) -/
namespace BS.ParseOnly
open BS.Builder

/-! ### filters that refuse every string / every tag -/

theorem txtRoot_refused {cfg : Cfg} {f : Filt} (hs : ∀ s, f.allowString s = false) (b : List PStr)
    (cls : Option Cls) : txtRoot cfg f b cls = [] := by
  cases b <;> simp [txtRoot, hs]

mutual
theorem outer_nothing {cfg : Cfg} {f : Filt} (ht : ∀ n p, f.allowTag n p = false)
    (hs : ∀ s, f.allowString s = false) : ∀ (ds : List Doc) (b : List PStr), (outer cfg f b ds).1 = []
  | [], b => by simp [outer]
  | d :: ds, b => by simp [outer, outer1_nothing ht hs d, outer_nothing ht hs ds]
theorem outer1_nothing {cfg : Cfg} {f : Filt} (ht : ∀ n p, f.allowTag n p = false)
    (hs : ∀ s, f.allowString s = false) : ∀ (d : Doc) (b : List PStr), (outer1 cfg f b d).1 = []
  | .text c s, b => by
    by_cases h0 : c = 0 <;> simp [outer1, h0, txtRoot_refused hs]
  | .elem n p ks, b => by
    simp [outer1, ht, txtRoot_refused hs, outer_nothing ht hs ks]
end

/-! ### outermost matches -/

mutual
/-- the outermost matching elements of a forest, in document order (pre-order; a match is not descended into) -/
def outermost (f : Filt) : List Doc → List Doc
  | [] => []
  | d :: ds => outermost1 f d ++ outermost f ds
def outermost1 (f : Filt) : Doc → List Doc
  | .text _ _ => []
  | .elem n p ks => if f.allowTag n p then [Doc.elem n p ks] else outermost f ks
end

/-- a kept element: its whole subtree in the normal form the machine gives it directly below the
    BeautifulSoup object (text merging, whitespace rule and class rule under the names `[n, root]`) -/
def normElem (cfg : Cfg) : Doc → Doc
  | .elem n p ks =>
    let r := absorb cfg [n, cfg.rootName] [] ks
    Doc.elem n p (r.1 ++ txtN cfg [n, cfg.rootName] r.2 none)
  | .text c s => .text c s

mutual
theorem outer_tags {cfg : Cfg} {f : Filt} (hs : ∀ s, f.allowString s = false) :
    ∀ (ds : List Doc) (b : List PStr), (outer cfg f b ds).1 = (outermost f ds).map (normElem cfg)
  | [], b => by simp [outer, outermost]
  | d :: ds, b => by simp [outer, outermost, outer1_tags hs d, outer_tags hs ds]
theorem outer1_tags {cfg : Cfg} {f : Filt} (hs : ∀ s, f.allowString s = false) :
    ∀ (d : Doc) (b : List PStr), (outer1 cfg f b d).1 = (outermost1 f d).map (normElem cfg)
  | .text c s, b => by
    by_cases h0 : c = 0 <;> simp [outer1, outermost1, h0, txtRoot_refused hs]
  | .elem n p ks, b => by
    by_cases hf : f.allowTag n p = true
    · simp [outer1, outermost1, hf, txtRoot_refused hs, normElem]
    · have hf' : f.allowTag n p = false := by simpa using hf
      simp [outer1, outermost1, hf', txtRoot_refused hs, outer_tags hs ks]
end

theorem outermost_append (f : Filt) (a b : List Doc) :
    outermost f (a ++ b) = outermost f a ++ outermost f b := by
  induction a with
  | nil => simp [outermost]
  | cons d ds ih => simp [outermost, ih, List.append_assoc]

theorem outermost_txtN (cfg : Cfg) (f : Filt) (ctx : List Name) (b : List PStr) (cls : Option Cls) :
    outermost f (txtN cfg ctx b cls) = [] := by
  cases b <;> simp [txtN, outermost, outermost1]

/-! ### the normal form depends on the enclosing names only through the context they carry -/

/-- two lists of enclosing names carry the same context: the same "is a whitespace-preserving element open"
    and the same nearest string-container class -/
def CtxEq (cfg : Cfg) (c1 c2 : List Name) : Prop :=
  c1.any cfg.preserve = c2.any cfg.preserve ∧
  (c1.find? (fun n => (cfg.container n).isSome)).bind cfg.container =
    (c2.find? (fun n => (cfg.container n).isSome)).bind cfg.container

theorem CtxEq.refl (cfg : Cfg) (c : List Name) : CtxEq cfg c c := ⟨rfl, rfl⟩

theorem CtxEq.trans {cfg : Cfg} {a b c : List Name} (h1 : CtxEq cfg a b) (h2 : CtxEq cfg b c) : CtxEq cfg a c :=
  ⟨h1.1.trans h2.1, h1.2.trans h2.2⟩

theorem CtxEq.cons {cfg : Cfg} {c1 c2 : List Name} (h : CtxEq cfg c1 c2) (n : Name) :
    CtxEq cfg (n :: c1) (n :: c2) := by
  refine ⟨by simp [List.any_cons, h.1], ?_⟩
  simp only [List.find?_cons]
  cases hc : (cfg.container n).isSome
  · exact h.2
  · rfl

/-- a name that is neither whitespace-preserving nor a string container carries no context -/
theorem CtxEq.neutral {cfg : Cfg} {n : Name} (hp : cfg.preserve n = false) (hcn : cfg.container n = none)
    (c : List Name) : CtxEq cfg (n :: c) c := by
  refine ⟨by simp [List.any_cons, hp], ?_⟩
  simp [hcn]

theorem txtN_congr {cfg : Cfg} {c1 c2 : List Name} (h : CtxEq cfg c1 c2) (b : List PStr) (cls : Option Cls) :
    txtN cfg c1 b cls = txtN cfg c2 b cls := by
  cases b with
  | nil => rfl
  | cons x xs => simp only [txtN, classN, h.1, h.2]

mutual
theorem absorb_congr (cfg : Cfg) : ∀ (ds : List Doc) (c1 c2 : List Name) (b : List PStr), CtxEq cfg c1 c2 →
    absorb cfg c1 b ds = absorb cfg c2 b ds
  | [], c1, c2, b, _ => by simp [absorb]
  | d :: ds, c1, c2, b, h => by
    simp only [absorb, absorb1_congr cfg d c1 c2 b h, absorb_congr cfg ds c1 c2 _ h]
theorem absorb1_congr (cfg : Cfg) : ∀ (d : Doc) (c1 c2 : List Name) (b : List PStr), CtxEq cfg c1 c2 →
    absorb1 cfg c1 b d = absorb1 cfg c2 b d
  | .text c s, c1, c2, b, h => by simp only [absorb1, txtN_congr h]
  | .elem n p ks, c1, c2, b, h => by
    simp only [absorb1, txtN_congr h, txtN_congr (h.cons n), absorb_congr cfg ks _ _ [] (h.cons n)]
end

/-! ### outermost matches of the unfiltered parse -/

mutual
/-- no dropped element that has a kept descendant is whitespace-preserving or a string container -/
def noDroppedContext (cfg : Cfg) (f : Filt) : List Doc → Bool
  | [] => true
  | d :: ds => noDroppedContext1 cfg f d && noDroppedContext cfg f ds
def noDroppedContext1 (cfg : Cfg) (f : Filt) : Doc → Bool
  | .text _ _ => true
  | .elem n p ks =>
    f.allowTag n p || (outermost f ks).isEmpty ||
      (!cfg.preserve n && (cfg.container n).isNone && noDroppedContext cfg f ks)
end

mutual
theorem outermost_absorb_nil (cfg : Cfg) (f : Filt) : ∀ (ds : List Doc) (ctx : List Name) (b : List PStr),
    outermost f ds = [] → outermost f (absorb cfg ctx b ds).1 = []
  | [], ctx, b, _ => by simp [absorb, outermost]
  | d :: ds, ctx, b, h => by
    simp only [outermost, List.append_eq_nil_iff] at h
    simp only [absorb, outermost_append, outermost1_absorb_nil cfg f d ctx b h.1,
      outermost_absorb_nil cfg f ds ctx _ h.2, List.append_nil]
theorem outermost1_absorb_nil (cfg : Cfg) (f : Filt) : ∀ (d : Doc) (ctx : List Name) (b : List PStr),
    outermost1 f d = [] → outermost f (absorb1 cfg ctx b d).1 = []
  | .text c s, ctx, b, _ => by
    by_cases h0 : c = 0 <;> simp [absorb1, h0, outermost, outermost_append, outermost_txtN]
  | .elem n p ks, ctx, b, h => by
    by_cases hf : f.allowTag n p = true
    · simp [outermost1, hf] at h
    · have hf' : f.allowTag n p = false := by simpa using hf
      simp only [outermost1, hf', Bool.false_eq_true, if_false] at h
      simp only [absorb1, outermost_append, outermost_txtN, outermost, outermost1, hf', Bool.false_eq_true,
        if_false, outermost_absorb_nil cfg f ks (n :: ctx) [] h, List.append_nil]
end

mutual
theorem outermost_absorb (cfg : Cfg) (f : Filt) : ∀ (ds : List Doc) (ctx : List Name) (b : List PStr),
    CtxEq cfg ctx [cfg.rootName] → noDroppedContext cfg f ds = true →
    outermost f (absorb cfg ctx b ds).1 = (outermost f ds).map (normElem cfg)
  | [], ctx, b, _, _ => by simp [absorb, outermost]
  | d :: ds, ctx, b, hctx, h => by
    simp only [noDroppedContext, Bool.and_eq_true] at h
    simp only [absorb, outermost, outermost_append, List.map_append,
      outermost1_absorb cfg f d ctx b hctx h.1, outermost_absorb cfg f ds ctx _ hctx h.2]
theorem outermost1_absorb (cfg : Cfg) (f : Filt) : ∀ (d : Doc) (ctx : List Name) (b : List PStr),
    CtxEq cfg ctx [cfg.rootName] → noDroppedContext1 cfg f d = true →
    outermost f (absorb1 cfg ctx b d).1 = (outermost1 f d).map (normElem cfg)
  | .text c s, ctx, b, _, _ => by
    by_cases h0 : c = 0 <;> simp [absorb1, h0, outermost, outermost1, outermost_append, outermost_txtN]
  | .elem n p ks, ctx, b, hctx, h => by
    by_cases hf : f.allowTag n p = true
    · -- kept: the subtree under `n :: ctx` is the subtree under `[n, root]`
      have hc := hctx.cons n
      simp only [absorb1, outermost_append, outermost_txtN, outermost, outermost1, hf, if_true,
        List.nil_append, List.append_nil, List.map_cons, List.map_nil, normElem,
        absorb_congr cfg ks _ _ [] hc, txtN_congr hc]
    · have hf' : f.allowTag n p = false := by simpa using hf
      simp only [noDroppedContext1, hf', Bool.false_or, Bool.or_eq_true, Bool.and_eq_true,
        Bool.not_eq_true', List.isEmpty_iff, Option.isNone_iff_eq_none] at h
      simp only [absorb1, outermost_append, outermost_txtN, outermost, outermost1, hf', Bool.false_eq_true,
        if_false, List.nil_append, List.append_nil]
      rcases h with h | ⟨⟨hp, hcn⟩, hk⟩
      · -- nothing kept below: whatever context the dropped element carries is irrelevant
        rw [outermost_absorb_nil cfg f ks (n :: ctx) [] h, h]; rfl
      · exact outermost_absorb cfg f ks (n :: ctx) [] ((CtxEq.neutral hp hcn ctx).trans hctx) hk
end

/-! ### `outermost` in words: kept, and every proper ancestor dropped -/

/-- does the tag filter accept this node? (strings are not tags) -/
def isKept (f : Filt) : Doc → Bool
  | .elem n p _ => f.allowTag n p
  | .text _ _ => false

/-- `e` occurs in the forest `ds` at a position all of whose proper ancestors are elements the tag filter refuses -/
inductive UnderDropped (f : Filt) : List Doc → Doc → Prop
  | here {ds : List Doc} {e : Doc} : e ∈ ds → UnderDropped f ds e
  | inside {ds : List Doc} {n : Name} {p : Option Name} {ks : List Doc} {e : Doc} :
      Doc.elem n p ks ∈ ds → f.allowTag n p = false → UnderDropped f ks e → UnderDropped f ds e

theorem UnderDropped.mono {f : Filt} {ds ds' : List Doc} {e : Doc} (hsub : ∀ x ∈ ds, x ∈ ds')
    (h : UnderDropped f ds e) : UnderDropped f ds' e := by
  cases h with
  | here hm => exact .here (hsub _ hm)
  | inside hm hd hk => exact .inside (hsub _ hm) hd hk

mutual
theorem outermost_sound (f : Filt) : ∀ (ds : List Doc) (e : Doc), e ∈ outermost f ds →
    isKept f e = true ∧ UnderDropped f ds e
  | [], e, h => by simp [outermost] at h
  | d :: ds, e, h => by
    simp only [outermost, List.mem_append] at h
    rcases h with h | h
    · have := outermost1_sound f d e h
      exact ⟨this.1, this.2.mono (by simp)⟩
    · have := outermost_sound f ds e h
      exact ⟨this.1, this.2.mono (fun x hx => List.mem_cons_of_mem _ hx)⟩
theorem outermost1_sound (f : Filt) : ∀ (d : Doc) (e : Doc), e ∈ outermost1 f d →
    isKept f e = true ∧ UnderDropped f [d] e
  | .text c s, e, h => by simp [outermost1] at h
  | .elem n p ks, e, h => by
    by_cases hf : f.allowTag n p = true
    · simp only [outermost1, hf, if_true, List.mem_singleton] at h
      subst h
      exact ⟨hf, .here (by simp)⟩
    · have hf' : f.allowTag n p = false := by simpa using hf
      simp only [outermost1, hf', Bool.false_eq_true, if_false] at h
      have := outermost_sound f ks e h
      exact ⟨this.1, .inside (List.mem_singleton.mpr rfl) hf' this.2⟩
end

theorem mem_outermost_of_child {f : Filt} {d x : Doc} : ∀ {ds : List Doc}, d ∈ ds → x ∈ outermost1 f d →
    x ∈ outermost f ds
  | [], hd, _ => by simp at hd
  | d' :: ds, hd, hx => by
    simp only [outermost, List.mem_append]
    rcases List.mem_cons.mp hd with rfl | hd
    · exact .inl hx
    · exact .inr (mem_outermost_of_child hd hx)

theorem mem_outermost1_self {f : Filt} : ∀ {e : Doc}, isKept f e = true → e ∈ outermost1 f e
  | .text c s, hk => by simp [isKept] at hk
  | .elem n p ks, hk => by simp only [isKept] at hk; simp [outermost1, hk]

theorem mem_outermost_iff (f : Filt) (ds : List Doc) (e : Doc) :
    e ∈ outermost f ds ↔ isKept f e = true ∧ UnderDropped f ds e := by
  refine ⟨outermost_sound f ds e, ?_⟩
  rintro ⟨hk, hu⟩
  induction hu with
  | here hm =>
    exact mem_outermost_of_child hm (mem_outermost1_self hk)
  | inside hm hd _ ih =>
    apply mem_outermost_of_child hm
    simp only [outermost1, hd, Bool.false_eq_true, if_false]
    exact ih hk

/-! ### `noDroppedContext` in words -/

theorem UnderDropped.trans {f : Filt} {n : Name} {p : Option Name} {ks : List Doc} {x : Doc}
    (hd : f.allowTag n p = false) (hx : UnderDropped f ks x) :
    ∀ {ds : List Doc}, UnderDropped f ds (.elem n p ks) → UnderDropped f ds x := by
  intro ds h
  generalize he : Doc.elem n p ks = e at h
  induction h with
  | here hm => subst he; exact .inside hm hd hx
  | inside hm hd' _ ih => exact .inside hm hd' (ih he)

/-- a dropped element reached through dropped ancestors passes its outermost matches up -/
theorem outermost_ne_nil_up {f : Filt} {n : Name} {p : Option Name} {ks ds : List Doc}
    (hd : f.allowTag n p = false) (hu : UnderDropped f ds (.elem n p ks)) (hne : outermost f ks ≠ []) :
    outermost f ds ≠ [] := by
  cases hk : outermost f ks with
  | nil => exact absurd hk hne
  | cons x xs =>
    have hx : x ∈ outermost f ks := by simp [hk]
    have := (mem_outermost_iff f ks x).mp hx
    have hx' : x ∈ outermost f ds := (mem_outermost_iff f ds x).mpr ⟨this.1, UnderDropped.trans hd this.2 hu⟩
    intro h0
    simp [h0] at hx'

theorem noDroppedContext_mem {cfg : Cfg} {f : Filt} {d : Doc} : ∀ {ds : List Doc}, d ∈ ds →
    noDroppedContext cfg f ds = true → noDroppedContext1 cfg f d = true
  | [], hd, _ => by simp at hd
  | d' :: ds, hd, h => by
    simp only [noDroppedContext, Bool.and_eq_true] at h
    rcases List.mem_cons.mp hd with rfl | hd
    · exact h.1
    · exact noDroppedContext_mem hd h.2

theorem noDroppedContext1_dropped {cfg : Cfg} {f : Filt} {n : Name} {p : Option Name} {ks : List Doc}
    (hd : f.allowTag n p = false) :
    noDroppedContext1 cfg f (.elem n p ks) = true ↔
      (outermost f ks = [] ∨ ((cfg.preserve n = false ∧ cfg.container n = none) ∧ noDroppedContext cfg f ks = true)) := by
  simp only [noDroppedContext1, hd, Bool.false_or, Bool.or_eq_true, Bool.and_eq_true,
    Bool.not_eq_true', List.isEmpty_iff, Option.isNone_iff_eq_none]

theorem noDroppedContext_sound {cfg : Cfg} {f : Filt} {n : Name} {p : Option Name} {ks : List Doc}
    (hd : f.allowTag n p = false) (hne : outermost f ks ≠ []) :
    ∀ {ds : List Doc}, UnderDropped f ds (.elem n p ks) → noDroppedContext cfg f ds = true →
    cfg.preserve n = false ∧ cfg.container n = none := by
  intro ds h
  generalize he : Doc.elem n p ks = e at h
  induction h with
  | here hm =>
    subst he
    intro hctx
    rcases (noDroppedContext1_dropped hd).mp (noDroppedContext_mem hm hctx) with h0 | h1
    · exact absurd h0 hne
    · exact h1.1
  | inside hm hd' hu ih =>
    subst he
    intro hctx
    rcases (noDroppedContext1_dropped hd').mp (noDroppedContext_mem hm hctx) with h0 | h1
    · exact absurd h0 (outermost_ne_nil_up hd hu hne)
    · exact ih rfl h1.2

mutual
theorem noDroppedContext_complete (cfg : Cfg) (f : Filt) : ∀ (ds : List Doc),
    (∀ n p ks, UnderDropped f ds (.elem n p ks) → f.allowTag n p = false → outermost f ks ≠ [] →
      cfg.preserve n = false ∧ cfg.container n = none) → noDroppedContext cfg f ds = true
  | [], _ => rfl
  | d :: ds, h => by
    simp only [noDroppedContext, Bool.and_eq_true]
    exact ⟨noDroppedContext1_complete cfg f d (fun n p ks hu => h n p ks (hu.mono (by simp))),
      noDroppedContext_complete cfg f ds
        (fun n p ks hu => h n p ks (hu.mono (fun x hx => List.mem_cons_of_mem _ hx)))⟩
theorem noDroppedContext1_complete (cfg : Cfg) (f : Filt) : ∀ (d : Doc),
    (∀ n p ks, UnderDropped f [d] (.elem n p ks) → f.allowTag n p = false → outermost f ks ≠ [] →
      cfg.preserve n = false ∧ cfg.container n = none) → noDroppedContext1 cfg f d = true
  | .text c s, _ => rfl
  | .elem n p ks, h => by
    by_cases hf : f.allowTag n p = true
    · simp [noDroppedContext1, hf]
    · have hf' : f.allowTag n p = false := by simpa using hf
      rw [noDroppedContext1_dropped hf']
      by_cases h0 : outermost f ks = []
      · exact .inl h0
      · refine .inr ⟨h n p ks (.here (List.mem_singleton.mpr rfl)) hf' h0, ?_⟩
        exact noDroppedContext_complete cfg f ks
          (fun n' p' ks' hu => h n' p' ks' (.inside (List.mem_singleton.mpr rfl) hf' hu))
end

theorem noDroppedContext_iff (cfg : Cfg) (f : Filt) (ds : List Doc) :
    noDroppedContext cfg f ds = true ↔
      ∀ n p ks, UnderDropped f ds (.elem n p ks) → f.allowTag n p = false → outermost f ks ≠ [] →
        cfg.preserve n = false ∧ cfg.container n = none :=
  ⟨fun h _ _ _ hu hd hne => noDroppedContext_sound hd hne hu h, noDroppedContext_complete cfg f ds⟩

/-! ### the unfiltered parse of a well-formed document (C03's `build_events`, restated here) -/

theorem build_eventsL {cfg : Cfg} (hc : CfgOK cfg) (ds : List Doc) (hok : noRootL cfg ds = true) :
    build cfg (eventsL ds) =
      (absorb cfg [cfg.rootName] [] ds).1 ++ txtN cfg [cfg.rootName] (absorb cfg [cfg.rootName] [] ds).2 none := by
  rw [build_eq_buildSpec hc]
  simp only [buildSpec, run_forest cfg ds hok, sFlush_eq, List.map_cons, List.map_nil, List.nil_append]
  rfl


/-! ### text runs -/

/-- the document as the sequence of things a string filter sees: chunks of ordinary text, special strings
    (comments, CDATA, …: class ≠ 0), tag boundaries -/
inductive Tok where
  | chunk (s : PStr)
  | special (c : Cls) (s : PStr)
  | tag
deriving Repr

mutual
def toks : Doc → List Tok
  | .text c s => if c = 0 then [.chunk s] else [.special c s]
  | .elem _ _ ks => .tag :: (toksL ks ++ [.tag])
def toksL : List Doc → List Tok
  | [] => []
  | d :: ds => toks d ++ toksL ds
end

/-- a finished run of ordinary text (nothing if no chunk arrived) -/
def emitRun (b : List PStr) : List (Cls × PStr) :=
  match b with
  | [] => []
  | _ :: _ => [(0, b.flatten)]

/-- the text runs of a token sequence, `b` being the chunks of the run in progress: maximal sequences of
    ordinary chunks not separated by a tag boundary or a special string; special strings individually -/
def runsFrom : List PStr → List Tok → List (Cls × PStr)
  | b, [] => emitRun b
  | b, .chunk s :: ts => runsFrom (b ++ [s]) ts
  | b, .special c s :: ts => emitRun b ++ (c, s) :: runsFrom [] ts
  | b, .tag :: ts => emitRun b ++ runsFrom [] ts

/-- the text runs of a document, in order, with their string class -/
def textRuns (ds : List Doc) : List (Cls × PStr) := runsFrom [] (toksL ds)

/-- a run becomes a string (collapsed by the whitespace rule) iff the filter accepts its final value -/
def keepRun (cfg : Cfg) (f : Filt) (r : Cls × PStr) : Option Doc :=
  if f.allowString (wsVal cfg false r.2) then some (Doc.text r.1 (wsVal cfg false r.2)) else none

theorem keep_emitRun (cfg : Cfg) (f : Filt) (b : List PStr) :
    (emitRun b).filterMap (keepRun cfg f) = txtRoot cfg f b none := by
  cases b with
  | nil => rfl
  | cons x xs =>
    simp only [emitRun, txtRoot, List.filterMap_cons, List.filterMap_nil, keepRun, Option.getD_none]
    split <;> simp_all

theorem keep_special (cfg : Cfg) (f : Filt) (c : Cls) (s : PStr) :
    [(c, s)].filterMap (keepRun cfg f) = txtRoot cfg f [s] (some c) := by
  simp only [txtRoot, List.filterMap_cons, List.filterMap_nil, keepRun, Option.getD_some,
    List.flatten_cons, List.flatten_nil, List.append_nil]
  split <;> simp_all

mutual
theorem runs_forest {cfg : Cfg} {f : Filt} (ht : ∀ n p, f.allowTag n p = false) :
    ∀ (ds : List Doc) (b : List PStr) (ts : List Tok),
    (runsFrom b (toksL ds ++ ts)).filterMap (keepRun cfg f) =
      (outer cfg f b ds).1 ++ (runsFrom (outer cfg f b ds).2 ts).filterMap (keepRun cfg f)
  | [], b, ts => by simp [toksL, outer]
  | d :: ds, b, ts => by
    simp only [toksL, List.append_assoc, outer]
    rw [runs_doc ht d b (toksL ds ++ ts), runs_forest ht ds _ ts]
theorem runs_doc {cfg : Cfg} {f : Filt} (ht : ∀ n p, f.allowTag n p = false) :
    ∀ (d : Doc) (b : List PStr) (ts : List Tok),
    (runsFrom b (toks d ++ ts)).filterMap (keepRun cfg f) =
      (outer1 cfg f b d).1 ++ (runsFrom (outer1 cfg f b d).2 ts).filterMap (keepRun cfg f)
  | .text c s, b, ts => by
    by_cases h0 : c = 0
    · simp [toks, outer1, h0, runsFrom]
    · simp only [toks, outer1, h0, if_false, List.cons_append, List.nil_append, runsFrom,
        List.filterMap_append, keep_emitRun, List.append_assoc]
      rw [show (c, s) :: runsFrom [] ts = [(c, s)] ++ runsFrom [] ts from rfl, List.filterMap_append,
        keep_special]
  | .elem n p ks, b, ts => by
    simp only [toks, outer1, ht, Bool.false_eq_true, if_false, List.cons_append, List.append_assoc,
      List.nil_append, runsFrom, List.filterMap_append, keep_emitRun]
    rw [runs_forest ht ks [] (Tok.tag :: ts)]
    simp only [runsFrom, List.filterMap_append, keep_emitRun]
end

end BS.ParseOnly
