import BSModel.Model.Pretty
/-! helper lemmas for C14: single steps of `decode`'s loop, and the net effect of a balanced block of events -/
namespace BS.Pretty

/-! ### `rep`, `_indent_string` -/

@[simp] theorem rep_zero (u : PStr) : rep u 0 = [] := by simp [rep]

theorem rep_nonpos (u : PStr) (n : Int) (h : n ≤ 0) : rep u n = [] := by
  have : n.toNat = 0 := by omega
  simp [rep, this]

theorem rep_succ (u : PStr) (n : Int) (h : 0 ≤ n) : rep u (n + 1) = u ++ rep u n := by
  have : (n + 1).toNat = n.toNat + 1 := by omega
  simp [rep, this, List.replicate_succ]

theorem indentString_tt (u s : PStr) (l : Int) : indentString u s l true true = rep u l ++ s ++ [10] := by
  by_cases h : l = 0 <;> simp [indentString, h]

theorem indentString_tf (u s : PStr) (l : Int) : indentString u s l true false = rep u l ++ s := by
  by_cases h : l = 0 <;> simp [indentString, h]

theorem indentString_ft (u s : PStr) (l : Int) : indentString u s l false true = s ++ [10] := by
  simp [indentString]

/-! ### single steps -/

/-- the concatenated output of the loop -/
def run (unit : PStr) (st : St) (evs : List Ev) : PStr := (pieces unit st evs).flatten

@[simp] theorem run_nil (u : PStr) (st : St) : run u st [] = [] := by simp [run, pieces]

theorem run_cons (u : PStr) (st : St) (ev : Ev) (rest : List Ev) :
    run u st (ev :: rest) = (step u st ev).1 ++ run u (step u st ev).2 rest := by
  simp [run, pieces]

theorem decodeImpl_eq_run (u : PStr) (lvl : Option Int) (evs : List Ev) : decodeImpl u lvl evs = run u ⟨lvl, none⟩ evs := rfl

theorem step_text_out (u : PStr) (l : Int) (s : PStr) :
    step u ⟨some l, none⟩ (.text s) = (fullLine u l (strip s), ⟨some l, none⟩) := by
  unfold step
  by_cases h : strip s = [] <;> simp [fullLine, Ev.piece, h, indentString_tt]

theorem step_text_lit (u : PStr) (l : Int) (L : Nat) (s : PStr) :
    step u ⟨some l, some L⟩ (.text s) = (s, ⟨some l, some L⟩) := by
  unfold step
  simp [Ev.piece]

theorem step_empty_out (u : PStr) (l : Int) (t : PStr) :
    step u ⟨some l, none⟩ (.empty t) = (fullLine u l t, ⟨some l, none⟩) := by
  unfold step
  by_cases h : t = [] <;> simp [fullLine, Ev.piece, h, indentString_tt]

theorem step_empty_lit (u : PStr) (l : Int) (L : Nat) (t : PStr) :
    step u ⟨some l, some L⟩ (.empty t) = (t, ⟨some l, some L⟩) := by
  unfold step
  simp [Ev.piece]

theorem step_start_out (u : PStr) (l : Int) (i : Nat) (o : PStr) :
    step u ⟨some l, none⟩ (.start i o false) = (fullLine u l o, ⟨some (l + 1), none⟩) := by
  unfold step
  by_cases h : o = [] <;> simp [fullLine, Ev.piece, h, indentString_tt]

theorem step_start_enter (u : PStr) (l : Int) (i : Nat) (o : PStr) :
    step u ⟨some l, none⟩ (.start i o true) = (openLine u l o, ⟨some (l + 1), some i⟩) := by
  unfold step
  by_cases h : o = [] <;> simp [openLine, Ev.piece, h, indentString_tf]

theorem step_start_lit (u : PStr) (l : Int) (L i : Nat) (o : PStr) (pre : Bool) :
    step u ⟨some l, some L⟩ (.start i o pre) = (o, ⟨some (l + 1), some L⟩) := by
  unfold step
  simp [Ev.piece]

theorem step_stop_out (u : PStr) (l : Int) (i : Nat) (c : PStr) :
    step u ⟨some (l + 1), none⟩ (.stop i c) = (fullLine u l c, ⟨some l, none⟩) := by
  unfold step
  by_cases h : c = [] <;> simp [fullLine, Ev.piece, h, indentString_tt]

theorem step_stop_leave (u : PStr) (l : Int) (i : Nat) (c : PStr) :
    step u ⟨some (l + 1), some i⟩ (.stop i c) = (closeLine c, ⟨some l, none⟩) := by
  unfold step
  by_cases h : c = [] <;> simp [closeLine, Ev.piece, h, indentString_ft]

theorem step_stop_lit (u : PStr) (l : Int) (L i : Nat) (c : PStr) (h : L ≠ i) :
    step u ⟨some (l + 1), some L⟩ (.stop i c) = (c, ⟨some l, some L⟩) := by
  unfold step
  simp [Ev.piece, h]

theorem step_plain (u : PStr) (lit : Option Nat) (ev : Ev) :
    (step u ⟨none, lit⟩ ev).1 = ev.piece ∧ (step u ⟨none, lit⟩ ev).2.lvl = none := by
  unfold step
  cases ev <;> simp [Ev.piece] <;> split <;> simp

/-! ### plain mode: the pieces, concatenated -/

theorem run_plain (u : PStr) : ∀ (evs : List Ev) (st : St), st.lvl = none → run u st evs = (evs.map Ev.piece).flatten
  | [], st, _ => by simp
  | ev :: rest, ⟨lvl, lit⟩, h => by
    simp only at h
    subst h
    rw [run_cons, (step_plain u lit ev).1, run_plain u rest _ (step_plain u lit ev).2]
    simp

mutual
theorem pieces_events : ∀ (t : Node), ((events t).map Ev.piece).flatten = plain t
  | .str s => by simp [events, plain, Ev.piece]
  | .void t => by simp [events, plain, Ev.piece]
  | .elem i o c pre ks => by
    simp [events, plain, Ev.piece, pieces_eventsL ks]
theorem pieces_eventsL : ∀ (ks : List Node), ((eventsL ks).map Ev.piece).flatten = plainL ks
  | [] => by simp [eventsL, plainL]
  | k :: ks => by simp [eventsL, plainL, pieces_events k, pieces_eventsL ks]
end

/-! ### literal mode is the plain rendering -/

mutual
theorem pretty_lit : ∀ (u : PStr) (t : Node) (l : Int), prettyNode u l true t = plain t
  | u, .str s, l => by simp [prettyNode, plain]
  | u, .void t, l => by simp [prettyNode, plain]
  | u, .elem i o c pre ks, l => by simp [prettyNode, plain, prettyL_lit u ks (l + 1)]
theorem prettyL_lit : ∀ (u : PStr) (ks : List Node) (l : Int), prettyL u l true ks = plainL ks
  | u, [], l => by simp [prettyL, plainL]
  | u, k :: ks, l => by simp [prettyL, plainL, pretty_lit u k l, prettyL_lit u ks l]
end

/-! ### net effect of a balanced block -/

mutual
/-- inside literal mode (entered by the tag with identity `L`) the events of a tree none of whose tags is `L` emit the
    pieces verbatim and leave level and literal tag as they were -/
theorem run_lit : ∀ (u : PStr) (t : Node) (l : Int) (L : Nat) (rest : List Ev), ¬ L ∈ ids t →
    run u ⟨some l, some L⟩ (events t ++ rest) = plain t ++ run u ⟨some l, some L⟩ rest
  | u, .str s, l, L, rest, _ => by simp [events, plain, run_cons, step_text_lit]
  | u, .void t, l, L, rest, _ => by simp [events, plain, run_cons, step_empty_lit]
  | u, .elem i o c pre ks, l, L, rest, h => by
    have hi : L ≠ i := by intro e; apply h; simp [ids, e]
    have hk : ¬ L ∈ idsL ks := by intro e; apply h; simp [ids, e]
    simp only [events, plain, List.cons_append, List.append_assoc, run_cons, step_start_lit]
    rw [runL_lit u ks (l + 1) L _ hk]
    simp [run_cons, step_stop_lit u l L i c hi]
theorem runL_lit : ∀ (u : PStr) (ks : List Node) (l : Int) (L : Nat) (rest : List Ev), ¬ L ∈ idsL ks →
    run u ⟨some l, some L⟩ (eventsL ks ++ rest) = plainL ks ++ run u ⟨some l, some L⟩ rest
  | u, [], l, L, rest, _ => by simp [eventsL, plainL]
  | u, k :: ks, l, L, rest, h => by
    have h1 : ¬ L ∈ ids k := by intro e; apply h; simp [idsL, e]
    have h2 : ¬ L ∈ idsL ks := by intro e; apply h; simp [idsL, e]
    simp only [eventsL, plainL, List.append_assoc]
    rw [run_lit u k l L _ h1, runL_lit u ks l L _ h2]
end

mutual
/-- outside literal mode the events of a tree emit its pretty rendering and restore level and mode -/
theorem run_out : ∀ (u : PStr) (t : Node) (l : Int) (rest : List Ev), distinct t = true →
    run u ⟨some l, none⟩ (events t ++ rest) = prettyNode u l false t ++ run u ⟨some l, none⟩ rest
  | u, .str s, l, rest, _ => by simp [events, prettyNode, run_cons, step_text_out]
  | u, .void t, l, rest, _ => by simp [events, prettyNode, run_cons, step_empty_out]
  | u, .elem i o c pre ks, l, rest, h => by
    simp only [distinct, Bool.and_eq_true, Bool.not_eq_true', List.contains_eq_mem, decide_eq_false_iff_not] at h
    cases pre with
    | false =>
      simp only [events, prettyNode, List.cons_append, List.append_assoc, run_cons, step_start_out]
      rw [runL_out u ks (l + 1) _ h.2]
      simp [run_cons, step_stop_out]
    | true =>
      simp only [events, prettyNode, List.cons_append, List.append_assoc, run_cons, step_start_enter]
      rw [runL_lit u ks (l + 1) i _ h.1]
      simp [run_cons, step_stop_leave, prettyL_lit]
theorem runL_out : ∀ (u : PStr) (ks : List Node) (l : Int) (rest : List Ev), distinctL ks = true →
    run u ⟨some l, none⟩ (eventsL ks ++ rest) = prettyL u l false ks ++ run u ⟨some l, none⟩ rest
  | u, [], l, rest, _ => by simp [eventsL, prettyL]
  | u, k :: ks, l, rest, h => by
    simp only [distinctL, Bool.and_eq_true] at h
    simp only [eventsL, prettyL, List.append_assoc]
    rw [run_out u k l _ h.1, runL_out u ks l _ h.2]
end

end BS.Pretty

namespace BS.Pretty

/-! ### the loop state after a balanced block -/

/-- `(indent_level, string_literal_tag)` after the loop has consumed the events -/
def finalState (unit : PStr) : St → List Ev → St
  | st, [] => st
  | st, ev :: rest => finalState unit (step unit st ev).2 rest

mutual
theorem final_lit : ∀ (u : PStr) (t : Node) (l : Int) (L : Nat) (rest : List Ev), ¬ L ∈ ids t →
    finalState u ⟨some l, some L⟩ (events t ++ rest) = finalState u ⟨some l, some L⟩ rest
  | u, .str s, l, L, rest, _ => by simp [events, finalState, step_text_lit]
  | u, .void t, l, L, rest, _ => by simp [events, finalState, step_empty_lit]
  | u, .elem i o c pre ks, l, L, rest, h => by
    have hi : L ≠ i := by intro e; apply h; simp [ids, e]
    have hk : ¬ L ∈ idsL ks := by intro e; apply h; simp [ids, e]
    simp only [events, List.cons_append, List.append_assoc, finalState, step_start_lit]
    rw [finalL_lit u ks (l + 1) L _ hk]
    simp [finalState, step_stop_lit u l L i c hi]
theorem finalL_lit : ∀ (u : PStr) (ks : List Node) (l : Int) (L : Nat) (rest : List Ev), ¬ L ∈ idsL ks →
    finalState u ⟨some l, some L⟩ (eventsL ks ++ rest) = finalState u ⟨some l, some L⟩ rest
  | u, [], l, L, rest, _ => by simp [eventsL]
  | u, k :: ks, l, L, rest, h => by
    have h1 : ¬ L ∈ ids k := by intro e; apply h; simp [idsL, e]
    have h2 : ¬ L ∈ idsL ks := by intro e; apply h; simp [idsL, e]
    simp only [eventsL, List.append_assoc]
    rw [final_lit u k l L _ h1, finalL_lit u ks l L _ h2]
end

mutual
theorem final_out : ∀ (u : PStr) (t : Node) (l : Int) (rest : List Ev), distinct t = true →
    finalState u ⟨some l, none⟩ (events t ++ rest) = finalState u ⟨some l, none⟩ rest
  | u, .str s, l, rest, _ => by simp [events, finalState, step_text_out]
  | u, .void t, l, rest, _ => by simp [events, finalState, step_empty_out]
  | u, .elem i o c pre ks, l, rest, h => by
    simp only [distinct, Bool.and_eq_true, Bool.not_eq_true', List.contains_eq_mem, decide_eq_false_iff_not] at h
    cases pre with
    | false =>
      simp only [events, List.cons_append, List.append_assoc, finalState, step_start_out]
      rw [finalL_out u ks (l + 1) _ h.2]
      simp [finalState, step_stop_out]
    | true =>
      simp only [events, List.cons_append, List.append_assoc, finalState, step_start_enter]
      rw [finalL_lit u ks (l + 1) i _ h.1]
      simp [finalState, step_stop_leave]
theorem finalL_out : ∀ (u : PStr) (ks : List Node) (l : Int) (rest : List Ev), distinctL ks = true →
    finalState u ⟨some l, none⟩ (eventsL ks ++ rest) = finalState u ⟨some l, none⟩ rest
  | u, [], l, rest, _ => by simp [eventsL]
  | u, k :: ks, l, rest, h => by
    simp only [distinctL, Bool.and_eq_true] at h
    simp only [eventsL, List.append_assoc]
    rw [final_out u k l _ h.1, finalL_out u ks l _ h.2]
end

end BS.Pretty
