import BSModel.Proofs.Pretty
/-! laws of the recursive pretty-printing specification (C14): layout in lines, verbatim blocks, whitespace-only changes -/
namespace BS.Pretty

/-! ### vocabulary of the statements -/

mutual
/-- a whitespace-preserving element met outside literal mode has an opening and a closing piece (i.e. is not hidden) -/
def preVisible : Node → Bool
  | .elem _ o c pre ks => if pre then !o.isEmpty && !c.isEmpty else preVisibleL ks
  | _ => true
def preVisibleL : List Node → Bool
  | [] => true
  | k :: ks => preVisible k && preVisibleL ks
end

mutual
/-- the lines of the pretty rendering: (nesting depth below the start, content). Content is a tag piece, a non-blank
    string piece with its surrounding whitespace stripped, or the whole plain rendering of an outermost
    whitespace-preserving element. Empty pieces (hidden tags, blank strings) have no line. -/
def items : Nat → Node → List (Nat × PStr)
  | d, .str s => if strip s = [] then [] else [(d, strip s)]
  | d, .void t => if t = [] then [] else [(d, t)]
  | d, .elem i o c pre ks =>
    if pre then [(d, plain (.elem i o c pre ks))]
    else (if o = [] then [] else [(d, o)]) ++ itemsL (d + 1) ks ++ (if c = [] then [] else [(d, c)])
def itemsL : Nat → List Node → List (Nat × PStr)
  | _, [] => []
  | d, k :: ks => items d k ++ itemsL d ks
end

/-- one line: `unit` repeated `level + depth` times, the content, a newline -/
def lineOf (u : PStr) (l : Int) (it : Nat × PStr) : PStr := rep u (l + it.1) ++ it.2 ++ [10]

/-- the lines, concatenated -/
def layout (u : PStr) (l : Int) (its : List (Nat × PStr)) : PStr := (its.map (lineOf u l)).flatten

theorem layout_nil (u : PStr) (l : Int) : layout u l [] = [] := by simp [layout]

theorem layout_append (u : PStr) (l : Int) (a b : List (Nat × PStr)) :
    layout u l (a ++ b) = layout u l a ++ layout u l b := by simp [layout]

theorem layout_single (u : PStr) (l : Int) (d : Nat) (p : PStr) : layout u l [(d, p)] = rep u (l + d) ++ p ++ [10] := by
  simp [layout, lineOf]

theorem fullLine_layout (u : PStr) (l : Int) (d : Nat) (p : PStr) :
    fullLine u (l + d) p = layout u l (if p = [] then [] else [(d, p)]) := by
  by_cases h : p = [] <;> simp [fullLine, h, layout_nil, layout_single]

/-! ### line structure -/

mutual
theorem pretty_layout : ∀ (u : PStr) (t : Node) (l : Int) (d : Nat), preVisible t = true →
    prettyNode u (l + d) false t = layout u l (items d t)
  | u, .str s, l, d, _ => by simp [prettyNode, items, fullLine_layout]
  | u, .void t, l, d, _ => by simp [prettyNode, items, fullLine_layout]
  | u, .elem i o c pre ks, l, d, h => by
    cases pre with
    | true =>
      simp only [preVisible, if_true, Bool.and_eq_true, Bool.not_eq_true', List.isEmpty_eq_false_iff] at h
      simp [prettyNode, items, openLine, closeLine, h.1, h.2, layout_single, prettyL_lit, plain]
    | false =>
      simp only [preVisible] at h
      have hd : l + (d : Int) + 1 = l + ((d + 1 : Nat) : Int) := by omega
      simp only [prettyNode, items, fullLine_layout, hd]
      rw [prettyL_layout u ks l (d + 1) (by simpa using h)]
      simp [layout_append]
theorem prettyL_layout : ∀ (u : PStr) (ks : List Node) (l : Int) (d : Nat), preVisibleL ks = true →
    prettyL u (l + d) false ks = layout u l (itemsL d ks)
  | u, [], l, d, _ => by simp [prettyL, itemsL, layout_nil]
  | u, k :: ks, l, d, h => by
    simp only [preVisibleL, Bool.and_eq_true] at h
    simp only [prettyL, itemsL, layout_append]
    rw [pretty_layout u k l d h.1, prettyL_layout u ks l d h.2]
end

/-! ### newline at the end -/

/-- empty, or ending with a newline -/
def EndsNl (s : PStr) : Prop := s = [] ∨ ∃ p, s = p ++ [10]

theorem EndsNl.append {a b : PStr} (ha : EndsNl a) (hb : EndsNl b) : EndsNl (a ++ b) := by
  rcases hb with rfl | ⟨q, rfl⟩
  · simpa using ha
  · exact Or.inr ⟨a ++ q, by simp⟩

theorem layout_endsNl (u : PStr) (l : Int) : ∀ (its : List (Nat × PStr)), EndsNl (layout u l its)
  | [] => Or.inl (layout_nil u l)
  | it :: its => by
    have : layout u l (it :: its) = lineOf u l it ++ layout u l its := by simp [layout]
    rw [this]
    exact EndsNl.append (Or.inr ⟨rep u (l + it.1) ++ it.2, by simp [lineOf]⟩) (layout_endsNl u l its)

theorem EndsNl.getLast {s : PStr} (h : EndsNl s) (hne : s ≠ []) : s.getLast? = some 10 := by
  rcases h with rfl | ⟨p, rfl⟩
  · exact absurd rfl hne
  · simp

/-! ### verbatim blocks -/

/-- `OutermostPre d e t`: `e` is a whitespace-preserving element of `t`, `d` levels below `t`'s own level, and none of
    its ancestors within `t` is whitespace-preserving -/
inductive OutermostPre : Nat → Node → Node → Prop
  | self (i : Nat) (o c : PStr) (ks : List Node) : OutermostPre 0 (.elem i o c true ks) (.elem i o c true ks)
  | inside (i : Nat) (o c : PStr) (ks : List Node) (k e : Node) (d : Nat) :
      k ∈ ks → OutermostPre d e k → OutermostPre (d + 1) e (.elem i o c false ks)

theorem infix_prettyL (u : PStr) (l : Int) (k : Node) : ∀ (ks : List Node), k ∈ ks →
    prettyNode u l false k <:+: prettyL u l false ks
  | [], h => by cases h
  | k' :: ks, h => by
    simp only [prettyL]
    rcases List.mem_cons.mp h with rfl | h
    · exact ⟨[], prettyL u l false ks, by simp⟩
    · obtain ⟨a, b, hab⟩ := infix_prettyL u l k ks h
      exact ⟨prettyNode u l false k' ++ a, b, by simp [← hab]⟩

theorem infix_mid {x : PStr} (a b y : PStr) (h : x <:+: y) : x <:+: a ++ y ++ b ∧ x <:+: a ++ (y ++ b) := by
  obtain ⟨p, q, rfl⟩ := h
  exact ⟨⟨a ++ p, q ++ b, by simp⟩, ⟨a ++ p, q ++ b, by simp⟩⟩

theorem outermost_infix (u : PStr) : ∀ {d : Nat} {e t : Node}, OutermostPre d e t → ∀ (l : Int),
    plain e <:+: prettyNode u l false t := by
  intro d e t h
  induction h with
  | self i o c ks =>
    intro l
    simp only [prettyNode, plain, prettyL_lit, openLine, closeLine, Bool.false_eq_true, if_false, if_true]
    refine ⟨if o = [] then [] else rep u l, if c = [] then [] else [10], ?_⟩
    by_cases ho : o = [] <;> by_cases hc : c = [] <;> simp [ho, hc]
  | inside i o c ks k e d hk _ ih =>
    intro l
    simp only [prettyNode, Bool.false_eq_true, if_false]
    obtain ⟨a, b, hab⟩ := infix_prettyL u (l + 1) k ks hk
    obtain ⟨a', b', hab'⟩ := ih (l + 1)
    exact ⟨fullLine u l o ++ a ++ a', b' ++ b ++ fullLine u l c, by simp [← hab, ← hab']⟩

theorem outermost_line (u : PStr) : ∀ {d : Nat} {e t : Node}, OutermostPre d e t → preVisible e = true → ∀ (l : Int),
    rep u (l + d) ++ plain e ++ [10] <:+: prettyNode u l false t := by
  intro d e t h
  induction h with
  | self i o c ks =>
    intro hv l
    simp only [preVisible, if_true, Bool.and_eq_true, Bool.not_eq_true', List.isEmpty_eq_false_iff] at hv
    simp only [prettyNode, plain, prettyL_lit, openLine, closeLine, Bool.false_eq_true, if_false, if_true, hv.1, hv.2]
    exact ⟨[], [], by simp⟩
  | inside i o c ks k e d hk _ ih =>
    intro hv l
    simp only [prettyNode, Bool.false_eq_true, if_false]
    obtain ⟨a, b, hab⟩ := infix_prettyL u (l + 1) k ks hk
    obtain ⟨a', b', hab'⟩ := ih hv (l + 1)
    have hd : l + ((d : Int) + 1) = l + 1 + (d : Int) := by omega
    refine ⟨fullLine u l o ++ a ++ a', b' ++ b ++ fullLine u l c, ?_⟩
    simp [← hab, ← hab']
    rw [hd]

/-! ### only whitespace changes -/

theorem dropWs_append (a b : PStr) : dropWs (a ++ b) = dropWs a ++ dropWs b := by simp [dropWs]

theorem dropWs_nl : dropWs [10] = [] := by decide

theorem dropWs_all {s : PStr} (h : ∀ c ∈ s, isSpace c = true) : dropWs s = [] := by
  simp only [dropWs, List.filter_eq_nil_iff]
  intro c hc
  simp [h c hc]

theorem dropWs_rep (u : PStr) (n : Int) (hu : ∀ c ∈ u, isSpace c = true) : dropWs (rep u n) = [] := by
  apply dropWs_all
  intro c hc
  simp only [rep, List.mem_flatten, List.mem_replicate] at hc
  obtain ⟨l, ⟨_, rfl⟩, hcl⟩ := hc
  exact hu c hcl

theorem dropWs_dropWhile : ∀ (s : PStr), dropWs (s.dropWhile isSpace) = dropWs s
  | [] => rfl
  | c :: s => by
    by_cases h : isSpace c = true
    · simp [h, dropWs] at *
      exact dropWs_dropWhile s
    · simp [h]

theorem dropWs_reverse (s : PStr) : dropWs s.reverse = (dropWs s).reverse := by simp [dropWs, List.filter_reverse]

theorem dropWs_strip (s : PStr) : dropWs (strip s) = dropWs s := by
  simp only [strip, rstrip, lstrip, dropWs_reverse, dropWs_dropWhile, List.reverse_reverse]

theorem dropWs_fullLine (u : PStr) (l : Int) (p : PStr) (hu : ∀ c ∈ u, isSpace c = true) :
    dropWs (fullLine u l p) = dropWs p := by
  by_cases h : p = [] <;> simp [fullLine, h, dropWs_append, dropWs_rep u l hu, dropWs_nl]

theorem dropWs_openLine (u : PStr) (l : Int) (p : PStr) (hu : ∀ c ∈ u, isSpace c = true) :
    dropWs (openLine u l p) = dropWs p := by
  by_cases h : p = [] <;> simp [openLine, h, dropWs_append, dropWs_rep u l hu]

theorem dropWs_closeLine (p : PStr) : dropWs (closeLine p) = dropWs p := by
  by_cases h : p = [] <;> simp [closeLine, h, dropWs_append, dropWs_nl]

mutual
theorem dropWs_pretty (u : PStr) (hu : ∀ c ∈ u, isSpace c = true) : ∀ (t : Node) (l : Int) (lit : Bool),
    dropWs (prettyNode u l lit t) = dropWs (plain t)
  | .str s, l, lit => by cases lit <;> simp [prettyNode, plain, dropWs_fullLine u l _ hu, dropWs_strip]
  | .void t, l, lit => by cases lit <;> simp [prettyNode, plain, dropWs_fullLine u l _ hu]
  | .elem i o c pre ks, l, lit => by
    cases lit <;> cases pre <;>
      simp [prettyNode, plain, dropWs_append, dropWs_fullLine u l _ hu, dropWs_openLine u l _ hu, dropWs_closeLine,
        dropWs_prettyL u hu ks (l + 1)]
theorem dropWs_prettyL (u : PStr) (hu : ∀ c ∈ u, isSpace c = true) : ∀ (ks : List Node) (l : Int) (lit : Bool),
    dropWs (prettyL u l lit ks) = dropWs (plainL ks)
  | [], l, lit => by simp [prettyL, plainL]
  | k :: ks, l, lit => by
    simp [prettyL, plainL, dropWs_append, dropWs_pretty u hu k l lit, dropWs_prettyL u hu ks l lit]
end

/-! ### same pieces, decorated -/

mutual
/-- the pieces of the plain rendering in order, each with the flag "is a string piece" -/
def pieceSeq : Node → List (Bool × PStr)
  | .str s => [(true, s)]
  | .void t => [(false, t)]
  | .elem _ o c _ ks => (false, o) :: (pieceSeqL ks ++ [(false, c)])
def pieceSeqL : List Node → List (Bool × PStr)
  | [] => []
  | k :: ks => pieceSeq k ++ pieceSeqL ks
end

mutual
theorem plain_pieceSeq : ∀ (t : Node), plain t = ((pieceSeq t).map (·.2)).flatten
  | .str s => by simp [plain, pieceSeq]
  | .void t => by simp [plain, pieceSeq]
  | .elem i o c pre ks => by simp [plain, pieceSeq, plainL_pieceSeq ks]
theorem plainL_pieceSeq : ∀ (ks : List Node), plainL ks = ((pieceSeqL ks).map (·.2)).flatten
  | [] => by simp [plainL, pieceSeqL]
  | k :: ks => by simp [plainL, pieceSeqL, plain_pieceSeq k, plainL_pieceSeq ks]
end

/-- what pretty-printing does to one piece: the piece itself — or, for a string piece, the piece with surrounding whitespace
    stripped — with some copies of the unit before it and possibly a newline after it -/
inductive Decorated (u : PStr) : Bool × PStr → PStr → Prop
  | keep (b : Bool) (p : PStr) (n : Int) (nl : Bool) : Decorated u (b, p) (rep u n ++ p ++ (if nl then [10] else []))
  | stripped (p : PStr) (n : Int) (nl : Bool) : Decorated u (true, p) (rep u n ++ strip p ++ (if nl then [10] else []))

/-- element-wise relation of two lists -/
inductive Pointwise {α β : Type} (R : α → β → Prop) : List α → List β → Prop
  | nil : Pointwise R [] []
  | cons {a : α} {b : β} {as : List α} {bs : List β} : R a b → Pointwise R as bs → Pointwise R (a :: as) (b :: bs)

theorem Pointwise.append {α β : Type} {R : α → β → Prop} {a c : List α} {b d : List β}
    (h1 : Pointwise R a b) (h2 : Pointwise R c d) : Pointwise R (a ++ c) (b ++ d) := by
  induction h1 with
  | nil => simpa using h2
  | cons hr _ ih => exact Pointwise.cons hr ih

theorem Pointwise.length_eq {α β : Type} {R : α → β → Prop} {a : List α} {b : List β} (h : Pointwise R a b) :
    a.length = b.length := by
  induction h with
  | nil => rfl
  | cons _ _ ih => simp [ih]

theorem dec_id (u : PStr) (b : Bool) (p : PStr) : Decorated u (b, p) p := by
  simpa using Decorated.keep (u := u) b p 0 false

theorem dec_full (u : PStr) (b : Bool) (p : PStr) (l : Int) : Decorated u (b, p) (fullLine u l p) := by
  by_cases h : p = []
  · subst h; simpa [fullLine] using Decorated.keep (u := u) b [] 0 false
  · simpa [fullLine, h] using Decorated.keep (u := u) b p l true

theorem dec_full_strip (u : PStr) (s : PStr) (l : Int) : Decorated u (true, s) (fullLine u l (strip s)) := by
  by_cases h : strip s = []
  · simpa [fullLine, h] using Decorated.stripped (u := u) s 0 false
  · simpa [fullLine, h] using Decorated.stripped (u := u) s l true

theorem dec_open (u : PStr) (p : PStr) (l : Int) : Decorated u (false, p) (openLine u l p) := by
  by_cases h : p = []
  · subst h; simpa [openLine] using Decorated.keep (u := u) false [] 0 false
  · simpa [openLine, h] using Decorated.keep (u := u) false p l false

theorem dec_close (u : PStr) (p : PStr) : Decorated u (false, p) (closeLine p) := by
  by_cases h : p = []
  · subst h; simpa [closeLine] using Decorated.keep (u := u) false [] 0 false
  · simpa [closeLine, h] using Decorated.keep (u := u) false p 0 true

mutual
theorem same_pieces (u : PStr) : ∀ (t : Node) (l : Int) (lit : Bool),
    ∃ qs, Pointwise (Decorated u) (pieceSeq t) qs ∧ prettyNode u l lit t = qs.flatten
  | .str s, l, lit => by
    cases lit
    · exact ⟨[fullLine u l (strip s)], .cons (dec_full_strip u s l) .nil, by simp [prettyNode]⟩
    · exact ⟨[s], .cons (dec_id u true s) .nil, by simp [prettyNode]⟩
  | .void t, l, lit => by
    cases lit
    · exact ⟨[fullLine u l t], .cons (dec_full u false t l) .nil, by simp [prettyNode]⟩
    · exact ⟨[t], .cons (dec_id u false t) .nil, by simp [prettyNode]⟩
  | .elem i o c pre ks, l, lit => by
    cases lit
    · cases pre
      · obtain ⟨qs, hq, he⟩ := same_piecesL u ks (l + 1) false
        exact ⟨fullLine u l o :: (qs ++ [fullLine u l c]),
          .cons (dec_full u false o l) (hq.append (.cons (dec_full u false c l) .nil)), by simp [prettyNode, he]⟩
      · obtain ⟨qs, hq, he⟩ := same_piecesL u ks (l + 1) true
        exact ⟨openLine u l o :: (qs ++ [closeLine c]),
          .cons (dec_open u o l) (hq.append (.cons (dec_close u c) .nil)), by simp [prettyNode, he]⟩
    · obtain ⟨qs, hq, he⟩ := same_piecesL u ks (l + 1) true
      exact ⟨o :: (qs ++ [c]), .cons (dec_id u false o) (hq.append (.cons (dec_id u false c) .nil)), by simp [prettyNode, he]⟩
theorem same_piecesL (u : PStr) : ∀ (ks : List Node) (l : Int) (lit : Bool),
    ∃ qs, Pointwise (Decorated u) (pieceSeqL ks) qs ∧ prettyL u l lit ks = qs.flatten
  | [], l, lit => ⟨[], .nil, by simp [prettyL]⟩
  | k :: ks, l, lit => by
    obtain ⟨q1, h1, e1⟩ := same_pieces u k l lit
    obtain ⟨q2, h2, e2⟩ := same_piecesL u ks l lit
    exact ⟨q1 ++ q2, h1.append h2, by simp [prettyL, e1, e2]⟩
end

/-! ### blank strings -/

theorem dropWhile_nil_of_all {p : Nat → Bool} : ∀ (s : PStr), (∀ c ∈ s.dropWhile p, p c = true) → s.dropWhile p = []
  | [], _ => rfl
  | c :: s, h => by
    by_cases hc : p c = true
    · rw [List.dropWhile_cons_of_pos hc] at h ⊢
      exact dropWhile_nil_of_all s h
    · rw [List.dropWhile_cons_of_neg hc] at h
      exact absurd (h c (by simp)) hc

theorem dropWhile_eq_nil_iff' {p : Nat → Bool} : ∀ (s : PStr), s.dropWhile p = [] ↔ ∀ c ∈ s, p c = true
  | [] => by simp
  | c :: s => by
    by_cases hc : p c = true
    · rw [List.dropWhile_cons_of_pos hc, dropWhile_eq_nil_iff' s]
      simp [hc]
    · rw [List.dropWhile_cons_of_neg hc]
      simp [hc]

theorem lstrip_eq_nil_iff (s : PStr) : lstrip s = [] ↔ ∀ c ∈ s, isSpace c = true := dropWhile_eq_nil_iff' s

theorem strip_eq_nil_iff (s : PStr) : strip s = [] ↔ ∀ c ∈ s, isSpace c = true := by
  constructor
  · intro h
    simp only [strip, rstrip, List.reverse_eq_nil_iff, dropWhile_eq_nil_iff', List.mem_reverse] at h
    -- every element of `lstrip s` is whitespace, but its head (if any) is not: so it is empty
    exact (lstrip_eq_nil_iff s).mp (dropWhile_nil_of_all s h)
  · intro h
    have : lstrip s = [] := (lstrip_eq_nil_iff s).mpr h
    simp [strip, rstrip, this]

/-! ### identities -/

theorem distinctL_kids {t : Node} (h : distinct t = true) : distinctL t.kids = true := by
  cases t with
  | str s => simp [Node.kids, distinctL]
  | void t => simp [Node.kids, distinctL]
  | elem i o c pre ks =>
    simp only [distinct, Bool.and_eq_true] at h
    simpa [Node.kids] using h.2

end BS.Pretty

namespace BS.Pretty

/-! ### line structure without the visibility hypothesis: blocks -/

/-- one stretch of the pretty output: `unit^(level+d)` before it or not, the content, a newline after it or not -/
structure Block where
  d : Nat
  ind : Bool
  p : PStr
  nl : Bool
deriving Repr, DecidableEq

def blockOf (u : PStr) (l : Int) (b : Block) : PStr :=
  (if b.ind then rep u (l + b.d) else []) ++ b.p ++ (if b.nl then [10] else [])

mutual
/-- like `items`, for every tree: a whitespace-preserving element whose opening (closing) piece is empty — a hidden one — is
    a block without indentation (without newline) -/
def blocks : Nat → Node → List Block
  | d, .str s => if strip s = [] then [] else [⟨d, true, strip s, true⟩]
  | d, .void t => if t = [] then [] else [⟨d, true, t, true⟩]
  | d, .elem i o c pre ks =>
    if pre then [⟨d, !o.isEmpty, plain (.elem i o c pre ks), !c.isEmpty⟩]
    else (if o = [] then [] else [⟨d, true, o, true⟩]) ++ blocksL (d + 1) ks ++ (if c = [] then [] else [⟨d, true, c, true⟩])
def blocksL : Nat → List Node → List Block
  | _, [] => []
  | d, k :: ks => blocks d k ++ blocksL d ks
end

def layoutB (u : PStr) (l : Int) (bs : List Block) : PStr := (bs.map (blockOf u l)).flatten

theorem layoutB_append (u : PStr) (l : Int) (a b : List Block) : layoutB u l (a ++ b) = layoutB u l a ++ layoutB u l b := by
  simp [layoutB]

theorem fullLine_layoutB (u : PStr) (l : Int) (d : Nat) (p : PStr) :
    fullLine u (l + d) p = layoutB u l (if p = [] then [] else [⟨d, true, p, true⟩]) := by
  by_cases h : p = [] <;> simp [fullLine, h, layoutB, blockOf]

mutual
theorem pretty_blocks : ∀ (u : PStr) (t : Node) (l : Int) (d : Nat),
    prettyNode u (l + d) false t = layoutB u l (blocks d t)
  | u, .str s, l, d => by simp [prettyNode, blocks, fullLine_layoutB]
  | u, .void t, l, d => by simp [prettyNode, blocks, fullLine_layoutB]
  | u, .elem i o c pre ks, l, d => by
    cases pre with
    | true =>
      by_cases ho : o = [] <;> by_cases hc : c = [] <;>
        simp [prettyNode, blocks, openLine, closeLine, ho, hc, layoutB, blockOf, prettyL_lit, plain]
    | false =>
      have hd : l + (d : Int) + 1 = l + ((d + 1 : Nat) : Int) := by omega
      simp only [prettyNode, blocks, fullLine_layoutB, hd]
      rw [prettyL_blocks u ks l (d + 1)]
      simp [layoutB_append]
theorem prettyL_blocks : ∀ (u : PStr) (ks : List Node) (l : Int) (d : Nat),
    prettyL u (l + d) false ks = layoutB u l (blocksL d ks)
  | u, [], l, d => by simp [prettyL, blocksL, layoutB]
  | u, k :: ks, l, d => by
    simp only [prettyL, blocksL, layoutB_append]
    rw [pretty_blocks u k l d, prettyL_blocks u ks l d]
end

/-- an item as a block: indented, newline after -/
def lineBlock (it : Nat × PStr) : Block := ⟨it.1, true, it.2, true⟩

mutual
theorem blocks_items : ∀ (t : Node) (d : Nat), preVisible t = true → blocks d t = (items d t).map lineBlock
  | .str s, d, _ => by by_cases h : strip s = [] <;> simp [blocks, items, h, lineBlock]
  | .void t, d, _ => by by_cases h : t = [] <;> simp [blocks, items, h, lineBlock]
  | .elem i o c pre ks, d, h => by
    cases pre with
    | true =>
      simp only [preVisible, if_true, Bool.and_eq_true] at h
      simp [blocks, items, lineBlock, h.1, h.2]
    | false =>
      simp only [preVisible] at h
      have := blocksL_items ks (d + 1) (by simpa using h)
      by_cases ho : o = [] <;> by_cases hc : c = [] <;> simp [blocks, items, ho, hc, this, lineBlock]
theorem blocksL_items : ∀ (ks : List Node) (d : Nat), preVisibleL ks = true → blocksL d ks = (itemsL d ks).map lineBlock
  | [], d, _ => by simp [blocksL, itemsL]
  | k :: ks, d, h => by
    simp only [preVisibleL, Bool.and_eq_true] at h
    simp [blocksL, itemsL, blocks_items k d h.1, blocksL_items ks d h.2]
end

/-! ### verbatim blocks below a list of nodes -/

theorem outermost_infix_L (u : PStr) {d : Nat} {e k : Node} {ks : List Node} (hk : k ∈ ks) (h : OutermostPre d e k)
    (l : Int) : plain e <:+: prettyL u l false ks := by
  obtain ⟨a, b, hab⟩ := infix_prettyL u l k ks hk
  obtain ⟨a', b', hab'⟩ := outermost_infix u h l
  exact ⟨a ++ a', b' ++ b, by simp [← hab, ← hab']⟩

theorem outermost_line_L (u : PStr) {d : Nat} {e k : Node} {ks : List Node} (hk : k ∈ ks) (h : OutermostPre d e k)
    (hv : preVisible e = true) (l : Int) : rep u (l + d) ++ plain e ++ [10] <:+: prettyL u l false ks := by
  obtain ⟨a, b, hab⟩ := infix_prettyL u l k ks hk
  obtain ⟨a', b', hab'⟩ := outermost_line u h hv l
  exact ⟨a ++ a', b' ++ b, by simp [← hab, ← hab']⟩

end BS.Pretty
