import BSModel.Proofs.PrettyLaws
/-! C14, the layer above the pieces: `_format_tag` / `output_ready` pieces, receivers, encodings, XML declaration -/
namespace BS.Pretty

/-! ### tag pieces -/

theorem formatTag_hidden (c : RCfg) (i : TagInfo) (e o : Bool) (h : i.hidden = true) : formatTag c i e o = [] := by
  simp [formatTag, h]

theorem formatTag_visible (c : RCfg) (i : TagInfo) (e o : Bool) (h : i.hidden = false) :
    ∃ mid, formatTag c i e o = 60 :: (mid ++ [62]) := by
  refine ⟨(if !o then [47] else []) ++ (if i.nsPrefix ≠ [] then i.nsPrefix ++ [58] else []) ++ i.name ++
    (if o then attrString i c.enc else []) ++ (if e then c.vcp else []), ?_⟩
  simp [formatTag, h]

theorem formatTag_ne_nil (c : RCfg) (i : TagInfo) (e o : Bool) (h : i.hidden = false) : formatTag c i e o ≠ [] := by
  obtain ⟨m, hm⟩ := formatTag_visible c i e o h
  simp [hm]

theorem formatTag_isEmpty (c : RCfg) (i : TagInfo) (e o : Bool) : (formatTag c i e o).isEmpty = i.hidden := by
  cases h : i.hidden
  · have := formatTag_ne_nil c i e o h
    simpa using this
  · simp [formatTag_hidden c i e o h]

/-- a string that starts and ends with non-whitespace is its own `strip()` -/
theorem strip_bracketed (a b : Nat) (mid : PStr) (ha : isSpace a = false) (hb : isSpace b = false) :
    strip (a :: (mid ++ [b])) = a :: (mid ++ [b]) := by
  have h1 : lstrip (a :: (mid ++ [b])) = a :: (mid ++ [b]) := by simp [lstrip, ha]
  have h2 : (a :: (mid ++ [b])).reverse = b :: (mid.reverse ++ [a]) := by simp
  simp [strip, rstrip, h1, h2, hb]

theorem strip_formatTag (c : RCfg) (i : TagInfo) (e o : Bool) : strip (formatTag c i e o) = formatTag c i e o := by
  cases h : i.hidden
  · obtain ⟨m, hm⟩ := formatTag_visible c i e o h
    rw [hm]
    exact strip_bracketed 60 62 m (by decide) (by decide)
  · simp [formatTag_hidden c i e o h, strip, rstrip, lstrip]

/-! ### string pieces with a prefix -/

/-- dropping a trailing run of whitespace: `rstrip` stops at a character that is not whitespace -/
theorem rstrip_append_ws (s : PStr) (b : Nat) (w : PStr) (hw : ∀ c ∈ w, isSpace c = true) (hb : isSpace b = false) :
    rstrip (s ++ [b] ++ w) = s ++ [b] := by
  unfold rstrip
  rw [List.reverse_append, List.dropWhile_append_of_pos (by simpa using hw)]
  simp [hb]

/-- a piece `pre ++ body ++ core ++ ws` whose first character and whose last character before the trailing whitespace are not
    whitespace strips to itself without that trailing whitespace (Doctype: `"<!DOCTYPE " ++ body ++ ">" ++ "\n"`) -/
theorem strip_affixed (a : Nat) (pre body : PStr) (b : Nat) (w : PStr) (ha : isSpace a = false) (hb : isSpace b = false)
    (hw : ∀ c ∈ w, isSpace c = true) :
    strip ((a :: pre) ++ body ++ ([b] ++ w)) = (a :: pre) ++ body ++ [b] := by
  have h1 : lstrip ((a :: pre) ++ body ++ ([b] ++ w)) = (a :: pre) ++ body ++ ([b] ++ w) := by simp [lstrip, ha]
  unfold strip
  rw [h1]
  have : (a :: pre) ++ body ++ ([b] ++ w) = ((a :: pre) ++ body) ++ [b] ++ w := by simp
  rw [this]
  exact rstrip_append_ws _ b w hw hb

theorem rstrip_append_rtail (s : PStr) : rstrip s ++ rtail s = s := by
  have h : s.reverse.takeWhile isSpace ++ s.reverse.dropWhile isSpace = s.reverse := List.takeWhile_append_dropWhile
  calc rstrip s ++ rtail s = (s.reverse.takeWhile isSpace ++ s.reverse.dropWhile isSpace).reverse := by
        rw [List.reverse_append]; rfl
    _ = s := by rw [h]; simp

theorem mem_takeWhile_imp {p : Nat → Bool} : ∀ (l : PStr) (c : Nat), c ∈ l.takeWhile p → p c = true
  | [], c, h => by simp at h
  | x :: l, c, h => by
    by_cases hx : p x = true
    · rw [List.takeWhile_cons_of_pos hx] at h
      rcases List.mem_cons.mp h with rfl | h
      · exact hx
      · exact mem_takeWhile_imp l c h
    · rw [List.takeWhile_cons_of_neg hx] at h
      simp at h

theorem rtail_ws (s : PStr) : ∀ c ∈ rtail s, isSpace c = true := by
  intro c hc
  simp only [rtail, List.mem_reverse] at hc
  exact mem_takeWhile_imp _ c hc

theorem dropWs_rtail (s : PStr) : dropWs (rtail s) = [] := dropWs_all (rtail_ws s)

/-- the last character `rstrip` keeps is not whitespace -/
theorem rstrip_getLast? (s : PStr) : ∀ b, (rstrip s).getLast? = some b → isSpace b = false := by
  intro b hb
  simp only [rstrip, List.getLast?_reverse] at hb
  have := List.head?_dropWhile_not isSpace s.reverse
  rw [hb] at this
  simpa using this

/-- the check behind the table fact about PREFIX/SUFFIX: either both empty (text classes) or the prefix starts with, and
    the suffix minus trailing whitespace ends with, a character that is not whitespace -/
def affixOk (e : PStr × PStr × PStr × Bool) : Bool :=
  (e.2.1.isEmpty && e.2.2.1.isEmpty) ||
    (match e.2.1.head?, (rstrip e.2.2.1).getLast? with
     | some a, some b => !isSpace a && !isSpace b
     | _, _ => false)

/-- lifting: a string of such a class with a non-empty PREFIX strips to PREFIX ++ body ++ SUFFIX-without-trailing-whitespace -/
theorem strip_outputReady (e : PStr × PStr × PStr × Bool) (h : affixOk e = true) (hp : e.2.1 ≠ []) (body : PStr) :
    strip (outputReady e.2.1 e.2.2.1 body) = e.2.1 ++ body ++ rstrip e.2.2.1 ∧ strip (outputReady e.2.1 e.2.2.1 body) ≠ [] := by
  obtain ⟨nm, pre, suf, pf⟩ := e
  simp only at hp ⊢
  simp only [affixOk, Bool.or_eq_true, Bool.and_eq_true, List.isEmpty_iff] at h
  rcases h with h | h
  · exact absurd h.1 hp
  · cases hpre : pre with
    | nil => exact absurd hpre hp
    | cons a pre' =>
      cases hl : (rstrip suf).getLast? with
      | none => simp [hpre, hl] at h
      | some b =>
        simp only [hpre, hl, List.head?_cons, Bool.and_eq_true, Bool.not_eq_true'] at h
        obtain ⟨sfx, hs⟩ : ∃ sfx, rstrip suf = sfx ++ [b] := by
          have hne : rstrip suf ≠ [] := by intro hn; simp [hn] at hl
          refine ⟨(rstrip suf).dropLast, ?_⟩
          have := List.dropLast_concat_getLast hne
          rw [List.getLast?_eq_some_getLast hne] at hl
          rw [← Option.some.inj hl]
          exact this.symm
        have key := strip_affixed a pre' (body ++ sfx) b (rtail suf) h.1 h.2 (rtail_ws suf)
        have e1 : outputReady (a :: pre') suf body = (a :: pre') ++ (body ++ sfx) ++ ([b] ++ rtail suf) := by
          have : (a :: pre') ++ body ++ suf = (a :: pre') ++ body ++ (rstrip suf ++ rtail suf) := by rw [rstrip_append_rtail]
          rw [outputReady, this, hs]; simp
        rw [e1, key, hs]
        exact ⟨by simp, by simp⟩

/-! ### resolving keeps the shape -/

theorem resolveL_isEmpty (c : RCfg) (ks : List RNode) : (resolveL c ks).isEmpty = ks.isEmpty := by
  cases ks <;> simp [resolveL]

mutual
theorem ids_resolve (c : RCfg) : ∀ (r : RNode) (x : Nat), x ∈ ids (resolve c r) → x ∈ rids r
  | .str p s b, x, h => by simp [resolve, ids] at h
  | .tag i ks, x, h => by
    simp only [resolve, mkTag, resolveL_isEmpty] at h
    by_cases he : (ks.isEmpty && i.canBeEmpty) = true
    · simp [he, ids] at h
    · simp only [he, Bool.false_eq_true, if_false, ids, List.mem_cons] at h
      rcases h with h | h
      · simp [rids, h]
      · simp [rids, idsL_resolve c ks x h]
theorem idsL_resolve (c : RCfg) : ∀ (ks : List RNode) (x : Nat), x ∈ idsL (resolveL c ks) → x ∈ ridsL ks
  | [], x, h => by simp [resolveL, idsL] at h
  | k :: ks, x, h => by
    simp only [resolveL, idsL, List.mem_append] at h
    rcases h with h | h
    · simp [ridsL, ids_resolve c k x h]
    · simp [ridsL, idsL_resolve c ks x h]
end

mutual
theorem distinct_resolve (c : RCfg) : ∀ (r : RNode), rdistinct r = true → distinct (resolve c r) = true
  | .str p s b, _ => by simp [resolve, distinct]
  | .tag i ks, h => by
    simp only [rdistinct, Bool.and_eq_true, Bool.not_eq_true', List.contains_eq_mem, decide_eq_false_iff_not] at h
    simp only [resolve, mkTag, resolveL_isEmpty]
    by_cases he : (ks.isEmpty && i.canBeEmpty) = true
    · simp [he, distinct]
    · simp only [he, Bool.false_eq_true, if_false, distinct, Bool.and_eq_true, Bool.not_eq_true', List.contains_eq_mem,
        decide_eq_false_iff_not]
      exact ⟨fun hx => h.1 (idsL_resolve c ks _ hx), distinctL_resolve c ks h.2⟩
theorem distinctL_resolve (c : RCfg) : ∀ (ks : List RNode), rdistinctL ks = true → distinctL (resolveL c ks) = true
  | [], _ => by simp [resolveL, distinctL]
  | k :: ks, h => by
    simp only [rdistinctL, Bool.and_eq_true] at h
    simp [resolveL, distinctL, distinct_resolve c k h.1, distinctL_resolve c ks h.2]
end

mutual
theorem preVisible_resolve (c : RCfg) : ∀ (r : RNode), rPreVisible r = true → preVisible (resolve c r) = true
  | .str p s b, _ => by simp [resolve, preVisible]
  | .tag i ks, h => by
    simp only [rPreVisible] at h
    simp only [resolve, mkTag, resolveL_isEmpty]
    by_cases he : (ks.isEmpty && i.canBeEmpty) = true
    · simp [he, preVisible]
    · simp only [he, Bool.false_eq_true, if_false] at h ⊢
      simp only [preVisible]
      by_cases hp : (!shouldPrettyPrint i.preserveWs i.name) = true
      · simp only [hp, if_true] at h ⊢
        simp only [Bool.not_eq_true'] at h
        simp [formatTag_isEmpty, h]
      · simp only [hp, Bool.false_eq_true, if_false] at h ⊢
        exact preVisibleL_resolve c ks h
theorem preVisibleL_resolve (c : RCfg) : ∀ (ks : List RNode), rPreVisibleL ks = true → preVisibleL (resolveL c ks) = true
  | [], _ => by simp [resolveL, preVisibleL]
  | k :: ks, h => by
    simp only [rPreVisibleL, Bool.and_eq_true] at h
    simp [resolveL, preVisibleL, preVisible_resolve c k h.1, preVisibleL_resolve c ks h.2]
end

theorem kids_resolve (c : RCfg) (r : RNode) : (resolve c r).kids = resolveL c r.kids := by
  cases r with
  | str p s b => simp [resolve, Node.kids, RNode.kids, resolveL]
  | tag i ks =>
    simp only [resolve, mkTag, resolveL_isEmpty, RNode.kids]
    by_cases he : (ks.isEmpty && i.canBeEmpty) = true
    · have : ks = [] := by
        cases ks with
        | nil => rfl
        | cons k ks => simp at he
      subst this
      have hc : i.canBeEmpty = true := by simpa using he
      simp [hc, Node.kids, resolveL]
    · simp [he, Node.kids]

theorem rdistinctL_kids {r : RNode} (h : rdistinct r = true) : rdistinctL r.kids = true := by
  cases r with
  | str p s b => simp [RNode.kids, rdistinctL]
  | tag i ks =>
    simp only [rdistinct, Bool.and_eq_true] at h
    simpa [RNode.kids] using h.2

/-! ### the XML declaration -/

theorem xmlDecl_false (enc : Option PStr) : xmlDecl false enc = [] := by simp [xmlDecl]

theorem xmlDecl_endsNl (x : Bool) (enc : Option PStr) : EndsNl (xmlDecl x enc) := by
  cases x
  · exact Or.inl (xmlDecl_false enc)
  · simp only [xmlDecl, if_true]
    have : ofS "?>\n" = ofS "?>" ++ [10] := by decide
    rw [this]
    exact Or.inr ⟨_, (List.append_assoc _ _ _).symm⟩

/-! ### whitespace-only changes at the level of receivers -/

theorem dropWs_decodeSpec (u : PStr) (hu : ∀ c ∈ u, isSpace c = true) (lvl : Option Int) (h co : Bool) (t : Node) :
    dropWs (decodeSpec u lvl h co t) = dropWs (decodeSpec u none h co t) := by
  cases lvl with
  | none => rfl
  | some l =>
    by_cases hc : (h || co) = true
    · simp [decodeSpec, hc, dropWs_prettyL u hu]
    · simp [decodeSpec, hc, dropWs_pretty u hu]

theorem endsNl_decodeSpec (u : PStr) (l : Int) (h co : Bool) (t : Node)
    (hv : if (h || co) = true then preVisibleL t.kids = true else preVisible t = true) :
    EndsNl (decodeSpec u (some l) h co t) := by
  by_cases hc : (h || co) = true
  · simp only [hc, if_true] at hv
    have := prettyL_layout u t.kids l 0 hv
    simp only [Int.natCast_zero, Int.add_zero] at this
    simp only [decodeSpec, hc, if_true, this]
    exact layout_endsNl u l _
  · simp only [hc, Bool.false_eq_true, if_false] at hv
    have := pretty_layout u t l 0 hv
    simp only [Int.natCast_zero, Int.add_zero] at this
    simp only [decodeSpec, hc, Bool.false_eq_true, if_false, this]
    exact layout_endsNl u l _

end BS.Pretty
