import BSModel.Model.PrettyReparse
import BSModel.Proofs.PrettyRaw
import BSModel.Proofs.RenderWritten
/-! C14 helper lemmas, part 1: the pretty rendering of a tree (C14's loop/spec on C05's pieces) is the plain rendering of
    `prettyTreeL` (for the 'minimal' formatter on `renderWritable` trees and a whitespace indent unit). -/
namespace BS.PrettyReparse
open BS.Render
open BS.Pretty (rep strip lstrip rstrip isSpace dropWs shouldPrettyPrint fullLine openLine closeLine prettyNode prettyL plain plainL)

/-- the parent's name does not switch substitution off -/
def PnOK (f : Fmt) (pn : Option PStr) : Prop := (match pn with | some n => f.cdataTags.contains n | none => false) = false

/-! ### `strip` commutes with `substitute_xml` -/

theorem dropWhile_flatMap (g : Nat → PStr) (h1 : ∀ c, isSpace c = true → g c = [c])
    (h2 : ∀ c, isSpace c = false → ∃ h t, g c = h :: t ∧ isSpace h = false) :
    ∀ s : PStr, (s.flatMap g).dropWhile isSpace = (s.dropWhile isSpace).flatMap g
  | [] => rfl
  | c :: cs => by
    cases hc : isSpace c with
    | true => simp [List.flatMap_cons, h1 c hc, hc, dropWhile_flatMap g h1 h2 cs]
    | false =>
      obtain ⟨h, t, e, hh⟩ := h2 c hc
      simp [List.flatMap_cons, e, hc, hh]

theorem substXml_eq_flatMap : ∀ (s : PStr), substXml s = s.flatMap esc
  | [] => rfl
  | c :: cs => by simp [substXml, substXml_eq_flatMap cs]

theorem space_not_markup (c : Nat) (h : isSpace c = true) : c ≠ 38 ∧ c ≠ 60 ∧ c ≠ 62 := by
  refine ⟨?_, ?_, ?_⟩ <;> (intro e; subst e; revert h; decide)

theorem esc_space (c : Nat) (h : isSpace c = true) : esc c = [c] := by
  obtain ⟨h1, h2, h3⟩ := space_not_markup c h
  simp [esc, h1, h2, h3]

theorem esc_head (c : Nat) (h : isSpace c = false) : ∃ a t, esc c = a :: t ∧ isSpace a = false := by
  have h38 : isSpace 38 = false := by decide
  unfold esc
  split
  · exact ⟨38, _, rfl, h38⟩
  · split
    · exact ⟨38, _, rfl, h38⟩
    · split
      · exact ⟨38, _, rfl, h38⟩
      · exact ⟨c, [], rfl, h⟩

theorem esc_last (c : Nat) (h : isSpace c = false) : ∃ a t, (esc c).reverse = a :: t ∧ isSpace a = false := by
  have h59 : isSpace 59 = false := by decide
  unfold esc
  split
  · exact ⟨59, _, rfl, h59⟩
  · split
    · exact ⟨59, _, rfl, h59⟩
    · split
      · exact ⟨59, _, rfl, h59⟩
      · exact ⟨c, [], rfl, h⟩

theorem strip_substXml (s : PStr) : strip (substXml s) = substXml (strip s) := by
  have hl : ∀ s : PStr, lstrip (s.flatMap esc) = (lstrip s).flatMap esc :=
    dropWhile_flatMap esc esc_space esc_head
  have hr : ∀ s : PStr, rstrip (s.flatMap esc) = (rstrip s).flatMap esc := by
    intro s
    unfold rstrip
    rw [List.reverse_flatMap]
    rw [dropWhile_flatMap (List.reverse ∘ esc) (fun c hc => by simp [esc_space c hc]) (fun c hc => esc_last c hc)]
    rw [List.reverse_flatMap]
    congr 1
    funext c
    simp
  rw [substXml_eq_flatMap, substXml_eq_flatMap]
  unfold strip
  rw [hl, hr]

theorem substXml_ws : ∀ (x : PStr), (∀ c ∈ x, isSpace c = true) → substXml x = x
  | [], _ => rfl
  | c :: cs, h => by
    simp [substXml, esc_space c (h c (by simp)), substXml_ws cs (fun d hd => h d (by simp [hd]))]

theorem rep_ws (u : PStr) (hu : ∀ c ∈ u, isSpace c = true) (l : Int) : ∀ c ∈ rep u l, isSpace c = true := by
  intro c hc
  simp only [rep, List.mem_flatten, List.mem_replicate] at hc
  obtain ⟨x, ⟨_, rfl⟩, hx⟩ := hc
  exact hu c hx

theorem nl_ws : ∀ c ∈ ([10] : PStr), isSpace c = true := by decide

/-! ### pieces -/

theorem substitute_min (f : Fmt) (hf : f.subst = some substXml) (pn : Option PStr) (hpn : PnOK f pn) (s : PStr) :
    substitute f pn s = substXml s := by
  unfold substitute
  rw [hf]
  cases pn with
  | none => rfl
  | some n =>
    have : f.cdataTags.contains n = false := hpn
    simp only [this, Bool.false_eq_true, if_false]

/-- what the bridge needs of the function `Formatter.substitute` applies to a string under a given parent: it commutes with
    `strip`, leaves whitespace alone and makes nothing empty. True of `substitute_xml` and of the identity (text below a
    cdata-containing element — script, style — is not substituted). -/
structure SubstOK (g : PStr → PStr) : Prop where
  strip_comm : ∀ s, strip (g s) = g (strip s)
  ws_fix : ∀ x, (∀ c ∈ x, isSpace c = true) → g x = x
  ne : ∀ s, s ≠ [] → g s ≠ []

theorem substOK_xml : SubstOK substXml :=
  ⟨strip_substXml, substXml_ws, by
    intro s hs e
    cases s with
    | nil => exact hs rfl
    | cons a t =>
      have : esc a ≠ [] := by unfold esc; split <;> (try split) <;> (try split) <;> simp
      simp [substXml, this] at e⟩

theorem substOK_id : SubstOK (fun s => s) := ⟨fun _ => rfl, fun _ _ => rfl, fun _ h => h⟩

theorem substitute_ok (f : Fmt) (hf : f.subst = some substXml) (pn : Option PStr) :
    ∃ g, SubstOK g ∧ ∀ s, substitute f pn s = g s := by
  cases pn with
  | none => exact ⟨substXml, substOK_xml, fun s => by simp [substitute, hf]⟩
  | some n =>
    by_cases h : f.cdataTags.contains n = true
    · exact ⟨fun s => s, substOK_id, fun s => by simp only [substitute, hf, h, if_true]⟩
    · exact ⟨substXml, substOK_xml, fun s => by simp only [substitute, hf, h, Bool.false_eq_true, if_false]⟩

theorem render_ws (ci : SCls → ClsInfo) (hci : ∀ c, ci c = assumedMarkup c) (f : Fmt) (hf : f.subst = some substXml)
    (pn : Option PStr) (x : PStr) (hx : ∀ c ∈ x, isSpace c = true) :
    renderSpec ci f pn (ws x) = x := by
  obtain ⟨g, hg, hs⟩ := substitute_ok f hf pn
  simp [ws, renderSpec, outputReady, hci, assumedMarkup, hs, hg.ws_fix x hx]

theorem render_line (ci : SCls → ClsInfo) (hci : ∀ c, ci c = assumedMarkup c) (f : Fmt) (hf : f.subst = some substXml)
    (pn : Option PStr) (u : PStr) (hu : ∀ c ∈ u, isSpace c = true) (l : Int) (n : Node) :
    renderL ci f pn (line u l n) = rep u l ++ renderSpec ci f pn n ++ [10] := by
  simp [line, renderL, render_ws ci hci f hf pn _ (rep_ws u hu l), render_ws ci hci f hf pn _ nl_ws]

theorem renderL_append (ci : SCls → ClsInfo) (f : Fmt) (pn : Option PStr) : ∀ (a b : List Node),
    renderL ci f pn (a ++ b) = renderL ci f pn a ++ renderL ci f pn b
  | [], _ => rfl
  | x :: xs, b => by simp [renderL, renderL_append ci f pn xs b]

theorem formatTag_shape (f : Fmt) (i : TagInfo) (h : i.hidden = false) (e o : Bool) :
    ∃ mid, formatTag f i e o = 60 :: (mid ++ [62]) := by
  refine ⟨(if o then [] else [47]) ++ prefixStr i ++ i.name ++ (if o then attrString f i.attrs else [])
      ++ (if e then f.voidPrefix else []), ?_⟩
  simp [formatTag, h]

theorem fullLine_ne (u : PStr) (l : Int) (p : PStr) (h : p ≠ []) : fullLine u l p = rep u l ++ p ++ [10] := by
  simp [fullLine, h]

/-- the piece of a string and its line -/
theorem str_line (ci : SCls → ClsInfo) (hci : ∀ c, ci c = assumedMarkup c) (f : Fmt) (hf : f.subst = some substXml)
    (pn : Option PStr) (u : PStr) (hu : ∀ c ∈ u, isSpace c = true) (pwt : Option (List PStr)) (l : Int)
    (c : SCls) (s : PStr) :
    fullLine u l (strip (outputReady ci f pn c s)) = renderL ci f pn (prettyTree u pwt l (.str c s)) := by
  have h60 : isSpace 60 = false := by decide
  have h62 : isSpace 62 = false := by decide
  have hbr : ∀ mid : PStr, strip (60 :: (mid ++ [62])) = 60 :: (mid ++ [62]) := fun mid =>
    BS.Pretty.strip_bracketed 60 62 mid h60 h62
  have htext : ∀ c' : SCls, assumedMarkup c' = ⟨[], [], false⟩ →
      (prettyTree u pwt l (.str c' s) = if strip s = [] then [] else line u l (.str c' (strip s))) →
      fullLine u l (strip (outputReady ci f pn c' s)) = renderL ci f pn (prettyTree u pwt l (.str c' s)) := by
    intro c' hc' hp
    rw [hp]
    obtain ⟨g, hg, hsub⟩ := substitute_ok f hf pn
    have hp : ∀ x, outputReady ci f pn c' x = g x := by
      intro x; simp [outputReady, hci, hc', hsub]
    rw [hp, hg.strip_comm]
    by_cases hs : strip s = []
    · have : g [] = [] := hg.ws_fix [] (by simp)
      simp [hs, this, fullLine, renderL]
    · rw [if_neg hs, render_line ci hci f hf pn u hu, fullLine_ne u l _ (hg.ne _ hs)]
      simp [renderSpec, hp]
  cases c with
  | doctype =>
    have hp : outputReady ci f pn .doctype s = 60 :: (([33, 68, 79, 67, 84, 89, 80, 69, 32] ++ s) ++ [62]) ++ [10] := by
      simp [outputReady, hci, assumedMarkup]
    have hs : strip (outputReady ci f pn .doctype s) = 60 :: (([33, 68, 79, 67, 84, 89, 80, 69, 32] ++ s) ++ [62]) := by
      rw [hp]
      have := BS.Pretty.strip_affixed 60 [33, 68, 79, 67, 84, 89, 80, 69, 32] s 62 [10] h60 h62 (by decide)
      simpa using this
    rw [hs, fullLine_ne u l _ (by simp)]
    simp [prettyTree, renderL, render_ws ci hci f hf pn _ (rep_ws u hu l), renderSpec, outputReady, hci, assumedMarkup]
  | comment =>
    have hp : outputReady ci f pn .comment s = 60 :: (([33, 45, 45] ++ s ++ [45, 45]) ++ [62]) := by
      simp [outputReady, hci, assumedMarkup]
    rw [hp, hbr, fullLine_ne u l _ (by simp), ← hp]
    simp [prettyTree, render_line ci hci f hf pn u hu, renderSpec]
  | cdata =>
    have hp : outputReady ci f pn .cdata s = 60 :: (([33, 91, 67, 68, 65, 84, 65, 91] ++ s ++ [93, 93]) ++ [62]) := by
      simp [outputReady, hci, assumedMarkup]
    rw [hp, hbr, fullLine_ne u l _ (by simp), ← hp]
    simp [prettyTree, render_line ci hci f hf pn u hu, renderSpec]
  | pi =>
    have hp : outputReady ci f pn .pi s = 60 :: (([63] ++ s) ++ [62]) := by
      simp [outputReady, hci, assumedMarkup]
    rw [hp, hbr, fullLine_ne u l _ (by simp), ← hp]
    simp [prettyTree, render_line ci hci f hf pn u hu, renderSpec]
  | xmlpi =>
    have hp : outputReady ci f pn .xmlpi s = 60 :: (([63] ++ s ++ [63]) ++ [62]) := by
      simp [outputReady, hci, assumedMarkup]
    rw [hp, hbr, fullLine_ne u l _ (by simp), ← hp]
    simp [prettyTree, render_line ci hci f hf pn u hu, renderSpec]
  | declaration =>
    have hp : outputReady ci f pn .declaration s = 60 :: (([63] ++ s ++ [63]) ++ [62]) := by
      simp [outputReady, hci, assumedMarkup]
    rw [hp, hbr, fullLine_ne u l _ (by simp), ← hp]
    simp [prettyTree, render_line ci hci f hf pn u hu, renderSpec]
  | preformatted =>
    -- a bare PreformattedString is not substituted; its stripped piece is the piece of the stripped string
    have hp : ∀ x, outputReady ci f pn .preformatted x = x := by intro x; simp [outputReady, hci, assumedMarkup]
    rw [hp]
    by_cases hs : strip s = []
    · simp [prettyTree, hs, fullLine, renderL]
    · simp only [prettyTree, if_neg hs]
      rw [render_line ci hci f hf pn u hu, fullLine_ne u l _ hs]
      simp [renderSpec, hp]
  | navigable => exact htext _ rfl (by simp [prettyTree])
  | stylesheet => exact htext _ rfl (by simp [prettyTree])
  | script => exact htext _ rfl (by simp [prettyTree])
  | template => exact htext _ rfl (by simp [prettyTree])
  | rubyText => exact htext _ rfl (by simp [prettyTree])
  | rubyParen => exact htext _ rfl (by simp [prettyTree])

/-! ### literal mode and the plain rendering are C05's rendering -/

mutual
theorem plain_toP (ci : SCls → ClsInfo) (f : Fmt) (pwt : Option (List PStr)) : ∀ (n : Node) (pn : Option PStr) (k : Nat),
    plain (toP ci f pwt pn k n) = renderSpec ci f pn n
  | .str c s, pn, k => by simp [toP, plain, renderSpec]
  | .tag i ks, pn, k => by
    by_cases hv : (ks.isEmpty && i.cbe) = true
    · simp [toP, plain, renderSpec, hv]
    · have hv' : (ks.isEmpty && i.cbe) = false := by simpa using hv
      simp only [toP, hv', Bool.false_eq_true, if_false, plain, renderSpec, plainL_toPL ci f pwt ks (some i.name) (k + 1)]
theorem plainL_toPL (ci : SCls → ClsInfo) (f : Fmt) (pwt : Option (List PStr)) : ∀ (ns : List Node) (pn : Option PStr) (k : Nat),
    plainL (toPL ci f pwt pn k ns) = renderL ci f pn ns
  | [], _, _ => rfl
  | n :: ns, pn, k => by
    simp only [toPL, plainL, renderL, plain_toP ci f pwt n pn k, plainL_toPL ci f pwt ns pn (k + size n)]
end

mutual
theorem pretty_lit (u : PStr) : ∀ (t : BS.Pretty.Node) (l : Int), prettyNode u l true t = plain t
  | .str s, l => by simp [prettyNode, plain]
  | .void t, l => by simp [prettyNode, plain]
  | .elem i o c p ks, l => by simp [prettyNode, plain, prettyL_lit' u ks (l + 1)]
theorem prettyL_lit' (u : PStr) : ∀ (ts : List BS.Pretty.Node) (l : Int), prettyL u l true ts = plainL ts
  | [], _ => rfl
  | t :: ts, l => by simp [prettyL, plainL, pretty_lit u t l, prettyL_lit' u ts l]
end

theorem prettyL_lit {ci : SCls → ClsInfo} {f : Fmt} {pwt : Option (List PStr)} {u : PStr} {l : Int} {pn : Option PStr} {k : Nat}
    {ks : List Node} : prettyL u l true (toPL ci f pwt pn k ks) = renderL ci f pn ks := by
  rw [prettyL_lit', plainL_toPL]

/-! ### the whole tree -/

mutual
theorem pretty_eq_render (ci : SCls → ClsInfo) (hci : ∀ c, ci c = assumedMarkup c) (f : Fmt) (hf : f.subst = some substXml)
    (u : PStr) (hu : ∀ c ∈ u, isSpace c = true) (pwt : Option (List PStr)) :
    ∀ (n : Node) (pn : Option PStr) (k : Nat) (l : Int), noHidden n = true →
      prettyNode u l false (toP ci f pwt pn k n) = renderL ci f pn (prettyTree u pwt l n)
  | .str c s, pn, k, l, _ => by
    simp only [toP, prettyNode, Bool.false_eq_true, if_false]
    exact str_line ci hci f hf pn u hu pwt l c s
  | .tag i ks, pn, k, l, h => by
    simp only [noHidden, Bool.and_eq_true, Bool.not_eq_true'] at h
    obtain ⟨hhid, hkw⟩ := h
    have hne : ∀ e o, formatTag f i e o ≠ [] := by
      intro e o
      obtain ⟨m, hm⟩ := formatTag_shape f i hhid e o
      rw [hm]; simp
    by_cases hv : (ks.isEmpty && i.cbe) = true
    · simp only [toP, prettyTree, hv, if_true, prettyNode, Bool.false_eq_true, if_false]
      rw [fullLine_ne u l _ (hne true true), render_line ci hci f hf pn u hu]
      simp [renderSpec, hv]
    · have hv' : (ks.isEmpty && i.cbe) = false := by simpa using hv
      by_cases hp : isPre pwt i = true
      · simp only [toP, prettyTree, hv', hp, if_true, Bool.false_eq_true, if_false, prettyNode]
        rw [render_line ci hci f hf pn u hu]
        simp only [renderSpec, hv', Bool.false_eq_true, if_false, openLine, closeLine, hne false true, hne false false]
        rw [prettyL_lit]
        simp [List.append_assoc]
      · have hp' : isPre pwt i = false := by simpa using hp
        simp only [toP, prettyTree, hv', hp', Bool.false_eq_true, if_false, prettyNode]
        rw [render_line ci hci f hf pn u hu, fullLine_ne u l _ (hne false true), fullLine_ne u l _ (hne false false),
          prettyL_eq_renderL ci hci f hf u hu pwt ks (some i.name) (k + 1) (l + 1) hkw]
        simp only [renderSpec, List.isEmpty_cons, Bool.false_and, Bool.false_eq_true, if_false, renderL, renderL_append,
          render_ws ci hci f hf (some i.name) _ nl_ws, render_ws ci hci f hf (some i.name) _ (rep_ws u hu l),
          List.append_nil]
        simp [List.append_assoc]
theorem prettyL_eq_renderL (ci : SCls → ClsInfo) (hci : ∀ c, ci c = assumedMarkup c) (f : Fmt) (hf : f.subst = some substXml)
    (u : PStr) (hu : ∀ c ∈ u, isSpace c = true) (pwt : Option (List PStr)) :
    ∀ (ns : List Node) (pn : Option PStr) (k : Nat) (l : Int), noHiddenL ns = true →
      prettyL u l false (toPL ci f pwt pn k ns) = renderL ci f pn (prettyTreeL u pwt l ns)
  | [], _, _, _, _ => rfl
  | n :: ns, pn, k, l, h => by
    simp only [noHiddenL, Bool.and_eq_true] at h
    simp only [toPL, prettyL, prettyTreeL, renderL_append,
      pretty_eq_render ci hci f hf u hu pwt n pn k l h.1,
      prettyL_eq_renderL ci hci f hf u hu pwt ns pn (k + size n) l h.2]
end

mutual
theorem noHidden_of_writable (iv : PStr → Bool) (f : Fmt) : ∀ (n : Node), renderWritable iv f n = true → noHidden n = true
  | .str _ _, _ => rfl
  | .tag i ks, h => by
    simp only [renderWritable, Bool.and_eq_true, Bool.not_eq_true'] at h
    obtain ⟨⟨⟨hhid, _⟩, _⟩, hk⟩ := h
    simp only [noHidden, hhid, Bool.not_false, Bool.true_and]
    by_cases hiv : iv (fullName i) = true
    · simp only [hiv, if_true, Bool.and_eq_true, List.isEmpty_iff] at hk
      rw [hk.2]; rfl
    · simp only [hiv, Bool.false_eq_true, if_false, Bool.and_eq_true] at hk
      exact noHiddenL_of_writable iv f ks hk.2
theorem noHiddenL_of_writable (iv : PStr → Bool) (f : Fmt) : ∀ (ns : List Node), renderWritableL iv f ns = true → noHiddenL ns = true
  | [], _ => rfl
  | n :: ns, h => by
    simp only [renderWritableL, Bool.and_eq_true] at h
    simp only [noHiddenL, noHidden_of_writable iv f n h.1, noHiddenL_of_writable iv f ns h.2, Bool.and_self]
end

/-! ### the pre-order numbering gives distinct identities -/

mutual
theorem ids_range (ci : SCls → ClsInfo) (f : Fmt) (pwt : Option (List PStr)) : ∀ (n : Node) (pn : Option PStr) (k : Nat),
    ∀ x ∈ BS.Pretty.ids (toP ci f pwt pn k n), k ≤ x ∧ x < k + size n
  | .str c s, pn, k => by simp [toP, BS.Pretty.ids]
  | .tag i ks, pn, k => by
    intro x hx
    by_cases hv : (ks.isEmpty && i.cbe) = true
    · simp [toP, hv, BS.Pretty.ids] at hx
    · have hv' : (ks.isEmpty && i.cbe) = false := by simpa using hv
      simp only [toP, hv', Bool.false_eq_true, if_false, BS.Pretty.ids, List.mem_cons] at hx
      simp only [size]
      rcases hx with rfl | hx
      · omega
      · have := idsL_range ci f pwt ks (some i.name) (k + 1) x hx
        omega
theorem idsL_range (ci : SCls → ClsInfo) (f : Fmt) (pwt : Option (List PStr)) : ∀ (ns : List Node) (pn : Option PStr) (k : Nat),
    ∀ x ∈ BS.Pretty.idsL (toPL ci f pwt pn k ns), k ≤ x ∧ x < k + sizeL ns
  | [], _, _ => by simp [toPL, BS.Pretty.idsL]
  | n :: ns, pn, k => by
    intro x hx
    simp only [toPL, BS.Pretty.idsL, List.mem_append] at hx
    simp only [sizeL]
    rcases hx with hx | hx
    · have := ids_range ci f pwt n pn k x hx
      omega
    · have := idsL_range ci f pwt ns pn (k + size n) x hx
      omega
end

mutual
theorem distinct_toP (ci : SCls → ClsInfo) (f : Fmt) (pwt : Option (List PStr)) : ∀ (n : Node) (pn : Option PStr) (k : Nat),
    BS.Pretty.distinct (toP ci f pwt pn k n) = true
  | .str c s, pn, k => by simp [toP, BS.Pretty.distinct]
  | .tag i ks, pn, k => by
    by_cases hv : (ks.isEmpty && i.cbe) = true
    · simp [toP, hv, BS.Pretty.distinct]
    · have hv' : (ks.isEmpty && i.cbe) = false := by simpa using hv
      simp only [toP, hv', Bool.false_eq_true, if_false, BS.Pretty.distinct, Bool.and_eq_true, Bool.not_eq_true',
        distinctL_toPL ci f pwt ks (some i.name) (k + 1), and_true]
      simp only [List.contains_eq_mem, decide_eq_false_iff_not]
      intro hm
      have := idsL_range ci f pwt ks (some i.name) (k + 1) k hm
      omega
theorem distinctL_toPL (ci : SCls → ClsInfo) (f : Fmt) (pwt : Option (List PStr)) : ∀ (ns : List Node) (pn : Option PStr) (k : Nat),
    BS.Pretty.distinctL (toPL ci f pwt pn k ns) = true
  | [], _, _ => rfl
  | n :: ns, pn, k => by
    simp [toPL, BS.Pretty.distinctL, distinct_toP ci f pwt n pn k, distinctL_toPL ci f pwt ns pn (k + size n)]
end

end BS.PrettyReparse
