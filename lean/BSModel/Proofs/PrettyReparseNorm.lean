import BSModel.Proofs.PrettyReparse
import BSModel.Proofs.RenderWrittenNorm
/-! C14 helper lemmas, part 2: the normal form (C04's `normalise`: the tree a parse builds) of the written document of
    `prettyTreeL ds` equals that of `ds` once whitespace in character data is erased (`eraseWsL`). -/
namespace BS.PrettyReparse
open BS.Render BS.Builder BS.Writer BS.Adapter
open BS.Pretty (rep strip isSpace dropWs dropWs_append dropWs_all dropWs_strip)

/-- what the statement needs of the builder configuration: `ASCII_SPACES` are whitespace (`str.isspace`), and no string
    container gives character data the class of a comment / CDATA / PI / declaration / doctype -/
structure CfgWs (cfg : Cfg) : Prop where
  spaces : ∀ c ∈ cfg.asciiSpaces, isSpace c = true
  containers : ∀ n c, cfg.container n = some c → isSpecialCls c = false

theorem eraseWsL_append (cfg : Cfg) : ∀ (a b : List Doc), eraseWsL cfg (a ++ b) = eraseWsL cfg a ++ eraseWsL cfg b
  | [], _ => rfl
  | x :: xs, b => by simp [eraseWsL, eraseWsL_append cfg xs b]

theorem textCls_ok {cfg : Cfg} (hc : CfgWs cfg) (ctx : List Name) : isSpecialCls (textCls cfg ctx) = false := by
  unfold Writer.textCls
  cases ctx.find? (fun n => (cfg.container n).isSome) with
  | none => simp only [Option.bind_none, Option.getD_none]; decide
  | some n =>
    simp only [Option.bind_some]
    cases h : cfg.container n with
    | none => simp only [Option.getD_none]; decide
    | some c => exact hc.containers n c h

theorem dropWs_wsRule {cfg : Cfg} (hc : CfgWs cfg) (ctx : List Name) (s : PStr) : dropWs (wsRule cfg ctx s) = dropWs s := by
  unfold Writer.wsRule
  split
  · rename_i h
    simp only [Bool.and_eq_true, List.all_eq_true] at h
    have hs : dropWs s = [] := dropWs_all (fun c hcs => hc.spaces c (by simpa using h.2 c hcs))
    rw [hs]
    split <;> decide
  · rfl

/-- the non-whitespace characters of a pending run -/
def pd (p : Option PStr) : PStr := dropWs (p.getD [])

/-- a finished run after erasing -/
def flushE (cfg : Cfg) (ctx : List Name) (e : PStr) : List Doc := if e = [] then [] else [Doc.text (textCls cfg ctx) e]

theorem erase_flush {cfg : Cfg} (hc : CfgWs cfg) (ctx : List Name) (p : Option PStr) :
    eraseWsL cfg (flushP cfg ctx p) = flushE cfg ctx (pd p) := by
  cases p with
  | none => simp [flushP, eraseWsL, flushE, pd, dropWs]
  | some s =>
    simp only [flushP, eraseWsL, eraseWs, textCls_ok hc ctx, Bool.false_eq_true, if_false, dropWs_wsRule hc, List.append_nil,
      flushE, pd, Option.getD_some]
    split <;> simp_all

/-- two written forests build the same tree modulo whitespace in character data, whatever equivalent runs are pending -/
def Sim (cfg : Cfg) (ctx : List Name) (A B : List WDoc) : Prop :=
  ∀ p p', pd p = pd p' →
    eraseWsL cfg (normL cfg ctx p A).1 = eraseWsL cfg (normL cfg ctx p' B).1 ∧ pd (normL cfg ctx p A).2 = pd (normL cfg ctx p' B).2

theorem Sim.nil (cfg : Cfg) (ctx : List Name) : Sim cfg ctx [] [] := by
  intro p p' h
  simp [normL, h]

theorem Sim.append {cfg : Cfg} {ctx : List Name} {A B A' B' : List WDoc} (h1 : Sim cfg ctx A B) (h2 : Sim cfg ctx A' B') :
    Sim cfg ctx (A ++ A') (B ++ B') := by
  intro p p' h
  rw [normL_append, normL_append]
  obtain ⟨e1, q1⟩ := h1 p p' h
  obtain ⟨e2, q2⟩ := h2 _ _ q1
  simp only [eraseWsL_append, e1, e2, q2, and_self]

theorem norm_text (cfg : Cfg) (ctx : List Name) (p : Option PStr) (a : PStr) :
    (normL cfg ctx p [.text a]).1 = [] ∧ pd (normL cfg ctx p [.text a]).2 = pd p ++ dropWs a := by
  simp only [normL, norm1, List.append_nil, true_and]
  cases a with
  | nil => simp [pd, dropWs]
  | cons x xs => simp [pd, dropWs_append]

theorem sim_text (cfg : Cfg) (ctx : List Name) (a b : PStr) (h : dropWs a = dropWs b) : Sim cfg ctx [.text a] [.text b] := by
  intro p p' hp
  obtain ⟨e1, q1⟩ := norm_text cfg ctx p a
  obtain ⟨e2, q2⟩ := norm_text cfg ctx p' b
  rw [e1, e2, q1, q2, hp, h]
  simp

theorem sim_ws_r (cfg : Cfg) (ctx : List Name) (x : PStr) (h : dropWs x = []) : Sim cfg ctx [] [.text x] := by
  intro p p' hp
  obtain ⟨e2, q2⟩ := norm_text cfg ctx p' x
  rw [e2, q2, h]
  simp [normL, hp]

theorem sim_ws_l (cfg : Cfg) (ctx : List Name) (x : PStr) (h : dropWs x = []) : Sim cfg ctx [.text x] [] := by
  intro p p' hp
  obtain ⟨e2, q2⟩ := norm_text cfg ctx p x
  rw [e2, q2, h]
  simp [normL, hp]

theorem sim_special {cfg : Cfg} (hc : CfgWs cfg) (ctx : List Name) (k : Kind) (s : PStr) :
    Sim cfg ctx [.special k s] [.special k s] := by
  intro p p' hp
  simp only [normL, norm1, List.append_nil, eraseWsL_append, erase_flush hc, hp, and_self]

theorem sim_elem_same {cfg : Cfg} (hc : CfgWs cfg) (ctx : List Name) (n : Name) (a : List (PStr × Option PStr)) (ks : List WDoc) :
    Sim cfg ctx [.elem n a ks] [.elem n a ks] := by
  intro p p' hp
  simp only [normL, norm1, List.append_nil, eraseWsL_append, erase_flush hc, hp, and_self]

theorem sim_elem_in {cfg : Cfg} (hc : CfgWs cfg) (ctx : List Name) (n : Name) (a : List (PStr × Option PStr))
    (ks ks' : List WDoc) (hn : cfg.preserve n = false) (h : Sim cfg (n :: ctx) ks ks') :
    Sim cfg ctx [.elem n a ks] [.elem n a ks'] := by
  intro p p' hp
  obtain ⟨e, q⟩ := h none none rfl
  simp only [normL, norm1, List.append_nil, eraseWsL_append, erase_flush hc, hp, eraseWsL, eraseWs, hn, Bool.false_eq_true,
    if_false, e, q, and_self]

theorem Sim.line {cfg : Cfg} {ctx : List Name} {A B : List WDoc} (h : Sim cfg ctx A B) (x y : PStr)
    (hx : dropWs x = []) (hy : dropWs y = []) : Sim cfg ctx A ([.text x] ++ B ++ [.text y]) := by
  have := ((sim_ws_r cfg ctx x hx).append h).append (sim_ws_r cfg ctx y hy)
  simpa using this

/-! ### the written document of the pretty tree -/

theorem toWDocL_append (f : Fmt) : ∀ (a b : List Node), toWDocL f (a ++ b) = toWDocL f a ++ toWDocL f b
  | [], _ => rfl
  | x :: xs, b => by simp [toWDocL, toWDocL_append f xs b]

theorem toWDocL_line (f : Fmt) (u : PStr) (l : Int) (n : Node) :
    toWDocL f (line u l n) = [.text (rep u l)] ++ toWDoc f n ++ [.text [10]] := by
  simp [line, ws, toWDocL, toWDoc, toWDocStr]

theorem dropWs_rep' (u : PStr) (hu : ∀ c ∈ u, isSpace c = true) (l : Int) : dropWs (rep u l) = [] :=
  dropWs_all (rep_ws u hu l)

theorem dropWs_nl' : dropWs [10] = [] := by decide

theorem sim_str {cfg : Cfg} (hc : CfgWs cfg) (f : Fmt) (u : PStr) (hu : ∀ c ∈ u, isSpace c = true) (pwt : Option (List PStr))
    (ctx : List Name) (l : Int) (c : SCls) (s : PStr) :
    Sim cfg ctx (toWDoc f (.str c s)) (toWDocL f (prettyTree u pwt l (.str c s))) := by
  have hr := dropWs_rep' u hu l
  have htext : ∀ c' : SCls, toWDocStr c' s = [.text s] → toWDocStr c' (strip s) = [.text (strip s)] →
      (prettyTree u pwt l (.str c' s) = if strip s = [] then [] else line u l (.str c' (strip s))) →
      Sim cfg ctx (toWDoc f (.str c' s)) (toWDocL f (prettyTree u pwt l (.str c' s))) := by
    intro c' h1 h2 hp
    rw [hp]
    simp only [toWDoc, h1]
    by_cases hs : strip s = []
    · rw [if_pos hs]
      have : dropWs s = [] := by rw [← dropWs_strip, hs]; rfl
      simpa [toWDocL] using sim_ws_l cfg ctx s this
    · rw [if_neg hs, toWDocL_line]
      simp only [toWDoc, h2]
      exact (sim_text cfg ctx s (strip s) (dropWs_strip s).symm).line _ _ hr dropWs_nl'
  cases c with
  | doctype =>
    have : toWDocL f (prettyTree u pwt l (.str .doctype s)) = [.text (rep u l)] ++ toWDoc f (.str .doctype s) := by
      simp [prettyTree, ws, toWDocL, toWDoc, toWDocStr]
    rw [this]
    have h := (sim_ws_r cfg ctx (rep u l) hr).append
      ((sim_special hc ctx .doctype s).append (sim_text cfg ctx [10] [10] rfl))
    simpa [toWDoc, toWDocStr] using h
  | comment =>
    simp only [prettyTree, toWDocL_line, toWDoc, toWDocStr]
    exact (sim_special hc ctx _ _).line _ _ hr dropWs_nl'
  | cdata =>
    simp only [prettyTree, toWDocL_line, toWDoc, toWDocStr]
    exact (sim_special hc ctx _ _).line _ _ hr dropWs_nl'
  | pi =>
    simp only [prettyTree, toWDocL_line, toWDoc, toWDocStr]
    exact (sim_special hc ctx _ _).line _ _ hr dropWs_nl'
  | xmlpi =>
    simp only [prettyTree, toWDocL_line, toWDoc, toWDocStr]
    exact (sim_special hc ctx _ _).line _ _ hr dropWs_nl'
  | declaration =>
    simp only [prettyTree, toWDocL_line, toWDoc, toWDocStr]
    exact (sim_special hc ctx _ _).line _ _ hr dropWs_nl'
  | preformatted => exact htext _ rfl rfl (by simp [prettyTree])
  | navigable => exact htext _ rfl rfl (by simp [prettyTree])
  | stylesheet => exact htext _ rfl rfl (by simp [prettyTree])
  | script => exact htext _ rfl rfl (by simp [prettyTree])
  | template => exact htext _ rfl rfl (by simp [prettyTree])
  | rubyText => exact htext _ rfl rfl (by simp [prettyTree])
  | rubyParen => exact htext _ rfl rfl (by simp [prettyTree])

mutual
theorem sim_tree {cfg : Cfg} (hc : CfgWs cfg) (f : Fmt) (u : PStr) (hu : ∀ c ∈ u, isSpace c = true) (pwt : Option (List PStr)) :
    ∀ (n : Node) (ctx : List Name) (l : Int), preAgree cfg pwt n = true →
      Sim cfg ctx (toWDoc f n) (toWDocL f (prettyTree u pwt l n))
  | .str c s, ctx, l, _ => sim_str hc f u hu pwt ctx l c s
  | .tag i ks, ctx, l, h => by
    have hr := dropWs_rep' u hu l
    by_cases hv : (ks.isEmpty && i.cbe) = true
    · simp only [prettyTree, hv, if_true, toWDocL_line]
      simp only [toWDoc]
      exact (sim_elem_same hc ctx _ _ _).line _ _ hr dropWs_nl'
    · have hv' : (ks.isEmpty && i.cbe) = false := by simpa using hv
      by_cases hp : isPre pwt i = true
      · simp only [prettyTree, hv', hp, if_true, Bool.false_eq_true, if_false, toWDocL_line]
        simp only [toWDoc]
        exact (sim_elem_same hc ctx _ _ _).line _ _ hr dropWs_nl'
      · have hp' : isPre pwt i = false := by simpa using hp
        simp only [preAgree, hv', hp', Bool.false_or, Bool.and_eq_true, Bool.not_eq_true'] at h
        simp only [prettyTree, hv', hp', Bool.false_eq_true, if_false, toWDocL_line]
        simp only [toWDoc]
        refine (sim_elem_in hc ctx _ _ _ _ h.1 ?_).line _ _ hr dropWs_nl'
        have hk := sim_treeL hc f u hu pwt ks (fullName i :: ctx) (l + 1) h.2
        have := ((sim_ws_r cfg (fullName i :: ctx) [10] dropWs_nl').append hk).append (sim_ws_r cfg (fullName i :: ctx) (rep u l) hr)
        simpa [toWDocL, toWDocL_append, toWDoc, toWDocStr, ws] using this
theorem sim_treeL {cfg : Cfg} (hc : CfgWs cfg) (f : Fmt) (u : PStr) (hu : ∀ c ∈ u, isSpace c = true) (pwt : Option (List PStr)) :
    ∀ (ns : List Node) (ctx : List Name) (l : Int), preAgreeL cfg pwt ns = true →
      Sim cfg ctx (toWDocL f ns) (toWDocL f (prettyTreeL u pwt l ns))
  | [], ctx, _, _ => Sim.nil cfg ctx
  | n :: ns, ctx, l, h => by
    simp only [preAgreeL, Bool.and_eq_true] at h
    simp only [toWDocL, prettyTreeL, toWDocL_append]
    exact (sim_tree hc f u hu pwt n ctx l h.1).append (sim_treeL hc f u hu pwt ns ctx l h.2)
end

/-- **the parse of the pretty tree's written document = the parse of the tree's, modulo whitespace in character data** -/
theorem erase_normalise_pretty {cfg : Cfg} (hc : CfgWs cfg) (f : Fmt) (u : PStr) (hu : ∀ c ∈ u, isSpace c = true)
    (pwt : Option (List PStr)) (l : Int) (ds : List Node) (h : preAgreeL cfg pwt ds = true) :
    eraseWsL cfg (normalise cfg (toWDocL f (prettyTreeL u pwt l ds))) = eraseWsL cfg (normalise cfg (toWDocL f ds)) := by
  obtain ⟨e, q⟩ := sim_treeL hc f u hu pwt ds [cfg.rootName] l h none none rfl
  simp only [normalise, eraseWsL_append, erase_flush hc, e, q]

end BS.PrettyReparse
