import BSModel.Proofs.PrettyReparseNorm
/-! C14 helper lemmas, part 3: `RenderWritable` is inherited by the pretty tree. `Writable` under `minimalChoices` is
    restated path-independently (`mwritableL`): text is always writable under the minimal spelling, the rest does not
    look at the choices. -/
namespace BS.PrettyReparse
open BS.Render BS.Builder BS.Writer BS.Adapter BS.WriterText BS.WriterMin
open BS.Pretty (rep strip isSpace)

/-! ### `Writable` under the minimal choices, without paths -/

mutual
def mwritable (iv : Name → Bool) : WDoc → Bool
  | .elem n a ks =>
    nameOK n && !BS.Tokenizer.cdataContentElements.contains n && a.all (fun kv => nameOK kv.1) && (iv n || mwritableL iv ks)
  | .text _ => true
  | .special k s => specialWritable k s
def mwritableL (iv : Name → Bool) : List WDoc → Bool
  | [] => true
  | d :: ds => mwritable iv d && mwritableL iv ds
end

theorem charsWritable_min (sp : Nat → CharSp) : ∀ (s : PStr) (i : Nat),
    (∀ j ch, s[j]? = some ch → sp (i + j) = spell ch) → charsWritable sp i s = true
  | [], _, _ => rfl
  | ch :: rest, i, h => by
    have h0 : sp i = spell ch := by simpa using h 0 ch (by simp)
    have hr : ∀ j c2, rest[j]? = some c2 → sp (i + 1 + j) = spell c2 := by
      intro j c2 hj
      have := h (j + 1) c2 (by simpa using hj)
      rw [← this]; congr 1; omega
    simp only [charsWritable, h0, charsWritable_min sp rest (i + 1) hr, Bool.and_true]
    by_cases h38 : ch = 38
    · subst h38; decide
    · by_cases h60 : ch = 60
      · subst h60; decide
      · by_cases h62 : ch = 62
        · subst h62; decide
        · have e1 : spell ch = .lit false := by simp [spell, h38, h60, h62]
          simp [e1, charWritable, h38, h60]

mutual
theorem writable_agree (iv : Name → Bool) (c : Choices) : ∀ (d : WDoc) (p : Path), Agree c p d →
    writable iv c p d = mwritable iv d
  | .text s, p, h => by
    simp only [writable, mwritable]
    exact charsWritable_min (c.char p) s 0 (by intro j ch hj; simpa using h j ch hj)
  | .special _ _, _, _ => rfl
  | .elem _ _ ks, p, h => by simp only [writable, mwritable, writableL_agree iv c ks p 0 h.2]
theorem writableL_agree (iv : Name → Bool) (c : Choices) : ∀ (ds : List WDoc) (p : Path) (i : Nat), AgreeL c p i ds →
    writableL iv c p i ds = mwritableL iv ds
  | [], _, _, _ => rfl
  | d :: ds, p, i, h => by
    simp only [writableL, mwritableL, writable_agree iv c d (i :: p) h.1, writableL_agree iv c ds p (i + 1) h.2]
end

/-- **`Writable` under `minimalChoices` is a property of the document alone** -/
theorem writable_minimal_iff (iv : Name → Bool) (W : List WDoc) :
    Writable iv (minimalChoices W) W ↔ mwritableL iv W = true := by
  unfold Writable
  rw [writableL_agree iv (minimalChoices W) W [] 0 (agreeL_min W W [] 0 (located_root W))]

theorem mwritableL_append (iv : Name → Bool) : ∀ (a b : List WDoc),
    mwritableL iv (a ++ b) = (mwritableL iv a && mwritableL iv b)
  | [], _ => by simp [mwritableL]
  | x :: xs, b => by simp [mwritableL, mwritableL_append iv xs b, Bool.and_assoc]

theorem representableL_append (rn : Name) (iv : Name → Bool) : ∀ (a b : List WDoc),
    Writer.representableL rn iv (a ++ b) = (Writer.representableL rn iv a && Writer.representableL rn iv b)
  | [], _ => by simp [Writer.representableL]
  | x :: xs, b => by simp [Writer.representableL, representableL_append rn iv xs b, Bool.and_assoc]

theorem renderWritableL_append (iv : PStr → Bool) (f : Fmt) : ∀ (a b : List Node),
    renderWritableL iv f (a ++ b) = (renderWritableL iv f a && renderWritableL iv f b)
  | [], _ => by simp [renderWritableL]
  | x :: xs, b => by simp [renderWritableL, renderWritableL_append iv f xs b, Bool.and_assoc]

/-! ### the three parts of `RenderWritable`, for the pretty tree -/

theorem rw_line (iv : PStr → Bool) (f : Fmt) (u : PStr) (l : Int) (n : Node) :
    renderWritableL iv f (line u l n) = renderWritable iv f n := by
  have : (SCls.navigable != SCls.preformatted) = true := by decide
  simp [line, ws, renderWritableL, renderWritable, this]

theorem mw_line (iv : Name → Bool) (f : Fmt) (u : PStr) (l : Int) (n : Node) :
    mwritableL iv (toWDocL f (line u l n)) = mwritableL iv (toWDoc f n) := by
  rw [toWDocL_line]
  simp [mwritableL_append, mwritableL, mwritable]

theorem rp_line (rn : Name) (iv : Name → Bool) (f : Fmt) (u : PStr) (l : Int) (n : Node) :
    Writer.representableL rn iv (toWDocL f (line u l n)) = Writer.representableL rn iv (toWDoc f n) := by
  rw [toWDocL_line]
  simp [representableL_append, Writer.representableL, Writer.representable]

/-- what the three predicates say of one string node does not depend on its text being stripped -/
theorem str_parts (iv : PStr → Bool) (rn : Name) (f : Fmt) (u : PStr) (pwt : Option (List PStr)) (l : Int) (c : SCls) (s : PStr)
    (h1 : renderWritable iv f (.str c s) = true) (h2 : mwritableL iv (toWDoc f (.str c s)) = true) :
    renderWritableL iv f (prettyTree u pwt l (.str c s)) = true ∧
    mwritableL iv (toWDocL f (prettyTree u pwt l (.str c s))) = true ∧
    Writer.representableL rn iv (toWDocL f (prettyTree u pwt l (.str c s))) = true := by
  cases c <;>
    first
    | (simp only [prettyTree]
       split <;>
         simp_all [rw_line, mw_line, rp_line, renderWritableL, renderWritable, toWDocL, toWDoc, toWDocStr, mwritableL, mwritable,
           Writer.representableL, Writer.representable])
    | simp_all [prettyTree, rw_line, mw_line, rp_line, renderWritableL, renderWritable, toWDocL, toWDoc, toWDocStr, mwritableL,
        mwritable, Writer.representableL, Writer.representable, ws]

theorem toWDocL_kids (f : Fmt) (x y : PStr) (ks : List Node) :
    toWDocL f (ws x :: (ks ++ [ws y])) = [.text x] ++ toWDocL f ks ++ [.text y] := by
  simp [toWDocL, toWDocL_append, toWDoc, toWDocStr, ws]

mutual
theorem parts_tree (iv : PStr → Bool) (rn : Name) (f : Fmt) (u : PStr) (pwt : Option (List PStr)) :
    ∀ (n : Node) (l : Int), renderWritable iv f n = true → mwritableL iv (toWDoc f n) = true →
      Writer.representableL rn iv (toWDoc f n) = true →
      renderWritableL iv f (prettyTree u pwt l n) = true ∧
      mwritableL iv (toWDocL f (prettyTree u pwt l n)) = true ∧
      Writer.representableL rn iv (toWDocL f (prettyTree u pwt l n)) = true
  | .str c s, l, h1, h2, _ => str_parts iv rn f u pwt l c s h1 h2
  | .tag i ks, l, h1, h2, h3 => by
    by_cases hv : (ks.isEmpty && i.cbe) = true
    · simp only [prettyTree, hv, if_true, rw_line, mw_line, rp_line]
      exact ⟨h1, h2, h3⟩
    · have hv' : (ks.isEmpty && i.cbe) = false := by simpa using hv
      by_cases hp : isPre pwt i = true
      · simp only [prettyTree, hv', hp, if_true, Bool.false_eq_true, if_false, rw_line, mw_line, rp_line]
        exact ⟨h1, h2, h3⟩
      · have hp' : isPre pwt i = false := by simpa using hp
        simp only [prettyTree, hv', hp', Bool.false_eq_true, if_false, rw_line, mw_line, rp_line]
        simp only [renderWritable, Bool.and_eq_true, Bool.not_eq_true'] at h1
        obtain ⟨⟨⟨hhid, hcd⟩, hattr⟩, hk⟩ := h1
        have hiv : iv (fullName i) = false := by
          cases hiv : iv (fullName i) with
          | false => rfl
          | true =>
            simp only [hiv, if_true, Bool.and_eq_true] at hk
            rw [hk.1, hk.2] at hv'
            exact absurd hv' (by simp)
        simp only [hiv, Bool.false_eq_true, if_false, Bool.and_eq_true] at hk
        simp only [toWDoc, mwritableL, mwritable, hiv, Bool.false_or, Bool.and_true, Bool.and_eq_true] at h2
        simp only [toWDoc, Writer.representableL, Writer.representable, hiv, Bool.not_false, Bool.true_or, Bool.and_true,
          Bool.and_eq_true] at h3
        obtain ⟨k1, k2, k3⟩ := parts_treeL iv rn f u pwt ks (l + 1) hk.2 h2.2 h3.2
        have hnav : (SCls.navigable != SCls.preformatted) = true := by decide
        refine ⟨?_, ?_, ?_⟩
        · simp only [renderWritable, hhid, hcd, hattr, hiv, renderWritableL, renderWritableL_append, k1, ws, hnav,
            List.isEmpty_cons, Bool.false_and, Bool.not_false, Bool.and_true, Bool.true_and, Bool.false_eq_true, if_false,
            Bool.and_self]
        · simp only [toWDoc, toWDocL_kids, mwritableL, mwritable, hiv, Bool.false_or, Bool.and_true, mwritableL_append, k2,
            Bool.true_and, Bool.and_eq_true]
          exact h2.1
        · simp only [toWDoc, toWDocL_kids, Writer.representableL, Writer.representable, hiv, Bool.not_false, Bool.true_or,
            Bool.and_true, representableL_append, k3, Bool.true_and, Bool.and_eq_true]
          exact h3.1
theorem parts_treeL (iv : PStr → Bool) (rn : Name) (f : Fmt) (u : PStr) (pwt : Option (List PStr)) :
    ∀ (ns : List Node) (l : Int), renderWritableL iv f ns = true → mwritableL iv (toWDocL f ns) = true →
      Writer.representableL rn iv (toWDocL f ns) = true →
      renderWritableL iv f (prettyTreeL u pwt l ns) = true ∧
      mwritableL iv (toWDocL f (prettyTreeL u pwt l ns)) = true ∧
      Writer.representableL rn iv (toWDocL f (prettyTreeL u pwt l ns)) = true
  | [], _, _, _, _ => ⟨rfl, rfl, rfl⟩
  | n :: ns, l, h1, h2, h3 => by
    simp only [renderWritableL, Bool.and_eq_true] at h1
    simp only [toWDocL, mwritableL_append, Bool.and_eq_true] at h2
    simp only [toWDocL, representableL_append, Bool.and_eq_true] at h3
    obtain ⟨a1, a2, a3⟩ := parts_tree iv rn f u pwt n l h1.1 h2.1 h3.1
    obtain ⟨b1, b2, b3⟩ := parts_treeL iv rn f u pwt ns l h1.2 h2.2 h3.2
    simp only [prettyTreeL, renderWritableL_append, toWDocL_append, mwritableL_append, representableL_append, a1, a2, a3, b1, b2,
      b3, Bool.and_self, and_self]
end

end BS.PrettyReparse
