import BSModel.Proofs.PrettyRaw
/-! C14: `_event_stream`'s tag stack over the pre-order yields the balanced event list of the tree -/
namespace BS.Pretty

theorem popTo_top (p : Nat) (c : PStr) (st : List (Nat × PStr)) : popTo p ((p, c) :: st) = ([], (p, c) :: st) := by
  simp [popTo]

theorem popTo_nil (p : Nat) : popTo p [] = ([], []) := rfl

/-- a frame that is not the parent of anything still to come is closed before the next element is looked at -/
theorem stream_close (i : Nat) (c : PStr) (st : List (Nat × PStr)) : ∀ (rest : List FItem),
    (∀ it ∈ rest, it.parent ≠ i) → streamImpl ((i, c) :: st) rest = Ev.stop i c :: streamImpl st rest
  | [], _ => by simp [streamImpl]
  | it :: rest, h => by
    have hi : ¬ i = it.parent := fun e => h it (by simp) e.symm
    cases it <;> simp [streamImpl, popTo, hi]

mutual
theorem mem_flat : ∀ (t : Node) (p : Nat) (it : FItem), it ∈ flat p t → it.parent = p ∨ it.parent ∈ ids t
  | .str s, p, it, h => by simp [flat] at h; simp [h, FItem.parent]
  | .void t, p, it, h => by simp [flat] at h; simp [h, FItem.parent]
  | .elem i o c pre ks, p, it, h => by
    simp only [flat, List.mem_cons] at h
    rcases h with h | h
    · simp [h, FItem.parent]
    · rcases mem_flatL ks i it h with h | h
      · simp [ids, h]
      · simp [ids, h]
theorem mem_flatL : ∀ (ks : List Node) (p : Nat) (it : FItem), it ∈ flatL p ks → it.parent = p ∨ it.parent ∈ idsL ks
  | [], p, it, h => by simp [flatL] at h
  | k :: ks, p, it, h => by
    simp only [flatL, List.mem_append] at h
    rcases h with h | h
    · rcases mem_flat k p it h with h | h
      · exact Or.inl h
      · simp [idsL, h]
    · rcases mem_flatL ks p it h with h | h
      · exact Or.inl h
      · simp [idsL, h]
end

/-- the stack is empty or has the parent on top -/
def TopIs (p : Nat) (st : List (Nat × PStr)) : Prop := st = [] ∨ ∃ c st', st = (p, c) :: st'

theorem popTo_topIs {p : Nat} {st : List (Nat × PStr)} (h : TopIs p st) : popTo p st = ([], st) := by
  rcases h with rfl | ⟨c, st', rfl⟩
  · rfl
  · exact popTo_top p c st'

mutual
theorem stream_node : ∀ (t : Node) (p : Nat) (st : List (Nat × PStr)) (rest : List FItem), TopIs p st →
    (∀ it ∈ rest, it.parent ∉ ids t) → (ids t).Nodup →
    streamImpl st (flat p t ++ rest) = events t ++ streamImpl st rest
  | .str s, p, st, rest, ht, _, _ => by simp [flat, events, streamImpl, FItem.parent, popTo_topIs ht]
  | .void t, p, st, rest, ht, _, _ => by simp [flat, events, streamImpl, FItem.parent, popTo_topIs ht]
  | .elem i o c pre ks, p, st, rest, ht, hr, hn => by
    simp only [ids, List.nodup_cons] at hn
    have hrest : ∀ it ∈ rest, it.parent ∉ idsL ks := fun it h e => hr it h (by simp [ids, e])
    have hresti : ∀ it ∈ rest, it.parent ≠ i := fun it h e => hr it h (by simp [ids, e])
    simp only [flat, events, List.cons_append, streamImpl, FItem.parent, popTo_topIs ht, List.nil_append, Bool.false_eq_true,
      if_false, List.append_assoc]
    rw [stream_forest ks i ((i, c) :: st) rest (Or.inr ⟨c, st, rfl⟩) hrest hn.2 hn.1, stream_close i c st rest hresti]
theorem stream_forest : ∀ (ks : List Node) (p : Nat) (st : List (Nat × PStr)) (rest : List FItem), TopIs p st →
    (∀ it ∈ rest, it.parent ∉ idsL ks) → (idsL ks).Nodup → p ∉ idsL ks →
    streamImpl st (flatL p ks ++ rest) = eventsL ks ++ streamImpl st rest
  | [], p, st, rest, _, _, _, _ => by simp [flatL, eventsL]
  | k :: ks, p, st, rest, ht, hr, hn, hp => by
    simp only [idsL, List.nodup_append] at hn
    have hpk : p ∉ ids k := fun e => hp (by simp [idsL, e])
    have hpks : p ∉ idsL ks := fun e => hp (by simp [idsL, e])
    have h1 : ∀ it ∈ flatL p ks ++ rest, it.parent ∉ ids k := by
      intro it h e
      rcases List.mem_append.mp h with h | h
      · rcases mem_flatL ks p it h with h | h
        · exact hpk (h ▸ e)
        · exact hn.2.2 _ e _ h rfl
      · exact hr it h (by simp [idsL, e])
    have h2 : ∀ it ∈ rest, it.parent ∉ idsL ks := fun it h e => hr it h (by simp [idsL, e])
    simp only [flatL, eventsL, List.append_assoc]
    rw [stream_node k p st _ ht h1 hn.1, stream_forest ks p st rest ht h2 hn.2.1 hpks]
end

theorem nodup_distinct : ∀ (t : Node), (ids t).Nodup → distinct t = true := by
  intro t
  -- `distinct` only asks for "not among the own descendants"
  have : ∀ (n : Nat) (t : Node), sizeOf t ≤ n → (ids t).Nodup → distinct t = true := by
    intro n
    induction n with
    | zero => intro t h; cases t <;> simp at h
    | succ n ih =>
      intro t hs hn
      cases t with
      | str s => simp [distinct]
      | void t => simp [distinct]
      | elem i o c pre ks =>
        simp only [ids, List.nodup_cons] at hn
        simp only [distinct, Bool.and_eq_true, Bool.not_eq_true', List.contains_eq_mem, decide_eq_false_iff_not]
        refine ⟨hn.1, ?_⟩
        have hks : ∀ (ks' : List Node), sizeOf ks' ≤ n → (idsL ks').Nodup → distinctL ks' = true := by
          intro ks'
          induction ks' with
          | nil => intro _ _; simp [distinctL]
          | cons k ks' ihk =>
            intro hsz hnd
            simp only [idsL, List.nodup_append] at hnd
            simp only [List.cons.sizeOf_spec] at hsz
            simp only [distinctL, Bool.and_eq_true]
            exact ⟨ih k (by omega) hnd.1, ihk (by omega) hnd.2.1⟩
        simp only [Node.elem.sizeOf_spec] at hs
        exact hks ks (by omega) hn.2
  exact this (sizeOf t) t (Nat.le_refl _)

end BS.Pretty
