import BSModel.Proofs.PrettyRaw
/-! C14: the pretty and the plain output as token sequences (markup tokens and character data), equal once character data is
    merged and its whitespace disregarded.

    The tokenizer (`html.parser`) is not modelled. `plainToks`/`prettyToks` cut the two outputs where a tokenizer cuts
    well-formed output: every tag piece and every string piece with a PREFIX (comment, CDATA, processing instruction,
    declaration, doctype — minus the whitespace after its closing delimiter) is one markup token, everything else is
    character data. `toks_text` proves that the cuts are cuts of the real outputs; `same_tokens` that the two token sequences
    agree modulo whitespace in character data. -/
namespace BS.Pretty

theorem textOf_append (a b : List Tok) : textOf (a ++ b) = textOf a ++ textOf b := by simp [textOf]

/-! ### the tokens are cuts of the real outputs -/

theorem textOf_tagTok (p : PStr) : textOf (tagTok p) = p := by by_cases h : p = [] <;> simp [tagTok, textOf, h, Tok.text]
theorem textOf_lineToks (u : PStr) (l : Int) (p : PStr) : textOf (lineToks u l p) = fullLine u l p := by
  by_cases h : p = [] <;> simp [lineToks, textOf, fullLine, h, Tok.text]
theorem textOf_openToks (u : PStr) (l : Int) (p : PStr) : textOf (openToks u l p) = openLine u l p := by
  by_cases h : p = [] <;> simp [openToks, textOf, openLine, h, Tok.text]
theorem textOf_closeToks (p : PStr) : textOf (closeToks p) = closeLine p := by
  by_cases h : p = [] <;> simp [closeToks, textOf, closeLine, h, Tok.text]
theorem textOf_strToks (p s b : PStr) : textOf (strToks p s b) = outputReady p s b := by
  by_cases h : p = [] <;> simp [strToks, textOf, h, Tok.text, rstrip_append_rtail]

mutual
theorem plainToks_text (c : RCfg) : ∀ (r : RNode), textOf (plainToks c r) = plain (resolve c r)
  | .str p s b => by simp [plainToks, resolve, plain, textOf_strToks]
  | .tag i ks => by
    simp only [plainToks, resolve, mkTag, resolveL_isEmpty]
    by_cases he : (ks.isEmpty && i.canBeEmpty) = true
    · simp [he, plain, textOf_tagTok]
    · simp [he, plain, textOf_append, textOf_tagTok, plainToksL_text c ks]
theorem plainToksL_text (c : RCfg) : ∀ (ks : List RNode), textOf (plainToksL c ks) = plainL (resolveL c ks)
  | [] => by simp [plainToksL, resolveL, plainL, textOf]
  | k :: ks => by simp [plainToksL, resolveL, plainL, textOf_append, plainToks_text c k, plainToksL_text c ks]
end

mutual
theorem prettyToks_text (c : RCfg) (u : PStr) : ∀ (r : RNode) (l : Int) (lit : Bool),
    textOf (prettyToks c u l lit r) = prettyNode u l lit (resolve c r)
  | .str p s b, l, lit => by
    cases lit
    · by_cases hp : p = []
      · subst hp
        by_cases h : strip (outputReady [] s b) = [] <;>
          simp [prettyToks, resolve, prettyNode, h, fullLine, textOf, Tok.text]
      · by_cases h : strip (outputReady p s b) = [] <;>
          simp [prettyToks, resolve, prettyNode, h, hp, fullLine, textOf, Tok.text]
    · simp [prettyToks, resolve, prettyNode, textOf_strToks]
  | .tag i ks, l, lit => by
    simp only [prettyToks, resolve, mkTag, resolveL_isEmpty]
    by_cases he : (ks.isEmpty && i.canBeEmpty) = true
    · cases lit <;> simp [he, prettyNode, textOf_tagTok, textOf_lineToks]
    · cases lit
      · by_cases hp : (!shouldPrettyPrint i.preserveWs i.name) = true
        · simp [he, hp, prettyNode, textOf_append, textOf_openToks, textOf_closeToks, prettyToksL_text c u ks]
        · simp [he, hp, prettyNode, textOf_append, textOf_lineToks, prettyToksL_text c u ks]
      · simp [he, prettyNode, textOf_append, textOf_tagTok, prettyToksL_text c u ks]
theorem prettyToksL_text (c : RCfg) (u : PStr) : ∀ (ks : List RNode) (l : Int) (lit : Bool),
    textOf (prettyToksL c u l lit ks) = prettyL u l lit (resolveL c ks)
  | [], l, lit => by simp [prettyToksL, resolveL, prettyL, textOf]
  | k :: ks, l, lit => by
    simp [prettyToksL, resolveL, prettyL, textOf_append, prettyToks_text c u k l lit, prettyToksL_text c u ks l lit]
end

/-! ### equal modulo whitespace in character data -/

/-- two continuations that canonicalise alike whatever character data is pending -/
def Eqv (a b : List Tok) : Prop := ∀ acc, canonAux acc a = canonAux acc b

theorem Eqv.refl (a : List Tok) : Eqv a a := fun _ => rfl
theorem Eqv.symm {a b : List Tok} (h : Eqv a b) : Eqv b a := fun acc => (h acc).symm
theorem Eqv.trans {a b c : List Tok} (h1 : Eqv a b) (h2 : Eqv b c) : Eqv a c := fun acc => (h1 acc).trans (h2 acc)

theorem Eqv.markup (p : PStr) {a b : List Tok} (h : Eqv a b) : Eqv (.markup p :: a) (.markup p :: b) := by
  intro acc; simp [canonAux, h []]

theorem Eqv.data {s s' : PStr} (hs : dropWs s = dropWs s') {a b : List Tok} (h : Eqv a b) :
    Eqv (.data s :: a) (.data s' :: b) := by
  intro acc; simp [canonAux, hs, h _]

theorem Eqv.dropL {s : PStr} (hs : dropWs s = []) {a b : List Tok} (h : Eqv a b) : Eqv (.data s :: a) b := by
  intro acc; simp [canonAux, hs, h _]

theorem Eqv.dropR {s : PStr} (hs : dropWs s = []) {a b : List Tok} (h : Eqv a b) : Eqv a (.data s :: b) :=
  (Eqv.dropL hs h.symm).symm

theorem Eqv.append_left : ∀ (x : List Tok) {a b : List Tok}, Eqv a b → Eqv (x ++ a) (x ++ b)
  | [], _, _, h => h
  | .markup p :: x, _, _, h => Eqv.markup p (Eqv.append_left x h)
  | .data _ :: x, _, _, h => Eqv.data rfl (Eqv.append_left x h)

theorem dropWs_nil_of_strip {s : PStr} (h : strip s = []) : dropWs s = [] := by
  rw [← dropWs_strip, h]; rfl

/-- every string with a PREFIX starts with a character that is not whitespace (true of every bs4 class: generated table) -/
def specialsOk : RNode → Bool
  | .str p _ _ => match p with
    | [] => true
    | a :: _ => !isSpace a
  | .tag _ ks => specialsOkL ks
where specialsOkL : List RNode → Bool
  | [] => true
  | k :: ks => specialsOk k && specialsOkL ks

theorem strip_eq_rstrip_of_head {a : Nat} {x : PStr} (ha : isSpace a = false) : strip (a :: x) = rstrip (a :: x) := by
  simp [strip, lstrip, ha]

theorem rstrip_ne_nil_of_head {a : Nat} {x : PStr} (ha : isSpace a = false) : rstrip (a :: x) ≠ [] := by
  intro h
  have h1 := rstrip_append_rtail (a :: x)
  rw [h, List.nil_append] at h1
  have := rtail_ws (a :: x) a (by rw [h1]; simp)
  simp [ha] at this

theorem eqv_tagTok_line (u : PStr) (hu : ∀ c ∈ u, isSpace c = true) (l : Int) (p : PStr) {a b : List Tok} (h : Eqv a b) :
    Eqv (lineToks u l p ++ a) (tagTok p ++ b) := by
  by_cases hp : p = []
  · simpa [lineToks, tagTok, hp] using h
  · simp only [lineToks, tagTok, hp, if_false, List.cons_append, List.nil_append]
    exact Eqv.dropL (dropWs_rep u l hu) (Eqv.markup p (Eqv.dropL dropWs_nl h))

theorem eqv_tagTok_open (u : PStr) (hu : ∀ c ∈ u, isSpace c = true) (l : Int) (p : PStr) {a b : List Tok} (h : Eqv a b) :
    Eqv (openToks u l p ++ a) (tagTok p ++ b) := by
  by_cases hp : p = []
  · simpa [openToks, tagTok, hp] using h
  · simp only [openToks, tagTok, hp, if_false, List.cons_append, List.nil_append]
    exact Eqv.dropL (dropWs_rep u l hu) (Eqv.markup p h)

theorem eqv_tagTok_close (p : PStr) {a b : List Tok} (h : Eqv a b) : Eqv (closeToks p ++ a) (tagTok p ++ b) := by
  by_cases hp : p = []
  · simpa [closeToks, tagTok, hp] using h
  · simp only [closeToks, tagTok, hp, if_false, List.cons_append, List.nil_append]
    exact Eqv.markup p (Eqv.dropL dropWs_nl h)

mutual
theorem eqv_toks (c : RCfg) (u : PStr) (hu : ∀ c ∈ u, isSpace c = true) : ∀ (r : RNode) (l : Int) (lit : Bool)
    (a b : List Tok), specialsOk r = true → Eqv a b → Eqv (prettyToks c u l lit r ++ a) (plainToks c r ++ b)
  | .str p s b0, l, lit, a, b, hok, h => by
    cases lit
    · simp only [prettyToks, plainToks, Bool.false_eq_true, if_false]
      cases hp : p with
      | nil =>
        by_cases hs : strip (outputReady [] s b0) = []
        · simp only [hs, if_true, strToks, List.nil_append, List.cons_append]
          exact Eqv.dropR (dropWs_nil_of_strip hs) h
        · simp only [hs, if_false, if_true, strToks, List.nil_append, List.cons_append]
          refine Eqv.data ?_ h
          simp [dropWs_append, dropWs_rep u l hu, dropWs_nl, dropWs_strip]
      | cons a0 p' =>
        have ha : isSpace a0 = false := by simpa [specialsOk, hp] using hok
        have hx : outputReady (a0 :: p') s b0 = a0 :: (p' ++ b0 ++ s) := by simp [outputReady]
        have hst : strip (outputReady (a0 :: p') s b0) = rstrip (outputReady (a0 :: p') s b0) := by
          rw [hx]; exact strip_eq_rstrip_of_head ha
        have hne : strip (outputReady (a0 :: p') s b0) ≠ [] := by
          rw [hst, hx]; exact rstrip_ne_nil_of_head ha
        simp only [hne, if_false, strToks, List.cons_append, List.nil_append, reduceCtorEq]
        rw [hst]
        refine Eqv.dropL (dropWs_rep u l hu) (Eqv.markup _ (Eqv.data ?_ h))
        rw [dropWs_nl, dropWs_rtail]
    · simp only [prettyToks, plainToks, if_true]
      exact Eqv.append_left _ h
  | .tag i ks, l, lit, a, b, hok, h => by
    have hks : specialsOk.specialsOkL ks = true := by simpa [specialsOk] using hok
    simp only [prettyToks, plainToks]
    by_cases he : (ks.isEmpty && i.canBeEmpty) = true
    · cases lit
      · simp only [he, if_true, Bool.false_eq_true, if_false]
        exact eqv_tagTok_line u hu l _ h
      · simp only [he, if_true]
        exact Eqv.append_left _ h
    · cases lit
      · by_cases hp : (!shouldPrettyPrint i.preserveWs i.name) = true
        · simp only [he, hp, if_true, Bool.false_eq_true, if_false, List.append_assoc]
          exact eqv_tagTok_open u hu l _ (eqv_toksL c u hu ks (l + 1) true _ _ hks (eqv_tagTok_close _ h))
        · simp only [he, hp, Bool.false_eq_true, if_false, List.append_assoc]
          exact eqv_tagTok_line u hu l _ (eqv_toksL c u hu ks (l + 1) false _ _ hks (eqv_tagTok_line u hu l _ h))
      · simp only [he, if_true, Bool.false_eq_true, if_false, List.append_assoc]
        exact Eqv.append_left _ (eqv_toksL c u hu ks (l + 1) true _ _ hks (Eqv.append_left _ h))
theorem eqv_toksL (c : RCfg) (u : PStr) (hu : ∀ c ∈ u, isSpace c = true) : ∀ (ks : List RNode) (l : Int) (lit : Bool)
    (a b : List Tok), specialsOk.specialsOkL ks = true → Eqv a b →
    Eqv (prettyToksL c u l lit ks ++ a) (plainToksL c ks ++ b)
  | [], l, lit, a, b, _, h => by simpa [prettyToksL, plainToksL] using h
  | k :: ks, l, lit, a, b, hok, h => by
    simp only [specialsOk.specialsOkL, Bool.and_eq_true] at hok
    simp only [prettyToksL, plainToksL, List.append_assoc]
    exact eqv_toks c u hu k l lit _ _ hok.1 (eqv_toksL c u hu ks l lit a b hok.2 h)
end

end BS.Pretty
