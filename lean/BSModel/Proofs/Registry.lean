import BSModel.Model.Registry
/-! helper lemmas for C20 -/
namespace BS.Registry

theorem addFeatures_eq (b : Builder) : ∀ (fs : List Nat) (m : Nat → List Builder) (g : Nat), fs.Nodup →
    addFeatures b fs m g = if fs.contains g then b :: m g else m g := by
  intro fs
  induction fs with
  | nil => intro m g _; simp [addFeatures]
  | cons f fs ih =>
    intro m g hnd
    have hnd' : fs.Nodup := (List.nodup_cons.mp hnd).2
    have hf : f ∉ fs := (List.nodup_cons.mp hnd).1
    simp only [addFeatures]
    rw [ih _ _ hnd']
    by_cases hgf : g = f
    · subst hgf
      simp [hf]
    · have h1 : (f :: fs).contains g = fs.contains g := by
        simp [List.contains_cons, hgf]
      rw [h1]; simp [hgf]

theorem find?_congr_mem {α} (l : List α) (p q : α → Bool) (h : ∀ a ∈ l, p a = q a) :
    l.find? p = l.find? q := by
  induction l with
  | nil => rfl
  | cons a l ih =>
    simp only [List.find?_cons, h a (by simp)]
    rw [ih (fun b hb => h b (by simp [hb]))]

/-- the per-feature lists are exactly the global list filtered by the feature -/
def Inv (r : Registry) : Prop := ∀ f, r.byFeature f = r.builders.filter (fun b => offers b f)

theorem inv_empty : Inv empty := by intro f; simp [empty]

theorem inv_register (r : Registry) (b : Builder) (h : Inv r) (hnd : b.features.Nodup) : Inv (register r b) := by
  intro f
  simp only [register]
  rw [addFeatures_eq b _ _ _ hnd, h f]
  simp only [List.filter_cons, offers]

theorem inv_registerAll_aux : ∀ (bs : List Builder) (r : Registry), Inv r → (∀ b ∈ bs, b.features.Nodup) →
    Inv (bs.foldl register r) ∧ (bs.foldl register r).builders = bs.reverse ++ r.builders := by
  intro bs
  induction bs with
  | nil => intro r h _; exact ⟨h, by simp⟩
  | cons b bs ih =>
    intro r h hnd
    have := ih (register r b) (inv_register r b h (hnd b (by simp))) (fun c hc => hnd c (by simp [hc]))
    refine ⟨this.1, ?_⟩
    rw [List.foldl_cons, this.2]; simp [register]

theorem inv_registerAll (bs : List Builder) (hnd : ∀ b ∈ bs, b.features.Nodup) :
    Inv (registerAll bs) ∧ (registerAll bs).builders = bs.reverse := by
  have := inv_registerAll_aux bs empty inv_empty hnd
  simpa [registerAll, empty] using this

/-- state of the scan as a function of the offered features seen so far -/
theorem scan_some (r : Registry) (h : Inv r) : ∀ (fs : List Nat) (f0 : Nat) (seen : List Nat),
    scan r fs (some (r.byFeature f0, r.builders.filter (fun b => offers b f0 && seen.all (offers b)))) =
      some (r.byFeature f0, r.builders.filter (fun b => offers b f0 &&
        (seen ++ fs.filter (offered r.builders)).all (offers b))) := by
  intro fs
  induction fs with
  | nil => intro f0 seen; simp [scan]
  | cons f fs ih =>
    intro f0 seen
    simp only [scan]
    have hempty : (r.byFeature f).isEmpty = !(offered r.builders f) := by
      rw [h f]; simp [offered, List.isEmpty_iff, List.filter_eq_nil_iff]
      cases hh : r.builders.any (fun b => offers b f) <;> simp_all
    by_cases ho : offered r.builders f = true
    · have : (r.byFeature f).isEmpty = false := by rw [hempty, ho]; rfl
      simp only [this, Bool.false_eq_true, if_false]
      have hs : (r.builders.filter (fun b => offers b f0 && seen.all (offers b))).filter
            (fun b => (r.byFeature f).contains b)
          = r.builders.filter (fun b => offers b f0 && (seen ++ [f]).all (offers b)) := by
        rw [List.filter_filter]
        apply List.filter_congr
        intro b hb
        have : (r.byFeature f).contains b = offers b f := by
          rw [h f]
          cases ho' : offers b f
          · simp [ho']
          · simp [List.contains_iff_mem, List.mem_filter, hb, ho']
        rw [this]
        simp [List.all_append, Bool.and_comm, Bool.and_assoc, Bool.and_left_comm]
      rw [hs, ih f0 (seen ++ [f])]
      simp [List.filter_cons, ho]
    · have ho' : offered r.builders f = false := by simpa using ho
      have : (r.byFeature f).isEmpty = true := by rw [hempty, ho']; rfl
      simp only [this, if_true]
      rw [ih f0 seen]
      simp [List.filter_cons, ho']

theorem scan_none (r : Registry) (h : Inv r) : ∀ (fs : List Nat),
    scan r fs none =
      match fs.filter (offered r.builders) with
      | [] => none
      | f0 :: rest => some (r.byFeature f0, r.builders.filter (fun b => offers b f0 && rest.all (offers b))) := by
  intro fs
  induction fs with
  | nil => simp [scan]
  | cons f fs ih =>
    simp only [scan]
    have hempty : (r.byFeature f).isEmpty = !(offered r.builders f) := by
      rw [h f]; simp [offered, List.isEmpty_iff, List.filter_eq_nil_iff]
      cases hh : r.builders.any (fun b => offers b f) <;> simp_all
    by_cases ho : offered r.builders f = true
    · have : (r.byFeature f).isEmpty = false := by rw [hempty, ho]; rfl
      simp only [this, Bool.false_eq_true, if_false]
      have h0 : r.byFeature f = r.builders.filter (fun b => offers b f && ([] : List Nat).all (offers b)) := by
        rw [h f]; simp
      have key := scan_some r h fs f []
      rw [← h0] at key
      simp only [List.nil_append] at key
      simp only [List.filter_cons, ho, if_true]
      exact key
    · have ho' : offered r.builders f = false := by simpa using ho
      have : (r.byFeature f).isEmpty = true := by rw [hempty, ho']; rfl
      simp only [this, if_true, ih]
      simp [List.filter_cons, ho']

end BS.Registry
