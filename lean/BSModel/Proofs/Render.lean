import BSModel.Model.Render
/-! C05 helper lemmas: the net effect of a balanced block on the tag stack of `_event_stream`. -/
namespace BS.Render

/-- the stack below the dangling frames is empty or has the parent of the coming element on top -/
def Stops (par : Option Nat) : List Item → Prop
  | [] => True
  | b :: _ => par = some b.id

theorem popWhile_spec (par : Option Nat) : ∀ (S base : List Item) (acc : List (Ev × Item)),
    (∀ f ∈ S, par ≠ some f.id) → Stops par base →
    popWhile par (S ++ base) acc = (base, acc ++ closes S)
  | [], base, acc, _, hb => by
    cases base with
    | nil => simp [popWhile, closes]
    | cons b rest =>
      have hb' : par = some b.id := hb
      simp [popWhile, closes, hb']
  | s :: S, base, acc, hS, hb => by
    have h1 : par ≠ some s.id := hS s (by simp)
    have ih := popWhile_spec par S base (acc ++ [(Ev.stop, s)]) (fun f hf => hS f (by simp [hf])) hb
    simp [popWhile, h1, ih, closes]

theorem pieces_append (ci : SCls → ClsInfo) (f : Fmt) (a b : List (Ev × Item)) :
    pieces ci f (a ++ b) = pieces ci f a ++ pieces ci f b := by
  simp [pieces, List.flatMap_append]

theorem closes_append (a b : List Item) : closes (a ++ b) = closes a ++ closes b := by
  simp [closes]

theorem length_zero_isEmpty {α} (l : List α) : (l.length == 0) = l.isEmpty := by
  cases l <;> simp

mutual
/-- processing the block of one node: every dangling frame is closed, the node's events are produced except for the
    end events still owed (`S'`) -/
theorem fold_node : ∀ (n : Node) (par : Option Nat) (pname : Option PStr) (k : Nat)
    (S base : List Item) (acc : List (Ev × Item)),
    (∀ f ∈ S, par ≠ some f.id) → Stops par base → (∀ q, par = some q → q < k) →
    ∃ S' acc', (flatten par pname k n).foldl evStep (S ++ base, acc) = (S' ++ base, acc') ∧
      acc' ++ closes S' = acc ++ closes S ++ specEvents par pname k n ∧
      (∀ f ∈ S', k ≤ f.id)
  | .str c s, par, pname, k, S, base, acc, hS, hb, _ => by
    refine ⟨[], acc ++ closes S ++ [(Ev.string, ⟨k, par, .str c s pname⟩)], ?_, ?_, by simp⟩
    · simp [flatten, evStep, popWhile_spec par S base acc hS hb]
    · simp [closes, specEvents]
  | .tag i kids, par, pname, k, S, base, acc, hS, hb, hk => by
    simp only [flatten, List.foldl_cons]
    by_cases he : (kids.isEmpty && i.cbe) = true
    · have hkids : kids = [] := by
        cases kids with
        | nil => rfl
        | cons a b => simp at he
      subst hkids
      have hcbe : i.cbe = true := by simpa using he
      refine ⟨[], acc ++ closes S ++ [(Ev.empty, ⟨k, par, .tag i 0⟩)], ?_, ?_, by simp⟩
      · simp [flattenL, evStep, popWhile_spec par S base acc hS hb, Payload.isEmptyElement, hcbe]
      · simp [closes, specEvents, hcbe]
    · have hne : (Payload.tag i kids.length).isEmptyElement = false := by
        simp only [Payload.isEmptyElement, length_zero_isEmpty]
        simpa using he
      have hstep : evStep (S ++ base, acc) ⟨k, par, .tag i kids.length⟩ =
          ([] ++ (⟨k, par, .tag i kids.length⟩ :: base),
            acc ++ closes S ++ [(Ev.start, ⟨k, par, .tag i kids.length⟩)]) := by
        simp [evStep, popWhile_spec par S base acc hS hb, hne]
      rw [hstep]
      obtain ⟨S2, acc2, h1, h2, h3⟩ := fold_forest kids (some k) (some i.name) (k + 1) []
        (⟨k, par, .tag i kids.length⟩ :: base) (acc ++ closes S ++ [(Ev.start, ⟨k, par, .tag i kids.length⟩)])
        (by simp) rfl (by intro q hq; cases hq; omega)
      refine ⟨S2 ++ [⟨k, par, .tag i kids.length⟩], acc2, ?_, ?_, ?_⟩
      · rw [h1]; simp
      · rw [closes_append, ← List.append_assoc, h2]
        simp only [specEvents, he]
        simp [closes, List.append_assoc]
      · intro f hf
        simp only [List.mem_append, List.mem_singleton] at hf
        rcases hf with hf | hf
        · rcases h3 f hf with h | h
          · simp at h
          · omega
        · subst hf; simp
/-- processing the blocks of a forest of siblings -/
theorem fold_forest : ∀ (ns : List Node) (par : Option Nat) (pname : Option PStr) (k : Nat)
    (S base : List Item) (acc : List (Ev × Item)),
    (∀ f ∈ S, par ≠ some f.id) → Stops par base → (∀ q, par = some q → q < k) →
    ∃ S' acc', (flattenL par pname k ns).foldl evStep (S ++ base, acc) = (S' ++ base, acc') ∧
      acc' ++ closes S' = acc ++ closes S ++ specEventsL par pname k ns ∧
      (∀ f ∈ S', f ∈ S ∨ k ≤ f.id)
  | [], par, pname, k, S, base, acc, _, _, _ => by
    exact ⟨S, acc, by simp [flattenL], by simp [specEventsL], fun f hf => Or.inl hf⟩
  | n :: ns, par, pname, k, S, base, acc, hS, hb, hk => by
    simp only [flattenL, List.foldl_append]
    obtain ⟨S1, acc1, h1, h2, h3⟩ := fold_node n par pname k S base acc hS hb hk
    rw [h1]
    obtain ⟨S2, acc2, g1, g2, g3⟩ := fold_forest ns par pname (k + (flatten par pname k n).length) S1 base acc1
      (by
        intro f hf heq
        have := hk f.id heq
        have := h3 f hf
        omega)
      hb (by intro q hq; have := hk q hq; omega)
    refine ⟨S2, acc2, g1, ?_, ?_⟩
    · rw [g2, h2]; simp [specEventsL, List.append_assoc]
    · intro f hf
      rcases g3 f hf with h | h
      · exact Or.inr (h3 f h)
      · exact Or.inr (by omega)
end

/-- **`_event_stream` is the structural recursion**: the explicit tag stack over the pre-order chain yields exactly
    the events of the tree -/
theorem eventStream_flatten (n : Node) (par : Option Nat) (pname : Option PStr) (k : Nat) (hk : ∀ q, par = some q → q < k) :
    eventStream (flatten par pname k n) = specEvents par pname k n := by
  obtain ⟨S, acc, h1, h2, _⟩ := fold_node n par pname k [] [] [] (by simp) trivial hk
  simp only [eventStream]
  simp only [List.append_nil] at h1
  rw [h1]
  simpa [closes] using h2

/-- the same over `descendants` of a tag (its own item is not in the stream; the children's parent is never on the stack) -/
theorem eventStream_flattenL (ns : List Node) (par : Option Nat) (pname : Option PStr) (k : Nat) (hk : ∀ q, par = some q → q < k) :
    eventStream (flattenL par pname k ns) = specEventsL par pname k ns := by
  obtain ⟨S, acc, h1, h2, _⟩ := fold_forest ns par pname k [] [] [] (by simp) trivial hk
  simp only [eventStream]
  simp only [List.append_nil] at h1
  rw [h1]
  simpa [closes] using h2

mutual
/-- formatting the events of the spec and joining the pieces is the structural rendering -/
theorem pieces_specEvents (ci : SCls → ClsInfo) (fm : Fmt) : ∀ (n : Node) (par : Option Nat) (pname : Option PStr) (k : Nat),
    pieces ci fm (specEvents par pname k n) = renderSpec ci fm pname n
  | .str c s, par, pname, k => by simp [specEvents, pieces, piece, renderSpec]
  | .tag i kids, par, pname, k => by
    simp only [specEvents, renderSpec]
    by_cases he : (kids.isEmpty && i.cbe) = true
    · have hkids : kids = [] := by
        cases kids with
        | nil => rfl
        | cons a b => simp at he
      subst hkids
      have hcbe : i.cbe = true := by simpa using he
      simp [pieces, piece, Payload.isEmptyElement, hcbe]
    · have hne : (Payload.tag i kids.length).isEmptyElement = false := by
        simp only [Payload.isEmptyElement, length_zero_isEmpty]
        simpa using he
      simp only [he, Bool.false_eq_true, if_false]
      have := pieces_specEventsL ci fm kids (some k) (some i.name) (k + 1)
      rw [show ((Ev.start, (⟨k, par, .tag i kids.length⟩ : Item)) :: (specEventsL (some k) (some i.name) (k + 1) kids ++
          [(Ev.stop, ⟨k, par, .tag i kids.length⟩)])) =
          [(Ev.start, (⟨k, par, .tag i kids.length⟩ : Item))] ++ specEventsL (some k) (some i.name) (k + 1) kids ++
          [(Ev.stop, ⟨k, par, .tag i kids.length⟩)] by simp]
      rw [pieces_append, pieces_append, this]
      simp [pieces, piece, hne]
theorem pieces_specEventsL (ci : SCls → ClsInfo) (fm : Fmt) : ∀ (ns : List Node) (par : Option Nat) (pname : Option PStr) (k : Nat),
    pieces ci fm (specEventsL par pname k ns) = renderL ci fm pname ns
  | [], _, _, _ => by simp [specEventsL, pieces, renderL]
  | n :: ns, par, pname, k => by
    simp only [specEventsL, renderL, pieces_append, pieces_specEvents ci fm n, pieces_specEventsL ci fm ns]
end

/-- what an event of the stream says about its element: `EMPTY` only for a childless tag that can be empty,
    `START`/`END` only for the other tags, `STRING` only for strings -/
def evOK (e : Ev × Item) : Bool :=
  match e.1, e.2.pl with
  | .empty, .tag i nk => nk == 0 && i.cbe
  | .start, .tag i nk => !(nk == 0 && i.cbe)
  | .stop, .tag i nk => !(nk == 0 && i.cbe)
  | .string, .str _ _ _ => true
  | _, _ => false

mutual
theorem specEvents_ok : ∀ (n : Node) (par : Option Nat) (pname : Option PStr) (k : Nat),
    ∀ e ∈ specEvents par pname k n, evOK e = true
  | .str c s, par, pname, k => by simp [specEvents, evOK]
  | .tag i kids, par, pname, k => by
    intro e he
    simp only [specEvents] at he
    by_cases hc : (kids.isEmpty && i.cbe) = true
    · simp only [hc, if_true, List.mem_singleton] at he
      subst he
      simpa [evOK, length_zero_isEmpty] using hc
    · have hne : (!(kids.length == 0 && i.cbe)) = true := by
        rw [length_zero_isEmpty]
        cases hx : (kids.isEmpty && i.cbe)
        · rfl
        · exact absurd hx hc
      simp only [hc, Bool.false_eq_true, if_false, List.mem_cons, List.mem_append, List.not_mem_nil, or_false] at he
      rcases he with he | he | he
      · subst he; simpa [evOK] using hne
      · exact specEventsL_ok kids _ _ _ e he
      · subst he; simpa [evOK] using hne
theorem specEventsL_ok : ∀ (ns : List Node) (par : Option Nat) (pname : Option PStr) (k : Nat),
    ∀ e ∈ specEventsL par pname k ns, evOK e = true
  | [], _, _, _ => by simp [specEventsL]
  | n :: ns, par, pname, k => by
    intro e he
    simp only [specEventsL, List.mem_append] at he
    rcases he with he | he
    · exact specEvents_ok n _ _ _ e he
    · exact specEventsL_ok ns _ _ _ e he
end

/-- a string child of a tag carries the tag's name as `parent.name` -/
def rawKid (ci : SCls → ClsInfo) (fm : Fmt) (pn : PStr) : Node → PStr
  | .str c s => (ci c).pre ++ s ++ (ci c).suf
  | .tag i ks => renderSpec ci fm (some pn) (.tag i ks)

theorem outputReady_cdata (ci : SCls → ClsInfo) (f : Fmt) (pn : PStr) (c : SCls) (s : PStr)
    (h : f.cdataTags.contains pn = true) :
    outputReady ci f (some pn) c s = (ci c).pre ++ s ++ (ci c).suf := by
  simp only [outputReady, substitute, h]
  cases (ci c).preformatted <;> cases f.subst <;> simp

theorem renderL_cdata (ci : SCls → ClsInfo) (f : Fmt) (pn : PStr) (h : f.cdataTags.contains pn = true) :
    ∀ (ks : List Node), renderL ci f (some pn) ks = ks.flatMap (rawKid ci f pn)
  | [] => by simp [renderL]
  | .str c s :: ks => by
    simp only [renderL, renderSpec, outputReady_cdata ci f pn c s h, renderL_cdata ci f pn h ks, List.flatMap_cons, rawKid]
  | .tag i k2 :: ks => by
    simp only [renderL, renderL_cdata ci f pn h ks, List.flatMap_cons, rawKid]

end BS.Render
