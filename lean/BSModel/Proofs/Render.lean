import BSModel.Model.Render
/-! C05 helper lemmas: the net effect of a balanced block on the tag stack of `_event_stream`. -/
namespace BS.Render

/-- the stack below the dangling frames is empty or has the parent of the coming element on top -/
def Stops (par : Option Nat) : List Item → Prop
  | [] => True
  | b :: _ => par = some b.id

theorem popWhile_spec (par : Option Nat) : ∀ (S base : List Item) (acc : List (Ev × Item)),
    (∀ f ∈ S, par ≠ some f.id) → Stops par base →
    popWhile par (S ++ base) acc = (base, acc ++ closes S)
  | [], base, acc, _, hb => by
    cases base with
    | nil => simp [popWhile, closes]
    | cons b rest =>
      have hb' : par = some b.id := hb
      simp [popWhile, closes, hb']
  | s :: S, base, acc, hS, hb => by
    have h1 : par ≠ some s.id := hS s (by simp)
    have ih := popWhile_spec par S base (acc ++ [(Ev.stop, s)]) (fun f hf => hS f (by simp [hf])) hb
    simp [popWhile, h1, ih, closes]

theorem pieces_append (ci : SCls → ClsInfo) (f : Fmt) (a b : List (Ev × Item)) :
    pieces ci f (a ++ b) = pieces ci f a ++ pieces ci f b := by
  simp [pieces, List.flatMap_append]

theorem closes_append (a b : List Item) : closes (a ++ b) = closes a ++ closes b := by
  simp [closes]

theorem length_zero_isEmpty {α} (l : List α) : (l.length == 0) = l.isEmpty := by
  cases l <;> simp

mutual
/-- processing the block of one node: every dangling frame is closed, the node's rendering is produced except
    for the end tags still owed (`S'`) -/
theorem fold_node (ci : SCls → ClsInfo) (fm : Fmt) : ∀ (n : Node) (par : Option Nat) (pname : Option PStr) (k : Nat)
    (S base : List Item) (acc : List (Ev × Item)),
    (∀ f ∈ S, par ≠ some f.id) → Stops par base → (∀ q, par = some q → q < k) →
    ∃ S' acc', (flatten par pname k n).foldl evStep (S ++ base, acc) = (S' ++ base, acc') ∧
      pieces ci fm (acc' ++ closes S') = pieces ci fm (acc ++ closes S) ++ renderSpec ci fm pname n ∧
      (∀ f ∈ S', k ≤ f.id)
  | .str c s, par, pname, k, S, base, acc, hS, hb, _ => by
    refine ⟨[], acc ++ closes S ++ [(Ev.string, ⟨k, par, .str c s pname⟩)], ?_, ?_, by simp⟩
    · simp [flatten, evStep, popWhile_spec par S base acc hS hb]
    · simp [closes, renderSpec, pieces, piece]
  | .tag i kids, par, pname, k, S, base, acc, hS, hb, hk => by
    simp only [flatten, List.foldl_cons]
    by_cases he : (kids.isEmpty && i.cbe) = true
    · have hkids : kids = [] := by
        cases kids with
        | nil => rfl
        | cons a b => simp at he
      subst hkids
      have hcbe : i.cbe = true := by simpa using he
      refine ⟨[], acc ++ closes S ++ [(Ev.empty, ⟨k, par, .tag i 0⟩)], ?_, ?_, by simp⟩
      · simp [flattenL, evStep, popWhile_spec par S base acc hS hb, Payload.isEmptyElement, hcbe]
      · simp [closes, renderSpec, pieces, piece, Payload.isEmptyElement, hcbe]
    · have hne : (Payload.tag i kids.length).isEmptyElement = false := by
        simp only [Payload.isEmptyElement, length_zero_isEmpty]
        simpa using he
      have hstep : evStep (S ++ base, acc) ⟨k, par, .tag i kids.length⟩ =
          ([] ++ (⟨k, par, .tag i kids.length⟩ :: base),
            acc ++ closes S ++ [(Ev.start, ⟨k, par, .tag i kids.length⟩)]) := by
        simp [evStep, popWhile_spec par S base acc hS hb, hne]
      rw [hstep]
      obtain ⟨S2, acc2, h1, h2, h3⟩ := fold_forest ci fm kids (some k) (some i.name) (k + 1) []
        (⟨k, par, .tag i kids.length⟩ :: base) (acc ++ closes S ++ [(Ev.start, ⟨k, par, .tag i kids.length⟩)])
        (by simp) rfl (by intro q hq; cases hq; omega)
      refine ⟨S2 ++ [⟨k, par, .tag i kids.length⟩], acc2, ?_, ?_, ?_⟩
      · rw [h1]; simp
      · rw [closes_append, ← List.append_assoc, pieces_append, h2]
        simp only [renderSpec, he]
        simp [closes, pieces, piece, hne, List.append_assoc]
      · intro f hf
        simp only [List.mem_append, List.mem_singleton] at hf
        rcases hf with hf | hf
        · rcases h3 f hf with h | h
          · simp at h
          · omega
        · subst hf; simp
/-- processing the blocks of a forest of siblings -/
theorem fold_forest (ci : SCls → ClsInfo) (fm : Fmt) : ∀ (ns : List Node) (par : Option Nat) (pname : Option PStr) (k : Nat)
    (S base : List Item) (acc : List (Ev × Item)),
    (∀ f ∈ S, par ≠ some f.id) → Stops par base → (∀ q, par = some q → q < k) →
    ∃ S' acc', (flattenL par pname k ns).foldl evStep (S ++ base, acc) = (S' ++ base, acc') ∧
      pieces ci fm (acc' ++ closes S') = pieces ci fm (acc ++ closes S) ++ renderL ci fm pname ns ∧
      (∀ f ∈ S', f ∈ S ∨ k ≤ f.id)
  | [], par, pname, k, S, base, acc, _, _, _ => by
    exact ⟨S, acc, by simp [flattenL], by simp [renderL], fun f hf => Or.inl hf⟩
  | n :: ns, par, pname, k, S, base, acc, hS, hb, hk => by
    simp only [flattenL, List.foldl_append]
    obtain ⟨S1, acc1, h1, h2, h3⟩ := fold_node ci fm n par pname k S base acc hS hb hk
    rw [h1]
    obtain ⟨S2, acc2, g1, g2, g3⟩ := fold_forest ci fm ns par pname (k + (flatten par pname k n).length) S1 base acc1
      (by
        intro f hf heq
        have := hk f.id heq
        have := h3 f hf
        omega)
      hb (by intro q hq; have := hk q hq; omega)
    refine ⟨S2, acc2, g1, ?_, ?_⟩
    · rw [g2, h2]; simp [renderL, List.append_assoc]
    · intro f hf
      rcases g3 f hf with h | h
      · exact Or.inr (h3 f h)
      · exact Or.inr (by omega)
end

end BS.Render
