import BSModel.Model.Render
import BSModel.Model.Entities
import BSModel.Gen.Entities
/-! C05 helper lemmas: this model's `substitute_xml` / `quoted_attribute_value` are C09's (so C09's reversibility
    theorems apply to the rendering model). -/
namespace BS.Render

private theorem fm_other (c : Nat) (cs : PStr) (h60 : c ≠ 60) (h62 : c ≠ 62) (h38 : c ≠ 38) :
    BS.Entities.firstMatch BS.Entities.xmlParticles (c :: cs) = none := by
  have e60 : (60 == c) = false := by simpa using Ne.symm h60
  have e62 : (62 == c) = false := by simpa using Ne.symm h62
  have e38 : (38 == c) = false := by simpa using Ne.symm h38
  simp [BS.Entities.firstMatch, BS.Entities.xmlParticles, BS.Entities.Particle.matchesAt, List.find?, List.isPrefixOf,
    e60, e62, e38]

private theorem fm_hit (c : Nat) (cs : PStr) (h : c = 60 ∨ c = 62 ∨ c = 38) :
    BS.Entities.firstMatch BS.Entities.xmlParticles (c :: cs) = some ⟨[c], []⟩ := by
  rcases h with h | h | h <;> subst h <;>
    cases cs <;> simp [BS.Entities.firstMatch, BS.Entities.xmlParticles, BS.Entities.Particle.matchesAt, List.find?, List.isPrefixOf]

theorem substXml_eq_c09 (s : PStr) : substXml s = BS.Entities.substXml BS.Gen.C09.xmlTable s := by
  induction s with
  | nil => simp [substXml, BS.Entities.substXml, BS.Entities.reSub]
  | cons c cs ih =>
    unfold BS.Entities.substXml at ih ⊢
    by_cases h : c = 60 ∨ c = 62 ∨ c = 38
    · rw [BS.Entities.reSub, fm_hit c cs h]
      simp only [List.length_singleton, Nat.sub_self, substXml, ih]
      rcases h with h | h | h <;> subst h <;> rfl
    · have h1 : c ≠ 60 := fun e => h (Or.inl e)
      have h2 : c ≠ 62 := fun e => h (Or.inr (Or.inl e))
      have h3 : c ≠ 38 := fun e => h (Or.inr (Or.inr e))
      rw [BS.Entities.reSub, fm_other c cs h1 h2 h3]
      simp [substXml, esc, h1, h2, h3, ih]

theorem replaceDq_eq (v : PStr) : replaceDq v = BS.Entities.replaceDq v := by
  induction v with
  | nil => rfl
  | cons c cs ih => simp only [replaceDq, BS.Entities.replaceDq, ih]; split <;> simp [BS.Entities.quotEnt]

theorem quoteAttr_eq_c09 (v : PStr) : quoteAttr v = BS.Entities.quoteAttr v := by
  simp only [quoteAttr, BS.Entities.quoteAttr, replaceDq_eq]
  split <;> (try split) <;> simp

end BS.Render
