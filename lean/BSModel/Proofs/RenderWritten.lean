import BSModel.Model.RenderWritten
import BSModel.Proofs.WriterMinimal
import BSModel.Proofs.AttrsIdem
/-! C05 helper lemmas: on `renderWritable` trees the rendering of the 'minimal' formatter is, character for character,
    the text C04's writer writes for `toWDocL` under `minimalChoices`. -/
namespace BS.Render
open BS.Writer BS.WriterText BS.WriterMin

/-- what the theorem needs of the formatter: `substitute_xml`, void form `<x/>`, `""` stays a value -/
def IsMinimal (f : Fmt) : Prop := f.subst = some substXml ∧ f.voidPrefix = [47] ∧ f.emptyBool = false

theorem esc_eq_escW (ch : Nat) : esc ch = escW ch := by
  unfold esc escW erefText nAmp nLt nGt
  split <;> (try split) <;> (try split) <;> simp_all

theorem substXml_flatMap : ∀ (s : PStr), substXml s = s.flatMap escW
  | [] => rfl
  | c :: cs => by simp [substXml, substXml_flatMap cs, esc_eq_escW]

/-! ### attribute values -/

theorem esc_no_quote (c q : Nat) (hq : q = 34 ∨ q = 39) : (esc c).contains q = ([c] : PStr).contains q := by
  unfold esc
  rcases hq with rfl | rfl <;> (split <;> (try split) <;> (try split) <;> simp_all)

theorem substXml_contains (q : Nat) (hq : q = 34 ∨ q = 39) : ∀ (x : PStr), (substXml x).contains q = x.contains q
  | [] => rfl
  | c :: cs => by
    have h1 := esc_no_quote c q hq
    have h2 := substXml_contains q hq cs
    simp only [substXml, List.contains_eq_mem, List.mem_append, List.mem_cons] at *
    simp only [decide_eq_decide] at *
    simp [h1, h2]

theorem substXml_escAttr : ∀ (x : PStr), x.contains 60 = false → x.contains 62 = false → x.contains 34 = false →
    substXml x = escAttr x
  | [], _, _, _ => rfl
  | c :: cs, h1, h2, h3 => by
    have hc60 : c ≠ 60 := by intro e; subst e; simp at h1
    have hc62 : c ≠ 62 := by intro e; subst e; simp at h2
    have hc34 : c ≠ 34 := by intro e; subst e; simp at h3
    have ih := substXml_escAttr cs (by simp at h1 ⊢; exact h1.2) (by simp at h2 ⊢; exact h2.2) (by simp at h3 ⊢; exact h3.2)
    simp only [substXml, ih, escAttr, List.flatMap_cons, esc]
    by_cases h38 : c = 38
    · simp [h38]
    · simp [h38, hc60, hc62, hc34]

theorem replaceDq_substXml : ∀ (x : PStr), x.contains 60 = false → x.contains 62 = false →
    replaceDq (substXml x) = escAttr x
  | [], _, _ => rfl
  | c :: cs, h1, h2 => by
    have hc60 : c ≠ 60 := by intro e; subst e; simp at h1
    have hc62 : c ≠ 62 := by intro e; subst e; simp at h2
    have ih := replaceDq_substXml cs (by simp at h1 ⊢; exact h1.2) (by simp at h2 ⊢; exact h2.2)
    have happ : ∀ (a b : PStr), replaceDq (a ++ b) = replaceDq a ++ replaceDq b := by
      intro a b; induction a with
      | nil => rfl
      | cons y ys ihy => simp [replaceDq, ihy, List.append_assoc]
    simp only [substXml, happ, ih, escAttr, List.flatMap_cons, esc]
    by_cases h38 : c = 38
    · simp [h38, replaceDq]
    · by_cases h34 : c = 34
      · simp [h34, replaceDq]
      · simp [h38, hc60, hc62, h34, replaceDq]

/-- the renderer's quoted value is the writer's, exactly on `okAttrVal` -/
theorem quote_eq_writer (x : PStr) (h : okAttrVal x = true) : quoteAttr (substXml x) = 34 :: (escAttr x ++ [34]) := by
  simp only [okAttrVal, Bool.and_eq_true, Bool.or_eq_true, Bool.not_eq_true'] at h
  obtain ⟨⟨h60, h62⟩, hq⟩ := h
  unfold quoteAttr
  rw [substXml_contains 34 (Or.inl rfl), substXml_contains 39 (Or.inr rfl)]
  by_cases h34 : x.contains 34 = true
  · have h39 : x.contains 39 = true := by
      rcases hq with hq | hq
      · rw [hq] at h34; exact absurd h34 (by simp)
      · exact hq
    rw [if_pos h34, if_pos h39, replaceDq_substXml x h60 h62]
  · rw [if_neg h34, substXml_escAttr x h60 h62 (by simpa using h34)]

/-- one written attribute: ` k="v"` / ` k` -/
def wpiece (kv : PStr × Option PStr) : PStr :=
  kv.1 ++ (match kv.2 with | none => [] | some v => 61 :: 34 :: (escAttr v ++ [34]))

def evOf (kv : PStr × AVal) : PStr × Option PStr := (kv.1, match kv.2 with | .none => none | v => some (valText v))

theorem attrPiece_eq (f : Fmt) (hf : f.subst = some substXml) (kv : PStr × AVal)
    (h : (match kv.2 with | .none => true | v => okAttrVal (valText v)) = true) : attrPiece f kv = wpiece (evOf kv) := by
  unfold attrPiece wpiece evOf
  cases hv : kv.2 with
  | none => simp
  | str s => simp only [hv] at h; simp [substitute, hf, quote_eq_writer _ h]
  | list l => simp only [hv] at h; simp [substitute, hf, quote_eq_writer _ h]

theorem attrsText_cons (tl : PStr) (kv : PStr × Option PStr) (more : List (PStr × Option PStr)) :
    attrsText tl (kv :: more) = 32 :: (wpiece kv ++ attrsText tl more) := rfl

theorem attrsText_pieces (tl : PStr) : ∀ (L : List (PStr × Option PStr)),
    attrsText tl L = (match L.map wpiece with | [] => [] | ps => 32 :: joinSp ps) ++ tl
  | [] => rfl
  | [kv] => by
    rw [attrsText_cons]
    simp [attrsText, joinSp]
  | kv :: kv2 :: more => by
    have ih := attrsText_pieces tl (kv2 :: more)
    rw [attrsText_cons, ih]
    simp [joinSp, List.append_assoc]

theorem attrString_eq (f : Fmt) (hf : IsMinimal f) (attrs : List (PStr × AVal)) (tl : PStr)
    (h : attrs.all (fun kv => match kv.2 with | .none => true | v => okAttrVal (valText v)) = true) :
    attrString f attrs ++ tl = attrsText tl (evAttrs f attrs) := by
  have hall : ∀ kv ∈ fmtAttributes f attrs, (match kv.2 with | .none => true | v => okAttrVal (valText v)) = true := by
    intro kv hkv
    unfold fmtAttributes at hkv
    have hp := (sortAttrs_perm (attrs.map fun kv => (kv.1, if f.emptyBool && kv.2 == AVal.str [] then AVal.none else kv.2))).mem_iff.mp hkv
    obtain ⟨kv0, hk0, he⟩ := List.mem_map.mp hp
    have := (List.all_eq_true.mp h) kv0 hk0
    simp only [hf.2.2, Bool.false_and, Bool.false_eq_true, if_false] at he
    rw [← he]; exact this
  have hmap : (fmtAttributes f attrs).map (attrPiece f) = ((fmtAttributes f attrs).map evOf).map wpiece := by
    rw [List.map_map]
    apply List.map_congr_left
    intro kv hkv
    exact attrPiece_eq f hf.1 kv (hall kv hkv)
  have hev : evAttrs f attrs = (fmtAttributes f attrs).map evOf := rfl
  rw [attrsText_pieces, hev]
  unfold attrString
  rw [hmap]
  rfl

/-! ### strings -/

theorem str_eq (ci : SCls → ClsInfo) (hci : ∀ c, ci c = assumedMarkup c) (f : Fmt) (hf : IsMinimal f) (iv : PStr → Bool)
    (pn : Option PStr) (hpn : (match pn with | some n => f.cdataTags.contains n | none => false) = false)
    (c : SCls) (s : PStr) (hc : (c != .preformatted) = true) :
    outputReady ci f pn c s = wrenderL iv (toWDocStr c s) := by
  have hsub : substitute f pn s = s.flatMap escW := by
    unfold substitute
    rw [hf.1]
    cases pn with
    | none => simp [substXml_flatMap]
    | some n =>
      have : f.cdataTags.contains n = false := hpn
      simp only [this, Bool.false_eq_true, if_false, substXml_flatMap]
  unfold outputReady
  rw [hci c]
  cases c <;> simp_all [assumedMarkup, toWDocStr, wrenderL, wrender, specialMarkup, kwCData, kwDoctype, cased, escW]

/-! ### the whole text -/

mutual
theorem render_eq_wrender (ci : SCls → ClsInfo) (hci : ∀ c, ci c = assumedMarkup c) (f : Fmt) (hf : IsMinimal f)
    (iv : PStr → Bool) : ∀ (n : Node) (pn : Option PStr),
    (match pn with | some n => f.cdataTags.contains n | none => false) = false → renderWritable iv f n = true →
    renderSpec ci f pn n = wrenderL iv (toWDoc f n)
  | .str c s, pn, hpn, h => by
    simp only [renderSpec, toWDoc]
    exact str_eq ci hci f hf iv pn hpn c s (by simpa [renderWritable] using h)
  | .tag i ks, pn, _, h => by
    simp only [renderWritable, Bool.and_eq_true, Bool.not_eq_true'] at h
    obtain ⟨⟨⟨hhid, hcd⟩, hattr⟩, hk⟩ := h
    simp only [renderSpec, toWDoc, wrenderL, wrender, List.append_nil]
    by_cases hv : iv (fullName i) = true
    · simp only [hv, if_true, Bool.and_eq_true] at hk
      have hks : ks = [] := by
        cases ks with
        | nil => rfl
        | cons a b => simp at hk
      subst hks
      have hv2 : iv (prefixStr i ++ i.name) = true := hv
      simp only [hk.1, List.isEmpty_nil, Bool.and_self, if_true, formatTag, hhid, Bool.false_eq_true, if_false, hf.2.1,
        openText, fullName, hv2]
      have := attrString_eq f hf i.attrs [47, 62] hattr
      simp only [List.nil_append, List.append_assoc, List.cons_append] at this ⊢
      rw [← this]
    · have hv' : iv (fullName i) = false := by simpa using hv
      simp only [hv', Bool.false_eq_true, if_false, Bool.and_eq_true, Bool.not_eq_true'] at hk
      have hne : (ks.isEmpty && i.cbe) = false := hk.1
      have hkids := renderL_eq_wrenderL ci hci f hf iv ks (some i.name) hcd hk.2
      have hv2 : iv (prefixStr i ++ i.name) = false := hv'
      simp only [hne, Bool.false_eq_true, if_false, formatTag, hhid, hkids, openText, closeText, fullName, hv2]
      have := attrString_eq f hf i.attrs [62] hattr
      simp only [List.nil_append, List.append_assoc, List.cons_append] at this ⊢
      rw [← this]
      simp [List.append_assoc]
theorem renderL_eq_wrenderL (ci : SCls → ClsInfo) (hci : ∀ c, ci c = assumedMarkup c) (f : Fmt) (hf : IsMinimal f)
    (iv : PStr → Bool) : ∀ (ns : List Node) (pn : Option PStr),
    (match pn with | some n => f.cdataTags.contains n | none => false) = false → renderWritableL iv f ns = true →
    renderL ci f pn ns = wrenderL iv (toWDocL f ns)
  | [], _, _, _ => rfl
  | n :: ns, pn, hpn, h => by
    simp only [renderWritableL, Bool.and_eq_true] at h
    have happ : ∀ (a b : List WDoc), wrenderL iv (a ++ b) = wrenderL iv a ++ wrenderL iv b := by
      intro a b; induction a with
      | nil => rfl
      | cons x xs ih => simp [wrenderL, ih, List.append_assoc]
    simp only [renderL, toWDocL, happ, render_eq_wrender ci hci f hf iv n pn hpn h.1,
      renderL_eq_wrenderL ci hci f hf iv ns pn hpn h.2]
end

end BS.Render
