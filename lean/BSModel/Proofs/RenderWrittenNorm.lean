import BSModel.Model.RenderWritten
import BSModel.Proofs.ReparseIdem
/-! C05 helper lemmas: C04's `normalise` of the written document is this model's `normaliseL` (attributes and
    `can_be_empty_element` forgotten: C04 reports attributes separately, as `startInfos`). -/
namespace BS.Render
open BS.Builder BS.Writer BS.Adapter

/-- the builder configuration C04's theorems speak of, read off this model's `PCfg`; `clsId` numbers the classes -/
def bcfgOf (p : PCfg) (clsId : SCls → Cls) : Cfg :=
  { preserve := fun n => p.preserveWs.contains n
    container := fun n => (lookupL p.containers n).map clsId
    asciiSpaces := p.asciiSpaces
    rootName := rootFrame.name }

mutual
/-- a tree of this model as a tree of C03/C04's builder model -/
def toDoc (clsId : SCls → Cls) : Node → Doc
  | .tag i ks => Doc.elem (fullName i) none (toDocL clsId ks)
  | .str c s => Doc.text (clsId c) s
def toDocL (clsId : SCls → Cls) : List Node → List Doc
  | [] => []
  | n :: ns => toDoc clsId n :: toDocL clsId ns
end

/-- the numbering agrees with the adapter's ids of the special classes -/
def ClsIdOK (clsId : SCls → Cls) : Prop :=
  clsId .navigable = 0 ∧ clsId .comment = clsComment ∧ clsId .cdata = clsCData ∧ clsId .pi = clsPI ∧ clsId .doctype = clsDoctype

/-- this model's context of a list of enclosing element names (innermost first) -/
def ctxOfN (p : PCfg) : List PStr → Ctx
  | [] => ⟨false, none⟩
  | n :: rest => pushCtx p (ctxOfN p rest) n

theorem toDocL_append (clsId : SCls → Cls) : ∀ (a b : List Node), toDocL clsId (a ++ b) = toDocL clsId a ++ toDocL clsId b
  | [], _ => rfl
  | x :: xs, b => by simp [toDocL, toDocL_append clsId xs b]

theorem ctx_pres (p : PCfg) (clsId : SCls → Cls) : ∀ (ns : List PStr), (ctxOfN p ns).pres = ns.any (bcfgOf p clsId).preserve
  | [] => rfl
  | n :: rest => by simp [ctxOfN, pushCtx, ctx_pres p clsId rest, bcfgOf, Bool.or_comm]

theorem ctx_cls (p : PCfg) (clsId : SCls → Cls) (h0 : clsId .navigable = 0) : ∀ (ns : List PStr),
    clsId ((ctxOfN p ns).cont.getD .navigable) = BS.Writer.textCls (bcfgOf p clsId) ns
  | [] => by simp [ctxOfN, BS.Writer.textCls, h0]
  | n :: rest => by
    have ih := ctx_cls p clsId h0 rest
    simp only [ctxOfN, pushCtx, BS.Writer.textCls, List.find?_cons, bcfgOf] at ih ⊢
    cases hl : lookupL p.containers n with
    | none => simpa [hl] using ih
    | some k => simp [hl]

theorem wsRule_eq (p : PCfg) (clsId : SCls → Cls) (ns : List PStr) (s : PStr) :
    wsRule p (ctxOfN p ns).pres s = BS.Writer.wsRule (bcfgOf p clsId) ns s := by
  simp [wsRule, BS.Writer.wsRule, ctx_pres p clsId ns, bcfgOf]

/-- pending character data: this model's chunks and C04's joined run -/
def pendOf (b : List PStr) : Option PStr := if b.isEmpty then none else some (concatL b)

theorem flush_eq_txt (p : PCfg) (clsId : SCls → Cls) (h0 : clsId .navigable = 0) (ns : List PStr) (b : List PStr) :
    toDocL clsId (txt p (ctxOfN p ns) b) = flushP (bcfgOf p clsId) ns (pendOf b) := by
  cases b with
  | nil => rfl
  | cons x xs =>
    simp only [txt, toDocL, toDoc, pendOf, List.isEmpty_cons, Bool.false_eq_true, if_false, flushP,
      ctx_cls p clsId h0 ns, wsRule_eq p clsId ns]

theorem normL_append (cfg : Cfg) : ∀ (a b : List WDoc) (ctx : List Name) (pend : Option PStr),
    normL cfg ctx pend (a ++ b) =
      ((normL cfg ctx pend a).1 ++ (normL cfg ctx (normL cfg ctx pend a).2 b).1, (normL cfg ctx (normL cfg ctx pend a).2 b).2)
  | [], _, _, _ => by simp [normL]
  | x :: xs, b, ctx, pend => by
    simp only [List.cons_append, normL, normL_append cfg xs b, List.append_assoc]

theorem pendOf_snoc (b : List PStr) (s : PStr) : pendOf (b ++ [s]) = some ((pendOf b).getD [] ++ s) := by
  have hc : ∀ (b : List PStr), concatL (b ++ [s]) = concatL b ++ s := by
    intro b; induction b with
    | nil => simp [concatL]
    | cons y ys ih => simp [concatL, ih, List.append_assoc]
  cases b with
  | nil => simp [pendOf, concatL]
  | cons x xs =>
    have := hc (x :: xs)
    simp only [List.cons_append] at this
    simp [pendOf, this]

/-- text of a text class -/
theorem bridge_text (p : PCfg) (f : Fmt) (clsId : SCls → Cls) (names : List PStr) (b : List PStr) (hb : ∀ x ∈ b, x ≠ [])
    (c : SCls) (s : PStr) (hk : strKind c s = .text s) (hw : toWDocStr c s = [.text s]) :
    toDocL clsId (absorb1 p f (ctxOfN p names) b (.str c s)).1 =
        (normL (bcfgOf p clsId) names (pendOf b) (toWDocStr c s)).1 ∧
      pendOf (absorb1 p f (ctxOfN p names) b (.str c s)).2 = (normL (bcfgOf p clsId) names (pendOf b) (toWDocStr c s)).2 ∧
      (∀ x ∈ (absorb1 p f (ctxOfN p names) b (.str c s)).2, x ≠ []) := by
  simp only [absorb1, hk, hw, normL, norm1, toDocL, List.append_nil]
  by_cases he : s.isEmpty = true
  · simp only [he, if_true, true_and]; exact hb
  · simp only [he, Bool.false_eq_true, if_false, pendOf_snoc, true_and]
    intro x hx
    simp only [List.mem_append, List.mem_singleton] at hx
    rcases hx with hx | hx
    · exact hb x hx
    · subst hx; intro h0; simp [h0] at he

/-- a special string (`nl` = a newline of character data follows: the doctype) -/
theorem bridge_special (p : PCfg) (f : Fmt) (clsId : SCls → Cls) (h0 : clsId .navigable = 0) (names : List PStr) (b : List PStr)
    (c c' : SCls) (s s' : PStr) (k : Kind) (nl : Bool) (hk : strKind c s = .special c' s' nl)
    (hw : toWDocStr c s = .special k s' :: (if nl then [.text [10]] else []))
    (hs : specialText k s' = (clsId c', s')) :
    toDocL clsId (absorb1 p f (ctxOfN p names) b (.str c s)).1 =
        (normL (bcfgOf p clsId) names (pendOf b) (toWDocStr c s)).1 ∧
      pendOf (absorb1 p f (ctxOfN p names) b (.str c s)).2 = (normL (bcfgOf p clsId) names (pendOf b) (toWDocStr c s)).2 ∧
      (∀ x ∈ (absorb1 p f (ctxOfN p names) b (.str c s)).2, x ≠ []) := by
  simp only [absorb1, hk, hw]
  cases nl with
  | false =>
    simp only [Bool.false_eq_true, if_false, normL, norm1, hs, toDocL_append, flush_eq_txt p clsId h0, toDocL, toDoc,
      wsRule_eq p clsId names, List.append_nil]
    simp [pendOf]
  | true =>
    simp only [if_true, normL, norm1, hs, toDocL_append, flush_eq_txt p clsId h0, toDocL, toDoc,
      wsRule_eq p clsId names, List.append_nil]
    simp [pendOf, concatL]

theorem bridge_str (p : PCfg) (f : Fmt) (clsId : SCls → Cls) (hid : ClsIdOK clsId) (names : List PStr) (b : List PStr)
    (hb : ∀ x ∈ b, x ≠ []) (c : SCls) (s : PStr) :
    toDocL clsId (absorb1 p f (ctxOfN p names) b (.str c s)).1 =
        (normL (bcfgOf p clsId) names (pendOf b) (toWDocStr c s)).1 ∧
      pendOf (absorb1 p f (ctxOfN p names) b (.str c s)).2 = (normL (bcfgOf p clsId) names (pendOf b) (toWDocStr c s)).2 ∧
      (∀ x ∈ (absorb1 p f (ctxOfN p names) b (.str c s)).2, x ≠ []) := by
  obtain ⟨h0, h1, h2, h3, h5⟩ := hid
  cases c with
  | comment => exact bridge_special p f clsId h0 names b _ .comment s s .comment false rfl rfl (by simp [specialText, h1])
  | cdata => exact bridge_special p f clsId h0 names b _ .cdata s s .cdata false rfl rfl (by simp [specialText, h2])
  | pi => exact bridge_special p f clsId h0 names b _ .pi s s .pi false rfl rfl (by simp [specialText, h3])
  | xmlpi => exact bridge_special p f clsId h0 names b _ .pi s (s ++ [63]) .pi false rfl rfl (by simp [specialText, h3])
  | declaration => exact bridge_special p f clsId h0 names b _ .pi s (s ++ [63]) .pi false rfl rfl (by simp [specialText, h3])
  | doctype => exact bridge_special p f clsId h0 names b _ .doctype s s .doctype true rfl rfl (by simp [specialText, h5])
  | navigable => exact bridge_text p f clsId names b hb _ s rfl rfl
  | preformatted => exact bridge_text p f clsId names b hb _ s rfl rfl
  | stylesheet => exact bridge_text p f clsId names b hb _ s rfl rfl
  | script => exact bridge_text p f clsId names b hb _ s rfl rfl
  | template => exact bridge_text p f clsId names b hb _ s rfl rfl
  | rubyText => exact bridge_text p f clsId names b hb _ s rfl rfl
  | rubyParen => exact bridge_text p f clsId names b hb _ s rfl rfl

mutual
theorem bridgeL (p : PCfg) (f : Fmt) (clsId : SCls → Cls) (hid : ClsIdOK clsId) : ∀ (ds : List Node) (names : List PStr)
    (b : List PStr), (∀ x ∈ b, x ≠ []) →
    toDocL clsId (absorb p f (ctxOfN p names) b ds).1 = (normL (bcfgOf p clsId) names (pendOf b) (toWDocL f ds)).1 ∧
      pendOf (absorb p f (ctxOfN p names) b ds).2 = (normL (bcfgOf p clsId) names (pendOf b) (toWDocL f ds)).2 ∧
      (∀ x ∈ (absorb p f (ctxOfN p names) b ds).2, x ≠ [])
  | [], _, b, hb => by
    simp only [absorb_nil, toWDocL, normL, toDocL, true_and]; exact hb
  | d :: ds, names, b, hb => by
    obtain ⟨h1, h2, h3⟩ := bridge1 p f clsId hid d names b hb
    obtain ⟨g1, g2, g3⟩ := bridgeL p f clsId hid ds names _ h3
    rw [absorb_cons]
    simp only [toWDocL, normL_append, toDocL_append, h1, ← h2, g1, g2]
    exact ⟨trivial, trivial, g3⟩
theorem bridge1 (p : PCfg) (f : Fmt) (clsId : SCls → Cls) (hid : ClsIdOK clsId) : ∀ (d : Node) (names : List PStr)
    (b : List PStr), (∀ x ∈ b, x ≠ []) →
    toDocL clsId (absorb1 p f (ctxOfN p names) b d).1 = (normL (bcfgOf p clsId) names (pendOf b) (toWDoc f d)).1 ∧
      pendOf (absorb1 p f (ctxOfN p names) b d).2 = (normL (bcfgOf p clsId) names (pendOf b) (toWDoc f d)).2 ∧
      (∀ x ∈ (absorb1 p f (ctxOfN p names) b d).2, x ≠ [])
  | .str c s, names, b, hb => by
    simp only [toWDoc]
    exact bridge_str p f clsId hid names b hb c s
  | .tag i ks, names, b, _ => by
    obtain ⟨k1, k2, _⟩ := bridgeL p f clsId hid ks (fullName i :: names) [] (by simp)
    have hp : pendOf ([] : List PStr) = none := rfl
    rw [hp] at k1 k2
    simp only [absorb1, toWDoc, normL, norm1, toDocL_append, flush_eq_txt p clsId hid.1, toDocL, toDoc, List.append_nil]
    have hc : pushCtx p (ctxOfN p names) (fullName i) = ctxOfN p (fullName i :: names) := rfl
    have hfn : fullName ⟨fullName i, none, normAttrs p f (fullName i) i.attrs, p.isVoid (fullName i), false⟩ = fullName i := by
      simp [fullName, prefixStr]
    rw [hfn, hc, k1, flush_eq_txt p clsId hid.1 (fullName i :: names), k2]
    simp [pendOf]
end

/-- **C04's `normalise` of the written document is this model's normal form** (as trees of the builder model) -/
theorem normalise_bridge (p : PCfg) (f : Fmt) (clsId : SCls → Cls) (hid : ClsIdOK clsId) (ds : List Node) :
    toDocL clsId (normaliseL p f ds) = normalise (bcfgOf p clsId) (toWDocL f ds) := by
  obtain ⟨h1, h2, _⟩ := bridgeL p f clsId hid ds [rootFrame.name] [] (by simp)
  have hp : pendOf ([] : List PStr) = none := rfl
  rw [hp] at h1 h2
  have hc : ctxOf p [rootFrame] = ctxOfN p [rootFrame.name] := rfl
  simp only [normaliseL, normalise, hc, toDocL_append, h1, flush_eq_txt p clsId hid.1, h2]
  rfl

end BS.Render
