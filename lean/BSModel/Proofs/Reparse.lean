import BSModel.Model.Reparse
/-! C05 helper lemmas: the net effect of the events of a rendered forest on bs4's side of the parser. -/
namespace BS.Render

mutual
/-- the part of `representable` the stack-machine proof needs: an element with a void name has no children -/
def voidOk (p : PCfg) : Node → Bool
  | .str _ _ => true
  | .tag i kids => (!p.isVoid (fullName i) || kids.isEmpty) && voidOkL p kids
def voidOkL (p : PCfg) : List Node → Bool
  | [] => true
  | n :: ns => voidOk p n && voidOkL p ns
end

theorem voidOkL_of_text (p : PCfg) : ∀ (ks : List Node), ks.all isTextNode = true → voidOkL p ks = true
  | [], _ => by simp [voidOkL]
  | .str _ _ :: ks, h => by
    simp only [List.all_cons, Bool.and_eq_true] at h
    simp [voidOkL, voidOk, voidOkL_of_text p ks h.2]
  | .tag _ _ :: ks, h => by simp [isTextNode] at h

mutual
theorem representable_voidOk (p : PCfg) (f : Fmt) : ∀ (n : Node), representable p f n = true → voidOk p n = true
  | .str _ _, _ => by simp [voidOk]
  | .tag i kids, h => by
    simp only [representable, Bool.and_eq_true] at h
    simp only [voidOk, Bool.and_eq_true]
    refine ⟨h.1.1.1.1.2, ?_⟩
    have hk := h.2
    split at hk
    · simp only [rawKidsOK, Bool.and_eq_true] at hk
      exact voidOkL_of_text p kids hk.1
    · exact representableL_voidOkL p f kids hk
theorem representableL_voidOkL (p : PCfg) (f : Fmt) : ∀ (ns : List Node), representableL p f ns = true → voidOkL p ns = true
  | [], _ => by simp [voidOkL]
  | n :: ns, h => by
    simp only [representableL, Bool.and_eq_true] at h
    simp only [voidOkL, Bool.and_eq_true]
    exact ⟨representable_voidOk p f n h.1, representableL_voidOkL p f ns h.2⟩
end

theorem run_append (p : PCfg) (st : BState) (a b : List TEv) : run p st (a ++ b) = run p (run p st a) b := by
  simp [run, List.foldl_append]

theorem run_cons (p : PCfg) (st : BState) (e : TEv) (es : List TEv) : run p st (e :: es) = run p (step p st e) es := by
  simp [run]

theorem run_nil (p : PCfg) (st : BState) : run p st [] = st := rfl

theorem ctxOf_kids (p : PCfg) (top : Frame) (ks : List Node) (rest : List Frame) :
    ctxOf p ({ top with kids := ks } :: rest) = ctxOf p (top :: rest) := rfl

theorem flush_eq (p : PCfg) (top : Frame) (rest : List Frame) (b : List PStr) (cl : List PStr) :
    flush p ⟨top :: rest, b, cl⟩ =
      ⟨{ top with kids := top.kids ++ txt p (ctxOf p (top :: rest)) b } :: rest, [], cl⟩ := by
  simp [flush, addKids]

theorem txt_nil (p : PCfg) (ctx : Ctx) : txt p ctx [] = [] := rfl

theorem popTo_top (p : PCfg) (nm : PStr) (at' : List (PStr × AVal)) (ks : List Node) (below : Frame) (rest : List Frame) :
    popTo p nm (⟨nm, at', ks⟩ :: below :: rest) =
      some ({ below with kids := below.kids ++ [closeFrame p ⟨nm, at', ks⟩] } :: rest) := by
  simp [popTo, popToAux, addKids]

/-- `BeautifulSoup.handle_endtag` for the name of the top frame -/
theorem soupEnd_top (p : PCfg) (nm : PStr) (at' : List (PStr × AVal)) (ks : List Node) (below : Frame)
    (rest : List Frame) (b cl : List PStr) :
    soupEnd p nm ⟨⟨nm, at', ks⟩ :: below :: rest, b, cl⟩ =
      ⟨{ below with kids := below.kids ++
          [closeFrame p ⟨nm, at', ks ++ txt p (ctxOf p (⟨nm, at', ks⟩ :: below :: rest)) b⟩] } :: rest, [], cl⟩ := by
  simp only [soupEnd, flush_eq, popTo_top]

/-- start tag of a non-void name: pending text is flushed, a frame is pushed -/
theorem step_start_nonvoid (p : PCfg) (top : Frame) (rest : List Frame) (b cl : List PStr) (nm : PStr)
    (attrs : List (PStr × Option PStr)) (hv : p.isVoid nm = false) :
    step p ⟨top :: rest, b, cl⟩ (.start nm attrs) =
      ⟨⟨nm, buildAttrs p nm attrs, []⟩ :: { top with kids := top.kids ++ txt p (ctxOf p (top :: rest)) b } :: rest, [], cl⟩ := by
  simp only [step, soupStart, flush_eq, hv, Bool.false_eq_true, ↓reduceIte]

/-- end tag matching the top frame while nothing is on the already-closed list -/
theorem step_stop_top (p : PCfg) (nm : PStr) (at' : List (PStr × AVal)) (ks : List Node) (below : Frame)
    (rest : List Frame) (b : List PStr) :
    step p ⟨⟨nm, at', ks⟩ :: below :: rest, b, []⟩ (.stop nm) =
      ⟨{ below with kids := below.kids ++
          [closeFrame p ⟨nm, at', ks ++ txt p (ctxOf p (⟨nm, at', ks⟩ :: below :: rest)) b⟩] } :: rest, [], []⟩ := by
  simp only [step, adapterEnd, List.contains_nil, Bool.and_false, Bool.false_eq_true, ↓reduceIte, soupEnd_top]

/-- `<x/>`: flushed, pushed and popped at once (the already-closed list is empty) -/
theorem step_startend (p : PCfg) (top : Frame) (rest : List Frame) (b : List PStr) (nm : PStr)
    (attrs : List (PStr × Option PStr)) :
    step p ⟨top :: rest, b, []⟩ (.startend nm attrs) =
      ⟨{ top with kids := top.kids ++ txt p (ctxOf p (top :: rest)) b ++
          [closeFrame p ⟨nm, buildAttrs p nm attrs, []⟩] } :: rest, [], []⟩ := by
  simp only [step, adapterEnd, soupStart, flush_eq, List.contains_nil, Bool.and_false, Bool.false_eq_true,
    ↓reduceIte, soupEnd_top, txt_nil, List.append_nil]

/-- `<br></br>`: the start tag of a void name closes the element at once and lists the name, the end tag only
    takes the name off the list -/
theorem step_void_pair (p : PCfg) (top : Frame) (rest : List Frame) (b : List PStr) (nm : PStr)
    (attrs : List (PStr × Option PStr)) (hv : p.isVoid nm = true) :
    step p (step p ⟨top :: rest, b, []⟩ (.start nm attrs)) (.stop nm) =
      ⟨{ top with kids := top.kids ++ txt p (ctxOf p (top :: rest)) b ++
          [closeFrame p ⟨nm, buildAttrs p nm attrs, []⟩] } :: rest, [], []⟩ := by
  have h1 : step p ⟨top :: rest, b, []⟩ (.start nm attrs) =
      ⟨{ top with kids := top.kids ++ txt p (ctxOf p (top :: rest)) b ++
          [closeFrame p ⟨nm, buildAttrs p nm attrs, []⟩] } :: rest, [], [nm]⟩ := by
    simp only [step, soupStart, flush_eq, hv, ↓reduceIte, adapterEnd, Bool.false_and, Bool.false_eq_true,
      soupEnd_top, txt_nil, List.append_nil, List.nil_append]
  rw [h1]
  simp [step, adapterEnd]

mutual
/-- net effect of the events of a rendered forest: the current frame receives what `absorb` says, the pending
    character data is threaded through, and the already-closed list is empty again -/
theorem run_forest (p : PCfg) (f : Fmt) : ∀ (ds : List Node) (top : Frame) (rest : List Frame) (b : List PStr),
    voidOkL p ds = true →
    run p ⟨top :: rest, b, []⟩ (emitRL f ds) =
      ⟨{ top with kids := top.kids ++ (absorb p f (ctxOf p (top :: rest)) b ds).1 } :: rest,
        (absorb p f (ctxOf p (top :: rest)) b ds).2, []⟩
  | [], top, rest, b, _ => by simp [emitRL, run_nil, absorb]
  | d :: ds, top, rest, b, h => by
    simp only [voidOkL, Bool.and_eq_true] at h
    simp only [emitRL, run_append, absorb]
    rw [run_node p f d top rest b h.1, run_forest p f ds _ rest _ h.2]
    simp [ctxOf_kids, List.append_assoc]
theorem run_node (p : PCfg) (f : Fmt) : ∀ (d : Node) (top : Frame) (rest : List Frame) (b : List PStr),
    voidOk p d = true →
    run p ⟨top :: rest, b, []⟩ (emitR f d) =
      ⟨{ top with kids := top.kids ++ (absorb1 p f (ctxOf p (top :: rest)) b d).1 } :: rest,
        (absorb1 p f (ctxOf p (top :: rest)) b d).2, []⟩
  | .str c s, top, rest, b, _ => by
    simp only [emitR, emitStr, absorb1]
    cases hk : strKind c s with
    | text s' =>
      by_cases he : s'.isEmpty = true
      · simp [he, run_nil]
      · simp [he, run, step]
    | special c' s' nl =>
      cases nl
      · simp [run, step, flush_eq, addKids, List.append_assoc, ctxOf]
      · simp [run, step, flush_eq, addKids, List.append_assoc, ctxOf]
  | .tag i ks, top, rest, b, h => by
    simp only [voidOk, Bool.and_eq_true] at h
    simp only [emitR, absorb1]
    by_cases he : (ks.isEmpty && i.cbe) = true
    · -- `<x/>`
      have hks : ks = [] := by
        cases ks with
        | nil => rfl
        | cons a b => simp at he
      subst hks
      simp only [he, if_true, run_cons, run_nil, step_startend]
      simp [absorb, txt_nil, closeFrame, normAttrs, List.append_assoc]
    · simp only [he]
      by_cases hv : p.isVoid (fullName i) = true
      · -- `<br></br>`: no children
        have hks : ks = [] := by
          have := h.1
          simp only [hv, Bool.not_true, Bool.false_or] at this
          cases ks with
          | nil => rfl
          | cons a b => simp at this
        subst hks
        simp only [Bool.false_eq_true, if_false, emitRL, List.nil_append, run_cons, run_nil]
        rw [step_void_pair p top rest b _ _ hv]
        simp [absorb, txt_nil, closeFrame, normAttrs, List.append_assoc]
      · -- `<x> … </x>`
        have hv' : p.isVoid (fullName i) = false := by simpa using hv
        simp only [Bool.false_eq_true, if_false, run_cons, run_append, run_nil]
        rw [step_start_nonvoid p top rest b [] _ _ hv']
        rw [run_forest p f ks _ _ [] h.2]
        rw [step_stop_top]
        simp [closeFrame, normAttrs, ctxOf, List.append_assoc]
end

/-! ### the reader-level stream is the direct one on representable trees -/

/-- what C09 proves of a substitution function and the readers: reading the written form gives the string back -/
def ReaderLaws (rd : Reader) (f : Fmt) : Prop :=
  ∃ g, f.subst = some g ∧ (∀ s, rd.text (g s) = s) ∧ (∀ v, rd.attr (quoteAttr (g v)) = some v)

theorem evAttrsRd_eq (rd : Reader) (f : Fmt) (h : ReaderLaws rd f) (attrs : List (PStr × AVal)) :
    evAttrsRd rd f attrs = evAttrs f attrs := by
  obtain ⟨g, hg, _, ha⟩ := h
  unfold evAttrsRd evAttrs
  apply List.map_congr_left
  intro kv _
  cases hv : kv.2 <;> simp [substitute, hg, ha]

/-- the content of script/style: written as it stands (the writer skips substitution), read as it stands -/
theorem emitRdL_raw (p : PCfg) (rd : Reader) (f : Fmt) (h : ReaderLaws rd f) (nm : PStr)
    (hw : f.cdataTags.contains nm = true) : ∀ (ks : List Node), ks.all isTextNode = true →
    emitRdL p rd f (some nm) true ks = emitRL f ks
  | [], _ => by simp [emitRdL, emitRL]
  | .tag _ _ :: _, hk => by simp [isTextNode] at hk
  | .str c s :: ks, hk => by
    obtain ⟨g, hg, _, _⟩ := h
    simp only [List.all_cons, Bool.and_eq_true, isTextNode] at hk
    have hc : isTextCls c = true := hk.1.1
    have hcp : c ≠ .preformatted := by intro e; subst e; simp [isTextCls] at hc
    have hks : strKind c s = .text s := by cases c <;> simp_all [isTextCls, strKind]
    have hd : readData rd f (some nm) true c s = s := by
      simp only [readData, hcp, if_false, substitute, hg, hw, if_true]
    simp only [emitRdL, emitRL, emitRd, emitR, emitStrRd, emitStr, hks, hd,
      emitRdL_raw p rd f ⟨g, hg, ‹_›, ‹_›⟩ nm hw ks hk.2]

mutual
theorem emitRd_eq (p : PCfg) (rd : Reader) (f : Fmt) (h : ReaderLaws rd f) :
    ∀ (n : Node) (pname : Option PStr), (match pname with | some n => f.cdataTags.contains n | none => false) = false →
      representable p f n = true → emitRd p rd f pname false n = emitR f n
  | .str c s, pname, hw, hr => by
    obtain ⟨g, hg, ht, _⟩ := h
    simp only [emitRd, emitR, emitStrRd, emitStr]
    cases hk : strKind c s with
    | special c' s' nl => rfl
    | text t =>
      have hts : t = s := by
        cases c <;> simp [strKind] at hk <;> exact hk.symm
      subst hts
      have hcp : c ≠ .preformatted := by
        intro hc; subst hc; simp [representable, okStr] at hr
      have hd : readData rd f pname false c t = t := by
        simp only [readData, hcp, if_false]
        cases pname with
        | none => simp [substitute, hg, ht]
        | some n =>
          have : f.cdataTags.contains n = false := hw
          simp only [substitute, hg, this, Bool.false_eq_true, if_false, ht]
      simp [hd]
  | .tag i kids, pname, _, hr => by
    simp only [representable, Bool.and_eq_true, beq_iff_eq] at hr
    simp only [emitRd, emitR, evAttrsRd_eq rd f h]
    have hkids : emitRdL p rd f (some i.name) (p.cdataElems.contains (fullName i)) kids = emitRL f kids := by
      have hk := hr.2
      by_cases hraw : p.cdataElems.contains (fullName i) = true
      · simp only [hraw, if_true, rawKidsOK, Bool.and_eq_true] at hk
        rw [hraw]
        exact emitRdL_raw p rd f h i.name (by rw [hr.1.1.1.2, hraw]) kids hk.1
      · have hraw' : p.cdataElems.contains (fullName i) = false := by simpa using hraw
        simp only [hraw', Bool.false_eq_true, if_false] at hk
        rw [hraw']
        exact emitRdL_eq p rd f h kids (some i.name) (by show f.cdataTags.contains i.name = false; rw [hr.1.1.1.2, hraw']) hk
    rw [hkids]
theorem emitRdL_eq (p : PCfg) (rd : Reader) (f : Fmt) (h : ReaderLaws rd f) :
    ∀ (ns : List Node) (pname : Option PStr), (match pname with | some n => f.cdataTags.contains n | none => false) = false →
      representableL p f ns = true → emitRdL p rd f pname false ns = emitRL f ns
  | [], _, _, _ => by simp [emitRdL, emitRL]
  | n :: ns, pname, hw, hr => by
    simp only [representableL, Bool.and_eq_true] at hr
    simp only [emitRdL, emitRL, emitRd_eq p rd f h n pname hw hr.1, emitRdL_eq p rd f h ns pname hw hr.2]
end

end BS.Render
