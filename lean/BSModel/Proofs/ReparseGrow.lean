import BSModel.Proofs.ReparseIdem
/-! C05 helper lemmas: `DoctypeStable` is also *necessary* for the normal form to be a fixpoint. The total length of
    the character data grows by one for every doctype whose newline is not absorbed (one that stands in a
    preserve-whitespace context or is followed by visible text): the second normalisation is run in lockstep with
    the first as in `reabsorbL`, counting instead of comparing. -/
namespace BS.Render

/-! ### the measure: total length of character data -/

theorem tlenL_append : ∀ (a b : List Node), tlenL (a ++ b) = tlenL a + tlenL b
  | [], b => by simp [tlenL]
  | x :: xs, b => by simp [tlenL, tlenL_append xs b, Nat.add_assoc]

/-- length of the text node `endData` makes of pending data -/
def flen (p : PCfg) (ctx : Ctx) (b : List PStr) : Nat :=
  match b with
  | [] => 0
  | _ :: _ => (wsRule p ctx.pres (concatL b)).length

theorem tlenL_txt (p : PCfg) (ctx : Ctx) (hctx : CtxOK ctx) (b : List PStr) : tlenL (txt p ctx b) = flen p ctx b := by
  cases b with
  | nil => simp [txt, tlenL, flen]
  | cons x xs =>
    have : strKind (ctx.cont.getD .navigable) (wsRule p ctx.pres (concatL (x :: xs))) = .text (wsRule p ctx.pres (concatL (x :: xs))) :=
      strKind_text _ hctx
    simp [txt, tlenL, tlenN, this, flen]

/-! ### counting the doctypes whose newline is not absorbed -/

/-! ### an unstable forest grows -/

theorem owed_pending (p : PCfg) (ctx : Ctx) : ∀ (ds : List Node),
    1 ≤ (growL p ctx true true ds).1 + owed (growL p ctx true true ds).2.1 (growL p ctx true true ds).2.2
  | [] => by simp [growL, owed]
  | .tag i ks :: ns => by simp only [growL, owed]; simp; omega
  | .str c s :: ns => by
    simp only [growL]
    cases hk : strKind c s with
    | text t =>
      simp only
      split
      · exact owed_pending p ctx ns
      · simp only [brkText, Bool.true_or]; exact owed_pending p ctx ns
    | special c' s' nl => simp only [owed]; simp; omega

mutual
theorem grow_unstableL (p : PCfg) : ∀ (ds : List Node) (ctx : Ctx) (after brk : Bool), (brk = true → after = true) →
    dstableL p ctx after ds = false →
    1 ≤ (growL p ctx after brk ds).1 + owed (growL p ctx after brk ds).2.1 (growL p ctx after brk ds).2.2
  | [], _, _, _, _, h => by simp [dstableL] at h
  | n :: ns, ctx, after, brk, hb, h => by
    by_cases hbrk : brk = true
    · have ha := hb hbrk
      subst hbrk ha
      exact owed_pending p ctx (n :: ns)
    · have hbrk' : brk = false := by simpa using hbrk
      subst hbrk'
      simp only [dstableL, Bool.and_eq_false_iff] at h
      cases n with
      | tag i ks =>
        simp only [growL, growN]
        rcases h with (h | h) | h
        · have := grow_unstableL p ks (pushCtx p ctx (fullName i)) false false (by simp) (by simpa [dstableN] using h)
          omega
        · simp [headOK] at h
        · have := grow_unstableL p ns ctx false false (by simp) (by simpa [nextAfter] using h)
          omega
      | str c s =>
        simp only [growL]
        cases hk : strKind c s with
        | text t =>
          simp only
          rcases h with (h | h) | h
          · simp [dstableN] at h
          · -- visible text after a doctype
            simp only [headOK, hk, Bool.or_eq_false_iff, Bool.not_eq_false'] at h
            have hafter : after = true := h.1
            have hsp : isSp p t = false := by simpa [isSp] using h.2
            have hne : t.isEmpty = false := by
              cases t with
              | nil => simp [isSp] at hsp
              | cons a as => rfl
            subst hafter
            simp only [hne, Bool.false_eq_true, if_false, brkText, hsp, Bool.false_or, Bool.true_and, Bool.not_false]
            exact owed_pending p ctx ns
          · have hn : nextAfter after (.str c s) = after := by simp [nextAfter, hk]
            rw [hn] at h
            split
            · exact grow_unstableL p ns ctx after false (by simp) h
            · exact grow_unstableL p ns ctx after (brkText p after false t) (by
                intro hb2; simp only [brkText, Bool.false_or, Bool.and_eq_true] at hb2; exact hb2.1) h
        | special c' s' nl =>
          simp only
          rcases h with (h | h) | h
          · simp [dstableN] at h
          · -- a doctype in a preserve-whitespace context
            simp only [headOK, hk, Bool.or_eq_false_iff, Bool.not_eq_false'] at h
            have hnl : nl = true := h.1
            have hp : ctx.pres = true := h.2
            subst hnl
            simp only [hp, Bool.and_self]
            have := owed_pending p ctx ns
            omega
          · have hn : nextAfter after (.str c s) = nl := by simp [nextAfter, hk]
            rw [hn] at h
            have := grow_unstableL p ns ctx nl (nl && ctx.pres) (by intro hb2; simp only [Bool.and_eq_true] at hb2; exact hb2.1) h
            omega
end

theorem grow_unstable (p : PCfg) (ctx : Ctx) (ds : List Node) (h : dstableL p ctx false ds = false) : 1 ≤ grow p ctx ds :=
  grow_unstableL p ds ctx false false (by simp) h

/-! ### lockstep, counting -/

theorem isSp_append (p : PCfg) (a b : PStr) : isSp p (a ++ b) = (isSp p a && isSp p b) := by simp [isSp]

theorem concatL_snoc : ∀ (b : List PStr) (x : PStr), concatL (b ++ [x]) = concatL b ++ x
  | [], x => by simp [concatL]
  | y :: ys, x => by simp [concatL, concatL_snoc ys x, List.append_assoc]

theorem isSp_concat (p : PCfg) : ∀ (b : List PStr), (∀ x ∈ b, isSp p x = true) → isSp p (concatL b) = true
  | [], _ => by simp [concatL, isSp]
  | x :: xs, h => by
    simp only [concatL, isSp_append, h x (by simp), isSp_concat p xs (fun y hy => h y (by simp [hy])), Bool.and_self]

/-- the whitespace rule leaves a string alone in a preserve-whitespace context or when it has a visible character -/
theorem wsRule_keep (p : PCfg) (pres : Bool) (s : PStr) (h : pres = true ∨ isSp p s = false) : wsRule p pres s = s := by
  unfold wsRule
  rw [if_neg]
  rcases h with h | h
  · simp [h]
  · simp only [isSp] at h
    rw [h]; simp

/-- pending data of the first pass (`b`) and of the second pass (`c`); `brk` = the newline of the pending doctype
    will stay visible -/
def Rel2 (p : PCfg) (ctx : Ctx) (after brk : Bool) (b c : List PStr) : Prop :=
  (∀ x ∈ b, x ≠ []) ∧
  (if after then
     c = [[10]] ∧ ∃ rest, b = [10] :: rest ∧
       (if brk then (ctx.pres = true ∨ isSp p (concatL rest) = false)
        else (ctx.pres = false ∧ ∀ x ∈ rest, isSp p x = true))
   else c = [] ∧ brk = false)

theorem rel2_nil (p : PCfg) (ctx : Ctx) (after brk : Bool) (c : List PStr) (h : Rel2 p ctx after brk [] c) :
    after = false ∧ brk = false ∧ c = [] := by
  cases after with
  | true => have := h.2; simp at this
  | false => have := h.2; simp at this; exact ⟨rfl, this.2, this.1⟩

/-- the text node the first pass flushes, taken up and flushed again by the second pass: one longer if the doctype's
    newline stays visible -/
theorem text_recount (p : PCfg) (f : Fmt) (h10 : p.asciiSpaces.contains 10 = true) (ctx : Ctx) (hctx : CtxOK ctx)
    (after brk : Bool) (b c : List PStr) (hr : Rel2 p ctx after brk b c) (hb : b ≠ []) :
    absorb1 p f ctx c (Node.str (textCls ctx) (wsRule p ctx.pres (concatL b))) =
        ([], c ++ [wsRule p ctx.pres (concatL b)]) ∧
      flen p ctx (c ++ [wsRule p ctx.pres (concatL b)]) = flen p ctx b + owed after brk := by
  have hne : wsRule p ctx.pres (concatL b) ≠ [] := wsRule_ne_nil _ _ _ (concatL_ne_nil b hb hr.1)
  constructor
  · simp only [absorb1, strKind_text _ hctx]
    cases h : wsRule p ctx.pres (concatL b) with
    | nil => exact absurd h hne
    | cons a as => simp
  · cases b with
    | nil => exact absurd rfl hb
    | cons x xs =>
      cases after with
      | false =>
        obtain ⟨hc, hbk⟩ := (by simpa using hr.2 : c = [] ∧ brk = false)
        subst hc hbk
        simp [flen, concatL_singleton, wsRule_idem, owed]
      | true =>
        obtain ⟨hc, rest, hbs, hcase⟩ := (by simpa using hr.2 : c = [[10]] ∧ ∃ rest, x :: xs = [10] :: rest ∧
          (if brk = true then (ctx.pres = true ∨ isSp p (concatL rest) = false)
           else (ctx.pres = false ∧ ∀ y ∈ rest, isSp p y = true)))
        subst hc
        rw [hbs]
        cases brk with
        | false =>
          obtain ⟨hp, hsp⟩ := (by simpa using hcase : ctx.pres = false ∧ ∀ y ∈ rest, isSp p y = true)
          have hall : (concatL rest).all (fun c => p.asciiSpaces.contains c) = true := isSp_concat p rest hsp
          have hcond : (!ctx.pres && (concatL ([10] :: rest)).all (fun c => p.asciiSpaces.contains c)) = true := by
            rw [hp]
            simp only [concatL, List.cons_append, List.nil_append, List.all_cons, h10, hall, Bool.not_false, Bool.and_self]
          have ht : wsRule p ctx.pres (concatL ([10] :: rest)) = [10] := by
            unfold wsRule; rw [if_pos hcond]; simp [concatL]
          have hcond2 : (!ctx.pres && (concatL [[10], [10]]).all (fun c => p.asciiSpaces.contains c)) = true := by
            rw [hp]
            simp only [concatL, List.cons_append, List.nil_append, List.all_cons, List.all_nil, h10, Bool.not_false, Bool.and_self]
          have ht2 : wsRule p ctx.pres (concatL [[10], [10]]) = [10] := by
            unfold wsRule; rw [if_pos hcond2]; simp [concatL]
          simp only [ht, List.cons_append, List.nil_append, flen, ht2, owed]
          simp
        | true =>
          have hcase' : ctx.pres = true ∨ isSp p (concatL rest) = false := by simpa using hcase
          have hk1 : ctx.pres = true ∨ isSp p (concatL ([10] :: rest)) = false := by
            rcases hcase' with h | h
            · exact Or.inl h
            · right; simp only [concatL, isSp_append, h, Bool.and_false]
          have ht : wsRule p ctx.pres (concatL ([10] :: rest)) = concatL ([10] :: rest) := wsRule_keep p _ _ hk1
          have hk2 : ctx.pres = true ∨ isSp p (concatL [[10], concatL ([10] :: rest)]) = false := by
            rcases hk1 with h | h
            · exact Or.inl h
            · right; simp only [concatL, isSp_append, List.append_nil] at h ⊢; simp [h]
          have ht2 := wsRule_keep p _ _ hk2
          simp only [ht, List.cons_append, List.nil_append, flen, ht2, owed]
          simp [concatL]

/-- the closing step -/
theorem close_count (p : PCfg) (f : Fmt) (h10 : p.asciiSpaces.contains 10 = true) (ctx : Ctx) (hctx : CtxOK ctx)
    (after brk : Bool) (b c : List PStr) (hr : Rel2 p ctx after brk b c) :
    tlenL (absorb p f ctx c (txt p ctx b)).1 + flen p ctx (absorb p f ctx c (txt p ctx b)).2 =
      flen p ctx b + owed after brk := by
  cases b with
  | nil =>
    obtain ⟨ha, hbk, hc⟩ := rel2_nil p ctx after brk c hr
    subst ha hbk hc
    simp [txt, absorb_nil, tlenL, flen, owed]
  | cons x xs =>
    obtain ⟨h1, h2⟩ := text_recount p f h10 ctx hctx after brk (x :: xs) c hr (by simp)
    have ht : txt p ctx (x :: xs) = [Node.str (textCls ctx) (wsRule p ctx.pres (concatL (x :: xs)))] := by
      simp [txt, textCls]
    rw [ht, absorb_cons, h1, absorb_nil]
    simp only [List.nil_append, tlenL, Nat.zero_add, h2]

theorem growL_cons (p : PCfg) (ctx : Ctx) (after brk : Bool) (n : Node) (ns : List Node) :
    growL p ctx after brk (n :: ns) =
      ((growL p ctx after brk [n]).1 + (growL p ctx (growL p ctx after brk [n]).2.1 (growL p ctx after brk [n]).2.2 ns).1,
       (growL p ctx (growL p ctx after brk [n]).2.1 (growL p ctx after brk [n]).2.2 ns).2) := by
  cases n with
  | tag i ks => simp [growL]
  | str c s =>
    simp only [growL]
    cases strKind c s with
    | text t => simp only; split <;> simp [growL]
    | special c' s' nl => simp [growL]

/-- pending text flushed by a node that is not text: what the second pass produces, counted -/
theorem flush_node (p : PCfg) (f : Fmt) (h10 : p.asciiSpaces.contains 10 = true) (ctx : Ctx) (hctx : CtxOK ctx)
    (after brk : Bool) (b c : List PStr) (hr : Rel2 p ctx after brk b c) (X X' : Node) (bx : List PStr)
    (hX : ∀ c2, absorb1 p f ctx c2 X = (txt p ctx c2 ++ [X'], bx)) :
    (absorb p f ctx c (txt p ctx b ++ [X])).2 = bx ∧
      tlenL (absorb p f ctx c (txt p ctx b ++ [X])).1 = flen p ctx b + owed after brk + tlenN X' := by
  cases b with
  | nil =>
    obtain ⟨ha, hbk, hc⟩ := rel2_nil p ctx after brk c hr
    subst ha hbk hc
    have e : txt p ctx [] = [] := rfl
    rw [e]
    simp only [List.nil_append, absorb_cons, absorb_nil, hX, e, List.append_nil, tlenL, flen, owed]
    simp
  | cons x xs =>
    obtain ⟨h1, h2⟩ := text_recount p f h10 ctx hctx after brk (x :: xs) c hr (by simp)
    have ht : txt p ctx (x :: xs) = [Node.str (textCls ctx) (wsRule p ctx.pres (concatL (x :: xs)))] := by
      simp [txt, textCls]
    rw [ht]
    simp only [List.singleton_append, absorb_cons, h1, absorb_nil, hX, List.nil_append, List.append_nil,
      tlenL_append, tlenL_txt p ctx hctx, h2, tlenL, Nat.add_zero]
    simp

mutual
theorem countL (p : PCfg) (f : Fmt) (hc : contOK p = true) (h10 : p.asciiSpaces.contains 10 = true) :
    ∀ (ds : List Node) (ctx : Ctx) (after brk : Bool) (b c : List PStr), CtxOK ctx → Rel2 p ctx after brk b c →
      tlenL (absorb p f ctx c (absorb p f ctx b ds).1).1 = tlenL (absorb p f ctx b ds).1 + (growL p ctx after brk ds).1 ∧
      Rel2 p ctx (growL p ctx after brk ds).2.1 (growL p ctx after brk ds).2.2 (absorb p f ctx b ds).2
        (absorb p f ctx c (absorb p f ctx b ds).1).2
  | [], ctx, after, brk, b, c, _, hr => by simpa [absorb_nil, growL, tlenL] using hr
  | d :: ds, ctx, after, brk, b, c, hctx, hr => by
    obtain ⟨h1, r1⟩ := count1 p f hc h10 d ctx after brk b c hctx hr
    obtain ⟨h2, r2⟩ := countL p f hc h10 ds ctx _ _ _ _ hctx r1
    rw [growL_cons, absorb_cons]
    simp only [absorb_append, tlenL_append]
    refine ⟨?_, r2⟩
    rw [h1, h2]; omega
theorem count1 (p : PCfg) (f : Fmt) (hc : contOK p = true) (h10 : p.asciiSpaces.contains 10 = true) :
    ∀ (d : Node) (ctx : Ctx) (after brk : Bool) (b c : List PStr), CtxOK ctx → Rel2 p ctx after brk b c →
      tlenL (absorb p f ctx c (absorb1 p f ctx b d).1).1 = tlenL (absorb1 p f ctx b d).1 + (growL p ctx after brk [d]).1 ∧
      Rel2 p ctx (growL p ctx after brk [d]).2.1 (growL p ctx after brk [d]).2.2 (absorb1 p f ctx b d).2
        (absorb p f ctx c (absorb1 p f ctx b d).1).2
  | .str k s, ctx, after, brk, b, c, hctx, hr => by
    simp only [absorb1, growL]
    cases hk : strKind k s with
    | text t =>
      simp only [absorb_nil, tlenL, Nat.zero_add]
      by_cases he : t.isEmpty = true
      · simpa [he, growL] using hr
      · simp only [he, Bool.false_eq_true, if_false, growL]
        refine ⟨by first | trivial | rfl, ?_, ?_⟩
        · intro x hx
          simp only [List.mem_append, List.mem_singleton] at hx
          rcases hx with hx | hx
          · exact hr.1 x hx
          · subst hx; intro h0; simp [h0] at he
        · cases after with
          | false =>
            obtain ⟨hc0, hbk⟩ := (by simpa using hr.2 : c = [] ∧ brk = false)
            simp [brkText, hc0, hbk]
          | true =>
            obtain ⟨hc0, rest, hbs, hcase⟩ := (by simpa using hr.2 : c = [[10]] ∧ ∃ rest, b = [10] :: rest ∧
              (if brk = true then (ctx.pres = true ∨ isSp p (concatL rest) = false)
               else (ctx.pres = false ∧ ∀ y ∈ rest, isSp p y = true)))
            simp only [if_true]
            refine ⟨hc0, rest ++ [t], by simp [hbs], ?_⟩
            cases brk with
            | true =>
              have hcase' : ctx.pres = true ∨ isSp p (concatL rest) = false := by simpa using hcase
              simp only [brkText, Bool.true_or, if_true]
              rcases hcase' with h | h
              · exact Or.inl h
              · right; simp [concatL_snoc, isSp_append, h]
            | false =>
              obtain ⟨hp, hsp⟩ := (by simpa using hcase : ctx.pres = false ∧ ∀ y ∈ rest, isSp p y = true)
              cases hst : isSp p t with
              | true =>
                simp only [brkText, hst, Bool.false_or, Bool.true_and, Bool.not_true, Bool.false_eq_true, if_false]
                refine ⟨hp, ?_⟩
                intro y hy
                simp only [List.mem_append, List.mem_singleton] at hy
                rcases hy with hy | hy
                · exact hsp y hy
                · subst hy; exact hst
              | false =>
                simp only [brkText, hst, Bool.false_or, Bool.true_and, Bool.not_false, if_true]
                right; simp [concatL_snoc, isSp_append, hst]
    | special k' s' nl =>
      have hfix := strKind_special_fix hk (wsRule p ctx.pres s')
      have hX : ∀ c2, absorb1 p f ctx c2 (Node.str k' (wsRule p ctx.pres s')) =
          (txt p ctx c2 ++ [Node.str k' (wsRule p ctx.pres s')], if nl = true then [[10]] else []) := by
        intro c2; simp only [absorb1, hfix, wsRule_idem]
      obtain ⟨g1, g2⟩ := flush_node p f h10 ctx hctx after brk b c hr _ _ _ hX
      have hz : tlenN (Node.str k' (wsRule p ctx.pres s')) = 0 := by simp [tlenN, hfix]
      refine ⟨?_, ?_⟩
      · rw [g2, hz]
        simp only [tlenL_append, tlenL_txt p ctx hctx, tlenL, hz, growL]
        omega
      · rw [g1]
        simp only [growL]
        cases nl with
        | false => simp [Rel2]
        | true =>
          refine ⟨by simp, ?_⟩
          rw [if_pos rfl]
          refine ⟨rfl, [], rfl, ?_⟩
          cases hp : ctx.pres <;> simp [concatL, isSp]
  | .tag i ks, ctx, after, brk, b, c, hctx, hr => by
    have hctx' := ctxOK_push p hc ctx hctx (fullName i)
    -- the children: second normalisation of the normalised children, counted
    obtain ⟨hk1, hk2⟩ := countL p f hc h10 ks (pushCtx p ctx (fullName i)) false false [] [] hctx' (by simp [Rel2])
    have hcl := close_count p f h10 _ hctx' _ _ _ _ hk2
    have hfn : fullName ⟨fullName i, none, normAttrs p f (fullName i) i.attrs, p.isVoid (fullName i), false⟩ = fullName i := by
      simp [fullName, prefixStr]
    have hX : ∀ c2, absorb1 p f ctx c2 (Node.tag ⟨fullName i, none, normAttrs p f (fullName i) i.attrs, p.isVoid (fullName i), false⟩
          ((absorb p f (pushCtx p ctx (fullName i)) [] ks).1 ++ txt p (pushCtx p ctx (fullName i)) (absorb p f (pushCtx p ctx (fullName i)) [] ks).2)) =
        (txt p ctx c2 ++ [Node.tag ⟨fullName i, none, normAttrs p f (fullName i) (normAttrs p f (fullName i) i.attrs), p.isVoid (fullName i), false⟩
          ((absorb p f (pushCtx p ctx (fullName i)) [] ((absorb p f (pushCtx p ctx (fullName i)) [] ks).1 ++
              txt p (pushCtx p ctx (fullName i)) (absorb p f (pushCtx p ctx (fullName i)) [] ks).2)).1 ++
            txt p (pushCtx p ctx (fullName i)) (absorb p f (pushCtx p ctx (fullName i)) [] ((absorb p f (pushCtx p ctx (fullName i)) [] ks).1 ++
              txt p (pushCtx p ctx (fullName i)) (absorb p f (pushCtx p ctx (fullName i)) [] ks).2)).2)], []) := by
      intro c2; simp only [absorb1, hfn]
    simp only [absorb1]
    obtain ⟨g1, g2⟩ := flush_node p f h10 ctx hctx after brk b c hr _ _ _ hX
    refine ⟨?_, ?_⟩
    · rw [g2]
      simp only [tlenL_append, tlenL_txt p ctx hctx, tlenL, tlenN, tlenL_txt p _ hctx', growL, growN, Nat.add_zero]
      rw [absorb_append]
      simp only [tlenL_append]
      omega
    · rw [g1]; simp [growL, Rel2]
end

/-- **the length of the character data after a second normalisation**: it grows by exactly the number of doctypes whose
    newline is not absorbed -/
theorem tlen_second (p : PCfg) (f : Fmt) (hc : contOK p = true) (h10 : p.asciiSpaces.contains 10 = true) (ds : List Node) :
    tlenL (normaliseL p f (normaliseL p f ds)) = tlenL (normaliseL p f ds) + grow p (ctxOf p [rootFrame]) ds := by
  have hctx := ctxOK_root p hc
  obtain ⟨h1, h2⟩ := countL p f hc h10 ds (ctxOf p [rootFrame]) false false [] [] hctx (by simp [Rel2])
  have hcl := close_count p f h10 _ hctx _ _ _ _ h2
  simp only [normaliseL, grow]
  rw [absorb_append]
  simp only [tlenL_append, tlenL_txt p _ hctx]
  omega

/-- **`DoctypeStable` is necessary**: a forest that is not doctype-stable is not a fixpoint of the second normalisation -/
theorem normaliseL_not_idem (p : PCfg) (f : Fmt) (hc : contOK p = true) (h10 : p.asciiSpaces.contains 10 = true)
    (ds : List Node) (hs : dstableL p (ctxOf p [rootFrame]) false ds = false) :
    normaliseL p f (normaliseL p f ds) ≠ normaliseL p f ds := by
  intro h
  have h1 := tlen_second p f hc h10 ds
  have h2 := grow_unstable p _ ds hs
  rw [h] at h1
  omega

end BS.Render
