import BSModel.Model.Reparse
import BSModel.Proofs.AttrsIdem
/-! C05 helper lemmas: the normal form `normaliseL` is idempotent ("a second round trip changes nothing") for every
    forest in which no doctype is followed by visible text or stands in a preserve-whitespace context.

    Method: run the second normalisation in lockstep with the first. After any prefix of the forest the first pass
    holds pending character data `b`, the second pass (fed the output of the first) holds `c`; the relation `Rel`
    says `c` is empty, or it is the newline a doctype left behind while `b` is that newline plus whitespace. -/
namespace BS.Render

/-! ### small facts -/

theorem wsRule_idem (p : PCfg) (pres : Bool) (s : PStr) : wsRule p pres (wsRule p pres s) = wsRule p pres s := by
  have h1 : wsRule p pres [10] = [10] := by
    unfold wsRule; cases pres <;> simp
  have h2 : wsRule p pres [32] = [32] := by
    unfold wsRule; cases pres <;> simp
  by_cases hc : (!pres && s.all fun c => p.asciiSpaces.contains c) = true
  · have hs : wsRule p pres s = if s.contains 10 then [10] else [32] := by
      unfold wsRule; rw [if_pos hc]
    rw [hs]
    split
    · exact h1
    · exact h2
  · have hs : wsRule p pres s = s := by
      unfold wsRule; rw [if_neg hc]
    rw [hs, hs]

theorem wsRule_ne_nil (p : PCfg) (pres : Bool) (s : PStr) (h : s ≠ []) : wsRule p pres s ≠ [] := by
  unfold wsRule
  split
  · split <;> simp
  · exact h

theorem concatL_singleton (t : PStr) : concatL [t] = t := by simp [concatL]

theorem concatL_ne_nil : ∀ (b : List PStr), b ≠ [] → (∀ x ∈ b, x ≠ []) → concatL b ≠ []
  | [], h, _ => absurd rfl h
  | x :: xs, _, hx => by
    have : x ≠ [] := hx x (by simp)
    cases x with
    | nil => exact absurd rfl this
    | cons a as => simp [concatL]

theorem concatL_all (q : Nat → Bool) : ∀ (b : List PStr), (∀ x ∈ b, x.all q = true) → (concatL b).all q = true
  | [], _ => by simp [concatL]
  | x :: xs, h => by
    have h1 := h x (by simp)
    have h2 := concatL_all q xs (fun y hy => h y (by simp [hy]))
    simp only [concatL, List.all_append, h1, h2, Bool.and_self]

theorem strKind_text {c : SCls} (s : PStr) (h : isTextCls c = true) : strKind c s = .text s := by
  cases c <;> simp_all [isTextCls, strKind]

/-- the class a special string comes back with is stable: read again it is the same kind of special string -/
theorem strKind_special_fix {c c' : SCls} {s s' : PStr} {nl : Bool} (h : strKind c s = .special c' s' nl) (x : PStr) :
    strKind c' x = .special c' x nl := by
  cases c <;> simp only [strKind, SK.special.injEq, reduceCtorEq] at h <;> obtain ⟨rfl, _, rfl⟩ := h <;> rfl

/-- every string container class of the configuration is a text class (rendered as substituted character data) -/
def contOK (p : PCfg) : Bool := p.containers.all fun kv => isTextCls kv.2

/-- the class `endData(None)` gives to character data in this context -/
def textCls (ctx : Ctx) : SCls := ctx.cont.getD .navigable

def CtxOK (ctx : Ctx) : Prop := isTextCls (textCls ctx) = true

theorem lookupL_mem {β} : ∀ (l : List (PStr × β)) (k : PStr) (v : β), lookupL l k = some v → (k, v) ∈ l
  | [], _, _, h => by simp [lookupL] at h
  | (a, b) :: rest, k, v, h => by
    simp only [lookupL] at h
    split at h
    · rename_i hak
      cases h; subst hak; simp
    · have := lookupL_mem rest k v h
      simp [this]

theorem ctxOK_push (p : PCfg) (hc : contOK p = true) (ctx : Ctx) (h : CtxOK ctx) (nm : PStr) : CtxOK (pushCtx p ctx nm) := by
  unfold CtxOK textCls pushCtx
  cases hl : lookupL p.containers nm with
  | none => simpa [CtxOK, textCls] using h
  | some k =>
    have hm := lookupL_mem _ _ _ hl
    have := (List.all_eq_true.mp hc) (nm, k) hm
    simpa using this

theorem ctxOK_root (p : PCfg) (hc : contOK p = true) : CtxOK (ctxOf p [rootFrame]) := by
  have : CtxOK (⟨false, none⟩ : Ctx) := by simp [CtxOK, textCls, isTextCls]
  exact ctxOK_push p hc _ this _

/-! ### the hypotheses on a forest -/

mutual
/-- the attribute normalisation is idempotent at every element of the forest (decidable; proved for all attribute
    lists separately) -/
def attrStableN (p : PCfg) (f : Fmt) : Node → Bool
  | .tag i ks =>
    (normAttrs p f (fullName i) (normAttrs p f (fullName i) i.attrs) == normAttrs p f (fullName i) i.attrs)
      && attrStableL p f ks
  | .str _ _ => true
def attrStableL (p : PCfg) (f : Fmt) : List Node → Bool
  | [] => true
  | n :: ns => attrStableN p f n && attrStableL p f ns
end

/-! ### lockstep -/


/-- pending data of the first pass (`b`) and of the second pass (`c`) -/
def Rel (p : PCfg) (ctx : Ctx) (after : Bool) (b c : List PStr) : Prop :=
  (∀ x ∈ b, x ≠ []) ∧
  (if after then c = [[10]] ∧ ctx.pres = false ∧ ∃ sp, b = [10] :: sp ∧ ∀ x ∈ sp, isSp p x = true else c = [])

theorem absorb_nil (p : PCfg) (f : Fmt) (ctx : Ctx) (b : List PStr) : absorb p f ctx b [] = ([], b) := by simp [absorb]

theorem absorb_cons (p : PCfg) (f : Fmt) (ctx : Ctx) (b : List PStr) (d : Node) (ds : List Node) :
    absorb p f ctx b (d :: ds) =
      ((absorb1 p f ctx b d).1 ++ (absorb p f ctx (absorb1 p f ctx b d).2 ds).1, (absorb p f ctx (absorb1 p f ctx b d).2 ds).2) := by
  simp [absorb]

theorem absorb_append (p : PCfg) (f : Fmt) (ctx : Ctx) : ∀ (xs ys : List Node) (b : List PStr),
    absorb p f ctx b (xs ++ ys) =
      ((absorb p f ctx b xs).1 ++ (absorb p f ctx (absorb p f ctx b xs).2 ys).1, (absorb p f ctx (absorb p f ctx b xs).2 ys).2)
  | [], ys, b => by simp [absorb_nil]
  | x :: xs, ys, b => by
    simp only [List.cons_append, absorb_cons, absorb_append p f ctx xs ys, List.append_assoc]

/-- the text node the first pass makes of its pending data is taken up unchanged by the second pass -/
theorem text_reabsorb (p : PCfg) (f : Fmt) (h10 : p.asciiSpaces.contains 10 = true) (ctx : Ctx) (hctx : CtxOK ctx)
    (after : Bool) (b c : List PStr) (hr : Rel p ctx after b c) (hb : b ≠ []) :
    absorb1 p f ctx c (Node.str (textCls ctx) (wsRule p ctx.pres (concatL b))) =
        ([], c ++ [wsRule p ctx.pres (concatL b)]) ∧
      txt p ctx (c ++ [wsRule p ctx.pres (concatL b)]) = txt p ctx b := by
  have hne : wsRule p ctx.pres (concatL b) ≠ [] := wsRule_ne_nil _ _ _ (concatL_ne_nil b hb hr.1)
  constructor
  · simp only [absorb1, strKind_text _ hctx]
    cases h : wsRule p ctx.pres (concatL b) with
    | nil => exact absurd h hne
    | cons a as => simp
  · cases after with
    | false =>
      have hc : c = [] := by simpa using hr.2
      subst hc
      cases b with
      | nil => exact absurd rfl hb
      | cons x xs => simp [txt, concatL_singleton, wsRule_idem, textCls]
    | true =>
      obtain ⟨hc, hp, sp, hbs, hsp⟩ := (by simpa using hr.2 : c = [[10]] ∧ ctx.pres = false ∧ ∃ sp, b = [10] :: sp ∧ ∀ x ∈ sp, isSp p x = true)
      subst hc hbs
      have hall : (concatL sp).all (fun c => p.asciiSpaces.contains c) = true := concatL_all _ sp hsp
      have hcond : (!ctx.pres && (concatL ([10] :: sp)).all (fun c => p.asciiSpaces.contains c)) = true := by
        rw [hp]
        simp only [concatL, List.cons_append, List.nil_append, List.all_cons, h10, hall, Bool.not_false, Bool.and_self]
      have ht : wsRule p ctx.pres (concatL ([10] :: sp)) = [10] := by
        unfold wsRule; rw [if_pos hcond]; simp [concatL]
      have hcond2 : (!ctx.pres && (concatL [[10], [10]]).all (fun c => p.asciiSpaces.contains c)) = true := by
        rw [hp]
        simp only [concatL, List.cons_append, List.nil_append, List.all_cons, List.all_nil, h10, Bool.not_false, Bool.and_self]
      have ht2 : wsRule p ctx.pres (concatL [[10], [10]]) = [10] := by
        unfold wsRule; rw [if_pos hcond2]; simp [concatL]
      rw [ht]
      simp only [List.cons_append, List.nil_append, txt, ht2, ht]

/-- the closing step: what the second pass does with the text node the first pass ends on -/
theorem close_fix (p : PCfg) (f : Fmt) (h10 : p.asciiSpaces.contains 10 = true) (ctx : Ctx) (hctx : CtxOK ctx)
    (after : Bool) (b c : List PStr) (hr : Rel p ctx after b c) :
    (absorb p f ctx c (txt p ctx b)).1 ++ txt p ctx (absorb p f ctx c (txt p ctx b)).2 = txt p ctx b := by
  cases b with
  | nil =>
    have hc : c = [] := by
      cases after with
      | false => simpa using hr.2
      | true =>
        have := hr.2
        simp at this
    subst hc
    simp [txt, absorb_nil]
  | cons x xs =>
    obtain ⟨h1, h2⟩ := text_reabsorb p f h10 ctx hctx after (x :: xs) c hr (by simp)
    have ht : txt p ctx (x :: xs) = [Node.str (textCls ctx) (wsRule p ctx.pres (concatL (x :: xs)))] := by
      simp [txt, textCls]
    rw [ht, absorb_cons, h1, absorb_nil]
    simp only [List.nil_append]
    rw [h2, ht]

mutual
theorem reabsorbL (p : PCfg) (f : Fmt) (hc : contOK p = true) (h10 : p.asciiSpaces.contains 10 = true) :
    ∀ (ds : List Node) (ctx : Ctx) (after : Bool) (b c : List PStr), CtxOK ctx → Rel p ctx after b c →
      dstableL p ctx after ds = true → attrStableL p f ds = true →
      ∃ after' c', absorb p f ctx c (absorb p f ctx b ds).1 = ((absorb p f ctx b ds).1, c') ∧
        Rel p ctx after' (absorb p f ctx b ds).2 c'
  | [], ctx, after, b, c, _, hr, _, _ => ⟨after, c, by simp [absorb_nil], by simpa [absorb_nil] using hr⟩
  | d :: ds, ctx, after, b, c, hctx, hr, hs, ha => by
    simp only [dstableL, Bool.and_eq_true] at hs
    simp only [attrStableL, Bool.and_eq_true] at ha
    obtain ⟨c1, h1, r1⟩ := reabsorb1 p f hc h10 d ctx after b c hctx hr hs.1.1 hs.1.2 ha.1
    obtain ⟨after2, c2, h2, r2⟩ := reabsorbL p f hc h10 ds ctx (nextAfter after d) _ c1 hctx r1 hs.2 ha.2
    refine ⟨after2, c2, ?_, ?_⟩
    · rw [absorb_cons, absorb_append, h1]
      simp only [h2]
    · rw [absorb_cons]; exact r2
theorem reabsorb1 (p : PCfg) (f : Fmt) (hc : contOK p = true) (h10 : p.asciiSpaces.contains 10 = true) :
    ∀ (d : Node) (ctx : Ctx) (after : Bool) (b c : List PStr), CtxOK ctx → Rel p ctx after b c →
      dstableN p ctx d = true → headOK p ctx after d = true → attrStableN p f d = true →
      ∃ c', absorb p f ctx c (absorb1 p f ctx b d).1 = ((absorb1 p f ctx b d).1, c') ∧
        Rel p ctx (nextAfter after d) (absorb1 p f ctx b d).2 c'
  | .str k s, ctx, after, b, c, hctx, hr, _, hh, _ => by
    simp only [absorb1, nextAfter, headOK] at hh ⊢
    cases hk : strKind k s with
    | text t =>
      simp only [hk] at hh ⊢
      refine ⟨c, by simp [absorb_nil], ?_⟩
      by_cases he : t.isEmpty = true
      · simpa [he] using hr
      · simp only [he, Bool.false_eq_true, if_false]
        refine ⟨?_, ?_⟩
        · intro x hx
          simp only [List.mem_append, List.mem_singleton] at hx
          rcases hx with hx | hx
          · exact hr.1 x hx
          · subst hx; intro h0; simp [h0] at he
        · cases after with
          | false => simpa using hr.2
          | true =>
            obtain ⟨hc', hp, sp, hbs, hsp⟩ := (by simpa using hr.2 : c = [[10]] ∧ ctx.pres = false ∧ ∃ sp, b = [10] :: sp ∧ ∀ x ∈ sp, isSp p x = true)
            simp only [if_true]
            refine ⟨hc', hp, sp ++ [t], by simp [hbs], ?_⟩
            intro x hx
            simp only [List.mem_append, List.mem_singleton] at hx
            rcases hx with hx | hx
            · exact hsp x hx
            · subst hx; simpa [isSp] using hh
    | special k' s' nl =>
      simp only [hk] at hh ⊢
      have hfix := strKind_special_fix hk (wsRule p ctx.pres s')
      -- the pending data of both passes after this node
      have hrel : Rel p ctx nl (if nl = true then [[10]] else []) (if nl = true then [[10]] else []) := by
        cases nl with
        | false => simp [Rel]
        | true =>
          have hp : ctx.pres = false := by simpa using hh
          refine ⟨by simp, ?_⟩
          rw [if_pos rfl]
          exact ⟨rfl, hp, [], rfl, by simp⟩
      refine ⟨if nl = true then [[10]] else [], ?_, hrel⟩
      cases b with
      | nil =>
        have hc0 : c = [] := by
          cases after with
          | false => simpa using hr.2
          | true => have := hr.2; simp at this
        subst hc0
        have e : txt p ctx [] = [] := rfl
        rw [e]
        simp only [List.nil_append, absorb_cons, absorb_nil, absorb1, hfix, wsRule_idem, e, List.append_nil]
      | cons x xs =>
        obtain ⟨t1, t2⟩ := text_reabsorb p f h10 ctx hctx after (x :: xs) c hr (by simp)
        have ht : txt p ctx (x :: xs) = [Node.str (textCls ctx) (wsRule p ctx.pres (concatL (x :: xs)))] := by
          simp [txt, textCls]
        rw [ht]
        simp only [List.singleton_append, absorb_cons, t1, absorb_nil]
        simp only [absorb1, hfix, t2, ht, wsRule_idem]
        simp
  | .tag i ks, ctx, after, b, c, hctx, hr, hs, _, ha => by
    simp only [dstableN] at hs
    simp only [attrStableN, Bool.and_eq_true, beq_iff_eq] at ha
    simp only [absorb1, nextAfter]
    have hctx' := ctxOK_push p hc ctx hctx (fullName i)
    -- the children: second normalisation of the normalised children
    obtain ⟨after', c', hk1, hk2⟩ := reabsorbL p f hc h10 ks (pushCtx p ctx (fullName i)) false [] [] hctx'
      (by simp [Rel]) hs ha.2
    have hkids : (absorb p f (pushCtx p ctx (fullName i)) []
          ((absorb p f (pushCtx p ctx (fullName i)) [] ks).1 ++
            txt p (pushCtx p ctx (fullName i)) (absorb p f (pushCtx p ctx (fullName i)) [] ks).2)).1 ++
        txt p (pushCtx p ctx (fullName i)) (absorb p f (pushCtx p ctx (fullName i)) []
          ((absorb p f (pushCtx p ctx (fullName i)) [] ks).1 ++
            txt p (pushCtx p ctx (fullName i)) (absorb p f (pushCtx p ctx (fullName i)) [] ks).2)).2 =
        (absorb p f (pushCtx p ctx (fullName i)) [] ks).1 ++
          txt p (pushCtx p ctx (fullName i)) (absorb p f (pushCtx p ctx (fullName i)) [] ks).2 := by
      rw [absorb_append, hk1]
      simp only [List.append_assoc]
      rw [close_fix p f h10 _ hctx' after' _ c' hk2]
    -- the element itself, read again
    have hself : ∀ (c2 : List PStr),
        absorb1 p f ctx c2 (Node.tag ⟨fullName i, none, normAttrs p f (fullName i) i.attrs, p.isVoid (fullName i), false⟩
          ((absorb p f (pushCtx p ctx (fullName i)) [] ks).1 ++
            txt p (pushCtx p ctx (fullName i)) (absorb p f (pushCtx p ctx (fullName i)) [] ks).2)) =
        (txt p ctx c2 ++ [Node.tag ⟨fullName i, none, normAttrs p f (fullName i) i.attrs, p.isVoid (fullName i), false⟩
          ((absorb p f (pushCtx p ctx (fullName i)) [] ks).1 ++
            txt p (pushCtx p ctx (fullName i)) (absorb p f (pushCtx p ctx (fullName i)) [] ks).2)], []) := by
      intro c2
      have hfn : fullName ⟨fullName i, none, normAttrs p f (fullName i) i.attrs, p.isVoid (fullName i), false⟩ = fullName i := by
        simp [fullName, prefixStr]
      simp only [absorb1, hfn, hkids, ha.1]
    refine ⟨[], ?_, by simp [Rel]⟩
    cases b with
    | nil =>
      have hc0 : c = [] := by
        cases after with
        | false => simpa using hr.2
        | true => have := hr.2; simp at this
      subst hc0
      have e : txt p ctx [] = [] := rfl
      rw [e]
      simp only [List.nil_append, absorb_cons, absorb_nil, hself, e, List.append_nil]
    | cons x xs =>
      obtain ⟨t1, t2⟩ := text_reabsorb p f h10 ctx hctx after (x :: xs) c hr (by simp)
      have ht : txt p ctx (x :: xs) = [Node.str (textCls ctx) (wsRule p ctx.pres (concatL (x :: xs)))] := by
        simp [txt, textCls]
      rw [ht]
      simp only [List.singleton_append, absorb_cons, t1, absorb_nil, hself, t2, ht]
      simp
end

/-- **Idempotence of the normal form.** -/
theorem normaliseL_idem (p : PCfg) (f : Fmt) (hc : contOK p = true) (h10 : p.asciiSpaces.contains 10 = true)
    (ds : List Node) (hs : dstableL p (ctxOf p [rootFrame]) false ds = true) (ha : attrStableL p f ds = true) :
    normaliseL p f (normaliseL p f ds) = normaliseL p f ds := by
  have hctx := ctxOK_root p hc
  obtain ⟨after', c', h1, h2⟩ := reabsorbL p f hc h10 ds (ctxOf p [rootFrame]) false [] [] hctx (by simp [Rel]) hs ha
  simp only [normaliseL]
  rw [absorb_append, h1]
  simp only [List.append_assoc]
  rw [close_fix p f h10 _ hctx after' _ c' h2]

mutual
theorem attrStableN_all (p : PCfg) (f : Fmt) (h32 : p.reSpace.contains 32 = true) : ∀ (n : Node), attrStableN p f n = true
  | .str _ _ => rfl
  | .tag i ks => by
    simp only [attrStableN, Bool.and_eq_true, beq_iff_eq]
    exact ⟨normAttrs_idem p h32 f _ _, attrStableL_all p f h32 ks⟩
theorem attrStableL_all (p : PCfg) (f : Fmt) (h32 : p.reSpace.contains 32 = true) : ∀ (ns : List Node), attrStableL p f ns = true
  | [] => rfl
  | n :: ns => by
    simp only [attrStableL, Bool.and_eq_true]
    exact ⟨attrStableN_all p f h32 n, attrStableL_all p f h32 ns⟩
end

/-- **Idempotence of the normal form**, no hypothesis on the attributes -/
theorem normaliseL_idem_all (p : PCfg) (f : Fmt) (hc : contOK p = true) (h10 : p.asciiSpaces.contains 10 = true)
    (h32 : p.reSpace.contains 32 = true) (ds : List Node) (hs : dstableL p (ctxOf p [rootFrame]) false ds = true) :
    normaliseL p f (normaliseL p f ds) = normaliseL p f ds :=
  normaliseL_idem p f hc h10 ds hs (attrStableL_all p f h32 ds)

end BS.Render
