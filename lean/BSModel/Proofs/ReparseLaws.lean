import BSModel.Proofs.ReparseIdem
/-! C05 helper lemmas: what the normal form keeps of a forest — the elements and their nesting, every visible
    character of text in document order, every special string. -/
namespace BS.Render

/-! ### elements -/

mutual
/-- the forest with everything but the elements (by the name a re-parse reads) and their nesting forgotten -/
def skelN : Node → List Node
  | .tag i ks => [.tag ⟨fullName i, none, [], false, false⟩ (skelL ks)]
  | .str _ _ => []
def skelL : List Node → List Node
  | [] => []
  | n :: ns => skelN n ++ skelL ns
end

theorem skelL_append : ∀ (a b : List Node), skelL (a ++ b) = skelL a ++ skelL b
  | [], b => by simp [skelL]
  | x :: xs, b => by simp [skelL, skelL_append xs b, List.append_assoc]

theorem skelL_txt (p : PCfg) (ctx : Ctx) (b : List PStr) : skelL (txt p ctx b) = [] := by
  cases b <;> simp [txt, skelL, skelN]

mutual
theorem skel_absorb (p : PCfg) (f : Fmt) : ∀ (ds : List Node) (ctx : Ctx) (b : List PStr),
    skelL (absorb p f ctx b ds).1 = skelL ds
  | [], _, _ => by simp [absorb_nil, skelL]
  | d :: ds, ctx, b => by
    rw [absorb_cons]
    simp only [skelL_append, skel_absorb1 p f d ctx b, skel_absorb p f ds ctx _, skelL]
theorem skel_absorb1 (p : PCfg) (f : Fmt) : ∀ (d : Node) (ctx : Ctx) (b : List PStr),
    skelL (absorb1 p f ctx b d).1 = skelN d
  | .str c s, ctx, b => by
    simp only [absorb1, skelN]
    cases strKind c s with
    | text t => simp [skelL]
    | special c' s' nl => simp [skelL_append, skelL_txt, skelL, skelN]
  | .tag i ks, ctx, b => by
    have hfn : fullName ⟨fullName i, none, normAttrs p f (fullName i) i.attrs, p.isVoid (fullName i), false⟩ = fullName i := by
      simp [fullName, prefixStr]
    simp only [absorb1, skelL_append, skelL_txt, skelL, skelN, hfn, skel_absorb p f ks, List.nil_append, List.append_nil]
end

/-- **same elements**: the normal form has the same elements in the same nesting and order -/
theorem skel_normalise (p : PCfg) (f : Fmt) (ds : List Node) : skelL (normaliseL p f ds) = skelL ds := by
  simp only [normaliseL, skelL_append, skelL_txt, skel_absorb, List.append_nil]

/-! ### text -/

/-- the visible characters of a string: everything but ASCII whitespace -/
def inkS (p : PCfg) (s : PStr) : PStr := s.filter fun c => !p.asciiSpaces.contains c

mutual
/-- the visible characters of all character data below a node, in document order -/
def inkN (p : PCfg) : Node → PStr
  | .tag _ ks => inkL p ks
  | .str c s =>
    match strKind c s with
    | .text t => inkS p t
    | .special _ _ _ => []
def inkL (p : PCfg) : List Node → PStr
  | [] => []
  | n :: ns => inkN p n ++ inkL p ns
end

theorem inkL_append (p : PCfg) : ∀ (a b : List Node), inkL p (a ++ b) = inkL p a ++ inkL p b
  | [], b => by simp [inkL]
  | x :: xs, b => by simp [inkL, inkL_append p xs b, List.append_assoc]

theorem inkS_append (p : PCfg) (a b : PStr) : inkS p (a ++ b) = inkS p a ++ inkS p b := by simp [inkS]

theorem inkS_sp (p : PCfg) (s : PStr) (h : s.all (fun c => p.asciiSpaces.contains c) = true) : inkS p s = [] := by
  simp only [inkS, List.filter_eq_nil_iff]
  intro c hc
  have := (List.all_eq_true.mp h) c hc
  simpa using this

theorem inkS_wsRule (p : PCfg) (h10 : p.asciiSpaces.contains 10 = true) (h32 : p.asciiSpaces.contains 32 = true)
    (pres : Bool) (s : PStr) : inkS p (wsRule p pres s) = inkS p s := by
  unfold wsRule
  split
  · rename_i hc
    have hs : s.all (fun c => p.asciiSpaces.contains c) = true := by
      simp only [Bool.and_eq_true] at hc; exact hc.2
    rw [inkS_sp p s hs]
    have h10' : 10 ∈ p.asciiSpaces := by simpa using h10
    have h32' : 32 ∈ p.asciiSpaces := by simpa using h32
    split <;> simp [inkS, h10', h32']
  · rfl

theorem inkS_concat (p : PCfg) : ∀ (b : List PStr) (x : PStr), inkS p (concatL (b ++ [x])) = inkS p (concatL b) ++ inkS p x
  | [], x => by simp [concatL, inkS]
  | y :: ys, x => by simp only [List.cons_append, concatL, inkS_append, inkS_concat p ys x, List.append_assoc]

theorem inkL_txt (p : PCfg) (h10 : p.asciiSpaces.contains 10 = true) (h32 : p.asciiSpaces.contains 32 = true)
    (ctx : Ctx) (hctx : CtxOK ctx) (b : List PStr) : inkL p (txt p ctx b) = inkS p (concatL b) := by
  cases b with
  | nil => simp [txt, inkL, concatL, inkS]
  | cons x xs =>
    have : strKind (ctx.cont.getD .navigable) (wsRule p ctx.pres (concatL (x :: xs))) = .text (wsRule p ctx.pres (concatL (x :: xs))) :=
      strKind_text _ hctx
    simp [txt, inkL, inkN, this, inkS_wsRule p h10 h32]

mutual
theorem ink_absorb (p : PCfg) (f : Fmt) (hc : contOK p = true) (h10 : p.asciiSpaces.contains 10 = true)
    (h32 : p.asciiSpaces.contains 32 = true) : ∀ (ds : List Node) (ctx : Ctx) (b : List PStr), CtxOK ctx →
    inkL p (absorb p f ctx b ds).1 ++ inkS p (concatL (absorb p f ctx b ds).2) = inkS p (concatL b) ++ inkL p ds
  | [], _, _, _ => by simp [absorb_nil, inkL]
  | d :: ds, ctx, b, hctx => by
    rw [absorb_cons]
    simp only [inkL_append, inkL, List.append_assoc]
    rw [ink_absorb p f hc h10 h32 ds ctx _ hctx, ← List.append_assoc, ink_absorb1 p f hc h10 h32 d ctx b hctx,
      List.append_assoc]
theorem ink_absorb1 (p : PCfg) (f : Fmt) (hc : contOK p = true) (h10 : p.asciiSpaces.contains 10 = true)
    (h32 : p.asciiSpaces.contains 32 = true) : ∀ (d : Node) (ctx : Ctx) (b : List PStr), CtxOK ctx →
    inkL p (absorb1 p f ctx b d).1 ++ inkS p (concatL (absorb1 p f ctx b d).2) = inkS p (concatL b) ++ inkN p d
  | .str c s, ctx, b, hctx => by
    simp only [absorb1, inkN]
    cases hk : strKind c s with
    | text t =>
      by_cases he : t.isEmpty = true
      · have : t = [] := by simpa using he
        simp [he, this, inkL, inkS]
      · simp [he, inkL, inkS_concat]
    | special c' s' nl =>
      have hfix := strKind_special_fix hk (wsRule p ctx.pres s')
      have h10' : 10 ∈ p.asciiSpaces := by simpa using h10
      cases nl <;> simp [inkL_append, inkL_txt p h10 h32 ctx hctx, inkL, inkN, hfix, concatL, inkS, h10']
  | .tag i ks, ctx, b, hctx => by
    have hctx' := ctxOK_push p hc ctx hctx (fullName i)
    have hk := ink_absorb p f hc h10 h32 ks (pushCtx p ctx (fullName i)) [] hctx'
    simp only [concatL, inkS, List.filter_nil, List.nil_append] at hk
    simp only [absorb1, inkL_append, inkL_txt p h10 h32 ctx hctx, inkL, inkN, inkL_txt p h10 h32 _ hctx', concatL, List.append_nil]
    simp only [inkS] at hk ⊢
    rw [hk]
    simp
end

/-- **same text**: every visible character of the character data survives, in document order (what may change is
    ASCII whitespace: whitespace-only runs collapse, a newline follows a doctype) -/
theorem ink_normalise (p : PCfg) (f : Fmt) (hc : contOK p = true) (h10 : p.asciiSpaces.contains 10 = true)
    (h32 : p.asciiSpaces.contains 32 = true) (ds : List Node) : inkL p (normaliseL p f ds) = inkL p ds := by
  have hctx := ctxOK_root p hc
  have := ink_absorb p f hc h10 h32 ds (ctxOf p [rootFrame]) [] hctx
  simp only [normaliseL, inkL_append, inkL_txt p h10 h32 _ hctx]
  simpa [concatL, inkS] using this

/-! ### special strings -/

mutual
/-- the special strings below a node as a re-parse classifies them, in document order -/
def specN : Node → List (SCls × PStr)
  | .tag _ ks => specL ks
  | .str c s =>
    match strKind c s with
    | .text _ => []
    | .special c' s' _ => [(c', s')]
def specL : List Node → List (SCls × PStr)
  | [] => []
  | n :: ns => specN n ++ specL ns
end

mutual
/-- the same with the whitespace rule of `endData` applied to each in its context (inside `<pre>`/`<textarea>`: as is) -/
def specCtxN (p : PCfg) (ctx : Ctx) : Node → List (SCls × PStr)
  | .tag i ks => specCtxL p (pushCtx p ctx (fullName i)) ks
  | .str c s =>
    match strKind c s with
    | .text _ => []
    | .special c' s' _ => [(c', wsRule p ctx.pres s')]
def specCtxL (p : PCfg) (ctx : Ctx) : List Node → List (SCls × PStr)
  | [] => []
  | n :: ns => specCtxN p ctx n ++ specCtxL p ctx ns
end

theorem specL_append : ∀ (a b : List Node), specL (a ++ b) = specL a ++ specL b
  | [], b => by simp [specL]
  | x :: xs, b => by simp [specL, specL_append xs b, List.append_assoc]

theorem specL_txt (p : PCfg) (ctx : Ctx) (hctx : CtxOK ctx) (b : List PStr) : specL (txt p ctx b) = [] := by
  cases b with
  | nil => simp [txt, specL]
  | cons x xs =>
    have : strKind (ctx.cont.getD .navigable) (wsRule p ctx.pres (concatL (x :: xs))) = .text (wsRule p ctx.pres (concatL (x :: xs))) :=
      strKind_text _ hctx
    simp [txt, specL, specN, this]

mutual
theorem spec_absorb (p : PCfg) (f : Fmt) (hc : contOK p = true) : ∀ (ds : List Node) (ctx : Ctx) (b : List PStr), CtxOK ctx →
    specL (absorb p f ctx b ds).1 = specCtxL p ctx ds
  | [], _, _, _ => by simp [absorb_nil, specL, specCtxL]
  | d :: ds, ctx, b, hctx => by
    rw [absorb_cons]
    simp only [specL_append, spec_absorb1 p f hc d ctx b hctx, spec_absorb p f hc ds ctx _ hctx, specCtxL]
theorem spec_absorb1 (p : PCfg) (f : Fmt) (hc : contOK p = true) : ∀ (d : Node) (ctx : Ctx) (b : List PStr), CtxOK ctx →
    specL (absorb1 p f ctx b d).1 = specCtxN p ctx d
  | .str c s, ctx, b, hctx => by
    simp only [absorb1, specCtxN]
    cases hk : strKind c s with
    | text t => simp [specL]
    | special c' s' nl =>
      have hfix := strKind_special_fix hk (wsRule p ctx.pres s')
      simp [specL_append, specL_txt p ctx hctx, specL, specN, hfix]
  | .tag i ks, ctx, b, hctx => by
    have hctx' := ctxOK_push p hc ctx hctx (fullName i)
    simp only [absorb1, specL_append, specL_txt p ctx hctx, specL, specN, specCtxN, specL_txt p _ hctx',
      spec_absorb p f hc ks _ [] hctx', List.nil_append, List.append_nil]
end

/-- **same special strings**: class by class and in order, with their content — a whitespace-only content collapsed
    once by the whitespace rule of its context -/
theorem spec_normalise (p : PCfg) (f : Fmt) (hc : contOK p = true) (ds : List Node) :
    specL (normaliseL p f ds) = specCtxL p (ctxOf p [rootFrame]) ds := by
  have hctx := ctxOK_root p hc
  simp only [normaliseL, specL_append, specL_txt p _ hctx, spec_absorb p f hc ds _ [] hctx, List.append_nil]

/-- the whitespace rule changes nothing but whitespace-only strings -/
theorem wsRule_cases (p : PCfg) (pres : Bool) (s : PStr) :
    wsRule p pres s = s ∨ (s.all (fun c => p.asciiSpaces.contains c) = true ∧ (wsRule p pres s = [10] ∨ wsRule p pres s = [32])) := by
  unfold wsRule
  split
  · rename_i h
    simp only [Bool.and_eq_true] at h
    right
    refine ⟨h.2, ?_⟩
    split <;> simp
  · exact Or.inl rfl

end BS.Render
