import BSModel.Proofs.ReparseLaws
/-! C05 helper lemmas: the normal form of a representable forest is representable again (so the second round trip
    needs no hypothesis about the intermediate tree). -/
namespace BS.Render

theorem okStr_text {c : SCls} (s : PStr) (h : isTextCls c = true) : okStr c s = !s.isEmpty := by
  cases c <;> simp_all [isTextCls, okStr]

theorem representableL_append (p : PCfg) (f : Fmt) : ∀ (a b : List Node),
    representableL p f (a ++ b) = (representableL p f a && representableL p f b)
  | [], b => by simp [representableL]
  | x :: xs, b => by simp [representableL, representableL_append p f xs b, Bool.and_assoc]

/-- a special string stays acceptable under the class it comes back with and the whitespace rule -/
theorem okStr_special (p : PCfg) (pres : Bool) {c c' : SCls} {s s' : PStr} {nl : Bool} (h : okStr c s = true)
    (hk : strKind c s = .special c' s' nl) : okStr c' (wsRule p pres s') = true := by
  have hbase : okStr c' s' = true := by
    cases c <;> simp only [strKind, SK.special.injEq, reduceCtorEq] at hk <;> obtain ⟨rfl, rfl, _⟩ := hk <;>
      simp_all [okStr]
  have hsmall : okStr c' [10] = true ∧ okStr c' [32] = true := by
    cases c <;> simp only [strKind, SK.special.injEq, reduceCtorEq] at hk <;> obtain ⟨rfl, _, _⟩ := hk <;> decide
  rcases wsRule_cases p pres s' with h1 | ⟨_, h1 | h1⟩
  · rw [h1]; exact hbase
  · rw [h1]; exact hsmall.1
  · rw [h1]; exact hsmall.2

theorem representableL_txt (p : PCfg) (f : Fmt) (ctx : Ctx) (hctx : CtxOK ctx) (b : List PStr) (hb : ∀ x ∈ b, x ≠ []) :
    representableL p f (txt p ctx b) = true := by
  cases b with
  | nil => simp [txt, representableL]
  | cons x xs =>
    have hne := wsRule_ne_nil p ctx.pres _ (concatL_ne_nil (x :: xs) (by simp) hb)
    have : okStr (ctx.cont.getD .navigable) (wsRule p ctx.pres (concatL (x :: xs))) = true := by
      have h0 := okStr_text (c := ctx.cont.getD .navigable) (wsRule p ctx.pres (concatL (x :: xs))) hctx
      rw [h0]
      cases hw : wsRule p ctx.pres (concatL (x :: xs)) with
      | nil => exact absurd hw hne
      | cons a as => rfl
    simp [txt, representableL, representable, this]

/-! ### the content of script/style -/

def strOf : Node → PStr
  | .str _ s => s
  | .tag _ _ => []

theorem absorb_text (p : PCfg) (f : Fmt) (ctx : Ctx) : ∀ (ks : List Node) (b : List PStr), ks.all isTextNode = true →
    absorb p f ctx b ks = ([], b ++ ks.map strOf)
  | [], b, _ => by simp [absorb_nil]
  | .tag _ _ :: _, _, h => by simp [isTextNode] at h
  | .str c s :: ks, b, h => by
    simp only [List.all_cons, Bool.and_eq_true, isTextNode] at h
    have hks : strKind c s = .text s := strKind_text s h.1.1
    have hne : s.isEmpty = false := by simpa using h.1.2
    rw [absorb_cons]
    simp only [absorb1, hks, hne, Bool.false_eq_true, if_false, absorb_text p f ctx ks _ h.2]
    simp [strOf]

theorem concat_strOf : ∀ (ks : List Node), ks.all isTextNode = true → concatL (ks.map strOf) = rawText ks
  | [], _ => rfl
  | .tag _ _ :: _, h => by simp [isTextNode] at h
  | .str c s :: ks, h => by
    simp only [List.all_cons, Bool.and_eq_true] at h
    simp [concatL, strOf, rawText, concat_strOf ks h.2]

theorem hasSub_small (x : Nat) : hasSub [60, 47] [x] = false := by
  simp [hasSub, List.isPrefixOf]

theorem rawKids_normal (p : PCfg) (f : Fmt) (ctx : Ctx) (hctx : CtxOK ctx) (ks : List Node) (h : rawKidsOK ks = true) :
    rawKidsOK ((absorb p f ctx [] ks).1 ++ txt p ctx (absorb p f ctx [] ks).2) = true := by
  simp only [rawKidsOK, Bool.and_eq_true] at h
  rw [absorb_text p f ctx ks [] h.1]
  simp only [List.nil_append]
  cases ks with
  | nil => simp [txt, rawKidsOK, rawText, hasSub]
  | cons k ks' =>
    have hall : ∀ x ∈ (k :: ks').map strOf, x ≠ [] := by
      intro x hx
      obtain ⟨n, hn, rfl⟩ := List.mem_map.mp hx
      have := (List.all_eq_true.mp h.1) n hn
      cases n with
      | tag _ _ => simp [isTextNode] at this
      | str c s =>
        simp only [isTextNode, Bool.and_eq_true] at this
        intro h0; simp [strOf] at h0; simp [h0] at this
    have hcat := concat_strOf (k :: ks') h.1
    have hne := wsRule_ne_nil p ctx.pres _ (concatL_ne_nil ((k :: ks').map strOf) (by simp) hall)
    have htxt : txt p ctx ((k :: ks').map strOf) =
        [Node.str (ctx.cont.getD .navigable) (wsRule p ctx.pres (concatL ((k :: ks').map strOf)))] := by
      simp [txt]
    rw [htxt]
    have hsub : hasSub [60, 47] (wsRule p ctx.pres (concatL ((k :: ks').map strOf))) = false := by
      rcases wsRule_cases p ctx.pres (concatL ((k :: ks').map strOf)) with h1 | ⟨_, h1 | h1⟩
      · rw [h1, hcat]; simpa using h.2
      · rw [h1]; exact hasSub_small 10
      · rw [h1]; exact hasSub_small 32
    have hemp : (wsRule p ctx.pres (concatL ((k :: ks').map strOf))).isEmpty = false := by
      cases hw : wsRule p ctx.pres (concatL ((k :: ks').map strOf)) with
      | nil => exact absurd hw hne
      | cons a as => rfl
    have hcls : isTextCls (ctx.cont.getD .navigable) = true := hctx
    generalize wsRule p ctx.pres (concatL ((k :: ks').map strOf)) = W at hsub hemp
    simp only [rawKidsOK, List.all_cons, List.all_nil, isTextNode, rawText, List.append_nil, hcls, hemp, hsub,
      Bool.not_false, Bool.and_self]

/-! ### the keys of the normalised attributes are keys of the original -/

theorem fold_keys_subset : ∀ (evs : List (PStr × Option PStr)) (d : List (PStr × PStr)) (k : PStr),
    k ∈ (evs.foldl adaptStep d).map (·.1) → k ∈ d.map (·.1) ∨ k ∈ evs.map (·.1)
  | [], d, k, h => Or.inl h
  | e :: rest, d, k, h => by
    simp only [List.foldl_cons] at h
    rcases fold_keys_subset rest _ k h with h1 | h1
    · simp only [adaptStep, dictSet_keys] at h1
      split at h1
      · exact Or.inl h1
      · simp only [List.mem_append, List.mem_singleton] at h1
        rcases h1 with h1 | h1
        · exact Or.inl h1
        · exact Or.inr (by simp [h1])
    · exact Or.inr (by simp [h1])

theorem normAttrs_keys_subset (p : PCfg) (f : Fmt) (nm : PStr) (a : List (PStr × AVal)) (k : PStr)
    (h : k ∈ (normAttrs p f nm a).map (·.1)) : k ∈ a.map (·.1) := by
  have h1 : k ∈ (adaptAttrs (evAttrs f a)).map (·.1) := by
    simpa [normAttrs, buildAttrs, List.map_map, Function.comp_def] using h
  rw [adaptAttrs_eq] at h1
  rcases fold_keys_subset _ _ k h1 with h2 | h2
  · simp at h2
  · have h3 : k ∈ (fmtAttributes f a).map (·.1) := by
      simpa [evAttrs, List.map_map, Function.comp_def] using h2
    unfold fmtAttributes at h3
    have hp := (sortAttrs_perm (a.map fun kv => (kv.1, if f.emptyBool && kv.2 == AVal.str [] then AVal.none else kv.2))).map (·.1)
    have h4 := hp.mem_iff.mp h3
    simpa [List.map_map, Function.comp_def] using h4

/-! ### preservation -/

/-- writer and reader agree on which names have raw content (HTML formatters), or the writer has none (XML formatters) -/
def CdataAgree (p : PCfg) (f : Fmt) : Prop := f.cdataTags = p.cdataElems ∨ f.cdataTags = []

mutual
theorem reprL_absorb (p : PCfg) (f : Fmt) (hc : contOK p = true) (hcd : CdataAgree p f) :
    ∀ (ds : List Node) (ctx : Ctx) (b : List PStr), CtxOK ctx → (∀ x ∈ b, x ≠ []) → representableL p f ds = true →
      representableL p f (absorb p f ctx b ds).1 = true ∧ (∀ x ∈ (absorb p f ctx b ds).2, x ≠ [])
  | [], _, b, _, hb, _ => by simp [absorb_nil, representableL]; exact hb
  | d :: ds, ctx, b, hctx, hb, hr => by
    simp only [representableL, Bool.and_eq_true] at hr
    obtain ⟨h1, h2⟩ := repr1_absorb p f hc hcd d ctx b hctx hb hr.1
    obtain ⟨h3, h4⟩ := reprL_absorb p f hc hcd ds ctx _ hctx h2 hr.2
    rw [absorb_cons]
    exact ⟨by simp [representableL_append, h1, h3], h4⟩
theorem repr1_absorb (p : PCfg) (f : Fmt) (hc : contOK p = true) (hcd : CdataAgree p f) :
    ∀ (d : Node) (ctx : Ctx) (b : List PStr), CtxOK ctx → (∀ x ∈ b, x ≠ []) → representable p f d = true →
      representableL p f (absorb1 p f ctx b d).1 = true ∧ (∀ x ∈ (absorb1 p f ctx b d).2, x ≠ [])
  | .str c s, ctx, b, hctx, hb, hr => by
    simp only [representable] at hr
    simp only [absorb1]
    cases hk : strKind c s with
    | text t =>
      refine ⟨by simp [representableL], ?_⟩
      by_cases he : t.isEmpty = true
      · simpa [he] using hb
      · simp only [he, Bool.false_eq_true, if_false]
        intro x hx
        simp only [List.mem_append, List.mem_singleton] at hx
        rcases hx with hx | hx
        · exact hb x hx
        · subst hx; intro h0; simp [h0] at he
    | special c' s' nl =>
      have hs := okStr_special p ctx.pres hr hk
      refine ⟨?_, ?_⟩
      · simp [representableL_append, representableL_txt p f ctx hctx b hb, representableL, representable, hs]
      · cases nl <;> simp
  | .tag i ks, ctx, b, hctx, hb, hr => by
    simp only [representable, Bool.and_eq_true, beq_iff_eq] at hr
    obtain ⟨⟨⟨⟨⟨⟨hhid, hname⟩, hvoid⟩, hcdeq⟩, _⟩, hattr⟩, hkids⟩ := hr
    have hctx' := ctxOK_push p hc ctx hctx (fullName i)
    simp only [absorb1]
    refine ⟨?_, by simp⟩
    have hfn : fullName ⟨fullName i, none, normAttrs p f (fullName i) i.attrs, p.isVoid (fullName i), false⟩ = fullName i := by
      simp [fullName, prefixStr]
    -- the element itself
    have hself : representable p f (Node.tag ⟨fullName i, none, normAttrs p f (fullName i) i.attrs, p.isVoid (fullName i), false⟩
        ((absorb p f (pushCtx p ctx (fullName i)) [] ks).1 ++ txt p (pushCtx p ctx (fullName i)) (absorb p f (pushCtx p ctx (fullName i)) [] ks).2)) = true := by
      simp only [representable, hfn, Bool.and_eq_true, beq_iff_eq, Bool.not_false, true_and]
      refine ⟨⟨⟨⟨⟨hname, ?_⟩, ?_⟩, ?_⟩, ?_⟩, ?_⟩
      · -- void: no children before, none after
        cases hv : p.isVoid (fullName i) with
        | false => simp
        | true =>
          have : ks = [] := by
            simp only [hv, Bool.not_true, Bool.false_or] at hvoid
            cases ks with
            | nil => rfl
            | cons a b => simp at hvoid
          subst this
          simp [absorb_nil, txt]
      · -- raw content: writer and reader still agree
        rcases hcd with h | h
        · rw [h]
        · rw [h] at hcdeq ⊢
          simpa using hcdeq
      · exact (keysNodup_iff _).mpr (strictK_nodup _ (normAttrs_strict p f (fullName i) i.attrs))
      · rw [List.all_eq_true]
        intro kv hkv
        have hk : kv.1 ∈ i.attrs.map (·.1) :=
          normAttrs_keys_subset p f (fullName i) i.attrs kv.1 (List.mem_map.mpr ⟨kv, hkv, rfl⟩)
        obtain ⟨kv', hkv', he⟩ := List.mem_map.mp hk
        have := (List.all_eq_true.mp hattr) kv' hkv'
        rw [← he]; exact this
      · by_cases hraw : p.cdataElems.contains (fullName i) = true
        · simp only [hraw, if_true] at hkids ⊢
          exact rawKids_normal p f _ hctx' ks hkids
        · have hraw' : p.cdataElems.contains (fullName i) = false := by simpa using hraw
          simp only [hraw', Bool.false_eq_true, if_false] at hkids ⊢
          obtain ⟨h1, h2⟩ := reprL_absorb p f hc hcd ks (pushCtx p ctx (fullName i)) [] hctx' (by simp) hkids
          simp [representableL_append, h1, representableL_txt p f _ hctx' _ h2]
    simp only [representableL_append, representableL_txt p f ctx hctx b hb, representableL, hself, Bool.and_self]
end

/-- **the normal form of a representable forest is representable** -/
theorem representable_normalise (p : PCfg) (f : Fmt) (hc : contOK p = true) (hcd : CdataAgree p f) (ds : List Node)
    (h : representableL p f ds = true) : representableL p f (normaliseL p f ds) = true := by
  have hctx := ctxOK_root p hc
  obtain ⟨h1, h2⟩ := reprL_absorb p f hc hcd ds (ctxOf p [rootFrame]) [] hctx (by simp) h
  simp [normaliseL, representableL_append, h1, representableL_txt p f _ hctx _ h2]

end BS.Render
